(* C09: proofs about the executable model of Auth/Model.v.
   - the gate: a node call is made only for a request that carries the configured token or a
     bearer token the JWT verdict accepts; everything else routed to the node handler gets 401
     and no call at all (for every method, path, body);
   - log-in: userCheck returns something exactly when some user node with matching credentials
     has a path of non-deleted edges to the root sentinel (on well-formed, i.e. acyclic, stores),
     via the generic upward-walk theory of Store/GraphWalk.v;
   - listing: everything GetNodesForUser returns lies in the subtree (through non-deleted edges)
     of a place the user is attached to.
   The JWT verdict (HMAC-SHA256 under the instance key, expiry) is the section variable [jwt_ok]. *)
From Verif Require Import Base.Bytes Base.Val Store.GraphCount Store.GraphWalk Store.Model Store.ProofsRows Store.ProofsHash
  Store.ProofsTop Auth.Model.
Local Open Scope N_scope.

(* ================= the gate ================= *)
Section GateProofs.
Variable jwt_ok : bytes -> option bytes.

(* the request carries valid credentials *)
Definition authorised (token hdr : bytes) : Prop :=
  hdr = token \/ exists t uid, bearer hdr = Some t /\ jwt_ok t = Some uid.

Lemma gate_serve token hdr vu uid : gate jwt_ok token hdr = Serve vu uid -> authorised token hdr.
Proof.
  unfold gate, key_valid. destruct (bytes_eqb hdr token) eqn:E.
  - intros _. left. apply bytes_eqb_eq. exact E.
  - destruct (bearer hdr) as [t|] eqn:Eb; [|discriminate].
    destruct (jwt_ok t) as [u|] eqn:Ej; [|discriminate].
    intros _. right. exists t, u. split; [exact Eb|exact Ej].
Qed.

Lemma gate_reject token hdr : ~ authorised token hdr -> gate jwt_ok token hdr = Reject401.
Proof.
  intros H. destruct (gate jwt_ok token hdr) as [vu uid|] eqn:E; [|reflexivity].
  exfalso. apply H. eapply gate_serve. exact E.
Qed.

Lemma gate_token token : exists vu uid, gate jwt_ok token token = Serve vu uid.
Proof. unfold gate. rewrite bytes_eqb_refl. eauto. Qed.

Lemma gate_bearer token hdr t uid : bearer hdr = Some t -> jwt_ok t = Some uid ->
  exists vu uid', gate jwt_ok token hdr = Serve vu uid'.
Proof.
  intros Hb Hj. unfold gate, key_valid. destruct (bytes_eqb hdr token); [eauto|]. rewrite Hb, Hj. eauto.
Qed.

(* the gate lets a request through exactly when it carries valid credentials *)
Theorem gate_iff token hdr : (exists vu uid, gate jwt_ok token hdr = Serve vu uid) <-> authorised token hdr.
Proof.
  split.
  - intros (vu & uid & H). eapply gate_serve. exact H.
  - intros [->|(t & uid & Hb & Hj)]; [apply gate_token|eapply gate_bearer; eassumption].
Qed.

(* an absent (or empty) header never passes when a token is configured *)
Lemma absent_rejected token : token <> [] -> ~ authorised token [].
Proof.
  intros Ht [H|(t & uid & Hb & _)]; [apply Ht; symmetry; exact H|]. cbn in Hb. discriminate.
Qed.

(* every call a request leads to, other than the log-in itself, presupposes valid credentials *)
Theorem serve_calls_authorised token q c :
  In c (effects (serve jwt_ok token q)) -> is_node_call c = true -> authorised token (r_hdr q).
Proof.
  unfold serve. destruct (app_route (r_path q)) as [| | |rest]; cbn [effects In]; try contradiction.
  - destruct (bytes_eqb (r_method q) k_POST); cbn [effects In]; [|contradiction].
    intros [<-|[]]. cbn. discriminate.
  - destruct (gate jwt_ok token (r_hdr q)) as [vu uid|] eqn:E; [|cbn; contradiction].
    intros _ _. eapply gate_serve. exact E.
Qed.

(* without valid credentials: 401 on the node handler and no call; elsewhere at most the log-in call *)
Theorem serve_unauthorised token q : ~ authorised token (r_hdr q) ->
  (forall rest, app_route (r_path q) = TNodes rest ->
     serve jwt_ok token q = R401 /\ effects (serve jwt_ok token q) = []) /\
  (forall c, In c (effects (serve jwt_ok token q)) -> c = CUserCheck).
Proof.
  intros Hna. split.
  - intros rest Hr. unfold serve. rewrite Hr, (gate_reject _ _ Hna). split; reflexivity.
  - intros c Hc. destruct c; try reflexivity; exfalso; apply Hna; eapply serve_calls_authorised; try exact Hc; reflexivity.
Qed.

(* the property of the gate in one statement *)
Theorem gate_main token q : token <> [] ->
  (forall c, In c (effects (serve jwt_ok token q)) -> is_node_call c = true -> authorised token (r_hdr q)) /\
  (~ authorised token (r_hdr q) ->
     (forall rest, app_route (r_path q) = TNodes rest ->
        serve jwt_ok token q = R401 /\ effects (serve jwt_ok token q) = []) /\
     (forall c, In c (effects (serve jwt_ok token q)) -> c = CUserCheck)).
Proof.
  intros _. split; [intros c; apply serve_calls_authorised|apply serve_unauthorised].
Qed.

(* the response of the node handler is decided after the gate only: with credentials refused, the
   method, the rest of the path and the body play no role *)
Theorem serve_unauthorised_any token m1 m2 p hdr b1 b2 d1 d2 rest :
  ~ authorised token hdr -> app_route p = TNodes rest ->
  serve jwt_ok token (mkReq m1 p hdr b1 d1) = R401 /\ serve jwt_ok token (mkReq m2 p hdr b2 d2) = R401.
Proof.
  intros Hna Hr. unfold serve. cbn [r_path r_hdr]. rewrite Hr, (gate_reject _ _ Hna). split; reflexivity.
Qed.

(* valid credentials are never answered with 401 *)
Theorem serve_authorised token q : authorised token (r_hdr q) -> serve jwt_ok token q <> R401.
Proof.
  intros Ha. apply gate_iff in Ha as (vu & uid & Hg). unfold serve.
  destruct (app_route (r_path q)) as [| | |rest]; try discriminate.
  - destruct (bytes_eqb (r_method q) k_POST); discriminate.
  - rewrite Hg. unfold nodes_route, with_body, shift.
    destruct (hd [] rest); [destruct (bytes_eqb (r_method q) k_GET); [destruct vu; discriminate|];
      destruct (bytes_eqb (r_method q) k_POST); [destruct (r_body_ok q)|]; discriminate|].
    destruct (hd [] (tl rest)).
    + destruct (bytes_eqb (r_method q) k_GET); [discriminate|].
      destruct (bytes_eqb (r_method q) k_DELETE); [destruct (r_body_ok q)|]; discriminate.
    + destruct (bytes_eqb _ k_samples || bytes_eqb _ k_points).
      { destruct (bytes_eqb (r_method q) k_POST); [destruct (r_body_ok q)|]; discriminate. }
      destruct (bytes_eqb _ k_parents).
      { destruct (bytes_eqb (r_method q) k_POST); [destruct (r_body_ok q); discriminate|].
        destruct (bytes_eqb (r_method q) k_PUT); [destruct (r_body_ok q)|]; discriminate. }
      destruct (bytes_eqb _ k_not); [|discriminate].
      destruct (bytes_eqb (r_method q) k_POST); [destruct (r_body_ok q)|]; discriminate.
Qed.
End GateProofs.

(* the bus: with a token configured, a connection is accepted exactly when it presents that token *)
Theorem bus_iff token presented : token <> [] ->
  (bus_accepts token presented = true <-> presented = Some token).
Proof.
  intros Ht. unfold bus_accepts. destruct token as [|b token]; [contradiction|].
  destruct presented as [t|]; [|split; discriminate].
  rewrite bytes_eqb_eq. split; [intros ->; reflexivity|intros E; inversion E; reflexivity].
Qed.

(* ================= log-in ================= *)
Notation gpsel := (GraphWalk.psel bytes bytes_eqb edge e_down).

(* the edge test of the walk and the one of the node reads *)
Definition sel_uc (e : edge) : bool := negb (uc_deleted e).
Definition sel_live (e : edge) : bool := negb (edge_is_tomb e).

(* the two notions of "deleted" used by userCheck agree on every edge *)
Definition tomb_consistent (G : list edge) : Prop := forall e, In e G -> uc_deleted e = edge_is_tomb e.

Definition is_tomb_point (p : point) : bool := bytes_eqb (p_type p) str_tombstone.
Definition one_bits : N := 0x3FF0000000000000.

(* sufficient: every tombstone point of an edge has key "0", carries 0 or 1, and they all agree *)
Lemma tomb_consistent_simple G :
  (forall e, In e G -> forall p, In p (e_pts e) -> is_tomb_point p = true ->
     p_key p = str_0 /\ (p_val p = 0 \/ p_val p = one_bits)) ->
  (forall e, In e G -> forall p q, In p (e_pts e) -> In q (e_pts e) -> is_tomb_point p = true -> is_tomb_point q = true ->
     p_val p = p_val q) ->
  tomb_consistent G.
Proof.
  intros H1 H2 e He. unfold uc_deleted, edge_is_tomb, edge_tomb_val.
  destruct (find _ (e_pts e)) as [p0|] eqn:Ef.
  - apply find_some in Ef as (Hp0 & Hc). apply andb_prop in Hc as (Ht0 & _).
    destruct (H1 e He p0 Hp0 Ht0) as (_ & Hv0).
    destruct (existsb _ (e_pts e)) eqn:Ex.
    + apply existsb_exists in Ex as (p & Hp & Hc). apply andb_prop in Hc as (Ht & Hnz).
      rewrite <- (H2 e He p p0 Hp Hp0 Ht Ht0).
      destruct (H1 e He p Hp Ht) as (_ & [Hv|Hv]); rewrite Hv in *; [discriminate|reflexivity].
    + destruct Hv0 as [Hv|Hv]; rewrite Hv; [reflexivity|exfalso].
      assert (existsb (fun p => bytes_eqb (p_type p) str_tombstone && negb (f64_is_zero (p_val p))) (e_pts e) = true); [|congruence].
      apply existsb_exists. exists p0. split; [exact Hp0|]. unfold is_tomb_point in Ht0. rewrite Ht0, Hv. reflexivity.
  - destruct (existsb _ (e_pts e)) eqn:Ex; [exfalso|reflexivity].
    apply existsb_exists in Ex as (p & Hp & Hc). apply andb_prop in Hc as (Ht & _).
    destruct (H1 e He p Hp Ht) as (Hk & _).
    pose proof (find_none _ _ Ef p Hp) as Hn. cbv beta in Hn. rewrite Ht, Hk, bytes_eqb_refl in Hn. discriminate.
Qed.

(* decidable form, for concrete stores *)
Lemma tomb_consistent_dec G :
  forallb (fun e => Bool.eqb (uc_deleted e) (edge_is_tomb e)) G = true -> tomb_consistent G.
Proof.
  intros H e He. rewrite forallb_forall in H. specialize (H e He). apply eqb_prop in H. exact H.
Qed.

Lemma psel_parents G sel x : gpsel G sel x = filter sel (parents G x).
Proof.
  unfold GraphWalk.psel, parents. induction G as [|e G IH]; [reflexivity|]. cbn [filter].
  destruct (bytes_eqb (e_down e) x); cbn [andb filter]; [destruct (sel e)|]; rewrite IH; reflexivity.
Qed.

(* checkUserPathRoot is the reachability test for the sentinel "root" *)
Lemma path_root_reach_aux G : forall f y,
  (bytes_eqb y str_root || path_root G f y) = true <-> In str_root (greach G sel_uc f y).
Proof.
  induction f as [|f IH]; intros y; cbn [path_root GraphWalk.reach].
  - rewrite orb_false_r, bytes_eqb_eq. split; [intros ->; left; reflexivity|intros [H|[]]; exact H].
  - rewrite orb_true_iff, bytes_eqb_eq, existsb_exists. split.
    + intros [->|(e & He & Hc)]; [left; reflexivity|]. right.
      apply andb_prop in Hc as (Hs & Hr). apply in_flat_map. exists e. split.
      * rewrite psel_parents. apply filter_In. split; [exact He|exact Hs].
      * apply IH. exact Hr.
    + intros [H|H]; [left; exact H|]. right. apply in_flat_map in H as (e & He & Hr).
      rewrite psel_parents in He. apply filter_In in He as (He & Hs).
      exists e. split; [exact He|]. unfold sel_uc in Hs. rewrite Hs. cbn [andb]. apply IH. exact Hr.
Qed.

Lemma path_root_step G f x :
  path_root G (S f) x = true <-> exists e, In e (gpsel G sel_uc x) /\ In str_root (greach G sel_uc f (e_up e)).
Proof.
  cbn [path_root]. rewrite existsb_exists. split.
  - intros (e & He & Hc). apply andb_prop in Hc as (Hs & Hr). exists e. split.
    + rewrite psel_parents. apply filter_In. split; [exact He|exact Hs].
    + apply path_root_reach_aux. exact Hr.
  - intros (e & He & Hr). rewrite psel_parents in He. apply filter_In in He as (He & Hs).
    exists e. split; [exact He|]. unfold sel_uc in Hs. rewrite Hs. cbn [andb]. apply path_root_reach_aux. exact Hr.
Qed.

(* a non-empty upward walk through edges accepted by [sel], from x to the sentinel "root" *)
Definition path_to_root (G : list edge) (sel : edge -> bool) (x : bytes) : Prop :=
  exists l, l <> [] /\ gswalk G sel x l /\ gendpoint x l = str_root.

Theorem path_root_exact G x :
  NoDup (map e_id G) -> gacyclic G ->
  (path_root G (fuel_of G) x = true <-> path_to_root G sel_uc x).
Proof.
  intros ND Hac. unfold fuel_of. rewrite path_root_step. split.
  - intros (e & He & Hr).
    apply (GraphWalk.reach_exact_acyclic bytes bytes_eqb bytes_eqb_eq edge e_id e_up e_down G ND sel_uc) in Hr;
      [|exact Hac|lia].
    destruct Hr as (l & Hw & Hend).
    unfold GraphWalk.psel in He. apply filter_In in He as (HeG & Hc). apply andb_prop in Hc as (Hd & Hs).
    apply bytes_eqb_eq in Hd.
    exists (e :: l). split; [discriminate|]. split.
    + cbn. auto.
    + unfold GraphWalk.endpoint in *. cbn [fold_left]. exact Hend.
  - intros (l & Hne & Hw & Hend). destruct l as [|e l]; [contradiction|].
    destruct Hw as (HeG & Hs & Hd & Hw). exists e. split.
    + unfold GraphWalk.psel. apply filter_In. split; [exact HeG|]. rewrite Hs, andb_true_r. apply bytes_eqb_eq. exact Hd.
    + apply (GraphWalk.reach_exact_acyclic bytes bytes_eqb bytes_eqb_eq edge e_id e_up e_down G ND sel_uc);
        [exact Hac|lia|].
      exists l. split; [exact Hw|]. unfold GraphWalk.endpoint in *. cbn [fold_left] in Hend. exact Hend.
Qed.

Lemma swalk_sel_ext G (s1 s2 : edge -> bool) : (forall e, In e G -> s1 e = s2 e) ->
  forall l x, gswalk G s1 x l -> gswalk G s2 x l.
Proof.
  intros H. induction l as [|e l IH]; intros x Hw; [exact I|].
  destruct Hw as (He & Hs & Hd & Hw). cbn. split; [exact He|]. split; [rewrite <- (H e He); exact Hs|].
  split; [exact Hd|apply IH; exact Hw].
Qed.

Lemma path_to_root_ext G s1 s2 x : (forall e, In e G -> s1 e = s2 e) -> path_to_root G s1 x -> path_to_root G s2 x.
Proof.
  intros H (l & Hne & Hw & Hend). exists l. split; [exact Hne|]. split; [|exact Hend].
  eapply swalk_sel_ext; eassumption.
Qed.

(* a user node: some edge of type user leads into it *)
Definition user_node (st : store) (u : bytes) : Prop :=
  exists e, In e (s_edges st) /\ e_type e = k_user /\ e_down e = u.

Lemma in_live_edges G id e : In e (live_edges_of G id) <-> In e G /\ e_down e = id /\ sel_live e = true.
Proof.
  unfold live_edges_of, parents. rewrite !filter_In, bytes_eqb_eq. unfold sel_live. tauto.
Qed.

Theorem login_iff st email pass :
  wf st -> tomb_consistent (s_edges st) ->
  (user_check st email pass <> [] <->
   exists u, user_node st u /\ creds_match st u email pass = true /\ path_to_root (s_edges st) sel_live u).
Proof.
  intros W TC. set (G := s_edges st).
  assert (Hsel : forall e, In e G -> sel_uc e = sel_live e).
  { intros e He. unfold sel_uc, sel_live. rewrite (TC e He). reflexivity. }
  split.
  - intros Hne. destruct (user_check st email pass) as [|x xs] eqn:E; [contradiction|].
    assert (Hx : In x (user_check st email pass)) by (rewrite E; left; reflexivity).
    unfold user_check in Hx. fold G in Hx. apply filter_In in Hx as (Hx & Hp).
    apply in_flat_map in Hx as (id & Hid & Hx).
    apply in_map_iff in Hid as (e0 & He0d & He0). apply filter_In in He0 as (He0 & Hty). apply bytes_eqb_eq in Hty.
    assert (Hcm : creds_match st id email pass = true /\ In x (live_edges_of G id)).
    { destruct (live_edges_of G id) as [|a ne]; [contradiction|].
      destruct (creds_match st id email pass); [split; [reflexivity|exact Hx]|contradiction]. }
    destruct Hcm as (Hcm & Hxl). apply in_live_edges in Hxl as (HxG & Hxd & _).
    exists id. split; [exists e0; auto|]. split; [exact Hcm|].
    rewrite Hxd in Hp. apply (path_root_exact G id (wf_ids _ W) (wf_acyclic _ W)) in Hp.
    eapply path_to_root_ext; [|exact Hp]. exact Hsel.
  - intros (u & (e0 & He0 & Hty & Hd0) & Hcm & Hp).
    destruct Hp as (l & Hne & Hw & Hend). destruct l as [|e1 l]; [contradiction|].
    pose proof Hw as (He1 & Hs1 & Hd1 & _).
    assert (Hin : In e1 (user_check st email pass)); [|intros E; rewrite E in Hin; exact Hin].
    unfold user_check. fold G. apply filter_In. split.
    + apply in_flat_map. exists u. split.
      * apply in_map_iff. exists e0. split; [exact Hd0|]. apply filter_In. split; [exact He0|].
        apply bytes_eqb_eq. exact Hty.
      * assert (Hl : In e1 (live_edges_of G u)) by (apply in_live_edges; auto).
        destruct (live_edges_of G u) as [|a ne]; [contradiction|]. rewrite Hcm. exact Hl.
    + rewrite Hd1. apply (path_root_exact G u (wf_ids _ W) (wf_acyclic _ W)).
      apply (path_to_root_ext G sel_live sel_uc); [intros e He; symmetry; apply Hsel; exact He|].
      exists (e1 :: l). split; [discriminate|]. split; [exact Hw|exact Hend].
Qed.

(* what userCheck returns are live edges of matching, connected users: nothing else *)
Theorem login_sound st email pass x :
  wf st -> tomb_consistent (s_edges st) -> In x (user_check st email pass) ->
  In x (s_edges st) /\ sel_live x = true /\ user_node st (e_down x) /\
  creds_match st (e_down x) email pass = true /\ path_to_root (s_edges st) sel_live (e_down x).
Proof.
  intros W TC Hx. set (G := s_edges st).
  unfold user_check in Hx. fold G in Hx. apply filter_In in Hx as (Hx & Hp).
  apply in_flat_map in Hx as (id & Hid & Hx).
  apply in_map_iff in Hid as (e0 & He0d & He0). apply filter_In in He0 as (He0 & Hty). apply bytes_eqb_eq in Hty.
  assert (Hcm : creds_match st id email pass = true /\ In x (live_edges_of G id)).
  { destruct (live_edges_of G id) as [|a ne]; [contradiction|].
    destruct (creds_match st id email pass); [split; [reflexivity|exact Hx]|contradiction]. }
  destruct Hcm as (Hcm & Hxl). apply in_live_edges in Hxl as (HxG & Hxd & Hxs).
  split; [exact HxG|]. split; [exact Hxs|]. rewrite Hxd in Hp |- *.
  split; [exists e0; auto|]. split; [exact Hcm|].
  apply (path_root_exact G id (wf_ids _ W) (wf_acyclic _ W)) in Hp.
  eapply path_to_root_ext; [|exact Hp]. intros e He. unfold sel_uc, sel_live. rewrite (TC e He). reflexivity.
Qed.

(* ================= listing ================= *)
Lemma in_live_children G id e : In e (live_children_of G id) <-> In e G /\ e_up e = id /\ sel_live e = true.
Proof.
  unfold live_children_of, childs. rewrite !filter_In, bytes_eqb_eq. unfold sel_live. tauto.
Qed.

Lemma endpoint_snoc x l (e : edge) : gendpoint x (l ++ [e]) = e_up e.
Proof. unfold GraphWalk.endpoint. rewrite fold_left_app. reflexivity. Qed.

(* everything getChildren returns is a live edge whose child lies strictly below the start *)
Lemma get_children_sound G : forall f P i p, In (i, p) (get_children G f P) ->
  (exists e, In e G /\ sel_live e = true /\ e_down e = i /\ e_up e = p) /\
  exists l, l <> [] /\ gswalk G sel_live i l /\ gendpoint i l = P.
Proof.
  induction f as [|f IH]; intros P i p H; [contradiction|].
  cbn [get_children] in H. apply in_app_or in H as [H|H].
  - apply in_flat_map in H as (c & Hc & H). destruct (IH _ _ _ H) as (Hedge & l & Hne & Hw & Hend).
    split; [exact Hedge|]. apply in_live_children in Hc as (HcG & Hcu & Hcs).
    exists (l ++ [c]). split; [destruct l; discriminate|]. split.
    + apply (GraphWalk.swalk_app bytes edge e_up e_down G sel_live). split; [exact Hw|].
      fold (gendpoint i l). rewrite Hend. cbn. auto.
    + rewrite endpoint_snoc. exact Hcu.
  - apply in_map_iff in H as (c & Hc & Hin). inversion Hc; subst i p; clear Hc.
    apply in_live_children in Hin as (HcG & Hcu & Hcs).
    split; [exists c; auto|]. exists [c]. split; [discriminate|]. split; [cbn; auto|exact Hcu].
Qed.

Lemma dedup_incl : forall l seen x, In x (dedup_idparent seen l) -> In x l.
Proof.
  induction l as [|[i p] l IH]; intros seen x H; [contradiction|]. cbn [dedup_idparent] in H.
  destruct (mem_bytes (i ++ p) seen).
  - right. eapply IH. exact H.
  - destruct H as [<-|H]; [left; reflexivity|right; eapply IH; exact H].
Qed.

(* a place of the user: the parent of one of its non-deleted edges *)
Definition place_of (st : store) (uid P : bytes) : Prop :=
  exists un, In un (s_edges st) /\ e_down un = uid /\ sel_live un = true /\ e_up un = P.

Theorem listing_sound st uid i p : In (i, p) (nodes_for_user st uid) ->
  exists P, place_of st uid P /\ exists l, gswalk (s_edges st) sel_live i l /\ gendpoint i l = P.
Proof.
  intros H. unfold nodes_for_user in H. apply dedup_incl in H. unfold nodes_for_user_raw in H.
  apply in_flat_map in H as (un & Hun & H). apply in_live_edges in Hun as (HunG & Hund & Huns).
  exists (e_up un). split; [exists un; auto|].
  apply in_app_or in H as [H|H].
  - apply in_map_iff in H as (e & He & Hin). inversion He; subst i p; clear He.
    apply in_live_edges in Hin as (_ & Hd & _). exists []. split; [exact I|exact Hd].
  - destruct (get_children_sound _ _ _ _ _ H) as (_ & l & _ & Hw & Hend). exists l. auto.
Qed.

(* entries other than the places themselves are non-deleted edges of the store *)
Theorem listing_edges st uid i p : In (i, p) (nodes_for_user st uid) ->
  (p = str_root /\ exists P, place_of st uid P /\ i = P) \/
  (exists e, In e (s_edges st) /\ sel_live e = true /\ e_down e = i /\ e_up e = p).
Proof.
  intros H. unfold nodes_for_user in H. apply dedup_incl in H. unfold nodes_for_user_raw in H.
  apply in_flat_map in H as (un & Hun & H). apply in_live_edges in Hun as (HunG & Hund & Huns).
  apply in_app_or in H as [H|H].
  - left. apply in_map_iff in H as (e & He & Hin). inversion He; subst i p; clear He.
    apply in_live_edges in Hin as (_ & Hd & _). split; [reflexivity|]. exists (e_up un). split; [exists un; auto|exact Hd].
  - right. exact (proj1 (get_children_sound _ _ _ _ _ H)).
Qed.
