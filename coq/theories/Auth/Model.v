(* C09 — no node access without valid credentials; valid users can log in.
   Executable model of
     (a) the HTTP front: api/server.go App.ServeHTTP, api/v1.go V1.ServeHTTP, api/shiftpath.go,
         the gate at the top of api/nodes.go Nodes.ServeHTTP, api/key.go Key.Valid, and the route
         table of Nodes.ServeHTTP / Auth.ServeHTTP (which client call a request leads to);
     (b) store/sqlite.go userCheck (credential match + live-path-to-root walk, as repaired:
         a tombstoned edge is skipped, the next edge is tried) over the store model of Store/Model.v;
     (c) client/node.go GetNodesForUser;
     (d) the bus token comparison (server/nats-server.go hands the token to the NATS server);
   plus the executable specifications, written independently, and the case checker.
   The verdict of the JWT library (HS256 signature under the instance key, not expired, string
   jti) is a parameter [jwt_ok]; the harness instantiates it with the table of tokens that are
   valid by construction.  No proofs here. *)
From Verif Require Import Base.Bytes Base.Val Store.Model Store.Check.
Local Open Scope N_scope.

Definition k_user : bytes := [117;115;101;114].
Definition k_email : bytes := [101;109;97;105;108].
Definition k_pass : bytes := [112;97;115;115].
Definition k_Bearer : bytes := [66;101;97;114;101;114].
Definition k_v1 : bytes := [118;49].
Definition k_nodes : bytes := [110;111;100;101;115].
Definition k_auth : bytes := [97;117;116;104].
Definition k_points : bytes := [112;111;105;110;116;115].
Definition k_samples : bytes := [115;97;109;112;108;101;115].
Definition k_parents : bytes := [112;97;114;101;110;116;115].
Definition k_not : bytes := [110;111;116].
Definition k_GET : bytes := [71;69;84].
Definition k_POST : bytes := [80;79;83;84].
Definition k_PUT : bytes := [80;85;84].
Definition k_DELETE : bytes := [68;69;76;69;84;69].
Definition k_slash : bytes := [47].
Definition k_sign_in : bytes := [47;115;105;103;110;45;105;110].      (* "/sign-in" *)
Definition k_p : bytes := [112].
Definition k_node : bytes := [110;111;100;101].
Definition k_up : bytes := [117;112].
Definition k_dot : bytes := [46].
Definition k_dotdot : bytes := [46;46].

(* ================= (a) the HTTP front ================= *)

(* ---- strings.Fields on ASCII header values ---- *)
Definition is_space (b : N) : bool :=
  (b =? 32) || (b =? 9) || (b =? 10) || (b =? 11) || (b =? 12) || (b =? 13).

Fixpoint fields_aux (cur : bytes) (s : bytes) : list bytes :=
  match s with
  | [] => match cur with [] => [] | _ => [rev cur] end
  | b :: s' =>
      if is_space b
      then match cur with [] => fields_aux [] s' | _ => rev cur :: fields_aux [] s' end
      else fields_aux (b :: cur) s'
  end.
Definition fields (s : bytes) : list bytes := fields_aux [] s.

(* ---- path.Clean("/" + p) as the list of its segments, and ShiftPath ---- *)
Fixpoint split_on (sep : N) (cur : bytes) (s : bytes) : list bytes :=
  match s with
  | [] => [rev cur]
  | b :: s' => if b =? sep then rev cur :: split_on sep [] s' else split_on sep (b :: cur) s'
  end.

(* the stack is kept reversed *)
Definition clean_step (stack : list bytes) (seg : bytes) : list bytes :=
  match seg with
  | [] => stack
  | _ => if bytes_eqb seg k_dot then stack
         else if bytes_eqb seg k_dotdot then tl stack
         else seg :: stack
  end.
Definition clean_segs (p : bytes) : list bytes := rev (fold_left clean_step (split_on 47 [] p) []).

(* ShiftPath on a cleaned segment list *)
Definition shift (segs : list bytes) : bytes * list bytes := (hd [] segs, tl segs).

Inductive target := TPublic | TNotFound | TAuth | TNodes (rest : list bytes).

(* App.ServeHTTP followed by V1.ServeHTTP *)
Definition app_route (path : bytes) : target :=
  if bytes_eqb path k_slash then TPublic
  else if bytes_eqb path k_sign_in then TPublic
  else let '(h, rest) := shift (clean_segs path) in
       if bytes_eqb h k_v1 then
         let '(h2, rest2) := shift rest in
         if bytes_eqb h2 k_nodes then TNodes rest2
         else if bytes_eqb h2 k_auth then TAuth
         else TNotFound
       else TPublic.

(* ---- the gate ---- *)
Inductive gate_res := Serve (valid_user : bool) (uid : bytes) | Reject401.

Section Gate.
Variable jwt_ok : bytes -> option bytes.      (* Key.ValidToken: Some jti for a valid token *)

(* the bearer token of a header, if it has the form the code looks for *)
Definition bearer (hdr : bytes) : option bytes :=
  match fields hdr with
  | f0 :: f1 :: _ => if bytes_eqb f0 k_Bearer then Some f1 else None
  | _ => None
  end.

(* Key.Valid *)
Definition key_valid (hdr : bytes) : option bytes :=
  match bearer hdr with Some t => jwt_ok t | None => None end.

(* the first lines of Nodes.ServeHTTP; an absent header reads as "" *)
Definition gate (token hdr : bytes) : gate_res :=
  if bytes_eqb hdr token then Serve false []
  else match key_valid hdr with
       | Some uid => Serve true uid
       | None => Reject401
       end.

(* ---- the route table ---- *)
Inductive call := CList | CSendNode | CGetNode | CDelete | CPoints | CMove | CMirror | CDuplicate | CNot | CUserCheck.

(* R200: nothing written; RCall: the handler goes on to this client call (the status then depends on the store) *)
Inductive resp := R401 | R404 | R405 | R400 | R200 | RPublic | RCall (c : call).

Record request := mkReq {
  r_method : bytes; r_path : bytes; r_hdr : bytes;
  r_body_ok : bool;          (* the body decodes into what the route expects *)
  r_dup : bool }.            (* NodeCopy.Duplicate *)

Definition with_body (body_ok : bool) (c : call) : resp := if body_ok then RCall c else R400.

Definition nodes_route (m : bytes) (rest : list bytes) (valid_user body_ok dup : bool) : resp :=
  let '(id, rest1) := shift rest in
  let '(head, _) := shift rest1 in
  match id with
  | [] =>
      if bytes_eqb m k_GET then (if valid_user then RCall CList else R405)
      else if bytes_eqb m k_POST then with_body body_ok CSendNode
      else R405
  | _ =>
      match head with
      | [] =>
          if bytes_eqb m k_GET then RCall CGetNode
          else if bytes_eqb m k_DELETE then with_body body_ok CDelete
          else R405
      | _ =>
          if bytes_eqb head k_samples || bytes_eqb head k_points then
            (if bytes_eqb m k_POST then with_body body_ok CPoints else R405)
          else if bytes_eqb head k_parents then
            (if bytes_eqb m k_POST then with_body body_ok CMove
             else if bytes_eqb m k_PUT then with_body body_ok (if dup then CDuplicate else CMirror)
             else R405)
          else if bytes_eqb head k_not then
            (if bytes_eqb m k_POST then with_body body_ok CNot else R405)
          else R200
      end
  end.

Definition serve (token : bytes) (q : request) : resp :=
  match app_route (r_path q) with
  | TPublic => RPublic
  | TNotFound => R404
  | TAuth => if bytes_eqb (r_method q) k_POST then RCall CUserCheck else R405
  | TNodes rest =>
      match gate token (r_hdr q) with
      | Reject401 => R401
      | Serve vu _ => nodes_route (r_method q) rest vu (r_body_ok q) (r_dup q)
      end
  end.

(* what a request causes on the bus *)
Definition effects (r : resp) : list call := match r with RCall c => [c] | _ => [] end.
Definition is_node_call (c : call) : bool := match c with CUserCheck => false | _ => true end.
End Gate.

(* first token of the subject of the first message a call puts on the bus *)
Definition call_class (c : call) : bytes :=
  match c with
  | CList | CGetNode | CMove | CMirror | CDuplicate => k_nodes
  | CSendNode | CDelete | CPoints => k_p
  | CNot => k_node
  | CUserCheck => k_auth
  end.

(* ---- (d) the bus token ---- *)
Definition bus_accepts (token : bytes) (presented : option bytes) : bool :=
  match token with
  | [] => true
  | _ => match presented with Some t => bytes_eqb t token | None => false end
  end.

(* ================= (b) userCheck ================= *)

(* Points.Text(typ, ""): text of the first point with this type and key "0" *)
Definition point_text (ps : list point) (typ : bytes) : bytes :=
  match find (fun p => bytes_eqb (p_type p) typ && bytes_eqb (p_key p) str_0) ps with
  | Some p => p_text p
  | None => []
  end.

(* NodeEdge.IsTombstone: the tombstone point with key "0" has value 1 *)
Definition edge_is_tomb (e : edge) : bool := f64_is_one (edge_tomb_val e).

(* getNodes(nil, "all", id, "", false) *)
Definition live_edges_of (G : list edge) (id : bytes) : list edge :=
  filter (fun e => negb (edge_is_tomb e)) (parents G id).
(* getNodes(nil, id, "all", "", false) *)
Definition live_children_of (G : list edge) (id : bytes) : list edge :=
  filter (fun e => negb (edge_is_tomb e)) (childs G id).

(* the test inside checkUserPathRoot: some tombstone point (any key) with a value other than 0 *)
Definition uc_deleted (e : edge) : bool :=
  existsb (fun p => bytes_eqb (p_type p) str_tombstone && negb (f64_is_zero (p_val p))) (e_pts e).

(* checkUserPathRoot after the repair: a deleted edge is skipped *)
Fixpoint path_root (G : list edge) (f : nat) (id : bytes) : bool :=
  match f with
  | O => false
  | S f' => existsb (fun e => negb (uc_deleted e) && (bytes_eqb (e_up e) str_root || path_root G f' (e_up e)))
                    (parents G id)
  end.

Definition creds_match (st : store) (id email pass : bytes) : bool :=
  let rows := node_rows (s_nodes st) id in
  bytes_eqb (point_text rows k_email) email && bytes_eqb (point_text rows k_pass) pass.

(* userCheck: one entry per (row of type user into the node) x (live edge of the node) *)
Definition user_check (st : store) (email pass : bytes) : list edge :=
  let G := s_edges st in
  let ids := map e_down (filter (fun e => bytes_eqb (e_type e) k_user) G) in
  let users := flat_map (fun id => match live_edges_of G id with
                                   | [] => []
                                   | ne => if creds_match st id email pass then ne else []
                                   end) ids in
  filter (fun u => path_root G (fuel_of G) (e_down u)) users.

(* ================= (c) GetNodesForUser ================= *)
Fixpoint get_children (G : list edge) (f : nat) (id : bytes) : list (bytes * bytes) :=
  match f with
  | O => []
  | S f' =>
      let ch := live_children_of G id in
      flat_map (fun c => get_children G f' (e_down c)) ch ++ map (fun c => (e_down c, e_up c)) ch
  end.

(* RemoveDuplicateNodesIDParent: first occurrence per ID ++ Parent (concatenated) *)
Fixpoint dedup_idparent (seen : list bytes) (l : list (bytes * bytes)) : list (bytes * bytes) :=
  match l with
  | [] => []
  | (i, p) :: l' => let k := i ++ p in
                    if mem_bytes k seen then dedup_idparent seen l' else (i, p) :: dedup_idparent (k :: seen) l'
  end.

Definition nodes_for_user_raw (G : list edge) (uid : bytes) : list (bytes * bytes) :=
  flat_map (fun un => map (fun e => (e_down e, str_root)) (live_edges_of G (e_up un))
                      ++ get_children G (fuel_of G) (e_up un))
           (live_edges_of G uid).
Definition nodes_for_user (st : store) (uid : bytes) : list (bytes * bytes) :=
  dedup_idparent [] (nodes_for_user_raw (s_edges st) uid).

(* ================= executable specifications (on observed dumps only) ================= *)

Definition view_tomb_val (v : edge_view) : N :=
  match find (fun p => bytes_eqb (p_type p) str_tombstone && bytes_eqb (p_key p) str_0) (v_epts v) with
  | Some p => p_val p
  | None => 0
  end.
Definition view_live (v : edge_view) : bool := f64_even (view_tomb_val v).

(* a user with these credentials that is connected to the root: some edge of type user leads into
   the node, its e-mail and password points carry the given texts, and the sentinel "root" is among
   the ancestors of the node through non-deleted edges *)
Definition spec_user_ok (vs : list edge_view) (email pass : bytes) (u : bytes) : bool :=
  existsb (fun v => bytes_eqb (v_down v) u && bytes_eqb (v_type v) k_user &&
                    bytes_eqb (point_text (v_npts v) k_email) email &&
                    bytes_eqb (point_text (v_npts v) k_pass) pass) vs &&
  negb (bytes_eqb u str_root) &&
  mem_bytes str_root (ancestors vs true u).

Definition spec_login_allowed (vs : list edge_view) (email pass : bytes) : bool :=
  existsb (fun v => spec_user_ok vs email pass (v_down v)) vs.

(* downward closure through non-deleted edges *)
Definition live_downs (vs : list edge_view) (x : bytes) : list bytes :=
  map v_down (filter (fun v => bytes_eqb (v_up v) x && view_live v) vs).
Fixpoint down_closure (vs : list edge_view) (f : nat) (todo seen : list bytes) : list bytes :=
  match f with
  | O => seen
  | S f' =>
      match todo with
      | [] => seen
      | x :: todo' =>
          if mem_bytes x seen then down_closure vs f' todo' seen
          else down_closure vs f' (todo' ++ live_downs vs x) (x :: seen)
      end
  end.
(* the places a user is attached to: parents of its non-deleted edges *)
Definition places (vs : list edge_view) (uid : bytes) : list bytes :=
  map v_up (filter (fun v => bytes_eqb (v_down v) uid && view_live v) vs).
Definition allowed_nodes (vs : list edge_view) (uid : bytes) : list bytes :=
  down_closure vs (S (length vs) * S (length vs) + 2) (places vs uid) [].

(* ================= cases ================= *)
Definition pair_leb (a b : bytes * bytes) : bool :=
  if bytes_eqb (fst a) (fst b) then bytes_leb (snd a) (snd b) else bytes_leb (fst a) (fst b).
Definition pair_eqb (a b : bytes * bytes) : bool := bytes_eqb (fst a) (fst b) && bytes_eqb (snd a) (snd b).
Definition sort_pairs := sort_by pair_leb.

Record http_case := mkHttp {
  h_token : bytes; h_method : bytes; h_path : bytes;
  h_hdr : bytes;                              (* first Authorization value as received; absent = [] *)
  h_valid : list (bytes * bytes);             (* bearer tokens valid by construction, with their jti *)
  h_body_ok : bool; h_dup : bool;
  h_status : N;                               (* observed *)
  h_subjects : list bytes }.                  (* subjects seen on p.>, nodes.>, node.>, up.>, auth.> during the request *)

Record bus_case := mkBus { b_token : bytes; b_presented : option bytes; b_connected : bool }.

Record login_case := mkLogin {
  l_root : bytes; l_dump : list edge_view; l_email : bytes; l_pass : bytes;
  l_result : list (bytes * bytes);            (* (id, parent) of the nodes returned by auth.user, jwt node excluded *)
  l_has_token : bool;                         (* a jwt node with a non-empty token was returned *)
  l_token_uid : bytes;                        (* jti of that token *)
  l_http : N;                                 (* status of POST /v1/auth with the same credentials *)
  l_list_status : N;                          (* status of GET /v1/nodes with the bearer token (0 if no token) *)
  l_listing : list (bytes * bytes) }.         (* (id, parent) pairs listed *)

Inductive case := CHttp (c : http_case) | CBus (c : bus_case) | CLogin (c : login_case).

Definition pair_of_val (v : val) : option (bytes * bytes) :=
  match v with
  | VL [a; b] => a <- get_b a ;; b <- get_b b ;; Some (a, b)
  | _ => None
  end.

Definition case_of_val (v : val) : option case :=
  match v with
  | VL [VN 0; tok; m; p; hdr; valid; bok; dup; st; subs] =>
      tok <- get_b tok ;; m <- get_b m ;; p <- get_b p ;; hdr <- get_b hdr ;;
      valid <- get_list pair_of_val valid ;; bok <- get_bool bok ;; dup <- get_bool dup ;;
      st <- get_n st ;; subs <- get_list get_b subs ;;
      Some (CHttp (mkHttp tok m p hdr valid bok dup st subs))
  | VL [VN 1; tok; pres; conn] =>
      tok <- get_b tok ;; pres <- get_opt get_b pres ;; conn <- get_bool conn ;;
      Some (CBus (mkBus tok pres conn))
  | VL [VN 2; root; dump; em; pw; res; ht; tu; http; ls; listing] =>
      root <- get_b root ;; dump <- views_of_val dump ;; em <- get_b em ;; pw <- get_b pw ;;
      res <- get_list pair_of_val res ;; ht <- get_bool ht ;; tu <- get_b tu ;; http <- get_n http ;;
      ls <- get_n ls ;; listing <- get_list pair_of_val listing ;;
      Some (CLogin (mkLogin root dump em pw res ht tu http ls listing))
  | _ => None
  end.

(* ---- HTTP cases ---- *)
Definition lookup_jwt (tbl : list (bytes * bytes)) (t : bytes) : option bytes :=
  match find (fun kv => bytes_eqb (fst kv) t) tbl with Some kv => Some (snd kv) | None => None end.

(* first token of a subject *)
Fixpoint subject_class (s : bytes) : bytes :=
  match s with
  | [] => []
  | b :: s' => if b =? 46 then [] else b :: subject_class s'
  end.

Definition node_traffic (subs : list bytes) : list bytes :=
  filter (fun s => negb (bytes_eqb (subject_class s) k_auth)) subs.

Definition http_corr (c : http_case) : bool :=
  let r := serve (lookup_jwt (h_valid c)) (h_token c)
                 (mkReq (h_method c) (h_path c) (h_hdr c) (h_body_ok c) (h_dup c)) in
  match r with
  | R401 => (h_status c =? 401) && match h_subjects c with [] => true | _ => false end
  | R404 => (h_status c =? 404) && match h_subjects c with [] => true | _ => false end
  | R405 => (h_status c =? 405) && match h_subjects c with [] => true | _ => false end
  | R400 => (h_status c =? 400) && match h_subjects c with [] => true | _ => false end
  | R200 => (h_status c =? 200) && match h_subjects c with [] => true | _ => false end
  | RPublic => negb (h_status c =? 401) && match h_subjects c with [] => true | _ => false end
  | RCall k => negb (h_status c =? 401) && negb (h_status c =? 405) &&
               match h_subjects c with s :: _ => bytes_eqb (subject_class s) (call_class k) | [] => false end
  end.

(* is [a] an infix of [b] *)
Fixpoint is_prefix (a b : bytes) : bool :=
  match a, b with
  | [], _ => true
  | _ :: _, [] => false
  | x :: a', y :: b' => (x =? y) && is_prefix a' b'
  end.
Fixpoint is_infix (a b : bytes) : bool :=
  is_prefix a b || match b with [] => false | _ :: b' => is_infix a b' end.

(* the request literally addresses the node API: "/v1/nodes" followed by nothing or by "/", no dot segments *)
Definition plain_nodes_path (p : bytes) : bool :=
  let pre := k_slash ++ k_v1 ++ k_slash ++ k_nodes in
  (bytes_eqb p pre || is_prefix (pre ++ k_slash) p) && negb (is_infix (k_slash ++ k_dot) p).

(* specification of the gate, on the observed status and bus traffic:
   - credentials presented in the canonical form (the token itself, or "Bearer " + a valid token): not 401;
   - no credentials anywhere in the header (not the token, no valid token as part of it): nothing on the
     bus but a log-in request, and 401 on the node API *)
Definition http_spec (c : http_case) : bool :=
  match h_token c with
  | [] => true
  | _ =>
    let presents := bytes_eqb (h_hdr c) (h_token c) ||
                    existsb (fun kv => bytes_eqb (h_hdr c) (k_Bearer ++ [32] ++ fst kv)) (h_valid c) in
    let maybe := bytes_eqb (h_hdr c) (h_token c) || existsb (fun kv => is_infix (fst kv) (h_hdr c)) (h_valid c) in
    (if presents then negb (h_status c =? 401) else true) &&
    (if maybe then true
     else match node_traffic (h_subjects c) with [] => true | _ => false end &&
          (if plain_nodes_path (h_path c) then h_status c =? 401 else true))
  end.

(* ---- bus cases ---- *)
Definition bus_corr (c : bus_case) : bool := Bool.eqb (bus_accepts (b_token c) (b_presented c)) (b_connected c).
Definition bus_spec (c : bus_case) : bool :=
  match b_token c with
  | [] => true
  | _ => Bool.eqb (b_connected c) (match b_presented c with Some t => bytes_eqb t (b_token c) | None => false end)
  end.

(* ---- login cases ---- *)
Definition pairs_eqb := list_eqb pair_eqb.
Definition mem_pair (x : bytes * bytes) (l : list (bytes * bytes)) : bool := existsb (pair_eqb x) l.

Definition login_corr (c : login_case) : bool :=
  let st := store_of_views (l_root c) (l_dump c) in
  let res := user_check st (l_email c) (l_pass c) in
  let pairs := sort_pairs (map (fun e => (e_down e, e_up e)) res) in
  pairs_eqb pairs (sort_pairs (l_result c)) &&
  match res with
  | [] => negb (l_has_token c) && (l_http c =? 403) && (l_list_status c =? 0)
  | _ => l_has_token c && (l_http c =? 200) &&
         mem_bytes (l_token_uid c) (map e_down res) &&
         (l_list_status c =? 200) &&
         pairs_eqb (sort_pairs (nodes_for_user st (l_token_uid c))) (sort_pairs (l_listing c))
  end.

Definition login_spec (c : login_case) : bool :=
  let vs := l_dump c in
  let allowed := spec_login_allowed vs (l_email c) (l_pass c) in
  let issued := l_has_token c in
  (* a token is issued exactly when the credentials match a connected user; HTTP agrees *)
  Bool.eqb issued allowed &&
  (if allowed then l_http c =? 200 else negb (l_http c =? 200)) &&
  (if issued then
     (* it is issued for such a user, it is accepted by the gate, and the listing stays inside the
        subtrees of the places that user is attached to *)
     spec_user_ok vs (l_email c) (l_pass c) (l_token_uid c) &&
     (l_list_status c =? 200) &&
     forallb (fun ip => mem_bytes (fst ip) (allowed_nodes vs (l_token_uid c))) (l_listing c)
   else match l_result c with [] => true | _ => false end) &&
  (* every node returned is a matching connected user *)
  forallb (fun ip => spec_user_ok vs (l_email c) (l_pass c) (fst ip)) (l_result c).

Definition check_case (c : case) : N :=
  match c with
  | CHttp h => code (http_corr h) (http_spec h)
  | CBus b => code (bus_corr b) (bus_spec b)
  | CLogin l => code (login_corr l) (login_spec l)
  end.

Definition check_val := check_with case_of_val check_case.
