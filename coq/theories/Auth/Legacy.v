(* C09: the pinned checkUserPathRoot (before the repair) gave up at the first tombstoned edge
   into a node instead of trying the next one.  A faithful model of that loop, a concrete history
   (a user mirrored into a group, its first placement then deleted — what MoveNode does in the
   other order), and the refutation: the user has matching credentials and a path of non-deleted
   edges to the root, yet the pinned check returns nobody. *)
From Verif Require Import Base.Bytes Base.Val Store.GraphCount Store.GraphWalk Store.Model Store.ProofsRows Store.ProofsHash
  Store.ProofsTop Auth.Model Auth.Proofs.
Local Open Scope N_scope.

(* the edges into a node are visited in row order; a tombstoned one ends the whole search *)
Fixpoint path_root_legacy (G : list edge) (f : nat) (id : bytes) : bool :=
  match f with
  | O => false
  | S f' =>
      (fix go (es : list edge) : bool :=
         match es with
         | [] => false
         | e :: es' =>
             if uc_deleted e then false
             else if bytes_eqb (e_up e) str_root then true
             else if path_root_legacy G f' (e_up e) then true
             else go es'
         end) (parents G id)
  end.

Definition user_check_legacy (st : store) (email pass : bytes) : list edge :=
  let G := s_edges st in
  let ids := map e_down (filter (fun e => bytes_eqb (e_type e) k_user) G) in
  let users := flat_map (fun id => match live_edges_of G id with
                                   | [] => []
                                   | ne => if creds_match st id email pass then ne else []
                                   end) ids in
  filter (fun u => path_root_legacy G (fuel_of G) (e_down u)) users.

(* ---- a concrete history ---- *)
Definition x_r : bytes := [114]. Definition x_g : bytes := [103]. Definition x_u : bytes := [117].
Definition x_mail : bytes := [97;64;120]. Definition x_pw : bytes := [112;119].
Definition x_group : bytes := [103;114;111;117;112].
Definition xpt (ty : bytes) (t : Z) (v : N) (tx : bytes) : point := mkPoint ty [] t v tx [] 0%Z [].
Definition x_create (id par ty : bytes) (t : Z) : op :=
  EdgePts id par [xpt str_tombstone t 0 []; xpt str_nodeType t 0 ty].

Definition x_ops : list op :=
  [ x_create x_r str_root x_group 1; x_create x_g x_r x_group 2; x_create x_u x_r k_user 3;
    NodePts x_u [xpt k_email 4 0 x_mail; xpt k_pass 4 0 x_pw];
    x_create x_u x_g k_user 5;                                     (* placed in the group as well *)
    EdgePts x_u x_r [xpt str_tombstone 6 one_bits []] ].           (* the first placement deleted *)

Lemma x_ops_ok : Forall op_ok x_ops.
Proof. repeat constructor; discriminate. Qed.

Definition x_st : store := run st0 x_ops.

Lemma x_wf : wf x_st.
Proof. exact (proj1 (run_inv x_ops st0 wf_st0 inv_st0 x_ops_ok)). Qed.

Lemma x_tc : tomb_consistent (s_edges x_st).
Proof. apply tomb_consistent_dec. vm_compute. reflexivity. Qed.

Lemma x_new_admits : user_check x_st x_mail x_pw <> [].
Proof. vm_compute. discriminate. Qed.

Lemma x_legacy_refuses : user_check_legacy x_st x_mail x_pw = [].
Proof. vm_compute. reflexivity. Qed.

Theorem current_refuted :
  exists st email pass,
    wf st /\ tomb_consistent (s_edges st) /\
    (exists u, user_node st u /\ creds_match st u email pass = true /\ path_to_root (s_edges st) sel_live u) /\
    user_check_legacy st email pass = [].
Proof.
  exists x_st, x_mail, x_pw. split; [exact x_wf|]. split; [exact x_tc|]. split; [|exact x_legacy_refuses].
  apply (login_iff x_st x_mail x_pw x_wf x_tc). exact x_new_admits.
Qed.
