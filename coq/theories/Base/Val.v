(* Universal value type through which the correspondence harness hands cases
   (inputs together with the implementation's observed outputs) to the
   extracted model.  Each area decodes a [val] into its own typed case. *)
From Verif Require Import Base.Bytes.

Inductive val :=
| VN (n : N)
| VZ (z : Z)
| VB (b : list N)
| VL (l : list val).

Definition get_n (v : val) : option N := match v with VN n => Some n | _ => None end.
Definition get_z (v : val) : option Z := match v with VZ z => Some z | VN n => Some (Z.of_N n) | _ => None end.
Definition get_b (v : val) : option (list N) := match v with VB b => Some b | _ => None end.
Definition get_l (v : val) : option (list val) := match v with VL l => Some l | _ => None end.
Definition get_nat (v : val) : option nat := match v with VN n => Some (N.to_nat n) | _ => None end.
Definition get_bool (v : val) : option bool := match v with VN n => Some (negb (n =? 0)%N) | _ => None end.

Definition bind {A B} (o : option A) (f : A -> option B) : option B :=
  match o with Some a => f a | None => None end.
Notation "x <- e ;; k" := (bind e (fun x => k)) (at level 61, e at next level, right associativity).

Fixpoint map_opt {A B} (f : A -> option B) (l : list A) : option (list B) :=
  match l with
  | [] => Some []
  | a :: l' => match f a, map_opt f l' with
               | Some b, Some bs => Some (b :: bs)
               | _, _ => None
               end
  end.

Definition get_list {A} (f : val -> option A) (v : val) : option (list A) :=
  l <- get_l v ;; map_opt f l.

Definition get_opt {A} (f : val -> option A) (v : val) : option (option A) :=
  match v with
  | VL [] => Some None
  | VL [x] => match f x with Some a => Some (Some a) | None => None end
  | _ => None
  end.

(* a check that cannot decode its case reports code 99 *)
Definition check_with {C} (dec : val -> option C) (chk : C -> N) (v : val) : N :=
  match dec v with Some c => chk c | None => 99%N end.
