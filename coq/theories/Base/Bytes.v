(* Base definitions shared by all models: byte strings are [list N], Go strings
   are byte strings, decidable equality helpers used by the case checkers. *)
From Coq Require Export List NArith ZArith Bool Lia Arith.
Export ListNotations.

Definition bytes := list N.

Definition byte_ok (b : N) : bool := (b <? 256)%N.
Definition bytes_ok (l : bytes) : bool := forallb byte_ok l.

Fixpoint list_eqb {A} (eqb : A -> A -> bool) (a b : list A) : bool :=
  match a, b with
  | [], [] => true
  | x :: a', y :: b' => eqb x y && list_eqb eqb a' b'
  | _, _ => false
  end.

Definition bytes_eqb : bytes -> bytes -> bool := list_eqb N.eqb.

Definition option_eqb {A} (eqb : A -> A -> bool) (a b : option A) : bool :=
  match a, b with
  | None, None => true
  | Some x, Some y => eqb x y
  | _, _ => false
  end.

Lemma list_eqb_spec {A} (eqb : A -> A -> bool) :
  (forall x y, eqb x y = true <-> x = y) ->
  forall a b, list_eqb eqb a b = true <-> a = b.
Proof.
  intros H. induction a as [|x a IH]; intros [|y b]; cbn; try (split; [discriminate|discriminate]).
  - tauto.
  - rewrite andb_true_iff, H, IH. split; [intros [-> ->]; reflexivity|intros E; inversion E; auto].
Qed.

Lemma bytes_eqb_eq a b : bytes_eqb a b = true <-> a = b.
Proof. apply list_eqb_spec. intros; apply N.eqb_eq. Qed.

Lemma bytes_eqb_refl a : bytes_eqb a a = true.
Proof. apply bytes_eqb_eq. reflexivity. Qed.

(* indices of failing cases: (index, code) for every case whose code is non-zero *)
Fixpoint failing_from {A} (check : A -> N) (i : N) (l : list A) : list (N * N) :=
  match l with
  | [] => []
  | c :: l' => let r := check c in
               if (r =? 0)%N then failing_from check (i + 1)%N l'
               else (i, r) :: failing_from check (i + 1)%N l'
  end.

Definition run_cases {A} (check : A -> N) (l : list A) : N * list (N * N) :=
  (N.of_nat (length l), failing_from check 0%N l).

(* code of a case: bit 0 = model and implementation disagree, bit 1 = the
   implementation's output violates the specification *)
Definition code (corr_ok spec_ok : bool) : N :=
  ((if corr_ok then 0 else 1) + (if spec_ok then 0 else 2))%N.

(* decide equations between XOR combinations of N values, bit by bit *)
Ltac xor_ac :=
  apply N.bits_inj; intro; rewrite ?N.lxor_spec, ?N.bits_0;
  repeat match goal with |- context [N.testbit ?x ?n] => destruct (N.testbit x n) end; reflexivity.
