(* C12: the conversion layer as it was before the repairs (pinned tree 71f6dad):
   ToPb / PbToPoint / ToSerial / SerialToPoint did not copy Data, and PbToNode
   dereferenced a nil *pb.Node.  The property statements are false of it. *)
From Verif Require Import Base.Bytes Wire.Model.
Local Open Scope N_scope.

Definition to_pb_legacy (p : point) : outcome pb_point :=
  if ts_valid (ts_of_time (p_time p)) then Ok
    {| pp_type := p_type p; pp_value := p_value p; pp_time := Some (ts_of_time (p_time p));
       pp_text := p_text p; pp_key := p_key p; pp_tombstone := wrap32 (p_tombstone p);
       pp_data := []; pp_origin := p_origin p |}
  else Err 3.

Definition pb_to_point_legacy (o : option pb_point) : outcome point :=
  match pb_to_point o with
  | Ok p => Ok {| p_type := p_type p; p_key := p_key p; p_time := p_time p; p_value := p_value p;
                  p_text := p_text p; p_data := []; p_tombstone := p_tombstone p;
                  p_origin := p_origin p |}
  | Err e => Err e
  | Panic => Panic
  end.

Definition points_encode_legacy (ps : list point) : outcome bytes :=
  obind (omap to_pb_legacy ps) (marshal (forallb pp_utf8) enc_points).
Definition pb_decode_points_legacy (bs : bytes) : outcome (list point) :=
  obind (decode_msg points_step bs []) (omap (fun pp => pb_to_point_legacy (Some pp))).

(* PbToNode before the repair: len(pbNode.Points) on a nil pbNode *)
Definition pb_to_node_legacy (o : option pb_node) : outcome node :=
  match o with None => Panic | Some _ => pb_to_node o end.
Definition pb_decode_node_request_legacy (bs : bytes) : outcome node :=
  obind (decode_msg node_request_step bs nr_zero) (fun r =>
  match nr_error r with
  | _ :: _ => Err 5
  | [] => pb_to_node_legacy (nr_node r)
  end).

Definition witness_point : point :=
  {| p_type := [118]; p_key := [48]; p_time := 1700000000000000005; p_value := 4631107791820423168;
     p_text := []; p_data := [1; 2; 3]; p_tombstone := 0; p_origin := [] |}.

(* the binary data of a representable point does not survive the old code,
   on either side of the wire *)
Theorem C12_current_refuted_data :
  point_ok witness_point = true /\
  (exists bs, points_encode_legacy [witness_point] = Ok bs /\
              pb_decode_points_legacy bs <> Ok [witness_point] /\
              pb_decode_points bs <> Ok [witness_point]) /\
  (exists bs, points_encode [witness_point] = Ok bs /\
              pb_decode_points_legacy bs <> Ok [witness_point]).
Proof.
  split; [vm_compute; reflexivity|]. split.
  - eexists. split; [vm_compute; reflexivity|]. split; vm_compute; discriminate.
  - eexists. split; [vm_compute; reflexivity|]. vm_compute; discriminate.
Qed.

(* a NodeRequest without field 1, e.g. the empty message, crashed the old decoder *)
Theorem C12_current_refuted_nil_node :
  pb_decode_node_request_legacy [] = Panic /\
  pb_decode_node_request_legacy [24; 1] = Panic.
Proof. split; vm_compute; reflexivity. Qed.
