(* C12: executable model of the bus wire codecs of simpleiot:
     data/point.go   ToPb / ToSerial / PbToPoint / SerialToPoint / PbDecodePoints /
                     PbDecodeSerialPoints / DecodeSerialHrPayload / Points.ToPb
     data/node.go    ToPbNode / PbToNode / PbDecodeNode / PbDecodeNodeRequest /
                     PbDecodeNodes / PbDecodeNodesRequest / NodeEdge.ToPb / Nodes.ToPb
     client/msg.go   Decode{NodePoints,EdgePoints,UpNodePoints,UpEdgePoints}Msg
   together with the part of protobuf-go 1.27.1 (proto3 wire format) that these
   functions go through, for the messages of internal/pb/point.proto, node.proto and
   google.protobuf.Timestamp, and ptypes.Timestamp / TimestampProto.
   No proofs here: the model must keep running when a proof breaks.

   Conventions: byte strings and Go strings are [list N]; float64 / float32 values
   are their IEEE bit patterns (N); a time.Time is the instant in ns since the Unix
   epoch as an unbounded Z (sec * 1e9 + nsec); Go int / int32 / int64 are Z with the
   wrap-around written explicitly; uint32 hash is N. *)
From Verif Require Import Base.Bytes Base.Val.
Local Open Scope N_scope.

Inductive outcome (A : Type) := Ok (a : A) | Err (e : N) | Panic.
Arguments Ok {A} a.
Arguments Err {A} e.
Arguments Panic {A}.

Definition obind {A B} (o : outcome A) (f : A -> outcome B) : outcome B :=
  match o with Ok a => f a | Err e => Err e | Panic => Panic end.

(* a Go loop "for each: convert, return on the first error" *)
Fixpoint omap {A B} (f : A -> outcome B) (l : list A) : outcome (list B) :=
  match l with
  | [] => Ok []
  | a :: l' =>
      match f a with
      | Ok b => match omap f l' with Ok bs => Ok (b :: bs) | Err e => Err e | Panic => Panic end
      | Err e => Err e
      | Panic => Panic
      end
  end.

(* ------------------------------------------------------------------ *)
(* machine integers                                                    *)

Definition two32 : N := 4294967296.
Definition two64 : N := 18446744073709551616.

(* int64(v), int32(v) for a uint64 v; uint64(z) for a signed z *)
Definition to_int64 (v : N) : Z :=
  let w := Z.of_N (v mod two64) in
  if (w <? 9223372036854775808)%Z then w else (w - 18446744073709551616)%Z.
Definition to_int32 (v : N) : Z :=
  let w := Z.of_N (v mod two32) in
  if (w <? 2147483648)%Z then w else (w - 4294967296)%Z.
Definition of_int64 (z : Z) : N := Z.to_N (z mod 18446744073709551616).
(* int32(x) for a Go int x *)
Definition wrap32 (z : Z) : Z := to_int32 (of_int64 z).
Definition wrap64 (z : Z) : Z := to_int64 (of_int64 z).

(* ------------------------------------------------------------------ *)
(* proto3 wire primitives (google.golang.org/protobuf/encoding/protowire) *)

(* AppendVarint: 7 bits per byte, low group first, continuation bit 0x80; a uint64
   needs at most 10 bytes *)
Fixpoint enc_varint_f (fuel : nat) (n : N) : bytes :=
  match fuel with
  | O => []
  | S f => if n <? 128 then [n]
           else N.lor (N.land n 127) 128 :: enc_varint_f f (N.shiftr n 7)
  end.
Definition enc_varint (n : N) : bytes := enc_varint_f 10 n.

(* ConsumeVarint: at most 10 bytes, the tenth must be 0 or 1 (else "overflow");
   running out of input is "truncated" *)
Fixpoint dec_varint_f (fuel : nat) (shift acc : N) (bs : bytes) : option (N * bytes) :=
  match fuel with
  | O => None
  | S f =>
      match bs with
      | [] => None
      | b :: r =>
          if b <? 128 then
            match f with
            | O => if b <? 2 then Some (acc + N.shiftl b shift, r) else None
            | S _ => Some (acc + N.shiftl b shift, r)
            end
          else dec_varint_f f (shift + 7) (acc + N.shiftl (b - 128) shift) r
      end
  end.
Definition dec_varint (bs : bytes) : option (N * bytes) := dec_varint_f 10 0 0 bs.

(* little-endian fixed-width integers *)
Fixpoint le_bytes (n : nat) (v : N) : bytes :=
  match n with O => [] | S k => v mod 256 :: le_bytes k (v / 256) end.
Fixpoint le_val (l : bytes) : N :=
  match l with [] => 0 | b :: r => b + 256 * le_val r end.

Definition take_n (n : N) (bs : bytes) : option (bytes * bytes) :=
  if n <=? N.of_nat (length bs)
  then Some (firstn (N.to_nat n) bs, skipn (N.to_nat n) bs) else None.

Definition mk_tag (num wt : N) : N := N.lor (N.shiftl num 3) wt.
Definition enc_tag (num wt : N) : bytes := enc_varint (mk_tag num wt).

(* a parsed field value by wire type: 0 varint, 1 fixed64, 2 length-delimited,
   5 fixed32, 3 a complete group (skipped) *)
Inductive wval :=
| WVarint (v : N)
| WFixed64 (v : N)
| WBytes (b : bytes)
| WFixed32 (v : N)
| WGroup.

Definition field := (N * wval)%type.

(* ConsumeFieldValue for StartGroupType: skip to the matching end-group tag;
   [stack] = numbers of the groups that are open, innermost first.  Inside a
   group protowire.ConsumeTag accepts field numbers 1 .. MaxInt32. *)
Fixpoint skip_group (fuel : nat) (stack : list N) (bs : bytes) : option bytes :=
  match fuel with
  | O => None
  | S f =>
      match dec_varint bs with
      | None => None
      | Some (t, r) =>
          let num := N.shiftr t 3 in
          let wt := N.land t 7 in
          if (num <? 1) || (2147483647 <? num) then None
          else if wt =? 4 then
            match stack with
            | [] => None
            | top :: st' =>
                if num =? top
                then match st' with [] => Some r | _ :: _ => skip_group f st' r end
                else None
            end
          else if wt =? 3 then skip_group f (num :: stack) r
          else if wt =? 0 then
            match dec_varint r with Some (_, r') => skip_group f stack r' | None => None end
          else if wt =? 1 then
            match take_n 8 r with Some (_, r') => skip_group f stack r' | None => None end
          else if wt =? 2 then
            match dec_varint r with
            | Some (n, r') =>
                match take_n n r' with Some (_, r'') => skip_group f stack r'' | None => None end
            | None => None
            end
          else if wt =? 5 then
            match take_n 4 r with Some (_, r') => skip_group f stack r' | None => None end
          else None
      end
  end.

(* one field of a message: tag, then the value according to the wire type
   (impl.MessageInfo.unmarshalPointer: field numbers 1 .. 2^29-1; an end-group
   tag outside a group, wire types 6 and 7, truncation and varint overflow are
   errors) *)
Definition parse_field (bs : bytes) : option (field * bytes) :=
  match dec_varint bs with
  | None => None
  | Some (t, r) =>
      let num := N.shiftr t 3 in
      let wt := N.land t 7 in
      if (num <? 1) || (536870911 <? num) then None
      else if wt =? 0 then
        match dec_varint r with Some (v, r') => Some ((num, WVarint v), r') | None => None end
      else if wt =? 1 then
        match take_n 8 r with Some (x, r') => Some ((num, WFixed64 (le_val x)), r') | None => None end
      else if wt =? 2 then
        match dec_varint r with
        | Some (n, r') =>
            match take_n n r' with Some (x, r'') => Some ((num, WBytes x), r'') | None => None end
        | None => None
        end
      else if wt =? 3 then
        match skip_group (S (length r)) [num] r with
        | Some r' => Some ((num, WGroup), r')
        | None => None
        end
      else if wt =? 5 then
        match take_n 4 r with Some (x, r') => Some ((num, WFixed32 (le_val x)), r') | None => None end
      else None
  end.

Fixpoint parse_fields (fuel : nat) (bs : bytes) : option (list field) :=
  match bs with
  | [] => Some []
  | _ :: _ =>
      match fuel with
      | O => None
      | S f =>
          match parse_field bs with
          | None => None
          | Some (fld, rest) =>
              match parse_fields f rest with
              | None => None
              | Some l => Some (fld :: l)
              end
          end
      end
  end.
Definition parse_all (bs : bytes) : option (list field) := parse_fields (length bs) bs.

(* the per-message part of unmarshalPointer: [step num value msg] stores a known
   field with the right wire type and leaves the message alone otherwise (unknown
   field, or known field with another wire type = skipped as unknown) *)
Fixpoint apply_fields {M} (step : N -> wval -> M -> outcome M) (l : list field) (acc : M)
  : outcome M :=
  match l with
  | [] => Ok acc
  | (num, wv) :: l' =>
      match step num wv acc with
      | Ok acc' => apply_fields step l' acc'
      | Err e => Err e
      | Panic => Panic
      end
  end.

Definition decode_msg {M} (step : N -> wval -> M -> outcome M) (bs : bytes) (init : M)
  : outcome M :=
  match parse_all bs with
  | None => Err 1
  | Some l => apply_fields step l init
  end.

(* unicode/utf8.Valid *)
Definition cont (b : N) : bool := (128 <=? b) && (b <=? 191).
Fixpoint utf8_valid (l : bytes) : bool :=
  match l with
  | [] => true
  | b0 :: r =>
      if b0 <? 128 then utf8_valid r
      else if (194 <=? b0) && (b0 <=? 223) then
        match r with b1 :: r1 => cont b1 && utf8_valid r1 | _ => false end
      else if (224 <=? b0) && (b0 <=? 239) then
        match r with
        | b1 :: b2 :: r2 =>
            (if b0 =? 224 then (160 <=? b1) && (b1 <=? 191)
             else if b0 =? 237 then (128 <=? b1) && (b1 <=? 159)
             else cont b1) && cont b2 && utf8_valid r2
        | _ => false
        end
      else if (240 <=? b0) && (b0 <=? 244) then
        match r with
        | b1 :: b2 :: b3 :: r3 =>
            (if b0 =? 240 then (144 <=? b1) && (b1 <=? 191)
             else if b0 =? 244 then (128 <=? b1) && (b1 <=? 143)
             else cont b1) && cont b2 && cont b3 && utf8_valid r3
        | _ => false
        end
      else false
  end.

(* ------------------------------------------------------------------ *)
(* field encoders (proto3: zero values are omitted; fields in number order) *)

Definition enc_ld (num : N) (payload : bytes) : bytes :=
  enc_tag num 2 ++ enc_varint (N.of_nat (length payload)) ++ payload.
(* string / bytes field *)
Definition enc_str_field (num : N) (s : bytes) : bytes :=
  match s with [] => [] | _ :: _ => enc_ld num s end.
(* uint64-valued varint field (int32 / int64 are sign-extended first) *)
Definition enc_varint_field (num : N) (v : N) : bytes :=
  if v =? 0 then [] else enc_tag num 0 ++ enc_varint v.
Definition enc_int_field (num : N) (z : Z) : bytes := enc_varint_field num (of_int64 z).
(* double: omitted only when the bit pattern is +0 *)
Definition enc_fixed64_field (num : N) (v : N) : bytes :=
  if v =? 0 then [] else enc_tag num 1 ++ le_bytes 8 v.
Definition enc_fixed32_field (num : N) (v : N) : bytes :=
  if v =? 0 then [] else enc_tag num 5 ++ le_bytes 4 v.
(* message-typed field: a nil pointer is omitted, an empty message is not *)
Definition enc_msg_field (num : N) (o : option bytes) : bytes :=
  match o with None => [] | Some p => enc_ld num p end.
Definition enc_rep_field {A} (num : N) (enc : A -> bytes) (l : list A) : bytes :=
  concat (map (fun x => enc_ld num (enc x)) l).

(* ------------------------------------------------------------------ *)
(* the protobuf messages (generated structs of internal/pb and timestamppb) *)

Record pb_timestamp := { ts_seconds : Z; ts_nanos : Z }.
Definition ts_zero := {| ts_seconds := 0; ts_nanos := 0 |}.

Record pb_point := {
  pp_type : bytes; pp_value : N; pp_time : option pb_timestamp; pp_text : bytes;
  pp_key : bytes; pp_tombstone : Z; pp_data : bytes; pp_origin : bytes }.
Definition pp_zero := {| pp_type := []; pp_value := 0; pp_time := None; pp_text := [];
  pp_key := []; pp_tombstone := 0; pp_data := []; pp_origin := [] |}.

Record pb_serial_point := {
  sp_type : bytes; sp_value : N; sp_text : bytes; sp_key : bytes; sp_tombstone : Z;
  sp_data : bytes; sp_origin : bytes; sp_time : Z }.
Definition sp_zero := {| sp_type := []; sp_value := 0; sp_text := []; sp_key := [];
  sp_tombstone := 0; sp_data := []; sp_origin := []; sp_time := 0 |}.

Record pb_node := {
  pn_id : bytes; pn_type : bytes; pn_points : list pb_point; pn_hash : Z;
  pn_parent : bytes; pn_edge : list pb_point }.
Definition pn_zero := {| pn_id := []; pn_type := []; pn_points := []; pn_hash := 0;
  pn_parent := []; pn_edge := [] |}.

Record pb_node_request := { nr_node : option pb_node; nr_error : bytes }.
Definition nr_zero := {| nr_node := None; nr_error := [] |}.
Record pb_nodes_request := { nsr_nodes : list pb_node; nsr_error : bytes }.
Definition nsr_zero := {| nsr_nodes := []; nsr_error := [] |}.

(* --- encoders (proto.Marshal without the UTF-8 check, which is below) --- *)
Definition enc_timestamp (t : pb_timestamp) : bytes :=
  enc_int_field 1 (ts_seconds t) ++ enc_int_field 2 (ts_nanos t).

Definition enc_point (p : pb_point) : bytes :=
  enc_str_field 2 (pp_type p) ++ enc_fixed64_field 4 (pp_value p) ++
  enc_msg_field 5 (option_map enc_timestamp (pp_time p)) ++
  enc_str_field 8 (pp_text p) ++ enc_str_field 11 (pp_key p) ++
  enc_int_field 12 (pp_tombstone p) ++ enc_str_field 14 (pp_data p) ++
  enc_str_field 15 (pp_origin p).

Definition enc_points (l : list pb_point) : bytes := enc_rep_field 1 enc_point l.

Definition enc_serial_point (p : pb_serial_point) : bytes :=
  enc_str_field 2 (sp_type p) ++ enc_fixed32_field 4 (sp_value p) ++
  enc_str_field 8 (sp_text p) ++ enc_str_field 11 (sp_key p) ++
  enc_int_field 12 (sp_tombstone p) ++ enc_str_field 14 (sp_data p) ++
  enc_str_field 15 (sp_origin p) ++ enc_int_field 16 (sp_time p).

Definition enc_serial_points (l : list pb_serial_point) : bytes :=
  enc_rep_field 1 enc_serial_point l.

Definition enc_node (n : pb_node) : bytes :=
  enc_str_field 1 (pn_id n) ++ enc_str_field 2 (pn_type n) ++
  enc_rep_field 3 enc_point (pn_points n) ++ enc_int_field 4 (pn_hash n) ++
  enc_str_field 6 (pn_parent n) ++ enc_rep_field 7 enc_point (pn_edge n).

Definition enc_nodes (l : list pb_node) : bytes := enc_rep_field 1 enc_node l.

Definition enc_node_request (r : pb_node_request) : bytes :=
  enc_msg_field 1 (option_map enc_node (nr_node r)) ++ enc_str_field 2 (nr_error r).

Definition enc_nodes_request (r : pb_nodes_request) : bytes :=
  enc_rep_field 1 enc_node (nsr_nodes r) ++ enc_str_field 2 (nsr_error r).

(* proto.Marshal fails on a string field that is not valid UTF-8 *)
Definition pp_utf8 (p : pb_point) : bool :=
  utf8_valid (pp_type p) && utf8_valid (pp_text p) && utf8_valid (pp_key p) &&
  utf8_valid (pp_origin p).
Definition sp_utf8 (p : pb_serial_point) : bool :=
  utf8_valid (sp_type p) && utf8_valid (sp_text p) && utf8_valid (sp_key p) &&
  utf8_valid (sp_origin p).
Definition pn_utf8 (n : pb_node) : bool :=
  utf8_valid (pn_id n) && utf8_valid (pn_type n) && utf8_valid (pn_parent n) &&
  forallb pp_utf8 (pn_points n) && forallb pp_utf8 (pn_edge n).

Definition marshal {A} (valid : A -> bool) (enc : A -> bytes) (a : A) : outcome bytes :=
  if valid a then Ok (enc a) else Err 2.

(* --- decoders (proto.Unmarshal) --- *)
Definition set_str (s : bytes) {M} (k : bytes -> M) : outcome M :=
  if utf8_valid s then Ok (k s) else Err 2.

Definition ts_step (num : N) (wv : wval) (t : pb_timestamp) : outcome pb_timestamp :=
  match wv with
  | WVarint v =>
      if num =? 1 then Ok {| ts_seconds := to_int64 v; ts_nanos := ts_nanos t |}
      else if num =? 2 then Ok {| ts_seconds := ts_seconds t; ts_nanos := to_int32 v |}
      else Ok t
  | _ => Ok t
  end.

Definition point_step (num : N) (wv : wval) (p : pb_point) : outcome pb_point :=
  match wv with
  | WBytes b =>
      if num =? 2 then set_str b (fun s =>
        {| pp_type := s; pp_value := pp_value p; pp_time := pp_time p; pp_text := pp_text p;
           pp_key := pp_key p; pp_tombstone := pp_tombstone p; pp_data := pp_data p;
           pp_origin := pp_origin p |})
      else if num =? 5 then
        (* an embedded message met again is merged into the one already there *)
        match decode_msg ts_step b (match pp_time p with Some t => t | None => ts_zero end) with
        | Ok t => Ok
          {| pp_type := pp_type p; pp_value := pp_value p; pp_time := Some t; pp_text := pp_text p;
             pp_key := pp_key p; pp_tombstone := pp_tombstone p; pp_data := pp_data p;
             pp_origin := pp_origin p |}
        | Err e => Err e
        | Panic => Panic
        end
      else if num =? 8 then set_str b (fun s =>
        {| pp_type := pp_type p; pp_value := pp_value p; pp_time := pp_time p; pp_text := s;
           pp_key := pp_key p; pp_tombstone := pp_tombstone p; pp_data := pp_data p;
           pp_origin := pp_origin p |})
      else if num =? 11 then set_str b (fun s =>
        {| pp_type := pp_type p; pp_value := pp_value p; pp_time := pp_time p; pp_text := pp_text p;
           pp_key := s; pp_tombstone := pp_tombstone p; pp_data := pp_data p;
           pp_origin := pp_origin p |})
      else if num =? 14 then Ok
        {| pp_type := pp_type p; pp_value := pp_value p; pp_time := pp_time p; pp_text := pp_text p;
           pp_key := pp_key p; pp_tombstone := pp_tombstone p; pp_data := b;
           pp_origin := pp_origin p |}
      else if num =? 15 then set_str b (fun s =>
        {| pp_type := pp_type p; pp_value := pp_value p; pp_time := pp_time p; pp_text := pp_text p;
           pp_key := pp_key p; pp_tombstone := pp_tombstone p; pp_data := pp_data p;
           pp_origin := s |})
      else Ok p
  | WFixed64 v =>
      if num =? 4 then Ok
        {| pp_type := pp_type p; pp_value := v; pp_time := pp_time p; pp_text := pp_text p;
           pp_key := pp_key p; pp_tombstone := pp_tombstone p; pp_data := pp_data p;
           pp_origin := pp_origin p |}
      else Ok p
  | WVarint v =>
      if num =? 12 then Ok
        {| pp_type := pp_type p; pp_value := pp_value p; pp_time := pp_time p; pp_text := pp_text p;
           pp_key := pp_key p; pp_tombstone := to_int32 v; pp_data := pp_data p;
           pp_origin := pp_origin p |}
      else Ok p
  | _ => Ok p
  end.

Definition points_step (num : N) (wv : wval) (l : list pb_point) : outcome (list pb_point) :=
  match wv with
  | WBytes b =>
      if num =? 1 then
        match decode_msg point_step b pp_zero with
        | Ok p => Ok (l ++ [p]) | Err e => Err e | Panic => Panic
        end
      else Ok l
  | _ => Ok l
  end.

Definition serial_point_step (num : N) (wv : wval) (p : pb_serial_point)
  : outcome pb_serial_point :=
  match wv with
  | WBytes b =>
      if num =? 2 then set_str b (fun s =>
        {| sp_type := s; sp_value := sp_value p; sp_text := sp_text p; sp_key := sp_key p;
           sp_tombstone := sp_tombstone p; sp_data := sp_data p; sp_origin := sp_origin p;
           sp_time := sp_time p |})
      else if num =? 8 then set_str b (fun s =>
        {| sp_type := sp_type p; sp_value := sp_value p; sp_text := s; sp_key := sp_key p;
           sp_tombstone := sp_tombstone p; sp_data := sp_data p; sp_origin := sp_origin p;
           sp_time := sp_time p |})
      else if num =? 11 then set_str b (fun s =>
        {| sp_type := sp_type p; sp_value := sp_value p; sp_text := sp_text p; sp_key := s;
           sp_tombstone := sp_tombstone p; sp_data := sp_data p; sp_origin := sp_origin p;
           sp_time := sp_time p |})
      else if num =? 14 then Ok
        {| sp_type := sp_type p; sp_value := sp_value p; sp_text := sp_text p; sp_key := sp_key p;
           sp_tombstone := sp_tombstone p; sp_data := b; sp_origin := sp_origin p;
           sp_time := sp_time p |}
      else if num =? 15 then set_str b (fun s =>
        {| sp_type := sp_type p; sp_value := sp_value p; sp_text := sp_text p; sp_key := sp_key p;
           sp_tombstone := sp_tombstone p; sp_data := sp_data p; sp_origin := s;
           sp_time := sp_time p |})
      else Ok p
  | WFixed32 v =>
      if num =? 4 then Ok
        {| sp_type := sp_type p; sp_value := v; sp_text := sp_text p; sp_key := sp_key p;
           sp_tombstone := sp_tombstone p; sp_data := sp_data p; sp_origin := sp_origin p;
           sp_time := sp_time p |}
      else Ok p
  | WVarint v =>
      if num =? 12 then Ok
        {| sp_type := sp_type p; sp_value := sp_value p; sp_text := sp_text p; sp_key := sp_key p;
           sp_tombstone := to_int32 v; sp_data := sp_data p; sp_origin := sp_origin p;
           sp_time := sp_time p |}
      else if num =? 16 then Ok
        {| sp_type := sp_type p; sp_value := sp_value p; sp_text := sp_text p; sp_key := sp_key p;
           sp_tombstone := sp_tombstone p; sp_data := sp_data p; sp_origin := sp_origin p;
           sp_time := to_int64 v |}
      else Ok p
  | _ => Ok p
  end.

Definition serial_points_step (num : N) (wv : wval) (l : list pb_serial_point)
  : outcome (list pb_serial_point) :=
  match wv with
  | WBytes b =>
      if num =? 1 then
        match decode_msg serial_point_step b sp_zero with
        | Ok p => Ok (l ++ [p]) | Err e => Err e | Panic => Panic
        end
      else Ok l
  | _ => Ok l
  end.

Definition node_step (num : N) (wv : wval) (n : pb_node) : outcome pb_node :=
  match wv with
  | WBytes b =>
      if num =? 1 then set_str b (fun s =>
        {| pn_id := s; pn_type := pn_type n; pn_points := pn_points n; pn_hash := pn_hash n;
           pn_parent := pn_parent n; pn_edge := pn_edge n |})
      else if num =? 2 then set_str b (fun s =>
        {| pn_id := pn_id n; pn_type := s; pn_points := pn_points n; pn_hash := pn_hash n;
           pn_parent := pn_parent n; pn_edge := pn_edge n |})
      else if num =? 3 then
        match decode_msg point_step b pp_zero with
        | Ok p => Ok
          {| pn_id := pn_id n; pn_type := pn_type n; pn_points := pn_points n ++ [p];
             pn_hash := pn_hash n; pn_parent := pn_parent n; pn_edge := pn_edge n |}
        | Err e => Err e
        | Panic => Panic
        end
      else if num =? 6 then set_str b (fun s =>
        {| pn_id := pn_id n; pn_type := pn_type n; pn_points := pn_points n; pn_hash := pn_hash n;
           pn_parent := s; pn_edge := pn_edge n |})
      else if num =? 7 then
        match decode_msg point_step b pp_zero with
        | Ok p => Ok
          {| pn_id := pn_id n; pn_type := pn_type n; pn_points := pn_points n;
             pn_hash := pn_hash n; pn_parent := pn_parent n; pn_edge := pn_edge n ++ [p] |}
        | Err e => Err e
        | Panic => Panic
        end
      else Ok n
  | WVarint v =>
      if num =? 4 then Ok
        {| pn_id := pn_id n; pn_type := pn_type n; pn_points := pn_points n; pn_hash := to_int32 v;
           pn_parent := pn_parent n; pn_edge := pn_edge n |}
      else Ok n
  | _ => Ok n
  end.

Definition nodes_step (num : N) (wv : wval) (l : list pb_node) : outcome (list pb_node) :=
  match wv with
  | WBytes b =>
      if num =? 1 then
        match decode_msg node_step b pn_zero with
        | Ok n => Ok (l ++ [n]) | Err e => Err e | Panic => Panic
        end
      else Ok l
  | _ => Ok l
  end.

Definition node_request_step (num : N) (wv : wval) (r : pb_node_request)
  : outcome pb_node_request :=
  match wv with
  | WBytes b =>
      if num =? 1 then
        match decode_msg node_step b (match nr_node r with Some n => n | None => pn_zero end) with
        | Ok n => Ok {| nr_node := Some n; nr_error := nr_error r |}
        | Err e => Err e
        | Panic => Panic
        end
      else if num =? 2 then set_str b (fun s => {| nr_node := nr_node r; nr_error := s |})
      else Ok r
  | _ => Ok r
  end.

Definition nodes_request_step (num : N) (wv : wval) (r : pb_nodes_request)
  : outcome pb_nodes_request :=
  match wv with
  | WBytes b =>
      if num =? 1 then
        match decode_msg node_step b pn_zero with
        | Ok n => Ok {| nsr_nodes := nsr_nodes r ++ [n]; nsr_error := nsr_error r |}
        | Err e => Err e
        | Panic => Panic
        end
      else if num =? 2 then set_str b (fun s => {| nsr_nodes := nsr_nodes r; nsr_error := s |})
      else Ok r
  | _ => Ok r
  end.

(* ------------------------------------------------------------------ *)
(* the repo's own data types and conversion layer                      *)

Record point := {
  p_type : bytes; p_key : bytes; p_time : Z; p_value : N; p_text : bytes; p_data : bytes;
  p_tombstone : Z; p_origin : bytes }.

Record node := {
  n_id : bytes; n_type : bytes; n_hash : N; n_parent : bytes;
  n_points : list point; n_edge : list point }.

(* ptypes.validateTimestamp: [0001-01-01, 10000-01-01), nanos in [0, 1e9) *)
Definition min_seconds : Z := (-62135596800)%Z.
Definition max_seconds : Z := 253402300800%Z.
Definition ts_valid (t : pb_timestamp) : bool :=
  ((min_seconds <=? ts_seconds t) && (ts_seconds t <? max_seconds) &&
   (0 <=? ts_nanos t) && (ts_nanos t <? 1000000000))%Z.

(* ptypes.TimestampProto: Seconds = t.Unix() (floor), Nanos = t.Nanosecond() *)
Definition ts_of_time (t : Z) : pb_timestamp :=
  {| ts_seconds := (t / 1000000000)%Z; ts_nanos := (t mod 1000000000)%Z |}.
Definition time_of_ts (t : pb_timestamp) : Z :=
  (ts_seconds t * 1000000000 + ts_nanos t)%Z.

(* Point.ToPb without the error path *)
Definition to_pb_raw (p : point) : pb_point :=
  {| pp_type := p_type p; pp_value := p_value p; pp_time := Some (ts_of_time (p_time p));
     pp_text := p_text p; pp_key := p_key p; pp_tombstone := wrap32 (p_tombstone p);
     pp_data := p_data p; pp_origin := p_origin p |}.
Definition to_pb (p : point) : outcome pb_point :=
  if ts_valid (ts_of_time (p_time p)) then Ok (to_pb_raw p) else Err 3.

(* PbToPoint(sPb *pb.Point): sPb.Time on a nil sPb is a nil dereference; a nil
   Timestamp is an error of ptypes.Timestamp *)
Definition pb_to_point (o : option pb_point) : outcome point :=
  match o with
  | None => Panic
  | Some pp =>
      match pp_time pp with
      | None => Err 3
      | Some ts =>
          if ts_valid ts then Ok
            {| p_type := pp_type pp; p_key := pp_key pp; p_time := time_of_ts ts;
               p_value := pp_value pp; p_text := pp_text pp; p_data := pp_data pp;
               p_tombstone := pp_tombstone pp; p_origin := pp_origin pp |}
          else Err 3
      end
  end.

(* float64(float32) and float32(float64) on bit patterns (round to nearest even;
   a NaN keeps sign and leading payload bits and becomes quiet, as CVTSS2SD /
   CVTSD2SS and FCVT do) *)
Definition f32_to_f64 (b : N) : N :=
  let s := N.shiftl (N.shiftr b 31) 63 in
  let e := N.land (N.shiftr b 23) 255 in
  let m := N.land b 8388607 in
  if e =? 255 then
    if m =? 0 then s + N.shiftl 2047 52
    else s + N.shiftl 2047 52 + N.lor (N.shiftl m 29) 2251799813685248
  else if e =? 0 then
    if m =? 0 then s
    else let k := N.log2 m in
         s + N.shiftl (k + 874) 52 + N.shiftl (m - N.shiftl 1 k) (52 - k)
  else s + N.shiftl (e + 896) 52 + N.shiftl m 29.

(* M >> sh rounded to nearest, ties to even *)
Definition rne_shift (m sh : N) : N :=
  if sh =? 0 then m else
  let q := N.shiftr m sh in
  let r := N.land m (N.ones sh) in
  let half := N.shiftl 1 (sh - 1) in
  if (half <? r) || ((r =? half) && N.odd q) then q + 1 else q.

Definition f64_to_f32 (b : N) : N :=
  let s := N.shiftl (N.shiftr b 63) 31 in
  let e := N.land (N.shiftr b 52) 2047 in
  let m := N.land b 4503599627370495 in
  if e =? 2047 then
    if m =? 0 then s + 2139095040
    else s + 2139095040 + N.lor (N.shiftr m 29) 4194304
  else if e =? 0 then s                      (* zero and float64 subnormals *)
  else
    let M := m + 4503599627370496 in          (* 53-bit significand *)
    if 897 <=? e then                         (* float32 exponent >= 1 *)
      let r := N.shiftl (e - 896) 23 + (rne_shift M 29 - 8388608) in
      if 2139095040 <=? r then s + 2139095040 else s + r
    else
      let sh := 29 + (897 - e) in
      if 60 <? sh then s else s + rne_shift M sh.

(* Point.ToSerial / SerialToPoint *)
Definition to_serial (p : point) : pb_serial_point :=
  {| sp_type := p_type p; sp_value := f64_to_f32 (p_value p); sp_text := p_text p;
     sp_key := p_key p; sp_tombstone := wrap32 (p_tombstone p); sp_data := p_data p;
     sp_origin := p_origin p; sp_time := wrap64 (p_time p) |}.
Definition serial_to_point (sp : pb_serial_point) : point :=
  {| p_type := sp_type sp; p_key := sp_key sp; p_time := sp_time sp;
     p_value := f32_to_f64 (sp_value sp); p_text := sp_text sp; p_data := sp_data sp;
     p_tombstone := sp_tombstone sp; p_origin := sp_origin sp |}.

(* int32(n.Hash) / uint32(pbNode.Hash) *)
Definition hash_to_pb (h : N) : Z := to_int32 h.
Definition hash_of_pb (z : Z) : N := (of_int64 z) mod two32.

Definition to_pb_node_raw (n : node) : pb_node :=
  {| pn_id := n_id n; pn_type := n_type n; pn_points := map to_pb_raw (n_points n);
     pn_hash := hash_to_pb (n_hash n); pn_parent := n_parent n;
     pn_edge := map to_pb_raw (n_edge n) |}.
Definition to_pb_node (n : node) : outcome pb_node :=
  obind (omap to_pb (n_points n)) (fun ps =>
  obind (omap to_pb (n_edge n)) (fun es =>
  Ok {| pn_id := n_id n; pn_type := n_type n; pn_points := ps;
        pn_hash := hash_to_pb (n_hash n); pn_parent := n_parent n; pn_edge := es |})).

(* PbToNode(pbNode *pb.Node), repaired: a nil node is an error *)
Definition pb_to_node (o : option pb_node) : outcome node :=
  match o with
  | None => Err 4
  | Some pn =>
      obind (omap (fun pp => pb_to_point (Some pp)) (pn_points pn)) (fun ps =>
      obind (omap (fun pp => pb_to_point (Some pp)) (pn_edge pn)) (fun es =>
      Ok {| n_id := pn_id pn; n_type := pn_type pn; n_hash := hash_of_pb (pn_hash pn);
            n_parent := pn_parent pn; n_points := ps; n_edge := es |}))
  end.

(* --- the exported codec functions --- *)
(* Points.ToPb *)
Definition points_encode (ps : list point) : outcome bytes :=
  obind (omap to_pb ps) (marshal (forallb pp_utf8) enc_points).
(* PbDecodePoints *)
Definition pb_decode_points (bs : bytes) : outcome (list point) :=
  obind (decode_msg points_step bs []) (omap (fun pp => pb_to_point (Some pp))).

(* client.SerialEncode's protobuf payload / PbDecodeSerialPoints *)
Definition serial_encode (ps : list point) : outcome bytes :=
  marshal (forallb sp_utf8) enc_serial_points (map to_serial ps).
Definition pb_decode_serial_points (bs : bytes) : outcome (list point) :=
  obind (decode_msg serial_points_step bs []) (fun l => Ok (map serial_to_point l)).

(* NodeEdge.ToPb / PbDecodeNode *)
Definition node_encode (n : node) : outcome bytes :=
  obind (to_pb_node n) (marshal pn_utf8 enc_node).
Definition pb_decode_node (bs : bytes) : outcome node :=
  obind (decode_msg node_step bs pn_zero) (fun pn => pb_to_node (Some pn)).

(* Nodes.ToPb / PbDecodeNodes *)
Definition nodes_encode (ns : list node) : outcome bytes :=
  obind (omap to_pb_node ns) (marshal (forallb pn_utf8) enc_nodes).
Definition pb_decode_nodes (bs : bytes) : outcome (list node) :=
  obind (decode_msg nodes_step bs []) (omap (fun pn => pb_to_node (Some pn))).

(* pb.NodeRequest{Node, Error} marshalled / PbDecodeNodeRequest *)
Definition node_request_encode (on : option node) (err : bytes) : outcome bytes :=
  obind (match on with
         | None => Ok None
         | Some n => obind (to_pb_node n) (fun pn => Ok (Some pn))
         end) (fun opn =>
  marshal (fun r => match nr_node r with Some pn => pn_utf8 pn | None => true end
                    && utf8_valid (nr_error r))
          enc_node_request {| nr_node := opn; nr_error := err |}).
Definition pb_decode_node_request (bs : bytes) : outcome node :=
  obind (decode_msg node_request_step bs nr_zero) (fun r =>
  match nr_error r with
  | _ :: _ => Err 5
  | [] => pb_to_node (nr_node r)
  end).

(* pb.NodesRequest{Nodes, Error} marshalled / PbDecodeNodesRequest *)
Definition nodes_request_encode (ns : list node) (err : bytes) : outcome bytes :=
  obind (omap to_pb_node ns) (fun pns =>
  marshal (fun r => forallb pn_utf8 (nsr_nodes r) && utf8_valid (nsr_error r))
          enc_nodes_request {| nsr_nodes := pns; nsr_error := err |}).
Definition pb_decode_nodes_request (bs : bytes) : outcome (list node) :=
  obind (decode_msg nodes_request_step bs nsr_zero) (fun r =>
  match nsr_error r with
  | _ :: _ => Err 5
  | [] => omap (fun pn => pb_to_node (Some pn)) (nsr_nodes r)
  end).

(* --- DecodeSerialHrPayload ---
   [now] stands for time.Now().UnixNano(), used when the payload carries no time *)
Fixpoint strip0 (l : bytes) : bytes :=
  match l with b :: l' => if b =? 0 then strip0 l' else l | [] => [] end.
Definition trim0 (l : bytes) : bytes := rev (strip0 (rev (strip0 l))).

Fixpoint hr_samples (typ key : bytes) (start samp : Z) (i : Z) (count : nat) (d : bytes)
  : list point :=
  match count with
  | O => []
  | S c =>
      {| p_type := typ; p_key := key; p_time := wrap64 (start + i * samp)%Z;
         p_value := f32_to_f64 (le_val (firstn 4 d)); p_text := []; p_data := [];
         p_tombstone := 0; p_origin := [] |}
      :: hr_samples typ key start samp (i + 1)%Z c (skipn 4 d)
  end.

Definition decode_serial_hr_payload (now : Z) (payload : bytes) : outcome (list point) :=
  if (length payload <? 48)%nat then Err 6
  else
    let typ := trim0 (firstn 16 payload) in
    let key := trim0 (firstn 16 (skipn 16 payload)) in
    let start0 := to_int64 (le_val (firstn 8 (skipn 32 payload))) in
    let start := if (start0 =? 0)%Z then now else start0 in
    let samp := Z.of_N (le_val (firstn 4 (skipn 40 payload))) in
    let count := ((length payload - 44) / 4)%nat in
    Ok (hr_samples typ key start samp 0 count (skipn 44 payload)).

(* --- client/msg.go: strings.Split(subject, ".") and the four parsers --- *)
Fixpoint split_dot (cur : bytes) (s : bytes) : list bytes :=
  match s with
  | [] => [rev cur]
  | b :: s' => if b =? 46 then rev cur :: split_dot [] s' else split_dot (b :: cur) s'
  end.
Definition chunks (s : bytes) : list bytes := split_dot [] s.

Definition decode_node_points_msg (subj data : bytes) : outcome (bytes * list point) :=
  match chunks subj with
  | _ :: id :: _ => obind (pb_decode_points data) (fun ps => Ok (id, ps))
  | _ => Err 7
  end.
(* DecodeEdgePointsMsg and DecodeUpNodePointsMsg: chunks 1 and 2 *)
Definition decode_edge_points_msg (subj data : bytes)
  : outcome (bytes * bytes * list point) :=
  match chunks subj with
  | _ :: a :: b :: _ => obind (pb_decode_points data) (fun ps => Ok (a, b, ps))
  | _ => Err 7
  end.
Definition decode_up_node_points_msg := decode_edge_points_msg.
Definition decode_up_edge_points_msg (subj data : bytes)
  : outcome (bytes * bytes * bytes * list point) :=
  match chunks subj with
  | _ :: a :: b :: c :: _ => obind (pb_decode_points data) (fun ps => Ok (a, b, c, ps))
  | _ => Err 7
  end.

(* ------------------------------------------------------------------ *)
(* executable specification: what "survives the wire" may assume of a value *)

Definition len_ok (s : bytes) : bool := N.of_nat (length s) <? 2147483648.
Definition str_ok (s : bytes) : bool := utf8_valid s && len_ok s.
Definition time_ok (t : Z) : bool :=
  ((min_seconds * 1000000000 <=? t) && (t <? max_seconds * 1000000000))%Z.
Definition int32_ok (z : Z) : bool := ((-2147483648 <=? z) && (z <? 2147483648))%Z.

Definition point_ok (p : point) : bool :=
  str_ok (p_type p) && str_ok (p_key p) && str_ok (p_text p) && str_ok (p_origin p) &&
  len_ok (p_data p) && time_ok (p_time p) && int32_ok (p_tombstone p) && (p_value p <? two64).

Definition node_ok (n : node) : bool :=
  str_ok (n_id n) && str_ok (n_type n) && str_ok (n_parent n) && (n_hash n <? two32) &&
  forallb point_ok (n_points n) && forallb point_ok (n_edge n).

(* ------------------------------------------------------------------ *)
(* equality on values, class-only equality on errors                    *)

Definition point_eqb (a b : point) : bool :=
  bytes_eqb (p_type a) (p_type b) && bytes_eqb (p_key a) (p_key b) &&
  (p_time a =? p_time b)%Z && (p_value a =? p_value b) && bytes_eqb (p_text a) (p_text b) &&
  bytes_eqb (p_data a) (p_data b) && (p_tombstone a =? p_tombstone b)%Z &&
  bytes_eqb (p_origin a) (p_origin b).

Definition node_eqb (a b : node) : bool :=
  bytes_eqb (n_id a) (n_id b) && bytes_eqb (n_type a) (n_type b) && (n_hash a =? n_hash b) &&
  bytes_eqb (n_parent a) (n_parent b) && list_eqb point_eqb (n_points a) (n_points b) &&
  list_eqb point_eqb (n_edge a) (n_edge b).

Definition outcome_eqb {A} (eqb : A -> A -> bool) (a b : outcome A) : bool :=
  match a, b with
  | Ok x, Ok y => eqb x y
  | Err _, Err _ => true
  | Panic, Panic => true
  | _, _ => false
  end.

Definition is_panic {A} (o : outcome A) : bool := match o with Panic => true | _ => false end.
Definition is_ok_with {A} (eqb : A -> A -> bool) (o : outcome A) (x : A) : bool :=
  match o with Ok y => eqb x y | _ => false end.

(* ------------------------------------------------------------------ *)
(* case checker                                                         *)

Inductive case :=
| CPoints (ps : list point) (enc : outcome bytes) (dec : outcome (list point))
| CNode (n : node) (enc : outcome bytes) (dec : outcome node)
| CNodes (ns : list node) (enc : outcome bytes) (dec : outcome (list node))
| CNodeReq (on : option node) (err : bytes) (enc : outcome bytes) (dec : outcome node)
| CNodesReq (ns : list node) (err : bytes) (enc : outcome bytes) (dec : outcome (list node))
| CSerial (ps : list point) (enc : outcome bytes) (dec : outcome (list point))
| CBytes (bs : bytes) (now : Z)
         (o_points : outcome (list point)) (o_node : outcome node) (o_nodereq : outcome node)
         (o_nodes : outcome (list node)) (o_nodesreq : outcome (list node))
         (o_serial : outcome (list point)) (o_hr : option (outcome (list point)))
| CSubject (subj data : bytes)
         (o1 : outcome (bytes * list point)) (o2 o3 : outcome (bytes * bytes * list point))
         (o4 : outcome (bytes * bytes * bytes * list point)).

Definition points_eqb := list_eqb point_eqb.
Definition nodes_eqb := list_eqb node_eqb.

(* decode of the implementation's own bytes must agree with the model's decode *)
Definition dec_corr {A} (eqb : A -> A -> bool) (dec : bytes -> outcome A)
  (enc : outcome bytes) (got : outcome A) : bool :=
  match enc with Ok bs => outcome_eqb eqb (dec bs) got | _ => true end.

(* what survives ToSerial / SerialToPoint by design: everything but the value
   (float32) and times outside the int64 ns range *)
Definition serial_point_survives (a b : point) : bool :=
  bytes_eqb (p_type a) (p_type b) && bytes_eqb (p_key a) (p_key b) &&
  bytes_eqb (p_text a) (p_text b) && bytes_eqb (p_data a) (p_data b) &&
  (p_tombstone a =? p_tombstone b)%Z && bytes_eqb (p_origin a) (p_origin b) &&
  (if ((-9223372036854775808 <=? p_time a) && (p_time a <? 9223372036854775808))%Z
   then (p_time a =? p_time b)%Z else true).
Definition serial_point_ok (p : point) : bool :=
  str_ok (p_type p) && str_ok (p_key p) && str_ok (p_text p) && str_ok (p_origin p) &&
  len_ok (p_data p) && int32_ok (p_tombstone p).

Definition pair2_eqb (a b : bytes * list point) : bool :=
  bytes_eqb (fst a) (fst b) && points_eqb (snd a) (snd b).
Definition pair3_eqb (a b : bytes * bytes * list point) : bool :=
  bytes_eqb (fst (fst a)) (fst (fst b)) && bytes_eqb (snd (fst a)) (snd (fst b)) &&
  points_eqb (snd a) (snd b).
Definition pair4_eqb (a b : bytes * bytes * bytes * list point) : bool :=
  bytes_eqb (fst (fst (fst a))) (fst (fst (fst b))) &&
  bytes_eqb (snd (fst (fst a))) (snd (fst (fst b))) &&
  bytes_eqb (snd (fst a)) (snd (fst b)) && points_eqb (snd a) (snd b).

Definition check_case (c : case) : N :=
  match c with
  | CPoints ps enc dec =>
      let corr := outcome_eqb bytes_eqb (points_encode ps) enc
                  && dec_corr points_eqb pb_decode_points enc dec in
      let spec := negb (is_panic enc) && negb (is_panic dec) &&
                  (if forallb point_ok ps
                   then (match enc with Ok _ => true | _ => false end) && is_ok_with points_eqb dec ps
                   else true) in
      code corr spec
  | CNode n enc dec =>
      let corr := outcome_eqb bytes_eqb (node_encode n) enc
                  && dec_corr node_eqb pb_decode_node enc dec in
      let spec := negb (is_panic enc) && negb (is_panic dec) &&
                  (if node_ok n
                   then (match enc with Ok _ => true | _ => false end) && is_ok_with node_eqb dec n
                   else true) in
      code corr spec
  | CNodes ns enc dec =>
      let corr := outcome_eqb bytes_eqb (nodes_encode ns) enc
                  && dec_corr nodes_eqb pb_decode_nodes enc dec in
      let spec := negb (is_panic enc) && negb (is_panic dec) &&
                  (if forallb node_ok ns
                   then (match enc with Ok _ => true | _ => false end) && is_ok_with nodes_eqb dec ns
                   else true) in
      code corr spec
  | CNodeReq on err enc dec =>
      let corr := outcome_eqb bytes_eqb (node_request_encode on err) enc
                  && dec_corr node_eqb pb_decode_node_request enc dec in
      let spec := negb (is_panic enc) && negb (is_panic dec) &&
                  (match on, err with
                   | Some n, [] => if node_ok n then is_ok_with node_eqb dec n else true
                   | _, _ => true
                   end) in
      code corr spec
  | CNodesReq ns err enc dec =>
      let corr := outcome_eqb bytes_eqb (nodes_request_encode ns err) enc
                  && dec_corr nodes_eqb pb_decode_nodes_request enc dec in
      let spec := negb (is_panic enc) && negb (is_panic dec) &&
                  (match err with
                   | [] => if forallb node_ok ns then is_ok_with nodes_eqb dec ns else true
                   | _ => true
                   end) in
      code corr spec
  | CSerial ps enc dec =>
      let corr := outcome_eqb bytes_eqb (serial_encode ps) enc
                  && dec_corr points_eqb pb_decode_serial_points enc dec in
      let spec := negb (is_panic enc) && negb (is_panic dec) &&
                  (if forallb serial_point_ok ps
                   then is_ok_with (list_eqb serial_point_survives) dec ps
                   else true) in
      code corr spec
  | CBytes bs now o1 o2 o3 o4 o5 o6 o7 =>
      let corr := outcome_eqb points_eqb (pb_decode_points bs) o1
                  && outcome_eqb node_eqb (pb_decode_node bs) o2
                  && outcome_eqb node_eqb (pb_decode_node_request bs) o3
                  && outcome_eqb nodes_eqb (pb_decode_nodes bs) o4
                  && outcome_eqb nodes_eqb (pb_decode_nodes_request bs) o5
                  && outcome_eqb points_eqb (pb_decode_serial_points bs) o6
                  && match o7 with
                     | Some o => outcome_eqb points_eqb (decode_serial_hr_payload now bs) o
                     | None => true   (* not run on long inputs *)
                     end in
      let spec := negb (is_panic o1 || is_panic o2 || is_panic o3 || is_panic o4 ||
                        is_panic o5 || is_panic o6 ||
                        match o7 with Some o => is_panic o | None => false end) in
      code corr spec
  | CSubject subj data o1 o2 o3 o4 =>
      let corr := outcome_eqb pair2_eqb (decode_node_points_msg subj data) o1
                  && outcome_eqb pair3_eqb (decode_edge_points_msg subj data) o2
                  && outcome_eqb pair3_eqb (decode_up_node_points_msg subj data) o3
                  && outcome_eqb pair4_eqb (decode_up_edge_points_msg subj data) o4 in
      let spec := negb (is_panic o1 || is_panic o2 || is_panic o3 || is_panic o4) in
      code corr spec
  end.

(* ------------------------------------------------------------------ *)
(* decoding a case handed over by the harness                           *)

Definition point_of_val (v : val) : option point :=
  match v with
  | VL [ty; k; t; x; tx; d; tb; o] =>
      ty <- get_b ty ;; k <- get_b k ;; t <- get_z t ;; x <- get_n x ;; tx <- get_b tx ;;
      d <- get_b d ;; tb <- get_z tb ;; o <- get_b o ;;
      Some {| p_type := ty; p_key := k; p_time := t; p_value := x; p_text := tx; p_data := d;
              p_tombstone := tb; p_origin := o |}
  | _ => None
  end.

Definition node_of_val (v : val) : option node :=
  match v with
  | VL [id; ty; h; pa; ps; es] =>
      id <- get_b id ;; ty <- get_b ty ;; h <- get_n h ;; pa <- get_b pa ;;
      ps <- get_list point_of_val ps ;; es <- get_list point_of_val es ;;
      Some {| n_id := id; n_type := ty; n_hash := h; n_parent := pa; n_points := ps; n_edge := es |}
  | _ => None
  end.

Definition outcome_of_val {A} (f : val -> option A) (v : val) : option (outcome A) :=
  match v with
  | VL [VN 0; x] => a <- f x ;; Some (Ok a)
  | VL [VN 1] => Some (Err 0)
  | VL [VN 2] => Some Panic
  | _ => None
  end.

Definition points_of_val := get_list point_of_val.
Definition nodes_of_val := get_list node_of_val.
Definition pair2_of_val (v : val) : option (bytes * list point) :=
  match v with VL [a; ps] => a <- get_b a ;; ps <- points_of_val ps ;; Some (a, ps) | _ => None end.
Definition pair3_of_val (v : val) : option (bytes * bytes * list point) :=
  match v with
  | VL [a; b; ps] => a <- get_b a ;; b <- get_b b ;; ps <- points_of_val ps ;; Some (a, b, ps)
  | _ => None
  end.
Definition pair4_of_val (v : val) : option (bytes * bytes * bytes * list point) :=
  match v with
  | VL [a; b; c; ps] =>
      a <- get_b a ;; b <- get_b b ;; c <- get_b c ;; ps <- points_of_val ps ;; Some (a, b, c, ps)
  | _ => None
  end.

Definition case_of_val (v : val) : option case :=
  match v with
  | VL [VN 1; ps; enc; dec] =>
      ps <- points_of_val ps ;; enc <- outcome_of_val get_b enc ;;
      dec <- outcome_of_val points_of_val dec ;; Some (CPoints ps enc dec)
  | VL [VN 2; n; enc; dec] =>
      n <- node_of_val n ;; enc <- outcome_of_val get_b enc ;;
      dec <- outcome_of_val node_of_val dec ;; Some (CNode n enc dec)
  | VL [VN 3; ns; enc; dec] =>
      ns <- nodes_of_val ns ;; enc <- outcome_of_val get_b enc ;;
      dec <- outcome_of_val nodes_of_val dec ;; Some (CNodes ns enc dec)
  | VL [VN 4; on; err; enc; dec] =>
      on <- get_opt node_of_val on ;; err <- get_b err ;; enc <- outcome_of_val get_b enc ;;
      dec <- outcome_of_val node_of_val dec ;; Some (CNodeReq on err enc dec)
  | VL [VN 5; ns; err; enc; dec] =>
      ns <- nodes_of_val ns ;; err <- get_b err ;; enc <- outcome_of_val get_b enc ;;
      dec <- outcome_of_val nodes_of_val dec ;; Some (CNodesReq ns err enc dec)
  | VL [VN 6; ps; enc; dec] =>
      ps <- points_of_val ps ;; enc <- outcome_of_val get_b enc ;;
      dec <- outcome_of_val points_of_val dec ;; Some (CSerial ps enc dec)
  | VL [VN 7; bs; now; VL [o1; o2; o3; o4; o5; o6; o7]] =>
      bs <- get_b bs ;; now <- get_z now ;;
      o1 <- outcome_of_val points_of_val o1 ;; o2 <- outcome_of_val node_of_val o2 ;;
      o3 <- outcome_of_val node_of_val o3 ;; o4 <- outcome_of_val nodes_of_val o4 ;;
      o5 <- outcome_of_val nodes_of_val o5 ;; o6 <- outcome_of_val points_of_val o6 ;;
      o7 <- get_opt (outcome_of_val points_of_val) o7 ;;
      Some (CBytes bs now o1 o2 o3 o4 o5 o6 o7)
  | VL [VN 8; subj; data; VL [o1; o2; o3; o4]] =>
      subj <- get_b subj ;; data <- get_b data ;;
      o1 <- outcome_of_val pair2_of_val o1 ;; o2 <- outcome_of_val pair3_of_val o2 ;;
      o3 <- outcome_of_val pair3_of_val o3 ;; o4 <- outcome_of_val pair4_of_val o4 ;;
      Some (CSubject subj data o1 o2 o3 o4)
  | _ => None
  end.

Definition check_val : val -> N := check_with case_of_val check_case.
