(* The float64 -> float32 narrowing of the serial format yields a 32-bit pattern for every 64-bit
   pattern: the hypothesis that Wire.Proofs.serial_roundtrip_partial leaves open. *)
From Verif Require Import Base.Bytes Wire.Model Wire.Proofs.
From Coq Require Import Lia ZifyN ZifyBool.
Local Open Scope N_scope.

Lemma shiftr_lt a n k : a < 2 ^ (n + k) -> N.shiftr a n < 2 ^ k.
Proof.
  intros H. rewrite N.shiftr_div_pow2. apply N.div_lt_upper_bound; [apply N.pow_nonzero; discriminate|].
  rewrite <- N.pow_add_r. exact H.
Qed.

Lemma land_lt a k : N.land a (N.ones k) < 2 ^ k.
Proof. rewrite N.land_ones. apply N.mod_lt. apply N.pow_nonzero. discriminate. Qed.

Lemma sign_bound b : b < 2 ^ 64 -> N.shiftl (N.shiftr b 63) 31 = 0 \/ N.shiftl (N.shiftr b 63) 31 = 2147483648.
Proof.
  intros H. assert (Hs : N.shiftr b 63 < 2 ^ 1) by (apply shiftr_lt; exact H).
  change (2 ^ 1) with 2 in Hs.
  assert (N.shiftr b 63 = 0 \/ N.shiftr b 63 = 1) as [-> | ->] by lia; [left|right]; reflexivity.
Qed.

Lemma lor_lt a b k : a < 2 ^ k -> b < 2 ^ k -> N.lor a b < 2 ^ k.
Proof.
  intros Ha Hb. destruct (N.eq_dec (N.lor a b) 0) as [E|E]; [rewrite E; apply N.neq_0_lt_0, N.pow_nonzero; discriminate|].
  apply N.log2_lt_pow2; [lia|]. rewrite N.log2_lor.
  destruct (N.eq_dec a 0) as [->|Ha0], (N.eq_dec b 0) as [->|Hb0]; cbn [N.log2 N.max]; try (exfalso; apply E; reflexivity).
  - rewrite N.max_r by lia. apply N.log2_lt_pow2; lia.
  - rewrite N.max_l by lia. apply N.log2_lt_pow2; lia.
  - apply N.max_lub_lt; apply N.log2_lt_pow2; lia.
Qed.

Lemma rne_shift_bound M sh : M < 2 ^ 53 -> 30 <= sh -> rne_shift M sh <= 8388608.
Proof.
  intros HM Hsh. unfold rne_shift. destruct (sh =? 0) eqn:E0; [lia|].
  assert (Hq : N.shiftr M sh < 2 ^ 23).
  { apply shiftr_lt. eapply N.lt_le_trans; [exact HM|]. apply N.pow_le_mono_r; lia. }
  change (2 ^ 23) with 8388608 in Hq.
  destruct ((N.shiftl 1 (sh - 1) <? N.land M (N.ones sh)) || _); lia.
Qed.

Lemma rne_shift_29 M : M < 2 ^ 53 -> rne_shift M 29 <= 16777216.
Proof.
  intros HM. unfold rne_shift. change (29 =? 0) with false. cbv iota.
  assert (Hq : N.shiftr M 29 < 2 ^ 24) by (apply shiftr_lt; exact HM).
  change (2 ^ 24) with 16777216 in Hq.
  destruct ((N.shiftl 1 (29 - 1) <? N.land M (N.ones 29)) || _); lia.
Qed.

Theorem f64_to_f32_bound b : b < 2 ^ 64 -> f64_to_f32 b < 4294967296.
Proof.
  intros Hb. unfold f64_to_f32.
  destruct (sign_bound b Hb) as [Hs|Hs]; rewrite Hs; clear Hs;
  (set (e := N.land (N.shiftr b 52) 2047); set (m := N.land b 4503599627370495);
   assert (Hm : m < 2 ^ 52) by (unfold m; change 4503599627370495 with (N.ones 52); apply land_lt);
   assert (Hm29 : N.shiftr m 29 < 2 ^ 23) by (apply shiftr_lt; exact Hm);
   assert (Hl : N.lor (N.shiftr m 29) 4194304 < 2 ^ 23) by (apply lor_lt; [exact Hm29|reflexivity]);
   change (2 ^ 23) with 8388608 in Hl;
   destruct (e =? 2047); [destruct (m =? 0); lia|];
   destruct (e =? 0); [lia|];
   assert (HM : m + 4503599627370496 < 2 ^ 53) by (change (2 ^ 52) with 4503599627370496 in Hm; change (2 ^ 53) with 9007199254740992; lia);
   destruct (897 <=? e) eqn:E1;
   [ destruct (2139095040 <=? N.shiftl (e - 896) 23 + (rne_shift (m + 4503599627370496) 29 - 8388608)) eqn:E2; lia
   | destruct (60 <? 29 + (897 - e)); [lia|];
     pose proof (rne_shift_bound (m + 4503599627370496) (29 + (897 - e)) HM ltac:(lia)); lia ]).
Qed.

(* the serial round trip without the open hypothesis: every list of points whose values are float64 patterns *)
Theorem serial_roundtrip ps :
  forallb serial_point_ok ps = true -> Forall (fun p => p_value p < 2 ^ 64) ps ->
  exists bs, serial_encode ps = Ok bs /\ pb_decode_serial_points bs = Ok (map serial_image ps).
Proof.
  intros H Hv. apply serial_roundtrip_partial; [exact H|].
  rewrite Forall_forall in *. intros p Hp. apply f64_to_f32_bound. apply Hv. exact Hp.
Qed.
