(* C12: proofs about the wire model (Wire/Model.v).
   Layers: varint round trip; single field round trips (parse_field on an encoded
   field followed by anything); message round trips for Timestamp, Point, Points,
   Node, Nodes, NodeRequest, NodesRequest at the protobuf level; the repo's
   conversion layer; the composed round trips; totality (no decoder reaches Panic). *)
From Verif Require Import Base.Bytes Wire.Model.
From Coq Require Import ZifyN ZifyNat ZifyBool Lia.
Ltac Zify.zify_post_hook ::= Z.div_mod_to_equations.
Local Open Scope N_scope.

(* ------------------------------------------------------------------ *)
(* shift / mask facts                                                   *)

Lemma land_127 n : N.land n 127 = n mod 128.
Proof. change 127 with (N.ones 7). rewrite N.land_ones. reflexivity. Qed.

Lemma shiftr_7 n : N.shiftr n 7 = n / 128.
Proof. rewrite N.shiftr_div_pow2. reflexivity. Qed.

Lemma below_forall (P : N -> bool) (k : nat) :
  forallb P (map N.of_nat (seq 0 k)) = true -> forall a, a < N.of_nat k -> P a = true.
Proof.
  intros H a Ha. rewrite forallb_forall in H. apply H.
  apply in_map_iff. exists (N.to_nat a). split; [lia|]. apply in_seq. lia.
Qed.

(* disjoint lor is addition: the continuation bit on a 7-bit group *)
Lemma lor_128 a : a < 128 -> N.lor a 128 = a + 128.
Proof.
  intros Ha. apply N.eqb_eq.
  apply (below_forall (fun a => N.lor a 128 =? a + 128) 128); [vm_compute; reflexivity|exact Ha].
Qed.

(* ------------------------------------------------------------------ *)
(* varint round trip                                                    *)

(* values that [fuel] bytes can carry when the last byte may only be 0 or 1 *)
Fixpoint vbound (fuel : nat) : N :=
  match fuel with
  | O => 1
  | S f => match f with O => 2 | S _ => 128 * vbound f end
  end.

Lemma vbound_10 : vbound 10 = two64.
Proof. reflexivity. Qed.

Lemma dec_enc_varint_f : forall fuel n shift acc r,
  (1 <= fuel)%nat -> n < vbound fuel ->
  dec_varint_f fuel shift acc (enc_varint_f fuel n ++ r) = Some (acc + n * 2 ^ shift, r).
Proof.
  induction fuel as [|f IH]; intros n shift acc r Hf Hn; [lia|].
  cbn [enc_varint_f dec_varint_f].
  destruct (n <? 128) eqn:E.
  - cbn [app]. rewrite E. rewrite N.shiftl_mul_pow2.
    destruct f as [|f'].
    + cbn [vbound] in Hn. replace (n <? 2) with true by lia. reflexivity.
    + reflexivity.
  - apply N.ltb_ge in E.
    destruct f as [|f']; [cbn [vbound] in Hn; lia|].
    rewrite land_127, shiftr_7.
    assert (Hm : n mod 128 < 128) by (apply N.mod_lt; lia).
    rewrite lor_128 by exact Hm.
    cbn [app].
    replace (n mod 128 + 128 <? 128) with false by lia.
    rewrite IH.
    + f_equal. f_equal.
      replace (n mod 128 + 128 - 128) with (n mod 128) by lia.
      rewrite N.shiftl_mul_pow2, N.pow_add_r.
      change (2 ^ 7) with 128.
      rewrite (N.div_mod n 128) at 3 by lia.
      ring.
    + lia.
    + change (vbound (S (S f'))) with (128 * vbound (S f')) in Hn.
      apply N.div_lt_upper_bound; lia.
Qed.

Theorem dec_enc_varint n r :
  n < two64 -> dec_varint (enc_varint n ++ r) = Some (n, r).
Proof.
  intros Hn. unfold dec_varint, enc_varint.
  rewrite dec_enc_varint_f; [|lia|rewrite vbound_10; exact Hn].
  rewrite N.mul_1_r. reflexivity.
Qed.

Lemma enc_varint_f_len fuel n : (length (enc_varint_f fuel n) <= fuel)%nat.
Proof.
  revert n. induction fuel as [|f IH]; intros n; cbn [enc_varint_f]; [cbn; lia|].
  destruct (n <? 128); cbn [length]; [lia|]. specialize (IH (N.shiftr n 7)). lia.
Qed.

Lemma enc_varint_len n : (length (enc_varint n) <= 10)%nat.
Proof. apply enc_varint_f_len. Qed.

(* ------------------------------------------------------------------ *)
(* every successful parse step consumes input                           *)

Lemma dec_varint_f_shrink : forall fuel shift acc bs v r,
  dec_varint_f fuel shift acc bs = Some (v, r) -> (length r < length bs)%nat.
Proof.
  induction fuel as [|f IH]; intros shift acc bs v r H; cbn [dec_varint_f] in H; [discriminate|].
  destruct bs as [|b bs']; [discriminate|].
  destruct (b <? 128).
  - destruct f; [destruct (b <? 2)|]; inversion H; subst; cbn; lia.
  - apply IH in H. cbn. lia.
Qed.

Lemma dec_varint_shrink bs v r :
  dec_varint bs = Some (v, r) -> (length r < length bs)%nat.
Proof. apply dec_varint_f_shrink. Qed.

Lemma take_n_shrink n bs x r :
  take_n n bs = Some (x, r) -> (length r <= length bs)%nat.
Proof.
  unfold take_n. destruct (n <=? N.of_nat (length bs)); [|discriminate].
  intros H. inversion H; subst. rewrite skipn_length. lia.
Qed.

Lemma skip_group_shrink : forall fuel st bs r,
  skip_group fuel st bs = Some r -> (length r <= length bs)%nat.
Proof.
  induction fuel as [|f IH]; intros st bs r H; cbn [skip_group] in H; [discriminate|].
  destruct (dec_varint bs) as [[t r0]|] eqn:Et; [|discriminate].
  apply dec_varint_shrink in Et.
  destruct ((N.shiftr t 3 <? 1) || (2147483647 <? N.shiftr t 3)); [discriminate|].
  destruct (N.land t 7 =? 4).
  { destruct st as [|top st']; [discriminate|].
    destruct (N.shiftr t 3 =? top); [|discriminate].
    destruct st'; [inversion H; subst; lia|]. apply IH in H. lia. }
  destruct (N.land t 7 =? 3). { apply IH in H. lia. }
  destruct (N.land t 7 =? 0).
  { destruct (dec_varint r0) as [[v r1]|] eqn:E1; [|discriminate].
    apply dec_varint_shrink in E1. apply IH in H. lia. }
  destruct (N.land t 7 =? 1).
  { destruct (take_n 8 r0) as [[x r1]|] eqn:E1; [|discriminate].
    apply take_n_shrink in E1. apply IH in H. lia. }
  destruct (N.land t 7 =? 2).
  { destruct (dec_varint r0) as [[v r1]|] eqn:E1; [|discriminate].
    apply dec_varint_shrink in E1.
    destruct (take_n v r1) as [[x r2]|] eqn:E2; [|discriminate].
    apply take_n_shrink in E2. apply IH in H. lia. }
  destruct (N.land t 7 =? 5); [|discriminate].
  destruct (take_n 4 r0) as [[x r1]|] eqn:E1; [|discriminate].
  apply take_n_shrink in E1. apply IH in H. lia.
Qed.

Lemma parse_field_shrink bs fld r :
  parse_field bs = Some (fld, r) -> (length r < length bs)%nat.
Proof.
  unfold parse_field. intros H.
  destruct (dec_varint bs) as [[t r0]|] eqn:Et; [|discriminate].
  apply dec_varint_shrink in Et.
  destruct ((N.shiftr t 3 <? 1) || (536870911 <? N.shiftr t 3)); [discriminate|].
  destruct (N.land t 7 =? 0).
  { destruct (dec_varint r0) as [[v r1]|] eqn:E1; [|discriminate].
    apply dec_varint_shrink in E1. inversion H; subst. lia. }
  destruct (N.land t 7 =? 1).
  { destruct (take_n 8 r0) as [[x r1]|] eqn:E1; [|discriminate].
    apply take_n_shrink in E1. inversion H; subst. lia. }
  destruct (N.land t 7 =? 2).
  { destruct (dec_varint r0) as [[v r1]|] eqn:E1; [|discriminate].
    apply dec_varint_shrink in E1.
    destruct (take_n v r1) as [[x r2]|] eqn:E2; [|discriminate].
    apply take_n_shrink in E2. inversion H; subst. lia. }
  destruct (N.land t 7 =? 3).
  { destruct (skip_group (S (length r0)) [N.shiftr t 3] r0) as [r1|] eqn:E1; [|discriminate].
    apply skip_group_shrink in E1. inversion H; subst. lia. }
  destruct (N.land t 7 =? 5); [|discriminate].
  destruct (take_n 4 r0) as [[x r1]|] eqn:E1; [|discriminate].
  apply take_n_shrink in E1. inversion H; subst. lia.
Qed.

(* the fuel of parse_fields is irrelevant once it covers the input *)
Lemma parse_fields_fuel : forall f1 f2 bs,
  (length bs <= f1)%nat -> (length bs <= f2)%nat -> parse_fields f1 bs = parse_fields f2 bs.
Proof.
  induction f1 as [|f1 IH]; intros f2 bs H1 H2.
  - destruct bs; [destruct f2; reflexivity|cbn in H1; lia].
  - destruct bs as [|b bs']; [destruct f2; reflexivity|].
    destruct f2 as [|f2]; [cbn in H2; lia|].
    cbn [parse_fields].
    destruct (parse_field (b :: bs')) as [[fld rest]|] eqn:E; [|reflexivity].
    apply parse_field_shrink in E. cbn [length] in *.
    rewrite (IH f2 rest) by lia. reflexivity.
Qed.

Lemma parse_all_step bs fld rest :
  parse_field bs = Some (fld, rest) ->
  parse_all bs = match parse_all rest with Some l => Some (fld :: l) | None => None end.
Proof.
  intros H. pose proof (parse_field_shrink _ _ _ H) as Hs.
  unfold parse_all. destruct bs as [|b bs']; [cbn in Hs; lia|].
  cbn [length parse_fields]. rewrite H.
  rewrite (parse_fields_fuel (length bs') (length rest) rest) by (cbn [length] in Hs; lia).
  reflexivity.
Qed.

Lemma decode_msg_nil {M} (step : N -> wval -> M -> outcome M) acc :
  decode_msg step [] acc = Ok acc.
Proof. reflexivity. Qed.

Lemma decode_msg_step {M} (step : N -> wval -> M -> outcome M) bs num wv rest acc acc' :
  parse_field bs = Some ((num, wv), rest) ->
  step num wv acc = Ok acc' ->
  decode_msg step bs acc = decode_msg step rest acc'.
Proof.
  intros Hp Hs. unfold decode_msg. rewrite (parse_all_step _ _ _ Hp).
  destruct (parse_all rest); [|reflexivity].
  cbn [apply_fields]. rewrite Hs. reflexivity.
Qed.

(* ------------------------------------------------------------------ *)
(* list / fixed-width helpers                                           *)

Lemma take_n_app (a r : bytes) : take_n (N.of_nat (length a)) (a ++ r) = Some (a, r).
Proof.
  unfold take_n. rewrite app_length.
  replace (N.of_nat (length a) <=? N.of_nat (length a + length r)%nat) with true by lia.
  rewrite Nat2N.id, firstn_app, skipn_app, firstn_all, skipn_all, Nat.sub_diag.
  cbn. rewrite app_nil_r. reflexivity.
Qed.

Fixpoint pow256 (n : nat) : N := match n with O => 1 | S k => 256 * pow256 k end.

Lemma pow256_pos n : 0 < pow256 n.
Proof. induction n; cbn [pow256]; lia. Qed.

Lemma le_bytes_len n v : length (le_bytes n v) = n.
Proof. revert v. induction n as [|k IH]; intros v; cbn [le_bytes length]; [reflexivity|]. rewrite IH. reflexivity. Qed.

Lemma le_val_bytes n v : le_val (le_bytes n v) = v mod pow256 n.
Proof.
  revert v. induction n as [|k IH]; intros v; cbn [le_bytes le_val pow256].
  - rewrite N.mod_1_r. reflexivity.
  - rewrite IH. pose proof (pow256_pos k).
    rewrite N.mod_mul_r by lia. reflexivity.
Qed.

Lemma le_val_bytes8 v : v < two64 -> le_val (le_bytes 8 v) = v.
Proof. intros H. rewrite le_val_bytes. apply N.mod_small. exact H. Qed.

Lemma le_val_bytes4 v : v < two32 -> le_val (le_bytes 4 v) = v.
Proof. intros H. rewrite le_val_bytes. apply N.mod_small. exact H. Qed.

(* ------------------------------------------------------------------ *)
(* single field round trips: parse_field on an encoded field + anything *)

(* [t] is the tag value of field [num] with wire type [wt] *)
Definition tag_ok (t num wt : N) : Prop :=
  t < two64 /\ N.shiftr t 3 = num /\ N.land t 7 = wt /\
  ((num <? 1) || (536870911 <? num)) = false.

Ltac tagok := unfold tag_ok; vm_compute; repeat split; reflexivity.

Lemma parse_ld t num p r :
  tag_ok t num 2 -> N.of_nat (length p) < two64 ->
  parse_field (enc_varint t ++ enc_varint (N.of_nat (length p)) ++ p ++ r)
  = Some ((num, WBytes p), r).
Proof.
  intros (Ht & Hnum & Hwt & Hr) Hl. unfold parse_field.
  rewrite dec_enc_varint by exact Ht. rewrite Hnum, Hwt, Hr. cbn [N.eqb Pos.eqb].
  rewrite dec_enc_varint by exact Hl. rewrite take_n_app. reflexivity.
Qed.

Lemma parse_varint t num v r :
  tag_ok t num 0 -> v < two64 ->
  parse_field (enc_varint t ++ enc_varint v ++ r) = Some ((num, WVarint v), r).
Proof.
  intros (Ht & Hnum & Hwt & Hr) Hv. unfold parse_field.
  rewrite dec_enc_varint by exact Ht. rewrite Hnum, Hwt, Hr. cbn [N.eqb Pos.eqb].
  rewrite dec_enc_varint by exact Hv. reflexivity.
Qed.

Lemma parse_fixed64 t num v r :
  tag_ok t num 1 -> v < two64 ->
  parse_field (enc_varint t ++ le_bytes 8 v ++ r) = Some ((num, WFixed64 v), r).
Proof.
  intros (Ht & Hnum & Hwt & Hr) Hv. unfold parse_field.
  rewrite dec_enc_varint by exact Ht. rewrite Hnum, Hwt, Hr. cbn [N.eqb Pos.eqb].
  change 8 with (N.of_nat (length (le_bytes 8 v))) at 1.
  rewrite take_n_app, le_val_bytes8 by exact Hv. reflexivity.
Qed.

Lemma parse_fixed32 t num v r :
  tag_ok t num 5 -> v < two32 ->
  parse_field (enc_varint t ++ le_bytes 4 v ++ r) = Some ((num, WFixed32 v), r).
Proof.
  intros (Ht & Hnum & Hwt & Hr) Hv. unfold parse_field.
  rewrite dec_enc_varint by exact Ht. rewrite Hnum, Hwt, Hr. cbn [N.eqb Pos.eqb].
  change 4 with (N.of_nat (length (le_bytes 4 v))) at 1.
  rewrite take_n_app, le_val_bytes4 by exact Hv. reflexivity.
Qed.

(* ------------------------------------------------------------------ *)
(* field encoders inside a message                                      *)

Section Fields.
Context {M : Type} (step : N -> wval -> M -> outcome M).

Lemma dm_ld num p rest acc acc' :
  tag_ok (mk_tag num 2) num 2 -> N.of_nat (length p) < two64 ->
  step num (WBytes p) acc = Ok acc' ->
  decode_msg step (enc_ld num p ++ rest) acc = decode_msg step rest acc'.
Proof.
  intros Ht Hl Hs. unfold enc_ld, enc_tag. repeat rewrite <- app_assoc.
  eapply decode_msg_step; [apply parse_ld; eassumption|exact Hs].
Qed.

(* string / bytes field: omitted when empty *)
Lemma dm_str num s rest acc acc' :
  tag_ok (mk_tag num 2) num 2 -> N.of_nat (length s) < two64 ->
  (s <> [] -> step num (WBytes s) acc = Ok acc') -> (s = [] -> acc' = acc) ->
  decode_msg step (enc_str_field num s ++ rest) acc = decode_msg step rest acc'.
Proof.
  intros Ht Hl Hs Hz. destruct s as [|b s'].
  - cbn [enc_str_field app]. rewrite Hz; reflexivity.
  - cbn [enc_str_field]. apply dm_ld; [exact Ht|exact Hl|apply Hs; discriminate].
Qed.

Lemma dm_varint num v rest acc acc' :
  tag_ok (mk_tag num 0) num 0 -> v < two64 ->
  (v <> 0 -> step num (WVarint v) acc = Ok acc') -> (v = 0 -> acc' = acc) ->
  decode_msg step (enc_varint_field num v ++ rest) acc = decode_msg step rest acc'.
Proof.
  intros Ht Hv Hs Hz. unfold enc_varint_field. destruct (v =? 0) eqn:E.
  - apply N.eqb_eq in E. cbn [app]. rewrite Hz; [reflexivity|exact E].
  - apply N.eqb_neq in E. unfold enc_tag. repeat rewrite <- app_assoc.
    eapply decode_msg_step; [apply parse_varint; eassumption|apply Hs; exact E].
Qed.

Lemma dm_fixed64 num v rest acc acc' :
  tag_ok (mk_tag num 1) num 1 -> v < two64 ->
  (v <> 0 -> step num (WFixed64 v) acc = Ok acc') -> (v = 0 -> acc' = acc) ->
  decode_msg step (enc_fixed64_field num v ++ rest) acc = decode_msg step rest acc'.
Proof.
  intros Ht Hv Hs Hz. unfold enc_fixed64_field. destruct (v =? 0) eqn:E.
  - apply N.eqb_eq in E. cbn [app]. rewrite Hz; [reflexivity|exact E].
  - apply N.eqb_neq in E. unfold enc_tag. repeat rewrite <- app_assoc.
    eapply decode_msg_step; [apply parse_fixed64; eassumption|apply Hs; exact E].
Qed.

Lemma dm_fixed32 num v rest acc acc' :
  tag_ok (mk_tag num 5) num 5 -> v < two32 ->
  (v <> 0 -> step num (WFixed32 v) acc = Ok acc') -> (v = 0 -> acc' = acc) ->
  decode_msg step (enc_fixed32_field num v ++ rest) acc = decode_msg step rest acc'.
Proof.
  intros Ht Hv Hs Hz. unfold enc_fixed32_field. destruct (v =? 0) eqn:E.
  - apply N.eqb_eq in E. cbn [app]. rewrite Hz; [reflexivity|exact E].
  - apply N.eqb_neq in E. unfold enc_tag. repeat rewrite <- app_assoc.
    eapply decode_msg_step; [apply parse_fixed32; eassumption|apply Hs; exact E].
Qed.

(* repeated embedded message: every element is appended *)
Lemma dm_rep {A} num (enc : A -> bytes) (add : M -> A -> M) (xs : list A) rest acc :
  tag_ok (mk_tag num 2) num 2 ->
  (forall x, In x xs -> N.of_nat (length (enc x)) < two64) ->
  (forall x a, In x xs -> step num (WBytes (enc x)) a = Ok (add a x)) ->
  decode_msg step (enc_rep_field num enc xs ++ rest) acc
  = decode_msg step rest (fold_left add xs acc).
Proof.
  intros Ht. revert acc. induction xs as [|x xs IH]; intros acc Hl Hs.
  - reflexivity.
  - unfold enc_rep_field. cbn [map concat fold_left]. rewrite <- app_assoc.
    rewrite (dm_ld num (enc x) _ acc (add acc x)); [|exact Ht|apply Hl; left; reflexivity|apply Hs; left; reflexivity].
    apply IH; intros; [apply Hl|apply Hs]; right; assumption.
Qed.
End Fields.

(* ------------------------------------------------------------------ *)
(* machine integer facts                                                *)

Definition int64_ok (z : Z) : Prop := (-9223372036854775808 <= z < 9223372036854775808)%Z.
Definition int32_okP (z : Z) : Prop := (-2147483648 <= z < 2147483648)%Z.

Lemma of_int64_lt z : of_int64 z < two64.
Proof. unfold of_int64, two64. lia. Qed.

Lemma to_int64_of z : int64_ok z -> to_int64 (of_int64 z) = z.
Proof.
  unfold int64_ok, to_int64, of_int64, two64. intros H.
  rewrite N.mod_small by lia. rewrite Z2N.id by lia.
  destruct (z mod 18446744073709551616 <? 9223372036854775808)%Z eqn:E; lia.
Qed.

Lemma to_int32_of z : int32_okP z -> to_int32 (of_int64 z) = z.
Proof.
  unfold int32_okP, to_int32, of_int64, two32. intros H.
  assert (E : Z.of_N (Z.to_N (z mod 18446744073709551616) mod 4294967296) = (z mod 4294967296)%Z).
  { rewrite N2Z.inj_mod, Z2N.id by lia. cbn [Z.of_N]. lia. }
  rewrite E. destruct (z mod 4294967296 <? 2147483648)%Z eqn:E2; lia.
Qed.

Lemma of_int64_zero z : int64_ok z -> of_int64 z = 0 -> z = 0%Z.
Proof. unfold int64_ok, of_int64. lia. Qed.

Lemma int32_int64 z : int32_okP z -> int64_ok z.
Proof. unfold int32_okP, int64_ok. lia. Qed.

(* ------------------------------------------------------------------ *)
(* message round trips at the protobuf level                            *)

Definition lenP (s : bytes) : Prop := N.of_nat (length s) < two64.

Definition ts_wf (t : pb_timestamp) : Prop := int64_ok (ts_seconds t) /\ int32_okP (ts_nanos t).

Lemma dec_enc_timestamp t : ts_wf t -> decode_msg ts_step (enc_timestamp t) ts_zero = Ok t.
Proof.
  intros [Hs Hn]. destruct t as [s n]. cbn [ts_seconds ts_nanos] in *.
  unfold enc_timestamp, enc_int_field. cbn [ts_seconds ts_nanos].
  rewrite (dm_varint ts_step 1 (of_int64 s) _ ts_zero {| ts_seconds := s; ts_nanos := 0 |}).
  - rewrite <- (app_nil_r (enc_varint_field 2 _)).
    rewrite (dm_varint ts_step 2 (of_int64 n) [] _ {| ts_seconds := s; ts_nanos := n |}).
    + reflexivity.
    + tagok.
    + apply of_int64_lt.
    + intros _. unfold ts_step. cbn [N.eqb Pos.eqb ts_seconds ts_nanos].
      rewrite to_int32_of by exact Hn. reflexivity.
    + intros E. apply of_int64_zero in E; [|apply int32_int64; exact Hn]. subst. reflexivity.
  - tagok.
  - apply of_int64_lt.
  - intros _. unfold ts_step. cbn [N.eqb Pos.eqb ts_seconds ts_nanos ts_zero].
    rewrite to_int64_of by exact Hs. reflexivity.
  - intros E. apply of_int64_zero in E; [|exact Hs]. subst. reflexivity.
Qed.

Lemma enc_varint_field_len num v : (length (enc_varint_field num v) <= 20)%nat.
Proof.
  unfold enc_varint_field, enc_tag. destruct (v =? 0); [cbn; lia|].
  rewrite app_length. pose proof (enc_varint_len (mk_tag num 0)). pose proof (enc_varint_len v). lia.
Qed.

Lemma enc_timestamp_len t : lenP (enc_timestamp t).
Proof.
  unfold lenP, enc_timestamp, enc_int_field. rewrite app_length.
  pose proof (enc_varint_field_len 1 (of_int64 (ts_seconds t))).
  pose proof (enc_varint_field_len 2 (of_int64 (ts_nanos t))).
  unfold two64. lia.
Qed.

Definition pp_wf (p : pb_point) : Prop :=
  utf8_valid (pp_type p) = true /\ utf8_valid (pp_text p) = true /\
  utf8_valid (pp_key p) = true /\ utf8_valid (pp_origin p) = true /\
  lenP (pp_type p) /\ lenP (pp_text p) /\ lenP (pp_key p) /\ lenP (pp_origin p) /\
  lenP (pp_data p) /\ pp_value p < two64 /\ int32_okP (pp_tombstone p) /\
  match pp_time p with Some t => ts_wf t | None => True end.

Tactic Notation "str_rw" uconstr(l) "by" constr(H) "in" reference(step) :=
  rewrite l;
  [|tagok|assumption|intros _; unfold step, set_str; rewrite H; reflexivity|intros ->; reflexivity].

Lemma dec_enc_point_tail ty v tm tx k tb d o :
  utf8_valid tx = true -> utf8_valid k = true -> utf8_valid o = true ->
  lenP tx -> lenP k -> lenP o -> lenP d -> int32_okP tb ->
  decode_msg point_step
    (enc_str_field 8 tx ++ enc_str_field 11 k ++ enc_int_field 12 tb ++
     enc_str_field 14 d ++ enc_str_field 15 o)
    {| pp_type := ty; pp_value := v; pp_time := tm; pp_text := []; pp_key := [];
       pp_tombstone := 0; pp_data := []; pp_origin := [] |}
  = Ok {| pp_type := ty; pp_value := v; pp_time := tm; pp_text := tx; pp_key := k;
          pp_tombstone := tb; pp_data := d; pp_origin := o |}.
Proof.
  intros Utx Uk Uo Ltx Lk Lo Ld Htb. unfold lenP in *.
  str_rw (dm_str point_step 8 tx _ _
    {| pp_type := ty; pp_value := v; pp_time := tm; pp_text := tx; pp_key := [];
       pp_tombstone := 0; pp_data := []; pp_origin := [] |}) by Utx in point_step.
  str_rw (dm_str point_step 11 k _ _
    {| pp_type := ty; pp_value := v; pp_time := tm; pp_text := tx; pp_key := k;
       pp_tombstone := 0; pp_data := []; pp_origin := [] |}) by Uk in point_step.
  unfold enc_int_field.
  rewrite (dm_varint point_step 12 (of_int64 tb) _ _
    {| pp_type := ty; pp_value := v; pp_time := tm; pp_text := tx; pp_key := k;
       pp_tombstone := tb; pp_data := []; pp_origin := [] |});
    [|tagok|apply of_int64_lt
     |intros _; unfold point_step; cbn [N.eqb Pos.eqb pp_type pp_value pp_time pp_text pp_key pp_tombstone pp_data pp_origin];
      rewrite to_int32_of by exact Htb; reflexivity
     |intros E; apply of_int64_zero in E; [subst; reflexivity|apply int32_int64; exact Htb]].
  rewrite (dm_str point_step 14 d _ _
    {| pp_type := ty; pp_value := v; pp_time := tm; pp_text := tx; pp_key := k;
       pp_tombstone := tb; pp_data := d; pp_origin := [] |});
    [|tagok|assumption|intros _; reflexivity|intros ->; reflexivity].
  rewrite <- (app_nil_r (enc_str_field 15 o)).
  str_rw (dm_str point_step 15 o [] _
    {| pp_type := ty; pp_value := v; pp_time := tm; pp_text := tx; pp_key := k;
       pp_tombstone := tb; pp_data := d; pp_origin := o |}) by Uo in point_step.
  reflexivity.
Qed.

Lemma dec_enc_point p : pp_wf p -> decode_msg point_step (enc_point p) pp_zero = Ok p.
Proof.
  destruct p as [ty v tm tx k tb d o]. unfold pp_wf.
  cbn [pp_type pp_value pp_time pp_text pp_key pp_tombstone pp_data pp_origin].
  intros (Uty & Utx & Uk & Uo & Lty & Ltx & Lk & Lo & Ld & Hv & Htb & Htm).
  unfold enc_point.
  cbn [pp_type pp_value pp_time pp_text pp_key pp_tombstone pp_data pp_origin].
  unfold lenP in Lty.
  str_rw (dm_str point_step 2 ty _ pp_zero
    {| pp_type := ty; pp_value := 0; pp_time := None; pp_text := []; pp_key := [];
       pp_tombstone := 0; pp_data := []; pp_origin := [] |}) by Uty in point_step.
  rewrite (dm_fixed64 point_step 4 v _ _
    {| pp_type := ty; pp_value := v; pp_time := None; pp_text := []; pp_key := [];
       pp_tombstone := 0; pp_data := []; pp_origin := [] |});
    [|tagok|exact Hv|intros _; reflexivity|intros ->; reflexivity].
  destruct tm as [t|]; cbn [option_map enc_msg_field].
  - rewrite (dm_ld point_step 5 (enc_timestamp t) _ _
      {| pp_type := ty; pp_value := v; pp_time := Some t; pp_text := []; pp_key := [];
         pp_tombstone := 0; pp_data := []; pp_origin := [] |});
      [|tagok|apply enc_timestamp_len|].
    + apply dec_enc_point_tail; assumption.
    + unfold point_step.
      cbn [N.eqb Pos.eqb pp_type pp_value pp_time pp_text pp_key pp_tombstone pp_data pp_origin].
      rewrite dec_enc_timestamp by exact Htm. reflexivity.
  - cbn [app]. apply dec_enc_point_tail; assumption.
Qed.

Lemma fold_left_snoc {A} (xs : list A) acc :
  fold_left (fun a x => a ++ [x]) xs acc = acc ++ xs.
Proof.
  revert acc. induction xs as [|x xs IH]; intros acc; cbn [fold_left].
  - rewrite app_nil_r. reflexivity.
  - rewrite IH, <- app_assoc. reflexivity.
Qed.

Lemma dec_enc_points pps :
  Forall pp_wf pps -> Forall (fun p => lenP (enc_point p)) pps ->
  decode_msg points_step (enc_points pps) [] = Ok pps.
Proof.
  intros Hwf Hlen. unfold enc_points. rewrite <- (app_nil_r (enc_rep_field 1 enc_point pps)).
  rewrite (dm_rep points_step 1 enc_point (fun a x => a ++ [x])).
  - rewrite fold_left_snoc. reflexivity.
  - tagok.
  - intros x Hin. rewrite Forall_forall in Hlen. apply Hlen. exact Hin.
  - intros x a Hin. rewrite Forall_forall in Hwf. unfold points_step. cbn [N.eqb Pos.eqb].
    rewrite dec_enc_point by (apply Hwf; exact Hin). reflexivity.
Qed.

(* --- Node --- *)
Definition pn_wf (n : pb_node) : Prop :=
  utf8_valid (pn_id n) = true /\ utf8_valid (pn_type n) = true /\ utf8_valid (pn_parent n) = true /\
  lenP (pn_id n) /\ lenP (pn_type n) /\ lenP (pn_parent n) /\ int32_okP (pn_hash n) /\
  Forall pp_wf (pn_points n) /\ Forall (fun p => lenP (enc_point p)) (pn_points n) /\
  Forall pp_wf (pn_edge n) /\ Forall (fun p => lenP (enc_point p)) (pn_edge n).

Definition pn_add_point (n : pb_node) (p : pb_point) : pb_node :=
  {| pn_id := pn_id n; pn_type := pn_type n; pn_points := pn_points n ++ [p];
     pn_hash := pn_hash n; pn_parent := pn_parent n; pn_edge := pn_edge n |}.
Definition pn_add_edge (n : pb_node) (p : pb_point) : pb_node :=
  {| pn_id := pn_id n; pn_type := pn_type n; pn_points := pn_points n;
     pn_hash := pn_hash n; pn_parent := pn_parent n; pn_edge := pn_edge n ++ [p] |}.

Lemma fold_pn_add_point xs id ty ps h pa es :
  fold_left pn_add_point xs
    {| pn_id := id; pn_type := ty; pn_points := ps; pn_hash := h; pn_parent := pa; pn_edge := es |}
  = {| pn_id := id; pn_type := ty; pn_points := ps ++ xs; pn_hash := h; pn_parent := pa; pn_edge := es |}.
Proof.
  revert ps. induction xs as [|x xs IH]; intros ps; cbn [fold_left].
  - rewrite app_nil_r. reflexivity.
  - unfold pn_add_point at 2. cbn [pn_id pn_type pn_points pn_hash pn_parent pn_edge].
    rewrite IH, <- app_assoc. reflexivity.
Qed.

Lemma fold_pn_add_edge xs id ty ps h pa es :
  fold_left pn_add_edge xs
    {| pn_id := id; pn_type := ty; pn_points := ps; pn_hash := h; pn_parent := pa; pn_edge := es |}
  = {| pn_id := id; pn_type := ty; pn_points := ps; pn_hash := h; pn_parent := pa; pn_edge := es ++ xs |}.
Proof.
  revert es. induction xs as [|x xs IH]; intros es; cbn [fold_left].
  - rewrite app_nil_r. reflexivity.
  - unfold pn_add_edge at 2. cbn [pn_id pn_type pn_points pn_hash pn_parent pn_edge].
    rewrite IH, <- app_assoc. reflexivity.
Qed.

Lemma dec_enc_node n : pn_wf n -> decode_msg node_step (enc_node n) pn_zero = Ok n.
Proof.
  destruct n as [id ty ps h pa es]. unfold pn_wf.
  cbn [pn_id pn_type pn_points pn_hash pn_parent pn_edge].
  intros (Uid & Uty & Upa & Lid & Lty & Lpa & Hh & Wps & Lps & Wes & Les).
  unfold enc_node. cbn [pn_id pn_type pn_points pn_hash pn_parent pn_edge].
  unfold lenP in Lid, Lty, Lpa.
  str_rw (dm_str node_step 1 id _ pn_zero
    {| pn_id := id; pn_type := []; pn_points := []; pn_hash := 0; pn_parent := []; pn_edge := [] |})
    by Uid in node_step.
  str_rw (dm_str node_step 2 ty _ _
    {| pn_id := id; pn_type := ty; pn_points := []; pn_hash := 0; pn_parent := []; pn_edge := [] |})
    by Uty in node_step.
  rewrite (dm_rep node_step 3 enc_point pn_add_point);
    [|tagok
     |intros x Hin; rewrite Forall_forall in Lps; apply Lps; exact Hin
     |intros x a Hin; rewrite Forall_forall in Wps; unfold node_step; cbn [N.eqb Pos.eqb];
      rewrite dec_enc_point by (apply Wps; exact Hin); reflexivity].
  rewrite fold_pn_add_point. cbn [app].
  unfold enc_int_field.
  rewrite (dm_varint node_step 4 (of_int64 h) _ _
    {| pn_id := id; pn_type := ty; pn_points := ps; pn_hash := h; pn_parent := []; pn_edge := [] |});
    [|tagok|apply of_int64_lt
     |intros _; unfold node_step; cbn [N.eqb Pos.eqb pn_id pn_type pn_points pn_hash pn_parent pn_edge];
      rewrite to_int32_of by exact Hh; reflexivity
     |intros E; apply of_int64_zero in E; [subst; reflexivity|apply int32_int64; exact Hh]].
  str_rw (dm_str node_step 6 pa _ _
    {| pn_id := id; pn_type := ty; pn_points := ps; pn_hash := h; pn_parent := pa; pn_edge := [] |})
    by Upa in node_step.
  rewrite <- (app_nil_r (enc_rep_field 7 enc_point es)).
  rewrite (dm_rep node_step 7 enc_point pn_add_edge);
    [|tagok
     |intros x Hin; rewrite Forall_forall in Les; apply Les; exact Hin
     |intros x a Hin; rewrite Forall_forall in Wes; unfold node_step; cbn [N.eqb Pos.eqb];
      rewrite dec_enc_point by (apply Wes; exact Hin); reflexivity].
  rewrite fold_pn_add_edge. reflexivity.
Qed.

Lemma dec_enc_nodes pns :
  Forall pn_wf pns -> Forall (fun n => lenP (enc_node n)) pns ->
  decode_msg nodes_step (enc_nodes pns) [] = Ok pns.
Proof.
  intros Hwf Hlen. unfold enc_nodes. rewrite <- (app_nil_r (enc_rep_field 1 enc_node pns)).
  rewrite (dm_rep nodes_step 1 enc_node (fun a x => a ++ [x])).
  - rewrite fold_left_snoc. reflexivity.
  - tagok.
  - intros x Hin. rewrite Forall_forall in Hlen. apply Hlen. exact Hin.
  - intros x a Hin. rewrite Forall_forall in Hwf. unfold nodes_step. cbn [N.eqb Pos.eqb].
    rewrite dec_enc_node by (apply Hwf; exact Hin). reflexivity.
Qed.

(* --- NodeRequest / NodesRequest --- *)
Lemma dec_enc_node_request r :
  match nr_node r with Some n => pn_wf n /\ lenP (enc_node n) | None => True end ->
  utf8_valid (nr_error r) = true -> lenP (nr_error r) ->
  decode_msg node_request_step (enc_node_request r) nr_zero = Ok r.
Proof.
  destruct r as [on err]. cbn [nr_node nr_error]. intros Hn Uerr Lerr.
  unfold enc_node_request. cbn [nr_node nr_error]. unfold lenP in Lerr.
  rewrite <- (app_nil_r (enc_str_field 2 err)).
  destruct on as [n|]; cbn [option_map enc_msg_field].
  - destruct Hn as [Hw Hl].
    rewrite (dm_ld node_request_step 1 (enc_node n) _ _ {| nr_node := Some n; nr_error := [] |});
      [|tagok|exact Hl
       |unfold node_request_step; cbn [N.eqb Pos.eqb nr_node nr_error nr_zero];
        rewrite dec_enc_node by exact Hw; reflexivity].
    str_rw (dm_str node_request_step 2 err [] _ {| nr_node := Some n; nr_error := err |})
      by Uerr in node_request_step.
    reflexivity.
  - cbn [app].
    str_rw (dm_str node_request_step 2 err [] nr_zero {| nr_node := None; nr_error := err |})
      by Uerr in node_request_step.
    reflexivity.
Qed.

Definition nsr_add (r : pb_nodes_request) (n : pb_node) : pb_nodes_request :=
  {| nsr_nodes := nsr_nodes r ++ [n]; nsr_error := nsr_error r |}.

Lemma fold_nsr_add xs ns err :
  fold_left nsr_add xs {| nsr_nodes := ns; nsr_error := err |}
  = {| nsr_nodes := ns ++ xs; nsr_error := err |}.
Proof.
  revert ns. induction xs as [|x xs IH]; intros ns; cbn [fold_left].
  - rewrite app_nil_r. reflexivity.
  - unfold nsr_add at 2. cbn [nsr_nodes nsr_error]. rewrite IH, <- app_assoc. reflexivity.
Qed.

Lemma dec_enc_nodes_request r :
  Forall pn_wf (nsr_nodes r) -> Forall (fun n => lenP (enc_node n)) (nsr_nodes r) ->
  utf8_valid (nsr_error r) = true -> lenP (nsr_error r) ->
  decode_msg nodes_request_step (enc_nodes_request r) nsr_zero = Ok r.
Proof.
  destruct r as [ns err]. cbn [nsr_nodes nsr_error]. intros Hwf Hlen Uerr Lerr.
  unfold enc_nodes_request. cbn [nsr_nodes nsr_error]. unfold lenP in Lerr.
  rewrite (dm_rep nodes_request_step 1 enc_node nsr_add);
    [|tagok
     |intros x Hin; rewrite Forall_forall in Hlen; apply Hlen; exact Hin
     |intros x a Hin; rewrite Forall_forall in Hwf; unfold nodes_request_step; cbn [N.eqb Pos.eqb];
      rewrite dec_enc_node by (apply Hwf; exact Hin); reflexivity].
  unfold nsr_zero. rewrite fold_nsr_add. cbn [app].
  rewrite <- (app_nil_r (enc_str_field 2 err)).
  str_rw (dm_str nodes_request_step 2 err [] _ {| nsr_nodes := ns; nsr_error := err |})
    by Uerr in nodes_request_step.
  reflexivity.
Qed.

(* ------------------------------------------------------------------ *)
(* the repo's conversion layer                                          *)

Lemma omap_ok {A B} (f : A -> outcome B) (g : A -> B) l :
  (forall a, In a l -> f a = Ok (g a)) -> omap f l = Ok (map g l).
Proof.
  induction l as [|a l IH]; intros H; cbn [omap map]; [reflexivity|].
  rewrite H by (left; reflexivity). rewrite IH by (intros; apply H; right; assumption).
  reflexivity.
Qed.

Lemma omap_inv {A B} (f : B -> outcome A) (g : A -> B) l :
  (forall a, In a l -> f (g a) = Ok a) -> omap f (map g l) = Ok l.
Proof.
  induction l as [|a l IH]; intros H; cbn [omap map]; [reflexivity|].
  rewrite H by (left; reflexivity). rewrite IH by (intros; apply H; right; assumption).
  reflexivity.
Qed.

Lemma ts_of_time_valid t : time_ok t = true -> ts_valid (ts_of_time t) = true.
Proof.
  unfold time_ok, ts_valid, ts_of_time, min_seconds, max_seconds. cbn [ts_seconds ts_nanos].
  intros H. lia.
Qed.

Lemma ts_of_time_wf t : time_ok t = true -> ts_wf (ts_of_time t).
Proof.
  unfold time_ok, ts_wf, ts_of_time, int64_ok, int32_okP, min_seconds, max_seconds.
  cbn [ts_seconds ts_nanos]. intros H. lia.
Qed.

Lemma time_of_ts_of_time t : time_of_ts (ts_of_time t) = t.
Proof. unfold time_of_ts, ts_of_time. cbn [ts_seconds ts_nanos]. lia. Qed.

Lemma wrap32_id z : int32_ok z = true -> wrap32 z = z.
Proof. intros H. unfold wrap32. apply to_int32_of. unfold int32_ok in H. unfold int32_okP. lia. Qed.

Lemma len_ok_lenP s : len_ok s = true -> lenP s.
Proof. unfold len_ok, lenP, two64. lia. Qed.

(* unpack the executable predicate *)
Lemma point_ok_inv p : point_ok p = true ->
  (utf8_valid (p_type p) = true /\ len_ok (p_type p) = true) /\
  (utf8_valid (p_key p) = true /\ len_ok (p_key p) = true) /\
  (utf8_valid (p_text p) = true /\ len_ok (p_text p) = true) /\
  (utf8_valid (p_origin p) = true /\ len_ok (p_origin p) = true) /\
  len_ok (p_data p) = true /\ time_ok (p_time p) = true /\ int32_ok (p_tombstone p) = true /\
  p_value p < two64.
Proof.
  unfold point_ok, str_ok. intros H.
  repeat match goal with H : _ && _ = true |- _ => apply andb_prop in H; destruct H end.
  repeat split; try assumption. apply N.ltb_lt. assumption.
Qed.

Lemma to_pb_ok p : point_ok p = true -> to_pb p = Ok (to_pb_raw p).
Proof.
  intros H. apply point_ok_inv in H. unfold to_pb.
  rewrite ts_of_time_valid by tauto. reflexivity.
Qed.

Lemma pb_to_point_raw p : point_ok p = true -> pb_to_point (Some (to_pb_raw p)) = Ok p.
Proof.
  intros H. apply point_ok_inv in H.
  destruct H as (_ & _ & _ & _ & _ & Ht & Htb & _).
  unfold pb_to_point, to_pb_raw.
  cbn [pp_type pp_value pp_time pp_text pp_key pp_tombstone pp_data pp_origin].
  rewrite ts_of_time_valid by exact Ht. rewrite time_of_ts_of_time, wrap32_id by exact Htb.
  destruct p; reflexivity.
Qed.

Lemma to_pb_raw_wf p : point_ok p = true -> pp_wf (to_pb_raw p).
Proof.
  intros H. apply point_ok_inv in H.
  destruct H as ((U1 & L1) & (U2 & L2) & (U3 & L3) & (U4 & L4) & L5 & Ht & Htb & Hv).
  unfold pp_wf, to_pb_raw.
  cbn [pp_type pp_value pp_time pp_text pp_key pp_tombstone pp_data pp_origin].
  rewrite wrap32_id by exact Htb.
  repeat split; try assumption; try (apply len_ok_lenP; assumption);
    try (apply ts_of_time_wf; exact Ht); unfold int32_ok in Htb; lia.
Qed.

Lemma to_pb_raw_utf8 p : point_ok p = true -> pp_utf8 (to_pb_raw p) = true.
Proof.
  intros H. apply point_ok_inv in H.
  destruct H as ((U1 & _) & (U2 & _) & (U3 & _) & (U4 & _) & _).
  unfold pp_utf8, to_pb_raw. cbn [pp_type pp_text pp_key pp_origin].
  rewrite U1, U2, U3, U4. reflexivity.
Qed.

(* size of an encoded point whose variable-length fields are below 2^31 bytes *)
Lemma enc_str_field_len num s : (length (enc_str_field num s) <= 20 + length s)%nat.
Proof.
  destruct s as [|b s']; [cbn; lia|]. cbn [enc_str_field]. unfold enc_ld, enc_tag.
  repeat rewrite app_length.
  pose proof (enc_varint_len (mk_tag num 2)).
  pose proof (enc_varint_len (N.of_nat (length (b :: s')))). lia.
Qed.

Lemma enc_fixed64_field_len num v : (length (enc_fixed64_field num v) <= 18)%nat.
Proof.
  unfold enc_fixed64_field, enc_tag. destruct (v =? 0); [cbn; lia|].
  rewrite app_length, le_bytes_len. pose proof (enc_varint_len (mk_tag num 1)). lia.
Qed.

Lemma enc_ld_len num p : (length (enc_ld num p) <= 20 + length p)%nat.
Proof.
  unfold enc_ld, enc_tag. repeat rewrite app_length.
  pose proof (enc_varint_len (mk_tag num 2)).
  pose proof (enc_varint_len (N.of_nat (length p))). lia.
Qed.

Lemma enc_int_field_len num z : (length (enc_int_field num z) <= 20)%nat.
Proof. apply enc_varint_field_len. Qed.

Lemma enc_timestamp_le t : (length (enc_timestamp t) <= 40)%nat.
Proof.
  unfold enc_timestamp. rewrite app_length.
  pose proof (enc_int_field_len 1 (ts_seconds t)). pose proof (enc_int_field_len 2 (ts_nanos t)). lia.
Qed.

Lemma enc_point_raw_len p : point_ok p = true -> lenP (enc_point (to_pb_raw p)).
Proof.
  intros H. apply point_ok_inv in H.
  destruct H as ((_ & L1) & (_ & L2) & (_ & L3) & (_ & L4) & L5 & _).
  unfold len_ok in *. unfold lenP, enc_point, to_pb_raw.
  cbn [pp_type pp_value pp_time pp_text pp_key pp_tombstone pp_data pp_origin option_map enc_msg_field].
  repeat rewrite app_length.
  pose proof (enc_str_field_len 2 (p_type p)). pose proof (enc_str_field_len 8 (p_text p)).
  pose proof (enc_str_field_len 11 (p_key p)). pose proof (enc_str_field_len 14 (p_data p)).
  pose proof (enc_str_field_len 15 (p_origin p)). pose proof (enc_fixed64_field_len 4 (p_value p)).
  pose proof (enc_int_field_len 12 (wrap32 (p_tombstone p))).
  pose proof (enc_ld_len 5 (enc_timestamp (ts_of_time (p_time p)))).
  pose proof (enc_timestamp_le (ts_of_time (p_time p))).
  unfold two64. lia.
Qed.

(* ------------------------------------------------------------------ *)
(* composed round trips                                                 *)

Lemma forallb_In {A} (f : A -> bool) l : forallb f l = true -> forall a, In a l -> f a = true.
Proof. intros H. apply forallb_forall. exact H. Qed.

Lemma forallb_map_true {A B} (f : B -> bool) (g : A -> B) l :
  (forall a, In a l -> f (g a) = true) -> forallb f (map g l) = true.
Proof.
  intros H. apply forallb_forall. intros b Hb. apply in_map_iff in Hb.
  destruct Hb as (a & <- & Ha). apply H. exact Ha.
Qed.

Lemma Forall_map_In {A B} (P : B -> Prop) (g : A -> B) l :
  (forall a, In a l -> P (g a)) -> Forall P (map g l).
Proof.
  intros H. apply Forall_forall. intros b Hb. apply in_map_iff in Hb.
  destruct Hb as (a & <- & Ha). apply H. exact Ha.
Qed.

Theorem point_roundtrip ps :
  forallb point_ok ps = true ->
  exists bs, points_encode ps = Ok bs /\ pb_decode_points bs = Ok ps.
Proof.
  intros H. pose proof (forallb_In _ _ H) as Hin.
  exists (enc_points (map to_pb_raw ps)). split.
  - unfold points_encode. rewrite (omap_ok to_pb to_pb_raw) by (intros; apply to_pb_ok; auto).
    cbn [obind]. unfold marshal.
    rewrite forallb_map_true by (intros; apply to_pb_raw_utf8; auto). reflexivity.
  - unfold pb_decode_points. rewrite dec_enc_points.
    + cbn [obind]. apply omap_inv. intros; apply pb_to_point_raw; auto.
    + apply Forall_map_In. intros; apply to_pb_raw_wf; auto.
    + apply Forall_map_In. intros; apply enc_point_raw_len; auto.
Qed.

Lemma hash_roundtrip h : h < two32 -> hash_of_pb (hash_to_pb h) = h.
Proof.
  unfold hash_of_pb, hash_to_pb, to_int32, of_int64, two32. intros H.
  rewrite (N.mod_small h 4294967296) by exact H.
  destruct (Z.of_N h <? 2147483648)%Z eqn:E.
  - rewrite Z.mod_small by lia. rewrite N2Z.id. apply N.mod_small. exact H.
  - apply Z.ltb_ge in E.
    replace ((Z.of_N h - 4294967296) mod 18446744073709551616)%Z
      with (Z.of_N h + 18446744069414584320)%Z by lia.
    lia.
Qed.

Lemma hash_to_pb_ok h : h < two32 -> int32_okP (hash_to_pb h).
Proof.
  unfold hash_to_pb, to_int32, int32_okP, two32. intros H. rewrite (N.mod_small h 4294967296) by exact H.
  destruct (Z.of_N h <? 2147483648)%Z eqn:E; lia.
Qed.

Lemma node_ok_inv n : node_ok n = true ->
  (utf8_valid (n_id n) = true /\ len_ok (n_id n) = true) /\
  (utf8_valid (n_type n) = true /\ len_ok (n_type n) = true) /\
  (utf8_valid (n_parent n) = true /\ len_ok (n_parent n) = true) /\
  n_hash n < two32 /\ forallb point_ok (n_points n) = true /\ forallb point_ok (n_edge n) = true.
Proof.
  unfold node_ok, str_ok. intros H.
  repeat match goal with H : _ && _ = true |- _ => apply andb_prop in H; destruct H end.
  repeat split; try assumption. apply N.ltb_lt. assumption.
Qed.

Lemma to_pb_node_ok n : node_ok n = true -> to_pb_node n = Ok (to_pb_node_raw n).
Proof.
  intros H. apply node_ok_inv in H. destruct H as (_ & _ & _ & _ & Hp & He).
  unfold to_pb_node.
  rewrite (omap_ok to_pb to_pb_raw) by (intros a Ha; apply to_pb_ok; exact (forallb_In _ _ Hp a Ha)).
  cbn [obind].
  rewrite (omap_ok to_pb to_pb_raw) by (intros a Ha; apply to_pb_ok; exact (forallb_In _ _ He a Ha)).
  reflexivity.
Qed.

Lemma pb_to_node_raw n : node_ok n = true -> pb_to_node (Some (to_pb_node_raw n)) = Ok n.
Proof.
  intros H. apply node_ok_inv in H. destruct H as (_ & _ & _ & Hh & Hp & He).
  unfold pb_to_node, to_pb_node_raw. cbn [pn_id pn_type pn_points pn_hash pn_parent pn_edge].
  rewrite omap_inv by (intros a Ha; apply pb_to_point_raw; exact (forallb_In _ _ Hp a Ha)).
  cbn [obind].
  rewrite omap_inv by (intros a Ha; apply pb_to_point_raw; exact (forallb_In _ _ He a Ha)).
  cbn [obind]. rewrite hash_roundtrip by exact Hh. destruct n; reflexivity.
Qed.

Lemma to_pb_node_raw_wf n : node_ok n = true -> pn_wf (to_pb_node_raw n).
Proof.
  intros H. apply node_ok_inv in H.
  destruct H as ((U1 & L1) & (U2 & L2) & (U3 & L3) & Hh & Hp & He).
  unfold pn_wf, to_pb_node_raw. cbn [pn_id pn_type pn_points pn_hash pn_parent pn_edge].
  repeat split; try assumption; try (apply len_ok_lenP; assumption);
    try (apply hash_to_pb_ok; exact Hh).
  - apply Forall_map_In. intros a Ha. apply to_pb_raw_wf. exact (forallb_In _ _ Hp a Ha).
  - apply Forall_map_In. intros a Ha. apply enc_point_raw_len. exact (forallb_In _ _ Hp a Ha).
  - apply Forall_map_In. intros a Ha. apply to_pb_raw_wf. exact (forallb_In _ _ He a Ha).
  - apply Forall_map_In. intros a Ha. apply enc_point_raw_len. exact (forallb_In _ _ He a Ha).
Qed.

Lemma to_pb_node_raw_utf8 n : node_ok n = true -> pn_utf8 (to_pb_node_raw n) = true.
Proof.
  intros H. apply node_ok_inv in H.
  destruct H as ((U1 & _) & (U2 & _) & (U3 & _) & _ & Hp & He).
  unfold pn_utf8, to_pb_node_raw. cbn [pn_id pn_type pn_points pn_parent pn_edge].
  rewrite U1, U2, U3. cbn [andb].
  rewrite forallb_map_true by (intros a Ha; apply to_pb_raw_utf8; exact (forallb_In _ _ Hp a Ha)).
  rewrite forallb_map_true by (intros a Ha; apply to_pb_raw_utf8; exact (forallb_In _ _ He a Ha)).
  reflexivity.
Qed.

Theorem node_roundtrip n :
  node_ok n = true ->
  exists bs, node_encode n = Ok bs /\ pb_decode_node bs = Ok n.
Proof.
  intros H. exists (enc_node (to_pb_node_raw n)). split.
  - unfold node_encode. rewrite to_pb_node_ok by exact H. cbn [obind]. unfold marshal.
    rewrite to_pb_node_raw_utf8 by exact H. reflexivity.
  - unfold pb_decode_node. rewrite dec_enc_node by (apply to_pb_node_raw_wf; exact H).
    cbn [obind]. apply pb_to_node_raw. exact H.
Qed.

(* lists of nodes: each encoded node must itself fit a 64-bit length prefix *)
Definition node_fits (n : node) : Prop := lenP (enc_node (to_pb_node_raw n)).

Theorem nodes_roundtrip ns :
  forallb node_ok ns = true -> Forall node_fits ns ->
  exists bs, nodes_encode ns = Ok bs /\ pb_decode_nodes bs = Ok ns.
Proof.
  intros H Hfit. pose proof (forallb_In _ _ H) as Hin.
  exists (enc_nodes (map to_pb_node_raw ns)). split.
  - unfold nodes_encode.
    rewrite (omap_ok to_pb_node to_pb_node_raw) by (intros; apply to_pb_node_ok; auto).
    cbn [obind]. unfold marshal.
    rewrite forallb_map_true by (intros; apply to_pb_node_raw_utf8; auto). reflexivity.
  - unfold pb_decode_nodes. rewrite dec_enc_nodes.
    + cbn [obind]. apply omap_inv. intros; apply pb_to_node_raw; auto.
    + apply Forall_map_In. intros; apply to_pb_node_raw_wf; auto.
    + apply Forall_map_In. rewrite Forall_forall in Hfit. exact Hfit.
Qed.

Theorem node_request_roundtrip n :
  node_ok n = true -> node_fits n ->
  exists bs, node_request_encode (Some n) [] = Ok bs /\ pb_decode_node_request bs = Ok n.
Proof.
  intros H Hfit.
  exists (enc_node_request {| nr_node := Some (to_pb_node_raw n); nr_error := [] |}). split.
  - unfold node_request_encode. rewrite to_pb_node_ok by exact H. cbn [obind]. unfold marshal.
    cbn [nr_node nr_error]. rewrite to_pb_node_raw_utf8 by exact H. reflexivity.
  - unfold pb_decode_node_request. rewrite dec_enc_node_request.
    + cbn [obind nr_error nr_node]. apply pb_to_node_raw. exact H.
    + cbn [nr_node]. split; [apply to_pb_node_raw_wf; exact H|exact Hfit].
    + reflexivity.
    + unfold lenP. cbn. reflexivity.
Qed.

Theorem nodes_request_roundtrip ns :
  forallb node_ok ns = true -> Forall node_fits ns ->
  exists bs, nodes_request_encode ns [] = Ok bs /\ pb_decode_nodes_request bs = Ok ns.
Proof.
  intros H Hfit. pose proof (forallb_In _ _ H) as Hin.
  exists (enc_nodes_request {| nsr_nodes := map to_pb_node_raw ns; nsr_error := [] |}). split.
  - unfold nodes_request_encode.
    rewrite (omap_ok to_pb_node to_pb_node_raw) by (intros; apply to_pb_node_ok; auto).
    cbn [obind]. unfold marshal. cbn [nsr_nodes nsr_error].
    rewrite forallb_map_true by (intros; apply to_pb_node_raw_utf8; auto). reflexivity.
  - unfold pb_decode_nodes_request. rewrite dec_enc_nodes_request.
    + cbn [obind nsr_error nsr_nodes]. apply omap_inv. intros; apply pb_to_node_raw; auto.
    + cbn [nsr_nodes]. apply Forall_map_In. intros; apply to_pb_node_raw_wf; auto.
    + cbn [nsr_nodes]. apply Forall_map_In. rewrite Forall_forall in Hfit. exact Hfit.
    + reflexivity.
    + unfold lenP. cbn. reflexivity.
Qed.

(* ------------------------------------------------------------------ *)
(* totality: no decoder reaches Panic, whatever the bytes               *)

Definition no_panic {A} (o : outcome A) : Prop := o <> Panic.

Lemma no_panic_cases {A} (o : outcome A) :
  no_panic o <-> (exists a, o = Ok a) \/ (exists e, o = Err e).
Proof.
  unfold no_panic. split.
  - destruct o; intros H; [left; eauto|right; eauto|congruence].
  - intros [[a ->]|[e ->]]; discriminate.
Qed.

Lemma apply_fields_np {M} (step : N -> wval -> M -> outcome M) :
  (forall num wv a, no_panic (step num wv a)) -> forall l a, no_panic (apply_fields step l a).
Proof.
  intros Hs. induction l as [|[num wv] l IH]; intros a; cbn [apply_fields]; [discriminate|].
  specialize (Hs num wv a). destruct (step num wv a); [apply IH|discriminate|contradiction Hs; reflexivity].
Qed.

Lemma decode_msg_np {M} (step : N -> wval -> M -> outcome M) :
  (forall num wv a, no_panic (step num wv a)) -> forall bs a, no_panic (decode_msg step bs a).
Proof.
  intros Hs bs a. unfold decode_msg. destruct (parse_all bs); [apply apply_fields_np; exact Hs|discriminate].
Qed.

Lemma set_str_np {M} s (k : bytes -> M) : no_panic (set_str s k).
Proof. unfold set_str. destruct (utf8_valid s); discriminate. Qed.

Ltac np_step :=
  repeat match goal with
  | |- no_panic (if ?c then _ else _) => destruct c
  | |- no_panic (set_str _ _) => apply set_str_np
  | |- no_panic (Ok _) => discriminate
  | |- no_panic (Err _) => discriminate
  end.

Lemma ts_step_np num wv t : no_panic (ts_step num wv t).
Proof. unfold ts_step. destruct wv; np_step. Qed.

Lemma embedded_np {A B} (o : outcome A) (k : A -> B) :
  no_panic o -> no_panic (match o with Ok a => Ok (k a) | Err e => Err e | Panic => Panic end).
Proof. destruct o; intros H; [discriminate|discriminate|contradiction H; reflexivity]. Qed.

Lemma point_step_np num wv p : no_panic (point_step num wv p).
Proof.
  unfold point_step. destruct wv; np_step.
  apply embedded_np. apply decode_msg_np. exact ts_step_np.
Qed.

Lemma points_step_np num wv l : no_panic (points_step num wv l).
Proof.
  unfold points_step. destruct wv; np_step.
  apply embedded_np. apply decode_msg_np. exact point_step_np.
Qed.

Lemma serial_point_step_np num wv p : no_panic (serial_point_step num wv p).
Proof. unfold serial_point_step. destruct wv; np_step. Qed.

Lemma serial_points_step_np num wv l : no_panic (serial_points_step num wv l).
Proof.
  unfold serial_points_step. destruct wv; np_step.
  apply embedded_np. apply decode_msg_np. exact serial_point_step_np.
Qed.

Lemma node_step_np num wv n : no_panic (node_step num wv n).
Proof.
  unfold node_step. destruct wv; np_step;
    apply embedded_np; apply decode_msg_np; exact point_step_np.
Qed.

Lemma nodes_step_np num wv l : no_panic (nodes_step num wv l).
Proof.
  unfold nodes_step. destruct wv; np_step.
  apply embedded_np. apply decode_msg_np. exact node_step_np.
Qed.

Lemma node_request_step_np num wv r : no_panic (node_request_step num wv r).
Proof.
  unfold node_request_step. destruct wv; np_step.
  apply embedded_np. apply decode_msg_np. exact node_step_np.
Qed.

Lemma nodes_request_step_np num wv r : no_panic (nodes_request_step num wv r).
Proof.
  unfold nodes_request_step. destruct wv; np_step.
  apply embedded_np. apply decode_msg_np. exact node_step_np.
Qed.

Lemma omap_np {A B} (f : A -> outcome B) :
  (forall a, no_panic (f a)) -> forall l, no_panic (omap f l).
Proof.
  intros Hf. induction l as [|a l IH]; cbn [omap]; [discriminate|].
  specialize (Hf a). destruct (f a); [|discriminate|contradiction Hf; reflexivity].
  destruct (omap f l); [discriminate|discriminate|contradiction IH; reflexivity].
Qed.

Lemma obind_np {A B} (o : outcome A) (f : A -> outcome B) :
  no_panic o -> (forall a, no_panic (f a)) -> no_panic (obind o f).
Proof. intros Ho Hf. destruct o; cbn [obind]; [apply Hf|discriminate|contradiction Ho; reflexivity]. Qed.

(* the only Panic of the conversion layer is PbToPoint on a nil *pb.Point, which
   the decoders never produce: elements of a repeated field are never nil *)
Lemma pb_to_point_some_np pp : no_panic (pb_to_point (Some pp)).
Proof.
  unfold pb_to_point. destruct (pp_time pp) as [t|]; [destruct (ts_valid t)|]; discriminate.
Qed.

Lemma pb_to_node_np o : no_panic (pb_to_node o).
Proof.
  unfold pb_to_node. destruct o as [pn|]; [|discriminate].
  apply obind_np; [apply omap_np; exact pb_to_point_some_np|]. intros ps.
  apply obind_np; [apply omap_np; exact pb_to_point_some_np|]. intros es. discriminate.
Qed.

Lemma pb_decode_points_np bs : no_panic (pb_decode_points bs).
Proof.
  unfold pb_decode_points. apply obind_np; [apply decode_msg_np; exact points_step_np|].
  intros l. apply omap_np. exact pb_to_point_some_np.
Qed.

Lemma pb_decode_serial_points_np bs : no_panic (pb_decode_serial_points bs).
Proof.
  unfold pb_decode_serial_points. apply obind_np; [apply decode_msg_np; exact serial_points_step_np|].
  intros l. discriminate.
Qed.

Lemma pb_decode_node_np bs : no_panic (pb_decode_node bs).
Proof.
  unfold pb_decode_node. apply obind_np; [apply decode_msg_np; exact node_step_np|].
  intros pn. apply pb_to_node_np.
Qed.

Lemma pb_decode_nodes_np bs : no_panic (pb_decode_nodes bs).
Proof.
  unfold pb_decode_nodes. apply obind_np; [apply decode_msg_np; exact nodes_step_np|].
  intros l. apply omap_np. intros pn. apply pb_to_node_np.
Qed.

Lemma pb_decode_node_request_np bs : no_panic (pb_decode_node_request bs).
Proof.
  unfold pb_decode_node_request. apply obind_np; [apply decode_msg_np; exact node_request_step_np|].
  intros r. destruct (nr_error r); [apply pb_to_node_np|discriminate].
Qed.

Lemma pb_decode_nodes_request_np bs : no_panic (pb_decode_nodes_request bs).
Proof.
  unfold pb_decode_nodes_request. apply obind_np; [apply decode_msg_np; exact nodes_request_step_np|].
  intros r. destruct (nsr_error r); [|discriminate]. apply omap_np. intros pn. apply pb_to_node_np.
Qed.

Lemma decode_serial_hr_payload_np now bs : no_panic (decode_serial_hr_payload now bs).
Proof. unfold decode_serial_hr_payload. destruct (length bs <? 48)%nat; discriminate. Qed.

Lemma decode_node_points_msg_np subj data : no_panic (decode_node_points_msg subj data).
Proof.
  unfold decode_node_points_msg. destruct (chunks subj) as [|c0 [|c1 l]]; try discriminate.
  apply obind_np; [apply pb_decode_points_np|intros; discriminate].
Qed.

Lemma decode_edge_points_msg_np subj data : no_panic (decode_edge_points_msg subj data).
Proof.
  unfold decode_edge_points_msg. destruct (chunks subj) as [|c0 [|c1 [|c2 l]]]; try discriminate.
  apply obind_np; [apply pb_decode_points_np|intros; discriminate].
Qed.

Lemma decode_up_edge_points_msg_np subj data : no_panic (decode_up_edge_points_msg subj data).
Proof.
  unfold decode_up_edge_points_msg.
  destruct (chunks subj) as [|c0 [|c1 [|c2 [|c3 l]]]]; try discriminate.
  apply obind_np; [apply pb_decode_points_np|intros; discriminate].
Qed.

Theorem decoders_total :
  (forall bs,
     no_panic (pb_decode_points bs) /\ no_panic (pb_decode_node bs) /\
     no_panic (pb_decode_node_request bs) /\ no_panic (pb_decode_nodes bs) /\
     no_panic (pb_decode_nodes_request bs) /\ no_panic (pb_decode_serial_points bs) /\
     forall now, no_panic (decode_serial_hr_payload now bs)) /\
  (forall subj data,
     no_panic (decode_node_points_msg subj data) /\ no_panic (decode_edge_points_msg subj data) /\
     no_panic (decode_up_node_points_msg subj data) /\
     no_panic (decode_up_edge_points_msg subj data)).
Proof.
  split.
  - intros bs. repeat split.
    + apply pb_decode_points_np.
    + apply pb_decode_node_np.
    + apply pb_decode_node_request_np.
    + apply pb_decode_nodes_np.
    + apply pb_decode_nodes_request_np.
    + apply pb_decode_serial_points_np.
    + intros now. apply decode_serial_hr_payload_np.
  - intros subj data. repeat split.
    + apply decode_node_points_msg_np.
    + apply decode_edge_points_msg_np.
    + apply decode_edge_points_msg_np.
    + apply decode_up_edge_points_msg_np.
Qed.

(* ------------------------------------------------------------------ *)
(* serial points (SerialPoint / SerialPoints)                           *)

Definition sp_wf (p : pb_serial_point) : Prop :=
  utf8_valid (sp_type p) = true /\ utf8_valid (sp_text p) = true /\
  utf8_valid (sp_key p) = true /\ utf8_valid (sp_origin p) = true /\
  lenP (sp_type p) /\ lenP (sp_text p) /\ lenP (sp_key p) /\ lenP (sp_origin p) /\
  lenP (sp_data p) /\ sp_value p < two32 /\ int32_okP (sp_tombstone p) /\ int64_ok (sp_time p).

Lemma dec_enc_serial_point p :
  sp_wf p -> decode_msg serial_point_step (enc_serial_point p) sp_zero = Ok p.
Proof.
  destruct p as [ty v tx k tb d o tm]. unfold sp_wf.
  cbn [sp_type sp_value sp_text sp_key sp_tombstone sp_data sp_origin sp_time].
  intros (Uty & Utx & Uk & Uo & Lty & Ltx & Lk & Lo & Ld & Hv & Htb & Htm).
  unfold enc_serial_point.
  cbn [sp_type sp_value sp_text sp_key sp_tombstone sp_data sp_origin sp_time].
  unfold lenP in *.
  str_rw (dm_str serial_point_step 2 ty _ sp_zero
    {| sp_type := ty; sp_value := 0; sp_text := []; sp_key := []; sp_tombstone := 0;
       sp_data := []; sp_origin := []; sp_time := 0 |}) by Uty in serial_point_step.
  rewrite (dm_fixed32 serial_point_step 4 v _ _
    {| sp_type := ty; sp_value := v; sp_text := []; sp_key := []; sp_tombstone := 0;
       sp_data := []; sp_origin := []; sp_time := 0 |});
    [|tagok|exact Hv|intros _; reflexivity|intros ->; reflexivity].
  str_rw (dm_str serial_point_step 8 tx _ _
    {| sp_type := ty; sp_value := v; sp_text := tx; sp_key := []; sp_tombstone := 0;
       sp_data := []; sp_origin := []; sp_time := 0 |}) by Utx in serial_point_step.
  str_rw (dm_str serial_point_step 11 k _ _
    {| sp_type := ty; sp_value := v; sp_text := tx; sp_key := k; sp_tombstone := 0;
       sp_data := []; sp_origin := []; sp_time := 0 |}) by Uk in serial_point_step.
  unfold enc_int_field.
  rewrite (dm_varint serial_point_step 12 (of_int64 tb) _ _
    {| sp_type := ty; sp_value := v; sp_text := tx; sp_key := k; sp_tombstone := tb;
       sp_data := []; sp_origin := []; sp_time := 0 |});
    [|tagok|apply of_int64_lt
     |intros _; unfold serial_point_step;
      cbn [N.eqb Pos.eqb sp_type sp_value sp_text sp_key sp_tombstone sp_data sp_origin sp_time];
      rewrite to_int32_of by exact Htb; reflexivity
     |intros E; apply of_int64_zero in E; [subst; reflexivity|apply int32_int64; exact Htb]].
  rewrite (dm_str serial_point_step 14 d _ _
    {| sp_type := ty; sp_value := v; sp_text := tx; sp_key := k; sp_tombstone := tb;
       sp_data := d; sp_origin := []; sp_time := 0 |});
    [|tagok|assumption|intros _; reflexivity|intros ->; reflexivity].
  str_rw (dm_str serial_point_step 15 o _ _
    {| sp_type := ty; sp_value := v; sp_text := tx; sp_key := k; sp_tombstone := tb;
       sp_data := d; sp_origin := o; sp_time := 0 |}) by Uo in serial_point_step.
  rewrite <- (app_nil_r (enc_varint_field 16 (of_int64 tm))).
  rewrite (dm_varint serial_point_step 16 (of_int64 tm) [] _
    {| sp_type := ty; sp_value := v; sp_text := tx; sp_key := k; sp_tombstone := tb;
       sp_data := d; sp_origin := o; sp_time := tm |});
    [|tagok|apply of_int64_lt
     |intros _; unfold serial_point_step;
      cbn [N.eqb Pos.eqb sp_type sp_value sp_text sp_key sp_tombstone sp_data sp_origin sp_time];
      rewrite to_int64_of by exact Htm; reflexivity
     |intros E; apply of_int64_zero in E; [subst; reflexivity|exact Htm]].
  reflexivity.
Qed.

Lemma dec_enc_serial_points sps :
  Forall sp_wf sps -> Forall (fun p => lenP (enc_serial_point p)) sps ->
  decode_msg serial_points_step (enc_serial_points sps) [] = Ok sps.
Proof.
  intros Hwf Hlen. unfold enc_serial_points.
  rewrite <- (app_nil_r (enc_rep_field 1 enc_serial_point sps)).
  rewrite (dm_rep serial_points_step 1 enc_serial_point (fun a x => a ++ [x])).
  - rewrite fold_left_snoc. reflexivity.
  - tagok.
  - intros x Hin. rewrite Forall_forall in Hlen. apply Hlen. exact Hin.
  - intros x a Hin. rewrite Forall_forall in Hwf. unfold serial_points_step. cbn [N.eqb Pos.eqb].
    rewrite dec_enc_serial_point by (apply Hwf; exact Hin). reflexivity.
Qed.

Lemma wrap64_ok z : int64_ok (wrap64 z).
Proof.
  unfold wrap64, to_int64, of_int64, int64_ok, two64.
  set (w := Z.of_N (Z.to_N (z mod 18446744073709551616) mod 18446744073709551616)).
  assert (0 <= w < 18446744073709551616)%Z by (unfold w; lia).
  destruct (w <? 9223372036854775808)%Z eqn:E; lia.
Qed.

Lemma enc_fixed32_field_len num v : (length (enc_fixed32_field num v) <= 14)%nat.
Proof.
  unfold enc_fixed32_field, enc_tag. destruct (v =? 0); [cbn; lia|].
  rewrite app_length, le_bytes_len. pose proof (enc_varint_len (mk_tag num 5)). lia.
Qed.

(* what the serial format keeps of a point: everything but the value, which is
   narrowed to float32, and a time outside the int64 ns range, which wraps *)
Definition serial_image (p : point) : point :=
  {| p_type := p_type p; p_key := p_key p; p_time := wrap64 (p_time p);
     p_value := f32_to_f64 (f64_to_f32 (p_value p)); p_text := p_text p; p_data := p_data p;
     p_tombstone := p_tombstone p; p_origin := p_origin p |}.

(* Partial: the hypothesis that the narrowed value fits 32 bits is not derived
   from the definition of f64_to_f32 here (it holds for every float64 pattern;
   the conversion itself is only tied to Go by the correspondence check). *)
Theorem serial_roundtrip_partial ps :
  forallb serial_point_ok ps = true ->
  Forall (fun p => f64_to_f32 (p_value p) < two32) ps ->
  exists bs, serial_encode ps = Ok bs /\ pb_decode_serial_points bs = Ok (map serial_image ps).
Proof.
  intros H Hv. pose proof (forallb_In _ _ H) as Hin. rewrite Forall_forall in Hv.
  assert (Hinv : forall p, In p ps ->
    (utf8_valid (p_type p) = true /\ len_ok (p_type p) = true) /\
    (utf8_valid (p_key p) = true /\ len_ok (p_key p) = true) /\
    (utf8_valid (p_text p) = true /\ len_ok (p_text p) = true) /\
    (utf8_valid (p_origin p) = true /\ len_ok (p_origin p) = true) /\
    len_ok (p_data p) = true /\ int32_ok (p_tombstone p) = true).
  { intros p Hp. specialize (Hin p Hp). unfold serial_point_ok, str_ok in Hin.
    repeat match goal with H : _ && _ = true |- _ => apply andb_prop in H; destruct H end.
    repeat split; assumption. }
  exists (enc_serial_points (map to_serial ps)). split.
  - unfold serial_encode, marshal.
    rewrite forallb_map_true; [reflexivity|].
    intros p Hp. destruct (Hinv p Hp) as ((U1 & _) & (U2 & _) & (U3 & _) & (U4 & _) & _).
    unfold sp_utf8, to_serial. cbn [sp_type sp_text sp_key sp_origin]. rewrite U1, U2, U3, U4. reflexivity.
  - unfold pb_decode_serial_points. rewrite dec_enc_serial_points.
    + cbn [obind]. f_equal. rewrite map_map. apply map_ext_in. intros p Hp.
      destruct (Hinv p Hp) as (_ & _ & _ & _ & _ & Htb).
      unfold serial_to_point, to_serial, serial_image.
      cbn [sp_type sp_value sp_text sp_key sp_tombstone sp_data sp_origin sp_time].
      rewrite wrap32_id by exact Htb. reflexivity.
    + apply Forall_map_In. intros p Hp.
      destruct (Hinv p Hp) as ((U1 & L1) & (U2 & L2) & (U3 & L3) & (U4 & L4) & L5 & Htb).
      unfold sp_wf, to_serial.
      cbn [sp_type sp_value sp_text sp_key sp_tombstone sp_data sp_origin sp_time].
      rewrite wrap32_id by exact Htb.
      repeat split; try assumption; try (apply len_ok_lenP; assumption);
        try (apply Hv; exact Hp); try (apply wrap64_ok); unfold int32_ok in Htb; lia.
    + apply Forall_map_In. intros p Hp.
      destruct (Hinv p Hp) as ((_ & L1) & (_ & L2) & (_ & L3) & (_ & L4) & L5 & _).
      unfold len_ok in *. unfold lenP, enc_serial_point, to_serial.
      cbn [sp_type sp_value sp_text sp_key sp_tombstone sp_data sp_origin sp_time].
      repeat rewrite app_length.
      pose proof (enc_str_field_len 2 (p_type p)). pose proof (enc_str_field_len 8 (p_text p)).
      pose proof (enc_str_field_len 11 (p_key p)). pose proof (enc_str_field_len 14 (p_data p)).
      pose proof (enc_str_field_len 15 (p_origin p)).
      pose proof (enc_fixed32_field_len 4 (f64_to_f32 (p_value p))).
      pose proof (enc_int_field_len 12 (wrap32 (p_tombstone p))).
      pose proof (enc_int_field_len 16 (wrap64 (p_time p))).
      unfold two64. lia.
Qed.
