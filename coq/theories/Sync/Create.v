(* C02, a node that only one side holds: SendNode (used by sendNodesRemote / sendNodesLocal) copies it to
   the other side - its node points merged into whatever rows the receiver had for that id, and a new edge
   under the parent carrying the sender's edge points - and touches nothing else.  One node, no recursion:
   the transfer of whole subtrees stays with the correspondence check. *)
From Verif Require Import Base.Bytes Store.GraphCount Store.GraphWalk Store.Model Store.ProofsRows Store.ProofsHash Store.ProofsTop Store.Concurrent Store.InitRoot Sync.Model Sync.Proofs Sync.ProofsEdge Sync.Frame.
From Coq Require Import Lia.

Lemma existsb_map_comm {A B} (h : A -> B) (f : B -> bool) l : existsb f (map h l) = existsb (fun a => f (h a)) l.
Proof. induction l as [|a l IH]; [reflexivity|]. cbn [map existsb]. rewrite IH. reflexivity. Qed.

Lemma existsb_ext_in {A} (f g : A -> bool) l : (forall a, In a l -> f a = g a) -> existsb f l = existsb g l.
Proof.
  induction l as [|a l IH]; intros H; [reflexivity|]. cbn [existsb]. rewrite (H a (or_introl eq_refl)), IH; [reflexivity|].
  intros b Hb. apply H. right. exact Hb.
Qed.

Lemma is_upstream_sp g G : sp G g -> forall f t id, is_upstream (map g G) f t id = is_upstream G f t id.
Proof.
  intros Hsp. induction f as [|f IH]; intros t id; cbn [is_upstream]; [reflexivity|]. f_equal.
  rewrite (parents_sp g G id Hsp). rewrite existsb_map_comm.
  apply existsb_ext_in. intros e He. unfold parents in He. apply filter_In in He. destruct He as [He _].
  destruct (Hsp e He) as (_ & -> & _). apply IH.
Qed.

Definition sent_edge_points (e : edge) (origin : bytes) (now : Z) : list point :=
  (match e_pts e with
   | [] => [mkPoint str_tombstone [] now 0 [] [] 0%Z origin]
   | ps => map (fill_origin origin) ps
   end) ++ [mkPoint str_nodeType [] now 0 (e_type e) [] 0%Z origin].

Lemma send_node_unfold st ns e parent origin now :
  send_node st ns e parent origin now =
  wr (wr st (NodePts (e_down e) (map (fill_origin origin) (node_rows ns (e_down e)))))
     (EdgePts (e_down e) parent (sent_edge_points e origin now)).
Proof. reflexivity. Qed.

Theorem send_node_creates U ns e parent origin now :
  good U -> parent <> [] ->
  let x := e_down e in
  let npts := map (fill_origin origin) (node_rows ns x) in
  let epts := sent_edge_points e origin now in
  has_nan npts = false -> bad_times npts = false -> bad_times epts = false ->
  (* the request for the new edge is acceptable: numbers, no self edge, no root deletion, no cycle, a node type *)
  has_nan epts = false -> x <> parent -> x <> s_root U ->
  find_edge (s_edges U) parent x = None ->
  is_upstream (s_edges U) (fuel_of (s_edges U)) x parent = false ->
  last_node_type (collapse epts) <> [] ->
  let U' := send_node U ns e parent origin now in
  node_rows (s_nodes U') x = batch_rows false (node_rows (s_nodes U) x) npts /\
  (forall y, y <> x -> node_rows (s_nodes U') y = node_rows (s_nodes U) y) /\
  edge_rows U' parent x = batch_rows true [] epts /\
  (forall u d, (u, d) <> (parent, x) -> edge_rows U' u d = edge_rows U u d) /\
  good U'.
Proof.
  intros GU Hpar x npts epts Hn1 Hb1 Hb2 Hn2 Hself Hroot Hfind Hup Hnt. cbv zeta. rewrite send_node_unfold.
  fold x. fold npts. fold epts.
  (* the node points *)
  set (U1 := wr U (NodePts x npts)).
  assert (G1 : good U1) by (apply good_wr; [exact GU|exact I]).
  assert (N1 : node_rows (s_nodes U1) x = batch_rows false (node_rows (s_nodes U) x) npts /\
               (forall y, y <> x -> node_rows (s_nodes U1) y = node_rows (s_nodes U) y)).
  { unfold U1, wr. cbn [handle]. destruct (node_points U x npts) as [st'|err] eqn:E; cbn [fst].
    - destruct (node_points_nodes_ok U x npts st' (proj2 GU) E) as (A & B & _). split; assumption.
    - exfalso. unfold node_points in E. rewrite Hn1, Hb1 in E. destruct (merge_batch false _ _). discriminate. }
  assert (E1 : forall u d, edge_rows U1 u d = edge_rows U u d) by (intros u d; apply wr_np_rows).
  assert (S1 : s_edges U1 = s_edges U \/ True) by (right; exact I).
  assert (R1 : s_root U1 = s_root U) by apply wr_np_root.
  assert (F1 : find_edge (s_edges U1) parent x = None).
  { destruct (frame_wr_node U x npts (proj1 (proj1 GU))) as [g F]. fold U1 in F.
    rewrite (fr_edges _ _ _ _ F).
    rewrite (find_edge_map_in g (s_edges U) parent x) by (intros a Ha; destruct (fr_id _ _ _ _ F a Ha) as (_ & A & B & _); auto).
    rewrite Hfind. reflexivity. }
  assert (L1 : links U1 = links U) by (apply (frame_links (fun y => y = x)); apply frame_wr_node; apply GU).
  (* the edge *)
  set (U2 := wr U1 (EdgePts x parent epts)).
  assert (G2 : good U2) by (apply good_wr; [exact G1|exact Hpar]).
  assert (Acc : exists st', edge_points U1 x parent epts = Ok st').
  { unfold edge_points. rewrite Hn2, Hb2, (bytes_neq_eqb x parent Hself), R1, (bytes_neq_eqb x (s_root U) Hroot). cbn [andb].
    assert (match parent with [] => str_root | _ :: _ => parent end = parent) as -> by (destruct parent; [contradiction|reflexivity]).
    rewrite F1.
    assert (Hup1 : is_upstream (s_edges U1) (fuel_of (s_edges U1)) x parent = false).
    { destruct (frame_wr_node U x npts (proj1 (proj1 GU))) as [g F]. fold U1 in F.
      rewrite (fr_edges _ _ _ _ F).
      assert (Hsp : sp (s_edges U) g).
      { intros a Ha. destruct (fr_id _ _ _ _ F a Ha) as (A & B & C & _). auto. }
      unfold fuel_of. rewrite map_length. fold (fuel_of (s_edges U)).
      rewrite (is_upstream_sp g (s_edges U) Hsp). exact Hup. }
    rewrite Hup1. destruct (merge_batch true [] (collapse epts)).
    destruct (last_node_type (collapse epts)); [contradiction|]. eexists. reflexivity. }
  destruct Acc as [st' Acc].
  assert (EU2 : U2 = st') by (unfold U2, wr; cbn [handle]; rewrite Acc; reflexivity).
  destruct (edge_points_edge_rows U1 x parent epts st' (proj1 (proj1 G1)) (proj2 (proj2 (proj1 G1))) Hpar Acc) as (Hsame & Hother & _).
  rewrite <- EU2 in Hsame, Hother.
  assert (N2 : s_nodes U2 = s_nodes U1) by (rewrite EU2; apply (edge_points_nodes _ _ _ _ _ Acc)).
  split; [rewrite N2; apply N1|]. split; [intros y Hy; rewrite N2; apply N1; exact Hy|].
  split.
  - rewrite Hsame. unfold edge_rows. rewrite F1. reflexivity.
  - split; [|exact G2]. intros u d Hne. rewrite (Hother u d Hne). apply E1.
Qed.
