(* Non-vacuity of C02_recursion_converges: two concrete reachable stores holding the device tree
   d -> {c -> g, h} that differ after an "outage" (node points of d, c and g, an edge point of (c, g)) and
   agree on h; every hypothesis of the theorem is established for them, including faithfulness (the hashes of
   d, c and g differ, those of h are equal and h agrees), and the outcome is evaluated as a cross-check. *)
From Verif Require Import Base.Bytes Store.GraphCount Store.GraphWalk Store.Model Store.ProofsRows Store.ProofsHash Store.ProofsTop Store.Concurrent Store.InitRoot Sync.Model Sync.Proofs Sync.ProofsEdge Sync.Frame Sync.Converge.
From Coq Require Import Lia.
Local Open Scope N_scope.

Definition id_g : bytes := [103]. Definition id_h : bytes := [104].
Definition t_v : bytes := [118]. Definition t_w : bytes := [119]. Definition t_so : bytes := [115;111].
Definition shared : list op :=
  [mk id_c id_dev 2; NodePts id_c [ptt t_v 3 0x3FF0000000000000 []];
   mk id_g id_c 4; NodePts id_g [ptt t_v 5 0x4000000000000000 []];
   mk id_h id_dev 6; NodePts id_h [ptt t_v 7 0x4008000000000000 []]].
Definition opsD : list op :=
  mk id_dev str_root 1 :: shared ++ [NodePts id_g [ptt t_v 20 0x4014000000000000 []]; NodePts id_dev [ptt t_v 21 0x4018000000000000 []]].
Definition opsU : list op :=
  [mk id_ur str_root 1; mk id_dev id_ur 1] ++ shared ++
  [NodePts id_c [ptt t_w 22 0x401C000000000000 []]; EdgePts id_g id_c [ptt t_so 23 0x4000000000000000 []]].
Definition cD : store := run st0 opsD.
Definition cU : store := run st0 opsU.

Definition KD : list (bytes * bytes) := Eval vm_compute in links cD.
Definition KU : list (bytes * bytes) := Eval vm_compute in links cU.
Lemma links_cD : links cD = KD. Proof. vm_compute. reflexivity. Qed.
Lemma links_cU : links cU = KU. Proof. vm_compute. reflexivity. Qed.

Lemma ops_ok_D : Forall op_ok opsD. Proof. repeat constructor; discriminate. Qed.
Lemma ops_ok_U : Forall op_ok opsU. Proof. repeat constructor; discriminate. Qed.

Lemma good_cD : good cD.
Proof.
  destruct (reachable_ok opsD ops_ok_D) as (W & I & E). split; [split; [exact W|split; [exact I|exact E]]|].
  apply run_nodes_ok. exact nodes_ok_st0.
Qed.
Lemma good_cU : good cU.
Proof.
  destruct (reachable_ok opsU ops_ok_U) as (W & I & E). split; [split; [exact W|split; [exact I|exact E]]|].
  apply run_nodes_ok. exact nodes_ok_st0.
Qed.

(* the outcome, evaluated: both sides end with the same rows on every node and edge of the tree *)
Definition outcome := sync_node false 2 cD cU id_dev str_root id_dev 0%Z.
Definition rows_eqb (a b : list point) : bool := points_eqb (sort_points a) (sort_points b).
Example outcome_agrees :
  forallb (fun x => rows_eqb (nrows (fst outcome) x) (nrows (snd outcome) x)) [id_dev; id_c; id_g; id_h] = true /\
  forallb (fun qx => rows_eqb (edge_rows (fst outcome) (fst qx) (snd qx)) (edge_rows (snd outcome) (fst qx) (snd qx)))
          [(id_dev, id_c); (id_c, id_g); (id_dev, id_h)] = true /\
  rows_eqb (nrows cD id_g) (nrows cU id_g) = false /\ rows_eqb (edge_rows cD id_c id_g) (edge_rows cU id_c id_g) = false.
Proof. vm_compute. repeat split; reflexivity. Qed.

(* ---------- the hypotheses of the theorem ---------- *)
Ltac in_pick := (left; reflexivity) + (right; in_pick).
Ltac solve_anc := (apply anc_refl) + (eapply anc_step; [|vm_compute; in_pick]; solve_anc).
Ltac in_cases H := repeat (destruct H as [H|H]; [try (inversion H; subst; clear H)|]); try (destruct H).
Ltac below_cases H L top := apply (anc_in _ L top) in H; [|vm_compute; tauto|vm_compute; reflexivity]; in_cases H.

Lemma real_dev : real id_dev. Proof. repeat split; discriminate. Qed.
Lemma real_c : real id_c. Proof. repeat split; discriminate. Qed.
Lemma real_g : real id_g. Proof. repeat split; discriminate. Qed.
Lemma real_h : real id_h. Proof. repeat split; discriminate. Qed.

Lemma kids_dev : kids KD id_dev = [id_c; id_h] /\ kids KU id_dev = [id_c; id_h]. Proof. split; reflexivity. Qed.
Lemma kids_c : kids KD id_c = [id_g] /\ kids KU id_c = [id_g]. Proof. split; reflexivity. Qed.
Lemma kids_g : kids KD id_g = [] /\ kids KU id_g = []. Proof. split; reflexivity. Qed.
Lemma kids_h : kids KD id_h = [] /\ kids KU id_h = []. Proof. split; reflexivity. Qed.

Lemma nodup2 (a b : bytes) : a <> b -> NoDup [a; b].
Proof. intros H. constructor; [intros [E|[]]; congruence|]. constructor; [intros []|constructor]. Qed.
Lemma nodup1 (a : bytes) : NoDup [a]. Proof. constructor; [intros []|constructor]. Qed.

Lemma shape_g : shape id_dev 0 KD KU (s_root cD) (s_root cU) id_c id_g.
Proof.
  cbn [shape]. change (s_root cD) with id_dev. change (s_root cU) with id_ur.
  split; [exact real_g|]. split; [discriminate|]. split; [discriminate|]. split; [discriminate|]. split; [discriminate|].
  split; [reflexivity|]. split; [reflexivity|].
  split; [intros q H; vm_compute in H; in_cases H; reflexivity|]. split; [intros q H; vm_compute in H; in_cases H; reflexivity|].
  split; [constructor|]. split; [constructor|]. split; [intros c; split; intros H; destruct H|].
  split; [intros c H; destruct H|]. split; [intros c c' H; destruct H|].
  split; [|reflexivity].
  intros x. split; intros H.
  - below_cases H [id_g] id_g. solve_anc.
  - below_cases H [id_g] id_g. solve_anc.
Qed.

Lemma shape_h : shape id_dev 1 KD KU (s_root cD) (s_root cU) id_dev id_h.
Proof.
  cbn [shape]. change (s_root cD) with id_dev. change (s_root cU) with id_ur.
  split; [exact real_h|]. split; [discriminate|]. split; [discriminate|]. split; [discriminate|]. split; [discriminate|].
  split; [reflexivity|]. split; [reflexivity|].
  split; [intros q H; vm_compute in H; in_cases H; reflexivity|]. split; [intros q H; vm_compute in H; in_cases H; reflexivity|].
  split; [constructor|]. split; [constructor|]. split; [intros c; split; intros H; destruct H|].
  split; [intros c H; destruct H|]. split; [intros c c' H; destruct H|].
  split; [|intros c H; destruct H].
  intros x. split; intros H.
  - below_cases H [id_h] id_h. solve_anc.
  - below_cases H [id_h] id_h. solve_anc.
Qed.

Lemma shape_c : shape id_dev 1 KD KU (s_root cD) (s_root cU) id_dev id_c.
Proof.
  cbn [shape]. fold (shape id_dev 0). change (s_root cD) with id_dev. change (s_root cU) with id_ur.
  split; [exact real_c|]. split; [discriminate|]. split; [discriminate|]. split; [discriminate|]. split; [discriminate|].
  split; [reflexivity|]. split; [reflexivity|].
  split; [intros q H; vm_compute in H; in_cases H; reflexivity|]. split; [intros q H; vm_compute in H; in_cases H; reflexivity|].
  split; [apply nodup1|]. split; [apply nodup1|]. split; [intros c; tauto|].
  split.
  { intros c H. vm_compute in H. in_cases H. split; intros A.
    - below_cases A [id_g] id_g.
    - below_cases A [id_g] id_g. }
  split.
  { intros c c' H H'. vm_compute in H, H'. in_cases H. in_cases H'. congruence. }
  split.
  { intros x. split; intros H.
    - below_cases H [id_c; id_g] id_c; solve_anc.
    - below_cases H [id_c; id_g] id_c; solve_anc. }
  intros c H. vm_compute in H. in_cases H. exact shape_g.
Qed.

(* deciding [ties], [no_nan], [rows_sendable] and lookup-equality on concrete rows *)
Lemma point_eqb_eq p q : point_eqb p q = true -> p = q.
Proof.
  unfold point_eqb. intros H. repeat (apply andb_true_iff in H; destruct H as [H ?]).
  repeat match goal with
         | E : bytes_eqb _ _ = true |- _ => apply bytes_eqb_eq in E
         | E : (_ =? _)%N = true |- _ => apply N.eqb_eq in E
         | E : (_ =? _)%Z = true |- _ => apply Z.eqb_eq in E
         end.
  destruct p, q; cbn in *; subst; reflexivity.
Qed.

Definition ties_check (L R : list point) : bool :=
  forallb (fun a => forallb (fun b => implb (same_ident a b && (p_time a =? p_time b)%Z) (point_eqb a b)) R) L.

Lemma ident_eqb_trans t1 k1 t k t2 k2 : ident_eqb t1 k1 t k = true -> ident_eqb t2 k2 t k = true -> ident_eqb t1 k1 t2 k2 = true.
Proof.
  unfold ident_eqb. intros H1 H2. apply andb_true_iff in H1, H2. destruct H1 as [A1 B1], H2 as [A2 B2].
  apply bytes_eqb_eq in A1, B1, A2, B2. rewrite A1, A2, B1, B2, !bytes_eqb_refl. reflexivity.
Qed.

Lemma ties_of_check L R : ties_check L R = true -> ties L R.
Proof.
  intros H t k a b Ha Hb Ht. unfold lookup in Ha, Hb. apply find_some in Ha, Hb. destruct Ha as [InA IdA], Hb as [InB IdB].
  unfold ties_check in H. rewrite forallb_forall in H. specialize (H a InA). rewrite forallb_forall in H. specialize (H b InB).
  assert (S : same_ident a b = true) by (unfold same_ident; unfold is_id in IdA, IdB; eapply ident_eqb_trans; eassumption).
  rewrite S, Ht, Z.eqb_refl in H. cbn in H. apply point_eqb_eq. exact H.
Qed.

Lemma rows_eq_lookup (L R : list point) : L = R -> forall t k, lookup L t k = lookup R t k.
Proof. intros ->. reflexivity. Qed.

(* the rows are evaluated first: normalising the predicates under their binder would expand the comparisons
   with the 63-bit time bounds into enormous terms *)
Ltac eval_rows :=
  repeat match goal with
         | |- context [nrows ?a ?b] => let l := eval vm_compute in (nrows a b) in change (nrows a b) with l
         | |- context [edge_rows ?a ?b ?c] => let l := eval vm_compute in (edge_rows a b c) in change (edge_rows a b c) with l
         end.
Ltac solve_forall := repeat (apply Forall_cons; [split; vm_compute; reflexivity|]); apply Forall_nil.
Ltac solve_no_nan := unfold no_nan; eval_rows; solve_forall.
Ltac solve_sendable := unfold rows_sendable; eval_rows; solve_forall.
Ltac solve_ties := apply ties_of_check; vm_compute; reflexivity.

Lemma node_data_at x : In x [id_dev; id_c; id_g; id_h] -> node_data cD cU x.
Proof. intros H. in_cases H; (split; [solve_no_nan|split; [solve_no_nan|solve_ties]]). Qed.

Lemma edge_data_at q x : In (q, x) [(id_dev, id_c); (id_c, id_g); (id_dev, id_h)] -> edge_data cD cU q x.
Proof. intros H. in_cases H; (split; [solve_sendable|split; [solve_sendable|solve_ties]]). Qed.

Lemma data_c : data KD cD cU id_c.
Proof.
  intros x Hx. below_cases Hx [id_c; id_g] id_c.
  - split; [apply node_data_at; vm_compute; tauto|]. intros q Hq. vm_compute in Hq. in_cases Hq. apply edge_data_at. vm_compute. tauto.
  - split; [apply node_data_at; vm_compute; tauto|]. intros q Hq. vm_compute in Hq. in_cases Hq. apply edge_data_at. vm_compute. tauto.
Qed.

Lemma data_h : data KD cD cU id_h.
Proof.
  intros x Hx. below_cases Hx [id_h] id_h.
  split; [apply node_data_at; vm_compute; tauto|]. intros q Hq. vm_compute in Hq. in_cases Hq. apply edge_data_at. vm_compute. tauto.
Qed.

(* faithfulness: the hashes of (d,c) and (c,g) differ; those of (d,h) are equal and h agrees *)
Lemma faithful_c : faithful KD cD cU id_c.
Proof.
  intros x q Hx Hq Hh. below_cases Hx [id_c; id_g] id_c; vm_compute in Hq; in_cases Hq; vm_compute in Hh; discriminate.
Qed.

Lemma agree_h : sub_agree KD cD cU id_h.
Proof.
  intros y Hy. below_cases Hy [id_h] id_h. split.
  - apply rows_eq_lookup. vm_compute. reflexivity.
  - intros r Hr. vm_compute in Hr. in_cases Hr. apply rows_eq_lookup. vm_compute. reflexivity.
Qed.

Lemma faithful_h : faithful KD cD cU id_h.
Proof.
  intros x q Hx Hq _. below_cases Hx [id_h] id_h. exact agree_h.
Qed.

Lemma kids_ok_dev : kids_ok KD KU id_dev.
Proof.
  constructor.
  - apply nodup2. discriminate.
  - apply nodup2. discriminate.
  - intros c. tauto.
  - intros c H. vm_compute in H. in_cases H; split; intros A.
    + below_cases A [id_c; id_g] id_c.
    + below_cases A [id_c; id_g] id_c.
    + below_cases A [id_h] id_h.
    + below_cases A [id_h] id_h.
  - intros c c' H H' Hne x. vm_compute in H, H'. in_cases H; in_cases H'; try congruence; split; intros A B.
    + below_cases A [id_c; id_g] id_c; below_cases B [id_h] id_h.
    + below_cases A [id_c; id_g] id_c; below_cases B [id_h] id_h.
    + below_cases A [id_h] id_h; below_cases B [id_c; id_g] id_c.
    + below_cases A [id_h] id_h; below_cases B [id_c; id_g] id_c.
Qed.

(* ---------- the theorem applies, and says what the evaluation shows ---------- *)
Definition dummy_edge : edge := mkEdge 0 [] [] [] [] 0.
Definition nlD : edge := Eval vm_compute in hd dummy_edge (parents (s_edges cD) id_dev).
Definition nuU : edge := Eval vm_compute in hd dummy_edge (parents (s_edges cU) id_dev).
Lemma parents_D : parents (s_edges cD) id_dev = [nlD]. Proof. vm_compute. reflexivity. Qed.
Lemma parents_U : parents (s_edges cU) id_dev = [nuU]. Proof. vm_compute. reflexivity. Qed.
Lemma not_deleted_U : edge_deleted nuU = false. Proof. vm_compute. reflexivity. Qed.
Lemma top_differs_ex : top_hash_of nlD <> top_hash_of nuU. Proof. vm_compute. discriminate. Qed.

Theorem recursion_example :
  let DU := sync_node false 2 cD cU id_dev str_root id_dev 0%Z in
  njoined cD cU (fst DU) (snd DU) id_dev /\
  (forall c, In c (kids KD id_dev) -> joined KD cD cU (fst DU) (snd DU) c).
Proof.
  pose proof (sync_converges id_dev 0%Z 1 cD cU nlD nuU good_cD good_cU real_dev parents_D parents_U not_deleted_U) as T.
  rewrite links_cD, links_cU in T. specialize (T kids_ok_dev).
  assert (Hsh : forall c, In c (kids KD id_dev) -> shape id_dev 1 KD KU (s_root cD) (s_root cU) id_dev c).
  { intros c H. vm_compute in H. in_cases H; [exact shape_c|exact shape_h]. }
  assert (Hd : forall c, In c (kids KD id_dev) -> data KD cD cU c).
  { intros c H. vm_compute in H. in_cases H; [exact data_c|exact data_h]. }
  assert (Hf : forall c, In c (kids KD id_dev) -> faithful KD cD cU c).
  { intros c H. vm_compute in H. in_cases H; [exact faithful_c|exact faithful_h]. }
  assert (Hn : node_data cD cU id_dev) by (apply node_data_at; vm_compute; tauto).
  specialize (T Hsh Hn Hd).
  assert (Htop : top_hash_of nlD = top_hash_of nuU ->
                 (forall t k, lookup (nrows cD id_dev) t k = lookup (nrows cU id_dev) t k) /\
                 forall c, In c (kids KD id_dev) -> sub_agree KD cD cU c).
  { intros E. exfalso. exact (top_differs_ex E). }
  specialize (T Htop Hf). destruct T as (T1 & T2 & _). split; [exact T1|exact T2].
Qed.
