(* C02, groundwork for the recursion of the catch-up: what an acknowledged write to a node x (its node
   points, or the points of an existing edge into x) can change in a store.  Nothing but: the rows of x /
   of edges into x, and the hashes of edges whose lower node is x or above x.  [frame S st st'] says this
   for a set S of written nodes; it composes, so a whole catch-up pass below a node has the frame of that
   node's subtree. *)
From Verif Require Import Base.Bytes Store.GraphCount Store.GraphWalk Store.Model Store.ProofsRows Store.ProofsHash Store.ProofsTop Store.Concurrent Store.InitRoot Sync.Model Sync.Proofs Sync.ProofsEdge.
From Coq Require Import Lia.

(* ---------- the shape of the graph: (up, down) of every edge; y is x or above x ---------- *)
Definition links (st : store) : list (bytes * bytes) := map (fun e => (e_up e, e_down e)) (s_edges st).

Inductive anc (K : list (bytes * bytes)) (x : bytes) : bytes -> Prop :=
| anc_refl : anc K x x
| anc_step y z : anc K x y -> In (z, y) K -> anc K x z.

Lemma anc_trans K x y z : anc K x y -> anc K y z -> anc K x z.
Proof. intros H1 H2. induction H2 as [|y' z' _ IH Hin]; [exact H1|]. eapply anc_step; eassumption. Qed.

Lemma in_links st e : In e (s_edges st) -> In (e_up e, e_down e) (links st).
Proof. intros H. unfold links. apply in_map_iff. exists e. auto. Qed.

(* every edge toggled by the upward recursion from x has its lower node at x or above x *)
Lemma visits_anc G f : forall x i, In i (visits G f x) ->
  exists e, In e G /\ e_id e = i /\ anc (map (fun e => (e_up e, e_down e)) G) x (e_down e).
Proof.
  induction f as [|f IH]; intros x i Hi; [destruct Hi|].
  cbn [visits] in Hi. apply in_flat_map in Hi. destruct Hi as (e & He & Hi).
  unfold parents in He. apply filter_In in He. destruct He as [HeG Hd]. apply bytes_eqb_eq in Hd.
  destruct Hi as [<-|Hi].
  - exists e. split; [exact HeG|]. split; [reflexivity|]. rewrite Hd. constructor.
  - destruct (IH _ _ Hi) as (e0 & H0 & Hid & Ha). exists e0. split; [exact H0|]. split; [exact Hid|].
    eapply anc_trans; [|exact Ha]. eapply anc_step; [constructor|].
    apply in_map_iff. exists e. rewrite Hd. auto.
Qed.

Lemma nodup_map_inj {A B} (f : A -> B) l a b : NoDup (map f l) -> In a l -> In b l -> f a = f b -> a = b.
Proof.
  induction l as [|x l IH]; intros ND Ha Hb E; [destruct Ha|].
  cbn [map] in ND. inversion ND as [|? ? Hx ND']; subst.
  destruct Ha as [<-|Ha], Hb as [<-|Hb]; try reflexivity.
  - exfalso. apply Hx. rewrite E. apply in_map. exact Hb.
  - exfalso. apply Hx. rewrite <- E. apply in_map. exact Ha.
  - apply IH; assumption.
Qed.

Lemma cnt_notin i l : ~ In i l -> cnt i l = 0%nat.
Proof. intros H. unfold cnt. apply count_occ_not_In. exact H. Qed.

Lemma toggle_notin vs d e : ~ In (e_id e) vs -> toggle vs d e = e.
Proof. intros H. unfold toggle. rewrite (cnt_notin _ _ H). reflexivity. Qed.

(* ---------- frame ---------- *)
Record frame_of (g : edge -> edge) (S : bytes -> Prop) (st st' : store) : Prop := {
  fr_edges : s_edges st' = map g (s_edges st);
  fr_id : forall e, In e (s_edges st) -> e_id (g e) = e_id e /\ e_up (g e) = e_up e /\ e_down (g e) = e_down e /\ e_type (g e) = e_type e;
  fr_pts : forall e, In e (s_edges st) -> ~ S (e_down e) -> e_pts (g e) = e_pts e;
  fr_same : forall e, In e (s_edges st) -> (forall x, S x -> ~ anc (links st) x (e_down e)) -> g e = e;
  fr_nodes : forall id, ~ S id -> node_rows (s_nodes st') id = node_rows (s_nodes st) id;
  fr_root : s_root st' = s_root st }.
Definition frame (S : bytes -> Prop) (st st' : store) : Prop := exists g, frame_of g S st st'.

Lemma frame_links S st st' : frame S st st' -> links st' = links st.
Proof.
  intros [g F]. unfold links. rewrite (fr_edges _ _ _ _ F), map_map. apply map_ext_in. intros e He.
  destruct (fr_id _ _ _ _ F e He) as (_ & -> & -> & _). reflexivity.
Qed.

Lemma frame_refl S st : frame S st st.
Proof.
  exists (fun e => e). constructor; auto.
  symmetry. apply map_id.
Qed.

Lemma frame_trans S st1 st2 st3 : frame S st1 st2 -> frame S st2 st3 -> frame S st1 st3.
Proof.
  intros F1' F2'. pose proof (frame_links _ _ _ F1') as HL. destruct F1' as [g1 F1], F2' as [g2 F2].
  exists (fun e => g2 (g1 e)). constructor.
  - rewrite (fr_edges _ _ _ _ F2), (fr_edges _ _ _ _ F1), map_map. reflexivity.
  - intros e He. destruct (fr_id _ _ _ _ F1 e He) as (A1 & A2 & A3 & A4).
    assert (He' : In (g1 e) (s_edges st2)) by (rewrite (fr_edges _ _ _ _ F1); apply in_map; exact He).
    destruct (fr_id _ _ _ _ F2 (g1 e) He') as (B1 & B2 & B3 & B4).
    repeat split; congruence.
  - intros e He Hs. destruct (fr_id _ _ _ _ F1 e He) as (_ & _ & A3 & _).
    rewrite (fr_pts _ _ _ _ F2).
    + apply (fr_pts _ _ _ _ F1); assumption.
    + rewrite (fr_edges _ _ _ _ F1). apply in_map. exact He.
    + rewrite A3. exact Hs.
  - intros e He Hs. rewrite (fr_same _ _ _ _ F1 e He Hs). apply (fr_same _ _ _ _ F2).
    + rewrite (fr_edges _ _ _ _ F1). apply in_map_iff. exists e. split; [apply (fr_same _ _ _ _ F1 e He Hs)|exact He].
    + rewrite HL. exact Hs.
  - intros id Hs. rewrite (fr_nodes _ _ _ _ F2 id Hs). apply (fr_nodes _ _ _ _ F1 id Hs).
  - rewrite (fr_root _ _ _ _ F2). apply (fr_root _ _ _ _ F1).
Qed.

Lemma frame_weaken (S S' : bytes -> Prop) st st' : (forall x, S x -> S' x) -> frame S st st' -> frame S' st st'.
Proof.
  intros HS [g F]. exists g. constructor.
  - apply (fr_edges _ _ _ _ F).
  - apply (fr_id _ _ _ _ F).
  - intros e He Hn. apply (fr_pts _ _ _ _ F e He). intros H. apply Hn, HS, H.
  - intros e He Hn. apply (fr_same _ _ _ _ F e He). intros x Hx. apply Hn, HS, Hx.
  - intros id Hn. apply (fr_nodes _ _ _ _ F). intros H. apply Hn, HS, H.
  - apply (fr_root _ _ _ _ F).
Qed.

(* ---------- a node-point request has the frame of its node ---------- *)
Lemma node_rows_set_other ns id rows id' : id' <> id -> node_rows (set_node_rows ns id rows) id' = node_rows ns id'.
Proof.
  intros Hne. induction ns as [|[i r] ns IH]; cbn [set_node_rows node_rows].
  - destruct (bytes_eqb id id') eqn:E; [apply bytes_eqb_eq in E; congruence|reflexivity].
  - destruct (bytes_eqb i id) eqn:E; cbn [node_rows].
    + apply bytes_eqb_eq in E. subst i. destruct (bytes_eqb id id') eqn:E'; [apply bytes_eqb_eq in E'; congruence|reflexivity].
    + destruct (bytes_eqb i id'); [reflexivity|exact IH].
Qed.

Lemma frame_wr_node st x pts : wf st -> frame (fun y => y = x) st (wr st (NodePts x pts)).
Proof.
  intros W. unfold wr. cbn [handle]. unfold node_points. destruct (has_nan pts); [apply frame_refl|]. destruct (bad_times pts); [apply frame_refl|].
  destruct (merge_batch false (node_rows (s_nodes st) x) (collapse pts)) as [rows d]. cbn [fst].
  exists (toggle (visits (s_edges st) (fuel_of (s_edges st)) x) d). constructor; cbn [s_edges s_nodes s_root].
  - reflexivity.
  - intros e _. rewrite toggle_id, toggle_up, toggle_down, toggle_type. auto.
  - intros e _ _. apply toggle_pts.
  - intros e He Hs. apply toggle_notin. intros Hin.
    destruct (visits_anc _ _ _ _ Hin) as (e0 & H0 & Hid & Ha).
    assert (e0 = e) by (apply (nodup_map_inj e_id (s_edges st)); [apply (wf_ids st W)|exact H0|exact He|exact Hid]).
    subst e0. apply (Hs x eq_refl). exact Ha.
  - intros id Hne. apply node_rows_set_other. exact Hne.
  - reflexivity.
Qed.

(* ---------- an edge-point request on an existing edge into x has the frame of x ---------- *)
Lemma frame_wr_edge st x par pts e0 : wf st -> par <> [] ->
  find_edge (s_edges st) par x = Some e0 ->
  frame (fun y => y = x) st (wr st (EdgePts x par pts)).
Proof.
  intros W Hpar Hf. unfold wr. cbn [handle]. unfold edge_points.
  destruct (has_nan pts); [apply frame_refl|]. destruct (bad_times pts); [apply frame_refl|]. destruct (bytes_eqb x par); [apply frame_refl|].
  destruct (bytes_eqb x (s_root st) && _); [apply frame_refl|].
  assert (match par with [] => str_root | _ :: _ => par end = par) as -> by (destruct par; [contradiction|reflexivity]).
  rewrite Hf. destruct (merge_batch true (e_pts e0) (collapse pts)) as [rows d]. cbn [fst].
  destruct (find_edge_spec _ _ _ _ Hf) as (He0 & Hu0 & Hd0).
  set (e' := mkEdge (e_id e0) (e_up e0) (e_down e0) (e_type e0) rows (e_hash e0)).
  set (G := s_edges st) in *. set (G' := set_edge G e').
  set (vs := e_id e0 :: visits G' (fuel_of G') par).
  set (h := fun e => if (e_id e =? e_id e')%N then e' else e).
  assert (Hh : forall e, In e G -> e_id (h e) = e_id e /\ e_up (h e) = e_up e /\ e_down (h e) = e_down e /\ e_type (h e) = e_type e).
  { intros e He. unfold h. destruct (e_id e =? e_id e')%N eqn:E; [|auto].
    apply N.eqb_eq in E. cbn [e_id e'] in E.
    assert (e = e0) by (apply (nodup_map_inj e_id G); [apply (wf_ids st W)|exact He|exact He0|exact E]). subst e. cbn. auto. }
  assert (Hh_other : forall e, In e G -> e_down e <> x -> h e = e).
  { intros e He Hne. unfold h. destruct (e_id e =? e_id e')%N eqn:E; [|reflexivity].
    apply N.eqb_eq in E. cbn [e_id e'] in E.
    assert (e = e0) by (apply (nodup_map_inj e_id G); [apply (wf_ids st W)|exact He|exact He0|exact E]). subst e. contradiction. }
  exists (fun e => toggle vs d (h e)). constructor; cbn [s_edges s_nodes s_root].
  - unfold update_edge_hash. fold vs. unfold G', set_edge. fold h. rewrite map_map. reflexivity.
  - intros e He. rewrite toggle_id, toggle_up, toggle_down, toggle_type. apply Hh. exact He.
  - intros e He Hne. rewrite toggle_pts, Hh_other; [reflexivity|exact He|exact Hne].
  - intros e He Hs.
    assert (Hne : e_down e <> x) by (intros E; apply (Hs x eq_refl); rewrite E; constructor).
    rewrite (Hh_other e He Hne). apply toggle_notin. unfold vs. intros [E|Hin].
    + assert (e0 = e) by (apply (nodup_map_inj e_id G); [apply (wf_ids st W)|exact He0|exact He|exact E]). subst e. contradiction.
    + destruct (visits_anc _ _ _ _ Hin) as (e1 & H1 & Hid & Ha).
      unfold G', set_edge in H1. fold h in H1. apply in_map_iff in H1. destruct H1 as (e2 & <- & H2).
      destruct (Hh e2 H2) as (I1 & I2 & I3 & _). rewrite I1 in Hid.
      assert (e2 = e) by (apply (nodup_map_inj e_id G); [apply (wf_ids st W)|exact H2|exact He|exact Hid]). subst e2.
      rewrite I3 in Ha.
      assert (HL : map (fun e => (e_up e, e_down e)) (map h G) = links st).
      { unfold links. fold G. rewrite map_map. apply map_ext_in. intros a Ha'. destruct (Hh a Ha') as (_ & -> & -> & _). reflexivity. }
      unfold G', set_edge in Ha. fold h in Ha. rewrite HL in Ha.
      apply (Hs x eq_refl). eapply anc_trans; [|exact Ha].
      eapply anc_step; [constructor|]. rewrite <- Hu0, <- Hd0. apply in_links. exact He0.
  - intros id _. reflexivity.
  - reflexivity.
Qed.

(* ---------- states in good standing, and how writes keep them ---------- *)
Definition good (st : store) : Prop := okst st /\ nodes_ok st.

Lemma good_wr st o : good st -> op_ok o -> good (wr st o).
Proof.
  intros [Hk Hn] Ho. split; [apply okst_wr; assumption|].
  change (wr st o) with (run st [o]). apply run_nodes_ok. exact Hn.
Qed.

(* what a frame keeps of the lookups by (up, down) *)
Lemma frame_find_edge S st st' u d e : frame S st st' -> find_edge (s_edges st) u d = Some e ->
  exists e', find_edge (s_edges st') u d = Some e' /\ e_up e' = u /\ e_down e' = d /\
             (~ S d -> e_pts e' = e_pts e) /\ ((forall x, S x -> ~ anc (links st) x d) -> e' = e).
Proof.
  intros [g F] Hf. destruct (find_edge_spec _ _ _ _ Hf) as (He & Hu & Hd).
  rewrite (fr_edges _ _ _ _ F).
  rewrite (find_edge_map_in g (s_edges st) u d) by (intros a Ha; destruct (fr_id _ _ _ _ F a Ha) as (_ & A & B & _); auto).
  rewrite Hf. cbn [option_map]. exists (g e). destruct (fr_id _ _ _ _ F e He) as (_ & A & B & _).
  split; [reflexivity|]. split; [congruence|]. split; [congruence|]. split.
  - intros Hs. apply (fr_pts _ _ _ _ F e He). rewrite Hd. exact Hs.
  - intros Hs. apply (fr_same _ _ _ _ F e He). rewrite Hd. exact Hs.
Qed.

Lemma frame_edge_rows S st st' u d : frame S st st' -> ~ S d -> edge_rows st' u d = edge_rows st u d.
Proof.
  intros F Hs. unfold edge_rows. destruct (find_edge (s_edges st) u d) as [e|] eqn:E.
  - destruct (frame_find_edge _ _ _ _ _ _ F E) as (e' & -> & _ & _ & Hp & _). apply Hp. exact Hs.
  - destruct F as [g F]. rewrite (fr_edges _ _ _ _ F).
    rewrite (find_edge_map_in g (s_edges st) u d) by (intros a Ha; destruct (fr_id _ _ _ _ F a Ha) as (_ & A & B & _); auto).
    rewrite E. reflexivity.
Qed.

Lemma frame_node_rows S st st' x : frame S st st' -> ~ S x -> node_rows (s_nodes st') x = node_rows (s_nodes st) x.
Proof. intros [g F] Hs. apply (fr_nodes _ _ _ _ F). exact Hs. Qed.

(* the stored hash of the edge (u, d), when there is one *)
Definition hash_at (st : store) (u d : bytes) : option N := option_map e_hash (find_edge (s_edges st) u d).

Lemma frame_hash_at S st st' u d : frame S st st' -> (forall x, S x -> ~ anc (links st) x d) -> hash_at st' u d = hash_at st u d.
Proof.
  intros F Hs. unfold hash_at. destruct (find_edge (s_edges st) u d) as [e|] eqn:E.
  - destruct (frame_find_edge _ _ _ _ _ _ F E) as (e' & -> & _ & _ & _ & Hsame). rewrite (Hsame Hs). reflexivity.
  - destruct F as [g F]. rewrite (fr_edges _ _ _ _ F).
    rewrite (find_edge_map_in g (s_edges st) u d) by (intros a Ha; destruct (fr_id _ _ _ _ F a Ha) as (_ & A & B & _); auto).
    rewrite E. reflexivity.
Qed.

(* ---------- the two exchanges of a catch-up pass have the frame of their node ---------- *)
Lemma apply_node_sends_frame sends : forall D U id, good D -> good U ->
  let DU := apply_node_sends D U id id sends in
  frame (fun y => y = id) D (fst DU) /\ frame (fun y => y = id) U (snd DU) /\ good (fst DU) /\ good (snd DU) /\
  (forall u d, edge_rows (fst DU) u d = edge_rows D u d) /\ (forall u d, edge_rows (snd DU) u d = edge_rows U u d).
Proof.
  induction sends as [|[up p] sends IH]; intros D U id GD GU; cbv zeta.
  - cbn [apply_node_sends fold_left fst snd]. split; [apply frame_refl|]. split; [apply frame_refl|]. split; [exact GD|]. split; [exact GU|]. split; reflexivity.
  - unfold apply_node_sends. cbn [fold_left]. fold apply_node_sends. destruct up.
    + change (fold_left _ sends (D, wr U (NodePts id [p]))) with (apply_node_sends D (wr U (NodePts id [p])) id id sends).
      assert (GU' : good (wr U (NodePts id [p]))) by (apply good_wr; [exact GU|exact I]).
      destruct (IH D (wr U (NodePts id [p])) id GD GU') as (A & B & C & E & R1 & R2). cbv zeta in *.
      split; [exact A|]. split; [|split; [exact C|split; [exact E|split; [exact R1|]]]].
      * eapply frame_trans; [apply frame_wr_node; apply GU|exact B].
      * intros u d. rewrite R2. apply wr_np_rows.
    + change (fold_left _ sends (wr D (NodePts id [p]), U)) with (apply_node_sends (wr D (NodePts id [p])) U id id sends).
      assert (GD' : good (wr D (NodePts id [p]))) by (apply good_wr; [exact GD|exact I]).
      destruct (IH (wr D (NodePts id [p])) U id GD' GU) as (A & B & C & E & R1 & R2). cbv zeta in *.
      split; [|split; [exact B|split; [exact C|split; [exact E|split; [|exact R2]]]]].
      * eapply frame_trans; [apply frame_wr_node; apply GD|exact A].
      * intros u d. rewrite R1. apply wr_np_rows.
Qed.

Lemma apply_edge_sends_frame sends : forall D U id pl pu, good D -> good U ->
  pl <> [] -> pu <> [] -> id <> str_none ->
  (exists e, find_edge (s_edges D) pl id = Some e) -> (exists e, find_edge (s_edges U) pu id = Some e) ->
  let DU := apply_edge_sends D U id pl pu sends in
  frame (fun y => y = id) D (fst DU) /\ frame (fun y => y = id) U (snd DU) /\ good (fst DU) /\ good (snd DU).
Proof.
  induction sends as [|[up p] sends IH]; intros D U id pl pu GD GU Hpl Hpu Hn FD FU; cbv zeta.
  - cbn [apply_edge_sends fold_left fst snd]. split; [apply frame_refl|]. split; [apply frame_refl|]. split; [exact GD|exact GU].
  - unfold apply_edge_sends. cbn [fold_left]. fold apply_edge_sends. destruct up.
    + change (fold_left _ sends (D, wr U (EdgePts id pu [p]))) with (apply_edge_sends D (wr U (EdgePts id pu [p])) id pl pu sends).
      destruct FU as [eU FU].
      assert (F1 : frame (fun y => y = id) U (wr U (EdgePts id pu [p]))) by (eapply frame_wr_edge; [apply GU|exact Hpu|exact FU]).
      assert (GU' : good (wr U (EdgePts id pu [p]))) by (apply good_wr; [exact GU|assumption]).
      assert (FU' : exists e, find_edge (s_edges (wr U (EdgePts id pu [p]))) pu id = Some e).
      { destruct (frame_find_edge _ _ _ _ _ _ F1 FU) as (e' & E & _). eauto. }
      destruct (IH D _ id pl pu GD GU' Hpl Hpu Hn FD FU') as (A & B & C & E). cbv zeta in *.
      split; [exact A|]. split; [|split; assumption]. eapply frame_trans; eassumption.
    + change (fold_left _ sends (wr D (EdgePts id pl [p]), U)) with (apply_edge_sends (wr D (EdgePts id pl [p])) U id pl pu sends).
      destruct FD as [eD FD].
      assert (F1 : frame (fun y => y = id) D (wr D (EdgePts id pl [p]))) by (eapply frame_wr_edge; [apply GD|exact Hpl|exact FD]).
      assert (GD' : good (wr D (EdgePts id pl [p]))) by (apply good_wr; [exact GD|assumption]).
      assert (FD' : exists e, find_edge (s_edges (wr D (EdgePts id pl [p]))) pl id = Some e).
      { destruct (frame_find_edge _ _ _ _ _ _ F1 FD) as (e' & E & _). eauto. }
      destruct (IH _ U id pl pu GD' GU Hpl Hpu Hn FD' FU) as (A & B & C & E). cbv zeta in *.
      split; [|split; [exact B|split; assumption]]. eapply frame_trans; eassumption.
Qed.
