(* C02: executable model of the catch-up synchronisation of client/sync.go
   (syncNode, sendNodesRemote, sendNodesLocal, SendNode) over two store models
   (downstream D, upstream U), and the case checker for two-instance histories.
   No proofs here. *)
From Verif Require Import Base.Bytes Base.Val Store.Model Store.Check Store.CheckConc.
Local Open Scope N_scope.

Definition str_all : bytes := [97;108;108].

Definition wr (st : store) (o : op) : store := fst (fst (handle st o)).

(* NodeEdge.IsTombstone: the edge's tombstone point has value 1 *)
Definition edge_deleted (e : edge) : bool := f64_is_one (edge_tomb_val e).

(* store.getNodes *)
Definition get_nodes (st : store) (parent id : bytes) (incl_del : bool) : list edge :=
  let G := s_edges st in
  let sel :=
    if bytes_eqb parent str_root then filter (fun e => bytes_eqb (e_down e) (s_root st)) G
    else if bytes_eqb parent str_all then filter (fun e => bytes_eqb (e_down e) id) G
    else if bytes_eqb id str_all then filter (fun e => bytes_eqb (e_up e) parent) G
    else filter (fun e => bytes_eqb (e_up e) parent && bytes_eqb (e_down e) id) G in
  filter (fun e => incl_del || negb (edge_deleted e)) sel.

Definition fill_origin (origin : bytes) (p : point) : point :=
  match p_origin p with
  | [] => mkPoint (p_type p) (p_key p) (p_time p) (p_val p) (p_text p) (p_data p) (p_tomb p) origin
  | _ => p
  end.

(* client.SendNode: node points first, then the edge points plus the node type *)
Definition send_node (st : store) (ns : list (bytes * list point)) (e : edge) (parent origin : bytes) (now : Z) : store :=
  let npts := map (fill_origin origin) (node_rows ns (e_down e)) in
  let st1 := wr st (NodePts (e_down e) npts) in
  let epts := match e_pts e with
              | [] => [mkPoint str_tombstone [] now 0 [] [] 0%Z origin]
              | ps => map (fill_origin origin) ps
              end in
  let epts := epts ++ [mkPoint str_nodeType [] now 0 (e_type e) [] 0%Z origin] in
  wr st1 (EdgePts (e_down e) parent epts).

Definition sync_id : bytes := [115;121;110;99;49].   (* config.ID of the sync client in the harness *)

(* sendNodesRemote: the node, then (recursively) its live children as the downstream sees them *)
Fixpoint send_nodes_remote (f : nat) (D U : store) (uroot : bytes) (e : edge) (now : Z) : store :=
  let parent := if bytes_eqb (e_up e) str_root then uroot else e_up e in
  let U1 := send_node U (s_nodes D) e parent sync_id now in
  match f with
  | O => U1
  | S f' => fold_left (fun U c => send_nodes_remote f' D U uroot c now) (get_nodes D (e_down e) str_all false) U1
  end.

(* sendNodesLocal: the node (an upstream view), then the children the DOWNSTREAM holds for it (up.nc) *)
Fixpoint send_nodes_local (f : nat) (D : store) (src : list (bytes * list point)) (e : edge) (now : Z) : store :=
  let D1 := send_node D src e (e_up e) sync_id now in
  match f with
  | O => D1
  | S f' => fold_left (fun D c => send_nodes_local f' D (s_nodes D) c now) (get_nodes D1 (e_down e) str_all false) D1
  end.

(* the two comparison loops of syncNode: (to_upstream?, point) in the order they are sent *)
Definition is_match (p q : point) : bool := bytes_eqb (p_type p) (p_type q) && bytes_eqb (p_key p) (p_key q).

Definition cmp_local (pu : list point) (p : point) : list (bool * point) :=
  match filter (is_match p) pu with
  | [] => [(true, p)]
  | ms => flat_map (fun q => if (p_time q <? p_time p)%Z then [(true, p)]
                             else if (p_time p <? p_time q)%Z then [(false, q)] else []) ms
  end.

Definition sync_points (pl pu : list point) : list (bool * point) :=
  flat_map (cmp_local pu) pl ++
  map (fun q => (false, q)) (filter (fun q => negb (existsb (fun p => is_match p q) pl)) pu).

Definition apply_node_sends (D U : store) (idl idu : bytes) (sends : list (bool * point)) : store * store :=
  fold_left (fun '(D, U) '(up, p) => if up : bool then (D, wr U (NodePts idu [p])) else (wr D (NodePts idl [p]), U))
            sends (D, U).

Definition apply_edge_sends (D U : store) (id pl pu : bytes) (sends : list (bool * point)) : store * store :=
  fold_left (fun '(D, U) '(up, p) => if up : bool then (D, wr U (EdgePts id pu [p])) else (wr D (EdgePts id pl [p]), U))
            sends (D, U).

Definition xor_epts (e : edge) : N := xor_crcs (e_pts e).

(* syncNode(parent, id); dev = id of the downstream root (the device) *)
Fixpoint sync_node (legacy : bool) (f : nat) (D U : store) (dev : bytes) (parent id : bytes) (now : Z) : store * store :=
  let uroot := s_root U in
  let parent := if bytes_eqb parent str_root then str_all else parent in
  match get_nodes D parent id true with
  | [] => (D, U)                                            (* "local nodes not found" *)
  | nl :: _ =>
      let ups := get_nodes U parent id true in
      let is_dev := bytes_eqb (e_down nl) dev in
      match ups with
      | [] => (D, send_nodes_remote f D U uroot nl now)     (* not found upstream: send it *)
      | nu :: _ =>
          if forallb edge_deleted ups && (legacy || is_dev)
          then (D, wr U (EdgePts (e_down nu) (e_up nu) [mkPoint str_tombstone [] now 0 [] [] 0%Z []]))
          else
            let hl := if is_dev then N.lxor (e_hash nl) (xor_epts nl) else e_hash nl in
            let hu := if is_dev then N.lxor (e_hash nu) (xor_epts nu) else e_hash nu in
            if hl =? hu then (D, U)
            else
              let '(D1, U1) := apply_node_sends D U (e_down nl) (e_down nu)
                                 (sync_points (node_rows (s_nodes D) (e_down nl)) (node_rows (s_nodes U) (e_down nu))) in
              let '(D2, U2) := if is_dev then (D1, U1)
                               else apply_edge_sends D1 U1 (e_down nl) (e_up nl) (e_up nu) (sync_points (e_pts nl) (e_pts nu)) in
              match f with
              | O => (D2, U2)
              | S f' =>
                  let children := get_nodes D2 (e_down nl) str_all (negb legacy) in
                  let upchildren := get_nodes U2 (e_down nu) str_all (negb legacy) in
                  let '(D3, U3) :=
                    fold_left (fun '(D, U) c =>
                                 match filter (fun uc => bytes_eqb (e_down uc) (e_down c)) upchildren with
                                 | [] => (D, send_nodes_remote f' D U uroot c now)
                                 | ms => fold_left (fun '(D, U) uc => if e_hash c =? e_hash uc then (D, U)
                                                                      else sync_node legacy f' D U dev (e_down nl) (e_down c) now) ms (D, U)
                                 end) children (D2, U2) in
                  let D4 := fold_left (fun D uc =>
                                         if existsb (fun c => bytes_eqb (e_down c) (e_down uc)) children then D
                                         else send_nodes_local f' D (s_nodes U2) uc now) upchildren D3 in
                  (D4, U3)
              end
      end
  end.

(* periodic catch-up until both sides stop changing (at most n rounds) *)
Fixpoint catchup (legacy : bool) (n : nat) (D U : store) (dev : bytes) (now : Z) : store * store :=
  match n with
  | O => (D, U)
  | S n' =>
      let '(D', U') := sync_node legacy (S (length (s_edges D) + length (s_edges U))) D U dev str_root dev now in
      if views_eqb (project D') (project D) && views_eqb (project U') (project U) then (D', U')
      else catchup legacy n' D' U' dev now
  end.

(* ---------- cases ---------- *)
Record phase := mkPhase {
  ph_up : bool;                          (* link up (true) or sync disabled (false) *)
  ph_ops : list (bool * op);             (* (on upstream?, request) *)
  ph_d : list edge_view; ph_u : list edge_view;   (* dumps of the device tree at the end of the phase *)
  ph_conv : bool }.

Record scase := mkSCase { sc_dev : bytes; sc_uroot : bytes; sc_phases : list phase; sc_err : bool }.

Definition phase_of_val (v : val) : option phase :=
  match v with
  | VL [up; ops; d; u; cv] =>
      up <- get_bool up ;;
      ops <- get_list (fun x => match x with VL [s; o] => s <- get_bool s ;; o <- op_of_val o ;; Some (s, o) | _ => None end) ops ;;
      d <- views_of_val d ;; u <- views_of_val u ;; cv <- get_bool cv ;;
      Some (mkPhase up ops d u cv)
  | _ => None
  end.

Definition scase_of_val (v : val) : option scase :=
  match v with
  | VL [dev; ur; phs; err] =>
      dev <- get_b dev ;; ur <- get_b ur ;; phs <- get_list phase_of_val phs ;; err <- get_bool err ;;
      Some (mkSCase dev ur phs err)
  | _ => None
  end.

(* what must agree between the two sides: for every edge of the device tree the node points of its
   lower node, and (except for the device's own placement) its parent, type and edge points;
   origin is not compared (the sync client stamps its own id on points it transfers) *)
Definition strip_origin (p : point) : point := mkPoint (p_type p) (p_key p) (p_time p) (p_val p) (p_text p) (p_data p) (p_tomb p) [].
Definition canon_view (dev : bytes) (v : edge_view) : edge_view :=
  if bytes_eqb (v_down v) dev
  then mkView [] (v_down v) (v_type v) 0 [] (map strip_origin (v_npts v))
  else mkView (v_up v) (v_down v) (v_type v) 0 (map strip_origin (v_epts v)) (map strip_origin (v_npts v)).
Definition canon (dev : bytes) (vs : list edge_view) : list edge_view := sort_by view_leb (map (canon_view dev) vs).

(* no accepted write lost: every point held by either side before catch-up is, per identity, not newer
   than what both hold afterwards *)
Definition covers (after before : list edge_view) : bool :=
  forallb (fun vb => match find (fun va => bytes_eqb (v_down va) (v_down vb) && bytes_eqb (v_up va) (v_up vb)) after with
                     | Some va => not_older (v_npts vb) (v_npts va) && not_older (v_epts vb) (v_epts va)
                     | None => false
                     end) before.

Definition final_phases (c : scase) : option (phase * phase) :=
  match rev (sc_phases c) with
  | last :: prev :: _ => Some (prev, last)
  | _ => None
  end.

(* ---- what the hash comparison of syncNode can see ----
   syncNode compares the device's hash (edge points taken out) and descends only through edges that both
   sides hold with different stored hashes.  Because a point's CRC does not cover the node it belongs to
   and hashes are combined by XOR, two different subtrees can carry the same hash (the same point written
   to two sibling nodes on opposite sides during an outage): such a difference is invisible to every
   later catch-up.  [blind_only] says that every difference between the two dumps is of that kind while
   all stored hashes are the correct Merkle hashes of the dumped content. *)
Definition find_view (vs : list edge_view) (up down : bytes) : option edge_view :=
  find (fun v => bytes_eqb (v_up v) up && bytes_eqb (v_down v) down) vs.
Definition dev_view (dev : bytes) (vs : list edge_view) : option edge_view :=
  find (fun v => bytes_eqb (v_down v) dev) vs.
Definition top_hash (v : edge_view) : N := N.lxor (v_hash v) (xor_crcs (v_epts v)).
Definition top_differs (dev : bytes) (d u : list edge_view) : bool :=
  match dev_view dev d, dev_view dev u with
  | Some a, Some b => negb (top_hash a =? top_hash b)
  | _, _ => true
  end.
Definition mem (x : bytes) (l : list bytes) : bool := existsb (bytes_eqb x) l.
(* the nodes whose children a catch-up enumerates *)
Fixpoint visible (f : nat) (d u : list edge_view) (seen : list bytes) : list bytes :=
  match f with
  | O => seen
  | S f' =>
      let next := flat_map (fun v => if mem (v_up v) seen && negb (mem (v_down v) seen)
                                     then match find_view u (v_up v) (v_down v) with
                                          | Some w => if v_hash v =? v_hash w then [] else [v_down v]
                                          | None => []
                                          end
                                     else []) d in
      match next with [] => seen | _ => visible f' d u (seen ++ next) end
  end.
Definition blind_view (dev : bytes) (d u : list edge_view) (vis : list bytes) (v : edge_view) : bool :=
  if bytes_eqb (v_down v) dev then negb (top_differs dev d u)
  else negb (mem (v_up v) vis) ||
       match find_view d (v_up v) (v_down v), find_view u (v_up v) (v_down v) with
       | Some a, Some b => v_hash a =? v_hash b
       | _, _ => false
       end.
Definition unmatched (dev : bytes) (a b : list edge_view) : list edge_view :=
  filter (fun v => negb (existsb (view_eqb (canon_view dev v)) (map (canon_view dev) b))) a.
Definition blind_only (dev : bytes) (d u : list edge_view) : bool :=
  spec_hashes_ok d && spec_hashes_ok u &&
  let vis := if top_differs dev d u then visible (S (length d)) d u [dev] else [] in
  forallb (blind_view dev d u vis) (unmatched dev d u ++ unmatched dev u d).

Definition converged (c : scase) (ph : phase) : bool :=
  views_eqb (canon (sc_dev c) (ph_d ph)) (canon (sc_dev c) (ph_u ph)).

(* what the recursion theorem (C02_recursion_converges) predicts for a placement that both sides held when the
   link came back, when nothing else is written meanwhile: on both sides exactly the newer point per identity of
   the two they held - nothing older, and nothing that neither side held *)
Definition strip_sort (ps : list point) : list point := sort_points (map strip_origin ps).
Definition exact_join (dev : bytes) (prev_d prev_u last_d last_u : list edge_view) : bool :=
  forallb (fun vd =>
    match find_view prev_u (if bytes_eqb (v_down vd) dev then v_up (match dev_view dev prev_u with Some w => w | None => vd end) else v_up vd) (v_down vd) with
    | None => true                                   (* held by one side only: transferred as a whole, not compared here *)
    | Some vu =>
        let want_n := newest (map strip_origin (v_npts vd)) (map strip_origin (v_npts vu)) in
        let want_e := newest (map strip_origin (v_epts vd)) (map strip_origin (v_epts vu)) in
        let is_dev := bytes_eqb (v_down vd) dev in
        forallb (fun side : list edge_view =>
                   match find (fun v => bytes_eqb (v_down v) (v_down vd) && (is_dev || bytes_eqb (v_up v) (v_up vd))) side with
                   | Some v => points_eqb (strip_sort (v_npts v)) want_n &&
                               (is_dev || points_eqb (strip_sort (v_epts v)) want_e)
                   | None => false
                   end) [last_d; last_u]
    end) prev_d.

(* hard part: no error, no accepted write lost, and whenever the link is up every difference that the hash
   comparison can see is gone *)
Definition spec_c02 (c : scase) : bool :=
  negb (sc_err c) &&
  forallb (fun ph => if ph_up ph then converged c ph || blind_only (sc_dev c) (ph_d ph) (ph_u ph) else true) (sc_phases c) &&
  match final_phases c with
  | Some (prev, last) =>
      covers (canon (sc_dev c) (ph_d last)) (canon (sc_dev c) (ph_d prev)) &&
      covers (canon (sc_dev c) (ph_u last)) (canon (sc_dev c) (ph_u prev)) &&
      (* the theorem's conclusion, whenever the catch-up ran undisturbed and ended converged *)
      (if negb (ph_up prev) && match ph_ops last with [] => true | _ => false end && converged c last
       then exact_join (sc_dev c) (ph_d prev) (ph_u prev) (ph_d last) (ph_u last) else true)
  | None => true
  end.
(* the full convergence clause of the property (coded separately: its failures that pass [spec_c02] are
   exactly the hash-blind differences, a recorded finding) *)
Definition spec_c02_conv (c : scase) : bool :=
  forallb (fun ph => if ph_up ph then converged c ph else true) (sc_phases c).

(* correspondence: catch-up of the model from the two dumps taken at the end of the outage gives the
   two dumps observed after the link came back *)
Definition corr_c02 (c : scase) : bool :=
  match final_phases c with
  | Some (prev, last) =>
      if ph_up prev then true
      else
        let D0 := store_of_views (sc_dev c) (ph_d prev) in
        let U0 := store_of_views (sc_uroot c) (ph_u prev) in
        let '(D1, U1) := catchup false 8 D0 U0 (sc_dev c) 0%Z in
        views_eqb (canon (sc_dev c) (project D1)) (canon (sc_dev c) (ph_d last)) &&
        views_eqb (canon (sc_dev c) (project U1)) (canon (sc_dev c) (ph_u last))
  | None => true
  end.

Definition check_c02 := check_with scase_of_val (fun c => (code (corr_c02 c) (spec_c02 c) + (if spec_c02_conv c then 0 else 4))%N).
