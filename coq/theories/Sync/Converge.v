(* C02: convergence of the catch-up recursion on a tree-shaped device subtree that both instances hold,
   whenever the compared hashes are faithful (equal hashes only over equal content).  The hypothesis is
   exactly what the recorded finding equal-hash-different-content violates; under it one pass of syncNode
   leaves both instances, on every node and edge of the subtree, with the newer point per identity of the
   two they held (so nothing accepted is lost), and touches nothing outside the subtree. *)
From Verif Require Import Base.Bytes Store.GraphCount Store.GraphWalk Store.Model Store.ProofsRows Store.ProofsHash Store.ProofsTop Store.Concurrent Store.InitRoot Sync.Model Sync.Proofs Sync.ProofsEdge Sync.Frame.
From Coq Require Import Lia.

(* ---------- get_nodes with deleted edges included ---------- *)
Lemma filter_true {A} (l : list A) (f : A -> bool) : (forall a, f a = true) -> filter f l = l.
Proof. intros H. induction l as [|a l IH]; cbn [filter]; [reflexivity|]. rewrite H, IH. reflexivity. Qed.

Definition real (x : bytes) : Prop := x <> str_root /\ x <> str_all /\ x <> str_none /\ x <> [].

Lemma get_nodes_pair st p id : real p -> real id ->
  get_nodes st p id true = filter (fun e => bytes_eqb (e_up e) p && bytes_eqb (e_down e) id) (s_edges st).
Proof.
  intros (P1 & P2 & _) (_ & I2 & _). unfold get_nodes.
  rewrite (bytes_neq_eqb p str_root P1), (bytes_neq_eqb p str_all P2), (bytes_neq_eqb id str_all I2).
  apply filter_true. reflexivity.
Qed.

Lemma get_nodes_kids st id : real id -> get_nodes st id str_all true = childs (s_edges st) id.
Proof.
  intros (P1 & P2 & _). unfold get_nodes.
  rewrite (bytes_neq_eqb id str_root P1), (bytes_neq_eqb id str_all P2). change (bytes_eqb str_all str_all) with true.
  apply filter_true. reflexivity.
Qed.

Lemma get_nodes_into st id : get_nodes st str_all id true = parents (s_edges st) id.
Proof. unfold get_nodes. change (bytes_eqb str_all str_root) with false. rewrite bytes_eqb_refl. apply filter_true. reflexivity. Qed.

(* ---------- the shape of the shared subtree, in terms of the links (kept by every frame) ---------- *)
Definition pairb (p id : bytes) (l : bytes * bytes) : bool := bytes_eqb (fst l) p && bytes_eqb (snd l) id.
Definition once (K : list (bytes * bytes)) (p id : bytes) : Prop := filter (pairb p id) K = [(p, id)].
Definition kids (K : list (bytes * bytes)) (x : bytes) : list bytes := map snd (filter (fun l => bytes_eqb (fst l) x) K).

Lemma filter_map_comm {A B} (f : A -> B) (P : B -> bool) l : filter P (map f l) = map f (filter (fun a => P (f a)) l).
Proof. induction l as [|a l IH]; cbn [map filter]; [reflexivity|]. destruct (P (f a)); cbn [map]; rewrite IH; reflexivity. Qed.

Lemma find_hd' {A} (f : A -> bool) l : find f l = hd_error (filter f l).
Proof. induction l as [|a l IH]; cbn [find filter]; [reflexivity|]. destruct (f a); [reflexivity|exact IH]. Qed.

Lemma once_edge st p id : once (links st) p id ->
  exists e, filter (fun e => bytes_eqb (e_up e) p && bytes_eqb (e_down e) id) (s_edges st) = [e] /\
            e_up e = p /\ e_down e = id /\ find_edge (s_edges st) p id = Some e /\ In e (s_edges st).
Proof.
  unfold once, links. rewrite filter_map_comm. unfold pairb. cbn [fst snd]. intros H.
  destruct (filter (fun e => bytes_eqb (e_up e) p && bytes_eqb (e_down e) id) (s_edges st)) as [|e [|e2 l]] eqn:E; try discriminate.
  injection H as Hu Hd. exists e. split; [reflexivity|]. split; [exact Hu|]. split; [exact Hd|].
  assert (Hin : In e (filter (fun e => bytes_eqb (e_up e) p && bytes_eqb (e_down e) id) (s_edges st))) by (rewrite E; left; reflexivity).
  apply filter_In in Hin. destruct Hin as [Hin _]. split; [|exact Hin].
  unfold find_edge. rewrite find_hd'. rewrite E. reflexivity.
Qed.

Lemma join_idem o : join o o = o.
Proof. destruct o as [p|]; [|reflexivity]. cbn. rewrite Z.ltb_irrefl. reflexivity. Qed.

Section Conv.
Variable dev : bytes.
Variable now : Z.

(* x lies in the subtree of id *)
Definition below (K : list (bytes * bytes)) (id x : bytes) : Prop := anc K x id.

Lemma below_inv K id x : below K id x -> x = id \/ exists c, In c (kids K id) /\ below K c x.
Proof.
  unfold below. intros H. inversion H as [|y z Hy Hin]; subst; [left; reflexivity|right].
  exists y. split; [|exact Hy]. unfold kids. apply in_map_iff. exists (id, y). split; [reflexivity|].
  apply filter_In. split; [exact Hin|]. cbn [fst]. apply bytes_eqb_refl.
Qed.

Lemma kids_link K id c : In c (kids K id) -> In (id, c) K.
Proof.
  unfold kids. intros H. apply in_map_iff in H. destruct H as ([u d] & <- & H). apply filter_In in H. destruct H as [H E].
  cbn [fst snd] in *. apply bytes_eqb_eq in E. subst u. exact H.
Qed.

Lemma below_kid K id c x : In c (kids K id) -> below K c x -> below K id x.
Proof. intros Hc Hx. unfold below in *. eapply anc_step; [exact Hx|apply kids_link; exact Hc]. Qed.

Definition nrows (st : store) (x : bytes) : list point := node_rows (s_nodes st) x.
Definition ties (L R : list point) : Prop :=
  forall t k a b, lookup L t k = Some a -> lookup R t k = Some b -> p_time a = p_time b -> a = b.

Definition node_data (D U : store) (x : bytes) : Prop :=
  no_nan (nrows D x) /\ no_nan (nrows U x) /\ ties (nrows D x) (nrows U x).
Definition edge_data (D U : store) (q x : bytes) : Prop :=
  rows_sendable (edge_rows D q x) /\ rows_sendable (edge_rows U q x) /\ ties (edge_rows D q x) (edge_rows U q x).
Definition data (K : list (bytes * bytes)) (D U : store) (id : bytes) : Prop :=
  forall x, below K id x -> node_data D U x /\ forall q, In (q, x) K -> edge_data D U q x.

(* after the pass: the newer point per identity of what the two sides held *)
Definition njoined (D U D' U' : store) (x : bytes) : Prop := forall t k,
  lookup (nrows D' x) t k = join (lookup (nrows D x) t k) (lookup (nrows U x) t k) /\
  lookup (nrows U' x) t k = join (lookup (nrows D x) t k) (lookup (nrows U x) t k).
Definition ejoined (D U D' U' : store) (q x : bytes) : Prop := forall t k,
  lookup (edge_rows D' q x) t k = join (lookup (edge_rows D q x) t k) (lookup (edge_rows U q x) t k) /\
  lookup (edge_rows U' q x) t k = join (lookup (edge_rows D q x) t k) (lookup (edge_rows U q x) t k).
Definition joined (K : list (bytes * bytes)) (D U D' U' : store) (id : bytes) : Prop :=
  forall x, below K id x -> njoined D U D' U' x /\ forall q, In (q, x) K -> ejoined D U D' U' q x.

(* equal hashes only over equal content *)
Definition sub_agree (K : list (bytes * bytes)) (D U : store) (x : bytes) : Prop :=
  forall y, below K x y ->
    (forall t k, lookup (nrows D y) t k = lookup (nrows U y) t k) /\
    (forall r, In (r, y) K -> forall t k, lookup (edge_rows D r y) t k = lookup (edge_rows U r y) t k).
Definition faithful (K : list (bytes * bytes)) (D U : store) (id : bytes) : Prop :=
  forall x q, below K id x -> In (q, x) K -> hash_at D q x = hash_at U q x -> sub_agree K D U x.

(* the subtree is a tree that both sides hold: one placement per node, the same children, children's
   subtrees disjoint, no child above its parent; rD, rU are the instance roots *)
Fixpoint shape (n : nat) (KD KU : list (bytes * bytes)) (rD rU p id : bytes) : Prop :=
  real id /\ id <> dev /\ id <> p /\ id <> rD /\ id <> rU /\
  once KD p id /\ once KU p id /\ (forall q, In (q, id) KD -> q = p) /\ (forall q, In (q, id) KU -> q = p) /\
  NoDup (kids KD id) /\ NoDup (kids KU id) /\ (forall c, In c (kids KD id) <-> In c (kids KU id)) /\
  (forall c, In c (kids KD id) -> ~ anc KD id c /\ ~ anc KU id c) /\
  (forall c c', In c (kids KD id) -> In c' (kids KD id) -> c <> c' ->
     forall x, (anc KD x c -> ~ anc KD x c') /\ (anc KU x c -> ~ anc KU x c')) /\
  (forall x, anc KD x id <-> anc KU x id) /\
  match n with
  | O => kids KD id = []
  | S n' => forall c, In c (kids KD id) -> shape n' KD KU rD rU id c
  end.

Lemma sub_agree_joined K D U id : sub_agree K D U id -> joined K D U D U id.
Proof.
  intros H x Hx. destruct (H x Hx) as [Hn He]. split.
  - intros t k. rewrite <- (Hn t k), join_idem. auto.
  - intros q Hq t k. rewrite <- (He q Hq t k), join_idem. auto.
Qed.

(* ---------- what a frame away from the subtree leaves alone ---------- *)
Definition same_below (K : list (bytes * bytes)) (D U D' U' : store) (id : bytes) : Prop :=
  forall x, below K id x ->
    nrows D' x = nrows D x /\ nrows U' x = nrows U x /\
    forall q, edge_rows D' q x = edge_rows D q x /\ edge_rows U' q x = edge_rows U q x /\
              hash_at D' q x = hash_at D q x /\ hash_at U' q x = hash_at U q x.

Lemma untouched (SD SU : bytes -> Prop) D U D' U' id :
  frame SD D D' -> frame SU U U' ->
  (forall s, SD s -> ~ below (links D) id s) -> (forall s, SU s -> ~ below (links U) id s) ->
  (forall x, anc (links D) x id <-> anc (links U) x id) ->
  same_below (links D) D U D' U' id.
Proof.
  intros FD FU HD HU Heq x Hx.
  assert (HxU : below (links U) id x) by (apply Heq; exact Hx).
  assert (ND : ~ SD x) by (intros H; apply (HD x H); exact Hx).
  assert (NU : ~ SU x) by (intros H; apply (HU x H); exact HxU).
  split; [apply (frame_node_rows _ _ _ _ FD ND)|]. split; [apply (frame_node_rows _ _ _ _ FU NU)|].
  intros q. split; [apply (frame_edge_rows _ _ _ _ _ FD ND)|]. split; [apply (frame_edge_rows _ _ _ _ _ FU NU)|].
  split.
  - apply (frame_hash_at _ _ _ _ _ FD). intros s Hs Ha. apply (HD s Hs). unfold below in *. eapply anc_trans; eassumption.
  - apply (frame_hash_at _ _ _ _ _ FU). intros s Hs Ha. apply (HU s Hs). unfold below in *. eapply anc_trans; eassumption.
Qed.

Lemma same_below_sub K D U D' U' id x : same_below K D U D' U' id -> below K id x -> same_below K D U D' U' x.
Proof. intros H Hx y Hy. apply H. unfold below in *. eapply anc_trans; eassumption. Qed.

Lemma data_transfer K D U D' U' id : same_below K D U D' U' id -> data K D U id -> data K D' U' id.
Proof.
  intros HS HD x Hx. destruct (HS x Hx) as (N1 & N2 & HE). destruct (HD x Hx) as [(A & B & C) HEd].
  split.
  - unfold node_data. rewrite N1, N2. auto.
  - intros q Hq. destruct (HE q) as (E1 & E2 & _). destruct (HEd q Hq) as (A' & B' & C').
    unfold edge_data. rewrite E1, E2. auto.
Qed.

Lemma faithful_transfer K D U D' U' id : same_below K D U D' U' id -> faithful K D U id -> faithful K D' U' id.
Proof.
  intros HS HF x q Hx Hq Hh. destruct (HS x Hx) as (_ & _ & HE). destruct (HE q) as (_ & _ & H1 & H2).
  rewrite H1, H2 in Hh. specialize (HF x q Hx Hq Hh).
  intros y Hy. destruct (HF y Hy) as [Hn He].
  assert (Hy' : below K id y) by (unfold below in *; eapply anc_trans; eassumption).
  destruct (HS y Hy') as (N1 & N2 & HEy). split.
  - intros t k. rewrite N1, N2. apply Hn.
  - intros r Hr t k. destruct (HEy r) as (E1 & E2 & _). rewrite E1, E2. apply He. exact Hr.
Qed.

Lemma joined_transfer K D U D0 U0 D' U' id :
  same_below K D0 U0 D U id -> joined K D U D' U' id -> joined K D0 U0 D' U' id.
Proof.
  intros HS HJ x Hx. destruct (HS x Hx) as (N1 & N2 & HE). destruct (HJ x Hx) as [Hn He]. split.
  - intros t k. rewrite <- N1, <- N2. apply Hn.
  - intros q Hq t k. destruct (HE q) as (E1 & E2 & _). rewrite <- E1, <- E2. apply He. exact Hq.
Qed.

(* a result that later frames leave alone *)
Lemma joined_keep K D U D1 U1 D2 U2 id :
  same_below K D1 U1 D2 U2 id -> joined K D U D1 U1 id -> joined K D U D2 U2 id.
Proof.
  intros HS HJ x Hx. destruct (HS x Hx) as (N1 & N2 & HE). destruct (HJ x Hx) as [Hn He]. split.
  - intros t k. rewrite N1, N2. apply Hn.
  - intros q Hq t k. destruct (HE q) as (E1 & E2 & _). rewrite E1, E2. apply He. exact Hq.
Qed.

(* ---------- syncNode, unfolded once ---------- *)
Definition child_step (f' : nat) (uroot : bytes) (upchildren : list edge) (pid : bytes) : store * store -> edge -> store * store :=
  fun '(D, U) c =>
    match filter (fun uc => bytes_eqb (e_down uc) (e_down c)) upchildren with
    | [] => (D, send_nodes_remote f' D U uroot c now)
    | ms => fold_left (fun '(D, U) uc => if (e_hash c =? e_hash uc)%N then (D, U)
                                         else sync_node false f' D U dev pid (e_down c) now) ms (D, U)
    end.
Definition local_step (f' : nat) (children : list edge) (src : list (bytes * list point)) : store -> edge -> store :=
  fun D uc => if existsb (fun c => bytes_eqb (e_down c) (e_down uc)) children then D else send_nodes_local f' D src uc now.
Definition kids_pass (f' : nat) (uroot : bytes) (D2 U2 : store) (nl nu : edge) : store * store :=
  let children := get_nodes D2 (e_down nl) str_all true in
  let upchildren := get_nodes U2 (e_down nu) str_all true in
  let '(D3, U3) := fold_left (child_step f' uroot upchildren (e_down nl)) children (D2, U2) in
  (fold_left (local_step f' children (s_nodes U2)) upchildren D3, U3).

Lemma sync_node_child f D U p id nl nu :
  p <> str_root -> get_nodes D p id true = [nl] -> get_nodes U p id true = [nu] -> bytes_eqb (e_down nl) dev = false ->
  sync_node false f D U dev p id now =
    if (e_hash nl =? e_hash nu)%N then (D, U) else
    let '(D1, U1) := apply_node_sends D U (e_down nl) (e_down nu)
                       (sync_points (node_rows (s_nodes D) (e_down nl)) (node_rows (s_nodes U) (e_down nu))) in
    let '(D2, U2) := apply_edge_sends D1 U1 (e_down nl) (e_up nl) (e_up nu) (sync_points (e_pts nl) (e_pts nu)) in
    match f with O => (D2, U2) | S f' => kids_pass f' (s_root U) D2 U2 nl nu end.
Proof.
  intros Hp HD HU Hdev.
  destruct f as [|f']; cbn [sync_node]; rewrite (bytes_neq_eqb p str_root Hp), HD, HU, Hdev;
    cbn [forallb orb andb]; rewrite !andb_false_r; reflexivity.
Qed.

(* ---------- accessors of [shape] ---------- *)
Record shape_top (KD KU : list (bytes * bytes)) (rD rU p id : bytes) : Prop := {
  sh_real : real id; sh_dev : id <> dev; sh_par : id <> p; sh_rD : id <> rD; sh_rU : id <> rU;
  sh_onceD : once KD p id; sh_onceU : once KU p id;
  sh_parD : forall q, In (q, id) KD -> q = p; sh_parU : forall q, In (q, id) KU -> q = p;
  sh_ndD : NoDup (kids KD id); sh_ndU : NoDup (kids KU id);
  sh_kids : forall c, In c (kids KD id) <-> In c (kids KU id);
  sh_up : forall c, In c (kids KD id) -> ~ anc KD id c /\ ~ anc KU id c;
  sh_disj : forall c c', In c (kids KD id) -> In c' (kids KD id) -> c <> c' ->
              forall x, (anc KD x c -> ~ anc KD x c') /\ (anc KU x c -> ~ anc KU x c');
  sh_eq : forall x, anc KD x id <-> anc KU x id }.

Lemma shape_top_of n KD KU rD rU p id : shape n KD KU rD rU p id -> shape_top KD KU rD rU p id.
Proof.
  intros H. destruct n; cbn [shape] in H;
    destruct H as (H1 & H2 & H3 & H4 & H5 & H6 & H7 & H8 & H9 & H10 & H11 & H12 & H13 & H14 & H15 & _);
    constructor; assumption.
Qed.

Lemma shape_kids n KD KU rD rU p id c : shape (S n) KD KU rD rU p id -> In c (kids KD id) -> shape n KD KU rD rU id c.
Proof.
  cbn [shape]. intros (_ & _ & _ & _ & _ & _ & _ & _ & _ & _ & _ & _ & _ & _ & _ & H) Hc. apply H. exact Hc.
Qed.

Lemma shape_leaf KD KU rD rU p id : shape 0 KD KU rD rU p id -> kids KD id = [].
Proof. cbn [shape]. intros (_ & _ & _ & _ & _ & _ & _ & _ & _ & _ & _ & _ & _ & _ & _ & H). exact H. Qed.

(* ---------- the specification of one call on a node other than the device ---------- *)
Definition child_spec (n : nat) : Prop := forall D U p id,
  good D -> good U -> real p ->
  shape n (links D) (links U) (s_root D) (s_root U) p id ->
  data (links D) D U id -> faithful (links D) D U id ->
  let DU := sync_node false n D U dev p id now in
  frame (below (links D) id) D (fst DU) /\ frame (below (links U) id) U (snd DU) /\
  good (fst DU) /\ good (snd DU) /\ joined (links D) D U (fst DU) (snd DU) id.

(* what the loop over the children needs to know about a child edge c (as listed before the loop) in the
   current pair of states *)
Definition kid_pre (n' : nat) (KD KU : list (bytes * bytes)) (rD rU id : bytes) (upchildren : list edge)
           (Dk Uk : store) (c : edge) : Prop :=
  In (e_down c) (kids KD id) /\ shape n' KD KU rD rU id (e_down c) /\
  data KD Dk Uk (e_down c) /\ faithful KD Dk Uk (e_down c) /\
  hash_at Dk id (e_down c) = Some (e_hash c) /\
  exists uc, filter (fun uc => bytes_eqb (e_down uc) (e_down c)) upchildren = [uc] /\ hash_at Uk id (e_down c) = Some (e_hash uc).

Lemma kid_pre_transfer n' KD KU rD rU id ups D U D' U' c (SD SU : bytes -> Prop) :
  links D = KD -> links U = KU ->
  frame SD D D' -> frame SU U U' ->
  (forall s, SD s -> ~ below KD (e_down c) s) -> (forall s, SU s -> ~ below KU (e_down c) s) ->
  kid_pre n' KD KU rD rU id ups D U c -> kid_pre n' KD KU rD rU id ups D' U' c /\ same_below KD D U D' U' (e_down c).
Proof.
  intros LD LU FD FU HD HU (K1 & K2 & K3 & K4 & K5 & uc & K6 & K7). subst KD KU.
  assert (HS : same_below (links D) D U D' U' (e_down c)).
  { apply (untouched SD SU); try assumption. apply (sh_eq _ _ _ _ _ _ (shape_top_of _ _ _ _ _ _ _ K2)). }
  split; [|exact HS]. split; [exact K1|]. split; [exact K2|].
  split; [eapply data_transfer; eassumption|]. split; [eapply faithful_transfer; eassumption|].
  destruct (HS (e_down c) (anc_refl _ _)) as (_ & _ & HE). destruct (HE id) as (_ & _ & H1 & H2).
  split; [rewrite H1; exact K5|]. exists uc. split; [exact K6|]. rewrite H2. exact K7.
Qed.

(* ---------- the loop over the children ---------- *)
Lemma kids_loop n' (IH : child_spec n') uroot id KD KU rD rU ups :
  real id ->
  (forall c c', In c (kids KD id) -> In c' (kids KD id) -> c <> c' ->
     forall x, (anc KD x c -> ~ anc KD x c') /\ (anc KU x c -> ~ anc KU x c')) ->
  forall cs Dk Uk,
  good Dk -> good Uk -> links Dk = KD -> links Uk = KU -> s_root Dk = rD -> s_root Uk = rU ->
  NoDup (map e_down cs) ->
  (forall c, In c cs -> kid_pre n' KD KU rD rU id ups Dk Uk c) ->
  let DU := fold_left (child_step n' uroot ups id) cs (Dk, Uk) in
  frame (fun x => exists c, In c cs /\ below KD (e_down c) x) Dk (fst DU) /\
  frame (fun x => exists c, In c cs /\ below KU (e_down c) x) Uk (snd DU) /\
  good (fst DU) /\ good (snd DU) /\
  forall c, In c cs -> joined KD Dk Uk (fst DU) (snd DU) (e_down c).
Proof.
  intros Hid Hdisj. induction cs as [|c rest IHcs]; intros Dk Uk GD GU LD LU RD RU ND Hpre; cbv zeta.
  - cbn [fold_left fst snd]. split; [apply frame_refl|]. split; [apply frame_refl|]. split; [exact GD|]. split; [exact GU|]. intros c [].
  - cbn [fold_left]. subst KD KU rD rU.
    destruct (Hpre c (or_introl eq_refl)) as (K1 & K2 & K3 & K4 & K5 & uc & K6 & K7).
    pose proof (shape_top_of _ _ _ _ _ _ _ K2) as T.
    cbn [map] in ND. inversion ND as [|? ? Hnotin ND']; subst.
    (* one step on c *)
    set (DU1 := child_step n' uroot ups id (Dk, Uk) c).
    assert (Step : frame (below (links Dk) (e_down c)) Dk (fst DU1) /\ frame (below (links Uk) (e_down c)) Uk (snd DU1) /\
                   good (fst DU1) /\ good (snd DU1) /\ joined (links Dk) Dk Uk (fst DU1) (snd DU1) (e_down c)).
    { unfold DU1, child_step. rewrite K6. cbn [fold_left].
      destruct (e_hash c =? e_hash uc)%N eqn:Eh.
      - cbn [fst snd]. split; [apply frame_refl|]. split; [apply frame_refl|]. split; [exact GD|]. split; [exact GU|].
        apply sub_agree_joined. apply N.eqb_eq in Eh.
        apply (K4 (e_down c) id (anc_refl _ _) (kids_link _ _ _ K1)). rewrite K5, K7, Eh. reflexivity.
      - apply IH; [exact GD|exact GU|exact Hid|exact K2|exact K3|exact K4]. }
    destruct Step as (F1 & F2 & G1 & G2 & J1).
    destruct DU1 as [D1 U1] eqn:EDU. cbn [fst snd] in *.
    pose proof (frame_links _ _ _ F1) as L1. pose proof (frame_links _ _ _ F2) as L2.
    assert (R1 : s_root D1 = s_root Dk) by (destruct F1 as [g F]; apply (fr_root _ _ _ _ F)).
    assert (R2 : s_root U1 = s_root Uk) by (destruct F2 as [g F]; apply (fr_root _ _ _ _ F)).
    (* the other children are untouched by it *)
    assert (Hrest : forall c', In c' rest -> kid_pre n' (links Dk) (links Uk) (s_root Dk) (s_root Uk) id ups D1 U1 c' /\
                                             same_below (links Dk) Dk Uk D1 U1 (e_down c')).
    { intros c' Hc'. destruct (Hpre c' (or_intror Hc')) as (K1' & Kr).
      assert (Hne : e_down c <> e_down c') by (intros E; apply Hnotin; rewrite E; apply in_map; exact Hc').
      apply (kid_pre_transfer n' _ _ _ _ id ups Dk Uk D1 U1 c' _ _ eq_refl eq_refl F1 F2).
      - intros s Hs Hs'. destruct (Hdisj _ _ K1 K1' Hne s) as [A _]. apply (A Hs Hs').
      - intros s Hs Hs'. destruct (Hdisj _ _ K1 K1' Hne s) as [_ B]. apply (B Hs Hs').
      - apply Hpre. right. exact Hc'. }
    destruct (IHcs D1 U1 G1 G2 (eq_trans L1 eq_refl) (eq_trans L2 eq_refl) R1 R2 ND' (fun c' Hc' => proj1 (Hrest c' Hc')))
      as (F3 & F4 & G3 & G4 & J3). cbv zeta in F3, F4, G3, G4, J3.
    set (DU := fold_left (child_step n' uroot ups id) rest (D1, U1)) in *.
    split; [|split; [|split; [exact G3|split; [exact G4|]]]].
    + eapply frame_trans.
      * eapply frame_weaken; [|exact F1]. intros x Hx. exists c. split; [left; reflexivity|exact Hx].
      * eapply frame_weaken; [|exact F3]. intros x (c' & Hc' & Hx). exists c'. split; [right; exact Hc'|exact Hx].
    + eapply frame_trans.
      * eapply frame_weaken; [|exact F2]. intros x Hx. exists c. split; [left; reflexivity|exact Hx].
      * eapply frame_weaken; [|exact F4]. intros x (c' & Hc' & Hx). exists c'. split; [right; exact Hc'|exact Hx].
    + intros c0 [<-|Hc0].
      * (* c itself: done in the step, left alone afterwards *)
        eapply joined_keep; [|exact J1].
        rewrite <- L1.
        apply (untouched _ _ D1 U1 (fst DU) (snd DU) (e_down c) F3 F4).
        -- intros s (c' & Hc' & Hs) Hs'. destruct (Hpre c' (or_intror Hc')) as (K1' & _).
           assert (Hne : e_down c' <> e_down c) by (intros E; apply Hnotin; rewrite <- E; apply in_map; exact Hc').
           rewrite L1 in Hs'. destruct (Hdisj _ _ K1' K1 Hne s) as [A _]. apply (A Hs Hs').
        -- intros s (c' & Hc' & Hs) Hs'. destruct (Hpre c' (or_intror Hc')) as (K1' & _).
           assert (Hne : e_down c' <> e_down c) by (intros E; apply Hnotin; rewrite <- E; apply in_map; exact Hc').
           rewrite L2 in Hs'. destruct (Hdisj _ _ K1' K1 Hne s) as [_ B]. apply (B Hs Hs').
        -- rewrite L1, L2. apply (sh_eq _ _ _ _ _ _ T).
      * (* a later child: joined from where the step left it, which is where it started *)
        eapply joined_transfer; [exact (proj2 (Hrest c0 Hc0))|]. apply J3. exact Hc0.
Qed.

(* ---------- small facts used by the main induction ---------- *)
Lemma data_sub K D U id c : below K id c -> data K D U id -> data K D U c.
Proof. intros Hc H x Hx. apply H. unfold below in *. eapply anc_trans; eassumption. Qed.

Lemma faithful_sub K D U id c : below K id c -> faithful K D U id -> faithful K D U c.
Proof. intros Hc H x q Hx. apply H. unfold below in *. eapply anc_trans; eassumption. Qed.

Lemma childs_kids st x : map e_down (childs (s_edges st) x) = kids (links st) x.
Proof.
  unfold childs, kids, links. rewrite filter_map_comm, map_map. cbn [fst snd]. reflexivity.
Qed.

Lemma filter_filter {A} (f g : A -> bool) l : filter f (filter g l) = filter (fun a => g a && f a) l.
Proof.
  induction l as [|a l IH]; cbn [filter]; [reflexivity|].
  destruct (g a); cbn [filter andb]; [destruct (f a)|]; rewrite IH; reflexivity.
Qed.

Lemma once_hash st p id e : once (links st) p id -> In e (s_edges st) -> e_up e = p -> e_down e = id ->
  find_edge (s_edges st) p id = Some e.
Proof.
  intros Ho He Hu Hd. destruct (once_edge st p id Ho) as (e0 & Hf & _ & _ & Hfind & _).
  assert (Hin : In e (filter (fun e => bytes_eqb (e_up e) p && bytes_eqb (e_down e) id) (s_edges st))).
  { apply filter_In. split; [exact He|]. rewrite Hu, Hd, !bytes_eqb_refl. reflexivity. }
  rewrite Hf in Hin. destruct Hin as [<-|[]]. exact Hfind.
Qed.

Lemma local_loop_id f' children src : forall ups D,
  (forall uc, In uc ups -> In (e_down uc) (map e_down children)) ->
  fold_left (local_step f' children src) ups D = D.
Proof.
  induction ups as [|uc ups IH]; intros D H; cbn [fold_left]; [reflexivity|].
  unfold local_step at 2.
  assert (E : existsb (fun c => bytes_eqb (e_down c) (e_down uc)) children = true).
  { apply existsb_exists. specialize (H uc (or_introl eq_refl)). apply in_map_iff in H. destruct H as (c & Hc & Hin).
    exists c. split; [exact Hin|]. rewrite Hc. apply bytes_eqb_refl. }
  rewrite E. apply IH. intros u Hu. apply H. right. exact Hu.
Qed.

Lemma real_ne_nil x : real x -> x <> [].
Proof. intros (_ & _ & _ & H). exact H. Qed.
Lemma real_ne_none x : real x -> x <> str_none.
Proof. intros (_ & _ & H & _). exact H. Qed.

(* ---------- one call of syncNode on a node below the device ---------- *)
(* the two exchanges on the node itself *)
Lemma own_exchange D U p id nl nu :
  good D -> good U -> real p -> real id -> id <> p -> id <> s_root D -> id <> s_root U ->
  find_edge (s_edges D) p id = Some nl -> find_edge (s_edges U) p id = Some nu ->
  node_data D U id -> edge_data D U p id ->
  let DU1 := apply_node_sends D U id id (sync_points (node_rows (s_nodes D) id) (node_rows (s_nodes U) id)) in
  let DU2 := apply_edge_sends (fst DU1) (snd DU1) id p p (sync_points (e_pts nl) (e_pts nu)) in
  frame (fun y => y = id) D (fst DU2) /\ frame (fun y => y = id) U (snd DU2) /\ good (fst DU2) /\ good (snd DU2) /\
  njoined D U (fst DU2) (snd DU2) id /\ ejoined D U (fst DU2) (snd DU2) p id.
Proof.
  intros GD GU Hp Hid Hne HrD HrU FD FU (ND & NU & TN) (SD & SU & TE). cbv zeta.
  set (DU1 := apply_node_sends D U id id (sync_points (node_rows (s_nodes D) id) (node_rows (s_nodes U) id))).
  destruct (apply_node_sends_frame (sync_points (node_rows (s_nodes D) id) (node_rows (s_nodes U) id)) D U id GD GU)
    as (F1 & F2 & G1 & G2 & R1 & R2). fold DU1 in F1, F2, G1, G2, R1, R2.
  assert (ED : e_pts nl = edge_rows (fst DU1) p id) by (rewrite R1; unfold edge_rows; rewrite FD; reflexivity).
  assert (EU : e_pts nu = edge_rows (snd DU1) p id) by (rewrite R2; unfold edge_rows; rewrite FU; reflexivity).
  rewrite ED, EU.
  destruct (frame_find_edge _ _ _ _ _ _ F1 FD) as (nl1 & FD1 & _).
  destruct (frame_find_edge _ _ _ _ _ _ F2 FU) as (nu1 & FU1 & _).
  assert (RD1 : s_root (fst DU1) = s_root D) by (destruct F1 as [g F]; apply (fr_root _ _ _ _ F)).
  assert (RU1 : s_root (snd DU1) = s_root U) by (destruct F2 as [g F]; apply (fr_root _ _ _ _ F)).
  assert (SO1 : side_ok (fst DU1) p id).
  { destruct G1 as [(W & I & E) _]. constructor; try assumption; [eauto|rewrite RD1; exact HrD]. }
  assert (SO2 : side_ok (snd DU1) p id).
  { destruct G2 as [(W & I & E) _]. constructor; try assumption; [eauto|rewrite RU1; exact HrU]. }
  pose proof (real_ne_nil p Hp) as Hpn. pose proof (real_ne_none id Hid) as Hin.
  set (sends := sync_points (edge_rows (fst DU1) p id) (edge_rows (snd DU1) p id)).
  destruct (apply_edge_sends_frame sends (fst DU1) (snd DU1) id p p G1 G2 Hpn Hpn Hin (ex_intro _ nl1 FD1) (ex_intro _ nu1 FU1))
    as (F3 & F4 & G3 & G4).
  set (DU2 := apply_edge_sends (fst DU1) (snd DU1) id p p sends) in *.
  split; [eapply frame_trans; eassumption|]. split; [eapply frame_trans; eassumption|]. split; [exact G3|]. split; [exact G4|].
  assert (SD1 : rows_sendable (edge_rows (fst DU1) p id)) by (rewrite R1; exact SD).
  assert (SU1 : rows_sendable (edge_rows (snd DU1) p id)) by (rewrite R2; exact SU).
  assert (TE1 : forall t k a b, lookup (edge_rows (fst DU1) p id) t k = Some a -> lookup (edge_rows (snd DU1) p id) t k = Some b ->
                                p_time a = p_time b -> a = b) by (rewrite R1, R2; exact TE).
  split.
  - (* node rows of id: joined by the first exchange, kept by the second *)
    intros t k.
    destruct (node_exchange_store D U id t k (proj2 GD) (proj2 GU) ND NU TN) as (A & B & _). cbv zeta in A, B. fold DU1 in A, B.
    destruct (edge_exchange_store (fst DU1) (snd DU1) id p p t k SO1 SO2 Hpn Hpn Hin Hne Hne SD1 SU1 TE1) as (_ & _ & _ & _ & N1 & N2).
    cbv zeta in N1, N2. fold sends in N1, N2. fold DU2 in N1, N2.
    unfold nrows. rewrite N1, N2. split; assumption.
  - intros t k.
    destruct (edge_exchange_store (fst DU1) (snd DU1) id p p t k SO1 SO2 Hpn Hpn Hin Hne Hne SD1 SU1 TE1) as (A & B & _).
    cbv zeta in A, B. fold sends in A, B. fold DU2 in A, B. rewrite R1, R2 in A, B. split; assumption.
Qed.

Lemma pair_eta {A B} (x : A * B) : x = (fst x, snd x).
Proof. destruct x; reflexivity. Qed.

Theorem child_spec_holds : forall n, child_spec n.
Proof.
  induction n as [|n' IH]; intros D U p id GD GU Hp Hsh HD HF; cbv zeta.
  - (* a leaf *)
    pose proof (shape_top_of _ _ _ _ _ _ _ Hsh) as T. pose proof (shape_leaf _ _ _ _ _ _ Hsh) as Hleaf.
    destruct (once_edge D p id (sh_onceD _ _ _ _ _ _ T)) as (nl & FlD & UlD & DlD & FD & InD).
    destruct (once_edge U p id (sh_onceU _ _ _ _ _ _ T)) as (nu & FlU & UlU & DlU & FU & InU).
    assert (GnD : get_nodes D p id true = [nl]) by (rewrite get_nodes_pair; [exact FlD|exact Hp|apply T]).
    assert (GnU : get_nodes U p id true = [nu]) by (rewrite get_nodes_pair; [exact FlU|exact Hp|apply T]).
    assert (Hnd : bytes_eqb (e_down nl) dev = false) by (rewrite DlD; apply bytes_neq_eqb; apply T).
    rewrite (sync_node_child 0 D U p id nl nu (proj1 Hp) GnD GnU Hnd).
    destruct (e_hash nl =? e_hash nu)%N eqn:Eh.
    + cbn [fst snd]. split; [apply frame_refl|]. split; [apply frame_refl|]. split; [exact GD|]. split; [exact GU|].
      apply sub_agree_joined. apply N.eqb_eq in Eh.
      assert (Hlink : In (p, id) (links D)) by (rewrite <- UlD, <- DlD; apply in_links; exact InD).
      apply (HF id p (anc_refl _ _) Hlink). unfold hash_at. rewrite FD, FU. cbn [option_map]. rewrite Eh. reflexivity.
    + rewrite DlD, DlU, UlD, UlU.
      destruct (HD id (anc_refl _ _)) as [Nd Ed].
      assert (Hlink : In (p, id) (links D)) by (rewrite <- UlD, <- DlD; apply in_links; exact InD).
      destruct (own_exchange D U p id nl nu GD GU Hp (sh_real _ _ _ _ _ _ T) (sh_par _ _ _ _ _ _ T) (sh_rD _ _ _ _ _ _ T) (sh_rU _ _ _ _ _ _ T)
                  FD FU Nd (Ed p Hlink)) as (F1 & F2 & G1 & G2 & J1 & J2). cbv zeta in F1, F2, G1, G2, J1, J2.
      rewrite (pair_eta (apply_node_sends D U id id _)).
      rewrite (pair_eta (apply_edge_sends _ _ id p p _)).
      split; [eapply frame_weaken; [|exact F1]; intros x ->; constructor|].
      split; [eapply frame_weaken; [|exact F2]; intros x ->; constructor|].
      split; [exact G1|]. split; [exact G2|].
      intros x Hx. destruct (below_inv _ _ _ Hx) as [->|(c & Hc & _)]; [|rewrite Hleaf in Hc; destruct Hc].
      split; [exact J1|]. intros q Hq. rewrite (sh_parD _ _ _ _ _ _ T q Hq). exact J2.
  - (* a node with children *)
    pose proof (shape_top_of _ _ _ _ _ _ _ Hsh) as T.
    destruct (once_edge D p id (sh_onceD _ _ _ _ _ _ T)) as (nl & FlD & UlD & DlD & FD & InD).
    destruct (once_edge U p id (sh_onceU _ _ _ _ _ _ T)) as (nu & FlU & UlU & DlU & FU & InU).
    assert (GnD : get_nodes D p id true = [nl]) by (rewrite get_nodes_pair; [exact FlD|exact Hp|apply T]).
    assert (GnU : get_nodes U p id true = [nu]) by (rewrite get_nodes_pair; [exact FlU|exact Hp|apply T]).
    assert (Hnd : bytes_eqb (e_down nl) dev = false) by (rewrite DlD; apply bytes_neq_eqb; apply T).
    assert (Hlink : In (p, id) (links D)) by (rewrite <- UlD, <- DlD; apply in_links; exact InD).
    rewrite (sync_node_child (S n') D U p id nl nu (proj1 Hp) GnD GnU Hnd).
    destruct (e_hash nl =? e_hash nu)%N eqn:Eh.
    + cbn [fst snd]. split; [apply frame_refl|]. split; [apply frame_refl|]. split; [exact GD|]. split; [exact GU|].
      apply sub_agree_joined. apply N.eqb_eq in Eh.
      apply (HF id p (anc_refl _ _) Hlink). unfold hash_at. rewrite FD, FU. cbn [option_map]. rewrite Eh. reflexivity.
    + rewrite DlD, DlU, UlD, UlU.
      destruct (HD id (anc_refl _ _)) as [Nd Ed].
      destruct (own_exchange D U p id nl nu GD GU Hp (sh_real _ _ _ _ _ _ T) (sh_par _ _ _ _ _ _ T) (sh_rD _ _ _ _ _ _ T) (sh_rU _ _ _ _ _ _ T)
                  FD FU Nd (Ed p Hlink)) as (F1 & F2 & G1 & G2 & J1 & J2). cbv zeta in F1, F2, G1, G2, J1, J2.
      rewrite (pair_eta (apply_node_sends D U id id _)).
      rewrite (pair_eta (apply_edge_sends _ _ id p p _)).
      set (D2 := fst (apply_edge_sends _ _ id p p _)) in *. set (U2 := snd (apply_edge_sends _ _ id p p _)) in *.
      pose proof (frame_links _ _ _ F1) as L1. pose proof (frame_links _ _ _ F2) as L2.
      assert (R1 : s_root D2 = s_root D) by (destruct F1 as [g F]; apply (fr_root _ _ _ _ F)).
      assert (R2 : s_root U2 = s_root U) by (destruct F2 as [g F]; apply (fr_root _ _ _ _ F)).
      unfold kids_pass. rewrite DlD, DlU.
      rewrite (get_nodes_kids D2 id (sh_real _ _ _ _ _ _ T)), (get_nodes_kids U2 id (sh_real _ _ _ _ _ _ T)).
      set (children := childs (s_edges D2) id). set (ups := childs (s_edges U2) id).
      (* every listed child is ready *)
      assert (Hkid : forall c, In c children -> kid_pre n' (links D) (links U) (s_root D) (s_root U) id ups D2 U2 c /\
                                               same_below (links D) D U D2 U2 (e_down c)).
      { intros c Hc. unfold children, childs in Hc. apply filter_In in Hc. destruct Hc as [HcG Hcu]. apply bytes_eqb_eq in Hcu.
        assert (Hk : In (e_down c) (kids (links D) id)).
        { rewrite <- L1, <- childs_kids. apply in_map. unfold childs. apply filter_In. split; [exact HcG|]. rewrite Hcu. apply bytes_eqb_refl. }
        pose proof (shape_kids _ _ _ _ _ _ _ _ Hsh Hk) as Shc. pose proof (shape_top_of _ _ _ _ _ _ _ Shc) as Tc.
        assert (Hbelow : below (links D) id (e_down c)) by (apply (below_kid _ _ _ _ Hk); constructor).
        assert (HS : same_below (links D) D U D2 U2 (e_down c)).
        { apply (untouched _ _ D U D2 U2 (e_down c) F1 F2).
          - intros s -> Hs. destruct (sh_up _ _ _ _ _ _ T _ Hk) as [A _]. apply A. exact Hs.
          - intros s -> Hs. destruct (sh_up _ _ _ _ _ _ T _ Hk) as [_ B]. apply B. exact Hs.
          - apply (sh_eq _ _ _ _ _ _ Tc). }
        split; [|exact HS]. split; [exact Hk|]. split; [exact Shc|].
        split; [eapply data_transfer; [exact HS|eapply data_sub; eassumption]|].
        split; [eapply faithful_transfer; [exact HS|eapply faithful_sub; eassumption]|].
        split.
        - unfold hash_at. rewrite (once_hash D2 id (e_down c) c); [reflexivity| |exact HcG|exact Hcu|reflexivity].
          rewrite L1. apply (sh_onceD _ _ _ _ _ _ Tc).
        - assert (OU : once (links U2) id (e_down c)) by (rewrite L2; apply (sh_onceU _ _ _ _ _ _ Tc)).
          destruct (once_edge U2 id (e_down c) OU) as (uc & Fu & _ & _ & Ffu & _).
          exists uc. split.
          + unfold ups, childs. rewrite filter_filter. exact Fu.
          + unfold hash_at. rewrite Ffu. reflexivity. }
      assert (NDc : NoDup (map e_down children)).
      { unfold children. rewrite childs_kids, L1. apply (sh_ndD _ _ _ _ _ _ T). }
      destruct (kids_loop n' IH (s_root U) id (links D) (links U) (s_root D) (s_root U) ups (sh_real _ _ _ _ _ _ T) (sh_disj _ _ _ _ _ _ T)
                  children D2 U2 G1 G2 L1 L2 R1 R2 NDc (fun c Hc => proj1 (Hkid c Hc))) as (F3 & F4 & G3 & G4 & J3).
      cbv zeta in F3, F4, G3, G4, J3.
      rewrite (pair_eta (fold_left (child_step n' (s_root U) ups id) children (D2, U2))).
      set (D3 := fst (fold_left (child_step n' (s_root U) ups id) children (D2, U2))) in *.
      set (U3 := snd (fold_left (child_step n' (s_root U) ups id) children (D2, U2))) in *.
      (* nothing to send down *)
      rewrite local_loop_id.
      2:{ intros uc Huc. unfold ups in Huc. unfold children. rewrite childs_kids, L1.
          apply (sh_kids _ _ _ _ _ _ T). rewrite <- L2, <- childs_kids. apply in_map. exact Huc. }
      cbn [fst snd].
      assert (Hin_kid : forall x c, In c children -> below (links D) (e_down c) x -> below (links D) id x).
      { intros x c Hc Hx. apply (below_kid _ _ (e_down c)); [|exact Hx]. apply (proj1 (Hkid c Hc)). }
      assert (Hin_kidU : forall x c, In c children -> below (links U) (e_down c) x -> below (links U) id x).
      { intros x c Hc Hx. apply (below_kid _ _ (e_down c)); [|exact Hx]. apply (sh_kids _ _ _ _ _ _ T). apply (proj1 (Hkid c Hc)). }
      split; [|split; [|split; [exact G3|split; [exact G4|]]]].
      * eapply frame_trans.
        -- eapply frame_weaken; [|exact F1]. intros x ->. constructor.
        -- rewrite <- L1. eapply frame_weaken; [|exact F3]. intros x (c & Hc & Hx). rewrite L1. eapply Hin_kid; eassumption.
      * eapply frame_trans.
        -- eapply frame_weaken; [|exact F2]. intros x ->. constructor.
        -- rewrite <- L2. eapply frame_weaken; [|exact F4]. intros x (c & Hc & Hx). rewrite L2. eapply Hin_kidU; eassumption.
      * intros x Hx. destruct (below_inv _ _ _ Hx) as [->|(dc & Hdc & Hxc)].
        -- (* the node itself: exchanged before the loop, which leaves it alone *)
           assert (NotD : ~ (exists c, In c children /\ below (links D) (e_down c) id)).
           { intros (c & Hc & Hb). destruct (sh_up _ _ _ _ _ _ T _ (proj1 (proj1 (Hkid c Hc)))) as [A _]. apply A. exact Hb. }
           assert (NotU : ~ (exists c, In c children /\ below (links U) (e_down c) id)).
           { intros (c & Hc & Hb). destruct (sh_up _ _ _ _ _ _ T _ (proj1 (proj1 (Hkid c Hc)))) as [_ B]. apply B. exact Hb. }
           split.
           ++ intros t k. unfold nrows. rewrite (frame_node_rows _ _ _ _ F3 NotD), (frame_node_rows _ _ _ _ F4 NotU). apply J1.
           ++ intros q Hq. rewrite (sh_parD _ _ _ _ _ _ T q Hq). intros t k.
              rewrite (frame_edge_rows _ _ _ _ _ F3 NotD), (frame_edge_rows _ _ _ _ _ F4 NotU). apply J2.
        -- (* below a child: the loop's result, counted from where the exchanges on the node left it *)
           assert (Hc : exists c, In c children /\ e_down c = dc).
           { rewrite <- L1, <- childs_kids in Hdc. apply in_map_iff in Hdc. destruct Hdc as (c & E & Hc). eauto. }
           destruct Hc as (c & Hc & <-).
           apply (joined_transfer _ D2 U2 D U D3 U3 (e_down c) (proj2 (Hkid c Hc)) (J3 c Hc)). exact Hxc.
Qed.

(* ---------- the children phase, for any node whose own exchanges are done ---------- *)
Record kids_ok (KD KU : list (bytes * bytes)) (id : bytes) : Prop := {
  ko_ndD : NoDup (kids KD id); ko_ndU : NoDup (kids KU id);
  ko_kids : forall c, In c (kids KD id) <-> In c (kids KU id);
  ko_up : forall c, In c (kids KD id) -> ~ anc KD id c /\ ~ anc KU id c;
  ko_disj : forall c c', In c (kids KD id) -> In c' (kids KD id) -> c <> c' ->
              forall x, (anc KD x c -> ~ anc KD x c') /\ (anc KU x c -> ~ anc KU x c') }.

Lemma kids_phase n' D U D2 U2 id uroot :
  good D2 -> good U2 -> real id ->
  frame (fun y => y = id) D D2 -> frame (fun y => y = id) U U2 ->
  kids_ok (links D) (links U) id ->
  (forall c, In c (kids (links D) id) -> shape n' (links D) (links U) (s_root D) (s_root U) id c /\
                                         data (links D) D U c /\ faithful (links D) D U c) ->
  let children := childs (s_edges D2) id in
  let ups := childs (s_edges U2) id in
  let DU3 := fold_left (child_step n' uroot ups id) children (D2, U2) in
  fold_left (local_step n' children (s_nodes U2)) ups (fst DU3) = fst DU3 /\
  frame (fun x => exists c, In c (kids (links D) id) /\ below (links D) c x) D2 (fst DU3) /\
  frame (fun x => exists c, In c (kids (links U) id) /\ below (links U) c x) U2 (snd DU3) /\
  good (fst DU3) /\ good (snd DU3) /\
  forall c, In c (kids (links D) id) -> joined (links D) D U (fst DU3) (snd DU3) c.
Proof.
  intros G1 G2 Hid F1 F2 KO Hkids. cbv zeta.
  pose proof (frame_links _ _ _ F1) as L1. pose proof (frame_links _ _ _ F2) as L2.
  assert (R1 : s_root D2 = s_root D) by (destruct F1 as [g F]; apply (fr_root _ _ _ _ F)).
  assert (R2 : s_root U2 = s_root U) by (destruct F2 as [g F]; apply (fr_root _ _ _ _ F)).
  set (children := childs (s_edges D2) id). set (ups := childs (s_edges U2) id).
  assert (Hkid : forall c, In c children -> kid_pre n' (links D) (links U) (s_root D) (s_root U) id ups D2 U2 c /\
                                           same_below (links D) D U D2 U2 (e_down c)).
  { intros c Hc. unfold children, childs in Hc. apply filter_In in Hc. destruct Hc as [HcG Hcu]. apply bytes_eqb_eq in Hcu.
    assert (Hk : In (e_down c) (kids (links D) id)).
    { rewrite <- L1, <- childs_kids. apply in_map. unfold childs. apply filter_In. split; [exact HcG|]. rewrite Hcu. apply bytes_eqb_refl. }
    destruct (Hkids _ Hk) as (Shc & Dc & Fc). pose proof (shape_top_of _ _ _ _ _ _ _ Shc) as Tc.
    assert (HS : same_below (links D) D U D2 U2 (e_down c)).
    { apply (untouched _ _ D U D2 U2 (e_down c) F1 F2).
      - intros s -> Hs. destruct (ko_up _ _ _ KO _ Hk) as [A _]. apply A. exact Hs.
      - intros s -> Hs. destruct (ko_up _ _ _ KO _ Hk) as [_ B]. apply B. exact Hs.
      - apply (sh_eq _ _ _ _ _ _ Tc). }
    split; [|exact HS]. split; [exact Hk|]. split; [exact Shc|].
    split; [eapply data_transfer; eassumption|]. split; [eapply faithful_transfer; eassumption|].
    split.
    - unfold hash_at. rewrite (once_hash D2 id (e_down c) c); [reflexivity| |exact HcG|exact Hcu|reflexivity].
      rewrite L1. apply (sh_onceD _ _ _ _ _ _ Tc).
    - assert (OU : once (links U2) id (e_down c)) by (rewrite L2; apply (sh_onceU _ _ _ _ _ _ Tc)).
      destruct (once_edge U2 id (e_down c) OU) as (uc & Fu & _ & _ & Ffu & _).
      exists uc. split.
      + unfold ups, childs. rewrite filter_filter. exact Fu.
      + unfold hash_at. rewrite Ffu. reflexivity. }
  assert (NDc : NoDup (map e_down children)).
  { unfold children. rewrite childs_kids, L1. apply (ko_ndD _ _ _ KO). }
  destruct (kids_loop n' (child_spec_holds n') uroot id (links D) (links U) (s_root D) (s_root U) ups Hid (ko_disj _ _ _ KO)
              children D2 U2 G1 G2 L1 L2 R1 R2 NDc (fun c Hc => proj1 (Hkid c Hc))) as (F3 & F4 & G3 & G4 & J3).
  cbv zeta in F3, F4, G3, G4, J3.
  set (DU3 := fold_left (child_step n' uroot ups id) children (D2, U2)) in *.
  split.
  { apply local_loop_id. intros uc Huc. unfold ups in Huc. unfold children. rewrite childs_kids, L1.
    apply (ko_kids _ _ _ KO). rewrite <- L2, <- childs_kids. apply in_map. exact Huc. }
  assert (Hkc : forall c, In c children -> In (e_down c) (kids (links D) id)) by (intros c Hc; apply (proj1 (Hkid c Hc))).
  split; [|split; [|split; [exact G3|split; [exact G4|]]]].
  - eapply frame_weaken; [|exact F3]. intros x (c & Hc & Hx). exists (e_down c). split; [apply Hkc; exact Hc|exact Hx].
  - eapply frame_weaken; [|exact F4]. intros x (c & Hc & Hx). exists (e_down c).
    split; [apply (ko_kids _ _ _ KO); apply Hkc; exact Hc|exact Hx].
  - intros dc Hdc.
    assert (Hc : exists c, In c children /\ e_down c = dc).
    { rewrite <- L1, <- childs_kids in Hdc. apply in_map_iff in Hdc. destruct Hdc as (c & E & Hc). eauto. }
    destruct Hc as (c & Hc & <-).
    apply (joined_transfer _ D2 U2 D U _ _ (e_down c) (proj2 (Hkid c Hc)) (J3 c Hc)).
Qed.

(* ---------- the call on the device itself ---------- *)
Lemma sync_node_top f D U nl nu :
  get_nodes D str_all dev true = [nl] -> get_nodes U str_all dev true = [nu] ->
  bytes_eqb (e_down nl) dev = true -> edge_deleted nu = false ->
  sync_node false f D U dev str_root dev now =
    if (N.lxor (e_hash nl) (xor_epts nl) =? N.lxor (e_hash nu) (xor_epts nu))%N then (D, U) else
    let '(D1, U1) := apply_node_sends D U (e_down nl) (e_down nu)
                       (sync_points (node_rows (s_nodes D) (e_down nl)) (node_rows (s_nodes U) (e_down nu))) in
    match f with O => (D1, U1) | S f' => kids_pass f' (s_root U) D1 U1 nl nu end.
Proof.
  intros HD HU Hdev Hdel.
  destruct f as [|f']; cbn [sync_node]; change (bytes_eqb str_root str_root) with true; cbn iota; rewrite HD, HU, Hdev;
    cbn [forallb orb andb]; rewrite Hdel; cbn [andb];
    destruct (N.lxor (e_hash nl) (xor_epts nl) =? N.lxor (e_hash nu) (xor_epts nu))%N; try reflexivity;
    destruct (apply_node_sends D U (e_down nl) (e_down nu) _); reflexivity.
Qed.

(* the hashes syncNode compares for the device: its edge points taken out *)
Definition top_hash_of (e : edge) : N := N.lxor (e_hash e) (xor_epts e).

Theorem sync_converges n D U nl nu :
  good D -> good U -> real dev ->
  (* one placement of the device on each side, the upstream one not deleted *)
  parents (s_edges D) dev = [nl] -> parents (s_edges U) dev = [nu] -> edge_deleted nu = false ->
  (* below it both sides hold the same tree *)
  kids_ok (links D) (links U) dev ->
  (forall c, In c (kids (links D) dev) -> shape n (links D) (links U) (s_root D) (s_root U) dev c) ->
  (* timestamps identify points, values are numbers *)
  node_data D U dev -> (forall c, In c (kids (links D) dev) -> data (links D) D U c) ->
  (* hashes are faithful: equal only over equal content *)
  (top_hash_of nl = top_hash_of nu ->
     (forall t k, lookup (nrows D dev) t k = lookup (nrows U dev) t k) /\
     forall c, In c (kids (links D) dev) -> sub_agree (links D) D U c) ->
  (forall c, In c (kids (links D) dev) -> faithful (links D) D U c) ->
  let DU := sync_node false (S n) D U dev str_root dev now in
  (* every node of the device tree, and every edge inside it, ends on both sides with the newer point per
     identity of the two it had; nothing outside the device tree is touched *)
  njoined D U (fst DU) (snd DU) dev /\
  (forall c, In c (kids (links D) dev) -> joined (links D) D U (fst DU) (snd DU) c) /\
  frame (below (links D) dev) D (fst DU) /\ frame (below (links U) dev) U (snd DU) /\
  good (fst DU) /\ good (snd DU).
Proof.
  intros GD GU Hdev PD PU Hdel KO Hsh Nd Dk Ftop Fk. cbv zeta.
  assert (GnD : get_nodes D str_all dev true = [nl]) by (rewrite get_nodes_into; exact PD).
  assert (GnU : get_nodes U str_all dev true = [nu]) by (rewrite get_nodes_into; exact PU).
  assert (DlD : e_down nl = dev).
  { assert (H : In nl (parents (s_edges D) dev)) by (rewrite PD; left; reflexivity).
    unfold parents in H. apply filter_In in H. destruct H as [_ H]. apply bytes_eqb_eq. exact H. }
  assert (DlU : e_down nu = dev).
  { assert (H : In nu (parents (s_edges U) dev)) by (rewrite PU; left; reflexivity).
    unfold parents in H. apply filter_In in H. destruct H as [_ H]. apply bytes_eqb_eq. exact H. }
  assert (Hnd : bytes_eqb (e_down nl) dev = true) by (rewrite DlD; apply bytes_eqb_refl).
  rewrite (sync_node_top (S n) D U nl nu GnD GnU Hnd Hdel).
  fold (top_hash_of nl). fold (top_hash_of nu).
  destruct (top_hash_of nl =? top_hash_of nu)%N eqn:Eh.
  - (* equal hashes: nothing is done, and by faithfulness nothing had to be *)
    apply N.eqb_eq in Eh. destruct (Ftop Eh) as [An Ak]. cbn [fst snd].
    split; [intros t k; rewrite <- (An t k), join_idem; auto|].
    split; [intros c Hc; apply sub_agree_joined; apply Ak; exact Hc|].
    split; [apply frame_refl|]. split; [apply frame_refl|]. split; assumption.
  - rewrite DlD, DlU.
    destruct Nd as (ND & NU & TN).
    destruct (apply_node_sends_frame (sync_points (node_rows (s_nodes D) dev) (node_rows (s_nodes U) dev)) D U dev GD GU)
      as (F1 & F2 & G1 & G2 & R1 & R2). cbv zeta in F1, F2, G1, G2, R1, R2.
    rewrite (pair_eta (apply_node_sends D U dev dev _)).
    set (D1 := fst (apply_node_sends D U dev dev _)) in *. set (U1 := snd (apply_node_sends D U dev dev _)) in *.
    unfold kids_pass. rewrite DlD, DlU.
    rewrite (get_nodes_kids D1 dev Hdev), (get_nodes_kids U1 dev Hdev).
    destruct (kids_phase n D U D1 U1 dev (s_root U) G1 G2 Hdev F1 F2 KO
                (fun c Hc => conj (Hsh c Hc) (conj (Dk c Hc) (Fk c Hc)))) as (Hloc & F3 & F4 & G3 & G4 & J3).
    cbv zeta in Hloc, F3, F4, G3, G4, J3.
    rewrite (pair_eta (fold_left (child_step n (s_root U) (childs (s_edges U1) dev) dev) (childs (s_edges D1) dev) (D1, U1))).
    rewrite Hloc. cbn [fst snd].
    set (DU3 := fold_left (child_step n (s_root U) (childs (s_edges U1) dev) dev) (childs (s_edges D1) dev) (D1, U1)) in *.
    assert (NotD : ~ (exists c, In c (kids (links D) dev) /\ below (links D) c dev)).
    { intros (c & Hc & Hb). destruct (ko_up _ _ _ KO _ Hc) as [A _]. apply A. exact Hb. }
    assert (NotU : ~ (exists c, In c (kids (links U) dev) /\ below (links U) c dev)).
    { intros (c & Hc & Hb). destruct (ko_up _ _ _ KO _ (proj2 (ko_kids _ _ _ KO c) Hc)) as [_ B]. apply B. exact Hb. }
    split.
    { intros t k. unfold nrows. rewrite (frame_node_rows _ _ _ _ F3 NotD), (frame_node_rows _ _ _ _ F4 NotU).
      destruct (node_exchange_store D U dev t k (proj2 GD) (proj2 GU) ND NU TN) as (A & B & _). cbv zeta in A, B.
      split; assumption. }
    split; [exact J3|].
    pose proof (frame_links _ _ _ F1) as L1. pose proof (frame_links _ _ _ F2) as L2.
    split; [|split; [|split; assumption]].
    + eapply frame_trans.
      * eapply frame_weaken; [|exact F1]. intros x ->. constructor.
      * rewrite <- L1. eapply frame_weaken; [|exact F3]. intros x (c & Hc & Hx). rewrite L1. apply (below_kid _ _ c); assumption.
    + eapply frame_trans.
      * eapply frame_weaken; [|exact F2]. intros x ->. constructor.
      * rewrite <- L2. eapply frame_weaken; [|exact F4]. intros x (c & Hc & Hx). rewrite L2. apply (below_kid _ _ c); assumption.
Qed.
End Conv.

(* ---------- deciding [anc] on a concrete graph: a list closed under children contains every descendant ---------- *)
Definition memb (x : bytes) (l : list bytes) : bool := existsb (bytes_eqb x) l.
Lemma memb_in x l : memb x l = true -> In x l.
Proof. unfold memb. rewrite existsb_exists. intros (y & Hy & E). apply bytes_eqb_eq in E. subst. exact Hy. Qed.

Lemma anc_in K L id : In id L -> forallb (fun y => forallb (fun c => memb c L) (kids K y)) L = true ->
  forall x, anc K x id -> In x L.
Proof.
  intros Hid Hcl x H. revert Hid. induction H as [|y z Hy IH Hin]; intros Htop; [exact Htop|].
  apply IH. rewrite forallb_forall in Hcl. specialize (Hcl z Htop). rewrite forallb_forall in Hcl.
  apply memb_in. apply Hcl. unfold kids. apply in_map_iff. exists (z, y). split; [reflexivity|].
  apply filter_In. split; [exact Hin|]. cbn [fst]. apply bytes_eqb_refl.
Qed.
