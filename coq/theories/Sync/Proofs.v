(* C02: the point exchange of syncNode (the two comparison loops) leaves both sides with the
   identity-wise newest point of either side. *)
From Verif Require Import Base.Bytes Store.GraphCount Store.GraphWalk Store.Model Store.Check Store.ProofsRows Store.ProofsHash Store.ProofsTop Store.Concurrent Sync.Model.
From Coq Require Import ZifyBool.
Local Open Scope Z_scope.

(* what the exchange does to the two row lists (a single-point write is [ins]) *)
Definition recv_local (L : list point) (sends : list (bool * point)) : list point :=
  fold_left ins (map snd (filter (fun s => negb (fst s)) sends)) L.
Definition recv_remote (R : list point) (sends : list (bool * point)) : list point :=
  fold_left ins (map snd (filter (fun s => fst s) sends)) R.

(* the newer of two optional points; on a tie the first *)
Definition join (a b : option point) : option point :=
  match a, b with
  | None, x => x
  | x, None => x
  | Some p, Some q => if p_time p <? p_time q then Some q else Some p
  end.

Lemma sel_flat_map t k (g : point -> list point) l :
  sel t k (flat_map g l) = flat_map (fun p => sel t k (g p)) l.
Proof.
  induction l as [|p l IH]; [reflexivity|]. cbn [flat_map]. rewrite sel_app, IH. reflexivity.
Qed.

Lemma flat_map_sel_in t k (g : point -> list point) l :
  (forall p, In p l -> is_id t k p = false -> g p = []) ->
  flat_map g l = flat_map g (sel t k l).
Proof.
  induction l as [|p l IH]; intros H; [reflexivity|]. cbn [flat_map]. rewrite sel_cons.
  assert (Hl : forall q, In q l -> is_id t k q = false -> g q = []) by (intros q Hq; apply H; right; exact Hq).
  destruct (is_id t k p) eqn:E; cbn [flat_map]; rewrite (IH Hl); [reflexivity|].
  rewrite (H p (or_introl eq_refl) E). reflexivity.
Qed.

Lemma is_match_id p q : key_ok p -> key_ok q -> is_match p q = is_id (p_type p) (p_key p) q.
Proof.
  intros Hp Hq. unfold is_match, is_id, ident_eqb. rewrite (norm_key_ok _ Hp), (norm_key_ok _ Hq).
  rewrite (bytes_eqb_sym (p_type p)), (bytes_eqb_sym (p_key p)). reflexivity.
Qed.

Lemma filter_match_sel p R : key_ok p -> keys_norm R -> filter (is_match p) R = sel (p_type p) (p_key p) R.
Proof.
  intros Hp HR. unfold sel. apply filter_ext_in. intros q Hq. apply is_match_id; [exact Hp|].
  unfold keys_norm in HR. rewrite Forall_forall in HR. apply HR. exact Hq.
Qed.

Lemma is_id_self p : is_id (p_type p) (p_key p) p = true.
Proof. unfold is_id. apply ident_eqb_refl. Qed.

Lemma is_id_transfer t k p q : is_id t k p = true -> is_id (p_type p) (p_key p) q = is_id t k q.
Proof.
  unfold is_id. intros H. apply ident_eqb_true in H as [Ht Hk]. unfold ident_eqb. rewrite Ht, Hk. reflexivity.
Qed.

(* points sent in one direction by the first loop for a local point p *)
Definition ups_of (R : list point) (p : point) : list point := map snd (filter (fun s => fst s) (cmp_local R p)).
Definition downs_of (R : list point) (p : point) : list point := map snd (filter (fun s => negb (fst s)) (cmp_local R p)).

Lemma find_ext' {A} (f g : A -> bool) l : (forall a, f a = g a) -> find f l = find g l.
Proof. intros H. induction l as [|a l IH]; [reflexivity|]. cbn. rewrite H, IH. reflexivity. Qed.

Lemma lookup_sel_single rows t k : nodup_rows rows ->
  sel t k rows = match lookup rows t k with Some w => [w] | None => [] end.
Proof. apply sel_nodup. Qed.

Lemma lookup_some_id rows t k w : lookup rows t k = Some w -> is_id t k w = true.
Proof. unfold lookup. intros H. apply find_some in H. tauto. Qed.

Lemma map_false_up (l : list point) : map snd (filter (fun s : bool * point => fst s) (map (fun q => (false, q)) l)) = [].
Proof. induction l as [|q l IH]; [reflexivity|exact IH]. Qed.
Lemma map_false_down (l : list point) : map snd (filter (fun s : bool * point => negb (fst s)) (map (fun q => (false, q)) l)) = l.
Proof. induction l as [|q l IH]; [reflexivity|]. cbn. f_equal. exact IH. Qed.

Section Exchange.
Variables L R : list point.
Hypothesis HLk : keys_norm L.
Hypothesis HRk : keys_norm R.
Hypothesis HLn : nodup_rows L.
Hypothesis HRn : nodup_rows R.

Lemma key_ok_L p : In p L -> key_ok p.
Proof. unfold keys_norm in HLk. rewrite Forall_forall in HLk. apply HLk. Qed.
Lemma key_ok_R p : In p R -> key_ok p.
Proof. unfold keys_norm in HRk. rewrite Forall_forall in HRk. apply HRk. Qed.

Lemma lookup_in rows t k w : lookup rows t k = Some w -> In w rows.
Proof. unfold lookup. intros H. apply find_some in H. tauto. Qed.

(* per identity, what the first loop does for the (unique) local point a of that identity *)
Lemma cmp_local_id t k a : In a L -> is_id t k a = true ->
  cmp_local R a =
  match lookup R t k with
  | None => [(true, a)]
  | Some b => if p_time b <? p_time a then [(true, a)] else if p_time a <? p_time b then [(false, b)] else []
  end.
Proof.
  intros Ha Hid. unfold cmp_local. rewrite (filter_match_sel a R (key_ok_L a Ha) HRk).
  rewrite (lookup_sel_single R _ _ HRn).
  assert (lookup R (p_type a) (p_key a) = lookup R t k) as ->.
  { unfold lookup. apply find_ext'. intros q. apply is_id_transfer. exact Hid. }
  destruct (lookup R t k) as [b|]; [|reflexivity]. cbn [flat_map]. rewrite app_nil_r. reflexivity.
Qed.

Lemma cmp_local_other t k p : In p L -> is_id t k p = false ->
  sel t k (map snd (cmp_local R p)) = [].
Proof.
  intros Hp Hid. unfold cmp_local. rewrite (filter_match_sel p R (key_ok_L p Hp) HRk).
  rewrite (lookup_sel_single R _ _ HRn).
  destruct (lookup R (p_type p) (p_key p)) as [b|] eqn:Eb.
  - cbn [flat_map]. rewrite app_nil_r.
    assert (is_id t k b = false) as Hb.
    { pose proof (lookup_some_id _ _ _ _ Eb) as Hb.
      destruct (is_id t k b) eqn:E; [|reflexivity].
      rewrite <- (is_id_transfer _ _ b p E) in Hid.
      unfold is_id in Hb, Hid. rewrite ident_eqb_true in Hb. destruct Hb as [H1 H2].
      assert (ident_eqb (p_type p) (p_key p) (p_type b) (p_key b) = true) by (apply ident_eqb_true; split; congruence).
      congruence. }
    destruct (p_time b <? p_time p); [cbn; rewrite Hid; reflexivity|].
    destruct (p_time p <? p_time b); cbn; [rewrite Hb|]; reflexivity.
  - cbn. rewrite Hid. reflexivity.
Qed.

(* the second loop: upstream points of an identity nobody holds locally *)
Lemma second_loop_sel t k :
  sel t k (filter (fun q => negb (existsb (fun p => is_match p q) L)) R) =
  match lookup L t k, lookup R t k with
  | None, Some b => [b]
  | _, _ => []
  end.
Proof.
  unfold sel. rewrite <- (filter_ext _ _ (fun q => andb_comm _ _)) || idtac.
  assert (H : forall l, filter (is_id t k) (filter (fun q => negb (existsb (fun p => is_match p q) L)) l) =
                        filter (fun q => negb (existsb (fun p => is_match p q) L)) (filter (is_id t k) l)).
  { induction l as [|q l IH]; [reflexivity|]. cbn [filter].
    destruct (negb (existsb (fun p => is_match p q) L)) eqn:E1, (is_id t k q) eqn:E2; cbn [filter]; rewrite ?E1, ?E2, IH; reflexivity. }
  rewrite H. fold (sel t k R). rewrite (lookup_sel_single R t k HRn).
  destruct (lookup R t k) as [b|] eqn:Eb; [|destruct (lookup L t k); reflexivity].
  cbn [filter].
  pose proof (lookup_some_id _ _ _ _ Eb) as Hb. pose proof (lookup_in _ _ _ _ Eb) as HbR.
  destruct (lookup L t k) as [a|] eqn:Ea.
  - pose proof (lookup_some_id _ _ _ _ Ea) as Ha. pose proof (lookup_in _ _ _ _ Ea) as HaL.
    assert (existsb (fun p => is_match p b) L = true) as ->; [|reflexivity].
    apply existsb_exists. exists a. split; [exact HaL|].
    rewrite (is_match_id a b (key_ok_L a HaL) (key_ok_R b HbR)), (is_id_transfer t k a b Ha). exact Hb.
  - assert (existsb (fun p => is_match p b) L = false) as ->; [|reflexivity].
    destruct (existsb (fun p => is_match p b) L) eqn:E; [|reflexivity]. exfalso.
    apply existsb_exists in E as (p & Hp & Hm).
    rewrite (is_match_id p b (key_ok_L p Hp) (key_ok_R b HbR)) in Hm.
    assert (is_id t k p = true).
    { unfold is_id in *. rewrite ident_eqb_true in *. destruct Hb, Hm. split; congruence. }
    unfold lookup in Ea. apply (find_none _ _ Ea) in Hp. congruence.
Qed.

Lemma sel_map_snd_filter (f : bool * point -> bool) t k (l : list point) (g : point -> list (bool * point)) :
  sel t k (map snd (filter f (flat_map g l))) = flat_map (fun p => sel t k (map snd (filter f (g p)))) l.
Proof.
  induction l as [|p l IH]; [reflexivity|]. cbn [flat_map]. rewrite filter_app, map_app, sel_app, IH. reflexivity.
Qed.

Lemma sel_sub t k (f : bool * point -> bool) l : sel t k (map snd l) = [] -> sel t k (map snd (filter f l)) = [].
Proof.
  induction l as [|[b p] l IH]; [reflexivity|]. cbn [map snd filter]. rewrite sel_cons.
  destruct (is_id t k p) eqn:E; [discriminate|]. intros H.
  destruct (f (b, p)); cbn [map snd]; [rewrite sel_cons, E|]; apply IH; exact H.
Qed.

(* ties: a point held on both sides with the same time is the same point (distinct times per identity) *)
Hypothesis ties : forall t k a b, lookup L t k = Some a -> lookup R t k = Some b -> p_time a = p_time b -> a = b.

Lemma first_loop_sel (f : bool * point -> bool) t k :
  sel t k (map snd (filter f (flat_map (cmp_local R) L))) =
  match lookup L t k with
  | Some a => sel t k (map snd (filter f (cmp_local R a)))
  | None => []
  end.
Proof.
  rewrite sel_map_snd_filter.
  rewrite (flat_map_sel_in t k (fun p => sel t k (map snd (filter f (cmp_local R p)))) L).
  - rewrite (lookup_sel_single L t k HLn). destruct (lookup L t k); cbn [flat_map]; [rewrite app_nil_r|]; reflexivity.
  - intros p Hp Hid. apply sel_sub. apply cmp_local_other; assumption.
Qed.

Theorem exchange_join t k :
  let sends := sync_points L R in
  lookup (recv_local L sends) t k = join (lookup L t k) (lookup R t k) /\
  lookup (recv_remote R sends) t k = join (lookup L t k) (lookup R t k).
Proof.
  cbv zeta. unfold recv_local, recv_remote, sync_points.
  rewrite !lookup_fold_ins, !filter_app, !map_app, !sel_app, !fold_left_app.
  rewrite map_false_up, map_false_down, second_loop_sel. cbn [sel filter fold_left].
  rewrite !first_loop_sel.
  destruct (lookup L t k) as [a|] eqn:Ea.
  - pose proof (lookup_some_id _ _ _ _ Ea) as Ha. pose proof (lookup_in _ _ _ _ Ea) as HaL.
    rewrite (cmp_local_id t k a HaL Ha).
    destruct (lookup R t k) as [b|] eqn:Eb.
    + pose proof (lookup_some_id _ _ _ _ Eb) as Hb.
      cbn [join fold_left].
      destruct (p_time b <? p_time a) eqn:E1.
      * cbn [filter fst negb map snd sel]. rewrite Ha. cbn [fold_left newer].
        assert (p_time a <? p_time b = false) as -> by lia.
        assert (p_time b <=? p_time a = true) as -> by lia. split; reflexivity.
      * destruct (p_time a <? p_time b) eqn:E2.
        -- cbn [filter fst negb map snd sel]. rewrite Hb. cbn [fold_left newer].
           assert (p_time a <=? p_time b = true) as -> by lia. split; reflexivity.
        -- cbn [filter map sel fold_left].
           assert (a = b) by (apply (ties t k); auto; lia). subst b. split; reflexivity.
    + cbn [filter fst negb map snd sel join fold_left]. rewrite Ha. cbn [fold_left newer]. split; reflexivity.
  - destruct (lookup R t k) as [b|] eqn:Eb; cbn [join fold_left newer]; split; reflexivity.
Qed.
End Exchange.

(* the agreed value is never older than what either side held *)
Lemma join_covers a b : Store.Concurrent.ole a (join a b) /\ Store.Concurrent.ole b (join a b).
Proof.
  destruct a as [p|], b as [q|]; cbn; try (split; lia); try tauto.
  destruct (p_time p <? p_time q) eqn:E; cbn; split; lia.
Qed.

(* ---------- a concrete two-sided state: child c deleted upstream during an outage ---------- *)
Definition id_dev : bytes := [100%N]. Definition id_ur : bytes := [117%N]. Definition id_c : bytes := [99%N].
Definition ptt (ty : bytes) (t : Z) (v : N) (tx : bytes) : point := mkPoint ty [] t v tx [] 0%Z [].
Definition mk (id par : bytes) (t : Z) : op := EdgePts id par [ptt str_tombstone t 0%N []; ptt str_nodeType t 0%N [103%N]].
Definition common : list op := [mk id_c id_dev 2; NodePts id_c [ptt [118%N] 3 0x3FF0000000000000%N []]].
Definition exD : store := fold_left wr (mk id_dev str_root 1 :: common) (mkStore [] [] [] 0%N).
Definition exU : store :=
  fold_left wr ([mk id_ur str_root 1; mk id_dev id_ur 1] ++ common ++ [EdgePts id_c id_dev [ptt str_tombstone 9 0x3FF0000000000000%N []]])
            (mkStore [] [] [] 0%N).

Definition agree (DU : store * store) : bool :=
  views_eqb (canon id_dev (filter (fun v => negb (bytes_eqb (v_down v) id_ur)) (project (fst DU))))
            (canon id_dev (filter (fun v => negb (bytes_eqb (v_down v) id_ur)) (project (snd DU)))).

(* ---------- the exchange at the level of the two stores ---------- *)
Definition no_nan (ps : list point) : Prop := Forall (fun p => f64_is_nan (p_val p) = false /\ bad_time p = false) ps.

Lemma wr_node_single st id p : f64_is_nan (p_val p) = false -> bad_time p = false -> key_ok p -> nodes_ok st ->
  node_rows (s_nodes (wr st (NodePts id [p]))) id = ins (node_rows (s_nodes st) id) p /\
  (forall id', id' <> id -> node_rows (s_nodes (wr st (NodePts id [p]))) id' = node_rows (s_nodes st) id') /\
  nodes_ok (wr st (NodePts id [p])).
Proof.
  intros Hn Hb Hk HO. unfold wr. cbn [handle].
  destruct (node_points st id [p]) as [st'|e] eqn:E.
  - cbn [fst]. destruct (node_points_nodes_ok st id [p] st' HO E) as (H1 & H2 & H3).
    split; [|split; assumption]. rewrite H1. unfold batch_rows. rewrite merge_batch_ins by apply HO.
    cbn [collapse map fold_left]. rewrite (normp_id p Hk). reflexivity.
  - exfalso. unfold node_points in E. cbn [has_nan bad_times existsb] in E. rewrite Hn, Hb in E. cbn [orb] in E.
    destruct (merge_batch false _ _). discriminate.
Qed.

Lemma apply_node_sends_rows sends : forall D U id,
  nodes_ok D -> nodes_ok U ->
  Forall (fun s => f64_is_nan (p_val (snd s)) = false /\ bad_time (snd s) = false /\ key_ok (snd s)) sends ->
  let DU := apply_node_sends D U id id sends in
  node_rows (s_nodes (fst DU)) id = recv_local (node_rows (s_nodes D) id) sends /\
  node_rows (s_nodes (snd DU)) id = recv_remote (node_rows (s_nodes U) id) sends /\
  (forall id', id' <> id -> node_rows (s_nodes (fst DU)) id' = node_rows (s_nodes D) id' /\
                            node_rows (s_nodes (snd DU)) id' = node_rows (s_nodes U) id').
Proof.
  induction sends as [|[up p] sends IH]; intros D U id HD HU Hs; cbv zeta.
  - cbn. auto.
  - inversion Hs as [|? ? (Hn & Hb & Hk) Hs']; subst. cbn [snd] in Hn, Hb, Hk.
    unfold apply_node_sends. cbn [fold_left]. fold (apply_node_sends).
    destruct up.
    + destruct (wr_node_single U id p Hn Hb Hk HU) as (H1 & H2 & H3).
      change (fold_left _ sends (D, wr U (NodePts id [p]))) with (apply_node_sends D (wr U (NodePts id [p])) id id sends).
      destruct (IH D (wr U (NodePts id [p])) id HD H3 Hs') as (A & B & C). cbv zeta in A, B, C.
      split; [|split].
      * rewrite A. unfold recv_local. cbn [filter fst negb]. reflexivity.
      * rewrite B, H1. unfold recv_remote. cbn [filter fst map snd fold_left]. reflexivity.
      * intros id' Hne. destruct (C id' Hne) as [C1 C2]. split; [exact C1|]. rewrite C2. apply H2. exact Hne.
    + destruct (wr_node_single D id p Hn Hb Hk HD) as (H1 & H2 & H3).
      change (fold_left _ sends (wr D (NodePts id [p]), U)) with (apply_node_sends (wr D (NodePts id [p])) U id id sends).
      destruct (IH (wr D (NodePts id [p])) U id H3 HU Hs') as (A & B & C). cbv zeta in A, B, C.
      split; [|split].
      * rewrite A, H1. unfold recv_local. cbn [filter fst negb map snd fold_left]. reflexivity.
      * rewrite B. unfold recv_remote. cbn [filter fst]. reflexivity.
      * intros id' Hne. destruct (C id' Hne) as [C1 C2]. split; [|exact C2]. rewrite C1. apply H2. exact Hne.
Qed.

Lemma sync_points_from L R s : In s (sync_points L R) -> In (snd s) L \/ In (snd s) R.
Proof.
  unfold sync_points. intros H. apply in_app_or in H as [H|H].
  - apply in_flat_map in H as (p & Hp & H). unfold cmp_local in H.
    destruct (filter (is_match p) R) as [|q ms] eqn:E.
    + destruct H as [<-|[]]. left. exact Hp.
    + apply in_flat_map in H as (x & Hx & H).
      assert (In x R) by (assert (In x (filter (is_match p) R)) by (rewrite E; exact Hx); apply filter_In in H0; tauto).
      destruct (p_time x <? p_time p); [destruct H as [<-|[]]; left; exact Hp|].
      destruct (p_time p <? p_time x); [destruct H as [<-|[]]; right; exact H0|destruct H].
  - apply in_map_iff in H as (q & <- & Hq). apply filter_In in Hq. right. tauto.
Qed.

(* C02, one node of the shared tree: after the node-point exchange of a catch-up pass both
   instances hold, for every identity of that node, the newer of the two points they held, and no
   other node's points were touched *)
Theorem node_exchange_store D U id t k :
  nodes_ok D -> nodes_ok U ->
  no_nan (node_rows (s_nodes D) id) -> no_nan (node_rows (s_nodes U) id) ->
  (forall t k a b, lookup (node_rows (s_nodes D) id) t k = Some a -> lookup (node_rows (s_nodes U) id) t k = Some b ->
                   p_time a = p_time b -> a = b) ->
  let L := node_rows (s_nodes D) id in let R := node_rows (s_nodes U) id in
  let DU := apply_node_sends D U id id (sync_points L R) in
  lookup (node_rows (s_nodes (fst DU)) id) t k = join (lookup L t k) (lookup R t k) /\
  lookup (node_rows (s_nodes (snd DU)) id) t k = join (lookup L t k) (lookup R t k) /\
  (forall id', id' <> id -> node_rows (s_nodes (fst DU)) id' = node_rows (s_nodes D) id' /\
                            node_rows (s_nodes (snd DU)) id' = node_rows (s_nodes U) id').
Proof.
  intros HD HU ND NU Hties. cbv zeta.
  assert (Hs : Forall (fun s => f64_is_nan (p_val (snd s)) = false /\ bad_time (snd s) = false /\ key_ok (snd s))
                      (sync_points (node_rows (s_nodes D) id) (node_rows (s_nodes U) id))).
  { apply Forall_forall. intros s Hin. apply sync_points_from in Hin as [Hin|Hin].
    - unfold no_nan in ND; rewrite Forall_forall in ND. destruct (ND _ Hin) as [A1 A2]. split; [exact A1|]. split; [exact A2|].
      destruct (HD id) as [Hk _]. unfold keys_norm in Hk. rewrite Forall_forall in Hk. apply Hk. exact Hin.
    - unfold no_nan in NU; rewrite Forall_forall in NU. destruct (NU _ Hin) as [A1 A2]. split; [exact A1|]. split; [exact A2|].
      destruct (HU id) as [Hk _]. unfold keys_norm in Hk. rewrite Forall_forall in Hk. apply Hk. exact Hin. }
  destruct (apply_node_sends_rows _ D U id HD HU Hs) as (A & B & C). cbv zeta in A, B, C.
  rewrite A, B.
  destruct (exchange_join (node_rows (s_nodes D) id) (node_rows (s_nodes U) id)
              (proj1 (HD id)) (proj1 (HU id)) (proj2 (HD id)) (proj2 (HU id)) Hties t k) as [E1 E2].
  cbv zeta in E1, E2. split; [exact E1|]. split; [exact E2|exact C].
Qed.

(* ---------- what the hash comparison cannot see ---------- *)
(* a catch-up pass on a node whose compared hashes are equal changes nothing, whatever lies below it *)
Lemma sync_node_blind legacy f D U dev parent id now nl ls nu us :
  let parent' := if bytes_eqb parent str_root then str_all else parent in
  get_nodes D parent' id true = nl :: ls -> get_nodes U parent' id true = nu :: us ->
  forallb edge_deleted (nu :: us) && (legacy || bytes_eqb (e_down nl) dev) = false ->
  (if bytes_eqb (e_down nl) dev then N.lxor (e_hash nl) (xor_epts nl) else e_hash nl) =
  (if bytes_eqb (e_down nl) dev then N.lxor (e_hash nu) (xor_epts nu) else e_hash nu) ->
  sync_node legacy f D U dev parent id now = (D, U).
Proof.
  cbv zeta. intros HD HU Hdel Hh.
  destruct f as [|f]; cbn [sync_node]; rewrite HD, HU, Hdel, Hh, N.eqb_refl; reflexivity.
Qed.

(* the same point written to two sibling nodes, one on each side, during an outage: both sides carry the same
   device hash (a point's CRC does not cover its node, hashes are combined by XOR), every stored hash is the
   correct Merkle hash, and no catch-up ever changes either side *)
Definition id_e : bytes := [101%N].
Definition twin : point := ptt [119%N] 9 0x4014000000000000%N [].
Definition common2 : list op := common ++ [mk id_e id_dev 4; NodePts id_e [ptt [118%N] 5 0x4000000000000000%N []]].
Definition blD : store := fold_left wr (mk id_dev str_root 1 :: common2 ++ [NodePts id_c [twin]]) (mkStore [] [] [] 0%N).
Definition blU : store :=
  fold_left wr ([mk id_ur str_root 1; mk id_dev id_ur 1] ++ common2 ++ [NodePts id_e [twin]]) (mkStore [] [] [] 0%N).
Definition dev_tree (st : store) : list edge_view := filter (fun v => negb (bytes_eqb (v_down v) id_ur)) (project st).

Lemma hash_blind_example :
  catchup false 8 blD blU id_dev 0%Z = (blD, blU) /\ agree (blD, blU) = false /\
  blind_only id_dev (dev_tree blD) (dev_tree blU) = true /\
  spec_hashes_ok (project blD) = true /\ spec_hashes_ok (project blU) = true.
Proof. vm_compute. repeat split; reflexivity. Qed.
