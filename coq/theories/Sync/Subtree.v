(* sendNodesRemote copies a whole live subtree that the other side lacks (C02: "node creations").
   The recursion of sendNodesRemote is a sequence of SendNode calls, parent before children
   ([send_nodes_remote_is_fold]); each call creates its node and edge when the node is new to the receiving
   store at that moment ([send_node_creates]); hence the receiving store ends with a copy of every node and
   edge that was sent, everything else untouched. *)
From Coq Require Import List NArith ZArith Bool Lia.
From Verif Require Import Base.Bytes Store.GraphCount Store.GraphWalk Store.Model Store.ProofsRows Store.ProofsHash Store.ProofsTop
  Store.InitRoot Sync.Model Sync.Proofs Sync.ProofsEdge Sync.Frame Sync.Converge Sync.Create.
Import ListNotations.

(* ---------- the calls sendNodesRemote makes, in order ---------- *)
Fixpoint sent_edges (f : nat) (D : store) (e : edge) : list edge :=
  e :: match f with
       | O => []
       | S f' => flat_map (sent_edges f' D) (get_nodes D (e_down e) str_all false)
       end.

Definition par_of (uroot : bytes) (c : edge) : bytes := if bytes_eqb (e_up c) str_root then uroot else e_up c.

Definition send1 (D : store) (uroot : bytes) (now : Z) (U : store) (c : edge) : store :=
  send_node U (s_nodes D) c (par_of uroot c) sync_id now.

Lemma fold_left_flat_map {A B C} (g : A -> C -> A) (h : B -> list C) (k : A -> B -> A) :
  (forall a b, k a b = fold_left g (h b) a) ->
  forall l a, fold_left k l a = fold_left g (flat_map h l) a.
Proof.
  intros H l. induction l as [|b l IH]; intros a; [reflexivity|].
  cbn [fold_left flat_map]. rewrite fold_left_app, <- H. apply IH.
Qed.

Lemma send_nodes_remote_is_fold f D uroot now : forall U e,
  send_nodes_remote f D U uroot e now = fold_left (send1 D uroot now) (sent_edges f D e) U.
Proof.
  induction f as [|f IH]; intros U e; [reflexivity|].
  cbn [send_nodes_remote sent_edges fold_left]. fold (par_of uroot e). fold (send1 D uroot now U e).
  apply (fold_left_flat_map (send1 D uroot now) (sent_edges f D) (fun U c => send_nodes_remote f D U uroot c now)).
  intros a b. apply IH.
Qed.

(* ---------- a node that no link of the store mentions ---------- *)
Definition mentions (K : list (bytes * bytes)) (y : bytes) : Prop := exists z, In (z, y) K \/ In (y, z) K.

Lemma links_toggle vs d G :
  map (fun e => (e_up e, e_down e)) (map (toggle vs d) G) = map (fun e => (e_up e, e_down e)) G.
Proof. rewrite map_map. apply map_ext. intros e. now rewrite toggle_up, toggle_down. Qed.

Lemma find_edge_not_mentioned G p x :
  ~ mentions (map (fun e => (e_up e, e_down e)) G) x -> find_edge G p x = None.
Proof.
  intros H. unfold find_edge. destruct (find _ G) as [e|] eqn:E; [|reflexivity]. exfalso. apply H.
  apply find_some in E. destruct E as [Hin Hb]. apply andb_true_iff in Hb. destruct Hb as [Hu Hd].
  apply bytes_eqb_eq in Hu, Hd. exists p. left. apply in_map_iff. exists e. split; [now rewrite Hu, Hd|exact Hin].
Qed.

Lemma is_upstream_no_up G x : (forall e, In e G -> e_up e <> x) ->
  forall f id, id <> x -> is_upstream G f x id = false.
Proof.
  intros H f. induction f as [|f IH]; intros id Hid; cbn [is_upstream].
  - rewrite (bytes_neq_eqb id x Hid). reflexivity.
  - rewrite (bytes_neq_eqb id x Hid). cbn [orb].
    assert (E : forall l, (forall e, In e l -> In e G) -> existsb (fun e => is_upstream G f x (e_up e)) l = false).
    { induction l as [|e l IHl]; intros Hl; [reflexivity|]. cbn [existsb].
      rewrite (IH (e_up e)) by (apply H, Hl; left; reflexivity). apply IHl. intros e' He'. apply Hl. right. exact He'. }
    apply E. intros e He. unfold parents in He. apply filter_In in He. apply He.
Qed.

Lemma edge_points_new_links st x p pts st' :
  edge_points st x p pts = Ok st' -> p <> [] -> p <> str_root -> find_edge (s_edges st) p x = None ->
  links st' = links st ++ [(p, x)] /\ s_root st' = s_root st.
Proof.
  intros H Hp Hr Hf. unfold edge_points in H.
  destruct (has_nan pts); [discriminate|]. destruct (bad_times pts); [discriminate|].
  destruct (bytes_eqb x p); [discriminate|].
  destruct (bytes_eqb x (s_root st) && _); [discriminate|].
  assert (E : match p with [] => str_root | _ :: _ => p end = p) by (destruct p; [contradiction|reflexivity]).
  rewrite E, Hf in H. destruct (is_upstream _ _ x p); [discriminate|].
  destruct (merge_batch true [] (collapse pts)) as [rows d].
  destruct (last_node_type (collapse pts)) as [|t ts]; [discriminate|].
  injection H as <-. unfold links. cbn [s_edges s_root]. unfold update_edge_hash. rewrite links_toggle, map_app. cbn [map e_up e_down].
  split; [reflexivity|]. rewrite (bytes_neq_eqb p str_root Hr). reflexivity.
Qed.

Lemma no_up_of_not_mentioned G x :
  ~ mentions (map (fun e => (e_up e, e_down e)) G) x -> forall e, In e G -> e_up e <> x.
Proof.
  intros H e He Hx. apply H. exists (e_down e). right. apply in_map_iff. exists e. split; [now rewrite Hx|exact He].
Qed.

Lemma new_edge_accepted st x p epts :
  has_nan epts = false -> bad_times epts = false -> x <> p -> x <> s_root st -> p <> [] ->
  ~ mentions (links st) x -> last_node_type (collapse epts) <> [] ->
  exists st', edge_points st x p epts = Ok st'.
Proof.
  intros Hn Hb Hxp Hroot Hp Hm Hnt. unfold edge_points.
  rewrite Hn, Hb, (bytes_neq_eqb x p Hxp), (bytes_neq_eqb x (s_root st) Hroot). cbn [andb].
  assert (E : match p with [] => str_root | _ :: _ => p end = p) by (destruct p; [contradiction|reflexivity]).
  rewrite E, (find_edge_not_mentioned _ p x Hm).
  rewrite (is_upstream_no_up _ x (no_up_of_not_mentioned _ x Hm)) by (intros Heq; apply Hxp; symmetry; exact Heq).
  destruct (merge_batch true [] (collapse epts)). destruct (last_node_type (collapse epts)); [contradiction|].
  eexists. reflexivity.
Qed.

(* ---------- one call ---------- *)
Definition npts_of (D : store) (c : edge) : list point := map (fill_origin sync_id) (node_rows (s_nodes D) (e_down c)).

Definition ok1 (D : store) (uroot : bytes) (now : Z) (K : list (bytes * bytes)) (root : bytes) (c : edge) : Prop :=
  let x := e_down c in
  let p := par_of uroot c in
  ~ mentions K x /\ x <> root /\ x <> p /\ p <> [] /\ p <> str_root /\
  has_nan (npts_of D c) = false /\ bad_times (npts_of D c) = false /\
  has_nan (sent_edge_points c sync_id now) = false /\ bad_times (sent_edge_points c sync_id now) = false /\
  last_node_type (collapse (sent_edge_points c sync_id now)) <> [].

Lemma send1_creates D uroot now U c : good U -> ok1 D uroot now (links U) (s_root U) c ->
  let U' := send1 D uroot now U c in
  good U' /\ links U' = links U ++ [(par_of uroot c, e_down c)] /\ s_root U' = s_root U /\
  node_rows (s_nodes U') (e_down c) = batch_rows false (node_rows (s_nodes U) (e_down c)) (npts_of D c) /\
  (forall y, y <> e_down c -> node_rows (s_nodes U') y = node_rows (s_nodes U) y) /\
  edge_rows U' (par_of uroot c) (e_down c) = batch_rows true [] (sent_edge_points c sync_id now) /\
  (forall u d, (u, d) <> (par_of uroot c, e_down c) -> edge_rows U' u d = edge_rows U u d).
Proof.
  intros GU (Hm & Hroot & Hxp & Hp & Hpr & Hn1 & Hb1 & Hn2 & Hb2 & Hnt). cbv zeta.
  set (x := e_down c) in *. set (p := par_of uroot c) in *.
  destruct (send_node_creates U (s_nodes D) c p sync_id now GU Hp Hn1 Hb1 Hb2 Hn2 Hxp Hroot
              (find_edge_not_mentioned _ p x Hm)
              (is_upstream_no_up _ x (no_up_of_not_mentioned _ x Hm) _ p (fun Heq => Hxp (eq_sym Heq))) Hnt)
    as (A & B & C & E & G').
  unfold send1. fold p. split; [exact G'|]. split; [|split; [|split; [exact A|split; [exact B|split; [exact C|exact E]]]]].
  - rewrite send_node_unfold. fold x. set (U1 := wr U (NodePts x _)).
    assert (L1 : links U1 = links U) by (apply (frame_links (fun y => y = x)); apply frame_wr_node; apply GU).
    assert (R1 : s_root U1 = s_root U) by apply wr_np_root.
    destruct (new_edge_accepted U1 x p (sent_edge_points c sync_id now) Hn2 Hb2 Hxp ltac:(rewrite R1; exact Hroot) Hp
                ltac:(rewrite L1; exact Hm) Hnt) as [st' Acc].
    assert (E2 : wr U1 (EdgePts x p (sent_edge_points c sync_id now)) = st') by (unfold wr; cbn [handle]; rewrite Acc; reflexivity).
    rewrite E2. destruct (edge_points_new_links U1 x p _ st' Acc Hp Hpr (find_edge_not_mentioned _ p x ltac:(rewrite <- L1 in Hm; exact Hm))) as [HL _].
    rewrite HL, L1. reflexivity.
  - rewrite send_node_unfold. fold x. set (U1 := wr U (NodePts x _)).
    assert (L1 : links U1 = links U) by (apply (frame_links (fun y => y = x)); apply frame_wr_node; apply GU).
    assert (R1 : s_root U1 = s_root U) by apply wr_np_root.
    destruct (new_edge_accepted U1 x p (sent_edge_points c sync_id now) Hn2 Hb2 Hxp ltac:(rewrite R1; exact Hroot) Hp
                ltac:(rewrite L1; exact Hm) Hnt) as [st' Acc].
    assert (E2 : wr U1 (EdgePts x p (sent_edge_points c sync_id now)) = st') by (unfold wr; cbn [handle]; rewrite Acc; reflexivity).
    rewrite E2. destruct (edge_points_new_links U1 x p _ st' Acc Hp Hpr (find_edge_not_mentioned _ p x ltac:(rewrite <- L1 in Hm; exact Hm))) as [_ HR].
    rewrite HR, R1. reflexivity.
Qed.

(* ---------- the sequence of calls ---------- *)
Definition pair_of (uroot : bytes) (c : edge) : bytes * bytes := (par_of uroot c, e_down c).

(* every node is new to the receiving store at the moment it is sent: no link that the store held at the start,
   or that an earlier call of the sequence made, mentions it *)
Fixpoint pre (D : store) (uroot : bytes) (now : Z) (K : list (bytes * bytes)) (root : bytes) (L : list edge) : Prop :=
  match L with
  | [] => True
  | c :: L' => ok1 D uroot now K root c /\ pre D uroot now (K ++ [pair_of uroot c]) root L'
  end.

Lemma mentions_app_l K K' y : mentions K y -> mentions (K ++ K') y.
Proof. intros [z [H|H]]; exists z; [left|right]; apply in_or_app; left; exact H. Qed.

Lemma pre_not_mentioned D uroot now root : forall L K, pre D uroot now K root L ->
  forall c, In c L -> ~ mentions K (e_down c).
Proof.
  induction L as [|c0 L IH]; intros K H c Hc; [destruct Hc|]. destruct H as [H0 H1]. destruct Hc as [<-|Hc].
  - apply H0.
  - intros Hm. apply (IH _ H1 c Hc). apply mentions_app_l, Hm.
Qed.

Lemma pre_fresh D uroot now root c L K : pre D uroot now (K ++ [pair_of uroot c]) root L ->
  forall c', In c' L -> e_down c' <> e_down c.
Proof.
  intros H c' Hc' Heq. apply (pre_not_mentioned _ _ _ _ _ _ H c' Hc').
  exists (par_of uroot c). left. apply in_or_app. right. left. unfold pair_of. now rewrite Heq.
Qed.

Lemma fold_sends D uroot now : forall L U, good U -> pre D uroot now (links U) (s_root U) L ->
  let U' := fold_left (send1 D uroot now) L U in
  good U' /\ links U' = links U ++ map (pair_of uroot) L /\ s_root U' = s_root U /\
  (forall c, In c L ->
     node_rows (s_nodes U') (e_down c) = batch_rows false (node_rows (s_nodes U) (e_down c)) (npts_of D c) /\
     edge_rows U' (par_of uroot c) (e_down c) = batch_rows true [] (sent_edge_points c sync_id now)) /\
  (forall y, ~ In y (map e_down L) -> node_rows (s_nodes U') y = node_rows (s_nodes U) y) /\
  (forall u d, ~ In (u, d) (map (pair_of uroot) L) -> edge_rows U' u d = edge_rows U u d).
Proof.
  induction L as [|c L IH]; intros U GU HP; cbv zeta.
  - cbn [fold_left map]. rewrite app_nil_r. split; [exact GU|]. split; [reflexivity|]. split; [reflexivity|].
    split; [intros c []|]. split; [intros y _; reflexivity|intros u d _; reflexivity].
  - destruct HP as [H0 H1]. cbn [fold_left].
    destruct (send1_creates D uroot now U c GU H0) as (G1 & L1 & R1 & N1 & N1o & E1 & E1o).
    set (U1 := send1 D uroot now U c) in *.
    assert (HP1 : pre D uroot now (links U1) (s_root U1) L) by (rewrite L1, R1; exact H1).
    destruct (IH U1 G1 HP1) as (G' & L' & R' & C' & No' & Eo'). clear IH.
    assert (Hfresh : forall c', In c' L -> e_down c' <> e_down c) by (apply (pre_fresh D uroot now (s_root U) c L (links U)); exact H1).
    split; [exact G'|]. split; [rewrite L', L1, <- app_assoc; reflexivity|]. split; [rewrite R', R1; reflexivity|].
    split; [|split].
    + intros c' [<-|Hc'].
      * split.
        -- rewrite No'; [exact N1|]. intros Hin. apply in_map_iff in Hin. destruct Hin as (c' & Heq & Hc'). exact (Hfresh c' Hc' Heq).
        -- rewrite Eo'; [exact E1|]. intros Hin. apply in_map_iff in Hin. destruct Hin as (c' & Heq & Hc').
           unfold pair_of in Heq. injection Heq as _ Heq. exact (Hfresh c' Hc' Heq).
      * destruct (C' c' Hc') as [A B]. split; [|exact B]. rewrite A, N1o; [reflexivity|]. apply Hfresh, Hc'.
    + intros y Hy. cbn [map] in Hy. rewrite No' by (intros Hin; apply Hy; right; exact Hin).
      apply N1o. intros Heq. apply Hy. left. symmetry. exact Heq.
    + intros u d Hud. cbn [map] in Hud. rewrite Eo' by (intros Hin; apply Hud; right; exact Hin).
      apply E1o. intros Heq. apply Hud. left. unfold pair_of. symmetry. exact Heq.
Qed.

(* ---------- sendNodesRemote ---------- *)
Theorem send_nodes_remote_copies f D U uroot e now :
  good U -> pre D uroot now (links U) (s_root U) (sent_edges f D e) ->
  let L := sent_edges f D e in
  let U' := send_nodes_remote f D U uroot e now in
  good U' /\ links U' = links U ++ map (pair_of uroot) L /\ s_root U' = s_root U /\
  (forall c, In c L ->
     node_rows (s_nodes U') (e_down c) = batch_rows false (node_rows (s_nodes U) (e_down c)) (npts_of D c) /\
     edge_rows U' (par_of uroot c) (e_down c) = batch_rows true [] (sent_edge_points c sync_id now)) /\
  (forall y, ~ In y (map e_down L) -> node_rows (s_nodes U') y = node_rows (s_nodes U) y) /\
  (forall u d, ~ In (u, d) (map (pair_of uroot) L) -> edge_rows U' u d = edge_rows U u d).
Proof. intros GU HP. cbv zeta. rewrite send_nodes_remote_is_fold. apply fold_sends; assumption. Qed.


(* ---------- the hypothesis is decidable (used by the example in Properties/C02.v) ---------- *)
Definition mentionsb (K : list (bytes * bytes)) (y : bytes) : bool :=
  existsb (fun p => bytes_eqb (fst p) y || bytes_eqb (snd p) y) K.

Lemma mentionsb_false K y : mentionsb K y = false -> ~ mentions K y.
Proof.
  intros H [z Hz]. assert (E : mentionsb K y = true); [|rewrite E in H; discriminate].
  unfold mentionsb. apply existsb_exists. destruct Hz as [Hz|Hz]; eexists; (split; [exact Hz|]); cbn [fst snd];
    rewrite bytes_eqb_refl; [apply orb_true_r|reflexivity].
Qed.

Definition nonemptyb (b : bytes) : bool := match b with [] => false | _ => true end.

Definition ok1b (D : store) (uroot : bytes) (now : Z) (K : list (bytes * bytes)) (root : bytes) (c : edge) : bool :=
  let x := e_down c in
  let p := par_of uroot c in
  negb (mentionsb K x) && negb (bytes_eqb x root) && negb (bytes_eqb x p) && nonemptyb p && negb (bytes_eqb p str_root) &&
  negb (has_nan (npts_of D c)) && negb (bad_times (npts_of D c)) &&
  negb (has_nan (sent_edge_points c sync_id now)) && negb (bad_times (sent_edge_points c sync_id now)) &&
  nonemptyb (last_node_type (collapse (sent_edge_points c sync_id now))).

Fixpoint preb (D : store) (uroot : bytes) (now : Z) (K : list (bytes * bytes)) (root : bytes) (L : list edge) : bool :=
  match L with
  | [] => true
  | c :: L' => ok1b D uroot now K root c && preb D uroot now (K ++ [pair_of uroot c]) root L'
  end.

Lemma neqb_neq a b : negb (bytes_eqb a b) = true -> a <> b.
Proof. intros H E. subst. rewrite bytes_eqb_refl in H. discriminate. Qed.

Lemma ok1b_ok1 D uroot now K root c : ok1b D uroot now K root c = true -> ok1 D uroot now K root c.
Proof.
  unfold ok1b, ok1. cbv zeta. rewrite !andb_true_iff. intros (((((((((A & B) & C) & E) & F) & G) & H) & I) & J) & L).
  split; [apply mentionsb_false; destruct (mentionsb K (e_down c)); [discriminate|reflexivity]|].
  split; [apply neqb_neq, B|]. split; [apply neqb_neq, C|].
  split; [destruct (par_of uroot c); [discriminate|discriminate]|]. split; [apply neqb_neq, F|].
  repeat split; try (match goal with H : negb ?x = true |- ?x = false => destruct x; [discriminate|reflexivity] end).
  destruct (last_node_type _); [discriminate|discriminate].
Qed.

Lemma preb_pre D uroot now root : forall L K, preb D uroot now K root L = true -> pre D uroot now K root L.
Proof.
  induction L as [|c L IH]; intros K H; [exact I|]. cbn [preb] in H. apply andb_true_iff in H. destruct H as [H0 H1].
  split; [apply ok1b_ok1, H0|apply IH, H1].
Qed.

(* ---------- sendNodesLocal (the other direction) ----------
   The recursion of sendNodesLocal lists the children through the LOCAL store (client/sync.go: up.nc), after the
   node itself has been created there.  For a node that is new to the local store there are none, so one call
   copies exactly that node; its children follow in the next catch-up passes (the node now exists on both sides
   with different hashes, and syncNode descends). *)
Lemma no_kids_after_creation st st' p x :
  links st' = links st ++ [(p, x)] -> ~ mentions (links st) x -> x <> p -> x <> str_root -> x <> str_all ->
  get_nodes st' x str_all false = [].
Proof.
  intros HL Hm Hxp Hr Ha. unfold get_nodes. rewrite (bytes_neq_eqb x str_root Hr), (bytes_neq_eqb x str_all Ha), bytes_eqb_refl.
  assert (E : filter (fun e => bytes_eqb (e_up e) x) (s_edges st') = []); [|rewrite E; reflexivity].
  assert (A : forall e, In e (s_edges st') -> bytes_eqb (e_up e) x = false).
  { intros e He. destruct (bytes_eqb (e_up e) x) eqn:Eq; [|reflexivity]. exfalso. apply bytes_eqb_eq in Eq.
    assert (In (e_up e, e_down e) (links st')) by (unfold links; apply in_map_iff; exists e; split; [reflexivity|exact He]).
    rewrite HL in H. apply in_app_or in H. destruct H as [H|[H|[]]].
    - apply Hm. exists (e_down e). right. now rewrite <- Eq.
    - injection H as H1 _. apply Hxp. rewrite <- Eq, <- H1. reflexivity. }
  induction (s_edges st') as [|e G IH]; [reflexivity|]. cbn [filter]. rewrite (A e (or_introl eq_refl)). apply IH.
  intros e' He'. apply A. right. exact He'.
Qed.

Theorem send_nodes_local_one f D src e now :
  good D -> ok1 (mkStore src [] [] 0) [] now (links D) (s_root D) e -> e_up e <> str_root ->
  e_down e <> str_root -> e_down e <> str_all ->
  send_nodes_local f D src e now = send_node D src e (e_up e) sync_id now.
Proof.
  intros GD Hok Hup Hr Ha. destruct f as [|f]; [reflexivity|]. cbn [send_nodes_local].
  set (D' := mkStore src [] [] 0) in *.
  assert (Hp : par_of [] e = e_up e) by (unfold par_of; rewrite (bytes_neq_eqb _ _ Hup); reflexivity).
  pose proof (send1_creates D' [] now D e GD Hok) as H. cbv zeta in H. unfold send1 in H. rewrite Hp in H.
  cbn [s_nodes D'] in H. destruct H as (_ & HL & _).
  destruct Hok as (Hm & _ & Hxp & _). rewrite Hp in Hxp.
  rewrite (no_kids_after_creation D _ (e_up e) (e_down e) HL Hm Hxp Hr Ha). reflexivity.
Qed.
