(* C02, the edge-point half of a catch-up pass on one placement: the acknowledged single-point
   requests that syncNode issues for the edge (parent, id) leave both instances with the newer point
   per identity on that edge and touch no other edge.  Mirrors Sync/Proofs.node_exchange_store. *)
From Verif Require Import Base.Bytes Store.GraphCount Store.GraphWalk Store.Model Store.ProofsRows Store.ProofsHash Store.ProofsTop Store.Concurrent Sync.Model Sync.Proofs.
From Coq Require Import Lia.

Lemma find_edge_in G up down e : In e G -> e_up e = up -> e_down e = down -> exists e', find_edge G up down = Some e'.
Proof.
  intros Hin Hu Hd. unfold find_edge.
  destruct (find (fun e => bytes_eqb (e_up e) up && bytes_eqb (e_down e) down) G) as [e'|] eqn:E; [eexists; reflexivity|].
  apply (find_none _ _ E) in Hin. rewrite Hu, Hd, !bytes_eqb_refl in Hin. discriminate.
Qed.

Lemma bytes_neq_eqb a b : a <> b -> bytes_eqb a b = false.
Proof. intros H. destruct (bytes_eqb a b) eqn:E; [|reflexivity]. apply bytes_eqb_eq in E. contradiction. Qed.

(* a point the store cannot represent: a value that is not a number or a time outside the int64 ns range *)
Definition unstorable (p : point) : bool := f64_is_nan (p_val p) || bad_time p.

(* the good state of one side, and the placement written *)
Record side_ok (st : store) (par id : bytes) : Prop := {
  so_wf : wf st; so_inv : Inv st; so_edges : edges_ok st;
  so_found : exists e, find_edge (s_edges st) par id = Some e;
  so_notroot : id <> s_root st }.

Lemma wr_edge_single st id par p :
  side_ok st par id -> par <> [] -> id <> str_none -> id <> par ->
  unstorable p = false -> key_ok p -> not_nt p = true ->
  let st' := wr st (EdgePts id par [p]) in
  edge_rows st' par id = ins (edge_rows st par id) p /\
  (forall up down, (up, down) <> (par, id) -> edge_rows st' up down = edge_rows st up down) /\
  s_nodes st' = s_nodes st /\
  side_ok st' par id.
Proof.
  intros [W HI HO (e & Hf) Hr] Hpar Hnone Hneq Hnan Hk Hnt. apply orb_false_iff in Hnan as [Hnan Hbt]. cbv zeta. unfold wr. cbn [handle].
  destruct (edge_points st id par [p]) as [st'|err] eqn:E.
  - cbn [fst].
    destruct (edge_points_edge_rows st id par [p] st' W HO Hpar E) as (Hsame & Hother & HO').
    destruct (handle_inv st (EdgePts id par [p]) W HI Hpar) as [W' HI'].
    cbn [handle] in W', HI'. rewrite E in W', HI'. cbn [state_of fst] in W', HI'.
    split; [|split; [exact Hother|split; [exact (edge_points_nodes _ _ _ _ _ E)|]]].
    + rewrite Hsame. unfold batch_rows. rewrite merge_batch_ins.
      * cbn [collapse filter]. rewrite Hnt. cbn [map fold_left]. rewrite (normp_id p Hk). reflexivity.
      * unfold edge_rows. rewrite Hf. apply (HO e). apply (find_edge_spec _ _ _ _ Hf).
    + constructor; try assumption.
      * destruct (find_edge_spec _ _ _ _ Hf) as (_ & Hu & Hd).
        assert (Hke : keys_norm (e_pts e)) by (apply (HO e); apply (find_edge_spec _ _ _ _ Hf)).
        destruct (edge_points_rows_existing st id par [p] st' e Hpar Hke Hf E) as (e' & Hin & _ & Hu' & Hd' & _).
        apply (find_edge_in _ par id e' Hin Hu' Hd').
      * (* the root does not move when the edge exists *)
        revert E. unfold edge_points. cbn [has_nan bad_times existsb]. rewrite Hnan, Hbt. cbn [orb].
        rewrite (bytes_neq_eqb id par Hneq), (bytes_neq_eqb id (s_root st) Hr). cbn [andb].
        assert (match par with [] => str_root | _ :: _ => par end = par) as -> by (destruct par; [contradiction|reflexivity]).
        rewrite Hf. destruct (merge_batch true (e_pts e) (collapse [p])). intros E. inversion E. cbn [s_root]. exact Hr.
  - exfalso. revert E. unfold edge_points. cbn [has_nan bad_times existsb]. rewrite Hnan, Hbt. cbn [orb].
    rewrite (bytes_neq_eqb id par Hneq), (bytes_neq_eqb id (s_root st) Hr). cbn [andb].
    assert (match par with [] => str_root | _ :: _ => par end = par) as -> by (destruct par; [contradiction|reflexivity]).
    rewrite Hf. destruct (merge_batch true (e_pts e) (collapse [p])). discriminate.
Qed.

Definition send_ok (s : bool * point) : Prop :=
  unstorable (snd s) = false /\ key_ok (snd s) /\ not_nt (snd s) = true.

Lemma apply_edge_sends_rows sends : forall D U id pl pu,
  side_ok D pl id -> side_ok U pu id -> pl <> [] -> pu <> [] -> id <> str_none -> id <> pl -> id <> pu ->
  Forall send_ok sends ->
  let DU := apply_edge_sends D U id pl pu sends in
  edge_rows (fst DU) pl id = recv_local (edge_rows D pl id) sends /\
  edge_rows (snd DU) pu id = recv_remote (edge_rows U pu id) sends /\
  (forall up down, (up, down) <> (pl, id) -> edge_rows (fst DU) up down = edge_rows D up down) /\
  (forall up down, (up, down) <> (pu, id) -> edge_rows (snd DU) up down = edge_rows U up down) /\
  s_nodes (fst DU) = s_nodes D /\ s_nodes (snd DU) = s_nodes U.
Proof.
  induction sends as [|[up p] sends IH]; intros D U id pl pu SD SU Hpl Hpu Hn Hnl Hnu Hs; cbv zeta.
  - cbn. auto 10.
  - inversion Hs as [|? ? (Hnan & Hk & Hnt) Hs']; subst. cbn [snd] in Hnan, Hk, Hnt.
    unfold apply_edge_sends. cbn [fold_left]. fold (apply_edge_sends).
    destruct up.
    + destruct (wr_edge_single U id pu p SU Hpu Hn Hnu Hnan Hk Hnt) as (H1 & H2 & H3 & SU').
      change (fold_left _ sends (D, wr U (EdgePts id pu [p]))) with (apply_edge_sends D (wr U (EdgePts id pu [p])) id pl pu sends).
      destruct (IH D (wr U (EdgePts id pu [p])) id pl pu SD SU' Hpl Hpu Hn Hnl Hnu Hs') as (A & B & C1 & C2 & N1 & N2).
      cbv zeta in A, B, C1, C2, N1, N2.
      split; [|split; [|split; [|split; [|split]]]].
      * rewrite A. unfold recv_local. cbn [filter fst negb]. reflexivity.
      * rewrite B, H1. unfold recv_remote. cbn [filter fst map snd fold_left]. reflexivity.
      * exact C1.
      * intros u d Hne. rewrite (C2 u d Hne). apply H2. exact Hne.
      * exact N1.
      * rewrite N2. exact H3.
    + destruct (wr_edge_single D id pl p SD Hpl Hn Hnl Hnan Hk Hnt) as (H1 & H2 & H3 & SD').
      change (fold_left _ sends (wr D (EdgePts id pl [p]), U)) with (apply_edge_sends (wr D (EdgePts id pl [p])) U id pl pu sends).
      destruct (IH (wr D (EdgePts id pl [p])) U id pl pu SD' SU Hpl Hpu Hn Hnl Hnu Hs') as (A & B & C1 & C2 & N1 & N2).
      cbv zeta in A, B, C1, C2, N1, N2.
      split; [|split; [|split; [|split; [|split]]]].
      * rewrite A, H1. unfold recv_local. cbn [filter fst negb map snd fold_left]. reflexivity.
      * rewrite B. unfold recv_remote. cbn [filter fst]. reflexivity.
      * intros u d Hne. rewrite (C1 u d Hne). apply H2. exact Hne.
      * exact C2.
      * rewrite N1. exact H3.
      * exact N2.
Qed.

Definition rows_sendable (rows : list point) : Prop :=
  Forall (fun p => unstorable p = false /\ not_nt p = true) rows.

(* C02, one placement of the shared tree: after the edge-point exchange of a catch-up pass both instances
   hold, for every identity of that edge, the newer of the two points they held; no other edge and no
   node point is touched *)
Theorem edge_exchange_store D U id pl pu t k :
  side_ok D pl id -> side_ok U pu id -> pl <> [] -> pu <> [] -> id <> str_none -> id <> pl -> id <> pu ->
  rows_sendable (edge_rows D pl id) -> rows_sendable (edge_rows U pu id) ->
  (forall t k a b, lookup (edge_rows D pl id) t k = Some a -> lookup (edge_rows U pu id) t k = Some b ->
                   p_time a = p_time b -> a = b) ->
  let L := edge_rows D pl id in let R := edge_rows U pu id in
  let DU := apply_edge_sends D U id pl pu (sync_points L R) in
  lookup (edge_rows (fst DU) pl id) t k = join (lookup L t k) (lookup R t k) /\
  lookup (edge_rows (snd DU) pu id) t k = join (lookup L t k) (lookup R t k) /\
  (forall up down, (up, down) <> (pl, id) -> edge_rows (fst DU) up down = edge_rows D up down) /\
  (forall up down, (up, down) <> (pu, id) -> edge_rows (snd DU) up down = edge_rows U up down) /\
  s_nodes (fst DU) = s_nodes D /\ s_nodes (snd DU) = s_nodes U.
Proof.
  intros SD SU Hpl Hpu Hn Hnl Hnu RD RU Hties. cbv zeta.
  assert (KD : keys_norm (edge_rows D pl id) /\ nodup_rows (edge_rows D pl id)).
  { unfold edge_rows. destruct (find_edge (s_edges D) pl id) as [e|] eqn:E; [|split; constructor].
    apply (so_edges _ _ _ SD e). apply (find_edge_spec _ _ _ _ E). }
  assert (KU : keys_norm (edge_rows U pu id) /\ nodup_rows (edge_rows U pu id)).
  { unfold edge_rows. destruct (find_edge (s_edges U) pu id) as [e|] eqn:E; [|split; constructor].
    apply (so_edges _ _ _ SU e). apply (find_edge_spec _ _ _ _ E). }
  assert (Hs : Forall send_ok (sync_points (edge_rows D pl id) (edge_rows U pu id))).
  { apply Forall_forall. intros s Hin. unfold send_ok. apply sync_points_from in Hin as [Hin|Hin].
    - unfold rows_sendable in RD. rewrite Forall_forall in RD. destruct (RD _ Hin) as [A B].
      destruct KD as [Hk _]. unfold keys_norm in Hk. rewrite Forall_forall in Hk. auto.
    - unfold rows_sendable in RU. rewrite Forall_forall in RU. destruct (RU _ Hin) as [A B].
      destruct KU as [Hk _]. unfold keys_norm in Hk. rewrite Forall_forall in Hk. auto. }
  destruct (apply_edge_sends_rows _ D U id pl pu SD SU Hpl Hpu Hn Hnl Hnu Hs) as (A & B & C1 & C2 & N1 & N2).
  cbv zeta in A, B, C1, C2, N1, N2. rewrite A, B.
  destruct (exchange_join (edge_rows D pl id) (edge_rows U pu id) (proj1 KD) (proj1 KU) (proj2 KD) (proj2 KU) Hties t k) as [E1 E2].
  cbv zeta in E1, E2. auto 10.
Qed.

(* ---------- non-vacuity: the example states of Sync/Proofs.v meet side_ok for the placement (dev, c) ---------- *)
Lemma fold_wr_run ops : forall st, fold_left wr ops st = run st ops.
Proof. induction ops as [|o ops IH]; intros st; cbn [fold_left run]; [reflexivity|]. apply IH. Qed.

Lemma edges_ok_st0 : edges_ok st0.
Proof. intros e []. Qed.

Lemma reachable_ok ops : Forall op_ok ops ->
  wf (run st0 ops) /\ Inv (run st0 ops) /\ edges_ok (run st0 ops).
Proof.
  intros H. destruct (run_inv ops st0 wf_st0 inv_st0 H) as [W I]. split; [exact W|]. split; [exact I|].
  apply run_edges_ok; auto using wf_st0, inv_st0, edges_ok_st0.
Qed.

Example side_ok_exD : side_ok exD id_dev id_c.
Proof.
  unfold exD. change (mkStore [] [] [] 0%N) with st0. rewrite fold_wr_run.
  match goal with |- side_ok (run st0 ?ops) _ _ => destruct (reachable_ok ops) as (W & I & E) end.
  - repeat constructor; discriminate.
  - constructor; try assumption; [vm_compute; eexists; reflexivity|vm_compute; discriminate].
Qed.

Example side_ok_exU : side_ok exU id_dev id_c.
Proof.
  unfold exU. change (mkStore [] [] [] 0%N) with st0. rewrite fold_wr_run.
  match goal with |- side_ok (run st0 ?ops) _ _ => destruct (reachable_ok ops) as (W & I & E) end.
  - repeat constructor; discriminate.
  - constructor; try assumption; [vm_compute; eexists; reflexivity|vm_compute; discriminate].
Qed.
