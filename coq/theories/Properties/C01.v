(* C01 — newest point wins, whatever the delivery order or batching.
   Statements only; proofs in Store/ProofsRows.v and Store/ProofsTop.v.
   [lookup rows t k]: what a read returns for identity (type t, key k with "" = "0");
   [newer acc p]: p replaces acc iff acc's time <= p's time;
   [accepted_node st ops id]: the node points of the acknowledged requests for id, in delivery order. *)
From Coq Require Import Permutation.
From Verif Require Import Base.Bytes Store.GraphCount Store.GraphWalk Store.Model Store.ProofsRows Store.ProofsHash Store.ProofsTop Store.ProofsSpec.
From Verif Require Import Properties.StoreExample.
Local Open Scope N_scope.

(* for every history of requests (any targets, batch partition, duplicates, re-deliveries, refused
   requests in between) a read of identity (t,k) of node id is the fold of [newer] over the accepted
   points of that identity: all fields of the winning point, key normalised *)
Theorem C01_newest_wins_node :
  forall ops st id t k, nodes_ok st ->
    lookup (node_rows (s_nodes (run st ops)) id) t k =
    fold_left newer (sel t k (map normp (accepted_node st ops id))) (lookup (node_rows (s_nodes st) id) t k).
Proof. exact newest_wins_node. Qed.
Print Assumptions C01_newest_wins_node.


(* the same for every edge, over whole histories: a read of identity (t,k) of the edge (par, id) is
   the fold of [newer] over the accepted edge points of that identity (node type points are not
   stored); requests are as they arrive over the bus (non-empty parent token) *)
Theorem C01_newest_wins_edge :
  forall ops st par id t k, wf st -> Inv st -> edges_ok st -> Forall op_ok ops ->
    lookup (edge_rows (run st ops) par id) t k =
    fold_left newer (sel t k (map normp (accepted_edge st ops par id))) (lookup (edge_rows st par id) t k).
Proof. exact newest_wins_edge. Qed.
Print Assumptions C01_newest_wins_edge.

(* the same for one edge-point request on an existing edge (node type points are not stored) *)
Theorem C01_edge_write :
  forall st id par pts st' e, par <> [] -> keys_norm (e_pts e) ->
    find_edge (s_edges st) par id = Some e -> edge_points st id par pts = Ok st' ->
    exists e', In e' (s_edges st') /\ e_id e' = e_id e /\ e_up e' = par /\ e_down e' = id /\
               e_pts e' = batch_rows true (e_pts e) pts.
Proof. exact edge_points_rows_existing. Qed.
Print Assumptions C01_edge_write.

Theorem C01_batch_lookup :
  forall skip db pts t k, keys_norm db ->
    lookup (batch_rows skip db pts) t k = fold_left newer (sel t k (map normp (eff skip pts))) (lookup db t k).
Proof. exact batch_rows_lookup. Qed.
Print Assumptions C01_batch_lookup.

(* the executable specification the checker evaluates on the dumps of a real instance (a fold of
   [newest_step] over the acknowledged deliveries) reads, per identity, as that same fold of [newer] *)
Theorem C01_spec_is_fold :
  forall init ps t k,
    lookup (fold_left newest_step ps init) t k = fold_left newer (sel t k (map normp ps)) (lookup init t k).
Proof. exact spec_newest_lookup. Qed.
Print Assumptions C01_spec_is_fold.

(* that fold is THE point with the greatest timestamp *)
Theorem C01_fold_is_max :
  forall l a, match fold_left newer l (Some a) with Some m => is_max (a :: l) m | None => False end.
Proof. exact fold_newer_max. Qed.
Print Assumptions C01_fold_is_max.

Theorem C01_max_unique :
  forall l m1 m2, distinct_times l -> is_max l m1 -> is_max l m2 -> m1 = m2.
Proof. exact max_unique. Qed.
Print Assumptions C01_max_unique.

(* hence independent of order, grouping and duplication of the deliveries *)
Theorem C01_history_independent :
  forall ps ps' t k, Permutation ps ps' -> distinct_times (sel t k (map normp ps)) ->
    fold_left newer (sel t k (map normp ps)) None = fold_left newer (sel t k (map normp ps')) None.
Proof. exact history_independent. Qed.
Print Assumptions C01_history_independent.

(* no second point for an identity, in every reachable state *)
Theorem C01_unique :
  forall ops st, nodes_ok st -> nodes_ok (run st ops).
Proof. exact run_nodes_ok. Qed.
Print Assumptions C01_unique.

(* a point older than the one held never changes what is read *)
Theorem C01_stale_ignored :
  forall rows p q t k, keys_norm rows -> lookup rows t k = Some q -> is_id t k p = true ->
    (p_time p < p_time q)%Z -> lookup (batch_rows false rows [p]) t k = Some q.
Proof. exact stale_ignored. Qed.
Print Assumptions C01_stale_ignored.

(* non-vacuity: in the example history node c receives ("value","")@20, ("value","0")@10 in one
   batch and later the stale ("value","")@15; the read returns the point written at 20 *)
Example C01_example :
  nodes_ok st0 /\
  option_map (fun p => (p_key p, p_time p, p_val p)) (lookup (node_rows (s_nodes ex_st) id_c) t_value []) =
  Some (str_0, 20%Z, 0x4000000000000000).
Proof. split; [exact nodes_ok_st0|vm_compute; reflexivity]. Qed.
