(* C07 — exactly one running client per live configured node (claimed partially: the theorems are about the
   event-driven model of one Manager; goroutine scheduling inside Run's select, NATS callback threads and the 5 s
   shutdown guard are outside it).  Statements only; proofs in Manager/Proofs.v, the refutation for the pinned
   code in Manager/Legacy.v. *)
From Coq Require Import List NArith Bool.
Import ListNotations.
From Verif Require Import Base.Bytes Store.Model Manager.Model Manager.Proofs Manager.Legacy.
Local Open Scope N_scope.

(* after Scan(view): started = view \ running, stop requested = running \ view, nothing is started twice,
   only what the scan found is started, and the map gains exactly the started keys *)
Theorem scan_post : forall st view st' acts,
  m_done st = false -> m_stopping st = false -> step st (Scan view) = (st', acts) ->
  let started := vkeys (starts acts) in
  (forall k, In k started <-> In k (vkeys view) /\ ~ In k (keys (m_clients st))) /\
  (forall k, In (AStopReq k) acts <-> In k (keys (m_clients st)) /\ ~ In k (vkeys view)) /\
  NoDup started /\ incl (starts acts) view /\
  keys (m_clients st') = keys (m_clients st) ++ started.
Proof. exact scan_post_proof. Qed.
Print Assumptions scan_post.

(* for every finite event history: once the store stays at the state whose scan finds V (only scans and client
   exits with their rescan happen: no more stop requests from subscriptions), a scan has happened and every stop
   request has been served (no client is marked stopping), the running clients are exactly the placements of V,
   one per key, none for anything that is not placed (deleted nodes), each constructed from what a scan found *)
Theorem C07_quiescent : forall (hist : list event) (V : list placement) (drain : list event),
  let st := fst (run m_init (hist ++ drain)) in
  Forall (at_view V) drain -> In (Scan V) drain ->
  m_stopping st = false -> no_pending st ->
  (forall k, In k (keys (m_clients st)) <-> In k (vkeys V)) /\
  NoDup (keys (m_clients st)) /\
  (forall c, In c (m_clients st) ->
     cs_key c = pl_key (cs_pl c) /\ exists view, In view (views_of (hist ++ drain)) /\ In (cs_pl c) view).
Proof. exact C07_quiescent_proof. Qed.
Print Assumptions C07_quiescent.

(* the pending events can be drained: after a scan, serving the stop requests one by one (each exit followed by
   its rescan) ends, after at most |clients| exits, in a state without pending stop requests *)
Theorem C07_drain_reaches_quiescence : forall hist V,
  let st := fst (run m_init hist) in
  m_stopping st = false ->
  let st1 := fst (step st (Scan V)) in
  let st2 := fst (drain (S (length (m_clients st1))) st1 V) in
  no_pending st2 /\ m_stopping st2 = false /\
  exists es, Forall (at_view V) es /\ In (Scan V) es /\ fst (run m_init (hist ++ es)) = st2.
Proof. exact C07_drain_reachable. Qed.
Print Assumptions C07_drain_reaches_quiescence.

(* what the scan finds (model of scanHelper over the dump, with GetNodes' reading of "deleted") is what should be
   running (specification: live edges from a holder reachable from the root through live edges into groups /
   configured parent types), whenever the two readings of a tombstone agree (values 0, 1, 2) *)
Theorem C07_scan_finds_placements : forall vs T root PT,
  (forall v, In v vs -> gn_live v = view_live v) ->
  forall v, In v (scan_nodes vs root T PT) <-> In v (placements vs root T PT).
Proof. exact scan_finds_placements_proof. Qed.
Print Assumptions C07_scan_finds_placements.

(* one client per (parent, id): the map key determines both when the parent id contains no "-" *)
Theorem C07_key_determines_placement : forall p1 i1 p2 i2,
  ~ In dash p1 -> ~ In dash p2 -> mapkey p1 i1 = mapkey p2 i2 -> p1 = p2 /\ i1 = i2.
Proof. exact mapkey_inj. Qed.
Print Assumptions C07_key_determines_placement.

(* between the start of a client for a key and the exit that removes it no second start for that key occurs:
   the log of starts and exits of every history passes the overlap check (the same executable check is run on the
   log of the real manager).  Assumption named: a client's Run returns within the 5 s guard after Stop, so that
   ClientExited stands for the real end of Run. *)
Theorem C07_no_overlap : forall es : list event,
  overlap_free [] (log_of_actions (snd (run m_init es))) = true.
Proof. exact C07_no_overlap_proof. Qed.
Print Assumptions C07_no_overlap.

(* a stop request from the subscription of client k, its exit and the rescan give a fresh client for k,
   constructed with what that rescan finds (adding or removing a child restarts the client) *)
Theorem C07_child_restart : forall hist V k u p,
  let st := fst (run m_init hist) in
  m_stopping st = false -> In k (keys (m_clients st)) ->
  In p V -> pl_key p = k -> (forall q, In q V -> pl_key q = k -> q = p) ->
  let r := run st [UpEdge k u; ClientExited k V] in
  In (AExit k) (snd r) /\ In (AStart p) (snd r) /\ In (client_of p) (m_clients (fst r)).
Proof. exact C07_child_restart_proof. Qed.
Print Assumptions C07_child_restart.

(* Stop asks every client to stop, nothing is started afterwards, and once every client has exited (in any
   order) the machine is in its terminal state with no client left (Run returns); the 5 s guard of the real
   loop is not needed when every client exits *)
Theorem C07_stop_returns : forall hist V,
  let st := fst (run m_init hist) in
  m_stopping st = false ->
  let st1 := fst (step st Stop) in
  (forall k, In (AStopReq k) (snd (step st Stop)) <-> In k (keys (m_clients st))) /\ all_stopping st1 /\
  (forall es, starts (snd (run st1 es)) = []) /\
  (forall ks, NoDup ks -> (forall k, In k ks <-> In k (keys (m_clients st))) ->
     let st2 := fst (run st1 (map (fun k => ClientExited k V) ks)) in m_done st2 = true /\ m_clients st2 = []).
Proof. exact C07_stop_reachable. Qed.
Print Assumptions C07_stop_returns.

(* the statement is false of the pinned code (early return from scan) *)
Theorem C07_pinned_code_refuted :
  exists (hist : list event) (V : list placement) (drain : list event),
    Forall (at_view V) drain /\ In (Scan V) drain /\
    let st := fst (run_pinned m_init (hist ++ drain)) in
    m_stopping st = false /\ no_pending st /\
    V = [] /\ keys (m_clients st) = [mapkey lg_g lg_n] /\
    placements lg_after lg_r lg_T [] = [].
Proof. exact C07_current_refuted. Qed.
Print Assumptions C07_pinned_code_refuted.

(* non-vacuity: a store with a group g under the root r, a node n of the managed type under g, a second node m
   under r whose edge is deleted, a child k of n; the scan finds exactly g-n with its child; a history with a
   restart and the deletion of the group satisfies the hypotheses of C07_quiescent *)
Definition ex_m : bytes := [109]. Definition ex_k : bytes := [107].
Definition ex_vs : list edge_view :=
  lg_before ++ [lg_edge lg_r ex_m lg_T 0x3FF0000000000000; lg_edge lg_n ex_k str_kid 0].
Example C07_example :
  vkeys (scan_view ex_vs lg_r lg_T []) = [mapkey lg_g lg_n] /\
  map (fun v => mapkey (v_up v) (v_down v)) (placements ex_vs lg_r lg_T []) = [mapkey lg_g lg_n] /\
  map (fun p => map k_id (cf_kids (pl_cfg p))) (scan_view ex_vs lg_r lg_T []) = [[ex_k]] /\
  (forall v, In v ex_vs -> gn_live v = view_live v) /\
  let V0 := scan_view ex_vs lg_r lg_T [] in
  let hist := [Scan V0; UpEdge (mapkey lg_g lg_n) UNodeType; ClientExited (mapkey lg_g lg_n) V0] in
  let drain := [Scan lg_V; ClientExited (mapkey lg_g lg_n) lg_V] in
  let st := fst (run m_init (hist ++ drain)) in
  Forall (at_view lg_V) drain /\ In (Scan lg_V) drain /\ m_stopping st = false /\ no_pending st /\
  m_clients st = [] /\
  log_of_actions (snd (run m_init (hist ++ drain))) =
    [LgStart (mapkey lg_g lg_n); LgExit (mapkey lg_g lg_n); LgStart (mapkey lg_g lg_n); LgExit (mapkey lg_g lg_n)].
Proof.
  split; [vm_compute; reflexivity|]. split; [vm_compute; reflexivity|]. split; [vm_compute; reflexivity|].
  split; [intros v Hv; repeat (destruct Hv as [<-|Hv]; [vm_compute; reflexivity|]); destruct Hv|].
  cbv zeta. split; [constructor; [left; reflexivity|constructor; [right; eexists; reflexivity|constructor]]|].
  split; [left; reflexivity|]. split; [vm_compute; reflexivity|]. split; [intros c Hc; vm_compute in Hc; destruct Hc|].
  split; vm_compute; reflexivity.
Qed.
