(* C19 — Modbus client, server and transports agree end to end.
   Statements only; proofs are in Modbus/ClientProofs.v and Modbus/ConvProofs.v.
   [call] (Modbus/Client.v) is one client call: Encode, the server's Listen
   iteration on the packet (Decode, unit id, ProcessRequest, Encode), Decode of
   the answer and the response decoder, over a duplex that delivers whole
   packets; [served_bits]/[served_regs] is what the register file holds. *)
From Verif Require Import Base.Bytes Modbus.Regs Modbus.Pdu Modbus.PduSpec Modbus.RtuCrc Modbus.Frames Modbus.Client
  Modbus.Conv Modbus.PduProofs Modbus.ClientProofs Modbus.ConvProofs.
Local Open Scope N_scope.

(* every read the client API can issue, over RTU and over TCP with any transaction id
   (the id wraps inside next_tx): the call returns exactly the addressed coils / registers,
   exactly [q] of them, and an error when the server has to refuse the read (quantity
   outside 1..2000 / 1..125, range past 65535, unmapped address) *)
Theorem C19_read_agrees :
  forall t sid w a q,
    regs_ok (w_regs w) -> sid < 256 -> w_ctx w < 65536 -> a < 65536 -> q < 65536 ->
    let w' := world_after t w (w_regs w) in
    let bits := match served_bits (w_regs w) a q with Some b => Ok b | None => Err 6 end in
    let vals := match served_regs (w_regs w) a q with Some v => Ok v | None => Err 6 end in
    client_read_coils t sid w sid a q = Ok (w', bits) /\
    client_read_discrete_inputs t sid w sid a q = Ok (w', bits) /\
    client_read_holding_regs t sid w sid a q = Ok (w', vals) /\
    client_read_input_regs t sid w sid a q = Ok (w', vals) /\
    (forall b, served_bits (w_regs w) a q = Some b -> length b = N.to_nat q) /\
    (forall v, served_regs (w_regs w) a q = Some v -> length v = N.to_nat q).
Proof.
  intros t sid w a q Hrs Hsid Hctx Ha Hq. cbv zeta.
  repeat split.
  - apply read_bits_call; auto.
  - apply read_bits_call; auto.
  - apply read_regs_call; auto.
  - apply read_regs_call; auto.
  - intros b Hb. apply (served_bits_length _ _ _ _ Hb).
  - intros v Hv. apply (served_regs_length _ _ _ _ (proj2 Hrs) Hv).
Qed.
Print Assumptions C19_read_agrees.

(* after WriteSingleCoil / WriteSingleReg returned without error the server holds the
   written value and the next read returns it *)
Theorem C19_write_then_read :
  forall t sid w a w',
    regs_ok (w_regs w) -> sid < 256 -> w_ctx w < 65536 -> a < 65536 ->
    (forall v, client_write_single_coil t sid w sid a v = Ok (w', Ok []) ->
       s_coil (w_regs w') a = Some v /\
       client_read_coils t sid w' sid a 1 = Ok (world_after t w' (w_regs w'), Ok [v]) /\
       client_read_discrete_inputs t sid w' sid a 1 = Ok (world_after t w' (w_regs w'), Ok [v])) /\
    (forall v, v < 65536 -> client_write_single_reg t sid w sid a v = Ok (w', Ok []) ->
       s_reg (w_regs w') a = Some v /\
       client_read_holding_regs t sid w' sid a 1 = Ok (world_after t w' (w_regs w'), Ok [v]) /\
       client_read_input_regs t sid w' sid a 1 = Ok (world_after t w' (w_regs w'), Ok [v])).
Proof.
  intros t sid w a w' Hrs Hsid Hctx Ha. split.
  - intros v. apply write_coil_then_read; assumption.
  - intros v Hv. apply write_reg_then_read; assumption.
Qed.
Print Assumptions C19_write_then_read.

(* and the write call itself reports exactly whether the server accepted the write *)
Theorem C19_write_reports :
  forall t sid w a,
    regs_ok (w_regs w) -> sid < 256 -> w_ctx w < 65536 -> a < 65536 ->
    (forall v, client_write_single_coil t sid w sid a v =
       match s_write_coil (w_regs w) (a, v) with
       | inl rs' => Ok (world_after t w rs', Ok [])
       | inr _ => Ok (world_after t w (w_regs w), Err 6)
       end) /\
    (forall v, v < 65536 -> client_write_single_reg t sid w sid a v =
       match s_write_reg (w_regs w) (a, v) with
       | inl rs' => Ok (world_after t w rs', Ok [])
       | inr _ => Ok (world_after t w (w_regs w), Err 6)
       end).
Proof.
  intros t sid w a Hrs Hsid Hctx Ha. split.
  - intros v. apply write_coil_call; assumption.
  - intros v Hv. apply write_reg_call; assumption.
Qed.
Print Assumptions C19_write_reports.

(* framing: what Encode produces Decode gives back; a frame shorter than 4 (RTU) / 9 (TCP)
   bytes, an RTU frame whose trailer is not the CRC of its body, and a TCP frame whose
   transaction id is not the one the client sent are rejected; a rejected request leaves the
   server untouched and unanswered, a rejected response makes every client call fail *)
Theorem C19_frames_rejected :
  (forall id p, id < 256 -> pdu_ok p -> rtu_decode (rtu_encode id p) = Ok (id, p)) /\
  (forall packet, (length packet < 4)%nat -> rtu_decode packet = Err 2) /\
  (forall body c1 c0, (2 <= length body)%nat -> be16 c1 c0 <> rtu_crc body -> rtu_decode (body ++ [c1; c0]) = Err 3) /\
  (forall packet id p, rtu_decode packet = Ok (id, p) ->
     exists body c1 c0, packet = body ++ [c1; c0] /\ (2 <= length body)%nat /\ be16 c1 c0 = rtu_crc body) /\
  (forall ctx stx id p, ctx < 65536 -> snd p <> [] ->
     tcp_decode Server stx (snd (tcp_encode Client ctx id p)) = Ok ((ctx + 1) mod 65536, (id, p))) /\
  (forall tx id p, tx < 65536 -> snd p <> [] ->
     tcp_decode Client tx (snd (tcp_encode Server tx id p)) = Ok (tx, (id, p))) /\
  (forall r tx packet, (length packet < 9)%nat -> tcp_decode r tx packet = Err 2) /\
  (forall tx t1 t0 rest, (7 <= length rest)%nat -> be16 t1 t0 <> tx -> tcp_decode Client tx (t1 :: t0 :: rest) = Err 4) /\
  (forall t sid stx rs rx e, decode t Server stx (trunc rx) = Err e -> server_step t sid stx rs rx = Ok (stx, rs, None)) /\
  (forall t ctx b e, decode t Client ctx (trunc b) = Err e ->
     (forall chk fc q, finish_read_bits chk fc q (recv_pdu t ctx (Some b)) = Err e) /\
     (forall fc, finish_read_regs fc (recv_pdu t ctx (Some b)) = Err e) /\
     (forall req, finish_write req (recv_pdu t ctx (Some b)) = Err e)).
Proof.
  repeat split.
  - exact rtu_roundtrip.
  - exact rtu_short_rejected.
  - exact rtu_bad_crc_rejected.
  - exact rtu_accepts_only_valid.
  - exact tcp_roundtrip_to_server.
  - exact tcp_roundtrip_to_client.
  - exact tcp_short_rejected.
  - exact tcp_txid_mismatch_rejected.
  - exact rejected_request_ignored.
  - apply rejected_response_reported; assumption.
  - apply rejected_response_reported; assumption.
  - apply rejected_response_reported; assumption.
Qed.
Print Assumptions C19_frames_rejected.

(* conversions: exact inverses in both directions and both word orders (float32 as bit patterns) *)
Theorem C19_conv_inverse :
  (forall vs, Forall u32_ok vs -> RegsToUint32 (Uint32ToRegs vs) = vs) /\
  (forall rs, Forall u16_ok rs -> Nat.even (length rs) = true -> Uint32ToRegs (RegsToUint32 rs) = rs) /\
  (forall vs, Forall u32_ok vs -> RegsToUint32SwapWords (Uint32ToRegsSwapRegs vs) = vs) /\
  (forall rs, Forall u16_ok rs -> Nat.even (length rs) = true -> Uint32ToRegsSwapRegs (RegsToUint32SwapWords rs) = rs) /\
  (forall vs, Forall i32_ok vs -> RegsToInt32 (Int32ToRegs vs) = vs) /\
  (forall rs, Forall u16_ok rs -> Nat.even (length rs) = true -> Int32ToRegs (RegsToInt32 rs) = rs) /\
  (forall vs, Forall i32_ok vs -> RegsToInt32SwapWords (Int32ToRegsSwapWords vs) = vs) /\
  (forall rs, Forall u16_ok rs -> Nat.even (length rs) = true -> Int32ToRegsSwapWords (RegsToInt32SwapWords rs) = rs) /\
  (forall vs, Forall u32_ok vs -> RegsToFloat32 (Float32ToRegs vs) = vs) /\
  (forall rs, Forall u16_ok rs -> Nat.even (length rs) = true -> Float32ToRegs (RegsToFloat32 rs) = rs) /\
  (forall vs, Forall u32_ok vs -> RegsToFloat32SwapWords (Float32ToRegsSwapWords vs) = vs) /\
  (forall rs, Forall u16_ok rs -> Nat.even (length rs) = true -> Float32ToRegsSwapWords (RegsToFloat32SwapWords rs) = rs) /\
  (forall vs, Forall u16_ok vs -> Uint16Array (PutUint16Array vs) = vs) /\
  (forall d, Forall (fun b => b < 256) d -> Nat.even (length d) = true -> PutUint16Array (Uint16Array d) = d) /\
  (forall rs, Forall u16_ok rs -> map of_int16 (RegsToInt16 rs) = rs) /\
  (forall zs, Forall i16_ok zs -> RegsToInt16 (map of_int16 zs) = zs).
Proof.
  repeat split.
  - exact (proj1 (uint32_inverse false)).
  - exact (proj2 (uint32_inverse false)).
  - exact (proj1 (uint32_inverse true)).
  - exact (proj2 (uint32_inverse true)).
  - exact (proj1 (int32_inverse false)).
  - exact (proj2 (int32_inverse false)).
  - exact (proj1 (int32_inverse true)).
  - exact (proj2 (int32_inverse true)).
  - exact (proj1 (uint32_inverse false)).
  - exact (proj2 (uint32_inverse false)).
  - exact (proj1 (uint32_inverse true)).
  - exact (proj2 (uint32_inverse true)).
  - exact (proj1 uint16_array_inverse).
  - exact (proj2 uint16_array_inverse).
  - exact (proj1 int16_inverse).
  - exact (proj2 int16_inverse).
Qed.
Print Assumptions C19_conv_inverse.

(* non-vacuity and anchors: the CRC of the example frame of the serial line specification
   (01 03 00 00 00 0A -> C5 CD on the wire), and a 12-coil read over RTU and TCP on a
   concrete register file with a validator *)
Example C19_crc_vector : rtu_encode 1 (3, [0; 0; 0; 10]) = [1; 3; 0; 0; 0; 10; 197; 205].
Proof. vm_compute. reflexivity. Qed.

Example C19_example :
  let rs := [ {| r_addr := 8; r_val := 2565; r_v := VEven |}; {| r_addr := 9; r_val := 1; r_v := VNone |} ] in
  let w := {| w_ctx := 65535; w_stx := 7; w_regs := rs |} in
  regs_ok rs /\
  served_bits rs 128 12 = Some [true; false; true; false; false; false; false; false; false; true; false; true] /\
  client_read_coils RTU 17 w 17 128 12 =
    Ok (world_after RTU w rs, Ok [true; false; true; false; false; false; false; false; false; true; false; true]) /\
  client_read_discrete_inputs TCP 17 w 17 128 12 =
    Ok ({| w_ctx := 0; w_stx := 0; w_regs := rs |},
        Ok [true; false; true; false; false; false; false; false; false; true; false; true]).
Proof.
  cbv zeta. split; [|split; [|split]]; try (vm_compute; reflexivity).
  split; cbn.
  - constructor; [intros [E|[]]; discriminate|]. constructor; [intros []|constructor].
  - repeat constructor; lia.
Qed.

(* ---------- tie to the source text ----------
   modbus.RtuCrc, printed from modbus/crc.go by the translator (harness/cmd/anchors) as a MiniGo syntax tree and
   run by the evaluator of MiniGo/Syntax.v, computes the checksum [rtu_crc] of the model that the frame theorems
   above are about, for every buffer (Anchors/TieRtuCrc.v). *)
From Coq Require Import ZArith List.
From Verif Require Import MiniGo.Syntax Anchors.Generated Anchors.TieRtuCrc.

Theorem C19_rtu_crc_from_source : forall buf, bytes_ok buf = true ->
  run go_modbus_RtuCrc [map Z.of_N buf] [] = Some (Z.of_N (rtu_crc buf)).
Proof. exact go_RtuCrc_is_model_bytes. Qed.
Print Assumptions C19_rtu_crc_from_source.

(* modbus/data.go from the source: each of its fifteen conversion functions, as the translator printed it
   (Anchors/Generated.v, syntax trees of MiniGo/Slice.v), evaluates under MiniGo/Slice.v's semantics to the
   model function of Modbus/Conv.v that C19_conv_inverse is about -- for every input slice within the
   element range of its Go type (float32 values as bit patterns; len_ok: fewer than 2^61 elements).
   Proofs: Anchors/TieModbusData.v. *)
From Verif Require Import MiniGo.Slice Anchors.TieModbusData.
Theorem C19_conv_from_source :
  (forall rs, Forall u16_ok rs -> len_ok rs ->
     srun go_modbus_RegsToUint32 [map Z.of_N rs] = Some (map Z.of_N (RegsToUint32 rs)) /\
     srun go_modbus_RegsToUint32SwapWords [map Z.of_N rs] = Some (map Z.of_N (RegsToUint32SwapWords rs)) /\
     srun go_modbus_RegsToInt32 [map Z.of_N rs] = Some (RegsToInt32 rs) /\
     srun go_modbus_RegsToInt32SwapWords [map Z.of_N rs] = Some (RegsToInt32SwapWords rs) /\
     srun go_modbus_RegsToFloat32 [map Z.of_N rs] = Some (map Z.of_N (RegsToFloat32 rs)) /\
     srun go_modbus_RegsToFloat32SwapWords [map Z.of_N rs] = Some (map Z.of_N (RegsToFloat32SwapWords rs)) /\
     srun go_modbus_RegsToInt16 [map Z.of_N rs] = Some (RegsToInt16 rs) /\
     srun go_modbus_PutUint16Array [map Z.of_N rs] = Some (map Z.of_N (PutUint16Array rs))) /\
  (forall us, Forall u32_ok us -> len_ok us ->
     srun go_modbus_Uint32ToRegs [map Z.of_N us] = Some (map Z.of_N (Uint32ToRegs us)) /\
     srun go_modbus_Uint32ToRegsSwapRegs [map Z.of_N us] = Some (map Z.of_N (Uint32ToRegsSwapRegs us)) /\
     srun go_modbus_Float32ToRegs [map Z.of_N us] = Some (map Z.of_N (Float32ToRegs us)) /\
     srun go_modbus_Float32ToRegsSwapWords [map Z.of_N us] = Some (map Z.of_N (Float32ToRegsSwapWords us))) /\
  (forall zs, Forall i32_ok zs -> len_ok zs ->
     srun go_modbus_Int32ToRegs [zs] = Some (map Z.of_N (Int32ToRegs zs)) /\
     srun go_modbus_Int32ToRegsSwapWords [zs] = Some (map Z.of_N (Int32ToRegsSwapWords zs))) /\
  (forall d, Forall byte_ok d -> len_ok d ->
     srun go_modbus_Uint16Array [map Z.of_N d] = Some (map Z.of_N (Uint16Array d))).
Proof.
  split; [|split; [|split]].
  - intros rs Hok Hlen. repeat split.
    + exact (go_RegsToUint32_is_model rs Hok Hlen).
    + exact (go_RegsToUint32SwapWords_is_model rs Hok Hlen).
    + exact (go_RegsToInt32_is_model rs Hok Hlen).
    + exact (go_RegsToInt32SwapWords_is_model rs Hok Hlen).
    + exact (go_RegsToFloat32_is_model rs Hok Hlen).
    + exact (go_RegsToFloat32SwapWords_is_model rs Hok Hlen).
    + exact (go_RegsToInt16_is_model rs Hok Hlen).
    + exact (go_PutUint16Array_is_model rs Hok Hlen).
  - intros us Hok Hlen. repeat split.
    + exact (go_Uint32ToRegs_is_model us Hok Hlen).
    + exact (go_Uint32ToRegsSwapRegs_is_model us Hok Hlen).
    + exact (go_Float32ToRegs_is_model us Hok Hlen).
    + exact (go_Float32ToRegsSwapWords_is_model us Hok Hlen).
  - intros zs Hok Hlen. split.
    + exact (go_Int32ToRegs_is_model zs Hok Hlen).
    + exact (go_Int32ToRegsSwapWords_is_model zs Hok Hlen).
  - intros d Hok Hlen. exact (go_Uint16Array_is_model d Hok Hlen).
Qed.
Print Assumptions C19_conv_from_source.

(* ... and a statement in which the model no longer occurs: what one printed function returns, given to the printed
   function of the other direction, is the input again -- uint32, float32 patterns and int32, both word orders *)
Theorem C19_printed_conversions_inverse :
  (forall us, Forall u32_ok us -> len_ok2 us ->
     (exists rs, srun go_modbus_Uint32ToRegs [map Z.of_N us] = Some rs /\ srun go_modbus_RegsToUint32 [rs] = Some (map Z.of_N us)) /\
     (exists rs, srun go_modbus_Uint32ToRegsSwapRegs [map Z.of_N us] = Some rs /\ srun go_modbus_RegsToUint32SwapWords [rs] = Some (map Z.of_N us)) /\
     (exists rs, srun go_modbus_Float32ToRegs [map Z.of_N us] = Some rs /\ srun go_modbus_RegsToFloat32 [rs] = Some (map Z.of_N us)) /\
     (exists rs, srun go_modbus_Float32ToRegsSwapWords [map Z.of_N us] = Some rs /\ srun go_modbus_RegsToFloat32SwapWords [rs] = Some (map Z.of_N us))) /\
  (forall zs, Forall i32_ok zs -> len_ok2 zs ->
     (exists rs, srun go_modbus_Int32ToRegs [zs] = Some rs /\ srun go_modbus_RegsToInt32 [rs] = Some zs) /\
     (exists rs, srun go_modbus_Int32ToRegsSwapWords [zs] = Some rs /\ srun go_modbus_RegsToInt32SwapWords [rs] = Some zs)).
Proof. split; [exact printed_uint32_inverse|exact printed_int32_inverse]. Qed.
Print Assumptions C19_printed_conversions_inverse.

(* the same for the byte view of a register list: the printed Uint16Array undoes the printed PutUint16Array *)
Theorem C19_printed_uint16_array_inverse : forall vs, Forall u16_ok vs -> len_ok2 vs ->
  exists d, srun go_modbus_PutUint16Array [map Z.of_N vs] = Some d /\ srun go_modbus_Uint16Array [d] = Some (map Z.of_N vs).
Proof. exact printed_uint16_array_inverse. Qed.
Print Assumptions C19_printed_uint16_array_inverse.

(* the premises are satisfiable and the printed functions run: two registers to one value and back, both word orders *)
Example C19_conv_from_source_example :
  srun go_modbus_RegsToUint32 [[4660; 22136]%Z] = Some [305419896%Z] /\
  srun go_modbus_Uint32ToRegsSwapRegs [[305419896]%Z] = Some [22136; 4660]%Z /\
  srun go_modbus_RegsToInt32 [[65535; 65534]%Z] = Some [(-2)%Z] /\
  srun go_modbus_Uint16Array [[1; 2; 3]%Z] = Some [258%Z] /\
  srun go_modbus_RegsToUint32 [[1; 2; 3]%Z] = Some [65538%Z].
Proof. repeat split; vm_compute; reflexivity. Qed.

(* the frame check of the RTU transport from the source: modbus.CheckRtuCrc as printed from modbus/crc.go (it calls the
   printed RtuCrc on the packet without its last two bytes and reads those two big-endian) returns the error that the
   model's check_rtu_crc names -- nil, ErrNotEnoughData or ErrCRC -- for every packet of bytes, and leaves the packet as it was.
   check_rtu_crc is what rtu_decode, and with it C19_frames_rejected, is built on.  Proof: Anchors/TieCheckCrc.v. *)
From Verif Require Import Anchors.TieCheckCrc.
Theorem C19_check_crc_from_source : forall p : list N, Forall (fun b => (b < 256)%N) p -> packet_len_ok p ->
  srun_inplace go_modbus_CheckRtuCrc [map Z.of_N p] = Some (0%Z, err_of (check_rtu_crc p), map Z.of_N p).
Proof. exact go_CheckRtuCrc_is_model. Qed.
Print Assumptions C19_check_crc_from_source.

(* ... and without the model in the statement: a packet passes the printed CheckRtuCrc exactly when its last two bytes are,
   big-endian, what the printed RtuCrc returns for the bytes before them *)
Theorem C19_printed_check_iff_printed_crc : forall (body : list N) (c1 c0 : N),
  (2 <= List.length body)%nat -> Forall (fun b => (b < 256)%N) body -> (c1 < 256)%N -> (c0 < 256)%N ->
  (Z.of_nat (List.length body) < 2 ^ 60)%Z ->
  exists crc e, run go_modbus_RtuCrc [map Z.of_N body] [] = Some crc /\
    srun_inplace go_modbus_CheckRtuCrc [map Z.of_N (body ++ [c1; c0])] = Some (0%Z, e, map Z.of_N (body ++ [c1; c0])) /\
    (e = Coq.Strings.String.EmptyString <-> crc = (Z.of_N c1 * 256 + Z.of_N c0)%Z).
Proof. exact printed_check_iff_printed_crc. Qed.
Print Assumptions C19_printed_check_iff_printed_crc.

(* ---------- a register map that grows while the server is serving (Regs.AddReg between requests) ----------
   adding a register changes nothing that the map already held, for registers and for coils; a new register reads 0
   (Modbus/GrowProofs.v).  The sessions of the check add registers between calls (call 7) and the theorems above
   then apply to the grown map. *)
From Verif Require Import Modbus.C19Check Modbus.GrowProofs.
Theorem C19_growing_map_keeps_values : forall rs a x,
  read_reg (add_reg rs a) x =
  match read_reg rs x with
  | Some v => Some v
  | None => if (a =? u16 x)%N then Some 0%N else None
  end.
Proof. exact add_reg_reads. Qed.
Print Assumptions C19_growing_map_keeps_values.

(* ---------- short length ----------
   a read response whose payload is shorter than the byte count it announces (for registers: than the whole registers
   of that count) is rejected, whatever else it holds — the clause "frames with … short length … are rejected" at the
   level of the response PDU, where neither the RTU checksum nor the MBAP header can see it (Modbus/ShortProofs.v).
   The sessions of the check truncate TCP responses behind the header and require the call to fail (s_short_read). *)
From Verif Require Import Modbus.ShortProofs.
Theorem C19_short_read_rejected :
  (forall fc n rest, (fc = 3 \/ fc = 4) -> n < 256 -> len rest < 2 * (n / 2) -> resp_read_regs (fc, n :: rest) = Err 7)%N /\
  (forall fc, resp_read_regs (fc, []) = Err 7)%N /\
  (forall fc count n rest, (fc = 1 \/ fc = 2) -> len rest < n -> resp_read_bits_count (fc, n :: rest) count = Err 7)%N /\
  (forall fc count, (fc = 1 \/ fc = 2) -> resp_read_bits_count (fc, []) count = Err 7)%N.
Proof. exact (conj short_regs_rejected (conj empty_regs_rejected (conj short_bits_rejected empty_bits_rejected))). Qed.
Print Assumptions C19_short_read_rejected.
