(* C16 — COBS framing delivers each frame intact for any read chunking.
   Statements only; proofs are in Cobs/Proofs.v. *)
From Verif Require Import Base.Bytes Cobs.Model Cobs.Proofs.
Local Open Scope N_scope.

(* the in-place decoder inverts the frame writer's encoder for every byte list *)
Theorem C16_cobs_roundtrip :
  forall f, Forall (fun b => b < 256) f -> decode (encode f) = Some f.
Proof. exact cobs_roundtrip. Qed.
Print Assumptions C16_cobs_roundtrip.

(* every segmentation of the written stream into device reads returns exactly
   the frames written, in order, each once, then the device's end of script *)
Theorem C16_chunking_invariant :
  forall blen maxlen fs chunks,
    (0 < blen)%nat ->
    Forall (frame_ok blen maxlen) fs ->
    concat chunks = concat (map write fs) ->
    reads_all blen maxlen chunks = map RFrame fs ++ [RErr 9].
Proof. exact chunking_invariant. Qed.
Print Assumptions C16_chunking_invariant.

(* after arbitrary damaged bytes [junk] and one delimiter, every frame is again
   delivered intact; when the damage's zero-free runs fit the buffer limits it yields
   exactly one result per damaged segment (a sharper form of C16_resync below) *)
Theorem C16_resync_bounded :
  forall blen maxlen junk fs chunks,
    (0 < blen)%nat ->
    Forall (frame_ok blen maxlen) fs ->
    Forall (fun s => (length s < blen)%nat /\ (length s <= maxlen)%nat) (fst (frames (junk ++ [0]))) ->
    concat chunks = junk ++ 0 :: concat (map write fs) ->
    reads_all blen maxlen chunks =
      map (seg_result blen) (fst (frames (junk ++ [0]))) ++ map RFrame fs ++ [RErr 9].
Proof. exact resync_bounded. Qed.
Print Assumptions C16_resync_bounded.


(* second sentence at full strength: after ANY damaged bytes [junk] (corrupted, lost or inserted
   bytes of earlier frames; any length, any content, also runs longer than the buffers, which make
   the length guards fire and the buffered damage be discarded) and one delimiter, for every
   segmentation into device reads the results end with exactly the frames written after that
   delimiter: only results produced from the damage ([pre]) may be errors or wrong *)
Theorem C16_resync :
  forall blen maxlen fs junk chunks,
    (0 < blen)%nat ->
    Forall (frame_ok blen maxlen) fs ->
    concat chunks = junk ++ 0 :: concat (map write fs) ->
    exists pre, reads_all blen maxlen chunks = pre ++ map RFrame fs ++ [RErr 9].
Proof. intros blen maxlen fs junk chunks Hb Hok Hc. exact (resync blen maxlen fs Hb Hok blen junk chunks eq_refl Hc). Qed.
Print Assumptions C16_resync.

(* non-vacuity: concrete frames meet the hypotheses *)
Example C16_frame_ok_example :
  Forall (frame_ok 16 16) [[1; 0; 2]; [0]; [255; 255; 0; 0; 7]].
Proof.
  repeat constructor; try discriminate; cbn; lia.
Qed.

(* ---------- the encoder from the source ----------
   client.cobsEncode as the translator printed it from client/cobs-wrapper.go on this run (Anchors/Generated.v, a
   syntax tree of MiniGo/Slice.v: make, append, a code byte patched in place, if, ||) evaluates, under
   MiniGo/Slice.v's semantics, to the model's [encode] -- the function every theorem above is about -- for every
   frame of bytes (frame_len_ok: fewer than 2^60 bytes).  Proofs: Anchors/TieCobs.v (the printed loop is a fold of one
   step; on bytes that step is Cobs/EncLoop.v's stepN) and Cobs/EncLoop.v (the fold of stepN is [encode]). *)
From Coq Require Import ZArith.
From Verif Require Import MiniGo.Slice Anchors.Generated Anchors.TieCobs.
Theorem C16_encoder_from_source : forall f : list N, Forall (fun b => (b < 256)%N) f -> frame_len_ok f ->
  srun go_client_cobsEncode [map Z.of_N f] = Some (map Z.of_N (encode f)).
Proof. exact go_cobsEncode_is_model. Qed.
Print Assumptions C16_encoder_from_source.

(* with C16_cobs_roundtrip: what the printed encoder emits is decoded (by the model of cobsDecodeInplace) to the frame *)
Theorem C16_printed_encoder_decodes : forall f : list N, Forall (fun b => (b < 256)%N) f -> frame_len_ok f ->
  exists e, srun go_client_cobsEncode [map Z.of_N f] = Some (map Z.of_N e) /\ decode e = Some f.
Proof.
  intros f Hok Hlen. exists (encode f). split; [exact (go_cobsEncode_is_model f Hok Hlen)|exact (cobs_roundtrip f Hok)].
Qed.
Print Assumptions C16_printed_encoder_decodes.

(* the premises are satisfiable and the printed function runs: a frame with zeros, the empty frame *)
Example C16_encoder_from_source_example :
  srun go_client_cobsEncode [[1; 0; 2; 3]%Z] = Some [2; 1; 3; 2; 3; 0]%Z /\
  srun go_client_cobsEncode [[]] = Some [1; 0]%Z.
Proof. split; vm_compute; reflexivity. Qed.

From Coq Require Import String.
(* ---------- the decoder from the source ----------
   client.cobsDecodeInplace as the translator printed it from client/cobs-wrapper.go on this run (Anchors/Generated.v: a
   three-clause loop, `continue` printed as if / else, early returns, an (int, error) result, the frame rewritten in
   place) evaluates, under MiniGo/Slice.v's semantics, to the model's [decode_inplace] for every non-empty buffer of bytes:
   the same error, the same length, and the decoded bytes at the start of the buffer.  (For the empty buffer the
   evaluator does not tell nil from empty; CobsWrapper.Read never passes one.)
   Proofs: Anchors/TieCobsDec.v (an iteration of the printed loop is Cobs/DecLoop.v's dstep, on each of its seven paths)
   and Cobs/DecLoop.v (the loop is the model's decoder: the output index never passes the input index). *)
From Verif Require Import Cobs.EncLoop Anchors.TieCobsDec.
From Coq Require Import Lia.
Theorem C16_decoder_from_source : forall b : list N, b <> [] -> Forall (fun x => (x < 256)%N) b -> buf_len_ok b ->
  exists r, srun_inplace go_client_cobsDecodeInplace [map Z.of_N b] = Some r /\ agrees (decode_inplace b) r.
Proof. exact go_cobsDecodeInplace_is_model. Qed.
Print Assumptions C16_decoder_from_source.

(* with C16_cobs_roundtrip and C16_encoder_from_source: what the printed encoder emits, the printed decoder turns back
   into the frame -- a statement about the two source-derived functions alone *)
Theorem C16_printed_codec_roundtrip : forall f : list N, f <> [] -> Forall (fun b => (b < 256)%N) f ->
  (Z.of_nat (List.length f) < 2 ^ 58)%Z ->
  exists e n B, srun go_client_cobsEncode [map Z.of_N f] = Some e /\
                srun_inplace go_client_cobsDecodeInplace [e] = Some (n, ""%string, B) /\
                n = Z.of_nat (List.length f) /\ firstn (List.length f) B = map Z.of_N f.
Proof.
  intros f Hnf Hok Hlen.
  assert (Hfl : frame_len_ok f) by (unfold frame_len_ok; lia).
  pose proof (go_cobsEncode_is_model f Hok Hfl) as HE.
  pose proof (encode_bytes f Hok) as Hbytes.
  assert (Hne : encode f <> []) by (unfold encode; intros Hc; apply app_eq_nil in Hc; destruct Hc; discriminate).
  assert (Hbl : buf_len_ok (encode f)).
  { unfold buf_len_ok. pose proof (encode_len_bound f Hok) as Hl. lia. }
  destruct (go_cobsDecodeInplace_is_model (encode f) Hne Hbytes Hbl) as [[[n e] B] [HD HA]].
  exists (map Z.of_N (encode f)), n, B. unfold agrees in HA. unfold encode in HA at 1.
  rewrite (decode_inplace_encode f Hnf Hok) in HA. destruct HA as [He [Hn HB]]. subst e.
  repeat split; assumption.
Qed.
Print Assumptions C16_printed_codec_roundtrip.

(* non-vacuity: the printed decoder evaluated on a dozen buffers gives what the model gives *)
Definition dec_model_res (b : list N) : option (Z * list Z) :=
  match decode_inplace b with
  | RFrame p => Some (Z.of_nat (List.length p), map Z.of_N p)
  | RErr e => Some (Z.opp (Z.of_N e), [])
  end.
Definition dec_printed_res (b : list N) : option (Z * list Z) :=
  match srun_inplace go_client_cobsDecodeInplace [map Z.of_N b] with
  | Some (n, ""%string, l) => Some (n, firstn (Z.to_nat n) l)
  | Some (_, "ErrCobsDecodeError"%string, _) => Some ((-1)%Z, [])
  | Some (_, _, _) => Some ((-3)%Z, [])
  | None => None
  end.
Definition dec_samples : list (list N) :=
  [[0;2;1;3;2;3;0]; [2;1;3;2;3;0]; [1;0;0]; [3;1;0;4;0]; [0;0;0]; [5;1;2;3;4;0;9]; [2;1]; [0;0;2;7;1;1;0;5];
   encode (repeat 7 254 ++ [0;5]); encode (repeat 9 600); [3;1;2;2;0]; [255;1;0]]%N.
Example C16_decoder_printed_agrees_on_samples :
  forallb (fun b => match dec_model_res b, dec_printed_res b with
                    | Some (n1, l1), Some (n2, l2) => Z.eqb n1 n2 && (if list_eq_dec Z.eq_dec l1 l2 then true else false)
                    | _, _ => false
                    end) dec_samples = true.
Proof. vm_compute. reflexivity. Qed.
