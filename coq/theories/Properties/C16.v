(* C16 — COBS framing delivers each frame intact for any read chunking.
   Statements only; proofs are in Cobs/Proofs.v. *)
From Verif Require Import Base.Bytes Cobs.Model Cobs.Proofs.
Local Open Scope N_scope.

(* the in-place decoder inverts the frame writer's encoder for every byte list *)
Theorem C16_cobs_roundtrip :
  forall f, Forall (fun b => b < 256) f -> decode (encode f) = Some f.
Proof. exact cobs_roundtrip. Qed.
Print Assumptions C16_cobs_roundtrip.

(* every segmentation of the written stream into device reads returns exactly
   the frames written, in order, each once, then the device's end of script *)
Theorem C16_chunking_invariant :
  forall blen maxlen fs chunks,
    (0 < blen)%nat ->
    Forall (frame_ok blen maxlen) fs ->
    concat chunks = concat (map write fs) ->
    reads_all blen maxlen chunks = map RFrame fs ++ [RErr 9].
Proof. exact chunking_invariant. Qed.
Print Assumptions C16_chunking_invariant.

(* after arbitrary damaged bytes [junk] and one delimiter, every frame is again
   delivered intact; when the damage's zero-free runs fit the buffer limits it yields
   exactly one result per damaged segment (a sharper form of C16_resync below) *)
Theorem C16_resync_bounded :
  forall blen maxlen junk fs chunks,
    (0 < blen)%nat ->
    Forall (frame_ok blen maxlen) fs ->
    Forall (fun s => (length s < blen)%nat /\ (length s <= maxlen)%nat) (fst (frames (junk ++ [0]))) ->
    concat chunks = junk ++ 0 :: concat (map write fs) ->
    reads_all blen maxlen chunks =
      map (seg_result blen) (fst (frames (junk ++ [0]))) ++ map RFrame fs ++ [RErr 9].
Proof. exact resync_bounded. Qed.
Print Assumptions C16_resync_bounded.


(* second sentence at full strength: after ANY damaged bytes [junk] (corrupted, lost or inserted
   bytes of earlier frames; any length, any content, also runs longer than the buffers, which make
   the length guards fire and the buffered damage be discarded) and one delimiter, for every
   segmentation into device reads the results end with exactly the frames written after that
   delimiter: only results produced from the damage ([pre]) may be errors or wrong *)
Theorem C16_resync :
  forall blen maxlen fs junk chunks,
    (0 < blen)%nat ->
    Forall (frame_ok blen maxlen) fs ->
    concat chunks = junk ++ 0 :: concat (map write fs) ->
    exists pre, reads_all blen maxlen chunks = pre ++ map RFrame fs ++ [RErr 9].
Proof. intros blen maxlen fs junk chunks Hb Hok Hc. exact (resync blen maxlen fs Hb Hok blen junk chunks eq_refl Hc). Qed.
Print Assumptions C16_resync.

(* non-vacuity: concrete frames meet the hypotheses *)
Example C16_frame_ok_example :
  Forall (frame_ok 16 16) [[1; 0; 2]; [0]; [255; 255; 0; 0; 7]].
Proof.
  repeat constructor; try discriminate; cbn; lia.
Qed.

(* ---------- the encoder from the source ----------
   client.cobsEncode as the translator printed it from client/cobs-wrapper.go on this run (Anchors/Generated.v, a
   syntax tree of MiniGo/Slice.v: make, append, a code byte patched in place, if, ||) evaluates, under
   MiniGo/Slice.v's semantics, to the model's [encode] -- the function every theorem above is about -- for every
   frame of bytes (frame_len_ok: fewer than 2^60 bytes).  Proofs: Anchors/TieCobs.v (the printed loop is a fold of one
   step; on bytes that step is Cobs/EncLoop.v's stepN) and Cobs/EncLoop.v (the fold of stepN is [encode]). *)
From Coq Require Import ZArith.
From Verif Require Import MiniGo.Slice Anchors.Generated Anchors.TieCobs.
Theorem C16_encoder_from_source : forall f : list N, Forall (fun b => (b < 256)%N) f -> frame_len_ok f ->
  srun go_client_cobsEncode [map Z.of_N f] = Some (map Z.of_N (encode f)).
Proof. exact go_cobsEncode_is_model. Qed.
Print Assumptions C16_encoder_from_source.

(* with C16_cobs_roundtrip: what the printed encoder emits is decoded (by the model of cobsDecodeInplace) to the frame *)
Theorem C16_printed_encoder_decodes : forall f : list N, Forall (fun b => (b < 256)%N) f -> frame_len_ok f ->
  exists e, srun go_client_cobsEncode [map Z.of_N f] = Some (map Z.of_N e) /\ decode e = Some f.
Proof.
  intros f Hok Hlen. exists (encode f). split; [exact (go_cobsEncode_is_model f Hok Hlen)|exact (cobs_roundtrip f Hok)].
Qed.
Print Assumptions C16_printed_encoder_decodes.

(* the premises are satisfiable and the printed function runs: a frame with zeros, the empty frame *)
Example C16_encoder_from_source_example :
  srun go_client_cobsEncode [[1; 0; 2; 3]%Z] = Some [2; 1; 3; 2; 3; 0]%Z /\
  srun go_client_cobsEncode [[]] = Some [1; 0]%Z.
Proof. split; vm_compute; reflexivity. Qed.
