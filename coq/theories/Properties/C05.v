(* C05 — the graph stays a rooted DAG and refused writes leave no trace.
   Statements only; proofs in Store/ProofsTop.v.  [handle st o] = (state after, reply, ids on whose
   rebroadcast subject the request is republished); reply 0 = ok, 1 = error. *)
From Verif Require Import Base.Bytes Store.GraphCount Store.GraphWalk Store.Model Store.ProofsRows Store.ProofsHash Store.ProofsTop.
From Verif Require Import Properties.StoreExample.
Local Open Scope N_scope.

(* any request answered with an error leaves everything unchanged and is not rebroadcast *)
Theorem C05_error_no_trace :
  forall st o, reply_of (handle st o) <> 0 -> state_of (handle st o) = st /\ pubs_of (handle st o) = [].
Proof. exact error_no_trace. Qed.
Print Assumptions C05_error_no_trace.

Theorem C05_always_answered : forall st o, reply_of (handle st o) = 0 \/ reply_of (handle st o) = 1.
Proof. exact reply_is_0_or_1. Qed.
Print Assumptions C05_always_answered.

(* refused classes *)
Theorem C05_refused_self_edge : forall st id pts, reply_of (handle st (EdgePts id id pts)) = 1.
Proof. exact refused_self_edge. Qed.
Print Assumptions C05_refused_self_edge.

Theorem C05_refused_cycle :
  forall st id par pts l, wf st -> par <> [] -> find_edge (s_edges st) par id = None ->
    gwalk (s_edges st) par l -> gendpoint par l = id ->
    reply_of (handle st (EdgePts id par pts)) = 1.
Proof. exact refused_cycle. Qed.
Print Assumptions C05_refused_cycle.

Theorem C05_refused_root_tombstone :
  forall st par pts,
    existsb (fun p => bytes_eqb (p_type p) str_tombstone && f64_gt0 (p_val p)) (collapse pts) = true ->
    reply_of (handle st (EdgePts (s_root st) par pts)) = 1.
Proof. exact refused_root_tombstone. Qed.
Print Assumptions C05_refused_root_tombstone.

Theorem C05_refused_no_node_type :
  forall st id par pts, par <> [] -> find_edge (s_edges st) par id = None ->
    last_node_type (collapse pts) = [] -> reply_of (handle st (EdgePts id par pts)) = 1.
Proof. exact refused_no_node_type. Qed.
Print Assumptions C05_refused_no_node_type.

Theorem C05_refused_nan_node : forall st id pts, has_nan pts = true -> reply_of (handle st (NodePts id pts)) = 1.
Proof. exact refused_nan_node. Qed.
Print Assumptions C05_refused_nan_node.

(* a time that does not fit the store's int64 nanosecond column (outside 1677-09-21 .. 2262-04-11) is refused
   in the same way *)
Theorem C05_refused_time_node : forall st id pts, bad_times pts = true -> reply_of (handle st (NodePts id pts)) = 1.
Proof. intros st id pts H. cbn [handle]. unfold node_points. rewrite H. destruct (has_nan pts); reflexivity. Qed.
Print Assumptions C05_refused_time_node.

Theorem C05_refused_time_edge : forall st id par pts, bad_times pts = true -> reply_of (handle st (EdgePts id par pts)) = 1.
Proof. intros st id par pts H. cbn [handle]. unfold edge_points. rewrite H. destruct (has_nan pts); reflexivity. Qed.
Print Assumptions C05_refused_time_edge.

Theorem C05_refused_nan_edge : forall st id par pts, has_nan pts = true -> reply_of (handle st (EdgePts id par pts)) = 1.
Proof. exact refused_nan_edge. Qed.
Print Assumptions C05_refused_nan_edge.

(* ... and those are the only node-point refusals: a node-point request without not-a-number is accepted in
   every state, so whatever was refused before, a request that was acceptable stays acceptable (the checker
   demands this of the implementation for re-sent requests: spec_c05_steps) *)
Theorem C05_node_points_accepted : forall st id pts,
  has_nan pts = false -> bad_times pts = false -> reply_of (handle st (NodePts id pts)) = 0.
Proof.
  intros st id pts H H2. cbn [handle]. unfold node_points. rewrite H, H2.
  destruct (merge_batch false (node_rows (s_nodes st) id) (collapse pts)). reflexivity.
Qed.
Print Assumptions C05_node_points_accepted.

(* every reachable graph is acyclic (wf), so ... *)
Theorem C05_acyclic_reachable :
  forall ops st, wf st -> Inv st -> Forall op_ok ops -> wf (run st ops) /\ Inv (run st ops).
Proof. exact run_inv. Qed.
Print Assumptions C05_acyclic_reachable.

(* ... the upward recursion of the hash update never runs out of fuel: more fuel changes nothing
   (the model of "the instance keeps answering"; on a cyclic graph it would grow without bound) *)
Theorem C05_total :
  forall st x F, wf st -> (fuel_of (s_edges st) <= F)%nat ->
    visits (s_edges st) (S F) x = visits (s_edges st) F x.
Proof. exact total_visits. Qed.
Print Assumptions C05_total.

(* non-vacuity: the cycle-closing request of the example history is refused and changes nothing *)
Example C05_example :
  let st := run st0 (firstn 8 ex_ops) in
  let o := nth 8 ex_ops (NodePts [] []) in
  reply_of (handle st o) = 1 /\ state_of (handle st o) = st /\ pubs_of (handle st o) = [].
Proof. vm_compute. repeat split; reflexivity. Qed.

(* ---------- tie to the source text ----------
   The two point types the refusals above turn on (a tombstone aimed at the root, the node type a first edge must
   carry) are the constants data/schema.go declares (printed into Anchors/Generated.v on every run). *)
From Verif Require Import Anchors.Generated Anchors.TieStore.
Theorem C05_point_types_from_source :
  go_data_PointTypeTombstone = str_tombstone /\ go_data_PointTypeNodeType = str_nodeType.
Proof. exact (conj tie_tombstone tie_nodeType). Qed.
Print Assumptions C05_point_types_from_source.
