(* A concrete history used by the non-vacuity examples of C01, C03, C05, C06:
   root r, a under r, b under r, c under a, c mirrored under b (diamond),
   points written to c and r, the edge a->c deleted. *)
From Verif Require Import Base.Bytes Store.GraphCount Store.GraphWalk Store.Model Store.ProofsRows Store.ProofsHash Store.ProofsTop.
Local Open Scope N_scope.

Definition id_r : bytes := [114]. Definition id_a : bytes := [97]. Definition id_b : bytes := [98]. Definition id_c : bytes := [99].
Definition t_value : bytes := [118;97;108;117;101].
Definition pt (ty k : bytes) (t : Z) (v : N) (tx : bytes) : point := mkPoint ty k t v tx [] 0%Z [].
Definition create (id par : bytes) (t : Z) : op :=
  EdgePts id par [pt str_tombstone [] t 0 []; pt str_nodeType [] t 0 [103]].

Definition ex_ops : list op :=
  [ create id_r str_root 1; create id_a id_r 2; create id_b id_r 3; create id_c id_a 4; create id_c id_b 5;
    NodePts id_c [pt t_value [] 20 0x4000000000000000 []; pt t_value str_0 10 0x3FF0000000000000 []];
    NodePts id_r [pt t_value [49] 7 0 [120]];
    EdgePts id_c id_a [pt str_tombstone [] 30 0x3FF0000000000000 []];
    EdgePts id_a id_c [pt str_tombstone [] 31 0 []; pt str_nodeType [] 31 0 [103]];    (* refused: cycle *)
    NodePts id_c [pt t_value [] 15 0x4008000000000000 []] ].                            (* stale *)

Lemma ex_ops_ok : Forall op_ok ex_ops.
Proof. repeat constructor; discriminate. Qed.

Definition ex_st : store := run st0 ex_ops.
