(* C04 — a crash at any instant loses no acknowledged write and corrupts nothing
   (the part a model can carry; SQLite's WAL recovery itself is probed by fault injection).
   Statements only; proofs in Store/Crash.v.  The database is a machine with a durable state and
   a volatile transaction copy: Begin copies, statements act on the copy, Commit publishes it, a
   crash discards it; every request = Begin, its statements, Commit, then the acknowledgement. *)
From Verif Require Import Base.Bytes Store.GraphCount Store.GraphWalk Store.Model Store.ProofsRows Store.ProofsHash Store.ProofsTop Store.Crash Store.Init Store.InitRoot.
From Verif Require Import Properties.StoreExample.

(* for every history, every decomposition of each request into statements with the request's
   effect, and every instant k of process death: the durable state is the state after a prefix of
   the history — each batch completely or not at all — containing every acknowledged request *)
Theorem C04_atomic_batches :
  forall (stmts_of : store -> op -> list (store -> store)),
    (forall st o, fold_left (fun s f => f s) (stmts_of st o) st = state_of (handle st o)) ->
  forall ops st a k,
    let d := crash_at stmts_of st a ops k in
    exists j, durable d = run st (firstn j ops) /\ j <= length ops /\
              a <= acks d /\ acks d - a <= j <= S (acks d - a).
Proof. exact atomic_batches. Qed.
Print Assumptions C04_atomic_batches.

(* ... and it is well formed with consistent hashes (C03): points and hashes are never out of step *)
Theorem C04_hash_consistent :
  forall (stmts_of : store -> op -> list (store -> store)),
    (forall st o, fold_left (fun s f => f s) (stmts_of st o) st = state_of (handle st o)) ->
  forall ops st k, wf st -> Inv st -> Forall op_ok ops ->
    let d := crash_at stmts_of st 0 ops k in
    exists j, durable d = run st (firstn j ops) /\ acks d <= j <= S (acks d) /\ j <= length ops /\
              wf (durable d) /\ Inv (durable d).
Proof. exact crash_recovery. Qed.
Print Assumptions C04_hash_consistent.

(* non-vacuity: the example history with every request as one statement, killed after 13 events:
   4 requests acknowledged, the 5th committed but not acknowledged *)
Definition ex_stmts (st : store) (o : op) : list (store -> store) := [fun _ => state_of (handle st o)].

Example C04_example :
  (forall st o, fold_left (fun s f => f s) (ex_stmts st o) st = state_of (handle st o)) /\
  acks (crash_at ex_stmts st0 0 ex_ops 19) = 4 /\
  length (s_edges (durable (crash_at ex_stmts st0 0 ex_ops 19))) = 5.
Proof. split; [reflexivity|]. vm_compute. split; reflexivity. Qed.

(* ---------- first-time initialisation (NewSqliteDb: initMeta, runMigrations, initRoot, initJwtKey) ---------- *)

(* whatever number k of the transactions of a first open were committed before the process died,
   for whatever ids and key the two runs invent, a complete re-open leaves exactly one meta row *)
Theorem C04_init_one_meta :
  forall fr1 fr2 k, length (d_meta (open_db (open_crash empty_disk fr1 k) fr2)) = 1%nat.
Proof. exact init_one_meta. Qed.
Print Assumptions C04_init_one_meta.

(* once an instance root and a signing key are on disk every later open keeps them *)
Theorem C04_init_keeps_root_and_key :
  forall d fr m, d_meta d = [m] -> m_root m <> [] -> m_key m <> [] ->
    exists m', d_meta (open_db d fr) = [m'] /\ m_root m' = m_root m /\ m_key m' = m_key m.
Proof. exact open_keeps_root_and_key. Qed.
Print Assumptions C04_init_keeps_root_and_key.

(* the general claim: for whatever root ids, admin ids, keys and clock values the two runs invent (any
   non-empty ids other than the sentinels "root" and "none", the admin's different from the root's), with or
   without a configured root id, at EVERY crash point k of a first open, the complete re-open ends with one
   meta row carrying a root id and a signing key, and finds that root through a live edge *)
Theorem C04_init_root_found :
  forall fr1 fr2 k, ids_ok fr1 -> ids_ok fr2 ->
    let d1 := open_db (open_crash empty_disk fr1 k) fr2 in
    root_found d1 = true /\ exists m, d_meta d1 = [m] /\ m_root m <> [] /\ m_key m <> [].
Proof. exact init_root_found. Qed.
Print Assumptions C04_init_root_found.

(* for concrete invented values (kept as a cross-check of the model by evaluation; they meet ids_ok): at EVERY
   crash point of a first open, with a configured root id and with an invented one, the re-open finds
   its root through a live edge and has a key, and a further open changes neither *)
Definition ex_fr (cfg : bytes) (n : N) : fresh := mkFresh cfg [114%N; n] [97%N; n] [107%N; n] 1%Z.
Definition init_ok (cfg : bytes) (k : nat) : bool :=
  let d1 := open_db (open_crash empty_disk (ex_fr cfg 1) k) (ex_fr cfg 2) in
  let d2 := open_db d1 (ex_fr cfg 3) in
  root_found d1 &&
  match d_meta d1, d_meta d2 with
  | [m1], [m2] => negb (bytes_eqb (m_key m1) []) && bytes_eqb (m_root m1) (m_root m2) && bytes_eqb (m_key m1) (m_key m2)
  | _, _ => false
  end.
Example C04_init_ids_ok : ids_ok (ex_fr [] 1) /\ ids_ok (ex_fr [105%N;110%N;115%N;116%N] 2).
Proof. unfold ids_ok, fresh_ok, ex_fr. cbn. repeat split; discriminate. Qed.

Example C04_init_example :
  forallb (init_ok []) (seq 0 12) = true /\ forallb (init_ok [105%N;110%N;115%N;116%N]) (seq 0 12) = true.
Proof. vm_compute. split; reflexivity. Qed.

(* ---------- tie to the source text ----------
   The transaction machine above assumes what SQLite gives with a write-ahead log and synchronous >= NORMAL: a
   committed transaction is published atomically.  The pragmas NewSqliteDb hands to sql.Open, printed from
   store/sqlite.go on every run (Anchors/Generated.v), say so. *)
From Verif Require Import Anchors.Generated Anchors.TieStore.
Theorem C04_journal_from_source :
  contains journal_wal go_store_NewSqliteDb_pragmas = true /\
  (contains sync_normal go_store_NewSqliteDb_pragmas || contains sync_full go_store_NewSqliteDb_pragmas)%bool = true.
Proof. exact tie_journal. Qed.
Print Assumptions C04_journal_from_source.
