(* C04 — a crash at any instant loses no acknowledged write and corrupts nothing
   (the part a model can carry; SQLite's WAL recovery itself is probed by fault injection).
   Statements only; proofs in Store/Crash.v.  The database is a machine with a durable state and
   a volatile transaction copy: Begin copies, statements act on the copy, Commit publishes it, a
   crash discards it; every request = Begin, its statements, Commit, then the acknowledgement. *)
From Verif Require Import Base.Bytes Store.GraphCount Store.GraphWalk Store.Model Store.ProofsRows Store.ProofsHash Store.ProofsTop Store.Crash.
From Verif Require Import Properties.StoreExample.

(* for every history, every decomposition of each request into statements with the request's
   effect, and every instant k of process death: the durable state is the state after a prefix of
   the history — each batch completely or not at all — containing every acknowledged request *)
Theorem C04_atomic_batches :
  forall (stmts_of : store -> op -> list (store -> store)),
    (forall st o, fold_left (fun s f => f s) (stmts_of st o) st = state_of (handle st o)) ->
  forall ops st a k,
    let d := crash_at stmts_of st a ops k in
    exists j, durable d = run st (firstn j ops) /\ j <= length ops /\
              a <= acks d /\ acks d - a <= j <= S (acks d - a).
Proof. exact atomic_batches. Qed.
Print Assumptions C04_atomic_batches.

(* ... and it is well formed with consistent hashes (C03): points and hashes are never out of step *)
Theorem C04_hash_consistent :
  forall (stmts_of : store -> op -> list (store -> store)),
    (forall st o, fold_left (fun s f => f s) (stmts_of st o) st = state_of (handle st o)) ->
  forall ops st k, wf st -> Inv st -> Forall op_ok ops ->
    let d := crash_at stmts_of st 0 ops k in
    exists j, durable d = run st (firstn j ops) /\ acks d <= j <= S (acks d) /\ j <= length ops /\
              wf (durable d) /\ Inv (durable d).
Proof. exact crash_recovery. Qed.
Print Assumptions C04_hash_consistent.

(* non-vacuity: the example history with every request as one statement, killed after 13 events:
   4 requests acknowledged, the 5th committed but not acknowledged *)
Definition ex_stmts (st : store) (o : op) : list (store -> store) := [fun _ => state_of (handle st o)].

Example C04_example :
  (forall st o, fold_left (fun s f => f s) (ex_stmts st o) st = state_of (handle st o)) /\
  acks (crash_at ex_stmts st0 0 ex_ops 19) = 4 /\
  length (s_edges (durable (crash_at ex_stmts st0 0 ex_ops 19))) = 5.
Proof. split; [reflexivity|]. vm_compute. split; reflexivity. Qed.
