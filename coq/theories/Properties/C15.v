(* C15 — export followed by import reproduces the tree.
   Statements only; proofs are in Export/ProofsTree.v, Export/ProofsImport.v,
   Export/Proofs.v.  The YAML text layer is abstract: [yaml] / [unyaml] with
   the round trip as a hypothesis (the part the correspondence harness aims
   at, and the part that is false of goccy/go-yaml for some scalars: known
   findings).

   Vocabulary (Export/Model.v): [export_norm] = exportNodesHelper on a GetNodes
   walk that still contains the deleted children; [import_nodes] = ImportNodes
   against the store model; [walk] = the GetNodes walk of the result;
   [project] = what the property compares (per node id, type, parent, the set
   of points and edge points as type / normalised key / value bits / text /
   tombstone; "no tombstone edge point" = "tombstone edge point of value 0";
   deleted children absent; children as a set); [expected rho parent p] = [p]
   with the import marker on the top description, identifiers renamed by [rho]
   (node ids, parent fields, text of nodeID points) and the top re-parented. *)
From Coq Require Import List NArith ZArith Bool.
From Verif Require Import Base.Bytes Store.Model Store.ProofsRows.
Require Import Verif.Export.Model Verif.Export.ProofsTree Verif.Export.ProofsImport Verif.Export.Proofs.
Import ListNotations.
Local Open Scope N_scope.

(* ---- deleted nodes are not exported (full): no node of the export hangs on a deleted edge, and the
   identifiers in the export are exactly those reachable from the top through live edges ---- *)
Theorem C15_deleted_not_exported :
  forall src, wf_tree src ->
    all_live (export_norm src) = true /\ all_ids (export_norm src) = live_ids src.
Proof. intros src W. split; [exact (export_all_live src W)|exact (export_ids src)]. Qed.
Print Assumptions C15_deleted_not_exported.

(* ---- the export loses nothing the property looks at (full) ---- *)
Theorem C15_export_faithful :
  forall src, wf_tree src -> project (export_norm src) = project src.
Proof. exact project_export_norm. Qed.
Print Assumptions C15_export_faithful.

(* ---- ReplaceIDs replaces consistently (full: any tree, mirrors and cross references included):
   one injective renaming, applied to node ids, parent fields and the text of nodeID points alike;
   equal identifiers (a mirrored node, a reference to a node of the tree) get one new identifier ---- *)
Theorem C15_replace_ids_consistent :
  forall fresh t parent,
    (forall a b, fresh a = fresh b -> a = b) -> nonblank t -> well_parented t ->
    exists rho,
      project (replace_ids fresh t parent) = set_parent parent (pmap_ids rho (project t)) /\
      (forall x y, In x (mentions t) -> In y (mentions t) -> rho x = rho y -> x = y) /\
      (forall x, In x (mentions t) -> exists j, rho x = fresh j).
Proof. exact replace_ids_consistent. Qed.
Print Assumptions C15_replace_ids_consistent.

(* ---- only the top node's description gains the marker (full, on the tree ImportNodes hands to
   SendNode): children and all other points are untouched except for identifiers ---- *)
Theorem C15_marker_top_only :
  forall text (unyaml : text -> option tree) fresh parent y preserve t0 t,
    (forall a b, fresh a = fresh b -> a = b) ->
    unyaml y = Some t0 -> nonblank t0 ->
    import_prepare text unyaml fresh parent y preserve = Ok t ->
    t_kids (prepared parent t0) = t_kids t0 /\
    t_pts (prepared parent t0) = map mark_point (t_pts t0) /\
    (if preserve then t = prepared parent t0
     else exists rho, t = ren_tree rho parent (prepared parent t0)).
Proof. exact prepare_marks_top_only. Qed.
Print Assumptions C15_marker_top_only.

Section YamlRoundTrip.
  Variable text : Type.
  Variable yaml : tree -> text.
  Variable unyaml : text -> option tree.
  Hypothesis yaml_roundtrip : forall t, unyaml (yaml t) = Some t.
  Variable now : Z.

  (* ---- round trip, identifiers preserved.
     Partial: proved for an exported subtree without a mirror inside (pairwise different node ids,
     [source_ok]) imported under a live parent other than "root" into a store that knows none of the
     identifiers ([target_ok]: another instance, or the same one after the subtree was removed).
     Missing: a node id that occurs twice in the tree (the second SendNode meets an existing node and,
     for its children, existing edges), import onto identifiers that already exist (same instance),
     and the replacement of the root node — these are covered by the correspondence runs only. ---- *)
  Theorem C15_roundtrip_preserve_partial :
    forall st src parent origin fresh,
      source_ok src -> target_ok st parent (live_ids src) ->
      exists st' imp,
        import_nodes text unyaml fresh now st parent (yaml (export_norm src)) origin true = (st', 0) /\
        walk st' (walk_fuel st') parent (t_id src) = Some imp /\
        project imp = expected (fun x => x) parent (project src) /\
        all_live imp = true.
  Proof. exact (roundtrip_preserve text yaml unyaml yaml_roundtrip now). Qed.

  (* ---- round trip, new identifiers: there is a renaming [rho], injective on every identifier the
     export mentions, with which the imported subtree is the exported one renamed; the new
     identifiers are the generated ones.  Partial: as above (no mirror inside the subtree, parent
     other than "root"); [fresh] injective and disjoint from the identifiers in use. ---- *)
  Theorem C15_roundtrip_rename_partial :
    forall st src parent origin fresh,
      (forall a b, fresh a = fresh b -> a = b) ->
      (forall j, fresh_in st (fresh j) /\ fresh j <> s_root st /\ fresh j <> parent /\ ~ reserved (fresh j)) ->
      source_ok src -> has_live st parent = true -> ~ reserved parent ->
      exists st' imp rho,
        import_nodes text unyaml fresh now st parent (yaml (export_norm src)) origin false = (st', 0) /\
        walk st' (walk_fuel st') parent (rho (t_id src)) = Some imp /\
        project imp = expected rho parent (project src) /\
        (forall x y, In x (mentions (export_norm src)) -> In y (mentions (export_norm src)) -> rho x = rho y -> x = y) /\
        (forall x, In x (mentions (export_norm src)) -> exists j, rho x = fresh j) /\
        all_live imp = true.
  Proof. exact (roundtrip_rename text yaml unyaml yaml_roundtrip now). Qed.
End YamlRoundTrip.
Print Assumptions C15_roundtrip_preserve_partial.
Print Assumptions C15_roundtrip_rename_partial.

(* what the equation says about the marker: the top's points are the source's with the marker on the
   descriptions, the children are the source's children, renamed and nothing else *)
Theorem C15_expected_parts :
  forall rho parent p,
    q_pts (expected rho parent p) = map (pren_point rho) (map pmark_point (q_pts p)) /\
    q_kids (expected rho parent p) = map (pmap_ids rho) (q_kids p) /\
    q_parent (expected rho parent p) = parent /\ q_id (expected rho parent p) = rho (q_id p).
Proof. exact expected_parts. Qed.
Print Assumptions C15_expected_parts.

(* ---- non-vacuity: a concrete subtree with a deleted child and a concrete target meet the hypotheses ---- *)
Definition ex_pt (ty k tx : bytes) (v : N) : point := mkPoint ty k 1 v tx [] 0 [].
Definition ex_src : tree :=
  Node [97] [103] [112]                                        (* id "a", type "g", parent "p" *)
       [ex_pt str_description str_0 [104;105] 0; ex_pt str_nodeID str_0 [98] 0]
       [ex_pt str_tombstone str_0 [] 0]
       [Node [98] [118] [97] [ex_pt [118] str_0 [] 0x3FF0000000000000] [] [];
        Node [99] [118] [97] [] [ex_pt str_tombstone str_0 [] 0x3FF0000000000000] []].   (* deleted child "c" *)
Definition ex_store : store :=
  mkStore [] [mkEdge 0 str_root [114] [100] [] 0; mkEdge 1 [114] [112] [103] [] 0] [114] 2.

Example C15_source_ok_example : source_ok ex_src.
Proof.
  unfold source_ok, wf_tree, well_parented, ex_src. rewrite !flat_eq. cbn [flat_map flat app].
  split; [|split; [|split]].
  - repeat constructor; cbn; try (intros r [<-|[]]; reflexivity); try (intros r []);
      try (intros p [<-|[]] _; reflexivity); try (intros p []).
  - repeat constructor.
  - repeat (apply Forall_cons || apply Forall_nil); unfold sendable; cbn [t_id t_type t_pts t_epts];
      (split; [intros [H|[H|H]]; discriminate|]); (split; [discriminate|]); (split; [reflexivity|]); (split; [reflexivity|]);
      (split; [|split]); repeat constructor; cbn; try (intros r [<-|[]]; reflexivity); try (intros r []).
  - vm_compute. repeat constructor; cbn; intros H; repeat destruct H as [H|H]; try discriminate; try destruct H.
Qed.
Example C15_target_ok_example : target_ok ex_store [112] (live_ids ex_src).
Proof.
  unfold target_ok. split; [reflexivity|]. split; [intros [H|[H|H]]; discriminate|]. split.
  - vm_compute. intros [H|[H|H]]; try discriminate; destruct H.
  - intros x Hx. vm_compute in Hx. destruct Hx as [<-|[<-|[]]]; (split; [split; [|reflexivity]|discriminate]);
      intros e [<-|[<-|[]]]; cbn; split; discriminate.
Qed.
