(* C09 — no node access without valid credentials; valid users can log in.  (partial)
   Statements only; proofs in Auth/Proofs.v, Auth/Legacy.v, Store/GraphWalk.v.
   Proved here, about the executable model of Auth/Model.v (tied to the code by the correspondence
   run): the gate in front of the node routes, the route table behind it, the credential check with
   its walk to the root, the node listing, the bus token comparison.
   Not proved (exercised by the harness only): HMAC-SHA256 / JWT parsing and expiry — the verdict of
   the JWT library is the parameter [jwt_ok] —, the NATS server's own token check, TLS. *)
From Verif Require Import Base.Bytes Base.Val Store.GraphCount Store.GraphWalk Store.Model Store.ProofsRows Store.ProofsHash
  Store.ProofsTop Auth.Model Auth.Proofs Auth.Legacy.
Local Open Scope N_scope.

(* With a token configured, for every method, path, header and body: (1) a request leads to a
   client call other than the log-in only if its Authorization header equals the token or is
   "Bearer" + a token accepted by the JWT verdict; (2) otherwise every request routed to the node
   handler is answered 401 and causes no call, and elsewhere the only possible call is the log-in. *)
Theorem C09_gate :
  forall (jwt_ok : bytes -> option bytes) token q, token <> [] ->
    (forall c, In c (effects (serve jwt_ok token q)) -> is_node_call c = true -> authorised jwt_ok token (r_hdr q)) /\
    (~ authorised jwt_ok token (r_hdr q) ->
       (forall rest, app_route (r_path q) = TNodes rest ->
          serve jwt_ok token q = R401 /\ effects (serve jwt_ok token q) = []) /\
       (forall c, In c (effects (serve jwt_ok token q)) -> c = CUserCheck)).
Proof. exact gate_main. Qed.
Print Assumptions C09_gate.

(* the gate passes exactly the authorised headers *)
Theorem C09_gate_exact :
  forall (jwt_ok : bytes -> option bytes) token hdr,
    (exists vu uid, gate jwt_ok token hdr = Serve vu uid) <-> authorised jwt_ok token hdr.
Proof. exact gate_iff. Qed.
Print Assumptions C09_gate_exact.

(* no header, or an empty one, is never enough *)
Theorem C09_gate_absent :
  forall (jwt_ok : bytes -> option bytes) token, token <> [] -> ~ authorised jwt_ok token [].
Proof. exact absent_rejected. Qed.
Print Assumptions C09_gate_absent.

(* valid credentials are never answered with 401 *)
Theorem C09_valid_served :
  forall (jwt_ok : bytes -> option bytes) token q, authorised jwt_ok token (r_hdr q) -> serve jwt_ok token q <> R401.
Proof. exact serve_authorised. Qed.
Print Assumptions C09_valid_served.

(* bus connections: accepted exactly with the configured token (the comparison handed to the NATS server) *)
Theorem C09_bus :
  forall token presented, token <> [] -> (bus_accepts token presented = true <-> presented = Some token).
Proof. exact bus_iff. Qed.
Print Assumptions C09_bus.

(* userCheck returns somebody exactly when some user node has the given e-mail and password and a
   non-empty path of non-deleted edges up to the root sentinel — on well-formed (acyclic) stores whose
   tombstone points are of the kind the clients write *)
Theorem C09_login_iff :
  forall st email pass, wf st -> tomb_consistent (s_edges st) ->
    (user_check st email pass <> [] <->
     exists u, user_node st u /\ creds_match st u email pass = true /\ path_to_root (s_edges st) sel_live u).
Proof. exact login_iff. Qed.
Print Assumptions C09_login_iff.

(* and everything it returns is a non-deleted edge of such a user *)
Theorem C09_login_sound :
  forall st email pass x, wf st -> tomb_consistent (s_edges st) -> In x (user_check st email pass) ->
    In x (s_edges st) /\ sel_live x = true /\ user_node st (e_down x) /\
    creds_match st (e_down x) email pass = true /\ path_to_root (s_edges st) sel_live (e_down x).
Proof. exact login_sound. Qed.
Print Assumptions C09_login_sound.

(* tombstone points with key "0", value 0 or 1, all equal on an edge: the two deletion tests of userCheck agree *)
Theorem C09_tombstones :
  forall G,
    (forall e, In e G -> forall p, In p (e_pts e) -> is_tomb_point p = true ->
       p_key p = str_0 /\ (p_val p = 0 \/ p_val p = one_bits)) ->
    (forall e, In e G -> forall p q, In p (e_pts e) -> In q (e_pts e) -> is_tomb_point p = true -> is_tomb_point q = true ->
       p_val p = p_val q) ->
    tomb_consistent G.
Proof. exact tomb_consistent_simple. Qed.
Print Assumptions C09_tombstones.

(* every node listed for a user is one of the places the user is attached to (parent of a non-deleted
   edge of the user) or lies below one through non-deleted edges: from the node there is an upward
   walk through non-deleted edges to the place *)
Theorem C09_listing_sound :
  forall st uid i p, In (i, p) (nodes_for_user st uid) ->
    exists P, place_of st uid P /\ exists l, gswalk (s_edges st) sel_live i l /\ gendpoint i l = P.
Proof. exact listing_sound. Qed.
Print Assumptions C09_listing_sound.

Theorem C09_listing_edges :
  forall st uid i p, In (i, p) (nodes_for_user st uid) ->
    (p = str_root /\ exists P, place_of st uid P /\ i = P) \/
    (exists e, In e (s_edges st) /\ sel_live e = true /\ e_down e = i /\ e_up e = p).
Proof. exact listing_edges. Qed.
Print Assumptions C09_listing_edges.

(* the pinned checkUserPathRoot violated the right-to-left direction of C09_login_iff *)
Theorem C09_current_refuted :
  exists st email pass,
    wf st /\ tomb_consistent (s_edges st) /\
    (exists u, user_node st u /\ creds_match st u email pass = true /\ path_to_root (s_edges st) sel_live u) /\
    user_check_legacy st email pass = [].
Proof. exact current_refuted. Qed.
Print Assumptions C09_current_refuted.

(* ---- non-vacuity ---- *)
Definition ex_tok : bytes := [116;111;107;49].                      (* "tok1" *)
Definition ex_jwt (t : bytes) : option bytes := if bytes_eqb t ex_tok then Some [117;55] else None.
Definition ex_secret : bytes := [115;101;107;114;101;116].          (* "sekret" *)
Definition ex_points : bytes := [47;118;49;47;110;111;100;101;115;47;110;49;47;112;111;105;110;116;115].   (* /v1/nodes/n1/points *)
Definition ex_dots : bytes := [47;118;49;47;110;111;100;101;115;47;120;47;46;46;47;110;49;47;112;97;114;101;110;116;115]. (* /v1/nodes/x/../n1/parents *)
Definition ex_escape : bytes := [47;118;49;47;110;111;100;101;115;47;46;46;47;97;117;116;104].             (* /v1/nodes/../auth *)

(* token, token + "x", nothing, "Bearer  tok1" (two spaces), "bearer tok1", and a path that leaves the node API *)
Example C09_gate_example :
  serve ex_jwt ex_secret (mkReq k_POST ex_points ex_secret true false) = RCall CPoints /\
  serve ex_jwt ex_secret (mkReq k_POST ex_points (ex_secret ++ [120]) true false) = R401 /\
  serve ex_jwt ex_secret (mkReq k_POST ex_points [] true false) = R401 /\
  serve ex_jwt ex_secret (mkReq k_PUT ex_dots [66;101;97;114;101;114;32;32;116;111;107;49] true true) = RCall CDuplicate /\
  serve ex_jwt ex_secret (mkReq k_PUT ex_dots [98;101;97;114;101;114;32;116;111;107;49] true true) = R401 /\
  serve ex_jwt ex_secret (mkReq k_POST ex_escape [] true false) = RCall CUserCheck /\
  authorised ex_jwt ex_secret ex_secret /\ ~ authorised ex_jwt ex_secret (ex_secret ++ [120]).
Proof.
  vm_compute. repeat split; try reflexivity.
  - left. reflexivity.
  - intros [H|(t & uid & Hb & _)]; discriminate.
Qed.

(* the history of Auth/Legacy.v: the user, mirrored into the group g and then deleted under the root
   node r, logs in through the edge g -> u (returned once per row of type user into u, as the code does);
   a wrong password returns nobody; the listing is the
   group with what is below it *)
Example C09_login_example :
  wf x_st /\ tomb_consistent (s_edges x_st) /\
  map (fun e => (e_up e, e_down e)) (user_check x_st x_mail x_pw) = [(x_g, x_u); (x_g, x_u)] /\
  user_check x_st x_mail (x_pw ++ [49]) = [] /\
  nodes_for_user x_st x_u = [(x_g, str_root); (x_u, x_g)].
Proof.
  split; [exact x_wf|]. split; [exact x_tc|]. vm_compute. repeat split; reflexivity.
Qed.
