(* C03 — stored hashes always equal the Merkle hash of current content.
   Statements only; proofs in Store/ProofsHash.v and Store/ProofsTop.v.
   [Inv st]: for every edge, hash = XOR of the CRCs of the node points of its
   lower node, of its edge points, and of the hashes of all child edges. *)
From Verif Require Import Base.Bytes Store.GraphCount Store.GraphWalk Store.Model Store.ProofsRows Store.ProofsHash Store.ProofsTop Store.ProofsMerkle Store.ProofsSpec.
From Verif Require Import Properties.StoreExample.
Local Open Scope N_scope.

(* every state reachable by any history of requests (node points, edge points, points-first or
   edge-first creation, mirrors, diamonds, edges above populated subtrees, deletions, re-deliveries,
   stale and refused writes) from a well-formed state satisfying the equation satisfies it again *)
Theorem C03_inv_reachable :
  forall ops st, wf st -> Inv st -> Forall op_ok ops -> wf (run st ops) /\ Inv (run st ops).
Proof. exact run_inv. Qed.
Print Assumptions C03_inv_reachable.

Theorem C03_node_write :
  forall st id pts st', wf st -> Inv st -> node_points st id pts = Ok st' -> wf st' /\ Inv st'.
Proof. exact node_points_inv. Qed.
Print Assumptions C03_node_write.

Theorem C03_edge_write :
  forall st id par pts st', wf st -> Inv st -> par <> [] ->
    edge_points st id par pts = Ok st' -> wf st' /\ Inv st'.
Proof. exact edge_points_inv. Qed.
Print Assumptions C03_edge_write.


(* equal content gives equal hashes whatever history produced it: in every reachable state the stored
   hash of every edge is the from-scratch Merkle hash [merkle], a function of the current content
   (node points, edge points, graph shape) that consults no stored hash *)
Theorem C03_unique :
  forall st, wf st -> Inv st ->
    forall e, In e (s_edges st) -> e_hash e = merkle (S (length (s_edges st))) st e.
Proof. exact hash_unique. Qed.
Print Assumptions C03_unique.

Theorem C03_content_determines_hash :
  forall s1 s2, wf s1 -> Inv s1 -> wf s2 -> Inv s2 -> same_content s1 s2 ->
    Forall2 (fun a b => e_hash a = e_hash b) (s_edges s1) (s_edges s2).
Proof. exact content_determines_hash. Qed.
Print Assumptions C03_content_determines_hash.

(* a store verification (recompute every hash from the stored child hashes) finds nothing to repair
   exactly when the equation holds *)
Theorem C03_verify_clean : forall st, Inv st <-> verify st = [].
Proof. exact verify_clean. Qed.
Print Assumptions C03_verify_clean.

(* the executable specification the checker evaluates on every dump of a real instance (every hash
   recomputed from the dumped points and child hashes) is exactly this invariant *)
Theorem C03_spec_is_inv : forall st, spec_hashes_ok (project st) = true <-> Inv st.
Proof. exact spec_is_inv. Qed.
Print Assumptions C03_spec_is_inv.

(* a point's checksum depends on exactly its time, type, key, text and value *)
Theorem C03_crc_depends_exactly :
  forall p q, p_time p = p_time q -> p_type p = p_type q -> p_key p = p_key q -> p_text p = p_text q ->
    p_val p = p_val q -> point_crc p = point_crc q.
Proof. exact crc_depends_exactly. Qed.
Print Assumptions C03_crc_depends_exactly.

(* the graph-theoretic core: toggling every edge visited by the upward recursion once per visit
   re-establishes the equation after the content of one node / one edge changed by d *)
Theorem C03_path_parity_node :
  forall (G : list edge), NoDup (map e_id G) ->
  forall (L L' H : N -> N) (F : nat) (x : bytes) (d : N),
    GraphCount.Inv bytes bytes_eqb edge e_id e_up e_down G L H ->
    GraphCount.visits bytes bytes_eqb edge e_id e_up e_down G (S F) x = GraphCount.visits bytes bytes_eqb edge e_id e_up e_down G F x ->
    (forall e, In e G -> L' (e_id e) = if bytes_eqb (e_down e) x then N.lxor (L (e_id e)) d else L (e_id e)) ->
    GraphCount.Inv bytes bytes_eqb edge e_id e_up e_down G L'
      (fun id => N.lxor (H id) (GraphCount.tog d (GraphCount.par (GraphCount.visits bytes bytes_eqb edge e_id e_up e_down G F x) id))).
Proof. exact (GraphCount.node_update_preserves_inv bytes bytes_eqb bytes_eqb_eq edge e_id e_up e_down). Qed.
Print Assumptions C03_path_parity_node.


(* propagation clause (partial): the hash of an edge changes by exactly the XOR delta d of the node's
   point checksums when it lies on an odd number of upward paths from the written node, hence on
   every ancestor edge of a tree; missing relative to the statement: d <> 0 cannot be derived from
   "a field changed" (CRC-32 is not injective), and below an even number of paths the XOR definition
   itself cancels (the known finding xor-cancel-even-paths: the second branch of this theorem) *)
Theorem C03_change_propagates_partial :
  forall st id pts st', node_points st id pts = Ok st' ->
    let d := N.lxor (xor_crcs (node_rows (s_nodes st) id)) (xor_crcs (node_rows (s_nodes st') id)) in
    map e_hash (s_edges st') =
    map (fun e => N.lxor (e_hash e)
                    (if Nat.odd (cnt (e_id e) (visits (s_edges st) (fuel_of (s_edges st)) id)) then d else 0))
        (s_edges st).
Proof. exact node_write_hash_change. Qed.
Print Assumptions C03_change_propagates_partial.

(* non-vacuity: the example history reaches a state with a diamond, a deleted edge and points,
   and that state is well formed and satisfies the equation *)
Example C03_example : wf ex_st /\ Inv ex_st.
Proof. apply run_inv; [exact wf_st0|exact inv_st0|exact ex_ops_ok]. Qed.

Example C03_example_shape :
  map (fun e => (e_up e, e_down e, negb (e_hash e =? 0))) (s_edges ex_st) =
  [ (str_root, id_r, true); (id_r, id_a, true); (id_r, id_b, true); (id_a, id_c, true); (id_b, id_c, true) ].
Proof. vm_compute. reflexivity. Qed.

(* ---------- the checksum of a point, from the source ----------
   data.Point.CRC as it is written today — printed by the translator as the list of steps that feed its hash
   (Anchors/Generated.v, go_data_Point_CRC), with the meaning of the steps stated in Anchors/TiePointCrc.v —
   computes the model's point_crc for every point: the fields hashed and their order (time, type, key, text, value),
   the little-endian 64-bit encodings and the node-type exemption are those of the code, so C03_crc_depends_exactly
   speaks of the checksum the store really uses. *)
From Verif Require Import MiniGo.Recipe Anchors.Generated Anchors.TiePointCrc.
Theorem C03_point_crc_from_source : forall p, run_recipe go_data_Point_CRC p = Some (point_crc p).
Proof. exact go_Point_CRC_is_model. Qed.
Print Assumptions C03_point_crc_from_source.
