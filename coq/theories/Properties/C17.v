(* C17 -- Serial packets round-trip and corruption is always detected.
   Statements only; proofs are in Serial/Proofs.v.  The payload (protobuf
   SerialPoints) is an opaque byte string here; its conversion to points
   (values to float32 precision, times to the ns) is checked against the real
   data.PbDecodeSerialPoints on every run. *)
From Verif Require Import Base.Bytes Serial.Model Serial.Proofs.
Local Open Scope N_scope.

(* Every sequence number, every subject of at most 16 bytes that has no NUL
   byte at either end (in particular every subject without NUL bytes), every
   payload of any length: the decoder returns exactly what was encoded.
   Holds for "log" too (no CRC written, none stripped). *)
Theorem C17_roundtrip :
  forall seq subj payload,
    (length subj <= 16)%nat -> trim subj = subj ->
    exists pkt, serial_encode seq subj payload = Ok pkt /\
                serial_decode pkt = Ok (seq, subj, payload).
Proof. exact roundtrip. Qed.
Print Assumptions C17_roundtrip.

(* the CRC register is linear over GF(2): CRC(a xor b) = CRC(a) xor CRC(b) *)
Theorem C17_crc_linear :
  forall a b s1 s2, length a = length b ->
    run (N.lxor s1 s2) (xorl a b) = N.lxor (run s1 a) (run s2 b).
Proof. exact run_lin. Qed.
Print Assumptions C17_crc_linear.

(* data followed by a little-endian 16-bit word leaves the register at 0 exactly
   when the word is the CRC of the data *)
Theorem C17_codeword :
  forall d lo hi, lo < 256 -> hi < 256 ->
    (run 0 (bits (d ++ [lo; hi])) = 0 <-> of_le16 lo hi = crc16 d).
Proof. exact codeword. Qed.
Print Assumptions C17_codeword.

(* Full statement.  For every CRC-checked packet (any subject that is not
   "log") shorter than 4095 bytes and every non-zero error pattern [e] of the
   same length that is (a) of weight 1 or 2 or (b) a burst of span <= 16 bits,
   in the bit order the CRC consumes ([in_class (bits e)]): unless the error
   turns the subject field itself into "log", the corrupted packet is rejected
   with "CRC check failed" (so it is never delivered, with the same or with
   different content). *)
Theorem C17_detects :
  forall seq subj payload pkt e,
    serial_encode seq subj payload = Ok pkt ->
    crc_checked subj = true ->
    seq < 256 -> Forall byte_lt subj -> Forall byte_lt payload -> Forall byte_lt e ->
    length e = length pkt -> (length pkt < 4095)%nat ->
    in_class (bits e) = true ->
    is_log (trim (subject_field (xor_bytes pkt e))) = false ->
    serial_decode (xor_bytes pkt e) = Err 2.
Proof. exact detects. Qed.
Print Assumptions C17_detects.

(* the same in the words of the property: rejected, or delivered unchanged *)
Theorem C17_detects_or_same :
  forall seq subj payload pkt e,
    serial_encode seq subj payload = Ok pkt ->
    crc_checked subj = true ->
    seq < 256 -> Forall byte_lt subj -> Forall byte_lt payload -> Forall byte_lt e ->
    length e = length pkt -> (length pkt < 4095)%nat ->
    in_class (bits e) = true ->
    is_log (trim (subject_field (xor_bytes pkt e))) = false ->
    (exists c, serial_decode (xor_bytes pkt e) = Err c) \/
    serial_decode (xor_bytes pkt e) = Ok (seq, trim subj, payload).
Proof. exact detects_or_same. Qed.
Print Assumptions C17_detects_or_same.

(* For subjects that no error of the stated classes can turn into "log"
   ([far_from_log], a boolean computed from the subject alone) the side
   condition disappears. *)
Theorem C17_detects_far_from_log :
  forall seq subj payload pkt e,
    serial_encode seq subj payload = Ok pkt ->
    far_from_log subj = true ->
    seq < 256 -> Forall byte_lt subj -> Forall byte_lt payload -> Forall byte_lt e ->
    length e = length pkt -> (length pkt < 4095)%nat ->
    in_class (bits e) = true ->
    serial_decode (xor_bytes pkt e) = Err 2.
Proof. exact detects_far_from_log. Qed.
Print Assumptions C17_detects_far_from_log.

(* The side condition cannot be dropped (known finding K4): "p.g" plus a 13-bit
   burst is "log", which by design carries no checksum. *)
Theorem C17_log_adjacent_refuted :
  exists seq subj payload pkt e got,
    serial_encode seq subj payload = Ok pkt /\ crc_checked subj = true /\
    length e = length pkt /\ in_class (bits e) = true /\ span (bits e) = 13%nat /\
    serial_decode (xor_bytes pkt e) = Ok got /\ got <> (seq, trim subj, payload).
Proof. exact log_adjacent_refuted. Qed.
Print Assumptions C17_log_adjacent_refuted.

(* non-vacuity: the documented subjects "", "ack", "phr" and a "p.<id>.<parent>"
   subject are far from "log"; "p.g" is not *)
Example C17_far_from_log_documented :
  far_from_log [] = true /\ far_from_log [97; 99; 107] = true /\ far_from_log [112; 104; 114] = true /\
  far_from_log [112; 46; 52; 102; 50; 97; 46; 110; 55] = true /\
  far_from_log [112; 46; 103] = false.
Proof. vm_compute. repeat split. Qed.

(* non-vacuity of C17_detects: a concrete packet and a 16-bit burst across the
   payload/CRC boundary meet every hypothesis *)
Example C17_detects_example :
  let pkt := match serial_encode 9 [97; 99; 107] [10; 2; 18; 0] with Ok p => p | _ => [] end in
  let e := repeat 0 20 ++ [128; 255; 1] in
  length e = length pkt /\ in_class (bits e) = true /\ span (bits e) = 10%nat /\
  is_log (trim (subject_field (xor_bytes pkt e))) = false /\
  serial_decode (xor_bytes pkt e) = Err 2.
Proof. vm_compute. repeat split. Qed.
