(* C06 — statements are added as the proofs land; placeholder so the build has the file *)
From Verif Require Import Base.Bytes Store.Model.
