(* C06 — every accepted change is rebroadcast to every live ancestor, and to nothing else.
   Statements only; proofs in Store/GraphWalk.v and Store/ProofsTop.v. *)
From Verif Require Import Base.Bytes Store.GraphCount Store.GraphWalk Store.Model Store.ProofsRows Store.ProofsHash Store.ProofsTop.
From Verif Require Import Store.Concurrent Store.ProofsClosure Store.ProofsClosureTie Properties.StoreExample.
Local Open Scope N_scope.

(* for an accepted request on node id, the ids a on whose subject up.<a>.<id>[.<parent>] the
   points are republished are exactly the ends of upward walks from id (the empty walk gives id
   itself, the sentinel "root" is reached through the root's edge) through non-deleted edges for
   node points, through any edges for edge points: completeness and no leak in one statement *)
Theorem C06_complete :
  forall st o, wf st -> Inv st -> op_ok o -> reply_of (handle st o) = 0 ->
    let st' := state_of (handle st o) in
    forall a, In a (pubs_of (handle st o)) <->
      match o with
      | NodePts id _ => exists l, gswalk (s_edges st') (sel_of false) id l /\ gendpoint id l = a
      | EdgePts id _ _ => exists l, gswalk (s_edges st') (sel_of true) id l /\ gendpoint id l = a
      end.
Proof. exact handle_pubs. Qed.
Print Assumptions C06_complete.

Theorem C06_closure :
  forall st incl x a, wf st ->
    (In a (pubs (s_edges st) incl (fuel_of (s_edges st)) x) <->
     exists l, gswalk (s_edges st) (sel_of incl) x l /\ gendpoint x l = a).
Proof. exact pubs_exact. Qed.
Print Assumptions C06_closure.

(* the set the checker compares the observed rebroadcast subjects with — the executable closure [ancestors]
   evaluated on the dump taken after the request (Store/Check.v, spec_c06_step) — is that same set: the
   worklist search is sound, complete and never runs out of fuel (ProofsClosure.ancestors_spec), and on the dump
   of a state it follows exactly the store's edges (ProofsClosureTie.ancestors_walks) *)
Theorem C06_spec_is_closure :
  forall st o, wf st -> Inv st -> edges_ok st -> op_ok o -> reply_of (handle st o) = 0 ->
    let st' := state_of (handle st o) in
    forall a, In a (pubs_of (handle st o)) <->
      In a (ancestors (project st') (match o with NodePts _ _ => true | EdgePts _ _ _ => false end)
                      (match o with NodePts id _ => id | EdgePts id _ _ => id end)).
Proof.
  intros st o W HI HO Hop Hr st' a.
  destruct (handle_inv st o W HI Hop) as [W' _].
  assert (HO' : edges_ok st') by (apply (run_edges_ok [o] st W HI HO); constructor; [exact Hop|constructor]).
  rewrite (C06_complete st o W HI Hop Hr a). fold st'.
  destruct o as [id pts|id par pts].
  - symmetry. apply (ancestors_walks st' HO' false).
  - symmetry. apply (ancestors_walks st' HO' true).
Qed.
Print Assumptions C06_spec_is_closure.

(* refused requests publish nothing *)
Theorem C06_only_accepted :
  forall st o, reply_of (handle st o) <> 0 -> pubs_of (handle st o) = [].
Proof. intros st o H. exact (proj2 (error_no_trace st o H)). Qed.
Print Assumptions C06_only_accepted.

(* non-vacuity: in the example state a node point write to c (edge a->c deleted, b->c live) is
   republished on c, b, r and the root sentinel, not on a; an edge point write also on a *)
Example C06_example :
  pubs (s_edges ex_st) false (fuel_of (s_edges ex_st)) id_c = [id_c; id_b; id_r; str_root] /\
  pubs (s_edges ex_st) true (fuel_of (s_edges ex_st)) id_c = [id_c; id_a; id_r; str_root; id_b; id_r; str_root].
Proof. vm_compute. split; reflexivity. Qed.
