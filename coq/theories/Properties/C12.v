(* C12 — Wire encodings are lossless and malformed bytes are rejected cleanly.
   Statements only; proofs are in Wire/Proofs.v (the model is Wire/Model.v).

   Reading aid.  [points_encode] is Points.ToPb, [pb_decode_points] is
   PbDecodePoints, [node_encode] / [pb_decode_node] are NodeEdge.ToPb /
   PbDecodeNode, and so on (Wire/Model.v names the Go function above each
   definition).  A point is (type, key, time in ns as an unbounded Z, value as a
   64-bit pattern, text, data, tombstone, origin).  [point_ok p] is the executable
   predicate "representable on the wire": type, key, text and origin are valid
   UTF-8 ([utf8_valid], the model of unicode/utf8.Valid) and every variable
   length field is shorter than 2^31 bytes, the time lies in
   [0001-01-01, 10000-01-01), the tombstone count fits int32 and the value is a
   64-bit pattern.  [node_ok] adds id / type / parent strings, a 32-bit hash and
   [point_ok] for both point lists. *)
From Verif Require Import Base.Bytes Wire.Model Wire.Proofs Wire.F32.
Local Open Scope N_scope.

(* the crux of the wire format: a 64-bit value survives the varint encoding,
   whatever follows it in the buffer *)
Theorem C12_varint_roundtrip :
  forall n rest, n < 18446744073709551616 -> dec_varint (enc_varint n ++ rest) = Some (n, rest).
Proof. exact dec_enc_varint. Qed.
Print Assumptions C12_varint_roundtrip.

(* every field of every point survives Points.ToPb followed by PbDecodePoints:
   ns time, type, key, value bit for bit, text, data, tombstone, origin *)
Theorem C12_point_roundtrip :
  forall ps, forallb point_ok ps = true ->
  exists bs, points_encode ps = Ok bs /\ pb_decode_points bs = Ok ps.
Proof. exact point_roundtrip. Qed.
Print Assumptions C12_point_roundtrip.

(* id, type, parent, hash (through the int32 / uint32 casts) and both point
   lists survive NodeEdge.ToPb followed by PbDecodeNode *)
Theorem C12_node_roundtrip :
  forall n, node_ok n = true ->
  exists bs, node_encode n = Ok bs /\ pb_decode_node bs = Ok n.
Proof. exact node_roundtrip. Qed.
Print Assumptions C12_node_roundtrip.

(* lists of nodes (Nodes.ToPb / PbDecodeNodes) and the two reply messages
   (pb.NodeRequest / PbDecodeNodeRequest, pb.NodesRequest / PbDecodeNodesRequest).
   [node_fits n]: the encoded node is shorter than 2^64 bytes, so that its length
   prefix is a uint64 (a single node needs no such bound: it has no prefix). *)
Theorem C12_nodes_roundtrip :
  forall ns, forallb node_ok ns = true -> Forall node_fits ns ->
  (exists bs, nodes_encode ns = Ok bs /\ pb_decode_nodes bs = Ok ns) /\
  (exists bs, nodes_request_encode ns [] = Ok bs /\ pb_decode_nodes_request bs = Ok ns).
Proof.
  intros ns H F. split; [exact (nodes_roundtrip ns H F)|exact (nodes_request_roundtrip ns H F)].
Qed.
Print Assumptions C12_nodes_roundtrip.

Theorem C12_node_request_roundtrip :
  forall n, node_ok n = true -> node_fits n ->
  exists bs, node_request_encode (Some n) [] = Ok bs /\ pb_decode_node_request bs = Ok n.
Proof. exact node_request_roundtrip. Qed.
Print Assumptions C12_node_request_roundtrip.

(* serial link format (client.SerialEncode payload / PbDecodeSerialPoints): type,
   key, text, data, tombstone and origin survive; the value comes back narrowed to
   float32 and the time as int64 ns ([serial_image]).
   Partial: the second hypothesis (the narrowed value is a 32-bit pattern) is true
   of every float64 pattern but is not derived from [f64_to_f32] here. *)
Theorem C12_serial_roundtrip_partial :
  forall ps, forallb serial_point_ok ps = true ->
  Forall (fun p => f64_to_f32 (p_value p) < 4294967296) ps ->
  exists bs, serial_encode ps = Ok bs /\ pb_decode_serial_points bs = Ok (map serial_image ps).
Proof. exact serial_roundtrip_partial. Qed.
Print Assumptions C12_serial_roundtrip_partial.

(* ... and that hypothesis holds of every float64 pattern (Wire/F32.v: f64_to_f32_bound), so the serial
   round trip is unconditional for points whose values are 64-bit patterns *)
Theorem C12_serial_roundtrip :
  forall ps, forallb serial_point_ok ps = true -> Forall (fun p => p_value p < 2 ^ 64) ps ->
  exists bs, serial_encode ps = Ok bs /\ pb_decode_serial_points bs = Ok (map serial_image ps).
Proof. exact serial_roundtrip. Qed.
Print Assumptions C12_serial_roundtrip.

(* for every byte string every decoder returns a value or an error, and for every
   subject string and payload so does every subject parser: Panic, which the
   model reaches where the Go code would dereference nil (PbToPoint on a nil
   point), is never the result of a decoder *)
Theorem C12_total :
  (forall bs,
     pb_decode_points bs <> Panic /\ pb_decode_node bs <> Panic /\
     pb_decode_node_request bs <> Panic /\ pb_decode_nodes bs <> Panic /\
     pb_decode_nodes_request bs <> Panic /\ pb_decode_serial_points bs <> Panic /\
     forall now, decode_serial_hr_payload now bs <> Panic) /\
  (forall subj data,
     decode_node_points_msg subj data <> Panic /\ decode_edge_points_msg subj data <> Panic /\
     decode_up_node_points_msg subj data <> Panic /\
     decode_up_edge_points_msg subj data <> Panic).
Proof. exact decoders_total. Qed.
Print Assumptions C12_total.

(* non-vacuity: concrete values meet the hypotheses *)
Definition example_point : point :=
  {| p_type := [116; 101; 109; 112]; p_key := [195; 169]; p_time := (-62135596800000000000)%Z;
     p_value := 9223372036854775808; p_text := [240; 159; 152; 128]; p_data := [0; 255; 128];
     p_tombstone := (-2147483648)%Z; p_origin := [111] |}.
Definition example_node : node :=
  {| n_id := [105; 100]; n_type := [100; 101; 118]; n_hash := 4294967295; n_parent := [114];
     n_points := [example_point; example_point]; n_edge := [example_point] |}.

Example C12_point_ok_example : forallb point_ok [example_point; example_point] = true.
Proof. vm_compute. reflexivity. Qed.

Example C12_node_ok_example : node_ok example_node = true /\ node_fits example_node.
Proof. split; [vm_compute; reflexivity|unfold node_fits, lenP; vm_compute; reflexivity]. Qed.

Example C12_serial_ok_example :
  forallb serial_point_ok [example_point] = true /\
  Forall (fun p => f64_to_f32 (p_value p) < 4294967296) [example_point].
Proof. split; [vm_compute; reflexivity|repeat constructor]. Qed.

(* the model rejects what the wire format forbids (a few fixed inputs) *)
Example C12_rejects_malformed :
  pb_decode_points [10] = Err 1 /\                                  (* truncated length *)
  pb_decode_points [10; 5; 1] = Err 1 /\                            (* length past the end *)
  pb_decode_points [0; 0] = Err 1 /\                                (* field number 0 *)
  pb_decode_points [96; 128; 128; 128; 128; 128; 128; 128; 128; 128; 128; 1] = Err 1 /\  (* 11-byte varint *)
  pb_decode_points [10; 3; 18; 1; 255] = Err 2 /\                   (* invalid UTF-8 in Point.type *)
  pb_decode_points [10; 0] = Err 3 /\                               (* point without a Timestamp *)
  pb_decode_points [10; 8; 42; 6; 16; 128; 148; 235; 220; 3] = Err 3 /\  (* nanos = 1e9 *)
  pb_decode_points [11] = Err 1 /\                                  (* unterminated group *)
  pb_decode_points [11; 12] = Ok [] /\                              (* a terminated unknown group is skipped *)
  pb_decode_node_request [] = Err 4.                                (* reply without a node *)
Proof. repeat split; vm_compute; reflexivity. Qed.
