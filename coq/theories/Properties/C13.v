(* C13 — A rule is active exactly when all of its conditions hold.
   Statements only; proofs are in Rule/Proofs.v.  [step] is the model of the
   [run] closure of RuleClient.Run (ruleProcessPoints, then ruleRunActions /
   ruleInactiveActions on a state change), [process] of ruleProcessPoints,
   [w] the schedule window test (parameter, see C14), a history is a list of
   batches (node, points). *)
From Coq Require Import String.
From Verif Require Import Base.Bytes Rule.Model Rule.Proofs.
Local Open Scope N_scope.

(* After a batch, every condition the property speaks about (number, on/off,
   text, schedule) that some point of the batch matches is active exactly when
   the latest matching point satisfies its comparison (for a schedule: when the
   latest trigger time lies in its window); a condition no point matches is
   unchanged; the configuration of every condition is untouched. *)
Theorem C13_conditions :
  forall (w : window_t) (r : rule) (node : bytes) (pts : list point),
    Forall2 (fun c c' =>
               c_cfg c' = c_cfg c /\
               (in_scope (c_cfg c) = true ->
                match latest (matches w (c_cfg c)) (events_of node pts) with
                | Some (_, p) => c_active c' = satisfies w (c_cfg c) p
                | None => c_active c' = c_active c
                end))
            (r_conds r) (r_conds (fst (step text_cmp w r node pts))).
Proof. exact conditions_batch. Qed.
Print Assumptions C13_conditions.

(* the same for ruleProcessPoints alone *)
Theorem C13_conditions_process :
  forall (w : window_t) (r : rule) (node : bytes) (pts : list point),
    Forall2 (cond_follows w (events_of node pts))
            (r_conds r) (r_conds (fst (fst (fst (process text_cmp w r node pts))))).
Proof. exact process_conditions. Qed.
Print Assumptions C13_conditions_process.

(* lifted over histories of batches: the latest matching point of the whole history decides *)
Theorem C13_conditions_history :
  forall (w : window_t) (h : list batch) (r : rule),
    Forall2 (fun c c' =>
               c_cfg c' = c_cfg c /\
               (in_scope (c_cfg c) = true ->
                match latest (matches w (c_cfg c)) (events_of_history h) with
                | Some (_, p) => c_active c' = satisfies w (c_cfg c) p
                | None => c_active c' = c_active c
                end))
            (r_conds r) (r_conds (run_history text_cmp w r h)).
Proof. exact conditions_history. Qed.
Print Assumptions C13_conditions_history.

(* after every batch of any history the rule is active exactly when all of its conditions are *)
Theorem C13_rule_active :
  forall (w : window_t) (r : rule) (h : list batch),
    Forall (fun t => let '(_, ra, _) := t in r_active ra = forallb c_active (r_conds ra))
           (trace text_cmp w r h).
Proof.
  intros w r h. eapply Forall_impl; [|apply (history_steps w r h)].
  intros [[rb ra] o] (H & _). exact H.
Qed.
Print Assumptions C13_rule_active.

(* ruleProcessPoints reports that state and whether it changed *)
Theorem C13_process_results :
  forall (w : window_t) (r : rule) (node : bytes) (pts : list point),
    let '(r', _, active, changed) := process text_cmp w r node pts in
    r_active r' = forallb c_active (r_conds r') /\ active = r_active r' /\
    changed = negb (Bool.eqb (r_active r) (r_active r')).
Proof. exact rule_active_process. Qed.
Print Assumptions C13_process_results.

(* Along any history, at exactly the batches where the rule's state changes the
   corresponding action list runs once and the opposite list is marked inactive
   ([action_points]: per action of the list that runs, the configured point to
   the target node with the rule as origin — the action itself when the target
   is the rule — for a well-formed set-value action, then the action marked
   active; per action of the opposite list, the action marked inactive); at all
   other batches no action output is sent and no action is touched.  [filter
   is_action_out] selects the points sent by ruleRunActions' set-value and
   active marks and by ruleInactiveActions (ghost tags of the model). *)
Theorem C13_actions_once :
  forall (w : window_t) (r : rule) (h : list batch),
    Forall (fun t =>
              let '(rb, ra, o) := t in
              let changed := negb (Bool.eqb (r_active rb) (r_active ra)) in
              filter is_action_out o =
                (if changed then action_points (r_id rb) (r_acts rb) (r_iacts rb) (r_active ra) else []) /\
              Forall2 (fun a a' => a_cfg a' = a_cfg a /\ a_active a' = if changed then r_active ra else a_active a)
                      (r_acts rb) (r_acts ra) /\
              Forall2 (fun a a' => a_cfg a' = a_cfg a /\ a_active a' = if changed then negb (r_active ra) else a_active a)
                      (r_iacts rb) (r_iacts ra))
           (trace text_cmp w r h).
Proof.
  intros w r h. eapply Forall_impl; [|apply (history_steps w r h)].
  intros [[rb ra] o] (_ & H). exact H.
Qed.
Print Assumptions C13_actions_once.

(* the implementation of strings.Contains used by the model agrees with "occurs at some offset" *)
Theorem C13_contains_spec : forall hay needle, contains hay needle = spec_contains hay needle.
Proof. exact contains_spec. Qed.
Print Assumptions C13_contains_spec.

(* ---------- non-vacuity: a concrete rule through one on/off cycle ---------- *)
Local Open Scope string_scope.
Definition ex_c0 : ccfg :=   (* node n1, type "value", any key: number > 20 *)
  {| c_id := bs "c0"; c_ctype := s_pointValue; c_node := bs "n1"; c_ptype := bs "value"; c_pkey := [];
     c_vtype := s_number; c_op := s_gt; c_value := 4626322717216342016; c_vtext := []; c_sched := 0 |}.
Definition ex_c1 : ccfg :=   (* any node, text contains "on" *)
  {| c_id := bs "c1"; c_ctype := s_pointValue; c_node := []; c_ptype := bs "state"; c_pkey := [];
     c_vtype := s_text; c_op := s_contains; c_value := 0; c_vtext := bs "on"; c_sched := 1 |}.
Definition ex_act : action :=
  {| a_cfg := {| a_id := bs "a0"; a_action := s_setValue; a_node := bs "t1"; a_ptype := bs "value";
                 a_value := f_one; a_vtext := [] |}; a_active := false; a_error := [] |}.
Definition ex_iact : action :=
  {| a_cfg := {| a_id := bs "i0"; a_action := s_setValue; a_node := bs "rule1"; a_ptype := bs "description";
                 a_value := 0; a_vtext := bs "idle" |}; a_active := false; a_error := [] |}.
Definition ex_rule : rule :=
  {| r_id := bs "rule1"; r_active := false; r_error := [];
     r_conds := [{| c_cfg := ex_c0; c_active := false; c_error := [] |}; {| c_cfg := ex_c1; c_active := false; c_error := [] |}];
     r_acts := [ex_act]; r_iacts := [ex_iact] |}.
Definition ex_pt (ty : string) (v : N) (tx : string) : point :=
  {| p_type := bs ty; p_key := []; p_time := 0%Z; p_value := v; p_text := bs tx |}.
(* 20.5 from n1; "state: button" from n2; 20 from n1 *)
Definition ex_history : list batch :=
  [ (bs "n1", [ex_pt "value" 4626463454704697344 ""]);
    (bs "n2", [ex_pt "state" 0 "button"; ex_pt "other" 0 ""]);
    (bs "n1", [ex_pt "value" 4626322717216342016 ""]) ].
Definition ex_w : window_t := fun _ _ => WIn false.

Example C13_in_scope_example : in_scope ex_c0 = true /\ in_scope ex_c1 = true.
Proof. split; reflexivity. Qed.

(* rule state after each batch, and the action outputs of each batch: nothing,
   then the action's point to t1 with the rule as origin + marks, then the
   inactive-action's point to the rule itself with the action as origin + marks *)
Example C13_cycle_example :
  map (fun t => let '(_, ra, o) := t in (r_active ra, map (fun x => (o_node x, o_type x, o_value x, o_origin x)) (filter is_action_out o)))
      (trace text_cmp ex_w ex_rule ex_history) =
  [ (false, []);
    (true, [ (bs "t1", bs "value", f_one, bs "rule1"); (bs "a0", bs "active", f_one, bs "rule1"); (bs "i0", bs "active", 0, bs "rule1") ]);
    (false, [ (bs "rule1", bs "description", 0, bs "i0"); (bs "i0", bs "active", f_one, bs "rule1"); (bs "a0", bs "active", 0, bs "rule1") ]) ].
Proof. vm_compute. reflexivity. Qed.
