(* C13 — A rule is active exactly when all of its conditions hold.
   Statements only; proofs are in Rule/Proofs.v.  [step] is the model of the
   [run] closure of RuleClient.Run (ruleProcessPoints, then ruleRunActions /
   ruleInactiveActions on a state change), [process] of ruleProcessPoints,
   [w] the schedule window test (parameter, see C14), a history is a list of
   batches (node, points).  [step_cfg] is the model of the configuration-change
   path of Run (case newPoints: [merge] of the points handed over by the
   manager into the configuration, then run("", nil): a trigger point with the
   current time [t] through ruleProcessPoints at the rule's own id, then the
   action lists whatever [changed] says). *)
From Coq Require Import String.
From Verif Require Import Base.Bytes Rule.Model Rule.Proofs.
Local Open Scope N_scope.

(* After a batch, every condition the property speaks about (number, on/off,
   text, schedule) that some point of the batch matches is active exactly when
   the latest matching point satisfies its comparison (for a schedule: when the
   latest trigger time lies in its window); a condition no point matches is
   unchanged; the configuration of every condition is untouched. *)
Theorem C13_conditions :
  forall (w : window_t) (r : rule) (node : bytes) (pts : list point),
    Forall2 (fun c c' =>
               c_cfg c' = c_cfg c /\
               (in_scope (c_cfg c) = true ->
                match latest (matches w (c_cfg c)) (events_of node pts) with
                | Some (_, p) => c_active c' = satisfies w (c_cfg c) p
                | None => c_active c' = c_active c
                end))
            (r_conds r) (r_conds (fst (step text_cmp w r node pts))).
Proof. exact conditions_batch. Qed.
Print Assumptions C13_conditions.

(* the same for ruleProcessPoints alone *)
Theorem C13_conditions_process :
  forall (w : window_t) (r : rule) (node : bytes) (pts : list point),
    Forall2 (cond_follows w (events_of node pts))
            (r_conds r) (r_conds (fst (fst (fst (process text_cmp w r node pts))))).
Proof. exact process_conditions. Qed.
Print Assumptions C13_conditions_process.

(* lifted over histories of batches: the latest matching point of the whole history decides *)
Theorem C13_conditions_history :
  forall (w : window_t) (h : list batch) (r : rule),
    Forall2 (fun c c' =>
               c_cfg c' = c_cfg c /\
               (in_scope (c_cfg c) = true ->
                match latest (matches w (c_cfg c)) (events_of_history h) with
                | Some (_, p) => c_active c' = satisfies w (c_cfg c) p
                | None => c_active c' = c_active c
                end))
            (r_conds r) (r_conds (run_history text_cmp w r h)).
Proof. exact conditions_history. Qed.
Print Assumptions C13_conditions_history.

(* after every batch of any history the rule is active exactly when all of its conditions are *)
Theorem C13_rule_active :
  forall (w : window_t) (r : rule) (h : list batch),
    Forall (fun t => let '(_, ra, _) := t in r_active ra = forallb c_active (r_conds ra))
           (trace text_cmp w r h).
Proof.
  intros w r h. eapply Forall_impl; [|apply (history_steps w r h)].
  intros [[rb ra] o] (H & _). exact H.
Qed.
Print Assumptions C13_rule_active.

(* ruleProcessPoints reports that state and whether it changed *)
Theorem C13_process_results :
  forall (w : window_t) (r : rule) (node : bytes) (pts : list point),
    let '(r', _, active, changed) := process text_cmp w r node pts in
    r_active r' = forallb c_active (r_conds r') /\ active = r_active r' /\
    changed = negb (Bool.eqb (r_active r) (r_active r')).
Proof. exact rule_active_process. Qed.
Print Assumptions C13_process_results.

(* Along any history, at exactly the batches where the rule's state changes the
   corresponding action list runs once and the opposite list is marked inactive
   ([action_points]: per action of the list that runs, the configured point to
   the target node with the rule as origin — the action itself when the target
   is the rule — for a well-formed set-value action, then the action marked
   active; per action of the opposite list, the action marked inactive); at all
   other batches no action output is sent and no action is touched.  [filter
   is_action_out] selects the points sent by ruleRunActions' set-value and
   active marks and by ruleInactiveActions (ghost tags of the model). *)
Theorem C13_actions_once :
  forall (w : window_t) (r : rule) (h : list batch),
    Forall (fun t =>
              let '(rb, ra, o) := t in
              let changed := negb (Bool.eqb (r_active rb) (r_active ra)) in
              filter is_action_out o =
                (if changed then action_points (r_id rb) (r_acts rb) (r_iacts rb) (r_active ra) else []) /\
              Forall2 (fun a a' => a_cfg a' = a_cfg a /\ a_active a' = if changed then r_active ra else a_active a)
                      (r_acts rb) (r_acts ra) /\
              Forall2 (fun a a' => a_cfg a' = a_cfg a /\ a_active a' = if changed then negb (r_active ra) else a_active a)
                      (r_iacts rb) (r_iacts ra))
           (trace text_cmp w r h).
Proof.
  intros w r h. eapply Forall_impl; [|apply (history_steps w r h)].
  intros [[rb ra] o] (_ & H). exact H.
Qed.
Print Assumptions C13_actions_once.

(* ---------- the configuration-change path ---------- *)
(* After a configuration change every condition the property speaks about, as
   it is configured after the merge, that the trigger point concerns (a schedule
   whose window test is defined at [t]; a point condition whose filters accept
   a point of type "trigger", empty key, value 0 and empty text from the rule's
   own node) is active exactly when that point satisfies it (for a schedule:
   when [t] lies in its window); every other condition is unchanged. *)
Theorem C13_config_change_conditions :
  forall (w : window_t) (r : rule) (node : bytes) (pts : list point) (sch : option N) (t : Z),
    Forall2 (fun c c' =>
               c_cfg c' = c_cfg c /\
               (in_scope (c_cfg c) = true ->
                match latest (matches w (c_cfg c)) [(r_id r, trigger_point t)] with
                | Some (_, p) => c_active c' = satisfies w (c_cfg c) p
                | None => c_active c' = c_active c
                end))
            (r_conds (merge r node pts sch)) (r_conds (fst (step_cfg text_cmp w r node pts sch t))).
Proof. exact config_change_conditions. Qed.
Print Assumptions C13_config_change_conditions.

(* and the rule is active exactly when all of its conditions are *)
Theorem C13_config_change_rule_active :
  forall (w : window_t) (r : rule) (node : bytes) (pts : list point) (sch : option N) (t : Z),
    let ra := fst (step_cfg text_cmp w r node pts sch t) in
    r_active ra = forallb c_active (r_conds ra).
Proof. exact config_change_rule_active. Qed.
Print Assumptions C13_config_change_rule_active.

(* For every rule and every configuration-change event: the merge keeps the
   rule's id, state and error and, element by element, the ids, active flags
   and errors of conditions and actions (it only edits their configuration);
   and if the rule's state after the event differs from its state before, the
   action list of the new state has run once (per action: the configured point
   to the target node with the rule as origin -- the action itself when the
   target is the rule -- for a well-formed set-value action, then the action
   marked active) and the opposite list has been marked inactive (per action
   one active = 0 point, the flag cleared in the configuration), nothing else
   being sent by ruleRunActions' set-value / active marks or by
   ruleInactiveActions; the actions are those of the configuration after the
   merge. *)
Theorem C13_config_change_actions :
  forall (w : window_t) (r : rule) (node : bytes) (pts : list point) (sch : option N) (t : Z),
    let rm := merge r node pts sch in
    let ra := fst (step_cfg text_cmp w r node pts sch t) in
    let o := snd (step_cfg text_cmp w r node pts sch t) in
    (r_id rm = r_id r /\ r_active rm = r_active r /\ r_error rm = r_error r /\
     Forall2 (fun c c' => c_id (c_cfg c') = c_id (c_cfg c) /\ c_active c' = c_active c /\ c_error c' = c_error c) (r_conds r) (r_conds rm) /\
     Forall2 (fun a a' => a_id (a_cfg a') = a_id (a_cfg a) /\ a_active a' = a_active a /\ a_error a' = a_error a) (r_acts r) (r_acts rm) /\
     Forall2 (fun a a' => a_id (a_cfg a') = a_id (a_cfg a) /\ a_active a' = a_active a /\ a_error a' = a_error a) (r_iacts r) (r_iacts rm)) /\
    (r_active ra <> r_active r ->
     filter is_action_out o = action_points (r_id rm) (r_acts rm) (r_iacts rm) (r_active ra) /\
     Forall2 (fun a a' => a_cfg a' = a_cfg a /\ a_active a' = r_active ra) (r_acts rm) (r_acts ra) /\
     Forall2 (fun a a' => a_cfg a' = a_cfg a /\ a_active a' = negb (r_active ra)) (r_iacts rm) (r_iacts ra)).
Proof. exact config_change_actions. Qed.
Print Assumptions C13_config_change_actions.

(* the code does not look at [changed] on this path: the lists run on every
   configuration change (so that an edited action value reaches its target) *)
Theorem C13_config_change_always :
  forall (w : window_t) (r : rule) (node : bytes) (pts : list point) (sch : option N) (t : Z),
    let rm := merge r node pts sch in
    let ra := fst (step_cfg text_cmp w r node pts sch t) in
    let o := snd (step_cfg text_cmp w r node pts sch t) in
    filter is_action_out o = action_points (r_id rm) (r_acts rm) (r_iacts rm) (r_active ra) /\
    Forall2 (fun a a' => a_cfg a' = a_cfg a /\ a_active a' = r_active ra) (r_acts rm) (r_acts ra) /\
    Forall2 (fun a a' => a_cfg a' = a_cfg a /\ a_active a' = negb (r_active ra)) (r_iacts rm) (r_iacts ra).
Proof. exact config_change_always. Qed.
Print Assumptions C13_config_change_always.

(* the implementation of strings.Contains used by the model agrees with "occurs at some offset" *)
Theorem C13_contains_spec : forall hay needle, contains hay needle = spec_contains hay needle.
Proof. exact contains_spec. Qed.
Print Assumptions C13_contains_spec.

(* ---------- non-vacuity: a concrete rule through one on/off cycle ---------- *)
Local Open Scope string_scope.
Definition ex_c0 : ccfg :=   (* node n1, type "value", any key: number > 20 *)
  {| c_id := bs "c0"; c_ctype := s_pointValue; c_node := bs "n1"; c_ptype := bs "value"; c_pkey := [];
     c_vtype := s_number; c_op := s_gt; c_value := 4626322717216342016; c_vtext := []; c_sched := 0 |}.
Definition ex_c1 : ccfg :=   (* any node, text contains "on" *)
  {| c_id := bs "c1"; c_ctype := s_pointValue; c_node := []; c_ptype := bs "state"; c_pkey := [];
     c_vtype := s_text; c_op := s_contains; c_value := 0; c_vtext := bs "on"; c_sched := 1 |}.
Definition ex_act : action :=
  {| a_cfg := {| a_id := bs "a0"; a_action := s_setValue; a_node := bs "t1"; a_ptype := bs "value";
                 a_value := f_one; a_vtext := [] |}; a_active := false; a_error := [] |}.
Definition ex_iact : action :=
  {| a_cfg := {| a_id := bs "i0"; a_action := s_setValue; a_node := bs "rule1"; a_ptype := bs "description";
                 a_value := 0; a_vtext := bs "idle" |}; a_active := false; a_error := [] |}.
Definition ex_rule : rule :=
  {| r_id := bs "rule1"; r_active := false; r_error := [];
     r_conds := [{| c_cfg := ex_c0; c_active := false; c_error := [] |}; {| c_cfg := ex_c1; c_active := false; c_error := [] |}];
     r_acts := [ex_act]; r_iacts := [ex_iact] |}.
Definition ex_pt (ty : string) (v : N) (tx : string) : point :=
  {| p_type := bs ty; p_key := []; p_time := 0%Z; p_value := v; p_text := bs tx |}.
(* 20.5 from n1; "state: button" from n2; 20 from n1 *)
Definition ex_history : list batch :=
  [ (bs "n1", [ex_pt "value" 4626463454704697344 ""]);
    (bs "n2", [ex_pt "state" 0 "button"; ex_pt "other" 0 ""]);
    (bs "n1", [ex_pt "value" 4626322717216342016 ""]) ].
Definition ex_w : window_t := fun _ _ => WIn false.

Example C13_in_scope_example : in_scope ex_c0 = true /\ in_scope ex_c1 = true.
Proof. split; reflexivity. Qed.

(* rule state after each batch, and the action outputs of each batch: nothing,
   then the action's point to t1 with the rule as origin + marks, then the
   inactive-action's point to the rule itself with the action as origin + marks *)
Example C13_cycle_example :
  map (fun t => let '(_, ra, o) := t in (r_active ra, map (fun x => (o_node x, o_type x, o_value x, o_origin x)) (filter is_action_out o)))
      (trace text_cmp ex_w ex_rule ex_history) =
  [ (false, []);
    (true, [ (bs "t1", bs "value", f_one, bs "rule1"); (bs "a0", bs "active", f_one, bs "rule1"); (bs "i0", bs "active", 0, bs "rule1") ]);
    (false, [ (bs "rule1", bs "description", 0, bs "i0"); (bs "i0", bs "active", f_one, bs "rule1"); (bs "a0", bs "active", 0, bs "rule1") ]) ].
Proof. vm_compute. reflexivity. Qed.

(* ---------- non-vacuity of the configuration-change theorems ----------
   A rule with one schedule condition (handle 0: the window contains every
   instant) that is active, its action marked active.  The manager hands over a
   new start and end for the condition; after the merge its schedule is handle
   7, whose window contains no instant.  The trigger evaluation makes the rule
   inactive: the inactive-action's point goes to t2 with the rule as origin, the
   inactive-action is marked active and the action is marked inactive. *)
Definition ex_sched : ccfg :=
  {| c_id := bs "c0"; c_ctype := s_schedule; c_node := []; c_ptype := []; c_pkey := [];
     c_vtype := []; c_op := []; c_value := 0; c_vtext := []; c_sched := 0 |}.
Definition ex_cfg_rule : rule :=
  {| r_id := bs "rule1"; r_active := true; r_error := [];
     r_conds := [{| c_cfg := ex_sched; c_active := true; c_error := [] |}];
     r_acts := [set_a_active ex_act true];
     r_iacts := [{| a_cfg := {| a_id := bs "i0"; a_action := s_setValue; a_node := bs "t2"; a_ptype := bs "value";
                               a_value := 0; a_vtext := [] |}; a_active := false; a_error := [] |}] |}.
Definition ex_cfg_w : window_t := fun h _ => WIn (N.eqb h 0).
Definition ex_cfg_pts : list point :=
  [ {| p_type := bs "start"; p_key := []; p_time := 5%Z; p_value := 0; p_text := bs "22:00" |};
    {| p_type := bs "end"; p_key := []; p_time := 5%Z; p_value := 0; p_text := bs "23:00" |} ].

Example C13_config_change_example :
  let '(ra, o) := step_cfg text_cmp ex_cfg_w ex_cfg_rule (bs "c0") ex_cfg_pts (Some 7) 1000%Z in
  cfg_in_scope ex_cfg_rule (bs "c0") ex_cfg_pts = true /\
  r_active ex_cfg_rule = true /\ r_active ra = false /\
  map (fun c => (c_sched (c_cfg c), c_active c)) (r_conds ra) = [(7, false)] /\
  map a_active (r_acts ra) = [false] /\ map a_active (r_iacts ra) = [true] /\
  map (fun x => (o_node x, o_type x, o_value x, o_origin x)) (filter is_action_out o) =
    [ (bs "t2", bs "value", 0, bs "rule1"); (bs "i0", bs "active", f_one, bs "rule1"); (bs "a0", bs "active", 0, bs "rule1") ].
Proof. vm_compute. repeat split; reflexivity. Qed.

(* a description point on the rule node changes nothing in the configuration,
   yet a rule whose stored state is stale (all conditions hold, the rule still
   inactive, the inactive-action still marked active) flips on this path *)
Example C13_config_change_stale_example :
  let r := {| r_id := bs "rule1"; r_active := false; r_error := [];
              r_conds := [{| c_cfg := ex_c0; c_active := true; c_error := [] |}];
              r_acts := [ex_act]; r_iacts := [set_a_active ex_iact true] |} in
  let '(ra, o) := step_cfg text_cmp ex_w r (bs "rule1")
                    [{| p_type := bs "description"; p_key := []; p_time := 0%Z; p_value := 0; p_text := bs "new name" |}] None 1000%Z in
  r_active ra = true /\ map a_active (r_acts ra) = [true] /\ map a_active (r_iacts ra) = [false] /\
  map (fun x => (o_node x, o_type x, o_value x, o_origin x)) (filter is_action_out o) =
    [ (bs "t1", bs "value", f_one, bs "rule1"); (bs "a0", bs "active", f_one, bs "rule1"); (bs "i0", bs "active", 0, bs "rule1") ].
Proof. vm_compute. repeat split; reflexivity. Qed.
