(* C11 — decoding arbitrary points never crashes.
   Statements only; proofs are in Codec/Total.v.  The model (Codec/Model.v)
   follows data/decode.go and data/merge.go after the repair of F8; [Panic] is
   the outcome of the model wherever reflect.Value.Index would panic. *)
From Verif Require Import Base.Bytes Codec.Model Codec.Total Codec.Tree Codec.Legacy.
Local Open Scope N_scope.

(* Decode into any prior value of any configuration type, from any node (any
   point types, keys, values, texts, tombstone counts, in any order, in the
   point and the edge-point list): an updated value or an error, never a panic *)
Theorem C11_total :
  forall (ty : cfgty) (prior : cfg) (n : node), decode_into ty prior n <> Panic.
Proof. exact decode_into_total. Qed.
Print Assumptions C11_total.

Theorem C11_total_merge :
  forall (ty : cfgty) (id : bytes) (pts : list point) (c : cfg), merge_points ty id pts c <> Panic.
Proof. exact merge_points_total. Qed.
Print Assumptions C11_total_merge.

Theorem C11_total_merge_edge :
  forall (ty : cfgty) (id parent : bytes) (pts : list point) (c : cfg),
    merge_edge_points ty id parent pts c <> Panic.
Proof. exact merge_edge_points_total. Qed.
Print Assumptions C11_total_merge_edge.

(* the same for configuration structs with child lists, decoded from a tree of nodes of any
   shape (children of any node type, at any depth, duplicated, with any points), and for
   MergePoints / MergeEdgePoints into whichever struct of the tree has the id *)
Theorem C11_total_tree :
  forall (tn : tnode) (ty : tty) (prior : tcfg), decode_tree tn ty prior <> Panic.
Proof. exact decode_tree_total. Qed.
Print Assumptions C11_total_tree.

Theorem C11_total_merge_tree :
  forall (ty : tty) (id : bytes) (pts : list point) (v : tcfg), merge_points_tree ty id pts v <> Panic.
Proof. exact merge_points_tree_total. Qed.
Print Assumptions C11_total_merge_tree.

Theorem C11_total_merge_edge_tree :
  forall (ty : tty) (id parent : bytes) (pts : list point) (v : tcfg),
    merge_edge_points_tree ty id parent pts v <> Panic.
Proof. exact merge_edge_points_tree_total. Qed.
Print Assumptions C11_total_merge_edge_tree.

(* children whose node type no child field declares, and undeclared points at every level,
   can be removed from the tree without changing outcome or value (child tags distinct per struct) *)
Theorem C11_undeclared_ignored_tree :
  forall (tn : tnode) (ty : tty) (prior : tcfg),
    tags_distinct ty = true -> decode_tree (strip_tree tn ty) ty prior = decode_tree tn ty prior.
Proof. exact decode_tree_strip. Qed.
Print Assumptions C11_undeclared_ignored_tree.

(* points whose type the configuration does not declare (in the namespace they
   arrive in) can be removed from the input without changing outcome or value,
   for Decode (op 0), MergePoints (op 1) and MergeEdgePoints (op 2) *)
Theorem C11_undeclared_ignored :
  forall (ty : cfgty) (op : N) (prior : cfg) (n : node),
    run_op ty op prior (strip_undeclared ty n) = run_op ty op prior n.
Proof. exact run_op_strip. Qed.
Print Assumptions C11_undeclared_ignored.

(* in particular a batch of undeclared points only changes nothing and is no error *)
Theorem C11_undeclared_only :
  forall (ty : cfgty) (id : bytes) (pts : list point) (c : cfg),
    nonempty id = true -> c_id c = id ->
    (forall p, In p pts -> declared ty false p = false) ->
    merge_points ty id pts c = Ok c.
Proof. exact merge_points_undeclared. Qed.
Print Assumptions C11_undeclared_only.

Theorem C11_undeclared_only_edge :
  forall (ty : cfgty) (id parent : bytes) (pts : list point) (c : cfg),
    nonempty id = true -> c_id c = id -> (parent = [] \/ c_parent c = parent) ->
    (forall p, In p pts -> declared ty true p = false) ->
    merge_edge_points ty id parent pts c = Ok c.
Proof. exact merge_edge_points_undeclared. Qed.
Print Assumptions C11_undeclared_only_edge.

(* the slice case of GroupedPoints.SetValue as it was before the repair (Codec/Legacy.v)
   reaches Panic: (i) a live point with a blank key into an empty slice, (ii) a point with a
   negative odd tombstone and an index past the end *)
Theorem C11_current_refuted :
  set_slice_legacy PBool [lpt [] 0] [] = Panic /\
  set_slice_legacy PBool [lpt [53] (-1)] [] = Panic.
Proof. exact Legacy.C11_current_refuted. Qed.
Print Assumptions C11_current_refuted.

(* non-vacuity: the inputs that crash the unrepaired code are handled.
   (i) a live point with a blank key into an empty slice grows the slice;
   (ii) a negative odd tombstone past the end of the slice is a tombstone *)
Definition ex11_ty : cfgty := [ {| f_edge := false; f_type := [115; 98]; f_kind := KSlice PBool |} ].
Definition ex11_prior : cfg := {| c_id := [120]; c_parent := []; c_vals := [FList []] |}.
Definition ex_pt (k : bytes) (t : Z) : point :=
  {| p_type := [115; 98]; p_key := k; p_value := f64_one; p_text := []; p_tomb := t |}.

Example C11_blank_key_into_empty_slice :
  merge_points ex11_ty [120] [ex_pt [] 0] ex11_prior
  = Ok {| c_id := [120]; c_parent := []; c_vals := [FList [VBool true]] |}.
Proof. vm_compute. reflexivity. Qed.

Example C11_negative_odd_tombstone_past_end :
  merge_points ex11_ty [120] [ex_pt [53] (-1)] ex11_prior = Ok ex11_prior.
Proof. vm_compute. reflexivity. Qed.

(* an undeclared point (type "zz") next to a declared one *)
Example C11_undeclared_example :
  merge_points ex11_ty [120]
    [ {| p_type := [122; 122]; p_key := [45; 49]; p_value := 2047 * 2^52 + 1; p_text := []; p_tomb := (-3)%Z |}; ex_pt [49] 0 ]
    ex11_prior
  = Ok {| c_id := [120]; c_parent := []; c_vals := [FList [VBool false; VBool true]] |}.
Proof. vm_compute. reflexivity. Qed.
