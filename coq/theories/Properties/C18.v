(* C18 — The Modbus server answers every request safely and per specification.
   Statements only; proofs are in Modbus/PduProofs.v.  [process_request] is the
   model of PDU.ProcessRequest over Regs (Modbus/Pdu.v, Modbus/Regs.v), [spec]
   the protocol specification (Modbus/PduSpec.v). *)
From Verif Require Import Base.Bytes Modbus.Regs Modbus.Pdu Modbus.PduSpec Modbus.PduProofs.
Local Open Scope N_scope.

(* no request, well-formed or not, on any register file makes the server crash; the
   model is structurally recursive on the quantity, so it does not hang either *)
Theorem C18_total :
  forall rs fc data, process_request rs fc data <> Panic.
Proof. exact total. Qed.
Print Assumptions C18_total.

(* the answer is the one the protocol prescribes: normal response with exactly the
   addressed coils / registers and the matching byte count, writes applied to exactly
   the addressed registers and acknowledged by the echo, exception 1 / 2 / 3 otherwise;
   a request too short to be parsed is rejected without an answer *)
Theorem C18_conforms :
  forall rs fc data,
    regs_ok rs -> fc < 256 -> bytes_ok data = true ->
    process_request rs fc data = spec rs fc data.
Proof. exact conforms. Qed.
Print Assumptions C18_conforms.

(* a read, or a single write (FC 5, 6), answered with an exception leaves every register unchanged *)
Theorem C18_exception_no_change :
  forall rs fc data changed rfc rdata rs',
    In fc [1; 2; 3; 4; 5; 6] ->
    process_request rs fc data = Ok (changed, (rfc, rdata), rs') ->
    N.testbit rfc 7 = true ->
    rs' = rs.
Proof. exact exception_no_change. Qed.
Print Assumptions C18_exception_no_change.

(* reads never change anything and never report a change *)
Theorem C18_reads_change_nothing :
  forall rs fc data changed resp rs',
    (fc = 1 \/ fc = 2 \/ fc = 3 \/ fc = 4) ->
    process_request rs fc data = Ok (changed, resp, rs') -> rs' = rs /\ changed = false.
Proof. exact reads_no_change. Qed.
Print Assumptions C18_reads_change_nothing.

(* the well-formedness of the register file assumed by C18_conforms is an invariant *)
Theorem C18_invariant_kept :
  forall rs fc data changed resp rs',
    regs_ok rs -> bytes_ok data = true ->
    spec rs fc data = Ok (changed, resp, rs') -> regs_ok rs'.
Proof. exact spec_keeps_ok. Qed.
Print Assumptions C18_invariant_kept.

(* non-vacuity: a register file with a validator meets the hypotheses, and a 12-coil
   read over it is answered with byte count 2 and the packed bits *)
Example C18_example :
  let rs := [ {| r_addr := 8; r_val := 2565; r_v := VEven |}; {| r_addr := 9; r_val := 1; r_v := VNone |} ] in
  regs_ok rs /\ bytes_ok [0; 128; 0; 12] = true /\
  process_request rs 1 [0; 128; 0; 12] = Ok (false, (1, [2; 5; 10]), rs).
Proof.
  cbv zeta. split; [|split; vm_compute; reflexivity].
  split; cbn.
  - constructor; [intros [E|[]]; discriminate|]. constructor; [intros []|constructor].
  - repeat constructor; lia.
Qed.

(* ---------- tie to the source text (Anchors/Generated.v is printed from modbus/*.go on every run) ----------
   The quantity limits, the address space, the exception codes and the table of minimum request lengths the
   theorems above speak about are the ones modbus/modbus.go declares, and the request handlers of the model
   answer under the function codes it declares. *)
From Coq Require Import ZArith.
From Verif Require Import Anchors.Generated Anchors.TieModbus.

Theorem C18_limits_from_source :
  go_modbus_maxReadBits = Z.of_N maxReadBits /\ go_modbus_maxReadRegs = Z.of_N maxReadRegs /\
  go_modbus_maxWriteBits = Z.of_N maxWriteBits /\ go_modbus_maxWriteRegs = Z.of_N maxWriteRegs /\
  go_modbus_maxAddress = Z.of_N maxAddress /\
  go_modbus_ExcIllegalFunction = Z.of_N ExcIllegalFunction /\ go_modbus_ExcIllegalAddress = Z.of_N ExcIllegalAddress /\
  go_modbus_ExcIllegalValue = Z.of_N ExcIllegalValue.
Proof.
  exact (conj tie_maxReadBits (conj tie_maxReadRegs (conj tie_maxWriteBits (conj tie_maxWriteRegs (conj tie_maxAddress
         (conj tie_exc_function (conj tie_exc_address tie_exc_value))))))).
Qed.
Print Assumptions C18_limits_from_source.

Theorem C18_min_request_len_from_source : forall fc : N, fc < 256 ->
  Z.of_N (min_request_len fc) = map_lookup go_modbus_minRequestLen (Z.of_N fc).
Proof. exact tie_minRequestLen. Qed.
Print Assumptions C18_min_request_len_from_source.
