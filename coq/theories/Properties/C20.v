(* C20 — concurrent use is safe (the part a model of atomic steps can carry; data races,
   SQLite busy handling, shutdown ordering are examined by the -race stress harness).
   Statements only; proofs in Store/Concurrent.v, Store/ProofsTop.v. *)
From Coq Require Import Permutation.
From Verif Require Import Base.Bytes Store.GraphCount Store.GraphWalk Store.Model Store.ProofsRows Store.ProofsHash Store.ProofsTop Store.Concurrent.
From Verif Require Import Properties.StoreExample.
Local Open Scope N_scope.

(* an execution is an interleaving of atomic request steps, i.e. a list of requests *)

(* successive reads of a point never go back to an older timestamp *)
Theorem C20_monotone_reads :
  forall st ops1 ops2 id t k, nodes_ok st ->
    ole (lookup (node_rows (s_nodes (run st ops1)) id) t k)
        (lookup (node_rows (s_nodes (run st (ops1 ++ ops2))) id) t k).
Proof. exact monotone_reads. Qed.
Print Assumptions C20_monotone_reads.

(* every acknowledged write is visible to every later read *)
Theorem C20_ack_visible :
  forall st ops1 id pts ops2 p, nodes_ok st ->
    reply_of (handle (run st ops1) (NodePts id pts)) = 0 -> In p pts ->
    ole (Some (normp p)) (lookup (node_rows (s_nodes (run st (ops1 ++ NodePts id pts :: ops2))) id) (p_type p) (p_key p)).
Proof. exact ack_visible. Qed.
Print Assumptions C20_ack_visible.

(* every request is answered *)
Theorem C20_answered : forall st o, reply_of (handle st o) = 0 \/ reply_of (handle st o) = 1.
Proof. exact reply_is_0_or_1. Qed.
Print Assumptions C20_answered.

(* when the load stops the content is what ANY serial order of the writes gives ... *)
Theorem C20_serializable :
  forall ops ops' id t k, Permutation ops ops' ->
    distinct_times (sel t k (map normp (flat_map (fun o => node_pts_of o id) ops))) ->
    lookup (node_rows (s_nodes (run st0 ops)) id) t k = lookup (node_rows (s_nodes (run st0 ops')) id) t k.
Proof. exact interleaving_independent. Qed.
Print Assumptions C20_serializable.

(* ... with consistent hashes, for every interleaving *)
Theorem C20_quiescent_hashes :
  forall ops st, wf st -> Inv st -> Forall op_ok ops -> wf (run st ops) /\ Inv (run st ops).
Proof. exact run_inv. Qed.
Print Assumptions C20_quiescent_hashes.

(* non-vacuity: two interleavings of the example history's writes to node c *)
Example C20_example :
  lookup (node_rows (s_nodes (run st0 ex_ops)) id_c) t_value [] =
  lookup (node_rows (s_nodes (run st0 (rev ex_ops))) id_c) t_value [].
Proof. vm_compute. reflexivity. Qed.
