(* C14 — Schedule windows: UTC, midnight wrap, qualified by the start day.
   Statements only; proofs are in Sched/Proofs.v and Sched/Calendar.v.

   Instants are integers counting nanoseconds since 1970-01-01T00:00:00Z, days
   are integers counting days since then; [active] is the model of
   schedule.activeForTime, [spec] the property's right-hand side:
     spec sm em wds ds T := exists D, allowed wds ds D = true /\
                                      win_start sm D <= T < win_end sm em D. *)
From Verif Require Import Base.Bytes Base.Val Sched.Model Sched.Calendar Sched.Proofs.
From Coq Require Import String.
Local Open Scope Z_scope.
Local Open Scope string_scope.

(* for every start and end minute of the day, every list of weekdays, every list
   of dates and every instant: the schedule written with those values is active
   exactly when some allowed day's half-open window contains the instant *)
Theorem C14_exact :
  forall sm em wds ds T,
    0 <= sm < 1440 -> 0 <= em < 1440 -> Forall date_digits ds ->
    exists b,
      active {| s_start := fmt_hm sm; s_end := fmt_hm em; s_wd := wds; s_dates := List.map fmt_date ds |} T = Ok b
      /\ (b = true <-> spec sm em wds ds T).
Proof. exact active_exact_minutes. Qed.
Print Assumptions C14_exact.

(* the same for every spelling of the schedule ("H:MM" as well as "HH:MM") that
   the strict reading accepts *)
Theorem C14_exact_strings :
  forall s T sm em ds,
    strict_hm (s_start s) = Some sm -> strict_hm (s_end s) = Some em ->
    map_opt strict_date (s_dates s) = Some ds ->
    exists b, active s T = Ok b /\ (b = true <-> spec sm em (s_wd s) ds T).
Proof. exact active_exact. Qed.
Print Assumptions C14_exact_strings.

(* a window is at most 24 h long: only the day of the instant and the day
   before can be the start day D of the specification *)
Theorem C14_two_days :
  forall sm em wds ds T,
    0 <= sm < 1440 -> 0 <= em < 1440 ->
    (spec_exec sm em wds ds T = true <-> spec sm em wds ds T).
Proof. exact spec_exec_complete. Qed.
Print Assumptions C14_two_days.

(* only the instant matters, not the zone offset of the value that carries it *)
Theorem C14_utc_only :
  forall s sec ns off off', active_in s sec ns off = active_in s sec ns off'.
Proof. exact utc_only. Qed.
Print Assumptions C14_utc_only.

(* the calendar function used by the date filter: day 0 is 1970-01-01, the date
   of day D+1 is the calendar successor of the date of day D (month lengths and
   Gregorian leap years), every date produced is valid, and the usual
   date-to-day-number function inverts it (distinct days, distinct dates) *)
Theorem C14_civil_epoch : civil 0 = (1970, 1, 1) /\ weekday 0 = 4.
Proof. exact (conj civil_epoch weekday_epoch). Qed.
Print Assumptions C14_civil_epoch.

Theorem C14_civil_succ :
  forall D, civil (D + 1) = next_day (civil D) /\ weekday (D + 1) = (weekday D + 1) mod 7.
Proof. exact (fun D => conj (civil_succ D) (weekday_succ D)). Qed.
Print Assumptions C14_civil_succ.

Theorem C14_civil_valid : forall D, valid_date (civil D) = true.
Proof. exact civil_valid. Qed.
Print Assumptions C14_civil_valid.

Theorem C14_civil_inverse : forall D, days_of_civil (civil D) = D.
Proof. exact days_of_civil_civil. Qed.
Print Assumptions C14_civil_inverse.

(* ---------- boundary examples (2024-03-02 is a Saturday) ---------- *)
(* inclusive start, exclusive end, to the nanosecond *)
Example C14_ex_start_inclusive_end_exclusive :
  let s := mk "8:00" "17:00" [] [] in
  active s (at_utc 2024 3 5 7 59 59 999999999) = Ok false /\
  active s (at_utc 2024 3 5 8 0 0 0) = Ok true /\
  active s (at_utc 2024 3 5 16 59 59 999999999) = Ok true /\
  active s (at_utc 2024 3 5 17 0 0 0) = Ok false.
Proof. vm_compute. repeat split; reflexivity. Qed.

(* start = end: a 24 h window from the start time of each allowed day (Mondays) *)
Example C14_ex_start_equals_end :
  let s := mk "06:30" "06:30" [1] [] in
  active s (at_utc 2024 3 4 6 29 59 999999999) = Ok false /\   (* Sunday's window is not allowed *)
  active s (at_utc 2024 3 4 6 30 0 0) = Ok true /\
  active s (at_utc 2024 3 5 6 29 59 999999999) = Ok true /\   (* Tuesday morning, Monday's window *)
  active s (at_utc 2024 3 5 6 30 0 0) = Ok false.
Proof. vm_compute. repeat split; reflexivity. Qed.

(* Saturday -> Sunday wrap: the window belongs to the day it starts on *)
Example C14_ex_saturday_wrap :
  let s := mk "22:00" "2:00" [6] [] in
  active s (at_utc 2024 3 2 1 0 0 0) = Ok false /\             (* Saturday 01:00 is Friday's window *)
  active s (at_utc 2024 3 2 22 0 0 0) = Ok true /\
  active s (at_utc 2024 3 3 1 59 59 999999999) = Ok true /\   (* Sunday, still Saturday's window *)
  active s (at_utc 2024 3 3 2 0 0 0) = Ok false /\
  active s (at_utc 2024 3 3 22 0 0 0) = Ok false.             (* Sunday's own window is not allowed *)
Proof. vm_compute. repeat split; reflexivity. Qed.

(* month and year end with a date filter *)
Example C14_ex_year_end :
  let s := mk "23:00" "1:00" [] ["2023-12-31"] in
  active s (at_utc 2023 12 31 0 30 0 0) = Ok false /\          (* the window of 12-30 *)
  active s (at_utc 2023 12 31 23 0 0 0) = Ok true /\
  active s (at_utc 2024 1 1 0 59 59 999999999) = Ok true /\
  active s (at_utc 2024 1 1 1 0 0 0) = Ok false /\
  active s (at_utc 2024 1 1 23 30 0 0) = Ok false.
Proof. vm_compute. repeat split; reflexivity. Qed.

(* 29 February: present in 2024 and 2000, absent in 2023, 1900 and 2100 *)
Example C14_ex_leap_day :
  let s := mk "23:00" "1:00" [4] ["2024-02-29"] in            (* a Thursday *)
  active s (at_utc 2024 2 29 0 30 0 0) = Ok false /\
  active s (at_utc 2024 3 1 0 30 0 0) = Ok true /\
  active (mk "0:00" "0:00" [] ["2023-02-29"]) (at_utc 2023 3 1 12 0 0 0) = Ok false /\
  civil (days_of_civil (2024, 2, 28) + 1) = (2024, 2, 29) /\
  civil (days_of_civil (2000, 2, 28) + 1) = (2000, 2, 29) /\
  civil (days_of_civil (2023, 2, 28) + 1) = (2023, 3, 1) /\
  civil (days_of_civil (1900, 2, 28) + 1) = (1900, 3, 1) /\
  civil (days_of_civil (2100, 2, 28) + 1) = (2100, 3, 1) /\
  weekday (days_of_civil (2024, 2, 29)) = 4.
Proof. vm_compute. repeat split; reflexivity. Qed.

(* what the code does with strings outside the strict reading (no theorem speaks
   about these; the harness compares them with the implementation) *)
Example C14_ex_outside_strict_reading :
  active (mk "8" "17:00" [] []) 0 = Err 1 /\
  active (mk "8:00" "" [] []) 0 = Err 2 /\
  active (mk "8:00" "17:00" [] ["2024-1-05"]) (at_utc 2024 1 5 9 0 0 0) = Err 3 /\
  active (mk "8:00" "17:00" [3] ["2024-1-05"]) (at_utc 2024 1 5 9 0 0 0) = Ok false /\  (* no range left: dates unread *)
  active (mk "x123:456" "25:00" [] []) (at_utc 2024 1 5 23 50 0 0) = Ok true.         (* 23:45 .. 01:00 next day *)
Proof. vm_compute. repeat split; reflexivity. Qed.

(* non-vacuity: the hypotheses of C14_exact_strings hold of a concrete schedule,
   and the specification is inhabited *)
Example C14_ex_hypotheses :
  strict_hm (str "8:00") = Some 480 /\ strict_hm (str "17:05") = Some 1025 /\
  map_opt strict_date [str "2024-02-29"] = Some [(2024, 2, 29)] /\
  spec 480 1025 [4] [(2024, 2, 29)] (at_utc 2024 2 29 8 0 0 0).
Proof.
  repeat split; try reflexivity.
  exists (days_of_civil (2024, 2, 29)). vm_compute. repeat split; congruence.
Qed.
