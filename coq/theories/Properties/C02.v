(* C02 — linked instances converge on the shared device tree (partial: the point exchange is
   proved; the recursion of the catch-up is an executable model validated against two real
   linked instances on every run).  Statements only; proofs in Sync/Proofs.v. *)
From Verif Require Import Base.Bytes Store.GraphCount Store.GraphWalk Store.Model Store.Check Store.ProofsRows Store.ProofsHash Store.ProofsTop Store.Concurrent Sync.Model Sync.Proofs Sync.ProofsEdge Sync.Frame Sync.Converge Sync.ConvergeExample Sync.Create Sync.Subtree.

(* the two comparison loops of a catch-up pass: for any two row lists (one row per identity,
   normalised keys, a tie in time meaning the same point) both sides end up, for every identity,
   with the newer of the two points — whichever side made which write *)
Theorem C02_exchange_join :
  forall L R, keys_norm L -> keys_norm R -> nodup_rows L -> nodup_rows R ->
    (forall t k a b, lookup L t k = Some a -> lookup R t k = Some b -> p_time a = p_time b -> a = b) ->
  forall t k,
    let sends := sync_points L R in
    lookup (recv_local L sends) t k = join (lookup L t k) (lookup R t k) /\
    lookup (recv_remote R sends) t k = join (lookup L t k) (lookup R t k).
Proof. exact exchange_join. Qed.
Print Assumptions C02_exchange_join.


(* the same at the level of the two instances' stores: the acknowledged single-point writes a
   catch-up pass issues for one node leave both stores with the newer point per identity on that
   node and touch no other node *)
Theorem C02_node_exchange_store :
  forall D U id t k, nodes_ok D -> nodes_ok U ->
    no_nan (node_rows (s_nodes D) id) -> no_nan (node_rows (s_nodes U) id) ->
    (forall t k a b, lookup (node_rows (s_nodes D) id) t k = Some a -> lookup (node_rows (s_nodes U) id) t k = Some b ->
                     p_time a = p_time b -> a = b) ->
    let L := node_rows (s_nodes D) id in let R := node_rows (s_nodes U) id in
    let DU := apply_node_sends D U id id (sync_points L R) in
    lookup (node_rows (s_nodes (fst DU)) id) t k = join (lookup L t k) (lookup R t k) /\
    lookup (node_rows (s_nodes (snd DU)) id) t k = join (lookup L t k) (lookup R t k) /\
    (forall id', id' <> id -> node_rows (s_nodes (fst DU)) id' = node_rows (s_nodes D) id' /\
                              node_rows (s_nodes (snd DU)) id' = node_rows (s_nodes U) id').
Proof. exact node_exchange_store. Qed.
Print Assumptions C02_node_exchange_store.

(* the edge-point half of the pass, for a placement (parent, id) that both instances hold and that is not the
   root of either (the device's own placement is skipped by syncNode): both end with the newer point per
   identity on that edge; every other edge and all node points are left alone *)
Theorem C02_edge_exchange_store :
  forall D U id pl pu t k,
    side_ok D pl id -> side_ok U pu id -> pl <> [] -> pu <> [] -> id <> str_none -> id <> pl -> id <> pu ->
    rows_sendable (edge_rows D pl id) -> rows_sendable (edge_rows U pu id) ->
    (forall t k a b, lookup (edge_rows D pl id) t k = Some a -> lookup (edge_rows U pu id) t k = Some b ->
                     p_time a = p_time b -> a = b) ->
    let L := edge_rows D pl id in let R := edge_rows U pu id in
    let DU := apply_edge_sends D U id pl pu (sync_points L R) in
    lookup (edge_rows (fst DU) pl id) t k = join (lookup L t k) (lookup R t k) /\
    lookup (edge_rows (snd DU) pu id) t k = join (lookup L t k) (lookup R t k) /\
    (forall up down, (up, down) <> (pl, id) -> edge_rows (fst DU) up down = edge_rows D up down) /\
    (forall up down, (up, down) <> (pu, id) -> edge_rows (snd DU) up down = edge_rows U up down) /\
    s_nodes (fst DU) = s_nodes D /\ s_nodes (snd DU) = s_nodes U.
Proof. exact edge_exchange_store. Qed.
Print Assumptions C02_edge_exchange_store.

(* its hypotheses hold of the example states below (deleted child c of the device) *)
Example C02_edge_exchange_example : side_ok exD id_dev id_c /\ side_ok exU id_dev id_c.
Proof. split; [exact side_ok_exD|exact side_ok_exU]. Qed.

(* so the agreed value of each identity is never older than what either side had accepted *)
Theorem C02_no_lost_write : forall a b, ole a (join a b) /\ ole b (join a b).
Proof. exact join_covers. Qed.
Print Assumptions C02_no_lost_write.


(* nothing either instance holds is ever reverted by the writes of a catch-up pass (or of anybody
   else): whatever acknowledged requests follow, the point read for an identity of a node or of an
   edge is never replaced by an older one.  (The catch-up model of Sync/Model.v acts on the two
   stores only through such requests.) *)
Theorem C02_no_revert_node :
  forall st ops1 ops2 id t k, nodes_ok st ->
    ole (lookup (node_rows (s_nodes (run st ops1)) id) t k)
        (lookup (node_rows (s_nodes (run st (ops1 ++ ops2))) id) t k).
Proof. exact monotone_reads. Qed.
Print Assumptions C02_no_revert_node.

Theorem C02_no_revert_edge :
  forall st ops1 ops2 par id t k, wf st -> Inv st -> edges_ok st -> Forall op_ok ops1 -> Forall op_ok ops2 ->
    ole (lookup (edge_rows (run st ops1) par id) t k)
        (lookup (edge_rows (run st (ops1 ++ ops2)) par id) t k).
Proof. exact monotone_reads_edge. Qed.
Print Assumptions C02_no_revert_edge.

(* non-vacuity and the known history: child c of the device deleted upstream during an outage.
   The catch-up of the repaired code converges (both sides hold the tombstone); the catch-up as
   it was (children listed without deleted ones, undelete branch for every node) does not. *)
Example C02_catchup_example : agree (catchup false 8 exD exU id_dev 0%Z) = true.
Proof. vm_compute. reflexivity. Qed.

Example C02_legacy_refuted : agree (catchup true 8 exD exU id_dev 0%Z) = false.
Proof. vm_compute. reflexivity. Qed.

(* THE RECURSION.  One catch-up pass (syncNode on the device, fuel S n for a tree of height n below it) over two
   instances in good standing (wf, hash invariant, one row per identity) that hold the same tree below the
   device (kids_ok / shape: one placement per node, the same children on both sides, disjoint subtrees) whose
   points are numbers with timestamps that identify them (node_data / data), and whose compared hashes are
   faithful — equal only over equal content (the hypothesis the finding below shows to be necessary):
   afterwards the device and every node and edge below it carry, on BOTH sides, for every point identity, the
   newer of the two points the sides held (njoined / joined: so the sides agree and nothing accepted on either
   side is lost or reverted), nothing outside the device tree has changed (frame), and both stores are again
   in good standing.  Node creations on one side only are outside this statement (sendNodesRemote / Local:
   correspondence only); deletions are tombstone points and are covered. *)
Theorem C02_recursion_converges :
  forall dev now n D U nl nu,
    good D -> good U -> real dev ->
    parents (s_edges D) dev = [nl] -> parents (s_edges U) dev = [nu] -> edge_deleted nu = false ->
    kids_ok (links D) (links U) dev ->
    (forall c, In c (kids (links D) dev) -> shape dev n (links D) (links U) (s_root D) (s_root U) dev c) ->
    node_data D U dev -> (forall c, In c (kids (links D) dev) -> data (links D) D U c) ->
    (top_hash_of nl = top_hash_of nu ->
       (forall t k, lookup (nrows D dev) t k = lookup (nrows U dev) t k) /\
       forall c, In c (kids (links D) dev) -> sub_agree (links D) D U c) ->
    (forall c, In c (kids (links D) dev) -> faithful (links D) D U c) ->
    let DU := sync_node false (S n) D U dev str_root dev now in
    njoined D U (fst DU) (snd DU) dev /\
    (forall c, In c (kids (links D) dev) -> joined (links D) D U (fst DU) (snd DU) c) /\
    frame (below (links D) dev) D (fst DU) /\ frame (below (links U) dev) U (snd DU) /\
    good (fst DU) /\ good (snd DU).
Proof. exact sync_converges. Qed.
Print Assumptions C02_recursion_converges.

(* non-vacuity: two reachable stores holding the device tree d -> {c -> g, h}, different after an outage on
   d, c, g and the edge (c, g), equal on h (whose hashes are equal: the faithful skip is exercised), meet every
   hypothesis (Sync/ConvergeExample.v), so the theorem applies to them; evaluating the pass confirms it *)
Theorem C02_recursion_example :
  let DU := sync_node false 2 cD cU id_dev str_root id_dev 0%Z in
  njoined cD cU (fst DU) (snd DU) id_dev /\
  (forall c, In c (kids KD id_dev) -> joined KD cD cU (fst DU) (snd DU) c).
Proof. exact recursion_example. Qed.
Print Assumptions C02_recursion_example.

Example C02_recursion_example_evaluated :
  forallb (fun x => rows_eqb (nrows (fst outcome) x) (nrows (snd outcome) x)) [id_dev; id_c; id_g; id_h] = true /\
  forallb (fun qx => rows_eqb (edge_rows (fst outcome) (fst qx) (snd qx)) (edge_rows (snd outcome) (fst qx) (snd qx)))
          [(id_dev, id_c); (id_c, id_g); (id_dev, id_h)] = true /\
  rows_eqb (nrows cD id_g) (nrows cU id_g) = false /\ rows_eqb (edge_rows cD id_c id_g) (edge_rows cU id_c id_g) = false.
Proof. exact outcome_agrees. Qed.

(* a node that only one side holds (created during an outage): SendNode, the step of sendNodesRemote /
   sendNodesLocal for one node, copies it to the other side - node points merged into whatever the receiver had
   for that id, a new edge under the parent with the sender's edge points - and touches nothing else.  (One
   node; the recursion over its children is validated by correspondence.) *)
Theorem C02_node_creation :
  forall U ns e parent origin now,
    good U -> parent <> [] ->
    let x := e_down e in
    let npts := map (fill_origin origin) (node_rows ns x) in
    let epts := sent_edge_points e origin now in
    has_nan npts = false -> bad_times npts = false -> bad_times epts = false -> has_nan epts = false -> x <> parent -> x <> s_root U ->
    find_edge (s_edges U) parent x = None ->
    is_upstream (s_edges U) (fuel_of (s_edges U)) x parent = false ->
    last_node_type (collapse epts) <> [] ->
    let U' := send_node U ns e parent origin now in
    node_rows (s_nodes U') x = batch_rows false (node_rows (s_nodes U) x) npts /\
    (forall y, y <> x -> node_rows (s_nodes U') y = node_rows (s_nodes U) y) /\
    edge_rows U' parent x = batch_rows true [] epts /\
    (forall u d, (u, d) <> (parent, x) -> edge_rows U' u d = edge_rows U u d) /\
    good U'.
Proof. exact send_node_creates. Qed.
Print Assumptions C02_node_creation.

(* non-vacuity: the upstream example store without the child c, and c as the downstream holds it *)
Definition crU : store := run st0 [mk id_ur str_root 1; mk id_dev id_ur 1].
Definition cr_e : edge := mkEdge 7 id_dev id_c [103%N] [ptt str_tombstone 2 0%N []] 0%N.
Definition cr_ns : list (bytes * list point) := [(id_c, [ptt [118%N] 3 0x3FF0000000000000%N []])].
Example C02_node_creation_example :
  has_nan (map (fill_origin sync_id) (node_rows cr_ns id_c)) = false /\
  has_nan (sent_edge_points cr_e sync_id 9%Z) = false /\
  find_edge (s_edges crU) id_dev id_c = None /\
  is_upstream (s_edges crU) (fuel_of (s_edges crU)) id_c id_dev = false /\
  last_node_type (collapse (sent_edge_points cr_e sync_id 9%Z)) <> [] /\
  edge_rows (send_node crU cr_ns cr_e id_dev sync_id 9%Z) id_dev id_c <> [] /\
  node_rows (s_nodes (send_node crU cr_ns cr_e id_dev sync_id 9%Z)) id_c <> [].
Proof. vm_compute. repeat split; discriminate. Qed.

(* a whole subtree that only the downstream holds (created during an outage): sendNodesRemote is a sequence of
   SendNode calls, parent before children (send_nodes_remote_is_fold), and when every node it sends is new to the
   upstream at the moment it is sent ([pre]: no link the upstream held, or an earlier call made, mentions it; its
   points are numbers with storable times; it is not the root, not its own parent) the upstream ends with a copy of
   every node and edge that was sent - node points merged into whatever rows it had for that id, a new edge with the
   sender's edge points - under the right parents, and nothing else changes.  Any depth, any store.
   (sendNodesLocal, the same recursion in the other direction, stays with the correspondence check.) *)
Theorem C02_subtree_creation :
  forall f D U uroot e now,
    good U -> pre D uroot now (links U) (s_root U) (sent_edges f D e) ->
    let L := sent_edges f D e in
    let U' := send_nodes_remote f D U uroot e now in
    good U' /\ links U' = links U ++ map (pair_of uroot) L /\ s_root U' = s_root U /\
    (forall c, In c L ->
       node_rows (s_nodes U') (e_down c) = batch_rows false (node_rows (s_nodes U) (e_down c)) (npts_of D c) /\
       edge_rows U' (par_of uroot c) (e_down c) = batch_rows true [] (sent_edge_points c sync_id now)) /\
    (forall y, ~ In y (map e_down L) -> node_rows (s_nodes U') y = node_rows (s_nodes U) y) /\
    (forall u d, ~ In (u, d) (map (pair_of uroot) L) -> edge_rows U' u d = edge_rows U u d).
Proof. exact send_nodes_remote_copies. Qed.
Print Assumptions C02_subtree_creation.

(* non-vacuity: the downstream example store holds d -> c -> g; the upstream store crU holds d only.  Sending c
   (depth 2) is two calls, c then g; the hypothesis holds (decided by preb); afterwards the upstream has both edges *)
Lemma good_crU : good crU.
Proof.
  assert (O : Forall op_ok [mk id_ur str_root 1; mk id_dev id_ur 1]) by (repeat constructor; discriminate).
  destruct (reachable_ok _ O) as (W & I & E). split; [split; [exact W|split; [exact I|exact E]]|].
  apply run_nodes_ok. exact nodes_ok_st0.
Qed.
Definition cr_top : edge := hd cr_e (get_nodes cD id_dev id_c true).
Example C02_subtree_creation_example :
  good crU /\
  map e_down (sent_edges 2 cD cr_top) = [id_c; id_g] /\
  pre cD id_ur 9%Z (links crU) (s_root crU) (sent_edges 2 cD cr_top) /\
  edge_rows (send_nodes_remote 2 cD crU id_ur cr_top 9%Z) id_dev id_c <> [] /\
  edge_rows (send_nodes_remote 2 cD crU id_ur cr_top 9%Z) id_c id_g <> [] /\
  edge_rows crU id_c id_g = [].
Proof.
  split; [exact good_crU|]. split; [vm_compute; reflexivity|]. split; [apply preb_pre; vm_compute; reflexivity|].
  vm_compute. repeat split; discriminate.
Qed.

(* the other direction: sendNodesLocal lists the children through the local store after the node has been created
   there (client/sync.go: up.nc), so for a node that is new to the local store one call copies exactly that node
   (C02_node_creation says what the copy is); its children follow in later passes *)
Theorem C02_local_creation_is_one_node :
  forall f D src e now,
    good D -> ok1 (mkStore src [] [] 0) [] now (links D) (s_root D) e -> e_up e <> str_root ->
    e_down e <> str_root -> e_down e <> str_all ->
    send_nodes_local f D src e now = send_node D src e (e_up e) sync_id now.
Proof. exact send_nodes_local_one. Qed.
Print Assumptions C02_local_creation_is_one_node.

(* What the hash short-cut of syncNode cannot see (recorded finding equal-hash-different-content).
   A catch-up pass on a node whose compared hashes are equal returns both stores unchanged whatever lies
   below it ... *)
Theorem C02_equal_hash_is_a_fixpoint :
  forall legacy f D U dev parent id now nl ls nu us,
  let parent' := if bytes_eqb parent str_root then str_all else parent in
  get_nodes D parent' id true = nl :: ls -> get_nodes U parent' id true = nu :: us ->
  forallb edge_deleted (nu :: us) && (legacy || bytes_eqb (e_down nl) dev) = false ->
  (if bytes_eqb (e_down nl) dev then N.lxor (e_hash nl) (xor_epts nl) else e_hash nl) =
  (if bytes_eqb (e_down nl) dev then N.lxor (e_hash nu) (xor_epts nu) else e_hash nu) ->
  sync_node legacy f D U dev parent id now = (D, U).
Proof. exact sync_node_blind. Qed.
Print Assumptions C02_equal_hash_is_a_fixpoint.

(* ... and equal hashes do not mean equal content: the full convergence statement is false of the faithful
   model.  Witness: the same point written, during an outage, to child c downstream and to its sibling e
   upstream.  All stored hashes are the correct Merkle hashes, the device hashes are equal, every catch-up
   leaves both sides as they are, and they differ.  (Replayed on two real instances by corpus/C02.) *)
Theorem C02_convergence_refuted :
  exists D U dev,
    spec_hashes_ok (project D) = true /\ spec_hashes_ok (project U) = true /\
    catchup false 8 D U dev 0%Z = (D, U) /\ agree (D, U) = false /\
    blind_only dev (dev_tree D) (dev_tree U) = true.
Proof.
  exists blD, blU, id_dev. destruct hash_blind_example as (H1 & H2 & H3 & H4 & H5). repeat split; assumption.
Qed.
Print Assumptions C02_convergence_refuted.
