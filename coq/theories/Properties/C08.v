(* C08 — a client is told of every foreign change to its subtree, never its own.
   Statements only; proofs in Manager/Proofs.v (the "only its subtree" clause rests on C06). *)
From Coq Require Import List NArith Bool.
Import ListNotations.
From Verif Require Import Base.Bytes Store.GraphCount Store.GraphWalk Store.Model Store.ProofsRows Store.ProofsHash Store.ProofsTop Store.Check.
From Verif Require Import Manager.Model Manager.Proofs Manager.Fold Properties.StoreExample.
Local Open Scope N_scope.

(* the echo filter, exactly: a batch of one author o written to node x and republished by the store on
   up.<a>.<x> is handed to the client of node c (Points callback with the whole batch) iff
   not (o = "" and x = c) and o <> c; otherwise nothing is handed over *)
Theorem C08_filter_exact : forall c a x o pts,
  nodot a -> nodot x -> pts <> [] -> (forall p, In p pts -> p_origin p = o) ->
  deliver c (subject (NodePts x pts) a) pts = if foreign c x o then DPoints x pts else DDropped.
Proof. exact C08_filter_exact_proof. Qed.
Print Assumptions C08_filter_exact.

Theorem C08_foreign_iff : forall c x o, foreign c x o = true <-> ~ (o = [] /\ x = c) /\ o <> c.
Proof. exact foreign_spec. Qed.
Print Assumptions C08_foreign_iff.

(* in particular: every batch with o outside {"", c} is delivered, none with o = c, none with o = "" on c itself *)
Corollary C08_filter_cases : forall c a x o pts,
  nodot a -> nodot x -> pts <> [] -> (forall p, In p pts -> p_origin p = o) ->
  (o <> [] -> o <> c -> deliver c (subject (NodePts x pts) a) pts = DPoints x pts) /\
  (o = c -> deliver c (subject (NodePts x pts) a) pts = DDropped) /\
  (o = [] -> x = c -> deliver c (subject (NodePts x pts) a) pts = DDropped) /\
  (o = [] -> x <> c -> c <> [] -> deliver c (subject (NodePts x pts) a) pts = DPoints x pts).
Proof.
  intros c a x o pts Ha Hx Hne Ho. rewrite (C08_filter_exact c a x o pts Ha Hx Hne Ho).
  repeat split; intros.
  - assert (E : foreign c x o = true) by (apply foreign_spec; split; [intros (E1 & _); contradiction|assumption]).
    rewrite E. reflexivity.
  - assert (E : foreign c x o = false).
    { destruct (foreign c x o) eqn:E; [|reflexivity]. apply foreign_spec in E. destruct E. contradiction. }
    rewrite E. reflexivity.
  - assert (E : foreign c x o = false).
    { destruct (foreign c x o) eqn:E; [|reflexivity]. apply foreign_spec in E. destruct E as (E & _). exfalso. apply E. auto. }
    rewrite E. reflexivity.
  - assert (E : foreign c x o = true) by (apply foreign_spec; split; [intros (_ & E2); contradiction|congruence]).
    rewrite E. reflexivity.
Qed.
Print Assumptions C08_filter_cases.

(* edge points are passed through unfiltered; a batch carrying tombstone 0/1 or a node type restarts the client *)
Theorem C08_edge_points : forall c a x par pts,
  nodot a -> nodot x -> nodot par ->
  deliver c (subject (EdgePts x par pts) a) pts =
  match first_restart pts with Some u => DRestart u | None => DEdgePoints x par pts end.
Proof. exact C08_edge_points_proof. Qed.
Print Assumptions C08_edge_points.

(* order: the sequence of callbacks is the sequence of accepted batches (the store's rebroadcast stream of C06,
   restricted to the subjects up.<c>.>) filtered by the echo predicate, order preserved, one delivery per path to c.
   Named assumption: NATS per-subscription FIFO (the callback of one subscription is invoked with the matching
   messages one at a time in publish order). *)
Theorem C08_order : forall (c : bytes) (received : list (bytes * list point) -> list (bytes * list point)),
  (forall published, received published = filter (fun m => sub_match c (fst m)) published) ->
  forall ops st, stream_ok st ops ->
  deliver_all c (received (publish st ops)) = (told c st ops, None).
Proof. exact C08_order_proof. Qed.
Print Assumptions C08_order.

(* only its subtree: when no upward walk from the written node (live edges for node points, any edge for edge
   points) ends in c, the request produces no callback at the client of c — from C06_complete *)
Theorem C08_only_subtree : forall st o c,
  wf st -> Inv st -> op_ok o -> op_nodot o -> Forall nodot (pubs_of (handle st o)) ->
  let st' := state_of (handle st o) in
  ~ (exists l, gswalk (s_edges st') (sel_of (match o with NodePts _ _ => false | EdgePts _ _ _ => true end))
                      (match o with NodePts id _ => id | EdgePts id _ _ => id end) l /\
               gendpoint (match o with NodePts id _ => id | EdgePts id _ _ => id end) l = c) ->
  deliver_all c (msgs_of o (pubs_of (handle st o))) = ([], None).
Proof. exact C08_only_subtree_proof. Qed.
Print Assumptions C08_only_subtree.

(* the fold clause, for the scalar point fields of the decoder model (description: text, value: number): after any
   history of requests, decoding what the store holds for the client's node gives the same field as folding,
   in order, every accepted batch written to that node (the foreign ones the client is told of — C08_order —
   and the ones it wrote itself) into the configuration decoded when it started.  Hypotheses: the field's points
   carry key "" or "0" (zero_keys), and their timestamps do not decrease (nondec: start value, then the writes). *)
Theorem C08_fold_agrees : forall st ops id ty,
  nodes_ok st ->
  let rows := node_rows (s_nodes st) id in
  let told_and_own := accepted_node st ops id in
  zero_keys ty rows -> zero_keys ty told_and_own -> nondec (lookup rows ty str_0) (typed ty told_and_own) ->
  field_text (sort_points (node_rows (s_nodes (Store.ProofsTop.run st ops)) id)) ty = field_text (sort_points rows ++ told_and_own) ty /\
  field_val (sort_points (node_rows (s_nodes (Store.ProofsTop.run st ops)) id)) ty = field_val (sort_points rows ++ told_and_own) ty.
Proof. intros. split; [apply fold_agrees_text|apply fold_agrees_val]; assumption. Qed.
Print Assumptions C08_fold_agrees.

(* non-vacuity of the fold clause: two writes to node c of the example store (the second newer, the first with an
   empty key, the second with key "0"), plus an unrelated type in between *)
Definition ex_fold_u : bytes := [117].
Definition ex_fold_ops : list op :=
  [NodePts id_c [mkPoint t_value [] 100 7 [] [] 0 ex_fold_u]; NodePts id_c [mkPoint [100] [] 101 0 [120] [] 0 ex_fold_u];
   NodePts id_c [mkPoint t_value [48] 102 9 [] [] 0 []]].
Example C08_fold_example :
  zero_keys t_value (node_rows (s_nodes ex_st) id_c) /\ zero_keys t_value (accepted_node ex_st ex_fold_ops id_c) /\
  nondec (lookup (node_rows (s_nodes ex_st) id_c) t_value str_0) (typed t_value (accepted_node ex_st ex_fold_ops id_c)) /\
  length (typed t_value (accepted_node ex_st ex_fold_ops id_c)) = 2%nat /\
  field_val (sort_points (node_rows (s_nodes (Store.ProofsTop.run ex_st ex_fold_ops)) id_c)) t_value = 9.
Proof.
  split; [|split; [|split; [|split]]]; try (vm_compute; reflexivity).
  - intros p Hp Ht. vm_compute in Hp. repeat (destruct Hp as [<-|Hp]; [try reflexivity; try (exfalso; vm_compute in Ht; discriminate)|]). destruct Hp.
  - intros p Hp Ht. vm_compute in Hp. repeat (destruct Hp as [<-|Hp]; [try reflexivity; try (exfalso; vm_compute in Ht; discriminate)|]). destruct Hp.
  - vm_compute. repeat split; discriminate.
Qed.

(* non-vacuity, in the example store of C06 (c under a (deleted) and b (live), both under r): a batch authored by
   "u" written to c reaches the client of b once and the client of r once, not the client of a; a batch authored
   by b itself is not echoed to b but reaches r *)
Definition ex_u : bytes := [117].
Definition ex_batch (o : bytes) : list point := [mkPoint t_value [] 100 0 [] [] 0 o].
Example C08_example :
  stream_ok ex_st [NodePts id_c (ex_batch ex_u); NodePts id_c (ex_batch id_b)] /\
  told id_b ex_st [NodePts id_c (ex_batch ex_u); NodePts id_c (ex_batch id_b)] = [CbPoints id_c (ex_batch ex_u)] /\
  told id_r ex_st [NodePts id_c (ex_batch ex_u); NodePts id_c (ex_batch id_b)] =
    [CbPoints id_c (ex_batch ex_u); CbPoints id_c (ex_batch id_b)] /\
  told id_a ex_st [NodePts id_c (ex_batch ex_u); NodePts id_c (ex_batch id_b)] = [] /\
  deliver_all id_b (publish ex_st [NodePts id_c (ex_batch ex_u); NodePts id_c (ex_batch id_b)]) =
    ([CbPoints id_c (ex_batch ex_u)], None).
Proof.
  split.
  - cbn [stream_ok]. vm_compute. repeat split; try (repeat constructor; intros H; repeat (destruct H as [H|H]; [discriminate|]); destruct H);
      try (intros H; repeat (destruct H as [H|H]; [discriminate|]); destruct H); eexists; reflexivity.
  - vm_compute. repeat split; reflexivity.
Qed.
