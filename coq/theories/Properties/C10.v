(* C10 — typed configuration survives Encode/Decode and Diff/Merge.
   Statements only; proofs are in Codec/Proofs.v (round trip), Codec/DiffMerge.v
   (diff + merge) and Codec/Conv.v (number conversions).  The model
   (Codec/Model.v) follows data/encode.go, data/decode.go and data/merge.go
   after the repair of F8, over the universe of field kinds
     scalar | pointer | slice | array n | map[string] | flat struct | pointer to flat struct
   of bool, int8..int64, uint8..uint64, float32, float64, string, each tagged
   `point` or `edgepoint`, plus `node:"id"` and `node:"parent"`.

   [wf_ty ty]  : point types non-empty and pairwise distinct per namespace,
                 struct member keys non-empty and distinct, arrays of at most 1000 elements.
   [wfb ty c]  : lengths at most 1000 (arrays: exactly n), integers within the field width and
                 within +/-(2^53-1), no NaN, map keys non-empty and strictly sorted (the canonical
                 form of a Go map; nil and empty slices / maps are identified).
   [wfzb ty c] : additionally no negative zero (Go's == cannot see a change of sign of zero).
   The number conversions (float64(int), int64(float64), uint64(float64), float64(float32),
   float32(float64)) are functions on IEEE bit patterns in the model; their exactness on the
   well-formed domain is proved in Codec/Conv.v (C10_conv_exact below), not assumed. *)
From Verif Require Import Base.Bytes Codec.Model Codec.Proofs Codec.DiffMerge Codec.Conv Codec.Main Codec.Tree Codec.Legacy.
Local Open Scope N_scope.

(* Decode(Encode(v)) into the zero value gives v back, for every configuration
   type of the universe (all seven field kinds, point and edge fields, id and parent) *)
Theorem C10_roundtrip :
  forall (ty : cfgty) (v : cfg),
    wf_ty ty = true -> wfb ty v = true ->
    exists n, encode ty v = Ok n /\ decode ty n = Ok v.
Proof. exact roundtrip_final. Qed.
Print Assumptions C10_roundtrip.

(* child lists on decode: a tree of configuration structs ([tty]: fields plus `child:"type"`
   slices of further struct types, to any depth) is given back by Decode from the tree of nodes
   assembled from the Encode of every struct, each child node carrying the type of the child
   tag that holds it.  [wf_tty]: every level wf_ty, child tags non-empty and distinct per struct;
   [wf_tcfg]: every struct wfb (no limit on the number of children). *)
Theorem C10_tree_roundtrip :
  forall (ty : tty) (nt : bytes) (v : tcfg),
    wf_tty ty = true -> wf_tcfg ty v = true ->
    exists tn, encode_tree nt ty v = Some tn /\ tn_type tn = nt /\
               decode_tree tn ty (zero_tcfg ty) = Ok v.
Proof. exact tree_roundtrip. Qed.
Print Assumptions C10_tree_roundtrip.

(* MergePoints(DiffPoints(a, b)) applied to Decode(Encode(a)) gives b on the
   point fields (DiffPoints does not look at edge fields, id or parent): slices
   shrink and grow, map entries are removed, pointers become nil or set,
   pointers to structs appear and disappear.
   [diffs_small]: the difference of each map field holds at most 1000 points;
   without it the property is false of the code (C10_diff_merge_big_map_refuted). *)
Theorem C10_diff_merge :
  forall (ty : cfgty) (a b : cfg),
    wf_ty ty = true -> wfzb ty a = true -> wfzb ty b = true -> nonempty (c_id a) = true ->
    diffs_small ty (c_vals a) (c_vals b) = true ->
    exists n a' ps,
      encode ty a = Ok n /\ decode ty n = Ok a' /\ diff ty a b = Ok ps /\
      merge_points ty (c_id a) ps a' = Ok (expected_merge ty a b).
Proof. exact diff_merge_final. Qed.
Print Assumptions C10_diff_merge.

(* [expected_merge] is b itself when a and b agree outside the point fields *)
Theorem C10_expected_is_b :
  forall (ty : cfgty) (a b : cfg),
    c_id a = c_id b -> c_parent a = c_parent b ->
    length (c_vals a) = length ty -> length (c_vals b) = length ty ->
    (forall f x y, In (f, (x, y)) (combine ty (combine (c_vals a) (c_vals b))) -> f_edge f = true -> x = y) ->
    expected_merge ty a b = b.
Proof. exact expected_merge_is_b. Qed.
Print Assumptions C10_expected_is_b.

(* a sufficient condition for [diffs_small]: for every map field, entries before + entries after <= 1000 *)
Theorem C10_diffs_small_sufficient :
  forall (ty : cfgty) (a b : list fval), maps_sum_small ty a b = true -> diffs_small ty a b = true.
Proof. exact maps_sum_small_ok. Qed.
Print Assumptions C10_diffs_small_sufficient.

(* the limit is real: two maps of 501 and 500 entries with disjoint keys *)
Theorem C10_diff_merge_big_map_refuted :
  exists ty a b,
    wf_ty ty = true /\ wfzb ty a = true /\ wfzb ty b = true /\ nonempty (c_id a) = true /\
    exists ps e, diff ty a b = Ok ps /\ merge_points ty (c_id a) ps a = Err e.
Proof. exact big_map_refuted. Qed.
Print Assumptions C10_diff_merge_big_map_refuted.

(* the number conversions of the model are exact on the well-formed domain:
   float64(z) -> int64 / uint64 for |z| <= 2^53-1, float32 -> float64 -> float32 except on NaN *)
Theorem C10_conv_exact :
  (forall z, (- max_safe <= z <= max_safe)%Z -> f64_to_int64 (f64_of_Z z) = z) /\
  (forall z, (0 <= z <= max_safe)%Z -> f64_lt0 (f64_of_Z z) = false /\ f64_to_uint64 (f64_of_Z z) = z) /\
  (forall b, b < 2^32 -> f32_is_nan b = false -> f32_of_f64 (f64_of_f32 b) = b).
Proof. exact conv_exact_holds. Qed.
Print Assumptions C10_conv_exact.

(* ---------- non-vacuity and boundary behaviour (documented, not violations) ---------- *)
(* a well-formed value with a slice, a map, an array, a pointer and an edge field round-trips *)
Example C10_wf_example :
  wf_ty ex_ty = true /\ wfzb ex_ty ex_a = true /\ wfzb ex_ty ex_b = true /\
  (exists n, encode ex_ty ex_a = Ok n /\ decode ex_ty n = Ok ex_a) /\
  (exists ps, diff ex_ty ex_a ex_b = Ok ps /\ merge_points ex_ty (c_id ex_a) ps ex_a = Ok ex_b).
Proof. exact ex_wf. Qed.

(* a node with two children of one type and none of another *)
Example C10_tree_example :
  wf_tty ex_tty = true /\ wf_tcfg ex_tty ex_tree = true /\
  exists tn, encode_tree [114] ex_tty ex_tree = Some tn /\ decode_tree tn ex_tty (zero_tcfg ex_tty) = Ok ex_tree.
Proof. exact ex_tree_ok. Qed.

(* outside wf: a map key "" comes back as "0" *)
Example C10_boundary_blank_map_key :
  exists n, encode bk_ty bk_v = Ok n /\ decode bk_ty n = Ok bk_v'.
Proof. exact boundary_blank_map_key. Qed.

(* outside wfz: a change from +0.0 to -0.0 is invisible to DiffPoints *)
Example C10_boundary_negative_zero :
  diff nz_ty nz_a nz_b = Ok [] /\ nz_a <> nz_b.
Proof. exact boundary_negative_zero. Qed.

(* outside wf: an integer beyond 2^53-1 is refused by Encode *)
Example C10_boundary_unsafe_integer :
  exists e, encode nz_ty big_int = Err e.
Proof. exact boundary_unsafe_integer. Qed.

(* ---------- tie to the source text ----------
   The two limits of the codec model are the constants of data/decode.go and data/encode.go (printed into
   Anchors/Generated.v on every run). *)
From Coq Require Import ZArith.
From Verif Require Import Anchors.Generated Anchors.TieCodec.
Theorem C10_limits_from_source :
  go_data_maxStructureSize = Z.of_nat Codec.Model.max_size /\ go_data_maxSafeInteger = Codec.Model.max_safe.
Proof. exact (conj tie_max_size tie_max_safe). Qed.
Print Assumptions C10_limits_from_source.
