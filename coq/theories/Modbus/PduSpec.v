(* C18: executable specification — what a Modbus server must answer to a request
   PDU for function codes 1,2,3,4,5,6,15,16 (MODBUS Application Protocol V1.1b3,
   sections 6.1-6.6, 6.11, 6.12 and 7), written over an abstract view of the
   register file and independently of the model of Pdu.v: no Go arithmetic, no
   buffers, no index loops.  No proofs in this file.

   Reading decisions (stated so they can be challenged):
   * a request shorter than the minimum for its function code cannot be parsed;
     the only acceptable reaction is to send nothing ([Err 1], "Rejected").  For
     the function codes 22, 23, 24, which the server does not implement, a
     well-formed request gets exception 1 and a truncated one is Rejected too;
   * bytes after the 4 data bytes of FC 1-6 are ignored for the decision; the
     FC 5/6 acknowledgement echoes the request as received;
   * FC 15/16 apply their writes in address order and stop at the first refusal
     (unmapped -> 2, validator -> 3); registers written before stay written (the
     property only promises "no change" for reads and single writes), and the
     "changed" flag is reported only with a normal response. *)
From Verif Require Import Base.Bytes Base.Val Modbus.Regs Modbus.Pdu.
Local Open Scope N_scope.

(* ---- abstract view of the register file ---- *)
Definition s_find (rs : regs) (a : N) : option reg := find (fun r => r_addr r =? a) rs.

(* the register(s) with address a hold v afterwards; nothing else changes *)
Definition s_upd (rs : regs) (a v : N) : regs :=
  map (fun r => if r_addr r =? a then set_val r v else r) rs.

(* coil n is bit (n mod 16) of register n / 16 *)
Definition s_coil (rs : regs) (n : N) : option bool :=
  match s_find rs (n / 16) with
  | Some r => Some (N.testbit (r_val r) (n mod 16))
  | None => None
  end.

Definition s_reg (rs : regs) (a : N) : option N :=
  match s_find rs a with Some r => Some (r_val r) | None => None end.

Definition s_write_reg (rs : regs) (w : N * N) : regs + N :=
  let '(a, v) := w in
  match s_find rs a with
  | None => inr 2
  | Some r => if v_ok (r_v r) v then inl (s_upd rs a v) else inr 3
  end.

Definition s_write_coil (rs : regs) (w : N * bool) : regs + N :=
  let '(n, b) := w in
  match s_find rs (n / 16) with
  | None => inr 2
  | Some r =>
      let v := if b then N.setbit (r_val r) (n mod 16) else N.clearbit (r_val r) (n mod 16) in
      if v_ok (r_v r) v then inl (s_upd rs (n / 16) v) else inr 3
  end.

(* writes in order; stops at the first refusal *)
Fixpoint s_write_all {A} (w : regs -> A -> regs + N) (rs : regs) (l : list A) : regs * option N :=
  match l with
  | [] => (rs, None)
  | x :: l' => match w rs x with
               | inl rs' => s_write_all w rs' l'
               | inr e => (rs, Some e)
               end
  end.

(* ---- generic helpers ---- *)
Fixpoint nseq (a : N) (n : nat) : list N :=
  match n with O => [] | S n' => a :: nseq (a + 1) n' end.

Fixpoint all_some {A} (l : list (option A)) : option (list A) :=
  match l with
  | [] => Some []
  | Some x :: l' => match all_some l' with Some xs => Some (x :: xs) | None => None end
  | None :: _ => None
  end.

(* LSB-first packing of booleans (design appendix A.10) *)
Fixpoint of_bits (l : list bool) : N :=
  match l with
  | [] => 0
  | b :: l' => N.b2n b + 2 * of_bits l'
  end.

Fixpoint pack (fuel : nat) (l : list bool) : list N :=
  match fuel with
  | O => []
  | S f => match l with
           | [] => []
           | _ => of_bits (firstn 8 l) :: pack f (skipn 8 l)
           end
  end.

Definition pack_bits (l : list bool) : bytes := pack (length l) l.

(* bit i of a packed payload *)
Definition unpack_bit (bs : bytes) (i : nat) : bool :=
  N.testbit (nth (i / 8) bs 0) (N.of_nat (i mod 8)).

Definition unpack_bits (bs : bytes) (q : nat) : list bool := map (unpack_bit bs) (seq 0 q).

Definition word (hi lo : N) : N := hi * 256 + lo.

Fixpoint words (l : bytes) : list N :=
  match l with
  | h :: l0 :: t => word h l0 :: words t
  | _ => []
  end.

Definition word_bytes (v : N) : bytes := [v / 256; v mod 256].

(* ---- responses ---- *)
Definition s_exc (rs : regs) (fc e : N) : outcome presult :=
  Ok (false, (if fc <? 128 then fc + 128 else fc, [e]), rs).

Definition between (lo x hi : N) : bool := (lo <=? x) && (x <=? hi).

(* Read Coils / Read Discrete Inputs (6.1, 6.2) *)
Definition s_read_bits (rs : regs) (fc : N) (data : bytes) : outcome presult :=
  match data with
  | a1 :: a0 :: q1 :: q0 :: _ =>
      let a := word a1 a0 in
      let q := word q1 q0 in
      if negb (between 1 q 2000) then s_exc rs fc 3
      else if negb (a + q <=? 65536) then s_exc rs fc 2
      else match all_some (map (s_coil rs) (nseq a (N.to_nat q))) with
           | Some bits => Ok (false, (fc, (q + 7) / 8 :: pack_bits bits), rs)
           | None => s_exc rs fc 2
           end
  | _ => Err 1
  end.

(* Read Holding / Input Registers (6.3, 6.4) *)
Definition s_read_regs (rs : regs) (fc : N) (data : bytes) : outcome presult :=
  match data with
  | a1 :: a0 :: q1 :: q0 :: _ =>
      let a := word a1 a0 in
      let q := word q1 q0 in
      if negb (between 1 q 125) then s_exc rs fc 3
      else if negb (a + q <=? 65536) then s_exc rs fc 2
      else match all_some (map (s_reg rs) (nseq a (N.to_nat q))) with
           | Some vs => Ok (false, (fc, 2 * q :: flat_map word_bytes vs), rs)
           | None => s_exc rs fc 2
           end
  | _ => Err 1
  end.

(* Write Single Coil (6.5) *)
Definition s_single_coil (rs : regs) (fc : N) (data : bytes) : outcome presult :=
  match data with
  | a1 :: a0 :: v1 :: v0 :: _ =>
      let a := word a1 a0 in
      let v := word v1 v0 in
      if negb ((v =? 0) || (v =? 65280)) then s_exc rs fc 3
      else match s_write_coil rs (a, v =? 65280) with
           | inl rs' => Ok (true, (fc, data), rs')
           | inr e => s_exc rs fc e
           end
  | _ => Err 1
  end.

(* Write Single Register (6.6) *)
Definition s_single_reg (rs : regs) (fc : N) (data : bytes) : outcome presult :=
  match data with
  | a1 :: a0 :: v1 :: v0 :: _ =>
      match s_write_reg rs (word a1 a0, word v1 v0) with
      | inl rs' => Ok (true, (fc, data), rs')
      | inr e => s_exc rs fc e
      end
  | _ => Err 1
  end.

(* Write Multiple Coils (6.11) *)
Definition s_multi_coils (rs : regs) (fc : N) (data : bytes) : outcome presult :=
  match data with
  | a1 :: a0 :: q1 :: q0 :: bc :: p0 :: payload' =>
      let payload := p0 :: payload' in
      let a := word a1 a0 in
      let q := word q1 q0 in
      let n := (q + 7) / 8 in
      if negb (between 1 q 1968 && (bc =? n) && (len payload =? n)) then s_exc rs fc 3
      else if negb (a + q <=? 65536) then s_exc rs fc 2
      else match s_write_all s_write_coil rs
                   (combine (nseq a (N.to_nat q)) (unpack_bits payload (N.to_nat q))) with
           | (rs', None) => Ok (true, (fc, [a1; a0; q1; q0]), rs')
           | (rs', Some e) => s_exc rs' fc e
           end
  | _ => Err 1
  end.

(* Write Multiple Registers (6.12) *)
Definition s_multi_regs (rs : regs) (fc : N) (data : bytes) : outcome presult :=
  match data with
  | a1 :: a0 :: q1 :: q0 :: bc :: p0 :: p1 :: payload' =>
      let payload := p0 :: p1 :: payload' in
      let a := word a1 a0 in
      let q := word q1 q0 in
      if negb (between 1 q 123 && (bc =? 2 * q) && (len payload =? 2 * q)) then s_exc rs fc 3
      else if negb (a + q <=? 65536) then s_exc rs fc 2
      else match s_write_all s_write_reg rs (combine (nseq a (N.to_nat q)) (words payload)) with
           | (rs', None) => Ok (true, (fc, [a1; a0; q1; q0]), rs')
           | (rs', Some e) => s_exc rs' fc e
           end
  | _ => Err 1
  end.

(* every other function code: exception 1; the three further codes whose request
   layout the protocol defines can also be recognised as truncated *)
Definition s_other (rs : regs) (fc : N) (data : bytes) : outcome presult :=
  match fc with
  | 22 => if len data <? 6 then Err 1 else s_exc rs fc 1     (* Mask Write Register: 6 data bytes *)
  | 23 => if len data <? 11 then Err 1 else s_exc rs fc 1    (* Read/Write Multiple Registers: >= 11 *)
  | 24 => if len data <? 2 then Err 1 else s_exc rs fc 1     (* Read FIFO Queue: 2 *)
  | _ => s_exc rs fc 1
  end.

Definition spec (rs : regs) (fc : N) (data : bytes) : outcome presult :=
  if (fc =? 1) || (fc =? 2) then s_read_bits rs fc data
  else if (fc =? 3) || (fc =? 4) then s_read_regs rs fc data
  else if fc =? 5 then s_single_coil rs fc data
  else if fc =? 6 then s_single_reg rs fc data
  else if fc =? 15 then s_multi_coils rs fc data
  else if fc =? 16 then s_multi_regs rs fc data
  else s_other rs fc data.

(* hypotheses under which model and specification are compared *)
Definition regs_ok (rs : regs) : Prop :=
  NoDup (map r_addr rs) /\ Forall (fun r => r_addr r < 65536 /\ r_val r < 65536) rs.

Fixpoint nodup_addrs (seen : list N) (rs : regs) : bool :=
  match rs with
  | [] => true
  | r :: rs' => negb (existsb (N.eqb (r_addr r)) seen) && nodup_addrs (r_addr r :: seen) rs'
  end.
Definition regs_okb (rs : regs) : bool := nodup_addrs [] rs && forallb reg_ok rs.
