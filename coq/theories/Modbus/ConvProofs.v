(* C19 proofs, conversions (modbus/data.go): RegsToX and XToRegs are exact
   inverses for uint32, int32 and float32 bit patterns in both word orders;
   PutUint16Array / Uint16Array and the int16 view likewise. *)
From Verif Require Import Base.Bytes Modbus.Regs Modbus.Pdu Modbus.Conv.
From Coq Require Import ZifyN ZifyNat ZifyBool.
Ltac Zify.zify_post_hook ::= Z.div_mod_to_equations.
Local Open Scope N_scope.

Definition u16_ok (x : N) : Prop := x < 65536.
Definition u32_ok (x : N) : Prop := x < 4294967296.
Definition i32_ok (z : Z) : Prop := (-2147483648 <= z < 2147483648)%Z.
Definition i16_ok (z : Z) : Prop := (-32768 <= z < 32768)%Z.

Lemma two_regs_value swap a b : u16_ok a -> u16_ok b ->
  two_regs_to_u32 swap a b = if swap then b * 65536 + a else a * 65536 + b.
Proof.
  unfold u16_ok, two_regs_to_u32, be32, hi8, lo8. intros Ha Hb. destruct swap; lia.
Qed.

Lemma u32_two_regs swap v : u32_ok v ->
  u32_to_two_regs swap v = if swap then [v mod 65536; v / 65536] else [v / 65536; v mod 65536].
Proof.
  unfold u32_ok, u32_to_two_regs, put32, be16. intros Hv.
  destruct swap; f_equal; try lia; f_equal; lia.
Qed.

Lemma two_regs_lt swap a b : u16_ok a -> u16_ok b -> u32_ok (two_regs_to_u32 swap a b).
Proof. intros Ha Hb. rewrite two_regs_value by assumption. unfold u16_ok, u32_ok in *. destruct swap; lia. Qed.

Lemma regs_of_u32 swap vs : Forall u32_ok vs -> regs_to_u32 swap (u32_to_regs swap vs) = vs.
Proof.
  induction 1 as [|v vs Hv _ IH]; [reflexivity|]. unfold u32_to_regs. cbn [flat_map].
  rewrite u32_two_regs by exact Hv. fold (u32_to_regs swap vs).
  unfold u32_ok in Hv.
  destruct swap; cbn [app regs_to_u32]; rewrite two_regs_value by (unfold u16_ok; lia); rewrite IH; f_equal; lia.
Qed.

Lemma pair_ind {A} (P : list A -> Prop) :
  P [] -> (forall a, P [a]) -> (forall a b l, P l -> P (a :: b :: l)) -> forall l, P l.
Proof.
  intros H0 H1 H2. fix IH 1. intros [|a [|b l]]; [exact H0|apply H1|apply H2, IH].
Qed.

Lemma u32_of_regs swap rs :
  Forall u16_ok rs -> Nat.even (length rs) = true -> u32_to_regs swap (regs_to_u32 swap rs) = rs.
Proof.
  induction rs as [|a|a b l IH] using pair_ind; intros Hok Hev; [reflexivity|discriminate|].
  inversion Hok as [|? ? Ha Hok']; subst. inversion Hok' as [|? ? Hb Hok'']; subst.
  cbn [regs_to_u32]. unfold u32_to_regs. cbn [flat_map]. fold (u32_to_regs swap (regs_to_u32 swap l)).
  rewrite u32_two_regs by (apply two_regs_lt; assumption). rewrite two_regs_value by assumption.
  rewrite IH by (auto). unfold u16_ok in *.
  destruct swap; cbn [app]; f_equal; try lia; f_equal; lia.
Qed.

Lemma regs_to_u32_ok swap : forall rs, Forall u16_ok rs -> Forall u32_ok (regs_to_u32 swap rs).
Proof.
  intros rs. induction rs as [|a|a b l IH] using pair_ind; intros Hok; try constructor.
  - inversion Hok as [|? ? Ha Hok']; subst. inversion Hok' as [|? ? Hb Hok'']; subst. apply two_regs_lt; assumption.
  - inversion Hok as [|? ? Ha Hok']; subst. inversion Hok' as [|? ? Hb Hok'']; subst. apply IH. assumption.
Qed.

Lemma u32_to_regs_length swap vs : length (u32_to_regs swap vs) = (2 * length vs)%nat.
Proof.
  induction vs as [|v vs IH]; [reflexivity|]. unfold u32_to_regs in *. cbn [flat_map]. rewrite app_length, IH.
  unfold u32_to_two_regs. destruct (put32 v) as [[[b0 b1] b2] b3]. destruct swap; cbn [length]; lia.
Qed.

(* ---- two's complement views ---- *)
Lemma int32_roundtrip z : i32_ok z -> to_int32 (of_int32 z) = z.
Proof.
  unfold i32_ok, to_int32, of_int32. intros H.
  destruct (N.ltb_spec (Z.to_N (z mod 4294967296)) 2147483648); lia.
Qed.

Lemma uint32_roundtrip u : u32_ok u -> of_int32 (to_int32 u) = u.
Proof.
  unfold u32_ok, to_int32, of_int32. intros H. destruct (N.ltb_spec u 2147483648); lia.
Qed.

Lemma of_int32_ok z : u32_ok (of_int32 z).
Proof. unfold u32_ok, of_int32. lia. Qed.

Lemma to_int32_ok u : u32_ok u -> i32_ok (to_int32 u).
Proof. unfold u32_ok, i32_ok, to_int32. intros H. destruct (N.ltb_spec u 2147483648); lia. Qed.

Lemma int16_roundtrip z : i16_ok z -> to_int16 (of_int16 z) = z.
Proof.
  unfold i16_ok, to_int16, of_int16. intros H. destruct (N.ltb_spec (Z.to_N (z mod 65536)) 32768); lia.
Qed.

Lemma uint16_roundtrip u : u16_ok u -> of_int16 (to_int16 u) = u.
Proof. unfold u16_ok, to_int16, of_int16. intros H. destruct (N.ltb_spec u 32768); lia. Qed.

Lemma map_roundtrip {A B} (f : A -> B) (g : B -> A) (P : A -> Prop) l :
  (forall x, P x -> g (f x) = x) -> Forall P l -> map g (map f l) = l.
Proof. intros H. induction 1 as [|x l Hx _ IH]; cbn; [reflexivity|]. rewrite H, IH by assumption. reflexivity. Qed.

Lemma Forall_map_intro {A B} (f : A -> B) (P : A -> Prop) (Q : B -> Prop) l :
  (forall x, P x -> Q (f x)) -> Forall P l -> Forall Q (map f l).
Proof. intros H. induction 1; cbn; constructor; auto. Qed.

(* ---- the exported functions ---- *)
Theorem uint32_inverse swap :
  (forall vs, Forall u32_ok vs -> regs_to_u32 swap (u32_to_regs swap vs) = vs) /\
  (forall rs, Forall u16_ok rs -> Nat.even (length rs) = true -> u32_to_regs swap (regs_to_u32 swap rs) = rs).
Proof. split; [apply regs_of_u32|apply u32_of_regs]. Qed.

Theorem int32_inverse swap :
  (forall vs, Forall i32_ok vs ->
     map to_int32 (regs_to_u32 swap (u32_to_regs swap (map of_int32 vs))) = vs) /\
  (forall rs, Forall u16_ok rs -> Nat.even (length rs) = true ->
     u32_to_regs swap (map of_int32 (map to_int32 (regs_to_u32 swap rs))) = rs).
Proof.
  split.
  - intros vs H. rewrite regs_of_u32.
    + apply map_roundtrip with (P := i32_ok); [apply int32_roundtrip|exact H].
    + apply Forall_map_intro with (P := fun _ => True); [intros; apply of_int32_ok|].
      apply Forall_forall. auto.
  - intros rs Hok Hev.
    rewrite (map_roundtrip to_int32 of_int32 u32_ok); [apply u32_of_regs; assumption|apply uint32_roundtrip|].
    apply regs_to_u32_ok. exact Hok.
Qed.

Theorem uint16_array_inverse :
  (forall vs, Forall u16_ok vs -> Uint16Array (PutUint16Array vs) = vs) /\
  (forall d, Forall (fun b => b < 256) d -> Nat.even (length d) = true -> PutUint16Array (Uint16Array d) = d).
Proof.
  split.
  - induction 1 as [|v vs Hv _ IH]; [reflexivity|]. unfold PutUint16Array in *. cbn [flat_map app Uint16Array].
    rewrite IH. f_equal. unfold u16_ok in Hv. unfold be16, hi8, lo8. lia.
  - intros d. induction d as [|a|a b l IH] using pair_ind; intros Hok Hev; [reflexivity|discriminate|].
    inversion Hok as [|? ? Ha Hok']; subst. inversion Hok' as [|? ? Hb Hok'']; subst.
    cbn [Uint16Array]. unfold PutUint16Array in *. cbn [flat_map app]. rewrite IH by auto.
    unfold be16, hi8, lo8. f_equal; [lia|f_equal; lia].
Qed.

Theorem int16_inverse :
  (forall rs, Forall u16_ok rs -> map of_int16 (RegsToInt16 rs) = rs) /\
  (forall zs, Forall i16_ok zs -> RegsToInt16 (map of_int16 zs) = zs).
Proof.
  unfold RegsToInt16. split; intros l H.
  - apply map_roundtrip with (P := u16_ok); [apply uint16_roundtrip|exact H].
  - apply map_roundtrip with (P := i16_ok); [apply int16_roundtrip|exact H].
Qed.
