(* Read responses of short length are rejected by the client model (Modbus/Client.v): a payload shorter than the byte count
   it announces never yields values.  Used by Properties/C19.v (C19_short_read_rejected). *)
From Coq Require Import NArith List Lia Bool ZifyN ZifyNat ZifyBool.
From Verif Require Import Base.Bytes Modbus.Pdu Modbus.Client.
Import ListNotations.
Local Open Scope N_scope.

Lemma short_regs_rejected : forall fc n rest, (fc = 3 \/ fc = 4) -> n < 256 ->
  len rest < 2 * (n / 2) -> resp_read_regs (fc, n :: rest) = Err 7.
Proof.
  intros fc n rest Hfc Hn Hs. unfold resp_read_regs. cbn [fst snd].
  destruct (len (n :: rest) <? 2) eqn:E1; [reflexivity|].
  assert (Hf : negb ((fc =? 3) || (fc =? 4)) = false).
  { destruct Hfc as [-> | ->]; reflexivity. }
  rewrite Hf. rewrite (N.mod_small n 256) by exact Hn.
  assert (E2 : (len (n :: rest) <? 1 + n / 2 * 2) = true).
  { apply N.ltb_lt. unfold len in *. cbn [length]. lia. }
  rewrite E2. reflexivity.
Qed.

Lemma empty_regs_rejected : forall fc, resp_read_regs (fc, []) = Err 7.
Proof. intro fc. reflexivity. Qed.

Lemma short_bits_rejected : forall fc count n rest, (fc = 1 \/ fc = 2) ->
  len rest < n -> resp_read_bits_count (fc, n :: rest) count = Err 7.
Proof.
  intros fc count n rest Hfc Hs. unfold resp_read_bits_count. cbn [fst snd].
  assert (Hf : negb ((fc =? 1) || (fc =? 2)) = false).
  { destruct Hfc as [-> | ->]; reflexivity. }
  rewrite Hf.
  assert (E2 : (len (n :: rest) <? 1 + n) = true).
  { apply N.ltb_lt. unfold len in *. cbn [length]. lia. }
  rewrite E2, orb_true_r. reflexivity.
Qed.

Lemma empty_bits_rejected : forall fc count, (fc = 1 \/ fc = 2) -> resp_read_bits_count (fc, []) count = Err 7.
Proof. intros fc count [-> | ->]; reflexivity. Qed.
