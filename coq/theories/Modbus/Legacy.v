(* C18: model of PDU.ProcessRequest as pinned (before the repair "range checks
   before allocating"), read and multiple-write branches only, and the
   witnesses that refute C18_total / C18_conforms for it.  Same primitives and
   loops as Pdu.v; only the checks that the repair added are absent. *)
From Verif Require Import Base.Bytes Modbus.Regs Modbus.Pdu Modbus.PduSpec.
Local Open Scope N_scope.

Definition legacy_read_bits (rs : regs) (fc : N) (data : bytes) : outcome presult :=
  match data with
  | a1 :: a0 :: c1 :: c0 :: _ =>
      let address := be16 a1 a0 in
      let count := be16 c1 c0 in
      let nbytes := (((count + 7) mod 65536) / 8) mod 256 in
      let buf0 := zeros ((1 + nbytes) mod 256) in
      match upd_nth buf0 0 (fun _ => nbytes) with
      | None => Panic
      | Some buf =>
          match read_bits_loop rs address (N.to_nat count) 0 buf with
          | LOk b => Ok (false, (fc, b), rs)
          | LExc e rs' => exc rs' fc e
          | LPanic => Panic
          end
      end
  | _ => Panic
  end.

Definition legacy_read_regs (rs : regs) (fc : N) (data : bytes) : outcome presult :=
  match data with
  | a1 :: a0 :: c1 :: c0 :: _ =>
      let address := be16 a1 a0 in
      let count := be16 c1 c0 in
      let buf0 := zeros ((1 + 2 * count) mod 65536) in
      match upd_nth buf0 0 (fun _ => (count * 2) mod 256) with
      | None => Panic
      | Some buf =>
          match read_regs_loop rs address (N.to_nat count) 0 buf with
          | LOk b => Ok (false, (fc, b), rs)
          | LExc e rs' => exc rs' fc e
          | LPanic => Panic
          end
      end
  | _ => Panic
  end.

Definition legacy_write_regs (rs : regs) (fc : N) (data : bytes) : outcome presult :=
  match data with
  | a1 :: a0 :: q1 :: q0 :: _ =>
      let address := be16 a1 a0 in
      let quantity := be16 q1 q0 in
      if negb (len data =? 5 + quantity * 2) then exc rs fc ExcIllegalValue
      else
        match write_regs_loop rs address data (N.to_nat quantity) 0 with
        | LOk rs' => Ok (true, (fc, [hi8 address; lo8 address; hi8 quantity; lo8 quantity]), rs')
        | LExc e rs' => exc rs' fc e
        | LPanic => Panic
        end
  | _ => Panic
  end.

Definition legacy_process_request (rs : regs) (fc : N) (data : bytes) : outcome presult :=
  if len data + 1 <? min_request_len fc then Err 1
  else if (fc =? 1) || (fc =? 2) then legacy_read_bits rs fc data
  else if (fc =? 3) || (fc =? 4) then legacy_read_regs rs fc data
  else if fc =? 16 then legacy_write_regs rs fc data
  else process_request rs fc data.

Definition r0 (a v : N) : reg := {| r_addr := a; r_val := v; r_v := VNone |}.

Lemma regs_ok_two a v b w : a < 65536 -> b < 65536 -> v < 65536 -> w < 65536 -> a <> b -> regs_ok [r0 a v; r0 b w].
Proof.
  intros. split; cbn.
  - constructor; [intros [E|[]]; congruence|]. constructor; [intros []|constructor].
  - repeat constructor; assumption.
Qed.

(* ReadHoldingRegs(0, 32768): 1+2*count wraps to 1, PutUint16 on an empty slice panics *)
Theorem legacy_regs_32768_panics :
  legacy_process_request [r0 0 7; r0 1 8] 3 [0; 0; 128; 0] = Panic.
Proof. vm_compute. reflexivity. Qed.

(* ReadCoils(0, 2041): byte((count+7)/8) wraps to 0, the first set coil indexes past the buffer *)
Theorem legacy_coils_2041_panics :
  legacy_process_request [r0 0 1; r0 1 0] 1 [0; 0; 7; 249] = Panic.
Proof. vm_compute. reflexivity. Qed.

(* ReadCoils(0, 2033..2040): 1+bytes wraps to 0, resp.Data[0] panics on any register file *)
Theorem legacy_coils_2033_panics : forall rs, legacy_process_request rs 1 [0; 0; 7; 241] = Panic.
Proof. intros rs. reflexivity. Qed.

(* quantity 0: a normal (empty) response where the protocol wants exception 3 *)
Theorem legacy_quantity_0_answered :
  legacy_process_request [] 3 [0; 0; 0; 0] = Ok (false, (3, [0]), []) /\
  spec [] 3 [0; 0; 0; 0] = Ok (false, (131, [3]), []).
Proof. split; vm_compute; reflexivity. Qed.

(* address 65535, count 2: the second register read wraps to register 0 *)
Theorem legacy_address_wraps :
  legacy_process_request [r0 65535 258; r0 0 772] 3 [255; 255; 0; 2] = Ok (false, (3, [4; 1; 2; 3; 4]), [r0 65535 258; r0 0 772]) /\
  spec [r0 65535 258; r0 0 772] 3 [255; 255; 0; 2] = Ok (false, (131, [2]), [r0 65535 258; r0 0 772]).
Proof. split; vm_compute; reflexivity. Qed.

(* the byte count of a Write Multiple Registers request is ignored *)
Theorem legacy_bytecount_ignored :
  legacy_process_request [r0 0 0; r0 1 0] 16 [0; 0; 0; 1; 9; 1; 2] = Ok (true, (16, [0; 0; 0; 1]), [r0 0 258; r0 1 0]) /\
  spec [r0 0 0; r0 1 0] 16 [0; 0; 0; 1; 9; 1; 2] = Ok (false, (144, [3]), [r0 0 0; r0 1 0]).
Proof. split; vm_compute; reflexivity. Qed.

Theorem C18_current_refuted :
  (exists rs fc data, regs_ok rs /\ fc < 256 /\ bytes_ok data = true /\ legacy_process_request rs fc data = Panic) /\
  (exists rs fc data, regs_ok rs /\ fc < 256 /\ bytes_ok data = true /\
                      legacy_process_request rs fc data <> spec rs fc data).
Proof.
  split.
  - exists [r0 0 7; r0 1 8], 3, [0; 0; 128; 0].
    split; [apply regs_ok_two; lia|]. split; [lia|]. split; [reflexivity|]. exact legacy_regs_32768_panics.
  - exists [r0 65535 258; r0 0 772], 3, [255; 255; 0; 2].
    split; [apply regs_ok_two; lia|]. split; [lia|]. split; [reflexivity|].
    destruct legacy_address_wraps as [-> ->]. discriminate.
Qed.
