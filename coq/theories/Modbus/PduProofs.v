(* C18 proofs: the model of PDU.ProcessRequest (Pdu.v, Go arithmetic and bounds
   checks explicit) never panics, coincides with the protocol specification
   (PduSpec.v) on every register file / function code / data, and leaves the
   register file alone when a read or a single write is answered with an
   exception. *)
From Verif Require Import Base.Bytes Modbus.Regs Modbus.Pdu Modbus.PduSpec Modbus.BitsProofs.
From Coq Require Import ZifyN ZifyNat ZifyBool.
Ltac Zify.zify_post_hook ::= Z.div_mod_to_equations.
Local Open Scope N_scope.

(* ================= register file: model = abstract view ================= *)
Lemma u16_small a : a < 65536 -> u16 a = a.
Proof. intros H. unfold u16. apply N.mod_small. exact H. Qed.

Lemma read_reg_find rs a : a < 65536 -> read_reg rs a = s_reg rs a.
Proof.
  intros Ha. unfold s_reg, s_find. induction rs as [|r rs IH]; cbn [read_reg find]; [reflexivity|].
  rewrite u16_small by exact Ha. destruct (r_addr r =? a); [reflexivity|exact IH].
Qed.

Lemma s_find_none rs a : ~ In a (map r_addr rs) -> s_find rs a = None.
Proof.
  unfold s_find. induction rs as [|r rs IH]; cbn [find map In]; intros H; [reflexivity|].
  destruct (N.eqb_spec (r_addr r) a) as [E|E]; [exfalso; apply H; left; exact E|].
  apply IH. intros H'. apply H. right. exact H'.
Qed.

Lemma s_upd_absent rs a v : ~ In a (map r_addr rs) -> s_upd rs a v = rs.
Proof.
  unfold s_upd. induction rs as [|r rs IH]; cbn [map In]; intros H; [reflexivity|].
  destruct (N.eqb_spec (r_addr r) a) as [E|E]; [exfalso; apply H; left; exact E|].
  f_equal. apply IH. intros H'. apply H. right. exact H'.
Qed.

Lemma s_upd_addrs rs a v : map r_addr (s_upd rs a v) = map r_addr rs.
Proof.
  unfold s_upd. rewrite map_map. apply map_ext. intros r. destruct (r_addr r =? a); reflexivity.
Qed.

Lemma write_reg_spec rs a v :
  NoDup (map r_addr rs) -> a < 65536 -> write_reg rs a v = s_write_reg rs (a, v).
Proof.
  intros Hnd Ha. unfold s_write_reg, s_find, s_upd.
  induction rs as [|r rs IH]; cbn [write_reg find map]; [reflexivity|].
  rewrite u16_small by exact Ha. cbn [map] in Hnd. inversion Hnd as [|x l Hnotin Hnd' Heq]; subst.
  destruct (N.eqb_spec (r_addr r) a) as [E|E].
  - destruct (v_ok (r_v r) v); [|reflexivity]. f_equal. f_equal.
    subst a. apply (eq_sym (s_upd_absent rs (r_addr r) v Hnotin)).
  - rewrite (IH Hnd'). destruct (find _ rs) as [r'|]; [|reflexivity].
    destruct (v_ok (r_v r') v); reflexivity.
Qed.

(* ---- bit operations on a 16-bit register ---- *)
Lemma shiftl1 k : N.shiftl 1 k = 2 ^ k.
Proof. rewrite N.shiftl_mul_pow2. lia. Qed.

Lemma pow2_lt16 k : k < 16 -> 2 ^ k < 65536.
Proof. intros H. change 65536 with (2 ^ 16). apply N.pow_lt_mono_r; lia. Qed.

Lemma mask16 k : k < 16 -> u16 (N.shiftl 1 k) = 2 ^ k.
Proof. intros H. rewrite shiftl1. apply u16_small. apply pow2_lt16. exact H. Qed.

Lemma land_pow2_test v k : negb (N.land v (2 ^ k) =? 0) = N.testbit v k.
Proof.
  destruct (N.testbit v k) eqn:T.
  - apply negb_true_iff. apply N.eqb_neq. intros E.
    assert (H : N.testbit (N.land v (2 ^ k)) k = true).
    { rewrite N.land_spec, T, N.pow2_bits_true. reflexivity. }
    rewrite E, N.bits_0 in H. discriminate.
  - apply negb_false_iff. apply N.eqb_eq. apply N.bits_inj. intros m.
    rewrite N.land_spec, N.bits_0, N.pow2_bits_eqb.
    destruct (N.eqb_spec k m) as [->|]; [rewrite T; reflexivity|apply andb_false_r].
Qed.

Lemma testbit_high v m : v < 65536 -> 16 <= m -> N.testbit v m = false.
Proof.
  intros Hv Hm. destruct (N.eq_dec v 0) as [->|Hv0]; [apply N.bits_0|].
  apply N.bits_above_log2. apply N.lt_le_trans with 16; [|exact Hm].
  apply N.log2_lt_pow2; [lia|exact Hv].
Qed.

Lemma clear_mask v k : v < 65536 -> k < 16 -> N.land v (65535 - 2 ^ k) = N.clearbit v k.
Proof.
  intros Hv Hk. unfold N.clearbit. rewrite shiftl1.
  assert (E : 65535 - 2 ^ k = N.ldiff 65535 (2 ^ k)).
  { apply N.sub_nocarry_ldiff. apply N.bits_inj. intros m.
    rewrite N.ldiff_spec, N.bits_0, N.pow2_bits_eqb.
    destruct (N.eqb_spec k m) as [<-|]; [|reflexivity].
    change 65535 with (N.ones 16). rewrite N.ones_spec_low by exact Hk. reflexivity. }
  rewrite E. apply N.bits_inj. intros m.
  rewrite N.land_spec, !N.ldiff_spec. change 65535 with (N.ones 16).
  destruct (N.lt_ge_cases m 16) as [Hm|Hm].
  - rewrite N.ones_spec_low by exact Hm. reflexivity.
  - rewrite (testbit_high v m Hv Hm). reflexivity.
Qed.

Lemma set_mask v k : N.lor v (2 ^ k) = N.setbit v k.
Proof. unfold N.setbit. rewrite shiftl1. reflexivity. Qed.

Definition rs_ok (rs : regs) : Prop := Forall (fun r => r_addr r < 65536 /\ r_val r < 65536) rs.

Lemma s_find_ok rs a r : rs_ok rs -> s_find rs a = Some r -> r_addr r = a /\ r_val r < 65536 /\ In r rs.
Proof.
  unfold s_find. intros Hok Hf. apply find_some in Hf. destruct Hf as [Hin E].
  apply N.eqb_eq in E. unfold rs_ok in Hok. rewrite Forall_forall in Hok. destruct (Hok r Hin). auto.
Qed.

Lemma read_coil_spec rs n : n < 65536 * 16 -> read_coil rs n = s_coil rs n.
Proof.
  intros Hn. unfold read_coil, s_coil. rewrite read_reg_find by lia. unfold s_reg.
  destruct (s_find rs (n / 16)) as [r|]; [|reflexivity].
  rewrite mask16 by lia. rewrite land_pow2_test. reflexivity.
Qed.

Lemma write_coil_spec rs n b :
  NoDup (map r_addr rs) -> rs_ok rs -> n < 65536 * 16 -> write_coil rs n b = s_write_coil rs (n, b).
Proof.
  intros Hnd Hok Hn. unfold write_coil, s_write_coil. rewrite read_reg_find by lia. unfold s_reg.
  destruct (s_find rs (n / 16)) as [r|] eqn:F; [|reflexivity].
  destruct (s_find_ok _ _ _ Hok F) as (Ha & Hv & _).
  rewrite mask16 by lia. rewrite write_reg_spec by (auto; lia). unfold s_write_reg. rewrite F.
  destruct b.
  - rewrite set_mask. reflexivity.
  - rewrite clear_mask by (auto; lia). reflexivity.
Qed.
(* ---- preservation of the invariants ---- *)
Lemma bits_lt16 v : (forall m, 16 <= m -> N.testbit v m = false) -> v < 65536.
Proof.
  intros H. destruct (N.eq_dec v 0) as [->|Hv0]; [lia|].
  change 65536 with (2 ^ 16). apply N.log2_lt_pow2; [lia|].
  destruct (N.lt_ge_cases (N.log2 v) 16) as [L|L]; [exact L|].
  specialize (H _ L). rewrite N.bit_log2 in H by exact Hv0. discriminate.
Qed.

Lemma setbit_lt16 v k : v < 65536 -> k < 16 -> N.setbit v k < 65536.
Proof.
  intros Hv Hk. apply bits_lt16. intros m Hm. rewrite N.setbit_neq by lia. apply testbit_high; assumption.
Qed.

Lemma clearbit_lt16 v k : v < 65536 -> N.clearbit v k < 65536.
Proof.
  intros Hv. apply bits_lt16. intros m Hm.
  destruct (N.eq_dec k m) as [->|E]; [apply N.clearbit_eq|].
  rewrite N.clearbit_neq by exact E. apply testbit_high; assumption.
Qed.

Lemma s_upd_ok rs a v : rs_ok rs -> v < 65536 -> rs_ok (s_upd rs a v).
Proof.
  unfold rs_ok, s_upd. intros H Hv. rewrite Forall_forall in *. intros r Hin.
  apply in_map_iff in Hin. destruct Hin as (r0 & <- & Hin0). specialize (H r0 Hin0).
  destruct (r_addr r0 =? a); cbn; tauto.
Qed.

Lemma regs_ok_split rs : regs_ok rs <-> NoDup (map r_addr rs) /\ rs_ok rs.
Proof. reflexivity. Qed.

Lemma s_write_reg_ok rs a v rs' :
  regs_ok rs -> v < 65536 -> s_write_reg rs (a, v) = inl rs' -> regs_ok rs'.
Proof.
  intros [Hnd Hok] Hv. unfold s_write_reg. destruct (s_find rs a) as [r|]; [|discriminate].
  destruct (v_ok (r_v r) v); [|discriminate]. intros E. inversion E; subst. split.
  - rewrite s_upd_addrs. exact Hnd.
  - apply s_upd_ok; assumption.
Qed.

Lemma s_write_coil_ok rs n b rs' :
  regs_ok rs -> s_write_coil rs (n, b) = inl rs' -> regs_ok rs'.
Proof.
  intros [Hnd Hok]. unfold s_write_coil. destruct (s_find rs (n / 16)) as [r|] eqn:F; [|discriminate].
  destruct (s_find_ok _ _ _ Hok F) as (_ & Hv & _).
  match goal with |- context [v_ok _ ?x] => set (v := x) end.
  destruct (v_ok (r_v r) v); [|discriminate]. intros E. inversion E; subst. split.
  - rewrite s_upd_addrs. exact Hnd.
  - apply s_upd_ok; [exact Hok|]. subst v. destruct b; [apply setbit_lt16; [exact Hv|lia]|apply clearbit_lt16; exact Hv].
Qed.
(* ================= Go slices ================= *)
Lemma upd_nth_app pre x rest f : upd_nth (pre ++ x :: rest) (length pre) f = Some (pre ++ f x :: rest).
Proof. induction pre as [|y pre IH]; cbn [app length upd_nth]; [reflexivity|]. rewrite IH. reflexivity. Qed.

Lemma upd_nth_some : forall l i f, (i < length l)%nat ->
  exists l', upd_nth l i f = Some l' /\ length l' = length l /\
             forall p, nth p l' 0 = if (p =? i)%nat then f (nth i l 0) else nth p l 0.
Proof.
  induction l as [|x l IH]; intros i f Hi; [cbn in Hi; lia|].
  destruct i as [|i]; cbn [upd_nth].
  - eexists. split; [reflexivity|]. split; [reflexivity|]. intros [|p]; reflexivity.
  - destruct (IH i f) as (l' & -> & Hl & Hn); [cbn in Hi; lia|].
    eexists. split; [reflexivity|]. split; [cbn; rewrite Hl; reflexivity|].
    intros [|p]; [reflexivity|]. cbn [nth]. rewrite Hn. reflexivity.
Qed.

Lemma put16_app pre x y rest v :
  put16 (pre ++ x :: y :: rest) (length pre) v = Some (pre ++ hi8 v :: lo8 v :: rest).
Proof.
  unfold put16. rewrite upd_nth_app.
  change (pre ++ hi8 v :: y :: rest) with (pre ++ [hi8 v] ++ y :: rest). rewrite app_assoc.
  replace (S (length pre)) with (length (pre ++ [hi8 v])) by (rewrite app_length; cbn; lia).
  rewrite upd_nth_app. rewrite <- app_assoc. reflexivity.
Qed.

(* ================= helpers on the specification side ================= *)
Lemma all_some_cons {A} (x : option A) l :
  all_some (x :: l) = match x, all_some l with Some a, Some r => Some (a :: r) | _, _ => None end.
Proof. destruct x; cbn; [destruct (all_some l); reflexivity|reflexivity]. Qed.

Lemma all_some_length {A} : forall (l : list (option A)) r, all_some l = Some r -> length r = length l.
Proof.
  induction l as [|x l IH]; intros r H; [inversion H; reflexivity|].
  rewrite all_some_cons in H. destruct x; [|discriminate]. destruct (all_some l) eqn:E; [|discriminate].
  inversion H; subst. cbn. f_equal. apply IH. reflexivity.
Qed.

Lemma nseq_length a n : length (nseq a n) = n.
Proof. revert a. induction n; intros a; cbn; [reflexivity|f_equal; auto]. Qed.

(* ================= read registers ================= *)
Lemma read_regs_loop_spec rs address : forall n i pre,
  length pre = N.to_nat (1 + i * 2) ->
  address + i + N.of_nat n <= 65536 ->
  read_regs_loop rs address n i (pre ++ repeat 0 (2 * n)%nat) =
    match all_some (map (s_reg rs) (nseq (address + i) n)) with
    | Some vs => LOk (pre ++ flat_map (fun v => [hi8 v; lo8 v]) vs)
    | None => LExc 2 rs
    end.
Proof.
  induction n as [|n IH]; intros i pre Hl Hb.
  - cbn. rewrite !app_nil_r. reflexivity.
  - replace (2 * S n)%nat with (S (S (2 * n))) by lia. cbn [repeat read_regs_loop nseq map].
    rewrite all_some_cons. rewrite read_reg_find by lia.
    destruct (s_reg rs (address + i)) as [v|]; [|reflexivity].
    rewrite <- Hl, put16_app.
    change (pre ++ hi8 v :: lo8 v :: repeat 0 (2 * n)%nat) with (pre ++ [hi8 v; lo8 v] ++ repeat 0 (2 * n)%nat).
    rewrite app_assoc, IH; [|rewrite app_length, Hl; cbn [length]; lia|lia].
    replace (address + (i + 1)) with (address + i + 1) by lia.
    destruct (all_some _); [|reflexivity]. cbn [flat_map]. rewrite <- app_assoc. reflexivity.
Qed.

(* ================= read coils ================= *)
Definition hit (bits : list bool) (i p k : N) : bool :=
  (1 <=? p) && (k <? 8) && (i <=? 8 * (p - 1) + k) && nth (N.to_nat (8 * (p - 1) + k - i)) bits false.

Lemma hit_cons b0 bits i p k :
  hit (b0 :: bits) i p k = ((p =? 1 + i / 8) && (k =? i mod 8) && b0) || hit bits (i + 1) p k.
Proof.
  unfold hit.
  destruct (N.leb_spec 1 p) as [Hp|Hp]; cbn [andb].
  2:{ replace (p =? 1 + i / 8) with false by (symmetry; apply N.eqb_neq; lia). reflexivity. }
  destruct (N.ltb_spec k 8) as [Hk|Hk]; cbn [andb].
  2:{ replace (k =? i mod 8) with false by (symmetry; apply N.eqb_neq; lia). rewrite andb_false_r. reflexivity. }
  destruct (N.leb_spec i (8 * (p - 1) + k)) as [Hi|Hi]; cbn [andb].
  2:{ replace (i + 1 <=? 8 * (p - 1) + k) with false by (symmetry; apply N.leb_gt; lia).
      destruct (N.eqb_spec p (1 + i / 8)); [|reflexivity].
      destruct (N.eqb_spec k (i mod 8)); [exfalso; lia|reflexivity]. }
  destruct (N.eq_dec (8 * (p - 1) + k) i) as [E|E].
  - replace (i + 1 <=? 8 * (p - 1) + k) with false by (symmetry; apply N.leb_gt; lia).
    replace (8 * (p - 1) + k - i) with 0 by lia. cbn [N.to_nat nth andb].
    replace (p =? 1 + i / 8) with true by (symmetry; apply N.eqb_eq; lia).
    replace (k =? i mod 8) with true by (symmetry; apply N.eqb_eq; lia).
    cbn [andb]. rewrite orb_false_r. reflexivity.
  - replace (i + 1 <=? 8 * (p - 1) + k) with true by (symmetry; apply N.leb_le; lia). cbn [andb].
    replace (N.to_nat (8 * (p - 1) + k - i)) with (S (N.to_nat (8 * (p - 1) + k - (i + 1)))) by lia.
    cbn [nth].
    destruct (N.eqb_spec p (1 + i / 8)); [|reflexivity].
    destruct (N.eqb_spec k (i mod 8)); [exfalso; lia|reflexivity].
Qed.

Lemma bit_mask_test i k : N.testbit (N.shiftl 1 (i mod 8) mod 256) k = (k =? i mod 8).
Proof.
  rewrite shiftl1. rewrite N.mod_small.
  - rewrite N.pow2_bits_eqb. apply N.eqb_sym.
  - change 256 with (2 ^ 8). apply N.pow_lt_mono_r; lia.
Qed.

Lemma read_bits_loop_spec rs address : forall n i buf,
  address + i + N.of_nat n <= 65536 ->
  (forall j, (j < n)%nat -> (N.to_nat (1 + (i + N.of_nat j) / 8) < length buf)%nat) ->
  match all_some (map (s_coil rs) (nseq (address + i) n)) with
  | None => read_bits_loop rs address n i buf = LExc 2 rs
  | Some bits =>
      exists buf', read_bits_loop rs address n i buf = LOk buf' /\ length buf' = length buf /\
        forall p k, N.testbit (nth (N.to_nat p) buf' 0) k = N.testbit (nth (N.to_nat p) buf 0) k || hit bits i p k
  end.
Proof.
  induction n as [|n IH]; intros i buf Hb Hlen.
  - cbn. exists buf. split; [reflexivity|]. split; [reflexivity|]. intros p k.
    assert (Hnil : hit [] i p k = false).
    { unfold hit. match goal with |- context [nth ?x [] false] => destruct x end; cbn [nth]; apply andb_false_r. }
    rewrite Hnil, orb_false_r. reflexivity.
  - cbn [nseq map read_bits_loop]. rewrite all_some_cons. rewrite read_coil_spec by lia.
    destruct (s_coil rs (address + i)) as [b0|]; [|reflexivity].
    assert (Hb' : address + (i + 1) + N.of_nat n <= 65536) by lia.
    replace (address + i + 1) with (address + (i + 1)) by lia.
    destruct b0.
    + destruct (upd_nth_some buf (N.to_nat (1 + i / 8)) (fun x => N.lor x (N.shiftl 1 (i mod 8) mod 256)))
        as (buf1 & -> & Hl1 & Hn1).
      { specialize (Hlen 0%nat). replace (i + N.of_nat 0) with i in Hlen by lia. apply Hlen. lia. }
      specialize (IH (i + 1) buf1 Hb').
      destruct (all_some (map (s_coil rs) (nseq (address + (i + 1)) n))) as [bits|].
      * destruct IH as (buf' & -> & Hl & Hbits).
        { intros j Hj. rewrite Hl1. specialize (Hlen (S j)).
          replace (i + 1 + N.of_nat j) with (i + N.of_nat (S j)) by lia. apply Hlen. lia. }
        exists buf'. split; [reflexivity|]. split; [lia|]. intros p k.
        rewrite Hbits, Hn1, hit_cons.
        destruct (Nat.eqb_spec (N.to_nat p) (N.to_nat (1 + i / 8))) as [E|E].
        -- rewrite N.lor_spec, bit_mask_test. rewrite <- E.
           replace (p =? 1 + i / 8) with true by (symmetry; apply N.eqb_eq; lia).
           rewrite andb_true_r. cbn [andb]. rewrite orb_assoc. reflexivity.
        -- replace (p =? 1 + i / 8) with false by (symmetry; apply N.eqb_neq; intros ->; apply E; reflexivity).
           reflexivity.
      * apply IH. intros j Hj. rewrite Hl1. specialize (Hlen (S j)).
        replace (i + 1 + N.of_nat j) with (i + N.of_nat (S j)) by lia. apply Hlen. lia.
    + specialize (IH (i + 1) buf Hb').
      destruct (all_some (map (s_coil rs) (nseq (address + (i + 1)) n))) as [bits|].
      * destruct IH as (buf' & -> & Hl & Hbits).
        { intros j Hj. specialize (Hlen (S j)).
          replace (i + 1 + N.of_nat j) with (i + N.of_nat (S j)) by lia. apply Hlen. lia. }
        exists buf'. split; [reflexivity|]. split; [exact Hl|]. intros p k.
        rewrite Hbits, hit_cons. rewrite andb_false_r. reflexivity.
      * apply IH. intros j Hj. specialize (Hlen (S j)).
        replace (i + 1 + N.of_nat j) with (i + N.of_nat (S j)) by lia. apply Hlen. lia.
Qed.
(* ================= write loops ================= *)
Definition lres_of (x : regs * option N) : lres regs :=
  match x with (rs, None) => LOk rs | (rs, Some e) => LExc e rs end.

Lemma bytes_ok_in data x : bytes_ok data = true -> In x data -> x < 256.
Proof.
  unfold bytes_ok, byte_ok. intros H Hin. rewrite forallb_forall in H. specialize (H x Hin). lia.
Qed.

Lemma be16_word h l : h < 256 -> l < 256 -> be16 h l = word h l.
Proof. intros Hh Hl. unfold be16, word. rewrite !N.mod_small by assumption. reflexivity. Qed.

Lemma be16_lt h l : be16 h l < 65536.
Proof. unfold be16. pose proof (N.mod_upper_bound h 256). pose proof (N.mod_upper_bound l 256). lia. Qed.

Lemma skipn_two {A} : forall (l : list A) k, (k + 2 <= length l)%nat ->
  exists h t, nth_error l k = Some h /\ nth_error l (S k) = Some t /\ skipn k l = h :: t :: skipn (S (S k)) l.
Proof.
  induction l as [|x l IH]; intros k Hk; [cbn in Hk; lia|].
  destruct k as [|k].
  - destruct l as [|y l]; [cbn in Hk; lia|]. exists x, y. repeat split.
  - destruct (IH k) as (h & t & H1 & H2 & H3); [cbn in Hk; lia|]. exists h, t. repeat split; assumption.
Qed.

Lemma write_regs_loop_spec address data : bytes_ok data = true -> forall n rs i,
  regs_ok rs -> address + i + N.of_nat n <= 65536 ->
  (N.to_nat (5 + i * 2) + 2 * n <= length data)%nat ->
  write_regs_loop rs address data n i =
    lres_of (s_write_all s_write_reg rs
               (combine (nseq (address + i) n) (words (skipn (N.to_nat (5 + i * 2)) data)))).
Proof.
  intros Hd. induction n as [|n IH]; intros rs i Hok Hb Hlen; [reflexivity|].
  destruct (skipn_two data (N.to_nat (5 + i * 2))) as (h & l & H1 & H2 & H3); [lia|].
  cbn [write_regs_loop nseq]. replace (N.to_nat (5 + i * 2 + 1)) with (S (N.to_nat (5 + i * 2))) by lia.
  rewrite H1, H2, H3. cbn [words combine s_write_all].
  assert (Hh : h < 256) by (eapply bytes_ok_in; [exact Hd|eapply nth_error_In; exact H1]).
  assert (Hl : l < 256) by (eapply bytes_ok_in; [exact Hd|eapply nth_error_In; exact H2]).
  rewrite be16_word by assumption. destruct Hok as [Hnd Hrs].
  rewrite write_reg_spec by (auto; lia).
  destruct (s_write_reg rs (address + i, word h l)) as [rs'|e] eqn:W; [|reflexivity].
  assert (Hok' : regs_ok rs').
  { eapply s_write_reg_ok; [split; eassumption| |exact W]. unfold word. lia. }
  rewrite IH; [|exact Hok'|lia|lia].
  replace (N.to_nat (5 + (i + 1) * 2)) with (S (S (N.to_nat (5 + i * 2)))) by lia.
  replace (address + (i + 1)) with (address + i + 1) by lia. reflexivity.
Qed.

Lemma land_shiftr_test b k : (N.land (N.shiftr b k) 1 =? 1) = N.testbit b k.
Proof.
  rewrite N.testbit_eqb, N.shiftr_div_pow2. change 1 with (N.ones 1) at 1. rewrite N.land_ones. reflexivity.
Qed.

Lemma write_coils_loop_spec address data : forall n rs i,
  regs_ok rs -> address + i + N.of_nat n <= 65536 ->
  (forall j, (j < n)%nat -> (N.to_nat (5 + (i + N.of_nat j) / 8) < length data)%nat) ->
  write_coils_loop rs address data n i =
    lres_of (s_write_all s_write_coil rs
               (combine (nseq (address + i) n) (map (unpack_bit (skipn 5 data)) (seq (N.to_nat i) n)))).
Proof.
  induction n as [|n IH]; intros rs i Hok Hb Hlen; [reflexivity|].
  cbn [write_coils_loop nseq seq map combine s_write_all].
  assert (H0 : (N.to_nat (5 + i / 8) < length data)%nat).
  { specialize (Hlen 0%nat). replace (i + N.of_nat 0) with i in Hlen by lia. apply Hlen. lia. }
  rewrite (nth_error_nth' data 0 H0). rewrite land_shiftr_test.
  assert (Ev : N.testbit (nth (N.to_nat (5 + i / 8)) data 0) (i mod 8) = unpack_bit (skipn 5 data) (N.to_nat i)).
  { unfold unpack_bit. rewrite nth_skipn. f_equal; [f_equal|]; lia. }
  rewrite Ev. destruct Hok as [Hnd Hrs].
  rewrite write_coil_spec by (auto; lia).
  destruct (s_write_coil rs (address + i, _)) as [rs'|e] eqn:W; [|reflexivity].
  assert (Hok' : regs_ok rs') by (eapply s_write_coil_ok; [split; eassumption|exact W]).
  rewrite IH; [|exact Hok'|lia|].
  - replace (N.to_nat (i + 1)) with (S (N.to_nat i)) by lia.
    replace (address + (i + 1)) with (address + i + 1) by lia. reflexivity.
  - intros j Hj. specialize (Hlen (S j)).
    replace (i + 1 + N.of_nat j) with (i + N.of_nat (S j)) by lia. apply Hlen. lia.
Qed.
(* ================= responses ================= *)
Lemma lor_128 fc : fc < 256 -> N.lor fc 128 = if fc <? 128 then fc + 128 else fc.
Proof.
  intros H.
  assert (A : forallb (fun n => N.lor n 128 =? (if n <? 128 then n + 128 else n)) (map N.of_nat (seq 0 256)) = true)
    by (vm_compute; reflexivity).
  rewrite forallb_forall in A. apply N.eqb_eq. apply A.
  apply in_map_iff. exists (N.to_nat fc). split; [lia|]. apply in_seq. lia.
Qed.

Lemma exc_eq rs fc e : fc < 256 -> exc rs fc e = s_exc rs fc e.
Proof. intros H. unfold exc, s_exc. rewrite lor_128 by exact H. reflexivity. Qed.

Ltac bdestruct :=
  repeat match goal with
  | |- context [?a <? ?b] => destruct (N.ltb_spec a b)
  | |- context [?a <=? ?b] => destruct (N.leb_spec a b)
  | |- context [?a =? ?b] => destruct (N.eqb_spec a b)
  end; cbn [negb andb orb].

Lemma testbit_above x n k : x < 2 ^ n -> n <= k -> N.testbit x k = false.
Proof.
  intros Hx Hk. destruct (N.eq_dec x 0) as [->|Hx0]; [apply N.bits_0|].
  apply N.bits_above_log2. apply N.lt_le_trans with n; [|exact Hk].
  apply N.log2_lt_pow2; [lia|exact Hx].
Qed.

Lemma nth_repeat0 j m : nth j (repeat 0 m) 0 = 0.
Proof. revert j. induction m as [|m IH]; intros [|j]; cbn; auto. Qed.

Lemma list_bits_ext (a b : bytes) :
  length a = length b ->
  (forall j k, N.testbit (nth j a 0) k = N.testbit (nth j b 0) k) -> a = b.
Proof.
  intros Hl H. apply nth_ext with (d := 0) (d' := 0); [exact Hl|]. intros j _. apply N.bits_inj. intros k. apply H.
Qed.

Lemma pack_bits_testbit l j k :
  N.testbit (nth j (pack_bits l) 0) k = (k <? 8) && nth (8 * j + N.to_nat k) l false.
Proof.
  destruct (N.ltb_spec k 8) as [Hk|Hk]; cbn [andb].
  - unfold pack_bits. replace k with (N.of_nat (N.to_nat k)) at 1 by lia. apply pack_testbit; lia.
  - apply testbit_above with 8; [|exact Hk]. apply pack_byte_bound.
Qed.

Lemma zeros_succ n : zeros (1 + n) = 0 :: zeros n.
Proof. unfold zeros. replace (N.to_nat (1 + n)) with (S (N.to_nat n)) by lia. reflexivity. Qed.

Lemma bits_buf_eq nb bits buf' :
  length buf' = S (N.to_nat nb) -> N.to_nat nb = ((length bits + 7) / 8)%nat ->
  (forall p k, N.testbit (nth (N.to_nat p) buf' 0) k =
               N.testbit (nth (N.to_nat p) (nb :: zeros nb) 0) k || hit bits 0 p k) ->
  buf' = nb :: pack_bits bits.
Proof.
  intros Hl Hnb H. destruct buf' as [|h t]; [discriminate|]. f_equal.
  - apply N.bits_inj. intros k. specialize (H 0 k). cbn [N.to_nat nth] in H. rewrite H.
    unfold hit. cbn. apply orb_false_r.
  - apply list_bits_ext.
    + rewrite pack_bits_length. cbn [length] in Hl. lia.
    + intros j k. specialize (H (N.of_nat (S j)) k). rewrite Nat2N.id in H. cbn [nth] in H. rewrite H.
      unfold zeros. rewrite nth_repeat0, N.bits_0. cbn [orb]. rewrite pack_bits_testbit. unfold hit.
      replace (1 <=? N.of_nat (S j)) with true by (symmetry; apply N.leb_le; lia).
      replace (0 <=? 8 * (N.of_nat (S j) - 1) + k) with true by (symmetry; apply N.leb_le; lia).
      rewrite andb_true_r. cbn [andb]. f_equal. f_equal. lia.
Qed.

Lemma flat_map_ext_forall {A B} (P : A -> Prop) (f g : A -> list B) l :
  Forall P l -> (forall x, P x -> f x = g x) -> flat_map f l = flat_map g l.
Proof. intros H E. induction H as [|x l Hx _ IH]; cbn; [reflexivity|]. rewrite (E x Hx), IH. reflexivity. Qed.

Lemma s_reg_lt rs a v : rs_ok rs -> s_reg rs a = Some v -> v < 65536.
Proof.
  unfold s_reg. intros Hok. destruct (s_find rs a) as [r|] eqn:F; [|discriminate].
  intros E. inversion E; subst. destruct (s_find_ok _ _ _ Hok F) as (_ & Hv & _). exact Hv.
Qed.

Lemma all_some_forall {A} (P : A -> Prop) : forall (l : list (option A)) r,
  (forall x a, In x l -> x = Some a -> P a) -> all_some l = Some r -> Forall P r.
Proof.
  induction l as [|x l IH]; intros r HP H; [inversion H; constructor|].
  rewrite all_some_cons in H. destruct x as [a|]; [|discriminate]. destruct (all_some l) eqn:E; [|discriminate].
  inversion H; subst. constructor.
  - apply (HP (Some a)); [left; reflexivity|reflexivity].
  - apply IH; [|reflexivity]. intros y b Hy. apply HP. right. exact Hy.
Qed.

(* ================= per function code: model = specification ================= *)
Lemma len_cons x l : len (x :: l) = 1 + len l.
Proof. unfold len. cbn [length]. lia. Qed.

Lemma req_read_bits_ok rs fc data :
  regs_ok rs -> fc < 256 -> bytes_ok data = true -> 4 <= len data ->
  req_read_bits rs fc data = s_read_bits rs fc data.
Proof.
  intros [Hnd Hok] Hfc Hd Hlen.
  destruct data as [|a1 [|a0 [|q1 [|q0 rest]]]]; try (unfold len in Hlen; cbn in Hlen; lia).
  unfold req_read_bits, s_read_bits.
  assert (B1 : a1 < 256) by (eapply bytes_ok_in; [exact Hd|cbn; auto]).
  assert (B2 : a0 < 256) by (eapply bytes_ok_in; [exact Hd|cbn; auto]).
  assert (B3 : q1 < 256) by (eapply bytes_ok_in; [exact Hd|cbn; auto]).
  assert (B4 : q0 < 256) by (eapply bytes_ok_in; [exact Hd|cbn; auto 6]).
  rewrite !be16_word by assumption. set (a := word a1 a0). set (q := word q1 q0).
  assert (Ha : a < 65536) by (unfold a, word; lia). assert (Hq : q < 65536) by (unfold q, word; lia).
  cbv zeta. unfold maxReadBits, maxAddress, ExcIllegalValue, ExcIllegalAddress, between.
  rewrite !exc_eq by exact Hfc.
  destruct (N.ltb_spec q 1) as [Q1|Q1]; cbn [orb].
  { replace (1 <=? q) with false by (symmetry; apply N.leb_gt; lia). reflexivity. }
  replace (1 <=? q) with true by (symmetry; apply N.leb_le; lia). cbn [andb].
  destruct (N.ltb_spec 2000 q) as [Q2|Q2].
  { replace (q <=? 2000) with false by (symmetry; apply N.leb_gt; lia). reflexivity. }
  replace (q <=? 2000) with true by (symmetry; apply N.leb_le; lia). cbn [negb].
  destruct (N.ltb_spec 65536 (a + q)) as [Q3|Q3].
  { replace (a + q <=? 65536) with false by (symmetry; apply N.leb_gt; lia). reflexivity. }
  replace (a + q <=? 65536) with true by (symmetry; apply N.leb_le; lia). cbn [negb].
  set (nb := (q + 7) / 8).
  replace ((q + 7) mod 65536 / 8 mod 256) with nb by (unfold nb; lia).
  replace ((1 + nb) mod 256) with (1 + nb) by (unfold nb; lia).
  rewrite zeros_succ. cbn [upd_nth].
  pose proof (read_bits_loop_spec rs a (N.to_nat q) 0 (nb :: zeros nb)) as L.
  rewrite N.add_0_r in L.
  destruct (all_some (map (s_coil rs) (nseq a (N.to_nat q)))) as [bits|] eqn:AS.
  - destruct L as (buf' & -> & Hl & Hb); [lia| |].
    { intros j Hj. cbn [length]. unfold zeros. rewrite repeat_length. unfold nb. lia. }
    assert (Lb : length bits = N.to_nat q).
    { apply all_some_length in AS. rewrite map_length, nseq_length in AS. exact AS. }
    rewrite (bits_buf_eq nb bits buf'); [reflexivity| | |exact Hb].
    + rewrite Hl. cbn [length]. unfold zeros. rewrite repeat_length. reflexivity.
    + rewrite Lb. unfold nb. lia.
  - rewrite L by (try lia; intros j Hj; cbn [length]; unfold zeros; rewrite repeat_length; unfold nb; lia).
    apply exc_eq. exact Hfc.
Qed.

Lemma req_read_regs_ok rs fc data :
  regs_ok rs -> fc < 256 -> bytes_ok data = true -> 4 <= len data ->
  req_read_regs rs fc data = s_read_regs rs fc data.
Proof.
  intros [Hnd Hok] Hfc Hd Hlen.
  destruct data as [|a1 [|a0 [|q1 [|q0 rest]]]]; try (unfold len in Hlen; cbn in Hlen; lia).
  unfold req_read_regs, s_read_regs.
  assert (B1 : a1 < 256) by (eapply bytes_ok_in; [exact Hd|cbn; auto]).
  assert (B2 : a0 < 256) by (eapply bytes_ok_in; [exact Hd|cbn; auto]).
  assert (B3 : q1 < 256) by (eapply bytes_ok_in; [exact Hd|cbn; auto]).
  assert (B4 : q0 < 256) by (eapply bytes_ok_in; [exact Hd|cbn; auto 6]).
  rewrite !be16_word by assumption. set (a := word a1 a0). set (q := word q1 q0).
  assert (Ha : a < 65536) by (unfold a, word; lia). assert (Hq : q < 65536) by (unfold q, word; lia).
  cbv zeta. unfold maxReadRegs, maxAddress, ExcIllegalValue, ExcIllegalAddress, between.
  rewrite !exc_eq by exact Hfc.
  destruct (N.ltb_spec q 1) as [Q1|Q1]; cbn [orb].
  { replace (1 <=? q) with false by (symmetry; apply N.leb_gt; lia). reflexivity. }
  replace (1 <=? q) with true by (symmetry; apply N.leb_le; lia). cbn [andb].
  destruct (N.ltb_spec 125 q) as [Q2|Q2].
  { replace (q <=? 125) with false by (symmetry; apply N.leb_gt; lia). reflexivity. }
  replace (q <=? 125) with true by (symmetry; apply N.leb_le; lia). cbn [negb].
  destruct (N.ltb_spec 65536 (a + q)) as [Q3|Q3].
  { replace (a + q <=? 65536) with false by (symmetry; apply N.leb_gt; lia). reflexivity. }
  replace (a + q <=? 65536) with true by (symmetry; apply N.leb_le; lia). cbn [negb].
  replace ((1 + 2 * q) mod 65536) with (1 + 2 * q) by lia.
  rewrite zeros_succ. cbn [upd_nth]. unfold zeros.
  replace (N.to_nat (2 * q)) with (2 * N.to_nat q)%nat by lia.
  pose proof (read_regs_loop_spec rs a (N.to_nat q) 0 [q * 2 mod 256]) as L.
  cbn [app] in L. rewrite L by (cbn; lia). rewrite N.add_0_r.
  destruct (all_some (map (s_reg rs) (nseq a (N.to_nat q)))) as [vs|] eqn:AS.
  - replace (q * 2 mod 256) with (2 * q) by lia.
    rewrite (flat_map_ext_forall (fun v => v < 65536) (fun v => [hi8 v; lo8 v]) word_bytes vs); [reflexivity| |].
    + eapply all_some_forall; [|exact AS]. intros x v Hin ->. apply in_map_iff in Hin.
      destruct Hin as (ad & E & _). eapply s_reg_lt; eassumption.
    + intros v Hv. unfold word_bytes, hi8, lo8. rewrite (N.mod_small (v / 256)) by lia. reflexivity.
  - apply exc_eq. exact Hfc.
Qed.
Ltac data_bytes Hd :=
  repeat match goal with
  | x : N |- _ =>
      lazymatch goal with
      | H : x < 256 |- _ => fail
      | _ => assert (x < 256) by (eapply bytes_ok_in; [exact Hd|cbn; auto 10])
      end
  end.

Lemma req_write_coil_ok rs fc data :
  regs_ok rs -> fc < 256 -> bytes_ok data = true -> 4 <= len data ->
  req_write_coil rs fc data = s_single_coil rs fc data.
Proof.
  intros [Hnd Hok] Hfc Hd Hlen.
  destruct data as [|a1 [|a0 [|v1 [|v0 rest]]]]; try (unfold len in Hlen; cbn in Hlen; lia).
  unfold req_write_coil, s_single_coil.
  assert (B1 : a1 < 256) by (eapply bytes_ok_in; [exact Hd|cbn; auto]).
  assert (B2 : a0 < 256) by (eapply bytes_ok_in; [exact Hd|cbn; auto]).
  assert (B3 : v1 < 256) by (eapply bytes_ok_in; [exact Hd|cbn; auto]).
  assert (B4 : v0 < 256) by (eapply bytes_ok_in; [exact Hd|cbn; auto 6]).
  rewrite !be16_word by assumption. set (a := word a1 a0). set (v := word v1 v0).
  assert (Ha : a < 65536) by (unfold a, word; lia).
  cbv zeta. unfold ExcIllegalValue. rewrite !exc_eq by exact Hfc.
  destruct (N.eqb_spec v 0) as [V0|V0]; cbn [orb negb].
  - rewrite write_coil_spec by (auto; lia). replace (v =? 65280) with false by (symmetry; apply N.eqb_neq; lia).
    destruct (s_write_coil rs (a, false)); [reflexivity|apply exc_eq; exact Hfc].
  - destruct (N.eqb_spec v 65280) as [V1|V1]; cbn [negb]; [|reflexivity].
    rewrite write_coil_spec by (auto; lia).
    destruct (s_write_coil rs (a, true)); [reflexivity|apply exc_eq; exact Hfc].
Qed.

Lemma req_write_reg_ok rs fc data :
  regs_ok rs -> fc < 256 -> bytes_ok data = true -> 4 <= len data ->
  req_write_reg rs fc data = s_single_reg rs fc data.
Proof.
  intros [Hnd Hok] Hfc Hd Hlen.
  destruct data as [|a1 [|a0 [|v1 [|v0 rest]]]]; try (unfold len in Hlen; cbn in Hlen; lia).
  unfold req_write_reg, s_single_reg.
  assert (B1 : a1 < 256) by (eapply bytes_ok_in; [exact Hd|cbn; auto]).
  assert (B2 : a0 < 256) by (eapply bytes_ok_in; [exact Hd|cbn; auto]).
  assert (B3 : v1 < 256) by (eapply bytes_ok_in; [exact Hd|cbn; auto]).
  assert (B4 : v0 < 256) by (eapply bytes_ok_in; [exact Hd|cbn; auto 6]).
  rewrite !be16_word by assumption.
  rewrite write_reg_spec by (auto; unfold word; lia).
  destruct (s_write_reg rs (word a1 a0, word v1 v0)); [reflexivity|apply exc_eq; exact Hfc].
Qed.

Lemma echo_word h l : h < 256 -> l < 256 -> hi8 (word h l) = h /\ lo8 (word h l) = l.
Proof. intros Hh Hl. unfold hi8, lo8, word. split; lia. Qed.

Lemma req_write_coils_ok rs fc data :
  regs_ok rs -> fc < 256 -> bytes_ok data = true -> 6 <= len data ->
  req_write_coils rs fc data = s_multi_coils rs fc data.
Proof.
  intros Hrs Hfc Hd Hlen.
  destruct data as [|a1 [|a0 [|q1 [|q0 [|bc [|p0 payload]]]]]]; try (unfold len in Hlen; cbn in Hlen; lia).
  unfold req_write_coils, s_multi_coils.
  assert (B1 : a1 < 256) by (eapply bytes_ok_in; [exact Hd|cbn; auto]).
  assert (B2 : a0 < 256) by (eapply bytes_ok_in; [exact Hd|cbn; auto]).
  assert (B3 : q1 < 256) by (eapply bytes_ok_in; [exact Hd|cbn; auto]).
  assert (B4 : q0 < 256) by (eapply bytes_ok_in; [exact Hd|cbn; auto 6]).
  rewrite !be16_word by assumption.
  destruct (echo_word a1 a0 B1 B2) as [E1 E2]. destruct (echo_word q1 q0 B3 B4) as [E3 E4].
  rewrite E1, E2, E3, E4. set (a := word a1 a0). set (q := word q1 q0).
  assert (Ha : a < 65536) by (unfold a, word; lia). assert (Hq : q < 65536) by (unfold q, word; lia).
  cbv zeta. unfold maxWriteBits, maxAddress, ExcIllegalValue, ExcIllegalAddress, between.
  rewrite !exc_eq by exact Hfc. rewrite !len_cons.
  set (n := (q + 7) / 8). set (lp := len payload).
  assert (Econd : ((q <? 1) || (1968 <? q) || negb (1 + (1 + (1 + (1 + (1 + (1 + lp))))) =? 5 + n) || negb (bc =? n))
                  = negb ((1 <=? q) && (q <=? 1968) && (bc =? n) && (1 + lp =? n))).
  { lia. }
  rewrite Econd. clear Econd.
  destruct ((1 <=? q) && (q <=? 1968) && (bc =? n) && (1 + lp =? n)) eqn:C; cbn [negb]; [|reflexivity].
  apply andb_true_iff in C. destruct C as [C C4]. apply andb_true_iff in C. destruct C as [C C3].
  apply andb_true_iff in C. destruct C as [C1 C2].
  apply N.leb_le in C1, C2. apply N.eqb_eq in C3, C4.
  destruct (N.ltb_spec 65536 (a + q)) as [Q3|Q3].
  { replace (a + q <=? 65536) with false by (symmetry; apply N.leb_gt; lia). reflexivity. }
  replace (a + q <=? 65536) with true by (symmetry; apply N.leb_le; lia). cbn [negb].
  rewrite (write_coils_loop_spec a _ (N.to_nat q) rs 0 Hrs).
  - rewrite N.add_0_r. cbn [N.to_nat skipn]. unfold unpack_bits.
    destruct (s_write_all s_write_coil rs _) as [rs' [e|]]; cbn [lres_of]; [apply exc_eq; exact Hfc|reflexivity].
  - lia.
  - intros j Hj. cbn [length]. unfold lp, len, n in C4. lia.
Qed.

Lemma req_write_regs_ok rs fc data :
  regs_ok rs -> fc < 256 -> bytes_ok data = true -> 7 <= len data ->
  req_write_regs rs fc data = s_multi_regs rs fc data.
Proof.
  intros Hrs Hfc Hd Hlen.
  destruct data as [|a1 [|a0 [|q1 [|q0 [|bc [|p0 [|p1 payload]]]]]]]; try (unfold len in Hlen; cbn in Hlen; lia).
  unfold req_write_regs, s_multi_regs.
  assert (B1 : a1 < 256) by (eapply bytes_ok_in; [exact Hd|cbn; auto]).
  assert (B2 : a0 < 256) by (eapply bytes_ok_in; [exact Hd|cbn; auto]).
  assert (B3 : q1 < 256) by (eapply bytes_ok_in; [exact Hd|cbn; auto]).
  assert (B4 : q0 < 256) by (eapply bytes_ok_in; [exact Hd|cbn; auto 6]).
  rewrite !be16_word by assumption.
  destruct (echo_word a1 a0 B1 B2) as [E1 E2]. destruct (echo_word q1 q0 B3 B4) as [E3 E4].
  rewrite E1, E2, E3, E4. set (a := word a1 a0). set (q := word q1 q0).
  assert (Ha : a < 65536) by (unfold a, word; lia). assert (Hq : q < 65536) by (unfold q, word; lia).
  cbv zeta. unfold maxWriteRegs, maxAddress, ExcIllegalValue, ExcIllegalAddress, between.
  rewrite !exc_eq by exact Hfc. rewrite !len_cons.
  set (lp := len payload).
  assert (Econd : ((q <? 1) || (123 <? q) || negb (1 + (1 + (1 + (1 + (1 + (1 + (1 + lp)))))) =? 5 + q * 2) || negb (bc =? q * 2))
                  = negb ((1 <=? q) && (q <=? 123) && (bc =? 2 * q) && (1 + (1 + lp) =? 2 * q))).
  { lia. }
  rewrite Econd. clear Econd.
  destruct ((1 <=? q) && (q <=? 123) && (bc =? 2 * q) && (1 + (1 + lp) =? 2 * q)) eqn:C; cbn [negb]; [|reflexivity].
  apply andb_true_iff in C. destruct C as [C C4]. apply andb_true_iff in C. destruct C as [C C3].
  apply andb_true_iff in C. destruct C as [C1 C2].
  apply N.leb_le in C1, C2. apply N.eqb_eq in C3, C4.
  destruct (N.ltb_spec 65536 (a + q)) as [Q3|Q3].
  { replace (a + q <=? 65536) with false by (symmetry; apply N.leb_gt; lia). reflexivity. }
  replace (a + q <=? 65536) with true by (symmetry; apply N.leb_le; lia). cbn [negb].
  rewrite (write_regs_loop_spec a _ Hd (N.to_nat q) rs 0 Hrs).
  - rewrite N.add_0_r. replace (N.to_nat (5 + 0 * 2)) with 5%nat by lia. cbn [skipn].
    destruct (s_write_all s_write_reg rs _) as [rs' [e|]]; cbn [lres_of]; [apply exc_eq; exact Hfc|reflexivity].
  - lia.
  - cbn [length]. unfold lp, len in C4. lia.
Qed.

(* function codes outside the eight that are served *)
Lemma other_ok rs fc data :
  fc < 256 -> fc <> 1 -> fc <> 2 -> fc <> 3 -> fc <> 4 -> fc <> 5 -> fc <> 6 -> fc <> 15 -> fc <> 16 ->
  (if len data + 1 <? min_request_len fc then Err 1 else exc rs fc ExcIllegalFunction) = s_other rs fc data.
Proof.
  intros Hfc N1 N2 N3 N4 N5 N6 N15 N16. rewrite exc_eq by exact Hfc. unfold ExcIllegalFunction.
  unfold s_other. generalize (s_exc rs fc 1). intros X. generalize (len data). intros l.
  destruct fc as [|p]; [cbn [min_request_len]; destruct (N.ltb_spec (l + 1) 0); [lia|reflexivity]|].
  do 5 (try destruct p as [p|p|]); try congruence; cbn [min_request_len];
    try reflexivity;
    repeat match goal with |- context [?a <? ?b] => destruct (N.ltb_spec a b) end; try reflexivity; try lia.
Qed.
(* ================= C18_conforms ================= *)
Ltac short_or_ok k lem :=
  let S := fresh "S" in
  match goal with |- context [len ?d + 1 <? _] => destruct (N.ltb_spec (len d + 1) k) as [S|S] end;
  [ match goal with |- _ = ?f ?rs ?fc ?d =>
      unfold f; repeat (destruct d as [|? d]; [reflexivity|]); exfalso; rewrite !len_cons in S; lia end
  | apply lem; auto; lia ].

Theorem conforms rs fc data :
  regs_ok rs -> fc < 256 -> bytes_ok data = true -> process_request rs fc data = spec rs fc data.
Proof.
  intros Hrs Hfc Hd. unfold process_request, spec.
  destruct (N.eqb_spec fc 1) as [->|N1]; [cbn [orb min_request_len]; short_or_ok 5 req_read_bits_ok|].
  destruct (N.eqb_spec fc 2) as [->|N2]; [cbn [orb min_request_len]; short_or_ok 5 req_read_bits_ok|].
  destruct (N.eqb_spec fc 3) as [->|N3]; [cbn [orb min_request_len]; short_or_ok 5 req_read_regs_ok|].
  destruct (N.eqb_spec fc 4) as [->|N4]; [cbn [orb min_request_len]; short_or_ok 5 req_read_regs_ok|].
  destruct (N.eqb_spec fc 5) as [->|N5]; [cbn [orb min_request_len]; short_or_ok 5 req_write_coil_ok|].
  destruct (N.eqb_spec fc 15) as [->|N15].
  { destruct (N.eqb_spec 15 6); [discriminate|]. cbn [orb min_request_len]. short_or_ok 7 req_write_coils_ok. }
  destruct (N.eqb_spec fc 6) as [->|N6]; [cbn [orb min_request_len]; short_or_ok 5 req_write_reg_ok|].
  destruct (N.eqb_spec fc 16) as [->|N16]; [cbn [orb min_request_len]; short_or_ok 8 req_write_regs_ok|].
  cbn [orb]. apply other_ok; assumption.
Qed.
(* ================= C18_total: no hypotheses on the inputs ================= *)
Lemma read_bits_loop_nopanic rs address : forall n i buf,
  (forall j, (j < n)%nat -> (N.to_nat (1 + (i + N.of_nat j) / 8) < length buf)%nat) ->
  read_bits_loop rs address n i buf <> LPanic.
Proof.
  induction n as [|n IH]; intros i buf Hlen; [discriminate|]. cbn [read_bits_loop].
  destruct (read_coil rs (address + i)) as [[|]|]; [| |discriminate].
  - destruct (upd_nth_some buf (N.to_nat (1 + i / 8)) (fun x => N.lor x (N.shiftl 1 (i mod 8) mod 256)))
      as (buf1 & -> & Hl1 & _).
    { specialize (Hlen 0%nat). replace (i + N.of_nat 0) with i in Hlen by lia. apply Hlen. lia. }
    apply IH. intros j Hj. rewrite Hl1. specialize (Hlen (S j)).
    replace (i + 1 + N.of_nat j) with (i + N.of_nat (S j)) by lia. apply Hlen. lia.
  - apply IH. intros j Hj. specialize (Hlen (S j)).
    replace (i + 1 + N.of_nat j) with (i + N.of_nat (S j)) by lia. apply Hlen. lia.
Qed.

Lemma put16_some buf off v : (off + 2 <= length buf)%nat ->
  exists buf', put16 buf off v = Some buf' /\ length buf' = length buf.
Proof.
  intros H. unfold put16.
  destruct (upd_nth_some buf off (fun _ => hi8 v)) as (b1 & -> & L1 & _); [lia|].
  destruct (upd_nth_some b1 (S off) (fun _ => lo8 v)) as (b2 & -> & L2 & _); [lia|].
  exists b2. split; [reflexivity|lia].
Qed.

Lemma read_regs_loop_nopanic rs address : forall n i buf,
  (N.to_nat (1 + i * 2) + 2 * n <= length buf)%nat ->
  read_regs_loop rs address n i buf <> LPanic.
Proof.
  induction n as [|n IH]; intros i buf Hlen; [discriminate|]. cbn [read_regs_loop].
  destruct (read_reg rs (address + i)) as [v|]; [|discriminate].
  destruct (put16_some buf (N.to_nat (1 + i * 2)) v) as (b' & -> & L); [lia|].
  apply IH. rewrite L. lia.
Qed.

Lemma write_coils_loop_nopanic address data : forall n rs i,
  (forall j, (j < n)%nat -> (N.to_nat (5 + (i + N.of_nat j) / 8) < length data)%nat) ->
  write_coils_loop rs address data n i <> LPanic.
Proof.
  induction n as [|n IH]; intros rs i Hlen; [discriminate|]. cbn [write_coils_loop].
  assert (H0 : (N.to_nat (5 + i / 8) < length data)%nat).
  { specialize (Hlen 0%nat). replace (i + N.of_nat 0) with i in Hlen by lia. apply Hlen. lia. }
  rewrite (nth_error_nth' data 0 H0).
  destruct (write_coil rs (address + i) _); [|discriminate].
  apply IH. intros j Hj. specialize (Hlen (S j)).
  replace (i + 1 + N.of_nat j) with (i + N.of_nat (S j)) by lia. apply Hlen. lia.
Qed.

Lemma write_regs_loop_nopanic address data : forall n rs i,
  (N.to_nat (5 + i * 2) + 2 * n <= length data)%nat ->
  write_regs_loop rs address data n i <> LPanic.
Proof.
  induction n as [|n IH]; intros rs i Hlen; [discriminate|]. cbn [write_regs_loop].
  destruct (skipn_two data (N.to_nat (5 + i * 2))) as (h & l & H1 & H2 & _); [lia|].
  replace (N.to_nat (5 + i * 2 + 1)) with (S (N.to_nat (5 + i * 2))) by lia. rewrite H1, H2.
  destruct (write_reg rs (address + i) _); [|discriminate].
  apply IH. lia.
Qed.

Lemma exc_not_panic rs fc e : exc rs fc e <> Panic.
Proof. discriminate. Qed.

Lemma req_read_bits_total rs fc data : 4 <= len data -> req_read_bits rs fc data <> Panic.
Proof.
  intros Hlen. destruct data as [|a1 [|a0 [|q1 [|q0 rest]]]]; try (unfold len in Hlen; cbn in Hlen; lia).
  unfold req_read_bits. pose proof (be16_lt q1 q0) as Hq. set (q := be16 q1 q0) in *. set (a := be16 a1 a0).
  cbv zeta. unfold maxReadBits, maxAddress.
  destruct (N.ltb_spec q 1); cbn [orb]; [discriminate|].
  destruct (N.ltb_spec 2000 q); [discriminate|].
  destruct (N.ltb_spec 65536 (a + q)); [discriminate|].
  set (nb := (q + 7) / 8).
  replace ((q + 7) mod 65536 / 8 mod 256) with nb by (unfold nb; lia).
  replace ((1 + nb) mod 256) with (1 + nb) by (unfold nb; lia).
  rewrite zeros_succ. cbn [upd_nth].
  pose proof (read_bits_loop_nopanic rs a (N.to_nat q) 0 (nb :: zeros nb)) as L.
  destruct (read_bits_loop rs a (N.to_nat q) 0 (nb :: zeros nb)); try discriminate.
  exfalso. apply L; [|reflexivity]. intros j Hj. cbn [length]. unfold zeros. rewrite repeat_length. unfold nb. lia.
Qed.

Lemma req_read_regs_total rs fc data : 4 <= len data -> req_read_regs rs fc data <> Panic.
Proof.
  intros Hlen. destruct data as [|a1 [|a0 [|q1 [|q0 rest]]]]; try (unfold len in Hlen; cbn in Hlen; lia).
  unfold req_read_regs. pose proof (be16_lt q1 q0) as Hq. set (q := be16 q1 q0) in *. set (a := be16 a1 a0).
  cbv zeta. unfold maxReadRegs, maxAddress.
  destruct (N.ltb_spec q 1); cbn [orb]; [discriminate|].
  destruct (N.ltb_spec 125 q); [discriminate|].
  destruct (N.ltb_spec 65536 (a + q)); [discriminate|].
  replace ((1 + 2 * q) mod 65536) with (1 + 2 * q) by lia.
  rewrite zeros_succ. cbn [upd_nth].
  pose proof (read_regs_loop_nopanic rs a (N.to_nat q) 0 (q * 2 mod 256 :: zeros (2 * q))) as L.
  destruct (read_regs_loop rs a (N.to_nat q) 0 _); try discriminate.
  exfalso. apply L; [|reflexivity]. cbn [length]. unfold zeros. rewrite repeat_length. lia.
Qed.

Lemma req_write_coil_total rs fc data : 4 <= len data -> req_write_coil rs fc data <> Panic.
Proof.
  intros Hlen. destruct data as [|a1 [|a0 [|q1 [|q0 rest]]]]; try (unfold len in Hlen; cbn in Hlen; lia).
  unfold req_write_coil. cbv zeta.
  destruct (_ =? 0); [destruct (write_coil _ _ _); discriminate|].
  destruct (_ =? 65280); [destruct (write_coil _ _ _); discriminate|discriminate].
Qed.

Lemma req_write_reg_total rs fc data : 4 <= len data -> req_write_reg rs fc data <> Panic.
Proof.
  intros Hlen. destruct data as [|a1 [|a0 [|q1 [|q0 rest]]]]; try (unfold len in Hlen; cbn in Hlen; lia).
  unfold req_write_reg. destruct (write_reg _ _ _); discriminate.
Qed.

Lemma req_write_coils_total rs fc data : 6 <= len data -> req_write_coils rs fc data <> Panic.
Proof.
  intros Hlen.
  destruct data as [|a1 [|a0 [|q1 [|q0 [|bc rest]]]]]; try (unfold len in Hlen; cbn in Hlen; lia).
  unfold req_write_coils. pose proof (be16_lt q1 q0) as Hq. set (q := be16 q1 q0) in *. set (a := be16 a1 a0).
  cbv zeta. set (data := a1 :: a0 :: q1 :: q0 :: bc :: rest).
  destruct (N.ltb_spec q 1); cbn [orb]; [discriminate|].
  destruct (N.ltb_spec maxWriteBits q); cbn [orb]; [discriminate|].
  destruct (N.eqb_spec (len data) (5 + (q + 7) / 8)) as [E|E]; cbn [negb orb]; [|discriminate].
  destruct (negb (bc =? (q + 7) / 8)); [discriminate|].
  destruct (maxAddress <? a + q); [discriminate|].
  pose proof (write_coils_loop_nopanic a data (N.to_nat q) rs 0) as L.
  destruct (write_coils_loop rs a data (N.to_nat q) 0); try discriminate.
  exfalso. apply L; [|reflexivity]. intros j Hj. unfold len in E. lia.
Qed.

Lemma req_write_regs_total rs fc data : 7 <= len data -> req_write_regs rs fc data <> Panic.
Proof.
  intros Hlen.
  destruct data as [|a1 [|a0 [|q1 [|q0 [|bc rest]]]]]; try (unfold len in Hlen; cbn in Hlen; lia).
  unfold req_write_regs. pose proof (be16_lt q1 q0) as Hq. set (q := be16 q1 q0) in *. set (a := be16 a1 a0).
  cbv zeta. set (data := a1 :: a0 :: q1 :: q0 :: bc :: rest).
  destruct (N.ltb_spec q 1); cbn [orb]; [discriminate|].
  destruct (N.ltb_spec maxWriteRegs q); cbn [orb]; [discriminate|].
  destruct (N.eqb_spec (len data) (5 + q * 2)) as [E|E]; cbn [negb orb]; [|discriminate].
  destruct (negb (bc =? q * 2)); [discriminate|].
  destruct (maxAddress <? a + q); [discriminate|].
  pose proof (write_regs_loop_nopanic a data (N.to_nat q) rs 0) as L.
  destruct (write_regs_loop rs a data (N.to_nat q) 0); try discriminate.
  exfalso. apply L; [|reflexivity]. unfold len in E. lia.
Qed.

Theorem total rs fc data : process_request rs fc data <> Panic.
Proof.
  unfold process_request.
  destruct (N.ltb_spec (len data + 1) (min_request_len fc)) as [S|S]; [discriminate|].
  destruct (N.eqb_spec fc 1) as [->|N1]; [cbn [orb]; apply req_read_bits_total; cbn [min_request_len] in S; lia|].
  destruct (N.eqb_spec fc 2) as [->|N2]; [cbn [orb]; apply req_read_bits_total; cbn [min_request_len] in S; lia|].
  destruct (N.eqb_spec fc 3) as [->|N3]; [cbn [orb]; apply req_read_regs_total; cbn [min_request_len] in S; lia|].
  destruct (N.eqb_spec fc 4) as [->|N4]; [cbn [orb]; apply req_read_regs_total; cbn [min_request_len] in S; lia|].
  destruct (N.eqb_spec fc 5) as [->|N5]; [cbn [orb]; apply req_write_coil_total; cbn [min_request_len] in S; lia|].
  destruct (N.eqb_spec fc 15) as [->|N15]; [cbn [orb]; apply req_write_coils_total; cbn [min_request_len] in S; lia|].
  destruct (N.eqb_spec fc 6) as [->|N6]; [cbn [orb]; apply req_write_reg_total; cbn [min_request_len] in S; lia|].
  destruct (N.eqb_spec fc 16) as [->|N16]; [cbn [orb]; apply req_write_regs_total; cbn [min_request_len] in S; lia|].
  cbn [orb]. discriminate.
Qed.

(* ================= C18_exception_no_change ================= *)
Lemma read_bits_loop_regs rs address : forall n i buf e rs',
  read_bits_loop rs address n i buf = LExc e rs' -> rs' = rs.
Proof.
  induction n as [|n IH]; intros i buf e rs' H; [discriminate|]. cbn [read_bits_loop] in H.
  destruct (read_coil rs (address + i)) as [[|]|]; [| |inversion H; reflexivity].
  - destruct (upd_nth _ _ _); [eapply IH; exact H|discriminate].
  - eapply IH; exact H.
Qed.

Lemma read_regs_loop_regs rs address : forall n i buf e rs',
  read_regs_loop rs address n i buf = LExc e rs' -> rs' = rs.
Proof.
  induction n as [|n IH]; intros i buf e rs' H; [discriminate|]. cbn [read_regs_loop] in H.
  destruct (read_reg rs (address + i)); [|inversion H; reflexivity].
  destruct (put16 _ _ _); [eapply IH; exact H|discriminate].
Qed.

(* a read never changes anything, whatever it answers *)
Lemma reads_no_change rs fc data ch resp rs' :
  (fc = 1 \/ fc = 2 \/ fc = 3 \/ fc = 4) ->
  process_request rs fc data = Ok (ch, resp, rs') -> rs' = rs /\ ch = false.
Proof.
  intros Hfc. unfold process_request.
  destruct (len data + 1 <? min_request_len fc); [discriminate|].
  assert (RB : req_read_bits rs fc data = Ok (ch, resp, rs') -> rs' = rs /\ ch = false).
  { unfold req_read_bits, exc. destruct data as [|a1 [|a0 [|q1 [|q0 rest]]]]; try discriminate. cbv zeta.
    destruct (_ || _); [intros E; inversion E; auto|].
    destruct (_ <? _); [intros E; inversion E; auto|].
    destruct (upd_nth _ _ _); [|discriminate].
    destruct (read_bits_loop _ _ _ _ _) eqn:L; [intros E; inversion E; auto| |discriminate].
    apply read_bits_loop_regs in L. subst. intros E; inversion E; auto. }
  assert (RR : req_read_regs rs fc data = Ok (ch, resp, rs') -> rs' = rs /\ ch = false).
  { unfold req_read_regs, exc. destruct data as [|a1 [|a0 [|q1 [|q0 rest]]]]; try discriminate. cbv zeta.
    destruct (_ || _); [intros E; inversion E; auto|].
    destruct (_ <? _); [intros E; inversion E; auto|].
    destruct (upd_nth _ _ _); [|discriminate].
    destruct (read_regs_loop _ _ _ _ _) eqn:L; [intros E; inversion E; auto| |discriminate].
    apply read_regs_loop_regs in L. subst. intros E; inversion E; auto. }
  destruct Hfc as [-> | [-> | [-> | ->]]]; cbn [N.eqb Pos.eqb orb]; assumption.
Qed.

Theorem exception_no_change rs fc data ch rfc rdata rs' :
  In fc [1; 2; 3; 4; 5; 6] ->
  process_request rs fc data = Ok (ch, (rfc, rdata), rs') ->
  N.testbit rfc 7 = true ->
  rs' = rs.
Proof.
  intros Hfc H Hexc. cbn [In] in Hfc.
  destruct Hfc as [<-|[<-|[<-|[<-|Hfc]]]]; try (eapply reads_no_change; [|exact H]; tauto).
  unfold process_request in H. destruct (len data + 1 <? _); [discriminate|].
  destruct Hfc as [<-|[<-|F]]; [| |destruct F]; cbn [N.eqb Pos.eqb orb] in H.
  - unfold req_write_coil, exc in H. destruct data as [|a1 [|a0 [|q1 [|q0 rest]]]]; try discriminate. cbv zeta in H.
    destruct (_ =? 0).
    { destruct (write_coil _ _ _); inversion H; subst; [discriminate Hexc|reflexivity]. }
    destruct (_ =? 65280); [|inversion H; reflexivity].
    destruct (write_coil _ _ _); inversion H; subst; [discriminate Hexc|reflexivity].
  - unfold req_write_reg, exc in H. destruct data as [|a1 [|a0 [|q1 [|q0 rest]]]]; try discriminate.
    destruct (write_reg _ _ _); inversion H; subst; [discriminate Hexc|reflexivity].
Qed.

(* ================= the register-file invariant is kept ================= *)
Lemma s_write_all_ok {A} (w : regs -> A -> regs + N) :
  (forall rs x rs', regs_ok rs -> w rs x = inl rs' -> regs_ok rs') ->
  forall l rs, regs_ok rs -> regs_ok (fst (s_write_all w rs l)).
Proof.
  intros Hw. induction l as [|x l IH]; intros rs Hrs; [exact Hrs|]. cbn [s_write_all].
  destruct (w rs x) eqn:W; [apply IH; eapply Hw; eassumption|exact Hrs].
Qed.

Lemma words_lt : forall (l : bytes), (forall y, In y l -> y < 256) -> Forall (fun v => v < 65536) (words l).
Proof.
  fix IH 1. intros [|h [|l0 t]] Hl; [constructor|constructor|]. cbn [words]. constructor.
  - assert (h < 256) by (apply Hl; cbn; auto). assert (l0 < 256) by (apply Hl; cbn; auto). unfold word. lia.
  - apply (IH t). intros y Hy. apply Hl. cbn. auto.
Qed.

Lemma s_write_all_ok' {A} (w : regs -> A -> regs + N) (P : A -> Prop) :
  (forall rs x rs', regs_ok rs -> P x -> w rs x = inl rs' -> regs_ok rs') ->
  forall l rs, Forall P l -> regs_ok rs -> regs_ok (fst (s_write_all w rs l)).
Proof.
  intros Hw. induction l as [|x l IH]; intros rs HP Hrs; [exact Hrs|]. cbn [s_write_all].
  inversion HP; subst.
  destruct (w rs x) eqn:W; [apply IH; [assumption|eapply Hw; eassumption]|exact Hrs].
Qed.

Lemma Forall_combine_r {A B} (P : B -> Prop) : forall (a : list A) (b : list B),
  Forall P b -> Forall (fun p => P (snd p)) (combine a b).
Proof.
  induction a as [|x a IH]; intros b Hb; [constructor|]. destruct b as [|y b]; [constructor|].
  inversion Hb; subst. cbn [combine]. constructor; [assumption|apply IH; assumption].
Qed.

Theorem spec_keeps_ok rs fc data ch resp rs' :
  regs_ok rs -> bytes_ok data = true -> spec rs fc data = Ok (ch, resp, rs') -> regs_ok rs'.
Proof.
  intros Hrs Hd. unfold spec.
  assert (RB : s_read_bits rs fc data = Ok (ch, resp, rs') -> regs_ok rs').
  { unfold s_read_bits, s_exc. destruct data as [|a1 [|a0 [|q1 [|q0 rest]]]]; try discriminate. cbv zeta.
    destruct (negb _); [intros E; inversion E; subst; auto|].
    destruct (negb _); [intros E; inversion E; subst; auto|].
    destruct (all_some _); intros E; inversion E; subst; auto. }
  assert (RR : s_read_regs rs fc data = Ok (ch, resp, rs') -> regs_ok rs').
  { unfold s_read_regs, s_exc. destruct data as [|a1 [|a0 [|q1 [|q0 rest]]]]; try discriminate. cbv zeta.
    destruct (negb _); [intros E; inversion E; subst; auto|].
    destruct (negb _); [intros E; inversion E; subst; auto|].
    destruct (all_some _); intros E; inversion E; subst; auto. }
  destruct ((fc =? 1) || (fc =? 2)); [exact RB|]. destruct ((fc =? 3) || (fc =? 4)); [exact RR|].
  destruct (fc =? 5).
  { unfold s_single_coil, s_exc. destruct data as [|a1 [|a0 [|q1 [|q0 rest]]]]; try discriminate. cbv zeta.
    destruct (negb _); [intros E; inversion E; subst; auto|].
    destruct (s_write_coil rs _) eqn:W; intros E; inversion E; subst; auto.
    eapply s_write_coil_ok; eassumption. }
  destruct (fc =? 6).
  { unfold s_single_reg, s_exc. destruct data as [|a1 [|a0 [|v1 [|v0 rest]]]]; try discriminate.
    destruct (s_write_reg rs _) eqn:W; intros E; inversion E; subst; auto.
    eapply s_write_reg_ok; [eassumption| |exact W].
    assert (v1 < 256) by (eapply bytes_ok_in; [exact Hd|cbn; auto]).
    assert (v0 < 256) by (eapply bytes_ok_in; [exact Hd|cbn; auto 6]). unfold word. lia. }
  destruct (fc =? 15).
  { unfold s_multi_coils, s_exc. destruct data as [|a1 [|a0 [|q1 [|q0 [|bc [|p0 payload]]]]]]; try discriminate.
    cbv zeta. destruct (negb _); [intros E; inversion E; subst; auto|].
    destruct (negb _); [intros E; inversion E; subst; auto|].
    match goal with |- context [s_write_all s_write_coil rs ?l] =>
      pose proof (s_write_all_ok' s_write_coil (fun _ => True)
                    (fun rs x rs' H _ W => s_write_coil_ok rs (fst x) (snd x) rs' H
                        (eq_trans (f_equal (s_write_coil rs) (eq_sym (surjective_pairing x))) W)) l rs) as K;
      destruct (s_write_all s_write_coil rs l) as [r [e|]] end;
    cbn [fst] in K; intros E; inversion E; subst; apply K; auto; apply Forall_forall; auto. }
  destruct (fc =? 16).
  { unfold s_multi_regs, s_exc. destruct data as [|a1 [|a0 [|q1 [|q0 [|bc [|p0 [|p1 payload]]]]]]]; try discriminate.
    cbv zeta. destruct (negb _); [intros E; inversion E; subst; auto|].
    destruct (negb _); [intros E; inversion E; subst; auto|].
    match goal with |- context [s_write_all s_write_reg rs ?l] =>
      pose proof (s_write_all_ok' s_write_reg (fun p => snd p < 65536)
                    (fun rs x rs' H Hv W => s_write_reg_ok rs (fst x) (snd x) rs' H Hv
                        (eq_trans (f_equal (s_write_reg rs) (eq_sym (surjective_pairing x))) W)) l rs) as K;
      destruct (s_write_all s_write_reg rs l) as [r [e|]] end;
    cbn [fst] in K; intros E; inversion E; subst; apply K; auto;
    (apply (Forall_combine_r (fun v => v < 65536)); apply words_lt; intros y Hy; apply (bytes_ok_in _ y Hd); cbn; auto 10). }
  unfold s_other, s_exc.
  repeat match goal with |- context [match ?x with _ => _ end] => destruct x end;
    intros E; inversion E; subst; auto.
Qed.
