(* C19: specification and case checker.  Four kinds of cases:
   0 session : a real modbus.Client talking to a real modbus.Server.Listen over an
               in-memory duplex (RTU or TCP framing), frames observed and possibly
               damaged on the wire, results of every client call, register file at the end;
   1 conv    : the conversions of data.go, both directions, bit for bit;
   2 bits    : the exported PDU.RespReadBits on arbitrary response PDUs (correspondence only);
   3 codec   : Transport.Encode / Decode on arbitrary PDUs and packets.
   bit 0: the model (Frames.v, Client.v, Conv.v, Pdu.v) predicts every observation;
   bit 1: the observations satisfy the specification written here, which does not
          use the model: own CRC, own frame layouts, the register-file view and the
          protocol specification of PduSpec.v.  No proofs in this file. *)
From Verif Require Import Base.Bytes Base.Val Modbus.Regs Modbus.Pdu Modbus.PduSpec Modbus.RtuCrc Modbus.Frames
  Modbus.Client Modbus.Conv.
Local Open Scope N_scope.

(* ================= specification side ================= *)

(* CRC-16/MODBUS, bit-serial over the message bits, least significant bit of each
   byte first (MODBUS over Serial Line V1.02, 2.5.1.2): generator 0xA001 reflected,
   preset 0xFFFF; the low byte is transmitted first *)
Definition s_crc_bit (crc : N) (b : bool) : N :=
  let fb := xorb (N.odd crc) b in
  let c := crc / 2 in
  if fb then N.lxor c 40961 else c.
Definition s_crc_byte (crc x : N) : N :=
  fold_left s_crc_bit (map (N.testbit x) [0; 1; 2; 3; 4; 5; 6; 7]) crc.
Definition s_crc (m : bytes) : N := fold_left s_crc_byte m 65535.

Definition s_rtu_frame (id : N) (p : pdu) : bytes :=
  let body := id :: fst p :: snd p in
  body ++ [s_crc body mod 256; s_crc body / 256].

Definition s_rtu_valid (f : bytes) : bool :=
  (4 <=? length f)%nat &&
  let n := (length f - 2)%nat in
  let body := firstn n f in
  bytes_eqb (skipn n f) [s_crc body mod 256; s_crc body / 256].

Definition s_rtu_parse (f : bytes) : option (N * pdu) :=
  if s_rtu_valid f then
    match f with
    | id :: fc :: rest => Some (id, (fc, firstn (length f - 4) rest))
    | _ => None
    end
  else None.

(* MBAP header: transaction id, protocol id 0, length = unit id + PDU, unit id *)
Definition s_tcp_frame (tx id : N) (p : pdu) : bytes :=
  let n := len (snd p) + 2 in
  [tx / 256; tx mod 256; 0; 0; n / 256; n mod 256; id; fst p] ++ snd p.

Definition s_tcp_txid (f : bytes) : N := word (nth 0 f 0) (nth 1 f 0).

Definition s_frame (t : tkind) (tx id : N) (p : pdu) : bytes :=
  match t with RTU => s_rtu_frame id p | TCP => s_tcp_frame tx id p end.

Definition is_tcp (t : tkind) : bool := match t with TCP => true | RTU => false end.

(* frames a receiver has to reject *)
Definition s_bad_for_server (t : tkind) (f : bytes) : bool :=
  match t with RTU => negb (s_rtu_valid f) | TCP => (length f <? 9)%nat end.
Definition s_bad_for_client (t : tkind) (tx : N) (f : bytes) : bool :=
  match t with
  | RTU => negb (s_rtu_valid f)
  | TCP => (length f <? 9)%nat || negb (s_tcp_txid f =? tx)
  end.

(* a read response of "short length": a well-framed answer to a read, with the function code asked for, whose payload
   is shorter than the byte count it announces (registers: whole registers of that count) *)
Definition s_resp_pdu (t : tkind) (g : bytes) : option pdu :=
  match t with
  | TCP => match skipn 7 g with fc :: d => Some (fc, d) | [] => None end
  | RTU => match s_rtu_parse g with Some (_, p) => Some p | None => None end
  end.
Definition s_short_read (t : tkind) (g : bytes) (k : N) (fc : N) : bool :=
  match s_resp_pdu t g with
  | Some (fc', d) =>
      (fc' =? fc) &&
      match d with
      | [] => true
      | n :: rest => if k <? 2 then (len rest <? n) else (len rest <? 2 * (n / 2))
      end
  | None => false
  end.

(* the calls of the client API: 0 ReadCoils 1 ReadDiscreteInputs 2 ReadHoldingRegs 3 ReadInputRegs
   4 WriteSingleCoil (arg 0/1) 5 WriteSingleReg *)
Definition s_request (k a b : N) : pdu :=
  let w v := [v / 256; v mod 256] in
  match k with
  | 0 => (1, w a ++ w b)
  | 1 => (2, w a ++ w b)
  | 2 => (3, w a ++ w b)
  | 3 => (4, w a ++ w b)
  | 4 => (5, w a ++ (if b =? 0 then [0; 0] else [255; 0]))
  | _ => (6, w a ++ w b)
  end.

(* what the call must return when request and response travel undamaged: the values the
   server holds, exactly [b] of them; None = an error *)
Definition b2n_list (l : list bool) : list N := map N.b2n l.

Definition s_expected (rs : regs) (k a b : N) : option (list N) * regs :=
  match k with
  | 0 | 1 =>
      (if between 1 b 2000 && (a + b <=? 65536)
       then match all_some (map (s_coil rs) (nseq a (N.to_nat b))) with
            | Some bits => Some (b2n_list bits) | None => None end
       else None, rs)
  | 2 | 3 =>
      (if between 1 b 125 && (a + b <=? 65536)
       then all_some (map (s_reg rs) (nseq a (N.to_nat b)))
       else None, rs)
  | 4 => match s_write_coil rs (a, negb (b =? 0)) with
         | inl rs' => (Some [], rs')
         | inr _ => (None, rs)
         end
  | _ => match s_write_reg rs (a, b) with
         | inl rs' => (Some [], rs')
         | inr _ => (None, rs)
         end
  end.

Record opc := {
  o_kind : N; o_id : N; o_addr : N; o_arg : N;
  o_req_sent : bytes;                (* what the client wrote *)
  o_req_deliv : option bytes;        (* what reached the server (None: lost) *)
  o_resp_sent : option bytes;        (* what the server wrote (None: nothing) *)
  o_resp_deliv : option bytes;       (* what reached the client *)
  o_class : N;                       (* 0 values returned, 1 error returned, 2 panic *)
  o_values : list N
}.

Definition obytes_eqb : option bytes -> option bytes -> bool := option_eqb bytes_eqb.
Definition list_n_eqb : list N -> list N -> bool := list_eqb N.eqb.

Inductive sres := SFail | SGiveUp | SNext (tx : N) (rs : regs).

Definition result_is (o : opc) (e : option (list N)) : bool :=
  match e with
  | Some vs => (o_class o =? 0) && list_n_eqb (o_values o) vs
  | None => o_class o =? 1
  end.

(* call 6: the harness itself hands a frame (any function code, up to the maximal size) to the
   server and collects the answer; the client is not involved *)
Definition spec_raw (t : tkind) (sid : N) (tx : N) (rs : regs) (o : opc) : sres :=
  let f := o_req_sent o in
  let parsed : option (N * N * pdu) :=                  (* transaction id, unit, PDU *)
    match t with
    | RTU => match s_rtu_parse f with Some (id, p) => Some (0, id, p) | None => None end
    | TCP => if (length f <? 9)%nat then None
             else Some (s_tcp_txid f, nth 6 f 0, (nth 7 f 0, skipn 8 f))
    end in
  let silent := obytes_eqb (o_resp_sent o) None && (o_class o =? 1) in
  if negb (obytes_eqb (o_req_deliv o) (Some f)) then SFail
  else match parsed with
       | None => if silent then SNext tx rs else SFail
       | Some (etx, id, p) =>
           if negb (id =? sid) then (if silent then SNext tx rs else SFail)
           else match spec rs (fst p) (snd p) with
                | Ok (_, resp, rs') =>
                    if obytes_eqb (o_resp_sent o) (Some (s_frame t etx sid resp))
                       && obytes_eqb (o_resp_deliv o) (o_resp_sent o) && (o_class o =? 0)
                    then SNext tx rs' else SFail
                | _ => if silent then SNext tx rs else SFail
                end
       end.

(* call 7: the application adds a register to the server's map while it is serving (Regs.AddReg(addr, 1)):
   a register that exists keeps its value, a new one holds 0; no frame travels *)
Definition add_reg (rs : regs) (a : N) : regs :=
  if existsb (fun r => r_addr r =? a) rs then rs else rs ++ [{| r_addr := a; r_val := 0; r_v := VNone |}].

Definition spec_op (t : tkind) (sid : N) (tx : N) (rs : regs) (o : opc) : sres :=
  if o_kind o =? 7 then SNext tx (add_reg rs (o_addr o)) else
  if o_kind o =? 6 then spec_raw t sid tx rs o else
  let tx' := if is_tcp t then (tx + 1) mod 65536 else tx in
  let req := s_request (o_kind o) (o_addr o) (o_arg o) in
  if negb (bytes_eqb (o_req_sent o) (s_frame t tx' (o_id o) req)) then SFail
  else
    (* does the server act on what it received, and under which transaction id? *)
    let acts : option (option N) :=            (* None = give up; Some None = must not act; Some (Some etx) = acts *)
      match o_req_deliv o with
      | None => Some None
      | Some f =>
          if bytes_eqb f (o_req_sent o) then Some (if o_id o =? sid then Some tx' else None)
          else if s_bad_for_server t f then Some None
          else if is_tcp t && bytes_eqb (skipn 2 f) (skipn 2 (o_req_sent o))
               then Some (if o_id o =? sid then Some (s_tcp_txid f) else None)
               else None
      end in
    match acts with
    | None => SGiveUp
    | Some None =>
        if obytes_eqb (o_resp_sent o) None && obytes_eqb (o_resp_deliv o) None && result_is o None
        then SNext tx' rs else SFail
    | Some (Some etx) =>
        match spec rs (fst req) (snd req) with
        | Ok (_, resp, _) =>
            let frame := s_frame t etx sid resp in
            if negb (obytes_eqb (o_resp_sent o) (Some frame)) then SFail
            else
              let '(e, rs') := s_expected rs (o_kind o) (o_addr o) (o_arg o) in
              match o_resp_deliv o with
              | None => if result_is o None then SNext tx' rs' else SFail
              | Some g =>
                  if bytes_eqb g frame && (negb (is_tcp t) || (etx =? tx'))
                  then (if result_is o e then SNext tx' rs' else SFail)
                  else if s_bad_for_client t tx' g
                       then (if result_is o None then SNext tx' rs' else SFail)
                       else if (o_kind o <? 4) && s_short_read t g (o_kind o) (fst req)
                       then (if result_is o None then SNext tx' rs' else SFail)   (* short length: rejected *)
                       else if (4 <=? o_kind o) && negb (result_is o None)
                       then SFail                    (* a write is confirmed only by the exact acknowledgement *)
                       else SNext tx' rs'            (* damage to a read response no receiver can detect: not constrained *)
              end
        | _ => SFail                                  (* a request built by the client is never unparsable *)
        end
    end.

Fixpoint spec_ops (t : tkind) (sid tx : N) (rs : regs) (ops : list opc) (after : list N) : bool :=
  match ops with
  | [] => list_n_eqb (reg_values rs) after
  | o :: ops' =>
      match spec_op t sid tx rs o with
      | SFail => false
      | SGiveUp => true
      | SNext tx' rs' => spec_ops t sid tx' rs' ops' after
      end
  end.

(* ================= model side ================= *)
Definition class_of {A} (r : outcome A) : N := match r with Ok _ => 0 | Err _ => 1 | Panic => 2 end.

Definition finish_op (o : opc) (r : outcome pdu) : outcome (list N) :=
  match o_kind o with
  | 0 => match finish_read_bits false 1 (o_arg o) r with Ok l => Ok (b2n_list l) | Err e => Err e | Panic => Panic end
  | 1 => match finish_read_bits true 2 (o_arg o) r with Ok l => Ok (b2n_list l) | Err e => Err e | Panic => Panic end
  | 2 => finish_read_regs 3 r
  | 3 => finish_read_regs 4 r
  | 4 => finish_write (req_write_coil_pdu (o_addr o) (negb (o_arg o =? 0))) r
  | _ => finish_write (req_pdu 6 (o_addr o) (o_arg o)) r
  end.

Definition model_request (o : opc) : pdu :=
  match o_kind o with
  | 0 => req_pdu 1 (o_addr o) (o_arg o)
  | 1 => req_pdu 2 (o_addr o) (o_arg o)
  | 2 => req_pdu 3 (o_addr o) (o_arg o)
  | 3 => req_pdu 4 (o_addr o) (o_arg o)
  | 4 => req_write_coil_pdu (o_addr o) (negb (o_arg o =? 0))
  | _ => req_pdu 6 (o_addr o) (o_arg o)
  end.

(* one call: client_send, the server on what was delivered, the client on what was delivered *)
Definition model_raw (t : tkind) (sid : N) (w : world) (o : opc) : option world :=
  match o_req_deliv o with
  | None => None
  | Some f =>
      match server_step t sid (w_stx w) (w_regs w) f with
      | Ok (stx', rs', resp) =>
          if obytes_eqb resp (o_resp_sent o) && obytes_eqb (o_resp_deliv o) resp
             && (o_class o =? match resp with Some _ => 0 | None => 1 end)
          then Some {| w_ctx := w_ctx w; w_stx := stx'; w_regs := rs' |} else None
      | _ => None
      end
  end.

Definition model_op (t : tkind) (sid : N) (w : world) (o : opc) : option world :=
  if o_kind o =? 7 then Some {| w_ctx := w_ctx w; w_stx := w_stx w; w_regs := add_reg (w_regs w) (o_addr o) |} else
  if o_kind o =? 6 then model_raw t sid w o else
  let '(ctx', pkt) := client_send t (w_ctx w) (o_id o) (model_request o) in
  if negb (bytes_eqb pkt (o_req_sent o)) then None
  else
    let srv := match o_req_deliv o with
               | None => Ok (w_stx w, w_regs w, None)
               | Some f => server_step t sid (w_stx w) (w_regs w) f
               end in
    match srv with
    | Ok (stx', rs', resp) =>
        if negb (obytes_eqb resp (o_resp_sent o)) then None
        else
          let r := finish_op o (recv_pdu t ctx' (o_resp_deliv o)) in
          if (class_of r =? o_class o)
             && match r with Ok vs => list_n_eqb vs (o_values o) | _ => true end
          then Some {| w_ctx := ctx'; w_stx := stx'; w_regs := rs' |} else None
    | _ => None
    end.

Fixpoint model_ops (t : tkind) (sid : N) (w : world) (ops : list opc) (after : list N) : bool :=
  match ops with
  | [] => list_n_eqb (reg_values (w_regs w)) after
  | o :: ops' => match model_op t sid w o with
                 | Some w' => model_ops t sid w' ops' after
                 | None => false
                 end
  end.

(* ================= cases ================= *)
Inductive case :=
| CSession (t : tkind) (sid : N) (rs : regs) (warm : N) (ops : list opc) (after : list N)
| CConv (fam : N) (swap : bool) (vals : list val) (regs1 : list N) (back : list val)
        (regs2 : list N) (vals2 : list val) (regs_back : list N)
| CBits (fc : N) (data : bytes) (cls : N) (values : list N)
| CCodec (t : tkind) (r : role) (tx : N) (enc : bool) (id fc : N) (data : bytes) (packet : bytes) (cls : N).

(* --- conversions --- *)
Definition val_eqb (a b : val) : bool :=
  match a, b with
  | VN x, VN y => x =? y
  | VZ x, VZ y => Z.eqb x y
  | VN x, VZ y | VZ y, VN x => Z.eqb (Z.of_N x) y
  | _, _ => false
  end.
Definition vals_eqb : list val -> list val -> bool := list_eqb val_eqb.
Definition vn (l : list N) : list val := map VN l.
Definition vz (l : list Z) : list val := map VZ l.
Definition as_n (l : list val) : list N := map (fun v => match v with VN n => n | VZ z => Z.to_N z | _ => 0 end) l.
Definition as_z (l : list val) : list Z := map (fun v => match v with VZ z => z | VN n => Z.of_N n | _ => 0%Z end) l.

Fixpoint drop_odd_tail {A} (l : list A) : list A :=
  match l with a :: b :: t => a :: b :: drop_odd_tail t | _ => [] end.

(* families: 0 uint32, 1 int32, 2 float32 bit patterns, 3 PutUint16Array/Uint16Array (vals = uint16s,
   regs = bytes), 4 RegsToInt16 (one direction only: regs2 -> vals2) *)
Definition conv_model_ok (fam : N) (swap : bool) vals regs1 back regs2 vals2 regs_back : bool :=
  match fam with
  | 0 | 2 =>
      list_n_eqb (u32_to_regs swap (as_n vals)) regs1 && vals_eqb (vn (regs_to_u32 swap regs1)) back
      && vals_eqb (vn (regs_to_u32 swap regs2)) vals2 && list_n_eqb (u32_to_regs swap (as_n vals2)) regs_back
  | 1 =>
      list_n_eqb (u32_to_regs swap (map of_int32 (as_z vals))) regs1
      && vals_eqb (vz (map to_int32 (regs_to_u32 swap regs1))) back
      && vals_eqb (vz (map to_int32 (regs_to_u32 swap regs2))) vals2
      && list_n_eqb (u32_to_regs swap (map of_int32 (as_z vals2))) regs_back
  | 3 =>
      list_n_eqb (PutUint16Array (as_n vals)) regs1 && vals_eqb (vn (Uint16Array regs1)) back
      && vals_eqb (vn (Uint16Array regs2)) vals2 && list_n_eqb (PutUint16Array (as_n vals2)) regs_back
  | _ =>
      vals_eqb (vz (RegsToInt16 regs2)) vals2
  end.

(* specification: the two directions are exact inverses (registers -> values -> registers for an
   even number of registers; a trailing odd register is dropped), nothing else *)
Definition conv_spec_ok (fam : N) (vals : list val) (regs1 : list N) (back : list val) (regs2 : list N) (vals2 : list val)
           (regs_back : list N) : bool :=
  match fam with
  | 0 | 1 | 2 | 3 =>
      vals_eqb back vals && (length regs1 =? 2 * length vals)%nat
      && list_n_eqb regs_back (drop_odd_tail regs2)
  | _ =>
      (* int16: the value is the register read as two's complement *)
      (length vals2 =? length regs2)%nat
      && forallb (fun p => match snd p with
                           | VZ z => Z.eqb (z mod 65536) (Z.of_N (fst p)) && Z.leb (-32768) z && Z.ltb z 32768
                           | VN n => (n =? fst p) && (n <? 32768)
                           | _ => false end) (combine regs2 vals2)
  end.

(* --- codec --- *)
Definition codec_model_ok t r tx (enc : bool) id fc data packet cls : bool :=
  if enc then bytes_eqb (snd (encode t r tx id (fc, data))) packet && (cls =? 0)
  else match decode t r tx packet with
       | Ok (_, (id', (fc', data'))) => (cls =? 0) && (id' =? id) && (fc' =? fc) && bytes_eqb data' data
       | Err _ => cls =? 1
       | Panic => cls =? 2
       end.

Definition codec_spec_ok t r tx (enc : bool) id fc data packet cls : bool :=
  if enc then
    let tx' := match t, r with TCP, Client => (tx + 1) mod 65536 | _, _ => tx end in
    (cls =? 0) && bytes_eqb packet (s_frame t tx' id (fc, data))
  else
    let bad := match r with Client => s_bad_for_client t tx packet | Server => s_bad_for_server t packet end in
    if bad then cls =? 1
    else match t with
         | RTU => match s_rtu_parse packet with
                  | Some (id', (fc', data')) => (cls =? 0) && (id' =? id) && (fc' =? fc) && bytes_eqb data' data
                  | None => false
                  end
         | TCP => (cls =? 0) && (nth 6 packet 0 =? id) && (nth 7 packet 0 =? fc) && bytes_eqb (skipn 8 packet) data
         end.

Definition bits_model_ok fc data cls values : bool :=
  let r := resp_read_bits_exported (fc, data) in
  (class_of r =? cls) && match r with Ok l => list_n_eqb (b2n_list l) values | _ => true end.

Definition check_case (c : case) : N :=
  match c with
  | CSession t sid rs warm ops after =>
      let pre := regs_okb rs && byte_ok sid in
      let tx0 := if is_tcp t then warm mod 65536 else 0 in
      code (pre && model_ops t sid {| w_ctx := tx0; w_stx := tx0; w_regs := rs |} ops after)
           (pre && spec_ops t sid tx0 rs ops after)
  | CConv fam swap vals regs1 back regs2 vals2 regs_back =>
      code (conv_model_ok fam swap vals regs1 back regs2 vals2 regs_back)
           (conv_spec_ok fam vals regs1 back regs2 vals2 regs_back)
  | CBits fc data cls values => code (bits_model_ok fc data cls values) true
  | CCodec t r tx enc id fc data packet cls =>
      code (codec_model_ok t r tx enc id fc data packet cls) (codec_spec_ok t r tx enc id fc data packet cls)
  end.

(* ================= decoding ================= *)
Definition tkind_of (n : N) : tkind := if n =? 0 then RTU else TCP.
Definition role_of (n : N) : role := if n =? 0 then Client else Server.

Definition op_of_val (v : val) : option opc :=
  match v with
  | VL [VN k; VN id; VN a; VN b; VB rs; rd; ps; pd; VN cls; vals] =>
      rd <- get_opt get_b rd ;; ps <- get_opt get_b ps ;; pd <- get_opt get_b pd ;;
      vals <- get_list get_n vals ;;
      Some {| o_kind := k; o_id := id; o_addr := a; o_arg := b; o_req_sent := rs; o_req_deliv := rd;
              o_resp_sent := ps; o_resp_deliv := pd; o_class := cls; o_values := vals |}
  | _ => None
  end.

Definition scalar_of_val (v : val) : option val :=
  match v with VN _ | VZ _ => Some v | _ => None end.

Definition case_of_val (v : val) : option case :=
  match v with
  | VL [VN 0; VN t; VN sid; rs; VN warm; ops; after] =>
      rs <- get_list reg_of_val rs ;; ops <- get_list op_of_val ops ;; after <- get_list get_n after ;;
      Some (CSession (tkind_of t) sid rs warm ops after)
  | VL [VN 1; VN fam; sw; vals; regs1; back; regs2; vals2; regs_back] =>
      sw <- get_bool sw ;;
      vals <- get_list scalar_of_val vals ;; regs1 <- get_list get_n regs1 ;; back <- get_list scalar_of_val back ;;
      regs2 <- get_list get_n regs2 ;; vals2 <- get_list scalar_of_val vals2 ;; regs_back <- get_list get_n regs_back ;;
      Some (CConv fam sw vals regs1 back regs2 vals2 regs_back)
  | VL [VN 2; VN fc; VB data; VN cls; values] =>
      values <- get_list get_n values ;; Some (CBits fc data cls values)
  | VL [VN 3; VN t; VN r; VN tx; enc; VN id; VN fc; VB data; VB packet; VN cls] =>
      enc <- get_bool enc ;; Some (CCodec (tkind_of t) (role_of r) tx enc id fc data packet cls)
  | _ => None
  end.

Definition check_val : val -> N := check_with case_of_val check_case.
