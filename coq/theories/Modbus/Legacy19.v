(* C19: the client as pinned (before the repair): ReadCoils / ReadDiscreteInputs
   decode with the exported RespReadBits and every read buffer holds 200 bytes.
   Witnesses that refute C19_read_agrees for it. *)
From Verif Require Import Base.Bytes Modbus.Regs Modbus.Pdu Modbus.PduSpec Modbus.RtuCrc Modbus.Frames Modbus.Client.
Local Open Scope N_scope.

Definition legacy_trunc (b : bytes) : bytes := firstn 200 b.

Definition legacy_recv_pdu (t : tkind) (ctx : N) (rx : option bytes) : outcome pdu :=
  match rx with
  | None => Err 5
  | Some b => match decode t Client ctx (legacy_trunc b) with
              | Ok (_, (_, p)) => Ok p
              | Err e => Err e
              | Panic => Panic
              end
  end.

Definition legacy_call {A} (t : tkind) (sid : N) (w : world) (id : N) (req : pdu)
           (finish : outcome pdu -> outcome A) : outcome (world * outcome A) :=
  let '(ctx', pkt) := client_send t (w_ctx w) id req in
  match server_step t sid (w_stx w) (w_regs w) pkt with
  | Ok (stx', rs', resp) =>
      Ok ({| w_ctx := ctx'; w_stx := stx'; w_regs := rs' |}, finish (legacy_recv_pdu t ctx' resp))
  | Err e => Err e
  | Panic => Panic
  end.

Definition legacy_finish_read_bits (r : outcome pdu) : outcome (list bool) :=
  match r with Ok resp => resp_read_bits_exported resp | Err e => Err e | Panic => Panic end.

Definition legacy_read_coils t sid w id addr count :=
  legacy_call t sid w id (req_pdu 1 addr count) legacy_finish_read_bits.
Definition legacy_read_holding_regs t sid w id addr count :=
  legacy_call t sid w id (req_pdu 3 addr count) (finish_read_regs 3).

Definition dense (n : nat) : regs :=
  map (fun i => {| r_addr := N.of_nat i; r_val := 4660; r_v := VNone |}) (seq 0 n).

Definition w0 (rs : regs) : world := {| w_ctx := 0; w_stx := 0; w_regs := rs |}.

(* 12 coils are answered with byte count 2; the exported decoder returns 2 values *)
Theorem legacy_12_coils_2_values :
  exists w', legacy_read_coils RTU 1 (w0 (dense 1)) 1 0 12 = Ok (w', Ok [false; false]) /\
             served_bits (dense 1) 0 12 =
               Some [false; false; true; false; true; true; false; false; false; true; false; false].
Proof. eexists. split; vm_compute; reflexivity. Qed.

(* a byte count larger than the data: index out of range *)
Theorem legacy_short_response_panics : resp_read_bits_exported (1, [20; 1]) = Panic.
Proof. vm_compute. reflexivity. Qed.

(* 125 registers: the 255-byte RTU response is cut to 200 bytes and fails the CRC check *)
Theorem legacy_125_regs_fail :
  exists w', legacy_read_holding_regs RTU 1 (w0 (dense 125)) 1 0 125 = Ok (w', Err 3).
Proof. eexists. vm_compute. reflexivity. Qed.

Theorem C19_current_refuted :
  exists t sid w a q bits w' got,
    served_bits (w_regs w) a q = Some bits /\
    legacy_read_coils t sid w sid a q = Ok (w', Ok got) /\ length got <> N.to_nat q.
Proof.
  exists RTU, 1, (w0 (dense 1)), 0, 12. do 3 eexists.
  split; [vm_compute; reflexivity|]. split; [vm_compute; reflexivity|]. vm_compute. discriminate.
Qed.
