(* A register map that grows while the server is serving (Regs.AddReg, call 7 of the C19 sessions): adding a
   register never changes what any register already in the map holds, and a register that is new holds 0. *)
From Coq Require Import List NArith Bool Lia.
From Verif Require Import Base.Bytes Base.Val Modbus.Regs Modbus.Pdu Modbus.PduSpec Modbus.RtuCrc Modbus.Frames Modbus.Client Modbus.C19Check.
Import ListNotations.
Local Open Scope N_scope.

Lemma read_reg_app_l rs rs' x v : read_reg rs x = Some v -> read_reg (rs ++ rs') x = Some v.
Proof.
  induction rs as [|r rs IH]; cbn [read_reg app]; [discriminate|].
  destruct (r_addr r =? u16 x); [trivial|apply IH].
Qed.

Lemma read_reg_none_exists rs x : read_reg rs x = None <-> existsb (fun r => r_addr r =? u16 x) rs = false.
Proof.
  induction rs as [|r rs IH]; cbn [read_reg existsb]; [tauto|].
  destruct (r_addr r =? u16 x); cbn [orb]; [split; discriminate|exact IH].
Qed.

Lemma read_reg_app_r rs rs' x : read_reg rs x = None -> read_reg (rs ++ rs') x = read_reg rs' x.
Proof.
  induction rs as [|r rs IH]; cbn [read_reg app]; [trivial|].
  destruct (r_addr r =? u16 x); [discriminate|apply IH].
Qed.

(* every address: what a register already in the map holds is unchanged; the added one, when new, reads 0;
   nothing else appears *)
Theorem add_reg_reads rs a x :
  read_reg (add_reg rs a) x =
  match read_reg rs x with
  | Some v => Some v
  | None => if a =? u16 x then Some 0 else None
  end.
Proof.
  unfold add_reg. destruct (existsb (fun r => r_addr r =? a) rs) eqn:E.
  - destruct (read_reg rs x) eqn:R; [reflexivity|]. destruct (a =? u16 x) eqn:Eq; [|reflexivity].
    apply N.eqb_eq in Eq. subst a. apply read_reg_none_exists in R. rewrite R in E. discriminate.
  - destruct (read_reg rs x) eqn:R.
    + apply read_reg_app_l, R.
    + rewrite (read_reg_app_r _ _ _ R). cbn [read_reg r_addr r_val]. destruct (a =? u16 x); reflexivity.
Qed.

(* coils are bits of registers: the same holds for them *)
Corollary add_reg_coils rs a n : read_reg rs (n / 16) <> None ->
  read_coil (add_reg rs a) n = read_coil rs n.
Proof.
  intros H. unfold read_coil. rewrite add_reg_reads. destruct (read_reg rs (n / 16)); [reflexivity|contradiction].
Qed.
