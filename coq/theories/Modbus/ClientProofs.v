(* C19 proofs: RTU / TCP framing round trips and rejections, the CRC fits 16
   bits, one client call through the server (Server.Listen iteration) and back,
   agreement of every read with what the server holds, write-then-read. *)
From Verif Require Import Base.Bytes Modbus.Regs Modbus.Pdu Modbus.PduSpec Modbus.BitsProofs Modbus.PduProofs
  Modbus.RtuCrc Modbus.Frames Modbus.Client.
From Coq Require Import ZifyN ZifyNat ZifyBool.
Ltac Zify.zify_post_hook ::= Z.div_mod_to_equations.
Local Open Scope N_scope.

(* ================= CRC: the value fits 16 bits ================= *)
Lemma lxor_lt16 a b : a < 65536 -> b < 65536 -> N.lxor a b < 65536.
Proof.
  intros Ha Hb. apply bits_lt16. intros m Hm. rewrite N.lxor_spec, !testbit_high by assumption. reflexivity.
Qed.

Lemma lor_lt16 a b : a < 65536 -> b < 65536 -> N.lor a b < 65536.
Proof.
  intros Ha Hb. apply bits_lt16. intros m Hm. rewrite N.lor_spec, !testbit_high by assumption. reflexivity.
Qed.

Lemma crc_shift_lt : forall n c, c < 65536 -> crc_shift n c < 65536.
Proof.
  induction n as [|n IH]; intros c Hc; [exact Hc|]. cbn [crc_shift]. apply IH.
  assert (H1 : N.shiftr c 1 < 65536) by (rewrite N.shiftr_div_pow2; change (2 ^ 1) with 2; lia).
  destruct (N.odd c); [apply lxor_lt16; [exact H1|lia]|exact H1].
Qed.

Lemma crc_raw_lt buf : bytes_ok buf = true -> crc_raw buf < 65536.
Proof.
  unfold crc_raw. intros Hb. assert (H : (65535 : N) < 65536) by lia. revert H. generalize 65535.
  induction buf as [|b buf IH]; intros c Hc; [exact Hc|]. cbn [fold_left].
  assert (Hb0 : b < 256) by (eapply bytes_ok_in; [exact Hb|left; reflexivity]).
  apply IH.
  - unfold bytes_ok in *. cbn [forallb] in Hb. apply andb_true_iff in Hb. tauto.
  - unfold crc_byte. apply crc_shift_lt. apply lxor_lt16; [exact Hc|lia].
Qed.

Lemma rtu_crc_lt buf : bytes_ok buf = true -> rtu_crc buf < 65536.
Proof.
  intros Hb. unfold rtu_crc. pose proof (crc_raw_lt buf Hb) as Hc. apply lor_lt16.
  - rewrite N.shiftr_div_pow2. change (2 ^ 8) with 256. lia.
  - apply N.mod_upper_bound. lia.
Qed.

(* ================= RTU framing ================= *)
Lemma be16_hi_lo v : v < 65536 -> be16 (hi8 v) (lo8 v) = v.
Proof. intros H. unfold be16, hi8, lo8. lia. Qed.

Lemma skipn_app_exact {A} (l r : list A) : skipn (length l) (l ++ r) = r.
Proof. induction l; cbn; auto. Qed.

Lemma firstn_app_exact {A} (l r : list A) : firstn (length l) (l ++ r) = l.
Proof. induction l; cbn; [reflexivity|f_equal; auto]. Qed.

Definition pdu_ok (p : pdu) : Prop := fst p < 256 /\ bytes_ok (snd p) = true.

Lemma bytes_ok_cons x l : bytes_ok (x :: l) = true <-> x < 256 /\ bytes_ok l = true.
Proof. unfold bytes_ok, byte_ok. cbn [forallb]. rewrite andb_true_iff. split; intros [H1 H2]; split; auto; lia. Qed.

Theorem rtu_roundtrip id p : id < 256 -> pdu_ok p -> rtu_decode (rtu_encode id p) = Ok (id, p).
Proof.
  intros Hid [Hfc Hd]. destruct p as [fc data]. cbn [fst snd] in *.
  unfold rtu_encode, rtu_decode, check_rtu_crc. cbn [fst snd].
  set (body := id :: fc :: data). set (crc := rtu_crc body).
  assert (Hcrc : crc < 65536).
  { apply rtu_crc_lt. unfold body. apply bytes_ok_cons. split; [exact Hid|]. apply bytes_ok_cons. auto. }
  assert (Hlen : length (body ++ [hi8 crc; lo8 crc]) = (length body + 2)%nat) by (rewrite app_length; reflexivity).
  rewrite Hlen. replace (length body + 2 - 2)%nat with (length body) by lia.
  assert (L4 : (length body + 2 <? 4)%nat = false) by (apply Nat.ltb_ge; unfold body; cbn [length]; lia).
  rewrite L4. rewrite skipn_app_exact, firstn_app_exact. fold crc.
  rewrite be16_hi_lo by exact Hcrc. rewrite N.eqb_refl.
  unfold body at 1. cbn [app]. f_equal. f_equal. f_equal.
  replace (length body + 2 - 4)%nat with (length data) by (unfold body; cbn [length]; lia).
  apply firstn_app_exact.
Qed.

Theorem rtu_short_rejected packet : (length packet < 4)%nat -> rtu_decode packet = Err 2.
Proof.
  intros H. unfold rtu_decode, check_rtu_crc. apply Nat.ltb_lt in H. rewrite H. reflexivity.
Qed.

Theorem rtu_bad_crc_rejected body c1 c0 :
  (2 <= length body)%nat -> be16 c1 c0 <> rtu_crc body -> rtu_decode (body ++ [c1; c0]) = Err 3.
Proof.
  intros Hl Hne. unfold rtu_decode, check_rtu_crc. rewrite app_length. cbn [length].
  replace (length body + 2 <? 4)%nat with false by (symmetry; apply Nat.ltb_ge; lia).
  replace (length body + 2 - 2)%nat with (length body) by lia.
  rewrite skipn_app_exact, firstn_app_exact.
  replace (rtu_crc body =? be16 c1 c0) with false by (symmetry; apply N.eqb_neq; auto). reflexivity.
Qed.

(* every packet RTU.Decode accepts carries the CRC of its body *)
Theorem rtu_accepts_only_valid packet id p :
  rtu_decode packet = Ok (id, p) ->
  exists body c1 c0, packet = body ++ [c1; c0] /\ (2 <= length body)%nat /\ be16 c1 c0 = rtu_crc body.
Proof.
  unfold rtu_decode, check_rtu_crc. destruct (Nat.ltb_spec (length packet) 4) as [H|H]; [discriminate|].
  set (n := (length packet - 2)%nat).
  destruct (skipn n packet) as [|c1 [|c0 [|x t]]] eqn:S; try discriminate.
  destruct (N.eqb_spec (rtu_crc (firstn n packet)) (be16 c1 c0)) as [E|E]; [|discriminate].
  intros _. exists (firstn n packet), c1, c0. split; [|split].
  - rewrite <- S. symmetry. apply firstn_skipn.
  - rewrite firstn_length. lia.
  - auto.
Qed.

(* ================= TCP framing ================= *)
Theorem tcp_roundtrip_to_server ctx stx id p :
  ctx < 65536 -> snd p <> [] ->
  tcp_decode Server stx (snd (tcp_encode Client ctx id p)) = Ok ((ctx + 1) mod 65536, (id, p)).
Proof.
  intros Hc Hd. destruct p as [fc data]. cbn [fst snd] in *. destruct data as [|d0 rest]; [contradiction|].
  unfold tcp_encode, tcp_decode. cbn [fst snd app]. rewrite be16_hi_lo by lia. reflexivity.
Qed.

Theorem tcp_roundtrip_to_client tx id p :
  tx < 65536 -> snd p <> [] ->
  tcp_decode Client tx (snd (tcp_encode Server tx id p)) = Ok (tx, (id, p)).
Proof.
  intros Hc Hd. destruct p as [fc data]. cbn [fst snd] in *. destruct data as [|d0 rest]; [contradiction|].
  unfold tcp_encode, tcp_decode. cbn [fst snd app]. rewrite be16_hi_lo by lia. rewrite N.eqb_refl. reflexivity.
Qed.

Theorem tcp_short_rejected r tx packet : (length packet < 9)%nat -> tcp_decode r tx packet = Err 2.
Proof.
  intros H. unfold tcp_decode.
  do 9 (destruct packet as [|? packet]; [reflexivity|]). cbn [length] in H. lia.
Qed.

Theorem tcp_txid_mismatch_rejected tx t1 t0 rest :
  (7 <= length rest)%nat -> be16 t1 t0 <> tx -> tcp_decode Client tx (t1 :: t0 :: rest) = Err 4.
Proof.
  intros Hl Hne. unfold tcp_decode.
  do 7 (destruct rest as [|? rest]; [cbn [length] in Hl; lia|]).
  replace (be16 t1 t0 =? tx) with false by (symmetry; apply N.eqb_neq; auto). reflexivity.
Qed.
(* ================= one call through the server ================= *)

Lemma trunc_id b : (length b <= 260)%nat -> trunc b = b.
Proof. intros H. unfold trunc, buf_size. apply firstn_all2. exact H. Qed.

Lemma encode_length t r tx id p : (length (snd (encode t r tx id p)) <= length (snd p) + 8)%nat.
Proof.
  destruct t; cbn [encode snd].
  - unfold rtu_encode. rewrite app_length. cbn [length]. lia.
  - unfold tcp_encode. cbn [snd]. rewrite app_length. cbn [length]. lia.
Qed.

Lemma encode_nonempty t r tx id p : snd (encode t r tx id p) <> [].
Proof. destruct t; cbn; discriminate. Qed.

Lemma encode_client_tx t ctx id p : fst (encode t Client ctx id p) = next_tx t ctx.
Proof. destruct t; reflexivity. Qed.

Lemma encode_server_tx t tx id p : fst (encode t Server tx id p) = tx.
Proof. destruct t; reflexivity. Qed.

Lemma decode_encode_server t ctx stx id p :
  id < 256 -> pdu_ok p -> snd p <> [] -> ctx < 65536 ->
  decode t Server stx (snd (encode t Client ctx id p)) =
    Ok (match t with RTU => stx | TCP => (ctx + 1) mod 65536 end, (id, p)).
Proof.
  intros Hid Hp Hne Hc. destruct t; cbn [decode encode snd].
  - rewrite rtu_roundtrip by assumption. reflexivity.
  - apply tcp_roundtrip_to_server; assumption.
Qed.

Lemma decode_encode_client t tx id p :
  id < 256 -> pdu_ok p -> snd p <> [] -> tx < 65536 ->
  decode t Client tx (snd (encode t Server tx id p)) = Ok (tx, (id, p)).
Proof.
  intros Hid Hp Hne Hc. destruct t; cbn [decode encode snd].
  - rewrite rtu_roundtrip by assumption. reflexivity.
  - apply tcp_roundtrip_to_client; assumption.
Qed.

Lemma server_step_eq t sid stx rs rx :
  trunc rx <> [] ->
  server_step t sid stx rs rx =
    match decode t Server stx (trunc rx) with
    | Err _ => Ok (stx, rs, None)
    | Panic => Panic
    | Ok (stx', (id, req)) =>
        if negb (id =? sid) then Ok (stx', rs, None)
        else match process_request rs (fst req) (snd req) with
             | Ok (_, resp, rs') => let '(stx'', pkt) := encode t Server stx' sid resp in Ok (stx'', rs', Some pkt)
             | Err _ => Ok (stx', rs, None)
             | Panic => Panic
             end
    end.
Proof. unfold server_step. destruct (trunc rx); [contradiction|reflexivity]. Qed.

(* the request reaches the server, is answered with [resp], and the answer reaches the client *)
Lemma call_ok {A} t sid w (req : pdu) (finish : outcome pdu -> outcome A) ch resp rs' :
  sid < 256 -> pdu_ok req -> snd req <> [] -> (length (snd req) <= 252)%nat -> w_ctx w < 65536 ->
  process_request (w_regs w) (fst req) (snd req) = Ok (ch, resp, rs') ->
  pdu_ok resp -> snd resp <> [] -> (length (snd resp) <= 252)%nat ->
  call t sid w sid req finish =
    Ok ({| w_ctx := next_tx t (w_ctx w); w_stx := next_stx t w; w_regs := rs' |}, finish (Ok resp)).
Proof.
  intros Hsid Hreq Hne Hlen Hctx Hp Hresp Hrne Hrlen. unfold call, client_send.
  destruct (encode t Client (w_ctx w) sid req) as [ctx' pkt] eqn:E.
  assert (Ec : ctx' = next_tx t (w_ctx w)) by (rewrite <- (encode_client_tx t (w_ctx w) sid req), E; reflexivity).
  assert (Ep : pkt = snd (encode t Client (w_ctx w) sid req)) by (rewrite E; reflexivity).
  assert (Tp : trunc pkt = pkt).
  { apply trunc_id. rewrite Ep. pose proof (encode_length t Client (w_ctx w) sid req). lia. }
  rewrite server_step_eq by (rewrite Tp, Ep; apply encode_nonempty).
  rewrite Tp, Ep, decode_encode_server by assumption.
  rewrite N.eqb_refl. cbn [negb]. rewrite Hp.
  set (stx' := match t with RTU => w_stx w | TCP => (w_ctx w + 1) mod 65536 end).
  destruct (encode t Server stx' sid resp) as [stx'' rpkt] eqn:E2.
  assert (Es : stx'' = stx') by (rewrite <- (encode_server_tx t stx' sid resp), E2; reflexivity).
  assert (Er : rpkt = snd (encode t Server stx' sid resp)) by (rewrite E2; reflexivity).
  subst stx''. f_equal. f_equal.
  - subst ctx'. unfold next_stx. reflexivity.
  - f_equal. unfold recv_pdu.
    assert (Tr : trunc rpkt = rpkt).
    { apply trunc_id. rewrite Er. pose proof (encode_length t Server stx' sid resp). lia. }
    rewrite Tr, Er.
    destruct t.
    + cbn [decode encode snd]. rewrite rtu_roundtrip by assumption. reflexivity.
    + subst ctx'. unfold stx', next_tx. rewrite decode_encode_client; [reflexivity|assumption|assumption|assumption|].
      apply N.mod_upper_bound. lia.
Qed.
(* ================= the requests the client builds ================= *)
Lemma hi8_lt v : hi8 v < 256. Proof. unfold hi8. apply N.mod_upper_bound. lia. Qed.
Lemma lo8_lt v : lo8 v < 256. Proof. unfold lo8. apply N.mod_upper_bound. lia. Qed.

Lemma req_pdu_data fc a b : snd (req_pdu fc a b) = [hi8 a; lo8 a; hi8 b; lo8 b].
Proof. reflexivity. Qed.

Lemma req_pdu_ok fc a b : fc < 256 -> pdu_ok (req_pdu fc a b).
Proof.
  intros H. split; [exact H|]. rewrite req_pdu_data.
  repeat (apply bytes_ok_cons; split; [first [apply hi8_lt|apply lo8_lt]|]). reflexivity.
Qed.

Lemma word_hi_lo v : v < 65536 -> word (hi8 v) (lo8 v) = v.
Proof. intros H. unfold word, hi8, lo8. lia. Qed.

Lemma bytes_ok_nth l : (forall j, nth j l 0 < 256) -> bytes_ok l = true.
Proof.
  induction l as [|x l IH]; intros H; [reflexivity|]. apply bytes_ok_cons. split; [apply (H 0%nat)|].
  apply IH. intros j. apply (H (S j)).
Qed.

Lemma nth_tl {A} (l : list A) k d : nth k (tl l) d = nth (S k) l d.
Proof. destruct l; [destruct k; reflexivity|reflexivity]. Qed.

(* ================= decoding a bit response ================= *)
Lemma bits_loop_spec data : forall n i,
  (forall j, (j < n)%nat -> (N.to_nat (1 + (i + N.of_nat j) / 8) < length data)%nat) ->
  bits_loop data n i = Ok (map (unpack_bit (tl data)) (seq (N.to_nat i) n)).
Proof.
  induction n as [|n IH]; intros i Hlen; [reflexivity|]. cbn [bits_loop seq map].
  assert (H0 : (N.to_nat (1 + i / 8) < length data)%nat).
  { specialize (Hlen 0%nat). replace (i + N.of_nat 0) with i in Hlen by lia. apply Hlen. lia. }
  rewrite (nth_error_nth' data 0 H0). rewrite IH.
  - replace (N.to_nat (i + 1)) with (S (N.to_nat i)) by lia. f_equal. f_equal.
    rewrite land_shiftr_test. unfold unpack_bit. rewrite nth_tl. f_equal; [f_equal|]; lia.
  - intros j Hj. specialize (Hlen (S j)). replace (i + 1 + N.of_nat j) with (i + N.of_nat (S j)) by lia.
    apply Hlen. lia.
Qed.

Lemma resp_read_bits_count_ok fc q bits :
  (fc = 1 \/ fc = 2) -> length bits = N.to_nat q -> q <= 2000 ->
  resp_read_bits_count (fc, (q + 7) / 8 :: pack_bits bits) q = Ok bits.
Proof.
  intros Hfc Hl Hq. unfold resp_read_bits_count. cbn [fst snd].
  replace ((fc =? 1) || (fc =? 2)) with true by (destruct Hfc; subst; reflexivity). cbn [negb].
  rewrite N.eqb_refl. cbn [negb orb]. rewrite len_cons. unfold len. rewrite pack_bits_length, Hl.
  replace (1 + N.of_nat ((N.to_nat q + 7) / 8) <? 1 + (q + 7) / 8) with false by (symmetry; apply N.ltb_ge; lia).
  rewrite bits_loop_spec.
  - cbn [tl N.to_nat]. rewrite <- Hl. fold (unpack_bits (pack_bits bits) (length bits)). rewrite unpack_bits_pack. reflexivity.
  - intros j Hj. cbn [length]. rewrite pack_bits_length, Hl. lia.
Qed.

(* ================= decoding a register response ================= *)
Lemma regs_loop_spec pre : forall vs i,
  length pre = N.to_nat (1 + i * 2) -> Forall (fun v => v < 65536) vs ->
  forall post, regs_loop (pre ++ flat_map word_bytes vs ++ post) (length vs) i = Ok vs.
Proof.
  intros vs. revert pre. induction vs as [|v vs IH]; intros pre i Hl Hv post; [reflexivity|].
  inversion Hv as [|? ? Hv0 Hv']; subst. cbn [length regs_loop flat_map word_bytes app].
  replace (N.to_nat (1 + i * 2 + 1)) with (S (N.to_nat (1 + i * 2))) by lia. rewrite <- Hl.
  rewrite (nth_error_app2 pre _ (Nat.le_refl (length pre))).
  rewrite (nth_error_app2 pre _ (Nat.le_succ_diag_r (length pre))).
  rewrite Nat.sub_diag. replace (S (length pre) - length pre)%nat with 1%nat by lia. cbn [nth_error].
  change (pre ++ v / 256 :: v mod 256 :: flat_map word_bytes vs ++ post)
    with (pre ++ [v / 256; v mod 256] ++ flat_map word_bytes vs ++ post).
  rewrite app_assoc. rewrite IH; [|rewrite app_length, Hl; cbn [length]; lia|exact Hv'].
  f_equal. f_equal. unfold be16. lia.
Qed.

Lemma flat_map_word_bytes_length vs : length (flat_map word_bytes vs) = (2 * length vs)%nat.
Proof. induction vs as [|v vs IH]; [reflexivity|]. cbn [flat_map app length word_bytes]. rewrite IH. lia. Qed.

Lemma resp_read_regs_ok fc q vs :
  (fc = 3 \/ fc = 4) -> length vs = N.to_nat q -> 1 <= q <= 125 -> Forall (fun v => v < 65536) vs ->
  resp_read_regs (fc, 2 * q :: flat_map word_bytes vs) = Ok vs.
Proof.
  intros Hfc Hl Hq Hv. unfold resp_read_regs. cbn [fst snd]. rewrite len_cons. unfold len.
  rewrite flat_map_word_bytes_length, Hl.
  replace (1 + N.of_nat (2 * N.to_nat q) <? 2) with false by (symmetry; apply N.ltb_ge; lia).
  replace ((fc =? 3) || (fc =? 4)) with true by (destruct Hfc; subst; reflexivity). cbn [negb].
  replace ((2 * q) mod 256 / 2) with q by lia.
  replace (1 + N.of_nat (2 * N.to_nat q) <? 1 + q * 2) with false by (symmetry; apply N.ltb_ge; lia).
  rewrite <- Hl. pose proof (regs_loop_spec [2 * q] vs 0) as L. cbn [app] in L.
  specialize (L eq_refl Hv []). rewrite app_nil_r in L. exact L.
Qed.
(* ================= what the server holds ================= *)
Lemma spec_read_bits rs fc a q : (fc = 1 \/ fc = 2) -> a < 65536 -> q < 65536 ->
  spec rs fc [hi8 a; lo8 a; hi8 q; lo8 q] =
    match served_bits rs a q with
    | Some bits => Ok (false, (fc, (q + 7) / 8 :: pack_bits bits), rs)
    | None => s_exc rs fc (if between 1 q 2000 then 2 else 3)
    end.
Proof.
  intros Hfc Ha Hq. unfold spec.
  replace ((fc =? 1) || (fc =? 2)) with true by (destruct Hfc; subst; reflexivity).
  unfold s_read_bits, served_bits. rewrite !word_hi_lo by assumption.
  destruct (between 1 q 2000); cbn [negb andb]; [|reflexivity].
  destruct (a + q <=? 65536); cbn [negb]; [|reflexivity].
  destruct (all_some _); reflexivity.
Qed.

Lemma spec_read_regs rs fc a q : (fc = 3 \/ fc = 4) -> a < 65536 -> q < 65536 ->
  spec rs fc [hi8 a; lo8 a; hi8 q; lo8 q] =
    match served_regs rs a q with
    | Some vs => Ok (false, (fc, 2 * q :: flat_map word_bytes vs), rs)
    | None => s_exc rs fc (if between 1 q 125 then 2 else 3)
    end.
Proof.
  intros Hfc Ha Hq. unfold spec.
  replace ((fc =? 1) || (fc =? 2)) with false by (destruct Hfc; subst; reflexivity).
  replace ((fc =? 3) || (fc =? 4)) with true by (destruct Hfc; subst; reflexivity).
  unfold s_read_regs, served_regs. rewrite !word_hi_lo by assumption.
  destruct (between 1 q 125); cbn [negb andb]; [|reflexivity].
  destruct (a + q <=? 65536); cbn [negb]; [|reflexivity].
  destruct (all_some _); reflexivity.
Qed.

Lemma served_bits_length rs a q bits : served_bits rs a q = Some bits -> length bits = N.to_nat q /\ 1 <= q <= 2000.
Proof.
  unfold served_bits, between. destruct (N.leb_spec 1 q); [|discriminate]. destruct (N.leb_spec q 2000); [|discriminate].
  cbn [andb]. destruct (a + q <=? 65536); [|discriminate]. intros HS. apply all_some_length in HS.
  rewrite map_length, nseq_length in HS. split; [exact HS|lia].
Qed.

Lemma served_regs_length rs a q vs :
  rs_ok rs -> served_regs rs a q = Some vs ->
  length vs = N.to_nat q /\ 1 <= q <= 125 /\ Forall (fun v => v < 65536) vs.
Proof.
  intros Hok. unfold served_regs, between. destruct (N.leb_spec 1 q); [|discriminate]. destruct (N.leb_spec q 125); [|discriminate].
  cbn [andb]. destruct (a + q <=? 65536); [|discriminate]. intros HS. split; [|split; [lia|]].
  - apply all_some_length in HS. rewrite map_length, nseq_length in HS. exact HS.
  - eapply all_some_forall; [|exact HS]. intros x v Hin ->. apply in_map_iff in Hin.
    destruct Hin as (ad & E & _). eapply s_reg_lt; eassumption.
Qed.

Lemma exc_resp_ok fc e : fc < 128 -> e < 256 -> pdu_ok (fc + 128, [e]).
Proof.
  intros Hfc He. split; cbn [fst snd]; [lia|]. apply bytes_ok_cons. split; [exact He|reflexivity].
Qed.

(* ================= C19_read_agrees ================= *)
Theorem read_bits_call t sid w fc chk a q :
  (fc = 1 \/ fc = 2) ->
  regs_ok (w_regs w) -> sid < 256 -> w_ctx w < 65536 -> a < 65536 -> q < 65536 ->
  call t sid w sid (req_pdu fc a q) (finish_read_bits chk fc q) =
    Ok (world_after t w (w_regs w),
        match served_bits (w_regs w) a q with Some bits => Ok bits | None => Err 6 end).
Proof.
  intros Hfc Hrs Hsid Hctx Ha Hq.
  assert (Hfc256 : fc < 256) by (destruct Hfc; subst; lia).
  pose proof (req_pdu_ok fc a q Hfc256) as Hreq.
  assert (Hp : process_request (w_regs w) (fst (req_pdu fc a q)) (snd (req_pdu fc a q)) =
               spec (w_regs w) fc [hi8 a; lo8 a; hi8 q; lo8 q]).
  { apply conforms; [exact Hrs|exact Hfc256|apply Hreq]. }
  rewrite spec_read_bits in Hp by assumption.
  destruct (served_bits (w_regs w) a q) as [bits|] eqn:SB.
  - destruct (served_bits_length _ _ _ _ SB) as [Hl Hq2].
    erewrite call_ok; [| | | | | |exact Hp| | |]; try assumption; try (rewrite req_pdu_data; cbn; (discriminate || lia)).
    + unfold world_after. f_equal. f_equal. unfold finish_read_bits. cbn [fst]. rewrite N.eqb_refl, andb_false_r.
      apply resp_read_bits_count_ok; [exact Hfc|exact Hl|lia].
    + split; cbn [fst snd]; [exact Hfc256|]. apply bytes_ok_cons. split; [lia|].
      apply bytes_ok_nth. intros j. apply pack_byte_bound.
    + discriminate.
    + cbn [snd length]. rewrite pack_bits_length, Hl. lia.
  - unfold s_exc in Hp. replace (fc <? 128) with true in Hp by (destruct Hfc; subst; reflexivity).
    set (e := if between 1 q 2000 then 2 else 3) in Hp.
    assert (He : e < 256) by (unfold e; destruct (between 1 q 2000); lia).
    assert (R1 : pdu_ok (fc + 128, [e])) by (apply exc_resp_ok; [destruct Hfc; subst; lia|exact He]).
    erewrite call_ok; [| | | | | |exact Hp| | |]; try assumption; try (rewrite req_pdu_data; cbn; (discriminate || lia));
      try discriminate; try (cbn; lia).
    unfold world_after. f_equal. f_equal. unfold finish_read_bits, resp_read_bits_count. cbn [fst snd].
    destruct Hfc; subst; destruct chk; reflexivity.
Qed.

Theorem read_regs_call t sid w fc a q :
  (fc = 3 \/ fc = 4) ->
  regs_ok (w_regs w) -> sid < 256 -> w_ctx w < 65536 -> a < 65536 -> q < 65536 ->
  call t sid w sid (req_pdu fc a q) (finish_read_regs fc) =
    Ok (world_after t w (w_regs w),
        match served_regs (w_regs w) a q with Some vs => Ok vs | None => Err 6 end).
Proof.
  intros Hfc Hrs Hsid Hctx Ha Hq.
  assert (Hfc256 : fc < 256) by (destruct Hfc; subst; lia).
  pose proof (req_pdu_ok fc a q Hfc256) as Hreq.
  assert (Hp : process_request (w_regs w) (fst (req_pdu fc a q)) (snd (req_pdu fc a q)) =
               spec (w_regs w) fc [hi8 a; lo8 a; hi8 q; lo8 q]).
  { apply conforms; [exact Hrs|exact Hfc256|apply Hreq]. }
  rewrite spec_read_regs in Hp by assumption.
  destruct (served_regs (w_regs w) a q) as [vs|] eqn:SR.
  - destruct (served_regs_length _ _ _ _ (proj2 Hrs) SR) as (Hl & Hq2 & Hv).
    erewrite call_ok; [| | | | | |exact Hp| | |]; try assumption; try (rewrite req_pdu_data; cbn; (discriminate || lia)).
    + unfold world_after. f_equal. f_equal. unfold finish_read_regs. cbn [fst]. rewrite N.eqb_refl. cbn [negb].
      apply resp_read_regs_ok; assumption.
    + split; cbn [fst snd]; [exact Hfc256|]. apply bytes_ok_cons. split; [lia|].
      clear SR Hl Hp. induction Hv as [|v vs Hv0 _ IH]; [reflexivity|]. cbn [flat_map word_bytes app].
      apply bytes_ok_cons. split; [lia|]. apply bytes_ok_cons. split; [lia|exact IH].
    + discriminate.
    + cbn [snd length]. rewrite flat_map_word_bytes_length, Hl. lia.
  - unfold s_exc in Hp. replace (fc <? 128) with true in Hp by (destruct Hfc; subst; reflexivity).
    set (e := if between 1 q 125 then 2 else 3) in Hp.
    assert (He : e < 256) by (unfold e; destruct (between 1 q 125); lia).
    assert (R1 : pdu_ok (fc + 128, [e])) by (apply exc_resp_ok; [destruct Hfc; subst; lia|exact He]).
    erewrite call_ok; [| | | | | |exact Hp| | |]; try assumption; try (rewrite req_pdu_data; cbn; (discriminate || lia));
      try discriminate; try (cbn; lia).
    unfold world_after. f_equal. f_equal. unfold finish_read_regs. cbn [fst snd].
    destruct Hfc; subst; reflexivity.
Qed.
(* ================= writes ================= *)
Lemma s_write_coil_err rs x e : s_write_coil rs x = inr e -> e = 2 \/ e = 3.
Proof.
  destruct x as [n b]. unfold s_write_coil. destruct (s_find rs (n / 16)); [|intros E; inversion E; auto].
  destruct (v_ok _ _); [discriminate|intros E; inversion E; auto].
Qed.

Lemma s_write_reg_err rs x e : s_write_reg rs x = inr e -> e = 2 \/ e = 3.
Proof.
  destruct x as [a v]. unfold s_write_reg. destruct (s_find rs a); [|intros E; inversion E; auto].
  destruct (v_ok _ _); [discriminate|intros E; inversion E; auto].
Qed.

Lemma spec_write_coil rs a v : a < 65536 ->
  spec rs 5 (snd (req_write_coil_pdu a v)) =
    match s_write_coil rs (a, v) with
    | inl rs' => Ok (true, (5, snd (req_write_coil_pdu a v)), rs')
    | inr e => s_exc rs 5 e
    end.
Proof.
  intros Ha. unfold spec. cbn [N.eqb Pos.eqb orb]. unfold req_write_coil_pdu. rewrite req_pdu_data.
  unfold s_single_coil. destruct v; rewrite !word_hi_lo by lia; cbn [N.eqb Pos.eqb orb negb]; reflexivity.
Qed.

Lemma spec_write_reg rs a v : a < 65536 -> v < 65536 ->
  spec rs 6 (snd (req_pdu 6 a v)) =
    match s_write_reg rs (a, v) with
    | inl rs' => Ok (true, (6, snd (req_pdu 6 a v)), rs')
    | inr e => s_exc rs 6 e
    end.
Proof.
  intros Ha Hv. unfold spec. cbn [N.eqb Pos.eqb orb]. rewrite req_pdu_data.
  unfold s_single_reg. rewrite !word_hi_lo by assumption. reflexivity.
Qed.

Lemma bytes_eqb_refl' l : bytes_eqb l l = true.
Proof. apply bytes_eqb_refl. Qed.

Theorem write_coil_call t sid w a v :
  regs_ok (w_regs w) -> sid < 256 -> w_ctx w < 65536 -> a < 65536 ->
  client_write_single_coil t sid w sid a v =
    match s_write_coil (w_regs w) (a, v) with
    | inl rs' => Ok (world_after t w rs', Ok [])
    | inr _ => Ok (world_after t w (w_regs w), Err 6)
    end.
Proof.
  intros Hrs Hsid Hctx Ha. unfold client_write_single_coil.
  assert (Hreq : pdu_ok (req_write_coil_pdu a v)) by (apply req_pdu_ok; lia).
  assert (Hp : process_request (w_regs w) (fst (req_write_coil_pdu a v)) (snd (req_write_coil_pdu a v)) =
               spec (w_regs w) 5 (snd (req_write_coil_pdu a v))).
  { apply conforms; [exact Hrs|cbn; lia|apply Hreq]. }
  rewrite spec_write_coil in Hp by exact Ha.
  destruct (s_write_coil (w_regs w) (a, v)) as [rs'|e] eqn:W.
  - erewrite call_ok; [| | | | | |exact Hp| | |]; try assumption; try discriminate; try (cbn; lia);
      try (split; [cbn; lia|apply Hreq]).
    unfold world_after. f_equal. f_equal. unfold finish_write. cbn [fst snd]. cbn [N.eqb Pos.eqb negb].
    rewrite bytes_eqb_refl. reflexivity.
  - destruct (s_write_coil_err _ _ _ W) as [-> | ->];
      (erewrite call_ok; [| | | | | |exact Hp| | |]; try assumption; try discriminate; try (cbn; lia);
       [reflexivity|apply (exc_resp_ok 5); lia]).
Qed.

Theorem write_reg_call t sid w a v :
  regs_ok (w_regs w) -> sid < 256 -> w_ctx w < 65536 -> a < 65536 -> v < 65536 ->
  client_write_single_reg t sid w sid a v =
    match s_write_reg (w_regs w) (a, v) with
    | inl rs' => Ok (world_after t w rs', Ok [])
    | inr _ => Ok (world_after t w (w_regs w), Err 6)
    end.
Proof.
  intros Hrs Hsid Hctx Ha Hv. unfold client_write_single_reg.
  assert (Hreq : pdu_ok (req_pdu 6 a v)) by (apply req_pdu_ok; lia).
  assert (Hp : process_request (w_regs w) (fst (req_pdu 6 a v)) (snd (req_pdu 6 a v)) =
               spec (w_regs w) 6 (snd (req_pdu 6 a v))).
  { apply conforms; [exact Hrs|cbn; lia|apply Hreq]. }
  rewrite spec_write_reg in Hp by assumption.
  destruct (s_write_reg (w_regs w) (a, v)) as [rs'|e] eqn:W.
  - erewrite call_ok; [| | | | | |exact Hp| | |]; try assumption; try discriminate; try (cbn; lia);
      try (split; [cbn; lia|apply Hreq]).
    unfold world_after. f_equal. f_equal. unfold finish_write. cbn [fst snd]. cbn [N.eqb Pos.eqb negb].
    rewrite bytes_eqb_refl. reflexivity.
  - destruct (s_write_reg_err _ _ _ W) as [-> | ->];
      (erewrite call_ok; [| | | | | |exact Hp| | |]; try assumption; try discriminate; try (cbn; lia);
       [reflexivity|apply (exc_resp_ok 6); lia]).
Qed.

(* ---- the written value is what the server holds afterwards ---- *)
Lemma s_find_upd rs k nv r : s_find rs k = Some r -> s_find (s_upd rs k nv) k = Some (set_val r nv).
Proof.
  unfold s_find, s_upd. induction rs as [|r0 rs IH]; cbn [find map]; [discriminate|].
  destruct (N.eqb_spec (r_addr r0) k) as [E|E].
  - intros H. inversion H; subst. cbn [set_val r_addr]. rewrite N.eqb_refl. reflexivity.
  - intros H. replace (r_addr r0 =? k) with false by (symmetry; apply N.eqb_neq; exact E). apply IH. exact H.
Qed.

Lemma s_write_coil_get rs a v rs' : s_write_coil rs (a, v) = inl rs' -> s_coil rs' a = Some v.
Proof.
  unfold s_write_coil, s_coil. destruct (s_find rs (a / 16)) as [r|] eqn:F; [|discriminate].
  destruct (v_ok _ _); [|discriminate]. intros E. inversion E; subst.
  rewrite (s_find_upd _ _ _ _ F). cbn [set_val r_val]. f_equal.
  destruct v; [apply N.setbit_eq|apply N.clearbit_eq].
Qed.

Lemma s_write_reg_get rs a v rs' : s_write_reg rs (a, v) = inl rs' -> s_reg rs' a = Some v.
Proof.
  unfold s_write_reg, s_reg. destruct (s_find rs a) as [r|] eqn:F; [|discriminate].
  destruct (v_ok _ _); [|discriminate]. intros E. inversion E; subst.
  rewrite (s_find_upd _ _ _ _ F). reflexivity.
Qed.

Lemma next_tx_lt t c : c < 65536 -> next_tx t c < 65536.
Proof. intros H. destruct t; cbn; [exact H|apply N.mod_upper_bound; lia]. Qed.

(* ================= C19_write_then_read ================= *)
Theorem write_coil_then_read t sid w a v w' :
  regs_ok (w_regs w) -> sid < 256 -> w_ctx w < 65536 -> a < 65536 ->
  client_write_single_coil t sid w sid a v = Ok (w', Ok []) ->
  s_coil (w_regs w') a = Some v /\
  client_read_coils t sid w' sid a 1 = Ok (world_after t w' (w_regs w'), Ok [v]) /\
  client_read_discrete_inputs t sid w' sid a 1 = Ok (world_after t w' (w_regs w'), Ok [v]).
Proof.
  intros Hrs Hsid Hctx Ha H. rewrite write_coil_call in H by assumption.
  destruct (s_write_coil (w_regs w) (a, v)) as [rs'|e] eqn:W; [|discriminate].
  inversion H; subst w'. cbn [world_after w_regs w_ctx].
  assert (Hrs' : regs_ok rs') by (eapply s_write_coil_ok; eassumption).
  assert (G : s_coil rs' a = Some v) by (eapply s_write_coil_get; exact W).
  assert (SB : served_bits rs' a 1 = Some [v]).
  { unfold served_bits. replace (between 1 1 2000) with true by reflexivity.
    replace (a + 1 <=? 65536) with true by (symmetry; apply N.leb_le; lia).
    cbn [andb]. change (N.to_nat 1) with 1%nat. cbn [nseq map all_some]. rewrite G. reflexivity. }
  split; [exact G|]. unfold client_read_coils, client_read_discrete_inputs.
  split; (rewrite read_bits_call; cbn [world_after w_regs w_ctx]; [rewrite SB; reflexivity|tauto|exact Hrs'|exact Hsid|
          apply next_tx_lt; exact Hctx|exact Ha|lia]).
Qed.

Theorem write_reg_then_read t sid w a v w' :
  regs_ok (w_regs w) -> sid < 256 -> w_ctx w < 65536 -> a < 65536 -> v < 65536 ->
  client_write_single_reg t sid w sid a v = Ok (w', Ok []) ->
  s_reg (w_regs w') a = Some v /\
  client_read_holding_regs t sid w' sid a 1 = Ok (world_after t w' (w_regs w'), Ok [v]) /\
  client_read_input_regs t sid w' sid a 1 = Ok (world_after t w' (w_regs w'), Ok [v]).
Proof.
  intros Hrs Hsid Hctx Ha Hv H. rewrite write_reg_call in H by assumption.
  destruct (s_write_reg (w_regs w) (a, v)) as [rs'|e] eqn:W; [|discriminate].
  inversion H; subst w'. cbn [world_after w_regs w_ctx].
  assert (Hrs' : regs_ok rs') by (eapply s_write_reg_ok; eassumption).
  assert (G : s_reg rs' a = Some v) by (eapply s_write_reg_get; exact W).
  assert (SR : served_regs rs' a 1 = Some [v]).
  { unfold served_regs. replace (between 1 1 125) with true by reflexivity.
    replace (a + 1 <=? 65536) with true by (symmetry; apply N.leb_le; lia).
    cbn [andb]. change (N.to_nat 1) with 1%nat. cbn [nseq map all_some]. rewrite G. reflexivity. }
  split; [exact G|]. unfold client_read_holding_regs, client_read_input_regs.
  split; (rewrite read_regs_call; cbn [world_after w_regs w_ctx]; [rewrite SR; reflexivity|tauto|exact Hrs'|exact Hsid|
          apply next_tx_lt; exact Hctx|exact Ha|lia]).
Qed.

(* ================= damaged frames change nothing and are reported ================= *)
Theorem rejected_request_ignored t sid stx rs rx e :
  decode t Server stx (trunc rx) = Err e -> server_step t sid stx rs rx = Ok (stx, rs, None).
Proof.
  intros H. unfold server_step. destruct (trunc rx) as [|x l] eqn:T; [reflexivity|]. rewrite H. reflexivity.
Qed.

Theorem rejected_response_reported t ctx b e :
  decode t Client ctx (trunc b) = Err e ->
  (forall chk fc q, finish_read_bits chk fc q (recv_pdu t ctx (Some b)) = Err e) /\
  (forall fc, finish_read_regs fc (recv_pdu t ctx (Some b)) = Err e) /\
  (forall req, finish_write req (recv_pdu t ctx (Some b)) = Err e).
Proof. intros H. unfold recv_pdu. rewrite H. repeat split. Qed.

Theorem lost_response_reported t ctx :
  recv_pdu t ctx None = Err 5 /\ (forall chk fc q, finish_read_bits chk fc q (@Err pdu 5) = Err 5).
Proof. split; reflexivity. Qed.
