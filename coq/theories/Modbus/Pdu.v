(* C18: executable model of PDU.ProcessRequest (modbus/pdu.go) over the register
   file model of Regs.v, Go's uint16 / byte arithmetic and slice bounds checks
   explicit.  An index or slice out of range is [Panic], never a default value.
   No proofs in this file. *)
From Verif Require Import Base.Bytes Base.Val Modbus.Regs.
Local Open Scope N_scope.

Inductive outcome (A : Type) :=
| Ok (a : A)
| Err (e : N)      (* ProcessRequest returned a non-nil error: 1 = not enough data (the server sends nothing) *)
| Panic.
Arguments Ok {A} a.
Arguments Err {A} e.
Arguments Panic {A}.

Definition pdu := (N * bytes)%type.                      (* FunctionCode, Data *)
Definition presult := (bool * pdu * regs)%type.          (* regsChanged, response, register file afterwards *)

(* ---- Go primitives ---- *)
Definition be16 (hi lo : N) : N := (hi mod 256) * 256 + lo mod 256.   (* binary.BigEndian.Uint16 *)
Definition hi8 (v : N) : N := (v / 256) mod 256.                      (* byte(v >> 8) *)
Definition lo8 (v : N) : N := v mod 256.                              (* byte(v) *)

(* l[i] = f(l[i]) with bounds check *)
Fixpoint upd_nth (l : bytes) (i : nat) (f : N -> N) : option bytes :=
  match l, i with
  | [], _ => None
  | x :: l', O => Some (f x :: l')
  | x :: l', S i' => match upd_nth l' i' f with Some l'' => Some (x :: l'') | None => None end
  end.

(* binary.BigEndian.PutUint16(buf[off:], v) *)
Definition put16 (buf : bytes) (off : nat) (v : N) : option bytes :=
  match upd_nth buf off (fun _ => hi8 v) with
  | Some b1 => upd_nth b1 (S off) (fun _ => lo8 v)
  | None => None
  end.

Definition zeros (n : N) : bytes := repeat 0 (N.to_nat n).            (* make([]byte, n) *)

(* minRequestLen[fc]; 0 when absent from the map *)
Definition min_request_len (fc : N) : N :=
  match fc with
  | 1 | 2 | 3 | 4 | 5 | 6 => 5
  | 15 => 7
  | 16 => 8
  | 22 => 7
  | 23 => 12
  | 24 => 3
  | _ => 0
  end.

(* quantity limits and address space (modbus.go, added by the repair) *)
Definition maxReadBits : N := 2000.
Definition maxReadRegs : N := 125.
Definition maxWriteBits : N := 1968.
Definition maxWriteRegs : N := 123.
Definition maxAddress : N := 65536.

(* handleError(ExceptionCode) *)
Definition exc (rs : regs) (fc e : N) : outcome presult := Ok (false, (N.lor fc 128, [e]), rs).

(* results of the loops: finished, left by an exception (register file as it is then), or panicked *)
Inductive lres (A : Type) :=
| LOk (a : A)
| LExc (e : N) (rs : regs)
| LPanic.
Arguments LOk {A} a.
Arguments LExc {A} e rs.
Arguments LPanic {A}.

(* for i := 0; i < int(count); i++ { v, err := read(int(address)+i); ...; if v { resp.Data[1+i/8] |= 1 << (i%8) } } *)
Fixpoint read_bits_loop (rs : regs) (address : N) (n : nat) (i : N) (buf : bytes) : lres bytes :=
  match n with
  | O => LOk buf
  | S n' =>
      match read_coil rs (address + i) with
      | None => LExc ExcIllegalAddress rs
      | Some v =>
          if v then
            match upd_nth buf (N.to_nat (1 + i / 8)) (fun x => N.lor x (N.shiftl 1 (i mod 8) mod 256)) with
            | Some buf' => read_bits_loop rs address n' (i + 1) buf'
            | None => LPanic
            end
          else read_bits_loop rs address n' (i + 1) buf
      end
  end.

(* ... binary.BigEndian.PutUint16(resp.Data[1+i*2:], v) *)
Fixpoint read_regs_loop (rs : regs) (address : N) (n : nat) (i : N) (buf : bytes) : lres bytes :=
  match n with
  | O => LOk buf
  | S n' =>
      match read_reg rs (address + i) with
      | None => LExc ExcIllegalAddress rs
      | Some v =>
          match put16 buf (N.to_nat (1 + i * 2)) v with
          | Some buf' => read_regs_loop rs address n' (i + 1) buf'
          | None => LPanic
          end
      end
  end.

(* value := (p.Data[5+i/8]>>(i%8))&1 == 1; regs.WriteCoil(int(address)+i, value) *)
Fixpoint write_coils_loop (rs : regs) (address : N) (data : bytes) (n : nat) (i : N) : lres regs :=
  match n with
  | O => LOk rs
  | S n' =>
      match nth_error data (N.to_nat (5 + i / 8)) with
      | None => LPanic
      | Some b =>
          let value := N.land (N.shiftr b (i mod 8)) 1 =? 1 in
          match write_coil rs (address + i) value with
          | inl rs' => write_coils_loop rs' address data n' (i + 1)
          | inr e => LExc e rs
          end
      end
  end.

(* value := binary.BigEndian.Uint16(p.Data[5+i*2 : 5+i*2+2]); regs.WriteReg(int(address)+i, value) *)
Fixpoint write_regs_loop (rs : regs) (address : N) (data : bytes) (n : nat) (i : N) : lres regs :=
  match n with
  | O => LOk rs
  | S n' =>
      match nth_error data (N.to_nat (5 + i * 2)), nth_error data (N.to_nat (5 + i * 2 + 1)) with
      | Some h, Some l =>
          match write_reg rs (address + i) (be16 h l) with
          | inl rs' => write_regs_loop rs' address data n' (i + 1)
          | inr e => LExc e rs
          end
      | _, _ => LPanic
      end
  end.

Definition len (l : bytes) : N := N.of_nat (length l).

(* case FuncCodeReadCoils, FuncCodeReadDiscreteInputs *)
Definition req_read_bits (rs : regs) (fc : N) (data : bytes) : outcome presult :=
  match data with
  | a1 :: a0 :: c1 :: c0 :: _ =>
      let address := be16 a1 a0 in
      let count := be16 c1 c0 in
      if (count <? 1) || (maxReadBits <? count) then exc rs fc ExcIllegalValue
      else if maxAddress <? address + count then exc rs fc ExcIllegalAddress
      else
        let nbytes := (((count + 7) mod 65536) / 8) mod 256 in       (* byte((count + 7) / 8) on uint16 *)
        let buf0 := zeros ((1 + nbytes) mod 256) in                  (* make([]byte, 1+bytes): byte addition *)
        match upd_nth buf0 0 (fun _ => nbytes) with                  (* resp.Data[0] = bytes *)
        | None => Panic
        | Some buf =>
            match read_bits_loop rs address (N.to_nat count) 0 buf with
            | LOk b => Ok (false, (fc, b), rs)
            | LExc e rs' => exc rs' fc e
            | LPanic => Panic
            end
        end
  | _ => Panic                                                       (* p.Data[:2] / p.Data[2:4] out of range *)
  end.

(* case FuncCodeReadHoldingRegisters, FuncCodeReadInputRegisters *)
Definition req_read_regs (rs : regs) (fc : N) (data : bytes) : outcome presult :=
  match data with
  | a1 :: a0 :: c1 :: c0 :: _ =>
      let address := be16 a1 a0 in
      let count := be16 c1 c0 in
      if (count <? 1) || (maxReadRegs <? count) then exc rs fc ExcIllegalValue
      else if maxAddress <? address + count then exc rs fc ExcIllegalAddress
      else
        let buf0 := zeros ((1 + 2 * count) mod 65536) in             (* make([]byte, 1+2*count): uint16 *)
        match upd_nth buf0 0 (fun _ => (count * 2) mod 256) with     (* resp.Data[0] = uint8(count * 2) *)
        | None => Panic
        | Some buf =>
            match read_regs_loop rs address (N.to_nat count) 0 buf with
            | LOk b => Ok (false, (fc, b), rs)
            | LExc e rs' => exc rs' fc e
            | LPanic => Panic
            end
        end
  | _ => Panic
  end.

(* case FuncCodeWriteSingleCoil *)
Definition req_write_coil (rs : regs) (fc : N) (data : bytes) : outcome presult :=
  match data with
  | a1 :: a0 :: v1 :: v0 :: _ =>
      let address := be16 a1 a0 in
      let v := be16 v1 v0 in
      if v =? 0 then
        match write_coil rs address false with
        | inl rs' => Ok (true, (fc, data), rs')
        | inr e => exc rs fc e
        end
      else if v =? 65280 then
        match write_coil rs address true with
        | inl rs' => Ok (true, (fc, data), rs')
        | inr e => exc rs fc e
        end
      else exc rs fc ExcIllegalValue
  | _ => Panic
  end.

(* case FuncCodeWriteMultipleCoils *)
Definition req_write_coils (rs : regs) (fc : N) (data : bytes) : outcome presult :=
  match data with
  | a1 :: a0 :: q1 :: q0 :: bc :: _ =>
      let address := be16 a1 a0 in
      let quantity := be16 q1 q0 in
      if (quantity <? 1) || (maxWriteBits <? quantity)
         || negb (len data =? 5 + (quantity + 7) / 8)
         || negb (bc =? (quantity + 7) / 8)
      then exc rs fc ExcIllegalValue
      else if maxAddress <? address + quantity then exc rs fc ExcIllegalAddress
      else
        match write_coils_loop rs address data (N.to_nat quantity) 0 with
        | LOk rs' => Ok (true, (fc, [hi8 address; lo8 address; hi8 quantity; lo8 quantity]), rs')
        | LExc e rs' => exc rs' fc e
        | LPanic => Panic
        end
  | _ => Panic
  end.

(* case FuncCodeWriteSingleRegister *)
Definition req_write_reg (rs : regs) (fc : N) (data : bytes) : outcome presult :=
  match data with
  | a1 :: a0 :: v1 :: v0 :: _ =>
      match write_reg rs (be16 a1 a0) (be16 v1 v0) with
      | inl rs' => Ok (true, (fc, data), rs')
      | inr e => exc rs fc e
      end
  | _ => Panic
  end.

(* case FuncCodeWriteMultipleRegisters *)
Definition req_write_regs (rs : regs) (fc : N) (data : bytes) : outcome presult :=
  match data with
  | a1 :: a0 :: q1 :: q0 :: bc :: _ =>
      let address := be16 a1 a0 in
      let quantity := be16 q1 q0 in
      if (quantity <? 1) || (maxWriteRegs <? quantity)
         || negb (len data =? 5 + quantity * 2)
         || negb (bc =? quantity * 2)
      then exc rs fc ExcIllegalValue
      else if maxAddress <? address + quantity then exc rs fc ExcIllegalAddress
      else
        match write_regs_loop rs address data (N.to_nat quantity) 0 with
        | LOk rs' => Ok (true, (fc, [hi8 address; lo8 address; hi8 quantity; lo8 quantity]), rs')
        | LExc e rs' => exc rs' fc e
        | LPanic => Panic
        end
  | _ => Panic
  end.

(* the length check, then the switch on p.FunctionCode *)
Definition process_request (rs : regs) (fc : N) (data : bytes) : outcome presult :=
  if len data + 1 <? min_request_len fc then Err 1
  else if (fc =? 1) || (fc =? 2) then req_read_bits rs fc data
  else if (fc =? 3) || (fc =? 4) then req_read_regs rs fc data
  else if fc =? 5 then req_write_coil rs fc data
  else if fc =? 15 then req_write_coils rs fc data
  else if fc =? 6 then req_write_reg rs fc data
  else if fc =? 16 then req_write_regs rs fc data
  else exc rs fc ExcIllegalFunction.
