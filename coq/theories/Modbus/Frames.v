(* C19: model of modbus/rtu.go (RTU.Encode / Decode) and modbus/tcp.go
   (TCP.Encode / Decode with the transaction id kept in the transport, client
   and server roles).  No proofs in this file. *)
From Verif Require Import Base.Bytes Base.Val Modbus.Regs Modbus.Pdu Modbus.RtuCrc.
Local Open Scope N_scope.

Inductive tkind := RTU | TCP.
Inductive role := Client | Server.

(* decode errors: 2 = not enough data / short packet, 3 = CRC, 4 = transaction id *)

(* ---- RTU ---- *)
Definition rtu_encode (id : N) (p : pdu) : bytes :=
  let body := id :: fst p :: snd p in
  let crc := rtu_crc body in
  body ++ [hi8 crc; lo8 crc].

Definition rtu_decode (packet : bytes) : outcome (N * pdu) :=
  match check_rtu_crc packet with
  | 0 =>
      match packet with
      | id :: fc :: rest =>
          if (length packet <? 4)%nat then Err 2
          else Ok (id, (fc, firstn (length packet - 4) rest))         (* packet[2 : len(packet)-2] *)
      | _ => Panic                                                     (* packet[1] out of range *)
      end
  | e => Err e
  end.

(* ---- TCP (MBAP header) ---- *)
Definition tcp_encode (r : role) (txid id : N) (p : pdu) : N * bytes :=
  let tx := match r with Client => (txid + 1) mod 65536 | Server => txid end in   (* t.txID++ on uint16 *)
  let n := (len (snd p) + 2) mod 65536 in                                         (* uint16(len(pdu.Data)+2) *)
  (tx, [hi8 tx; lo8 tx; 0; 0; hi8 n; lo8 n; id; fst p] ++ snd p).

Definition tcp_decode (r : role) (txid : N) (packet : bytes) : outcome (N * (N * pdu)) :=
  match packet with
  | t1 :: t0 :: _ :: _ :: _ :: _ :: id :: fc :: d0 :: rest =>       (* len(packet) >= 9 *)
      let tx := be16 t1 t0 in
      match r with
      | Client => if tx =? txid then Ok (txid, (id, (fc, d0 :: rest))) else Err 4
      | Server => Ok (tx, (id, (fc, d0 :: rest)))
      end
  | _ => Err 2
  end.

(* ---- Transport interface: state = the TCP transaction id (unused by RTU) ---- *)
Definition encode (t : tkind) (r : role) (txid id : N) (p : pdu) : N * bytes :=
  match t with
  | RTU => (txid, rtu_encode id p)
  | TCP => tcp_encode r txid id p
  end.

Definition decode (t : tkind) (r : role) (txid : N) (packet : bytes) : outcome (N * (N * pdu)) :=
  match t with
  | RTU => match rtu_decode packet with
           | Ok x => Ok (txid, x)
           | Err e => Err e
           | Panic => Panic
           end
  | TCP => tcp_decode r txid packet
  end.
