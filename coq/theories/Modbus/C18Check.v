(* C18: case checker.  A case = a register file (AddReg order, validators from the
   shared family), one request PDU, and what PDU.ProcessRequest did with it:
   outcome class, regsChanged, response PDU, register values afterwards.
   bit 0: the model (Pdu.v) predicts exactly that; bit 1: the specification
   (PduSpec.v) allows exactly that.  No proofs in this file. *)
From Verif Require Import Base.Bytes Base.Val Modbus.Regs Modbus.Pdu Modbus.PduSpec.
Local Open Scope N_scope.

Record case := {
  c_regs : regs;
  c_fc : N;
  c_data : bytes;
  c_class : N;           (* 0 = response returned, 1 = error returned (nothing is sent), 2 = panic *)
  c_changed : bool;
  c_rfc : N;
  c_rdata : bytes;
  c_after : list N       (* register values afterwards, AddReg order *)
}.

Definition list_n_eqb : list N -> list N -> bool := list_eqb N.eqb.

(* does outcome [o] describe what the implementation did? *)
Definition agrees (c : case) (o : outcome presult) : bool :=
  match o with
  | Ok (ch, (rfc, rdata), rs') =>
      (c_class c =? 0) && Bool.eqb ch (c_changed c) && (rfc =? c_rfc c) && bytes_eqb rdata (c_rdata c)
      && list_n_eqb (reg_values rs') (c_after c)
  | Err _ => (c_class c =? 1) && list_n_eqb (reg_values (c_regs c)) (c_after c)
  | Panic => c_class c =? 2
  end.

Definition check_case (c : case) : N :=
  let pre := regs_okb (c_regs c) && byte_ok (c_fc c) && bytes_ok (c_data c) in
  code (pre && agrees c (process_request (c_regs c) (c_fc c) (c_data c)))
       (pre && agrees c (spec (c_regs c) (c_fc c) (c_data c))).

Definition case_of_val (v : val) : option case :=
  match v with
  | VL [rs; VN fc; VB data; VN cls; ch; VN rfc; VB rdata; after] =>
      rs <- get_list reg_of_val rs ;;
      ch <- get_bool ch ;;
      after <- get_list get_n after ;;
      Some {| c_regs := rs; c_fc := fc; c_data := data; c_class := cls; c_changed := ch;
              c_rfc := rfc; c_rdata := rdata; c_after := after |}
  | _ => None
  end.

Definition check_val : val -> N := check_with case_of_val check_case.
