(* C19: model of modbus/crc.go (RtuCrc, CheckRtuCrc).  No proofs in this file. *)
From Verif Require Import Base.Bytes Base.Val Modbus.Regs Modbus.Pdu.
Local Open Scope N_scope.

(* for i := 8; i != 0; i-- { if crc&1 != 0 { crc >>= 1; crc ^= 0xA001 } else { crc >>= 1 } } *)
Fixpoint crc_shift (n : nat) (crc : N) : N :=
  match n with
  | O => crc
  | S n' => crc_shift n' (if N.odd crc then N.lxor (N.shiftr crc 1) 40961 else N.shiftr crc 1)
  end.

(* crc ^= uint16(b), then the eight shifts *)
Definition crc_byte (crc b : N) : N := crc_shift 8 (N.lxor crc b).

Definition crc_raw (buf : bytes) : N := fold_left crc_byte buf 65535.

(* return (crc >> 8) | (crc << 8)   on uint16 *)
Definition rtu_crc (buf : bytes) : N :=
  let c := crc_raw buf in N.lor (N.shiftr c 8) (N.shiftl c 8 mod 65536).

(* CheckRtuCrc: 0 = nil, 2 = ErrNotEnoughData, 3 = ErrCRC *)
Definition check_rtu_crc (packet : bytes) : N :=
  if (length packet <? 4)%nat then 2
  else
    let n := (length packet - 2)%nat in
    match skipn n packet with
    | [c1; c0] => if rtu_crc (firstn n packet) =? be16 c1 c0 then 0 else 3
    | _ => 3                                   (* unreachable: exactly two bytes remain *)
    end.
