(* Coil bit packing (design appendix A.10): the packed bytes of PduSpec.pack are
   exactly the bits, LSB first, zero padded; used by C18 (server response) and
   C19 (client decoding). *)
From Verif Require Import Base.Bytes Modbus.Regs Modbus.Pdu Modbus.PduSpec.
From Coq Require Import ZifyN ZifyNat ZifyBool.
Ltac Zify.zify_post_hook ::= Z.div_mod_to_equations.
Local Open Scope N_scope.

Lemma of_bits_testbit : forall l i, N.testbit (of_bits l) (N.of_nat i) = nth i l false.
Proof.
  induction l as [|b l IH]; intros i; cbn [of_bits].
  - rewrite N.bits_0. destruct i; reflexivity.
  - destruct i as [|i].
    + cbn [nth N.of_nat]. rewrite N.add_comm, N.testbit_0_r. reflexivity.
    + rewrite Nat2N.inj_succ. rewrite N.add_comm, N.testbit_succ_r. apply IH.
Qed.

Lemma of_bits_bound l : of_bits l < 2 ^ N.of_nat (length l).
Proof.
  induction l as [|b l IH]; cbn [of_bits length]; [cbn; lia|].
  rewrite Nat2N.inj_succ, N.pow_succ_r'. destruct b; cbn [N.b2n]; lia.
Qed.

Lemma nth_firstn {A} (l : list A) n i d : (i < n)%nat -> nth i (firstn n l) d = nth i l d.
Proof.
  revert n i. induction l as [|a l IH]; intros n i H; [destruct n, i; reflexivity|].
  destruct n; [lia|]. destruct i; [reflexivity|]. cbn. apply IH. lia.
Qed.

Lemma nth_skipn {A} (l : list A) n i d : nth i (skipn n l) d = nth (n + i) l d.
Proof.
  revert l. induction n as [|n IH]; intros l; [reflexivity|].
  destruct l as [|a l]; [destruct i; reflexivity|]. cbn. apply IH.
Qed.

Lemma nth_0_cons {A} (a : A) l d : nth 0 (a :: l) d = a. Proof. reflexivity. Qed.
Lemma nth_S_cons {A} (a : A) l d i : nth (S i) (a :: l) d = nth i l d. Proof. reflexivity. Qed.

Lemma firstn8_length {A} (l : list A) : (length (firstn 8 l) <= 8)%nat.
Proof. rewrite firstn_length. lia. Qed.

(* bit k of byte j of the packed list is bit 8j+k of the list (false past its end) *)
Lemma pack_testbit : forall fuel l j k, (length l <= 8 * fuel)%nat -> (k < 8)%nat ->
  N.testbit (nth j (pack fuel l) 0) (N.of_nat k) = nth (8 * j + k) l false.
Proof.
  induction fuel as [|fuel IH]; intros l j k Hf Hk.
  - destruct l; [|cbn in Hf; lia]. cbn [pack]. destruct j; cbn [nth]; rewrite N.bits_0; destruct (8 * _ + k)%nat; reflexivity.
  - destruct l as [|b l].
    + cbn [pack]. destruct j; cbn [nth]; rewrite N.bits_0; destruct (8 * _ + k)%nat; reflexivity.
    + cbn [pack]. destruct j as [|j].
      * rewrite nth_0_cons, of_bits_testbit, nth_firstn by exact Hk. f_equal.
      * rewrite nth_S_cons, IH; [|rewrite skipn_length; lia|exact Hk].
        rewrite nth_skipn. f_equal. lia.
Qed.

Lemma pack_byte_bound : forall fuel l j, nth j (pack fuel l) 0 < 256.
Proof.
  induction fuel as [|fuel IH]; intros l j; [destruct j; cbn; lia|].
  destruct l as [|b l]; [destruct j; cbn; lia|]. cbn [pack]. destruct j as [|j].
  - rewrite nth_0_cons. pose proof (of_bits_bound (firstn 8 (b :: l))) as H.
    pose proof (firstn8_length (b :: l)) as H8.
    eapply N.lt_le_trans; [exact H|]. change 256 with (2 ^ 8). apply N.pow_le_mono_r; lia.
  - rewrite nth_S_cons. apply IH.
Qed.

Lemma pack_length : forall fuel l, (length l <= 8 * fuel)%nat -> length (pack fuel l) = ((length l + 7) / 8)%nat.
Proof.
  induction fuel as [|fuel IH]; intros l H.
  - destruct l; [reflexivity|cbn in H; lia].
  - destruct l as [|b l]; [reflexivity|]. cbn [pack length].
    rewrite IH by (rewrite skipn_length; cbn [length] in *; lia).
    rewrite skipn_length. cbn [length]. lia.
Qed.

Lemma pack_bits_length l : length (pack_bits l) = ((length l + 7) / 8)%nat.
Proof. apply pack_length. lia. Qed.

(* what a client has to do to get coil i back *)
Theorem unpack_pack : forall l i, (i < length l)%nat -> unpack_bit (pack_bits l) i = nth i l false.
Proof.
  intros l i Hi. unfold unpack_bit, pack_bits.
  rewrite pack_testbit; [|lia|apply Nat.mod_upper_bound; lia].
  f_equal. pose proof (Nat.div_mod i 8). lia.
Qed.

Lemma unpack_bits_pack l : unpack_bits (pack_bits l) (length l) = l.
Proof.
  unfold unpack_bits. apply nth_ext with (d := false) (d' := false).
  - rewrite map_length, seq_length. reflexivity.
  - intros n Hn. rewrite map_length, seq_length in Hn.
    rewrite nth_indep with (d' := unpack_bit (pack_bits l) 0) by (rewrite map_length, seq_length; exact Hn).
    rewrite map_nth, seq_nth by exact Hn. cbn [plus]. apply unpack_pack. exact Hn.
Qed.

(* two byte lists are equal when they agree bit by bit *)
Lemma bytes_ext (a b : bytes) :
  length a = length b ->
  (forall j, nth j a 0 < 256) -> (forall j, nth j b 0 < 256) ->
  (forall j k, (k < 8)%nat -> N.testbit (nth j a 0) (N.of_nat k) = N.testbit (nth j b 0) (N.of_nat k)) ->
  a = b.
Proof.
  intros Hl Ha Hb H. apply nth_ext with (d := 0) (d' := 0); [exact Hl|]. intros j _.
  apply N.bits_inj. intros k.
  destruct (N.lt_ge_cases k 8) as [Hk|Hk].
  - replace k with (N.of_nat (N.to_nat k)) by lia. apply H. lia.
  - assert (Hlow : forall x, x < 256 -> N.testbit x k = false).
    { intros x Hx. destruct (N.eq_dec x 0) as [->|Hx0]; [apply N.bits_0|].
      apply N.bits_above_log2. apply N.lt_le_trans with 8; [|exact Hk].
      apply N.log2_lt_pow2; [lia|]. exact Hx. }
    rewrite !Hlow by auto. reflexivity.
Qed.
