(* C19: model of modbus/client.go (the six client calls), of the response
   decoders of modbus/pdu.go (respReadBitsCount, RespReadRegs), of the request
   builders, and of one iteration of Server.Listen (modbus/server.go), over a
   duplex that delivers whole packets into 260-byte read buffers.
   No proofs in this file. *)
From Verif Require Import Base.Bytes Base.Val Modbus.Regs Modbus.Pdu Modbus.PduSpec Modbus.RtuCrc Modbus.Frames.
Local Open Scope N_scope.

Definition buf_size : nat := 260.                         (* maxADUSize *)
Definition trunc (b : bytes) : bytes := firstn buf_size b. (* transport.Read into make([]byte, maxADUSize) *)

(* PutUint16Array *)
Definition put_u16_array (l : list N) : bytes := flat_map (fun v => [hi8 v; lo8 v]) l.

(* ReadCoils / ReadDiscreteInputs / ReadHoldingRegs / ReadInputRegs / WriteSingleReg (address, count or value) *)
Definition req_pdu (fc a b : N) : pdu := (fc, put_u16_array [a; b]).
(* WriteSingleCoil (address, v) *)
Definition req_write_coil_pdu (a : N) (v : bool) : pdu := req_pdu 5 a (if v then 65280 else 0).

(* client-side errors: 2,3,4 from Decode; 5 = the transport Read failed (no response);
   6 = wrong function code; 7 = not enough / unexpected response data *)

(* ret[i] = ((p.Data[1+i/8] >> (i % 8)) & 0x1) == 0x1 *)
Fixpoint bits_loop (data : bytes) (n : nat) (i : N) : outcome (list bool) :=
  match n with
  | O => Ok []
  | S n' =>
      match nth_error data (N.to_nat (1 + i / 8)) with
      | None => Panic
      | Some b =>
          match bits_loop data n' (i + 1) with
          | Ok l => Ok ((N.land (N.shiftr b (i mod 8)) 1 =? 1) :: l)
          | o => o
          end
      end
  end.

(* respReadBitsCount(count) *)
Definition resp_read_bits_count (p : pdu) (count : N) : outcome (list bool) :=
  if negb ((fst p =? 1) || (fst p =? 2)) then Err 6
  else match snd p with
       | [] => Err 7
       | bc :: _ =>
           if negb (bc =? (count + 7) / 8) || (len (snd p) <? 1 + bc) then Err 7
           else bits_loop (snd p) (N.to_nat count) 0
       end.

(* ret[i] = binary.BigEndian.Uint16(p.Data[1+i*2 : 1+i*2+2]) *)
Fixpoint regs_loop (data : bytes) (n : nat) (i : N) : outcome (list N) :=
  match n with
  | O => Ok []
  | S n' =>
      match nth_error data (N.to_nat (1 + i * 2)), nth_error data (N.to_nat (1 + i * 2 + 1)) with
      | Some h, Some l =>
          match regs_loop data n' (i + 1) with
          | Ok r => Ok (be16 h l :: r)
          | o => o
          end
      | _, _ => Panic
      end
  end.

(* RespReadRegs *)
Definition resp_read_regs (p : pdu) : outcome (list N) :=
  if len (snd p) <? 2 then Err 7
  else if negb ((fst p =? 3) || (fst p =? 4)) then Err 6
  else match snd p with
       | [] => Panic
       | bc :: _ =>
           let count := (bc mod 256) / 2 in                 (* p.Data[0] / 2 on a byte *)
           if len (snd p) <? 1 + count * 2 then Err 7
           else regs_loop (snd p) (N.to_nat count) 0
       end.

(* ---- the client side of one call ---- *)
Definition client_send (t : tkind) (ctx id : N) (req : pdu) : N * bytes := encode t Client ctx id req.

(* transport.Read, buf[:cnt], transport.Decode: rx = None when the Read returned an error *)
Definition recv_pdu (t : tkind) (ctx : N) (rx : option bytes) : outcome pdu :=
  match rx with
  | None => Err 5
  | Some b =>
      match decode t Client ctx (trunc b) with
      | Ok (_, (_, p)) => Ok p
      | Err e => Err e
      | Panic => Panic
      end
  end.

(* ReadCoils does not compare the function code of the response, ReadDiscreteInputs does *)
Definition finish_read_bits (check_fc : bool) (fc count : N) (r : outcome pdu) : outcome (list bool) :=
  match r with
  | Ok resp => if check_fc && negb (fst resp =? fc) then Err 6 else resp_read_bits_count resp count
  | Err e => Err e
  | Panic => Panic
  end.

Definition finish_read_regs (fc : N) (r : outcome pdu) : outcome (list N) :=
  match r with
  | Ok resp => if negb (fst resp =? fc) then Err 6 else resp_read_regs resp
  | Err e => Err e
  | Panic => Panic
  end.

Definition finish_write (req : pdu) (r : outcome pdu) : outcome (list N) :=
  match r with
  | Ok resp =>
      if negb (fst resp =? fst req) then Err 6
      else if negb (bytes_eqb (snd req) (snd resp)) then Err 7
      else Ok []
  | Err e => Err e
  | Panic => Panic
  end.

(* ---- one iteration of Server.Listen on a received packet ----
   result: transport state, register file, the packet written back (if any) *)
Definition server_step (t : tkind) (sid stx : N) (rs : regs) (rx : bytes) : outcome (N * regs * option bytes) :=
  match trunc rx with
  | [] => Ok (stx, rs, None)                                  (* cnt <= 0 *)
  | packet =>
      match decode t Server stx packet with
      | Err _ => Ok (stx, rs, None)                           (* errorCallback(err); continue *)
      | Panic => Panic
      | Ok (stx', (id, req)) =>
          if negb (id =? sid) then Ok (stx', rs, None)        (* not for this device *)
          else
            match process_request rs (fst req) (snd req) with
            | Ok (_, resp, rs') =>
                let '(stx'', pkt) := encode t Server stx' sid resp in
                Ok (stx'', rs', Some pkt)
            | Err _ => Ok (stx', rs, None)
            | Panic => Panic
            end
      end
  end.

(* ---- a complete call over a lossless duplex ---- *)
Record world := { w_ctx : N; w_stx : N; w_regs : regs }.

Definition call {A} (t : tkind) (sid : N) (w : world) (id : N) (req : pdu)
           (finish : outcome pdu -> outcome A) : outcome (world * outcome A) :=
  let '(ctx', pkt) := client_send t (w_ctx w) id req in
  match server_step t sid (w_stx w) (w_regs w) pkt with
  | Ok (stx', rs', resp) =>
      Ok ({| w_ctx := ctx'; w_stx := stx'; w_regs := rs' |}, finish (recv_pdu t ctx' resp))
  | Err e => Err e
  | Panic => Panic
  end.

Definition client_read_coils t sid w id addr count :=
  call t sid w id (req_pdu 1 addr count) (finish_read_bits false 1 count).
Definition client_read_discrete_inputs t sid w id addr count :=
  call t sid w id (req_pdu 2 addr count) (finish_read_bits true 2 count).
Definition client_read_holding_regs t sid w id addr count :=
  call t sid w id (req_pdu 3 addr count) (finish_read_regs 3).
Definition client_read_input_regs t sid w id addr count :=
  call t sid w id (req_pdu 4 addr count) (finish_read_regs 4).
Definition client_write_single_coil t sid w id addr (v : bool) :=
  call t sid w id (req_write_coil_pdu addr v) (finish_write (req_write_coil_pdu addr v)).
Definition client_write_single_reg t sid w id addr value :=
  call t sid w id (req_pdu 6 addr value) (finish_write (req_pdu 6 addr value)).

(* ---- vocabulary of the C19 theorems ---- *)
(* what the server holds for a read of q coils / registers at a: None when the protocol refuses the read *)
Definition served_bits (rs : regs) (a q : N) : option (list bool) :=
  if between 1 q 2000 && (a + q <=? 65536) then all_some (map (s_coil rs) (nseq a (N.to_nat q))) else None.

Definition served_regs (rs : regs) (a q : N) : option (list N) :=
  if between 1 q 125 && (a + q <=? 65536) then all_some (map (s_reg rs) (nseq a (N.to_nat q))) else None.

(* transport state after one call: the TCP transaction id advances (wrapping at 65535), RTU has none *)
Definition next_tx (t : tkind) (c : N) : N := match t with RTU => c | TCP => (c + 1) mod 65536 end.
Definition next_stx (t : tkind) (w : world) : N := match t with RTU => w_stx w | TCP => (w_ctx w + 1) mod 65536 end.
Definition world_after (t : tkind) (w : world) (rs : regs) : world :=
  {| w_ctx := next_tx t (w_ctx w); w_stx := next_stx t w; w_regs := rs |}.

(* ---- the exported PDU.RespReadBits, unchanged by the repair (the client no longer calls it):
        it returns as many values as the byte count says and indexes without a length check ---- *)
Fixpoint exported_bits_loop (data : bytes) (n : nat) (byteIndex bitIndex : N) : outcome (list bool) :=
  match n with
  | O => Ok []
  | S n' =>
      match nth_error data (N.to_nat (byteIndex + 1)) with
      | None => Panic
      | Some b =>
          let v := N.land (N.shiftr b bitIndex) 1 =? 1 in
          let '(by', bi') := if 8 <=? bitIndex + 1 then (byteIndex + 1, 0) else (byteIndex, bitIndex + 1) in
          match exported_bits_loop data n' by' bi' with
          | Ok l => Ok (v :: l)
          | o => o
          end
      end
  end.

Definition resp_read_bits_exported (p : pdu) : outcome (list bool) :=
  if len (snd p) <? 2 then Err 7
  else if negb ((fst p =? 1) || (fst p =? 2)) then Err 6
  else match snd p with
       | [] => Panic
       | count :: _ => exported_bits_loop (snd p) (N.to_nat (count mod 256)) 0 0
       end.
