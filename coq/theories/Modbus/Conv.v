(* C19: model of modbus/data.go — conversions between registers and 16/32-bit
   integers and float32 (as IEEE bit patterns) in both word orders.
   uint32 / float32 bits are N, int32 / int16 are Z.  No proofs in this file. *)
From Verif Require Import Base.Bytes Base.Val Modbus.Regs Modbus.Pdu.
Local Open Scope N_scope.

(* binary.BigEndian.Uint32 / PutUint32 on a 4-byte buffer *)
Definition be32 (b0 b1 b2 b3 : N) : N :=
  ((b0 mod 256) * 16777216 + (b1 mod 256) * 65536 + (b2 mod 256) * 256 + b3 mod 256).
Definition put32 (v : N) : N * N * N * N :=
  ((v / 16777216) mod 256, (v / 65536) mod 256, (v / 256) mod 256, v mod 256).

(* PutUint16(buf[0:], a); PutUint16(buf[2:], b); Uint32(buf)   (swap: a and b exchanged) *)
Definition two_regs_to_u32 (swap : bool) (a b : N) : N :=
  let '(x, y) := if swap then (b, a) else (a, b) in
  be32 (hi8 x) (lo8 x) (hi8 y) (lo8 y).

(* PutUint32(buf, v); ret[i*2] = Uint16(buf[0:]); ret[i*2+1] = Uint16(buf[2:])   (swap: exchanged) *)
Definition u32_to_two_regs (swap : bool) (v : N) : list N :=
  let '(b0, b1, b2, b3) := put32 v in
  if swap then [be16 b2 b3; be16 b0 b1] else [be16 b0 b1; be16 b2 b3].

(* count := len(in) / 2; a trailing odd register is ignored *)
Fixpoint regs_to_u32 (swap : bool) (l : list N) : list N :=
  match l with
  | a :: b :: t => two_regs_to_u32 swap a b :: regs_to_u32 swap t
  | _ => []
  end.

Definition u32_to_regs (swap : bool) (l : list N) : list N := flat_map (u32_to_two_regs swap) l.

(* int32(x) for a uint32 x, uint32(v) for an int32 v, int16(x) for a uint16 x *)
Definition to_int32 (u : N) : Z := if u <? 2147483648 then Z.of_N u else (Z.of_N u - 4294967296)%Z.
Definition of_int32 (z : Z) : N := Z.to_N (z mod 4294967296)%Z.
Definition to_int16 (u : N) : Z := if u <? 32768 then Z.of_N u else (Z.of_N u - 65536)%Z.
Definition of_int16 (z : Z) : N := Z.to_N (z mod 65536)%Z.

(* the exported functions *)
Definition RegsToUint32 := regs_to_u32 false.
Definition RegsToUint32SwapWords := regs_to_u32 true.
Definition Uint32ToRegs := u32_to_regs false.
Definition Uint32ToRegsSwapRegs := u32_to_regs true.
Definition RegsToInt32 (l : list N) : list Z := map to_int32 (regs_to_u32 false l).
Definition RegsToInt32SwapWords (l : list N) : list Z := map to_int32 (regs_to_u32 true l).
Definition Int32ToRegs (l : list Z) : list N := u32_to_regs false (map of_int32 l).
Definition Int32ToRegsSwapWords (l : list Z) : list N := u32_to_regs true (map of_int32 l).
(* float32 values are carried as their bit patterns: math.Float32frombits / Float32bits are the identity on them *)
Definition RegsToFloat32 := regs_to_u32 false.
Definition RegsToFloat32SwapWords := regs_to_u32 true.
Definition Float32ToRegs := u32_to_regs false.
Definition Float32ToRegsSwapWords := u32_to_regs true.
Definition RegsToInt16 (l : list N) : list Z := map to_int16 l.

(* PutUint16Array / Uint16Array *)
Definition PutUint16Array (l : list N) : bytes := flat_map (fun v => [hi8 v; lo8 v]) l.
Fixpoint Uint16Array (d : bytes) : list N :=
  match d with
  | h :: l :: t => be16 h l :: Uint16Array t
  | _ => []
  end.
