(* C18/C19: executable model of modbus/reg.go (type Regs: AddReg'd registers,
   validators, coil aliasing).  No proofs in this file.

   A register file is the slice [r.regs] in order.  Validators are Go closures;
   the harness and the model share a small enumerated family. *)
From Verif Require Import Base.Bytes Base.Val.
Local Open Scope N_scope.

Inductive vkind :=
| VNone                (* Validate == nil *)
| VLt (k : N)          (* func(v) bool { return v < k } *)
| VEven                (* func(v) bool { return v%2 == 0 } *)
| VReject.             (* func(v) bool { return false } *)

Definition v_ok (k : vkind) (x : N) : bool :=
  match k with
  | VNone => true
  | VLt k => x <? k
  | VEven => N.even x
  | VReject => false
  end.

Record reg := { r_addr : N; r_val : N; r_v : vkind }.
Definition regs := list reg.

Definition set_val (r : reg) (v : N) : reg := {| r_addr := r_addr r; r_val := v; r_v := r_v r |}.

(* exception codes (type ExceptionCode) *)
Definition ExcIllegalFunction : N := 1.
Definition ExcIllegalAddress : N := 2.
Definition ExcIllegalValue : N := 3.

Definition u16 (x : N) : N := x mod 65536.       (* uint16(x) for a non-negative int x *)

(* readReg: first register whose Address == uint16(address); None = ExcIllegalAddress *)
Fixpoint read_reg (rs : regs) (address : N) : option N :=
  match rs with
  | [] => None
  | r :: rs' => if r_addr r =? u16 address then Some (r_val r) else read_reg rs' address
  end.

(* writeReg: inl regs' on success, inr exception code *)
Fixpoint write_reg (rs : regs) (address value : N) : regs + N :=
  match rs with
  | [] => inr ExcIllegalAddress
  | r :: rs' =>
      if r_addr r =? u16 address then
        if v_ok (r_v r) value then inl (set_val r value :: rs') else inr ExcIllegalValue
      else match write_reg rs' address value with
           | inl rs'' => inl (r :: rs'')
           | inr e => inr e
           end
  end.

(* ReadCoil / ReadDiscreteInput: regValue & (1 << bitPos) != 0, bitPos = uint16(num % 16) *)
Definition read_coil (rs : regs) (num : N) : option bool :=
  match read_reg rs (num / 16) with
  | None => None
  | Some v => Some (negb (N.land v (u16 (N.shiftl 1 (num mod 16))) =? 0))
  end.

(* WriteCoil: read, set or clear the bit (16-bit arithmetic), writeReg (validator sees the whole register) *)
Definition write_coil (rs : regs) (num : N) (value : bool) : regs + N :=
  match read_reg rs (num / 16) with
  | None => inr ExcIllegalAddress
  | Some v =>
      let m := u16 (N.shiftl 1 (num mod 16)) in
      let v' := if value then N.lor v m else N.land v (65535 - m) in   (* ^m on uint16 = 65535 - m *)
      write_reg rs (num / 16) v'
  end.

(* ---- harness interface: registers as ( addr value kind k ) ---- *)
Definition vkind_of (kind k : N) : option vkind :=
  match kind with
  | 0 => Some VNone
  | 1 => Some (VLt k)
  | 2 => Some VEven
  | 3 => Some VReject
  | _ => None
  end.

Definition reg_of_val (v : val) : option reg :=
  match v with
  | VL [VN a; VN x; VN kind; VN k] =>
      vk <- vkind_of kind k ;; Some {| r_addr := a; r_val := x; r_v := vk |}
  | _ => None
  end.

Definition reg_ok (r : reg) : bool := (r_addr r <? 65536) && (r_val r <? 65536).

(* register file after, as the harness observes it: the values in AddReg order *)
Definition reg_values (rs : regs) : list N := map r_val rs.
