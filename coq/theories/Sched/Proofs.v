(* C14 proofs: the parsers on well-formed strings, the two-candidate window test
   against the existential specification, and their composition for the model
   of activeForTime.  The calendar function is dealt with in Calendar.v. *)
From Verif Require Import Base.Bytes Base.Val Sched.Model Sched.Calendar.
From Coq Require Import ZifyBool.
Local Open Scope Z_scope.
Ltac Zify.zify_post_hook ::= Z.div_mod_to_equations.

(* ================= parsers on well-formed strings ================= *)
Lemma hm_chk_some h mi m : hm_chk h mi = Some m -> h < 24 /\ mi < 60 /\ m = 60 * h + mi.
Proof.
  unfold hm_chk. destruct ((h <? 24) && (mi <? 60)) eqn:E; [|discriminate].
  intros H. split; [lia|split; [lia|congruence]].
Qed.

Lemma strict_hm_find l m :
  strict_hm l = Some m ->
  exists h mi, find_hm l = Some (h, mi) /\ 0 <= h < 24 /\ 0 <= mi < 60 /\ m = 60 * h + mi.
Proof.
  unfold strict_hm.
  destruct l as [|a [|b [|c [|d [|e [|f l]]]]]]; try discriminate.
  - (* H:MM *)
    destruct (is_digit a) eqn:Ea; [|discriminate].
    destruct (is_colon b) eqn:Eb; [|discriminate].
    destruct (is_digit c) eqn:Ec; [|discriminate].
    destruct (is_digit d) eqn:Ed; [|discriminate]. cbn [andb].
    intros H. apply hm_chk_some in H as [Er1 [Er2 ->]].
    exists (dval a), (10 * dval c + dval d).
    assert (0 <= dval a) by (unfold dval; lia).
    assert (0 <= dval c) by (unfold dval; lia).
    assert (0 <= dval d) by (unfold dval; lia).
    split; [|lia].
    unfold find_hm, hm_at, byte_at. cbn [nth]. rewrite Ea, Eb, Ec, Ed.
    replace (is_digit b) with false by (unfold is_colon, is_digit in *; lia).
    reflexivity.
  - (* HH:MM *)
    destruct (is_digit a) eqn:Ea; [|discriminate].
    destruct (is_digit b) eqn:Eb; [|discriminate].
    destruct (is_colon c) eqn:Ec; [|discriminate].
    destruct (is_digit d) eqn:Ed; [|discriminate].
    destruct (is_digit e) eqn:Ee; [|discriminate]. cbn [andb].
    intros H. apply hm_chk_some in H as [Er1 [Er2 ->]].
    exists (10 * dval a + dval b), (10 * dval d + dval e).
    assert (0 <= dval a) by (unfold dval; lia).
    assert (0 <= dval b) by (unfold dval; lia).
    assert (0 <= dval d) by (unfold dval; lia).
    assert (0 <= dval e) by (unfold dval; lia).
    split; [|lia].
    unfold find_hm, hm_at, byte_at. cbn [nth]. rewrite Ea, Eb, Ec, Ed, Ee. reflexivity.
Qed.

Lemma strict_date_find l x : strict_date l = Some x -> find_date l = Some x.
Proof.
  unfold strict_date.
  destruct l as [|y1 [|y2 [|y3 [|y4 [|s1 [|m1 [|m2 [|s2 [|d1 [|d2 [|z l]]]]]]]]]]]; try discriminate.
  destruct (forallb is_digit [y1; y2; y3; y4; m1; m2; d1; d2] && is_dash s1 && is_dash s2) eqn:E; [|discriminate].
  intros [= <-].
  apply andb_prop in E as [E Es2]. apply andb_prop in E as [E Es1].
  cbn [forallb] in E.
  repeat (let H := fresh "Hd" in apply andb_prop in E as [H E]).
  unfold find_date, date_at, byte_at. cbn [nth].
  rewrite Hd, Hd0, Hd1, Hd2, Hd3, Hd4, Hd5, Hd6, Es1, Es2. reflexivity.
Qed.

Lemma map_strict_date_nil dates ds :
  map_opt strict_date dates = Some ds -> (dates = [] <-> ds = []).
Proof.
  destruct dates as [|d r]; cbn; intros H.
  - inversion H. tauto.
  - destruct (strict_date d); [|discriminate]. destruct (map_opt strict_date r); [|discriminate].
    inversion H. split; discriminate.
Qed.

(* ================= the filters, seen through [existsb] ================= *)
Lemma tr_in_eq T a b : tr_in T (a, b) = (a <=? T) && (T <? b).
Proof. unfold tr_in. destruct (b <? a) eqn:E1, (T <? a) eqn:E2, (T <? b) eqn:E3; lia. Qed.

Lemma existsb_filter {A} (p q : A -> bool) l :
  existsb p (filter q l) = existsb (fun x => p x && q x) l.
Proof.
  induction l as [|x l IH]; cbn; [reflexivity|].
  destruct (q x); cbn; rewrite IH; [rewrite andb_true_r|rewrite andb_false_r]; reflexivity.
Qed.

Lemma existsb_ext' {A} (p q : A -> bool) l : (forall x, p x = q x) -> existsb p l = existsb q l.
Proof. intros H. induction l as [|x l IH]; cbn; [reflexivity|]. rewrite H, IH. reflexivity. Qed.

Definition wd_allow (wds : list Z) (D : Z) : bool :=
  match wds with [] => true | _ => existsb (Z.eqb (weekday D)) wds end.
Definition dates_allow (ds : list (Z * Z * Z)) (D : Z) : bool :=
  match ds with [] => true | _ => existsb (ymd_eqb (civil D)) ds end.

Lemma allowed_split wds ds D : allowed wds ds D = wd_allow wds D && dates_allow ds D.
Proof. reflexivity. Qed.

Lemma filter_wd_existsb p wds trs :
  existsb p (filter_wd wds trs) = existsb (fun tr => p tr && wd_allow wds (day_of (fst tr))) trs.
Proof.
  unfold filter_wd, wd_allow. destruct wds as [|w wds].
  - apply existsb_ext'. intros x. rewrite andb_true_r. reflexivity.
  - apply existsb_filter.
Qed.

Lemma dates_keep_existsb p tr dates ds :
  map_opt strict_date dates = Some ds ->
  exists l, dates_keep tr dates = Some l /\
            existsb p l = p tr && existsb (ymd_eqb (civil (day_of (fst tr)))) ds.
Proof.
  revert ds. induction dates as [|d r IH]; cbn [map_opt dates_keep]; intros ds H.
  - inversion H; subst. exists []. cbn. rewrite andb_false_r. split; reflexivity.
  - destruct (strict_date d) as [x|] eqn:Ed; [|discriminate].
    destruct (map_opt strict_date r) as [xs|] eqn:Er; [|discriminate].
    inversion H; subst ds; clear H.
    destruct (IH xs eq_refl) as [l [Hl He]].
    rewrite (strict_date_find _ _ Ed), Hl.
    eexists. split; [reflexivity|]. cbn [existsb].
    rewrite (ymd_eqb_sym x). destruct (ymd_eqb (civil (day_of (fst tr))) x); cbn [existsb orb].
    + rewrite He. destruct (p tr); reflexivity.
    + exact He.
Qed.

Lemma existsb_app' {A} (p : A -> bool) a b : existsb p (a ++ b) = existsb p a || existsb p b.
Proof. induction a as [|x a IH]; cbn; [reflexivity|]. rewrite IH, orb_assoc. reflexivity. Qed.

Lemma filter_dates_existsb p dates ds trs :
  map_opt strict_date dates = Some ds ->
  exists l, filter_dates dates trs = Some l /\
            existsb p l = existsb (fun tr => p tr && dates_allow ds (day_of (fst tr))) trs.
Proof.
  intros H. pose proof (map_strict_date_nil _ _ H) as Hnil.
  unfold filter_dates, dates_allow. destruct dates as [|d0 r0].
  - assert (ds = []) as -> by (apply Hnil; reflexivity).
    exists trs. split; [reflexivity|]. apply existsb_ext'. intros x. rewrite andb_true_r. reflexivity.
  - destruct ds as [|x0 xs]; [exfalso; assert (d0 :: r0 = []) by (apply Hnil; reflexivity); discriminate|].
    clear Hnil. induction trs as [|tr rest IH]; cbn [filter_dates_go existsb].
    + exists []. split; reflexivity.
    + destruct (dates_keep_existsb p tr _ _ H) as [a [Ha Hea]].
      destruct IH as [b [Hb Heb]]. rewrite Ha, Hb.
      exists (a ++ b). split; [reflexivity|]. rewrite existsb_app', Hea, Heb. reflexivity.
Qed.

(* ================= days of the candidate window starts ================= *)
Lemma day_of_at D h mi : 0 <= h < 24 -> 0 <= mi < 60 -> day_of (at_hm D h mi) = D.
Proof. intros Hh Hm. unfold day_of, at_hm, DAYNS, HOURNS, MINNS. lia. Qed.

Lemma day_of_at_prev D h mi : 0 <= h < 24 -> 0 <= mi < 60 -> day_of (at_hm D h mi - DAYNS) = D - 1.
Proof. intros Hh Hm. unfold day_of, at_hm, DAYNS, HOURNS, MINNS. lia. Qed.

(* ================= the specification needs two candidate days only ================= *)
Theorem spec_exec_complete sm em wds ds T :
  0 <= sm < 1440 -> 0 <= em < 1440 ->
  (spec_exec sm em wds ds T = true <-> spec sm em wds ds T).
Proof.
  intros Hs He. unfold spec_exec, spec, win_start, win_end, day_of. cbn [existsb]. rewrite orb_false_r.
  split.
  - intros H. apply orb_prop in H as [H|H];
      apply andb_prop in H as [H H2]; apply andb_prop in H as [Ha H1].
    + exists (T / DAYNS - 1). split; [exact Ha|]. lia.
    + exists (T / DAYNS). split; [exact Ha|]. lia.
  - intros [D [Ha [H1 H2]]].
    assert (HD : D = T / DAYNS \/ D = T / DAYNS - 1).
    { unfold DAYNS, MINNS in *. destruct (sm <? em); lia. }
    apply orb_true_intro. destruct HD as [->| ->]; [right|left]; rewrite Ha; cbn [andb];
      apply andb_true_intro; split; lia.
Qed.

(* ================= the model against the executable specification ================= *)
Theorem active_spec_exec s T sm em ds :
  strict_hm (s_start s) = Some sm -> strict_hm (s_end s) = Some em ->
  map_opt strict_date (s_dates s) = Some ds ->
  active s T = Ok (spec_exec sm em (s_wd s) ds T).
Proof.
  intros Hst Hen Hds.
  destruct (strict_hm_find _ _ Hst) as [sh [smi [Hfs [Hsh [Hsmi ->]]]]].
  destruct (strict_hm_find _ _ Hen) as [eh [emi [Hfe [Heh [Hemi ->]]]]].
  unfold active. rewrite Hfs, Hfe.
  set (D := day_of T).
  set (trs := if at_hm D sh smi <? at_hm D eh emi then _ else _).
  destruct (filter_dates_existsb (tr_in T) _ _ (filter_wd (s_wd s) trs) Hds) as [l [Hl Hex]].
  rewrite Hl, Hex. f_equal.
  rewrite filter_wd_existsb.
  rewrite (existsb_ext' _ (fun tr => tr_in T tr && allowed (s_wd s) ds (day_of (fst tr)))).
  2:{ intros x. rewrite allowed_split.
      destruct (tr_in T x), (wd_allow (s_wd s) (day_of (fst x))), (dates_allow ds (day_of (fst x))); reflexivity. }
  unfold spec_exec. fold D. cbn [existsb]. rewrite orb_false_r.
  assert (HD : D * DAYNS <= T < D * DAYNS + DAYNS) by (unfold D, day_of, DAYNS; lia).
  clearbody D. subst trs.
  destruct (at_hm D sh smi <? at_hm D eh emi) eqn:Elt; cbn [existsb fst]; rewrite ?orb_false_r.
  - rewrite day_of_at by assumption. rewrite tr_in_eq.
    assert (Hlt : 60 * sh + smi <? 60 * eh + emi = true) by (unfold at_hm, DAYNS, HOURNS, MINNS in *; lia).
    unfold win_start, win_end. rewrite Hlt.
    destruct (allowed (s_wd s) ds D), (allowed (s_wd s) ds (D - 1));
      unfold at_hm, DAYNS, HOURNS, MINNS in *; lia.
  - rewrite day_of_at, day_of_at_prev by assumption. rewrite !tr_in_eq.
    assert (Hlt : 60 * sh + smi <? 60 * eh + emi = false) by (unfold at_hm, DAYNS, HOURNS, MINNS in *; lia).
    unfold win_start, win_end. rewrite Hlt.
    destruct (allowed (s_wd s) ds D), (allowed (s_wd s) ds (D - 1));
      unfold at_hm, DAYNS, HOURNS, MINNS in *; lia.
Qed.

(* the property: active exactly when some allowed day's half-open window contains T *)
Theorem active_exact s T sm em ds :
  strict_hm (s_start s) = Some sm -> strict_hm (s_end s) = Some em ->
  map_opt strict_date (s_dates s) = Some ds ->
  exists b, active s T = Ok b /\ (b = true <-> spec sm em (s_wd s) ds T).
Proof.
  intros Hst Hen Hds. exists (spec_exec sm em (s_wd s) ds T).
  split; [apply active_spec_exec; assumption|].
  destruct (strict_hm_find _ _ Hst) as [sh [smi [_ [Hsh [Hsmi ->]]]]].
  destruct (strict_hm_find _ _ Hen) as [eh [emi [_ [Heh [Hemi ->]]]]].
  apply spec_exec_complete; lia.
Qed.

(* only the instant matters: the zone in which the caller expresses it is not an input *)
Theorem utc_only s sec ns off off' : active_in s sec ns off = active_in s sec ns off'.
Proof. reflexivity. Qed.

(* ================= every minute pair and every date list has a schedule =================
   rendering of a minute of the day as "HH:MM" (and "H:MM" before 10:00) and of
   a date as "YYYY-MM-DD"; the strict reading returns what was rendered *)
Definition dig (k : Z) : N := Z.to_N (48 + k).
Definition fmt2 (n : Z) : bytes := [dig (n / 10); dig (n mod 10)].
Definition fmt_hm (m : Z) : bytes := fmt2 (m / 60) ++ [58%N] ++ fmt2 (m mod 60).
Definition fmt_hm1 (m : Z) : bytes := [dig (m / 60)] ++ [58%N] ++ fmt2 (m mod 60).
Definition fmt_date (x : Z * Z * Z) : bytes :=
  let '(y, m, d) := x in
  [dig (y / 1000); dig (y / 100 mod 10); dig (y / 10 mod 10); dig (y mod 10)] ++ [45%N]
  ++ fmt2 m ++ [45%N] ++ fmt2 d.

Definition sweep (P : Z -> bool) (n : N) : bool :=
  N.recursion true (fun i acc => acc && P (Z.of_N i)) n.

Lemma sweep_succ P n : sweep P (N.succ n) = sweep P n && P (Z.of_N n).
Proof.
  unfold sweep. rewrite N.recursion_succ; [reflexivity|reflexivity|].
  intros a b -> x y ->. reflexivity.
Qed.

Lemma sweep_spec P n : sweep P n = true -> forall i, 0 <= i < Z.of_N n -> P i = true.
Proof.
  induction n as [|n IH] using N.peano_ind; intros H i Hi; [lia|].
  rewrite sweep_succ in H. apply andb_prop in H as [H1 H2].
  destruct (Z.eq_dec i (Z.of_N n)) as [->|Hne]; [exact H2|].
  apply IH; [exact H1|lia].
Qed.

Definition optZ_eqb (a : option Z) (b : Z) : bool := match a with Some x => x =? b | None => false end.

Lemma strict_hm_fmt m : 0 <= m < 1440 -> strict_hm (fmt_hm m) = Some m.
Proof.
  intros H.
  assert (E : optZ_eqb (strict_hm (fmt_hm m)) m = true).
  { apply (sweep_spec (fun m => optZ_eqb (strict_hm (fmt_hm m)) m) 1440); [vm_compute; reflexivity|exact H]. }
  unfold optZ_eqb in E. destruct (strict_hm (fmt_hm m)); [|discriminate]. f_equal. lia.
Qed.

Lemma strict_hm_fmt1 m : 0 <= m < 600 -> strict_hm (fmt_hm1 m) = Some m.
Proof.
  intros H.
  assert (E : optZ_eqb (strict_hm (fmt_hm1 m)) m = true).
  { apply (sweep_spec (fun m => optZ_eqb (strict_hm (fmt_hm1 m)) m) 600); [vm_compute; reflexivity|exact H]. }
  unfold optZ_eqb in E. destruct (strict_hm (fmt_hm1 m)); [|discriminate]. f_equal. lia.
Qed.

Lemma dig_ok k : 0 <= k <= 9 -> is_digit (dig k) = true /\ dval (dig k) = k.
Proof. intros H. unfold is_digit, dval, dig. lia. Qed.

Definition date_digits (x : Z * Z * Z) : Prop :=
  let '(y, m, d) := x in 0 <= y <= 9999 /\ 0 <= m <= 99 /\ 0 <= d <= 99.

Lemma strict_date_fmt x : date_digits x -> strict_date (fmt_date x) = Some x.
Proof.
  destruct x as [[y m] d]. intros [Hy [Hm Hd]].
  unfold fmt_date, fmt2, strict_date. cbn [app forallb].
  destruct (dig_ok (y / 1000)) as [-> ->]; [lia|].
  destruct (dig_ok (y / 100 mod 10)) as [-> ->]; [lia|].
  destruct (dig_ok (y / 10 mod 10)) as [-> ->]; [lia|].
  destruct (dig_ok (y mod 10)) as [-> ->]; [lia|].
  destruct (dig_ok (m / 10)) as [-> ->]; [lia|].
  destruct (dig_ok (m mod 10)) as [-> ->]; [lia|].
  destruct (dig_ok (d / 10)) as [-> ->]; [lia|].
  destruct (dig_ok (d mod 10)) as [-> ->]; [lia|].
  cbn [andb is_dash N.eqb Pos.eqb]. f_equal. f_equal; [f_equal|]; lia.
Qed.

Lemma map_strict_date_fmt ds : Forall date_digits ds -> map_opt strict_date (map fmt_date ds) = Some ds.
Proof.
  induction 1 as [|x ds Hx _ IH]; cbn [map map_opt]; [reflexivity|].
  rewrite (strict_date_fmt _ Hx), IH. reflexivity.
Qed.

(* the property over minute pairs, weekday lists, date lists and instants *)
Theorem active_exact_minutes sm em wds ds T :
  0 <= sm < 1440 -> 0 <= em < 1440 -> Forall date_digits ds ->
  exists b, active {| s_start := fmt_hm sm; s_end := fmt_hm em; s_wd := wds; s_dates := map fmt_date ds |} T = Ok b
            /\ (b = true <-> spec sm em wds ds T).
Proof.
  intros Hs He Hd.
  apply (active_exact {| s_start := fmt_hm sm; s_end := fmt_hm em; s_wd := wds; s_dates := map fmt_date ds |});
    cbn [s_start s_end s_dates].
  - apply strict_hm_fmt, Hs.
  - apply strict_hm_fmt, He.
  - apply map_strict_date_fmt, Hd.
Qed.

(* ================= helpers for writing concrete examples ================= *)
From Coq Require Import String Ascii.
Definition str (s : string) : bytes := List.map N_of_ascii (list_ascii_of_string s).
Definition mk (st en : string) (wds : list Z) (dates : list string) : sched :=
  {| s_start := str st; s_end := str en; s_wd := wds; s_dates := List.map str dates |}.
(* the instant y-m-d hh:mm:ss.ns UTC *)
Definition at_utc (y m d hh mm ss ns : Z) : Z :=
  (days_of_civil (y, m, d) * 86400 + hh * 3600 + mm * 60 + ss) * NS + ns.
