(* C14, calendar: the days-to-date function of the model against its
   specification (epoch, successor, validity, inverse). *)
From Verif Require Import Base.Bytes Base.Val Sched.Model.
From Coq Require Import ZifyBool.
Local Open Scope Z_scope.
Ltac Zify.zify_post_hook ::= Z.div_mod_to_equations.

(* ================= calendar ================= *)
Lemma ymd_eqb_eq a b : ymd_eqb a b = true <-> a = b.
Proof.
  destruct a as [[y1 m1] d1], b as [[y2 m2] d2]. unfold ymd_eqb.
  rewrite !andb_true_iff, !Z.eqb_eq. split.
  - intros [[-> ->] ->]. reflexivity.
  - intros E. inversion E. auto.
Qed.

Lemma ymd_eqb_sym a b : ymd_eqb a b = ymd_eqb b a.
Proof.
  destruct (ymd_eqb a b) eqn:E1, (ymd_eqb b a) eqn:E2; try reflexivity.
  - apply ymd_eqb_eq in E1. subst. assert (ymd_eqb b b = true) by (apply ymd_eqb_eq; reflexivity). congruence.
  - apply ymd_eqb_eq in E2. subst. assert (ymd_eqb a a = true) by (apply ymd_eqb_eq; reflexivity). congruence.
Qed.

Definition shift_y (k : Z) (x : Z * Z * Z) : Z * Z * Z :=
  let '(y, m, d) := x in (y + 400 * k, m, d).

Lemma civil_cyc D :
  civil D = shift_y ((D + 719468) / 146097) (cyc ((D + 719468) mod 146097)).
Proof. unfold civil, shift_y. destruct (cyc _) as [[y m] d]. reflexivity. Qed.

Lemma leap_shift y k : leap (y + 400 * k) = leap y.
Proof.
  unfold leap.
  replace ((y + 400 * k) mod 4) with (y mod 4) by lia.
  replace ((y + 400 * k) mod 100) with (y mod 100) by lia.
  replace ((y + 400 * k) mod 400) with (y mod 400) by lia.
  reflexivity.
Qed.

Lemma month_len_shift y k m : month_len (y + 400 * k) m = month_len y m.
Proof. unfold month_len. rewrite leap_shift. reflexivity. Qed.

Lemma next_day_shift k x : next_day (shift_y k x) = shift_y k (next_day x).
Proof.
  destruct x as [[y m] d]. unfold next_day, shift_y. rewrite month_len_shift.
  destruct (d <? month_len y m); [reflexivity|].
  destruct (m <? 12); [reflexivity|]. f_equal. f_equal. lia.
Qed.

Lemma valid_date_shift k x : valid_date (shift_y k x) = valid_date x.
Proof. destruct x as [[y m] d]. unfold valid_date, shift_y. rewrite month_len_shift. reflexivity. Qed.

(* the three facts checked on every day of one 400-year cycle, in one pass that
   carries [cyc i] along (one evaluation of [cyc] per day) *)
Definition cyc_ok (i : Z) : bool :=
  ymd_eqb (cyc (i + 1)) (next_day (cyc i)) && valid_date (cyc i)
  && (days_of_civil (cyc i) =? i - 719468).

Definition cyc_step (i : N) (st : bool * (Z * Z * Z)) : bool * (Z * Z * Z) :=
  let '(acc, c) := st in
  let c' := cyc (Z.of_N i + 1) in
  (acc && (ymd_eqb c' (next_day c) && valid_date c && (days_of_civil c =? Z.of_N i - 719468)), c').

Definition cyc_run (n : N) : bool * (Z * Z * Z) := N.recursion (true, cyc 0) cyc_step n.

Lemma cyc_run_succ n : cyc_run (N.succ n) = cyc_step n (cyc_run n).
Proof.
  unfold cyc_run. rewrite N.recursion_succ; [reflexivity|reflexivity|].
  intros a b -> x y ->. reflexivity.
Qed.

Lemma cyc_run_spec n :
  snd (cyc_run n) = cyc (Z.of_N n) /\
  (fst (cyc_run n) = true -> forall i, 0 <= i < Z.of_N n -> cyc_ok i = true).
Proof.
  induction n as [|n [IH1 IH2]] using N.peano_ind.
  - split; [reflexivity|]. intros _ i Hi. lia.
  - rewrite cyc_run_succ. destruct (cyc_run n) as [acc c]. cbn [fst snd] in *. subst c.
    unfold cyc_step. cbn [fst snd]. split.
    + f_equal. lia.
    + intros H i Hi. apply andb_prop in H as [H1 H2].
      destruct (Z.eq_dec i (Z.of_N n)) as [->|Hne]; [exact H2|].
      apply IH2; [exact H1|lia].
Qed.

Lemma cyc_run_true : fst (cyc_run 146096) = true.
Proof. vm_cast_no_check (@eq_refl bool true). Qed.

Lemma cyc_ok_all i : 0 <= i < 146096 -> cyc_ok i = true.
Proof. intros H. apply (proj2 (cyc_run_spec 146096) cyc_run_true). exact H. Qed.

Lemma cyc_succ_ok i : 0 <= i < 146096 -> cyc (i + 1) = next_day (cyc i).
Proof.
  intros H. apply cyc_ok_all in H. unfold cyc_ok in H.
  apply andb_prop in H as [H _]. apply andb_prop in H as [H _]. apply ymd_eqb_eq. exact H.
Qed.

Lemma cyc_valid_ok i : 0 <= i < 146097 -> valid_date (cyc i) = true.
Proof.
  intros H. destruct (Z.eq_dec i 146096) as [->|Hne]; [vm_compute; reflexivity|].
  assert (H' : 0 <= i < 146096) by lia. apply cyc_ok_all in H'. unfold cyc_ok in H'.
  apply andb_prop in H' as [H' _]. apply andb_prop in H' as [_ H']. exact H'.
Qed.

Lemma cyc_inv_ok i : 0 <= i < 146097 -> days_of_civil (cyc i) = i - 719468.
Proof.
  intros H. destruct (Z.eq_dec i 146096) as [->|Hne]; [vm_compute; reflexivity|].
  assert (H' : 0 <= i < 146096) by lia. apply cyc_ok_all in H'. unfold cyc_ok in H'.
  apply andb_prop in H' as [_ H']. apply Z.eqb_eq. exact H'.
Qed.

Lemma cyc_wrap : shift_y 1 (cyc 0) = next_day (cyc 146096).
Proof. vm_compute. reflexivity. Qed.

(* civil 0 is 1 January 1970, and each day's date is the calendar successor of
   the previous day's: together these determine [civil] on all of Z *)
Theorem civil_epoch : civil 0 = (1970, 1, 1).
Proof. vm_compute. reflexivity. Qed.

Theorem civil_succ D : civil (D + 1) = next_day (civil D).
Proof.
  rewrite !civil_cyc.
  set (z := D + 719468). replace (D + 1 + 719468) with (z + 1) by lia.
  rewrite next_day_shift.
  destruct (Z.eq_dec (z mod 146097) 146096) as [E|E].
  - replace ((z + 1) mod 146097) with 0 by lia.
    replace ((z + 1) / 146097) with (z / 146097 + 1) by lia.
    rewrite E, <- cyc_wrap.
    destruct (cyc 0) as [[y m] d]. unfold shift_y. f_equal. f_equal. lia.
  - replace ((z + 1) mod 146097) with (z mod 146097 + 1) by lia.
    replace ((z + 1) / 146097) with (z / 146097) by lia.
    f_equal. apply cyc_succ_ok. lia.
Qed.

Theorem civil_valid D : valid_date (civil D) = true.
Proof.
  rewrite civil_cyc, valid_date_shift.
  apply cyc_valid_ok. lia.
Qed.

Lemma days_of_civil_shift k x : days_of_civil (shift_y k x) = days_of_civil x + 146097 * k.
Proof.
  destruct x as [[y m] d]. unfold days_of_civil, shift_y.
  destruct (m <=? 2).
  - replace ((y + 400 * k - 1) / 400) with ((y - 1) / 400 + k) by lia. lia.
  - replace ((y + 400 * k) / 400) with (y / 400 + k) by lia. lia.
Qed.

(* [days_of_civil] inverts [civil]: distinct days have distinct dates *)
Theorem days_of_civil_civil D : days_of_civil (civil D) = D.
Proof.
  rewrite civil_cyc, days_of_civil_shift.
  assert (H : days_of_civil (cyc ((D + 719468) mod 146097)) = (D + 719468) mod 146097 - 719468).
  { apply cyc_inv_ok. lia. }
  rewrite H. lia.
Qed.

Corollary civil_inj D1 D2 : civil D1 = civil D2 -> D1 = D2.
Proof. intros H. rewrite <- (days_of_civil_civil D1), <- (days_of_civil_civil D2), H. reflexivity. Qed.

(* the weekday advances by one per day, modulo 7; 1970-01-01 was a Thursday *)
Lemma weekday_epoch : weekday 0 = 4.
Proof. reflexivity. Qed.
Lemma weekday_succ D : weekday (D + 1) = (weekday D + 1) mod 7.
Proof. unfold weekday. lia. Qed.
Lemma weekday_range D : 0 <= weekday D < 7.
Proof. unfold weekday. lia. Qed.

