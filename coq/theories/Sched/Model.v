(* C14: executable model of client/schedule.go (schedule.activeForTime with
   timeRanges.filterWeekdays / filterDates / in) and of the property's
   specification.  No proofs here: the model must keep running when a proof
   breaks.

   Instants are integers (Z) counting nanoseconds since 1970-01-01T00:00:00Z,
   the value Go compares in Time.Before / Time.After.  Days are integers
   counting days since the same epoch.  Strings are byte lists. *)
From Verif Require Import Base.Bytes Base.Val.
Local Open Scope Z_scope.

Definition NS : Z := 1000000000.            (* nanoseconds per second *)
Definition MINNS : Z := 60000000000.        (* per minute *)
Definition HOURNS : Z := 3600000000000.     (* per hour *)
Definition DAYNS : Z := 86400000000000.     (* per day *)

(* ---------- calendar: day number -> (year, month, day), proleptic Gregorian ----------
   [cyc doe]: date of the doe-th day (0-based) of a 400-year cycle that starts
   on 1 March of year 0 (mod 400); [civil D]: date of day D since 1970-01-01. *)
Definition cyc (doe : Z) : Z * Z * Z :=
  let yoe := (doe - doe / 1460 + doe / 36524 - doe / 146096) / 365 in
  let doy := doe - (365 * yoe + yoe / 4 - yoe / 100) in
  let mp := (5 * doy + 2) / 153 in
  let d := doy - (153 * mp + 2) / 5 + 1 in
  let m := if mp <? 10 then mp + 3 else mp - 9 in
  (if m <=? 2 then yoe + 1 else yoe, m, d).

Definition civil (D : Z) : Z * Z * Z :=
  let z := D + 719468 in
  let '(y, m, d) := cyc (z mod 146097) in
  (y + 400 * (z / 146097), m, d).

(* specification of the calendar, in the obvious terms: leap years, month
   lengths, the day after a date; and the usual inverse (date -> day number) *)
Definition leap (y : Z) : bool :=
  (y mod 4 =? 0) && (negb (y mod 100 =? 0) || (y mod 400 =? 0)).
Definition month_len (y m : Z) : Z :=
  if m =? 2 then (if leap y then 29 else 28)
  else if (m =? 4) || (m =? 6) || (m =? 9) || (m =? 11) then 30 else 31.
Definition next_day (x : Z * Z * Z) : Z * Z * Z :=
  let '(y, m, d) := x in
  if d <? month_len y m then (y, m, d + 1)
  else if m <? 12 then (y, m + 1, 1) else (y + 1, 1, 1).
Definition valid_date (x : Z * Z * Z) : bool :=
  let '(y, m, d) := x in
  (1 <=? m) && (m <=? 12) && (1 <=? d) && (d <=? month_len y m).
Definition days_of_civil (x : Z * Z * Z) : Z :=
  let '(y, m, d) := x in
  let y' := if m <=? 2 then y - 1 else y in
  let era := y' / 400 in
  let yoe := y' - era * 400 in
  let mp := if 2 <? m then m - 3 else m + 9 in
  let doy := (153 * mp + 2) / 5 + d - 1 in
  let doe := yoe * 365 + yoe / 4 - yoe / 100 + doy in
  era * 146097 + doe - 719468.

(* time.Weekday of a day number: Sunday = 0; 1970-01-01 was a Thursday *)
Definition weekday (D : Z) : Z := (D + 4) mod 7.

Definition ymd_eqb (a b : Z * Z * Z) : bool :=
  let '(y1, m1, d1) := a in let '(y2, m2, d2) := b in
  (y1 =? y2) && (m1 =? m2) && (d1 =? d2).

(* ---------- the regular expressions, as leftmost unanchored searches ----------
   reHourMin = (\d{1,2}):(\d\d)       reDate = (\d{4})-(\d{2})-(\d{2})
   \d is [0-9] in Go's RE2 syntax; a match can only start at an ASCII digit, so
   a byte-wise scan finds the same leftmost match as the rune-wise engine. *)
Definition is_digit (b : N) : bool := ((48 <=? b) && (b <=? 57))%N.
Definition is_colon (b : N) : bool := (b =? 58)%N.
Definition is_dash (b : N) : bool := (b =? 45)%N.
Definition dval (b : N) : Z := Z.of_N (b - 48).
Definition byte_at (l : bytes) (i : nat) : N := nth i l 256%N.   (* 256: past the end *)

(* match at the head of l; the two-digit and one-digit hour alternatives exclude each other *)
Definition hm_at (l : bytes) : option (Z * Z) :=
  let a := byte_at l 0 in let b := byte_at l 1 in let c := byte_at l 2 in
  let d := byte_at l 3 in let e := byte_at l 4 in
  if is_digit a && is_digit b && is_colon c && is_digit d && is_digit e
  then Some (10 * dval a + dval b, 10 * dval d + dval e)
  else if is_digit a && is_colon b && is_digit c && is_digit d
  then Some (dval a, 10 * dval c + dval d)
  else None.

Fixpoint find_hm (l : bytes) : option (Z * Z) :=
  match hm_at l with
  | Some r => Some r
  | None => match l with [] => None | _ :: l' => find_hm l' end
  end.

Definition date_at (l : bytes) : option (Z * Z * Z) :=
  let g := byte_at l in
  if is_digit (g 0%nat) && is_digit (g 1%nat) && is_digit (g 2%nat) && is_digit (g 3%nat) && is_dash (g 4%nat)
     && is_digit (g 5%nat) && is_digit (g 6%nat) && is_dash (g 7%nat) && is_digit (g 8%nat) && is_digit (g 9%nat)
  then Some (1000 * dval (g 0%nat) + 100 * dval (g 1%nat) + 10 * dval (g 2%nat) + dval (g 3%nat),
             10 * dval (g 5%nat) + dval (g 6%nat),
             10 * dval (g 8%nat) + dval (g 9%nat))
  else None.

Fixpoint find_date (l : bytes) : option (Z * Z * Z) :=
  match date_at l with
  | Some r => Some r
  | None => match l with [] => None | _ :: l' => find_date l' end
  end.

(* ---------- activeForTime ---------- *)
Inductive outcome :=
| Ok (b : bool)
| Err (e : N)      (* 1 invalid start, 2 invalid end, 3 invalid date, 8 other *)
| Panic.

Definition outcome_eqb (a b : outcome) : bool :=
  match a, b with
  | Ok x, Ok y => Bool.eqb x y
  | Err x, Err y => (x =? y)%N
  | Panic, Panic => true
  | _, _ => false
  end.

Record sched := {
  s_start : bytes; s_end : bytes;
  s_wd : list Z;             (* []time.Weekday *)
  s_dates : list bytes
}.

Definition range := (Z * Z)%type.          (* timeRange{start, end}, instants *)
Definition day_of (x : Z) : Z := x / DAYNS.  (* UTC day number of an instant *)

(* timeRange.in *)
Definition tr_in (T : Z) (tr : range) : bool :=
  let '(a, b) := tr in
  if b <? a then false                      (* "BUG" branch *)
  else if T <? a then false
  else if T <? b then true
  else false.

(* timeRanges.filterWeekdays: keep ranges whose start falls on a listed weekday *)
Definition filter_wd (wds : list Z) (trs : list range) : list range :=
  match wds with
  | [] => trs
  | _ => filter (fun tr => existsb (Z.eqb (weekday (day_of (fst tr)))) wds) trs
  end.

(* inner loop of filterDates for one range: None = "Invalid date" *)
Fixpoint dates_keep (tr : range) (dates : list bytes) : option (list range) :=
  match dates with
  | [] => Some []
  | d :: ds =>
      match find_date d with
      | None => None
      | Some ymd =>
          match dates_keep tr ds with
          | None => None
          | Some r => Some (if ymd_eqb ymd (civil (day_of (fst tr))) then tr :: r else r)
          end
      end
  end.

Fixpoint filter_dates_go (dates : list bytes) (trs : list range) : option (list range) :=
  match trs with
  | [] => Some []                           (* no range left: the dates are never parsed *)
  | tr :: rest =>
      match dates_keep tr dates with
      | None => None
      | Some a => match filter_dates_go dates rest with
                  | None => None
                  | Some b => Some (a ++ b)
                  end
      end
  end.

Definition filter_dates (dates : list bytes) (trs : list range) : option (list range) :=
  match dates with
  | [] => Some trs
  | _ => filter_dates_go dates trs
  end.

(* time.Date(y, m, d, hour, min, 0, 0, UTC) for the day of T; hour and minute may
   exceed 23 / 59 (the expression has up to two digits each) and then overflow
   into the following days exactly as time.Date normalises them *)
Definition at_hm (D h mi : Z) : Z := D * DAYNS + h * HOURNS + mi * MINNS.

Definition active (s : sched) (T : Z) : outcome :=
  match find_hm (s_start s) with
  | None => Err 1
  | Some (sh, smi) =>
    match find_hm (s_end s) with
    | None => Err 2
    | Some (eh, emi) =>
        let D := day_of T in
        let st := at_hm D sh smi in
        let en := at_hm D eh emi in
        let trs := if st <? en then [(st, en)]
                   else [(st, en + DAYNS); (st - DAYNS, en)] in
        let trs := filter_wd (s_wd s) trs in
        match filter_dates (s_dates s) trs with
        | None => Err 3
        | Some trs => Ok (existsb (tr_in T) trs)
        end
    end
  end.

(* the instant as the caller holds it: Unix seconds, nanoseconds, and the zone
   offset of the time.Time value's Location; activeForTime starts with t.UTC() *)
Definition instant (sec ns : Z) : Z := sec * NS + ns.
Definition active_in (s : sched) (sec ns off : Z) : outcome := active s (instant sec ns).

(* ---------- specification ----------
   Strict reading of the schedule: "H:MM" / "HH:MM" with H < 24, MM < 60 as the
   whole string, dates "YYYY-MM-DD" as the whole string. Written without the
   model's parsers. *)
Definition hm_chk (h mi : Z) : option Z :=
  if (h <? 24) && (mi <? 60) then Some (60 * h + mi) else None.

Definition strict_hm (l : bytes) : option Z :=      (* minute of the day *)
  match l with
  | [a; c; d; e] =>
      if is_digit a && is_colon c && is_digit d && is_digit e
      then hm_chk (dval a) (10 * dval d + dval e) else None
  | [a; b; c; d; e] =>
      if is_digit a && is_digit b && is_colon c && is_digit d && is_digit e
      then hm_chk (10 * dval a + dval b) (10 * dval d + dval e) else None
  | _ => None
  end.

Definition strict_date (l : bytes) : option (Z * Z * Z) :=
  match l with
  | [y1; y2; y3; y4; s1; m1; m2; s2; d1; d2] =>
      if forallb is_digit [y1; y2; y3; y4; m1; m2; d1; d2] && is_dash s1 && is_dash s2
      then Some (1000 * dval y1 + 100 * dval y2 + 10 * dval y3 + dval y4,
                 10 * dval m1 + dval m2, 10 * dval d1 + dval d2)
      else None
  | _ => None
  end.

(* day D is allowed by the weekday and date filters (an empty filter allows every day) *)
Definition allowed (wds : list Z) (ds : list (Z * Z * Z)) (D : Z) : bool :=
  (match wds with [] => true | _ => existsb (Z.eqb (weekday D)) wds end) &&
  (match ds with [] => true | _ => existsb (ymd_eqb (civil D)) ds end).

Definition win_start (sm D : Z) : Z := D * DAYNS + sm * MINNS.
Definition win_end (sm em D : Z) : Z := (if sm <? em then D else D + 1) * DAYNS + em * MINNS.

(* the property's right-hand side *)
Definition spec (sm em : Z) (wds : list Z) (ds : list (Z * Z * Z)) (T : Z) : Prop :=
  exists D, allowed wds ds D = true /\ win_start sm D <= T < win_end sm em D.

(* executable form: a window is at most 24 h long, so only the day of T and the
   day before can qualify (Proofs.spec_exec_complete) *)
Definition spec_exec (sm em : Z) (wds : list Z) (ds : list (Z * Z * Z)) (T : Z) : bool :=
  existsb (fun D => allowed wds ds D && (win_start sm D <=? T) && (T <? win_end sm em D))
          [day_of T - 1; day_of T].

(* ---------- case checker (correspondence + specification) ---------- *)
Record case := {
  c_sched : sched;
  c_sec : Z; c_ns : Z;           (* t.Unix(), t.Nanosecond() *)
  c_zones : list Z;              (* zone offset of each time.Time value handed to the code *)
  c_outs : list outcome;         (* result per zone *)
  c_go_date : Z * Z * Z;         (* t.UTC().Date() *)
  c_go_wd : Z                    (* t.UTC().Weekday() *)
}.

Definition all_equal (l : list outcome) : bool :=
  match l with [] => true | x :: r => forallb (outcome_eqb x) r end.

Definition strict_sched (s : sched) : option (Z * Z * list (Z * Z * Z)) :=
  sm <- strict_hm (s_start s) ;; em <- strict_hm (s_end s) ;;
  ds <- map_opt strict_date (s_dates s) ;; Some (sm, em, ds).

Definition check_case (c : case) : N :=
  let s := c_sched c in
  let T := instant (c_sec c) (c_ns c) in
  let outs := c_outs c in
  let corr :=
    negb (length outs =? 0)%nat && (length outs =? length (c_zones c))%nat
    && forallb (fun '(off, o) => outcome_eqb (active_in s (c_sec c) (c_ns c) off) o) (combine (c_zones c) outs)
    && ymd_eqb (civil (day_of T)) (c_go_date c) && (weekday (day_of T) =? c_go_wd c) in
  let spec_ok :=
    all_equal outs        (* only the instant matters, whatever the zone it is expressed in *)
    && match strict_sched s with
       | Some (sm, em, ds) => forallb (outcome_eqb (Ok (spec_exec sm em (s_wd s) ds T))) outs
       | None => true     (* not a schedule the property speaks about *)
       end in
  code corr spec_ok.

(* ---------- decoding a case handed over by the harness ---------- *)
Definition outcome_of_val (v : val) : option outcome :=
  match v with
  | VL [VN 0; VN b] => Some (Ok (negb (b =? 0)%N))
  | VL [VN 1; VN e] => Some (Err e)
  | VL [VN 2] => Some Panic
  | _ => None
  end.

Definition case_of_val (v : val) : option case :=
  match v with
  | VL [st; en; wd; dt; sec; ns; zs; outs; VL [y; m; d]; gwd] =>
      st <- get_b st ;; en <- get_b en ;; wd <- get_list get_z wd ;; dt <- get_list get_b dt ;;
      sec <- get_z sec ;; ns <- get_z ns ;; zs <- get_list get_z zs ;;
      outs <- get_list outcome_of_val outs ;;
      y <- get_z y ;; m <- get_z m ;; d <- get_z d ;; gwd <- get_z gwd ;;
      if (0 <=? ns) && (ns <? NS) then
        Some {| c_sched := {| s_start := st; s_end := en; s_wd := wd; s_dates := dt |};
                c_sec := sec; c_ns := ns; c_zones := zs; c_outs := outs;
                c_go_date := (y, m, d); c_go_wd := gwd |}
      else None
  | _ => None
  end.

Definition check_val : val -> N := check_with case_of_val check_case.
