(* C13: executable model of client/rule.go (ruleProcessPoints, the error
   bookkeeping of processError, ruleRunActions, ruleInactiveActions, the
   [run] closure of RuleClient.Run for a non-empty batch of points and the
   configuration-change path of Run: merge of new points for the rule or one
   of its children, then run("", nil)) and of the property's specification.  No proofs here.

   float64 values are carried as their IEEE-754 bit patterns (N below 2^64);
   Go strings are byte strings.  The schedule window test (activeForTime,
   property C14) is a parameter: a condition carries an opaque handle
   [c_sched] standing for its (start, end, weekdays, dates) and the window
   function maps handle and instant to inside / outside / error text. *)
From Coq Require Import String Ascii.
From Verif Require Import Base.Bytes Base.Val.
Local Open Scope N_scope.

(* ---------- string constants of data/schema.go and of the error texts ---------- *)
Fixpoint bs (s : string) : bytes :=
  match s with
  | EmptyString => []
  | String c s' => N_of_ascii c :: bs s'
  end.

Definition s_pointValue := Eval compute in bs "pointValue".
Definition s_schedule := Eval compute in bs "schedule".
Definition s_number := Eval compute in bs "number".
Definition s_text := Eval compute in bs "text".
Definition s_onOff := Eval compute in bs "onOff".
Definition s_gt := Eval compute in bs ">".
Definition s_lt := Eval compute in bs "<".
Definition s_eq := Eval compute in bs "=".
Definition s_ne := Eval compute in bs "!=".
Definition s_contains := Eval compute in bs "contains".
Definition s_trigger := Eval compute in bs "trigger".
Definition s_active := Eval compute in bs "active".
Definition s_error := Eval compute in bs "error".
Definition s_setValue := Eval compute in bs "setValue".
Definition s_notify := Eval compute in bs "notify".
Definition s_playAudio := Eval compute in bs "playAudio".
Definition s_description := Eval compute in bs "description".
Definition s_value := Eval compute in bs "value".
Definition s_valueText := Eval compute in bs "valueText".
Definition s_operator := Eval compute in bs "operator".
Definition s_start := Eval compute in bs "start".
Definition s_end := Eval compute in bs "end".
Definition e_vtype := Eval compute in bs "unknown value type: ".
Definition e_sched := Eval compute in bs "Error parsing schedule: ".
Definition e_nodeid := Eval compute in bs "Error, node action nodeID must be set".
Definition e_ptype := Eval compute in bs "Error, node action point type must be set".
Definition e_action := Eval compute in bs "Uknown rule action: ".

Definition is_empty (b : bytes) : bool := match b with [] => true | _ => false end.

(* ---------- Go's float64 comparisons on bit patterns ---------- *)
Definition two52 : N := Eval compute in 2 ^ 52.
Definition two63 : N := Eval compute in 2 ^ 63.
Definition two64 : N := Eval compute in 2 ^ 64.
Definition f_one : N := Eval compute in 1023 * 2 ^ 52.     (* 1.0 *)

Definition f_nan (b : N) : bool := ((b / two52) mod 2048 =? 2047) && negb (b mod two52 =? 0).
(* order-preserving key of a non-NaN value; +0 and -0 both map to 0 *)
Definition f_key (b : N) : Z := if b <? two63 then Z.of_N b else (- Z.of_N (b - two63))%Z.
Definition f_ord (a b : N) : bool := negb (f_nan a) && negb (f_nan b).
Definition f_lt (a b : N) : bool := f_ord a b && (f_key a <? f_key b)%Z.
Definition f_gt (a b : N) : bool := f_lt b a.
Definition f_eq (a b : N) : bool := f_ord a b && (f_key a =? f_key b)%Z.
Definition f_ne (a b : N) : bool := negb (f_eq a b).
Definition f_nonzero (a : N) : bool := f_ne a 0.           (* Go: a != 0 *)
Definition b2f (b : bool) : N := if b then f_one else 0.   (* data.BoolToFloat *)

(* ---------- strings.Contains ---------- *)
Fixpoint is_prefix (a l : bytes) : bool :=
  match a, l with
  | [], _ => true
  | x :: a', y :: l' => (x =? y) && is_prefix a' l'
  | _ :: _, [] => false
  end.

Fixpoint contains (hay needle : bytes) : bool :=
  is_prefix needle hay || match hay with [] => false | _ :: hay' => contains hay' needle end.

(* ---------- data ---------- *)
Record point := { p_type : bytes; p_key : bytes; p_time : Z; p_value : N; p_text : bytes }.

(* a point the rule client sends: destination node and the point's fields
   (time excluded).  [o_tag] is a ghost annotation naming the place in the code
   that sends it (0 condition / rule state, 1 error bookkeeping, 2 set-value
   action, 3 action marked active / inactive); it is not compared with the
   implementation. *)
Record out := { o_tag : N; o_node : bytes; o_type : bytes; o_key : bytes; o_value : N; o_text : bytes; o_origin : bytes }.

Record ccfg := { c_id : bytes; c_ctype : bytes; c_node : bytes; c_ptype : bytes; c_pkey : bytes;
                 c_vtype : bytes; c_op : bytes; c_value : N; c_vtext : bytes; c_sched : N }.
Record cond := { c_cfg : ccfg; c_active : bool; c_error : bytes }.

Record acfg := { a_id : bytes; a_action : bytes; a_node : bytes; a_ptype : bytes; a_value : N; a_vtext : bytes }.
Record action := { a_cfg : acfg; a_active : bool; a_error : bytes }.

Record rule := { r_id : bytes; r_active : bool; r_error : bytes;
                 r_conds : list cond; r_acts : list action; r_iacts : list action }.

Inductive wres := WIn (b : bool) | WErr (e : bytes).
Definition window_t := N -> Z -> wres.

Definition set_c_active (c : cond) (a : bool) : cond := {| c_cfg := c_cfg c; c_active := a; c_error := c_error c |}.
Definition set_c_error (c : cond) (e : bytes) : cond := {| c_cfg := c_cfg c; c_active := c_active c; c_error := e |}.
Definition set_a_active (x : action) (a : bool) : action := {| a_cfg := a_cfg x; a_active := a; a_error := a_error x |}.
Definition set_a_error (x : action) (e : bytes) : action := {| a_cfg := a_cfg x; a_active := a_active x; a_error := e |}.

(* RuleClient.sendPoint: the origin is the rule unless the point goes to the rule's own node *)
Definition mk_out (tag : N) (rid node typ : bytes) (value : N) (text origin : bytes) : out :=
  {| o_tag := tag; o_node := node; o_type := typ; o_key := []; o_value := value; o_text := text;
     o_origin := if bytes_eqb node rid then origin else rid |}.

(* ---------- evaluation of one condition on one point ---------- *)
Inductive ev :=
| EvSkip                                  (* [continue]: the point is not for this condition *)
| EvSet (a : bool) (err : option bytes)   (* the condition becomes [a]; processError was called with [err] *)
| EvErr (e : bytes).                      (* processError then [continue] *)

Definition filt (f v : bytes) : bool := is_empty f || bytes_eqb f v.

Definition num_cmp (op : bytes) (pv cv : N) : bool :=
  if bytes_eqb op s_gt then f_gt pv cv
  else if bytes_eqb op s_lt then f_lt pv cv
  else if bytes_eqb op s_eq then f_eq pv cv
  else if bytes_eqb op s_ne then f_ne pv cv
  else false.

Definition text_cmp (op : bytes) (pt ct : bytes) : bool :=
  if bytes_eqb op s_eq then bytes_eqb pt ct
  else if bytes_eqb op s_ne then negb (bytes_eqb pt ct)
  else if bytes_eqb op s_contains then contains pt ct
  else false.

(* the pinned code: the three text operators are empty switch cases *)
Definition text_cmp_legacy (op : bytes) (pt ct : bytes) : bool := false.

Section Process.
Variable tcmp : bytes -> bytes -> bytes -> bool.    (* text_cmp, or text_cmp_legacy in Legacy.v *)
Variable w : window_t.

Definition eval_cond (c : ccfg) (node : bytes) (p : point) : ev :=
  if bytes_eqb (c_ctype c) s_pointValue then
    if negb (filt (c_node c) node) then EvSkip
    else if negb (filt (c_pkey c) (p_key p)) then EvSkip
    else if negb (filt (c_ptype c) (p_type p)) then EvSkip
    else if bytes_eqb (c_vtype c) s_number then EvSet (num_cmp (c_op c) (p_value p) (c_value c)) None
    else if bytes_eqb (c_vtype c) s_text then EvSet (tcmp (c_op c) (p_text p) (c_vtext c)) None
    else if bytes_eqb (c_vtype c) s_onOff then EvSet (Bool.eqb (f_nonzero (c_value c)) (f_nonzero (p_value p))) None
    else EvSet false (Some (e_vtype ++ c_vtype c))
  else if bytes_eqb (c_ctype c) s_schedule then
    if negb (bytes_eqb (p_type p) s_trigger) then EvSkip
    else match w (c_sched c) (p_time p) with
         | WIn b => EvSet b None
         | WErr e => EvErr (e_sched ++ e)
         end
  else EvSet false None.

(* ---------- error bookkeeping ---------- *)
Fixpoint first_err {A} (err : A -> bytes) (l : list A) : option bytes :=
  match l with
  | [] => None
  | x :: l' => if is_empty (err x) then first_err err l' else Some (err x)
  end.

(* the scan of RuleClient.processError(""): each of the three loops overwrites
   what the previous one found *)
Definition found_err (cs : list cond) (acts iacts : list action) : bytes :=
  match first_err a_error iacts with
  | Some e => e
  | None => match first_err a_error acts with
            | Some e => e
            | None => match first_err c_error cs with Some e => e | None => [] end
            end
  end.

(* RuleClient.processError(errS): [found] is the result of the scan, used when errS = "" *)
Definition rule_err (rid rerr errS found : bytes) : bytes * list out :=
  let target := if is_empty errS then found else errS in
  if bytes_eqb target rerr then (rerr, [])
  else (target, [mk_out 1 rid rid s_error 0 target []]).

(* the closure processError of ruleProcessPoints *)
Definition cond_perr (rid : bytes) (c : cond) (rerr e : bytes) : cond * bytes * list out :=
  let '(c1, o1) := if bytes_eqb (c_error c) e then (c, [])
                   else (set_c_error c e, [mk_out 1 rid (c_id (c_cfg c)) s_error 0 e []]) in
  let '(rerr1, o2) := rule_err rid rerr e [] in
  (c1, rerr1, o1 ++ o2).

(* body of the inner loop of ruleProcessPoints for condition [c]; [done] are the
   conditions before it (reversed), [todo] those after it *)
Definition cond_step (rid node : bytes) (p : point) (acts iacts : list action) (rerr : bytes)
           (done : list cond) (c : cond) (todo : list cond) : cond * bytes * list out :=
  match eval_cond (c_cfg c) node p with
  | EvSkip => (c, rerr, [])
  | EvErr e => cond_perr rid c rerr e
  | EvSet a oe =>
      let '(c1, rerr1, o1) := match oe with
                              | Some e => cond_perr rid c rerr e
                              | None => (c, rerr, [])
                              end in
      let '(c2, o2) := if Bool.eqb a (c_active c) then (c1, [])
                       else (set_c_active c1 a, [mk_out 0 rid (c_id (c_cfg c)) s_active (b2f a) [] []]) in
      match oe with
      | Some _ => (c2, rerr1, o1 ++ o2)
      | None =>
          if is_empty (c_error c) then (c2, rerr1, o1 ++ o2)
          else
            let c3 := set_c_error c2 [] in
            let '(rerr3, o3) := rule_err rid rerr1 [] (found_err (rev done ++ c3 :: todo) acts iacts) in
            (c3, rerr3, o1 ++ o2 ++ mk_out 1 rid (c_id (c_cfg c)) s_error 0 [] [] :: o3)
      end
  end.

Fixpoint conds_loop (rid node : bytes) (p : point) (acts iacts : list action) (rerr : bytes)
         (done todo : list cond) : list cond * bytes * list out :=
  match todo with
  | [] => (rev done, rerr, [])
  | c :: todo' =>
      let '(c', rerr', o1) := cond_step rid node p acts iacts rerr done c todo' in
      let '(cs, rerr'', o2) := conds_loop rid node p acts iacts rerr' (c' :: done) todo' in
      (cs, rerr'', o1 ++ o2)
  end.

Fixpoint points_loop (rid node : bytes) (acts iacts : list action) (cs : list cond) (rerr : bytes)
         (pts : list point) : list cond * bytes * list out :=
  match pts with
  | [] => (cs, rerr, [])
  | p :: pts' =>
      let '(cs1, rerr1, o1) := conds_loop rid node p acts iacts rerr [] cs in
      let '(cs2, rerr2, o2) := points_loop rid node acts iacts cs1 rerr1 pts' in
      (cs2, rerr2, o1 ++ o2)
  end.

(* ruleProcessPoints: new configuration, points sent, the two results (active, changed) *)
Definition process (r : rule) (node : bytes) (pts : list point) : rule * list out * bool * bool :=
  let '(cs, rerr, o) := points_loop (r_id r) node (r_acts r) (r_iacts r) (r_conds r) (r_error r) pts in
  let all := forallb c_active cs in
  let changed := negb (Bool.eqb all (r_active r)) in
  let o' := if changed then [mk_out 0 (r_id r) (r_id r) s_active (b2f all) [] []] else [] in
  ({| r_id := r_id r; r_active := all; r_error := rerr; r_conds := cs; r_acts := r_acts r; r_iacts := r_iacts r |},
   o ++ o', all, changed).

(* ---------- actions ---------- *)
(* the closure processError of ruleRunActions *)
Definition act_perr (rid : bytes) (a : action) (rerr e : bytes) : action * bytes * list out :=
  let '(a1, o1) := if bytes_eqb (a_error a) e then (a, [])
                   else (set_a_error a e, [mk_out 1 rid (a_id (a_cfg a)) s_error 0 e []]) in
  let '(rerr1, o2) := rule_err rid rerr e [] in
  (a1, rerr1, o1 ++ o2).

(* the [switch a.Action]: an error for processError, or the set-value point *)
Definition act_switch (rid : bytes) (a : acfg) : bytes + list out :=
  if bytes_eqb (a_action a) s_setValue then
    if is_empty (a_node a) then inl e_nodeid
    else if is_empty (a_ptype a) then inl e_ptype
    else inr [mk_out 2 rid (a_node a) (a_ptype a) (a_value a) (a_vtext a) (a_id a)]
  else inl (e_action ++ a_action a).       (* notify and playAudio are outside the model, see [act_in_scope] *)

Definition act_in_scope (a : action) : bool :=
  negb (bytes_eqb (a_action (a_cfg a)) s_notify) && negb (bytes_eqb (a_action (a_cfg a)) s_playAudio).

(* body of the loop of ruleRunActions; [found l] is the error scan of
   processError("") when the list being run currently is [l] *)
Definition act_step (rid : bytes) (found : list action -> bytes) (rerr : bytes)
           (done : list action) (a : action) (todo : list action) : action * bytes * list out :=
  let '(a1, rerr1, o1, err_active) :=
    match act_switch rid (a_cfg a) with
    | inl e => let '(a1, rerr1, o) := act_perr rid a rerr e in (a1, rerr1, o, true)
    | inr o => (a, rerr, o, false)
    end in
  let o2 := [mk_out 3 rid (a_id (a_cfg a)) s_active f_one [] []] in
  let a2 := set_a_active a1 true in
  if err_active || is_empty (a_error a) then (a2, rerr1, o1 ++ o2)
  else
    let a3 := set_a_error a2 [] in
    let '(rerr3, o3) := rule_err rid rerr1 [] (found (rev done ++ a3 :: todo)) in
    (a3, rerr3, o1 ++ o2 ++ mk_out 1 rid (a_id (a_cfg a)) s_error 0 [] [] :: o3).

Fixpoint acts_loop (rid : bytes) (found : list action -> bytes) (rerr : bytes)
         (done todo : list action) : list action * bytes * list out :=
  match todo with
  | [] => (rev done, rerr, [])
  | a :: todo' =>
      let '(a', rerr', o1) := act_step rid found rerr done a todo' in
      let '(l, rerr'', o2) := acts_loop rid found rerr' (a' :: done) todo' in
      (l, rerr'', o1 ++ o2)
  end.

(* ruleInactiveActions *)
Definition inactive_loop (rid : bytes) (l : list action) : list action * list out :=
  (map (fun a => set_a_active a false) l,
   map (fun a => mk_out 3 rid (a_id (a_cfg a)) s_active 0 [] []) l).

(* the tail of the [run] closure of RuleClient.Run: the action list of the
   state [active] runs, the opposite list is marked inactive *)
Definition run_lists (r1 : rule) (active : bool) : rule * list out :=
  if active then
    let '(acts', rerr', o2) :=
      acts_loop (r_id r1) (fun l => found_err (r_conds r1) l (r_iacts r1)) (r_error r1) [] (r_acts r1) in
    let '(iacts', o3) := inactive_loop (r_id r1) (r_iacts r1) in
    ({| r_id := r_id r1; r_active := r_active r1; r_error := rerr'; r_conds := r_conds r1;
        r_acts := acts'; r_iacts := iacts' |}, o2 ++ o3)
  else
    let '(iacts', rerr', o2) :=
      acts_loop (r_id r1) (fun l => found_err (r_conds r1) (r_acts r1) l) (r_error r1) [] (r_iacts r1) in
    let '(acts', o3) := inactive_loop (r_id r1) (r_acts r1) in
    ({| r_id := r_id r1; r_active := r_active r1; r_error := rerr'; r_conds := r_conds r1;
        r_acts := acts'; r_iacts := iacts' |}, o2 ++ o3).

(* the [run] closure of RuleClient.Run for a non-empty batch: nothing more
   happens unless ruleProcessPoints reports a change of state *)
Definition step (r : rule) (node : bytes) (pts : list point) : rule * list out :=
  let '(r1, o1, active, changed) := process r node pts in
  if negb changed then (r1, o1)
  else let '(r2, o2) := run_lists r1 active in (r2, o1 ++ o2).

(* ---------- the configuration-change path of Run ----------
   The manager hands the client points for the rule node or one of its
   children (channel newPoints); Run merges them into the configuration
   (data.MergePoints) and calls run("", nil).  Modelled for the points listed
   in [cfg_in_scope]: a scalar field takes the value / text of the last point
   of its type (Decode: one group per type, setVal for each point in order; the
   key is ignored for a scalar field), the description is not part of the
   model's configuration, and an edit of a schedule's start or end replaces the
   opaque schedule handle by [sch], the handle the harness assigns to the
   condition's (start, end, weekdays, dates) after the merge. *)
Definition set_c_cfg (c : cond) (k : ccfg) : cond := {| c_cfg := k; c_active := c_active c; c_error := c_error c |}.
Definition set_a_cfg (a : action) (k : acfg) : action := {| a_cfg := k; a_active := a_active a; a_error := a_error a |}.

Definition ccfg_set_value (k : ccfg) (v : N) : ccfg :=
  {| c_id := c_id k; c_ctype := c_ctype k; c_node := c_node k; c_ptype := c_ptype k; c_pkey := c_pkey k; c_vtype := c_vtype k;
     c_op := c_op k; c_value := v; c_vtext := c_vtext k; c_sched := c_sched k |}.
Definition ccfg_set_vtext (k : ccfg) (t : bytes) : ccfg :=
  {| c_id := c_id k; c_ctype := c_ctype k; c_node := c_node k; c_ptype := c_ptype k; c_pkey := c_pkey k; c_vtype := c_vtype k;
     c_op := c_op k; c_value := c_value k; c_vtext := t; c_sched := c_sched k |}.
Definition ccfg_set_op (k : ccfg) (t : bytes) : ccfg :=
  {| c_id := c_id k; c_ctype := c_ctype k; c_node := c_node k; c_ptype := c_ptype k; c_pkey := c_pkey k; c_vtype := c_vtype k;
     c_op := t; c_value := c_value k; c_vtext := c_vtext k; c_sched := c_sched k |}.
Definition ccfg_set_sched (k : ccfg) (h : N) : ccfg :=
  {| c_id := c_id k; c_ctype := c_ctype k; c_node := c_node k; c_ptype := c_ptype k; c_pkey := c_pkey k; c_vtype := c_vtype k;
     c_op := c_op k; c_value := c_value k; c_vtext := c_vtext k; c_sched := h |}.
Definition acfg_set_value (k : acfg) (v : N) : acfg :=
  {| a_id := a_id k; a_action := a_action k; a_node := a_node k; a_ptype := a_ptype k; a_value := v; a_vtext := a_vtext k |}.
Definition acfg_set_vtext (k : acfg) (t : bytes) : acfg :=
  {| a_id := a_id k; a_action := a_action k; a_node := a_node k; a_ptype := a_ptype k; a_value := a_value k; a_vtext := t |}.

Definition is_sched_edit (p : point) : bool := bytes_eqb (p_type p) s_start || bytes_eqb (p_type p) s_end.

(* one point merged into a condition / an action *)
Definition merge_ccfg (k : ccfg) (p : point) : ccfg :=
  if bytes_eqb (p_type p) s_value then ccfg_set_value k (p_value p)
  else if bytes_eqb (p_type p) s_valueText then ccfg_set_vtext k (p_text p)
  else if bytes_eqb (p_type p) s_operator then ccfg_set_op k (p_text p)
  else k.
Definition merge_acfg (k : acfg) (p : point) : acfg :=
  if bytes_eqb (p_type p) s_value then acfg_set_value k (p_value p)
  else if bytes_eqb (p_type p) s_valueText then acfg_set_vtext k (p_text p)
  else k.

Definition merge_cond (pts : list point) (sch : option N) (c : cond) : cond :=
  let k := fold_left merge_ccfg pts (c_cfg c) in
  set_c_cfg c (match sch with
               | Some h => if existsb is_sched_edit pts then ccfg_set_sched k h else k
               | None => k
               end).
Definition merge_action (pts : list point) (a : action) : action := set_a_cfg a (fold_left merge_acfg pts (a_cfg a)).

(* FindNodeInStruct: the first element with the id *)
Fixpoint upd_first {A} (f : A -> bool) (g : A -> A) (l : list A) : option (list A) :=
  match l with
  | [] => None
  | x :: l' => if f x then Some (g x :: l')
               else match upd_first f g l' with Some l'' => Some (x :: l'') | None => None end
  end.

Definition merge (r : rule) (node : bytes) (pts : list point) (sch : option N) : rule :=
  if is_empty node then r                      (* an empty id matches no node: MergePoints fails, nothing is merged *)
  else if bytes_eqb node (r_id r) then r       (* description of the rule *)
  else
    match upd_first (fun c => bytes_eqb (c_id (c_cfg c)) node) (merge_cond pts sch) (r_conds r) with
    | Some cs => {| r_id := r_id r; r_active := r_active r; r_error := r_error r; r_conds := cs; r_acts := r_acts r; r_iacts := r_iacts r |}
    | None =>
        match upd_first (fun a => bytes_eqb (a_id (a_cfg a)) node) (merge_action pts) (r_acts r) with
        | Some l => {| r_id := r_id r; r_active := r_active r; r_error := r_error r; r_conds := r_conds r; r_acts := l; r_iacts := r_iacts r |}
        | None =>
            match upd_first (fun a => bytes_eqb (a_id (a_cfg a)) node) (merge_action pts) (r_iacts r) with
            | Some l => {| r_id := r_id r; r_active := r_active r; r_error := r_error r; r_conds := r_conds r; r_acts := r_acts r; r_iacts := l |}
            | None => r                        (* unknown node: MergePoints fails, nothing is merged *)
            end
        end
    end.

(* the point run("", nil) sends through ruleProcessPoints; [t] is time.Now() *)
Definition trigger_point (t : Z) : point := {| p_type := s_trigger; p_key := []; p_time := t; p_value := 0; p_text := [] |}.

(* case newPoints of Run: merge, then run("", nil): the trigger point at the
   rule's own id, the [changed] result is dropped, the lists always run *)
Definition step_cfg (r : rule) (node : bytes) (pts : list point) (sch : option N) (t : Z) : rule * list out :=
  let rm := merge r node pts sch in
  let '(r1, o1, active, _) := process rm (r_id rm) [trigger_point t] in
  let '(r2, o2) := run_lists r1 active in
  (r2, o1 ++ o2).

(* a history: batches of points, each from one node *)
Definition batch := (bytes * list point)%type.

(* (configuration before, configuration after, points sent) for every batch *)
Fixpoint trace (r : rule) (h : list batch) : list (rule * rule * list out) :=
  match h with
  | [] => []
  | (node, pts) :: h' => let '(r', o) := step r node pts in (r, r', o) :: trace r' h'
  end.

Fixpoint run_history (r : rule) (h : list batch) : rule :=
  match h with
  | [] => r
  | (node, pts) :: h' => run_history (fst (step r node pts)) h'
  end.

End Process.

(* ---------- specification (written without reference to the loops above) ---------- *)
(* strings.Contains: the needle occurs at some offset *)
Definition occurs_at (hay needle : bytes) (k : nat) : bool :=
  bytes_eqb (firstn (length needle) (skipn k hay)) needle.
Definition spec_contains (hay needle : bytes) : bool :=
  existsb (occurs_at hay needle) (seq 0 (S (length hay))).

Inductive ckind := KNumber | KText | KOnOff | KSchedule | KOther.

Definition kind_of (c : ccfg) : ckind :=
  if bytes_eqb (c_ctype c) s_pointValue then
    if bytes_eqb (c_vtype c) s_number then KNumber
    else if bytes_eqb (c_vtype c) s_text then KText
    else if bytes_eqb (c_vtype c) s_onOff then KOnOff
    else KOther
  else if bytes_eqb (c_ctype c) s_schedule then KSchedule
  else KOther.

(* the conditions the property speaks about *)
Definition in_scope (c : ccfg) : bool := match kind_of c with KOther => false | _ => true end.

(* an empty filter accepts everything *)
Definition accepts (f v : bytes) : bool := match f with [] => true | _ => bytes_eqb f v end.

(* an event is a point together with the node it comes from *)
Definition event := (bytes * point)%type.

(* does the event concern the condition: a point condition looks at points that
   pass its node, type and key filters; a schedule condition at trigger points
   for which the window test is defined *)
Definition matches (w : window_t) (c : ccfg) (e : event) : bool :=
  let '(node, p) := e in
  match kind_of c with
  | KNumber | KText | KOnOff => accepts (c_node c) node && accepts (c_ptype c) (p_type p) && accepts (c_pkey c) (p_key p)
  | KSchedule => bytes_eqb (p_type p) s_trigger && match w (c_sched c) (p_time p) with WIn _ => true | WErr _ => false end
  | KOther => false
  end.

(* does the point satisfy the condition's comparison *)
Definition satisfies (w : window_t) (c : ccfg) (p : point) : bool :=
  match kind_of c with
  | KNumber =>
      if bytes_eqb (c_op c) s_gt then f_gt (p_value p) (c_value c)
      else if bytes_eqb (c_op c) s_lt then f_lt (p_value p) (c_value c)
      else if bytes_eqb (c_op c) s_eq then f_eq (p_value p) (c_value c)
      else if bytes_eqb (c_op c) s_ne then negb (f_eq (p_value p) (c_value c))
      else false
  | KText =>
      if bytes_eqb (c_op c) s_eq then bytes_eqb (p_text p) (c_vtext c)
      else if bytes_eqb (c_op c) s_ne then negb (bytes_eqb (p_text p) (c_vtext c))
      else if bytes_eqb (c_op c) s_contains then spec_contains (p_text p) (c_vtext c)
      else false
  | KOnOff => Bool.eqb (f_nonzero (p_value p)) (f_nonzero (c_value c))
  | KSchedule => match w (c_sched c) (p_time p) with WIn b => b | WErr _ => false end
  | KOther => false
  end.

Fixpoint latest {A} (f : A -> bool) (l : list A) : option A :=
  match l with
  | [] => None
  | x :: l' => match latest f l' with
               | Some y => Some y
               | None => if f x then Some x else None
               end
  end.

(* state of a condition after the events [es], having been [a0] before *)
Definition spec_active (w : window_t) (c : ccfg) (a0 : bool) (es : list event) : bool :=
  match latest (matches w c) es with
  | Some (_, p) => satisfies w c p
  | None => a0
  end.

Definition events_of (node : bytes) (pts : list point) : list event := map (pair node) pts.
Definition events_of_history (h : list batch) : list event := flat_map (fun b => events_of (fst b) (snd b)) h.

(* what running an action list sends, per action: the configured point to the
   target node with the rule as origin (the action itself when the target is
   the rule), then the action marked active *)
Definition setvalue_ok (a : acfg) : bool :=
  bytes_eqb (a_action a) s_setValue && negb (is_empty (a_node a)) && negb (is_empty (a_ptype a)).

Definition origin_for (rid node self : bytes) : bytes := if bytes_eqb node rid then self else rid.

Definition act_points (rid : bytes) (a : action) : list out :=
  let c := a_cfg a in
  (if setvalue_ok c
   then [{| o_tag := 2; o_node := a_node c; o_type := a_ptype c; o_key := []; o_value := a_value c; o_text := a_vtext c;
            o_origin := origin_for rid (a_node c) (a_id c) |}]
   else []) ++
  [{| o_tag := 3; o_node := a_id c; o_type := s_active; o_key := []; o_value := f_one; o_text := [];
      o_origin := origin_for rid (a_id c) [] |}].

Definition inactive_point (rid : bytes) (a : action) : out :=
  {| o_tag := 3; o_node := a_id (a_cfg a); o_type := s_active; o_key := []; o_value := 0; o_text := [];
     o_origin := origin_for rid (a_id (a_cfg a)) [] |}.

(* points due when the rule becomes [now_active]: the corresponding list runs, the opposite one is marked inactive *)
Definition action_points (rid : bytes) (acts iacts : list action) (now_active : bool) : list out :=
  if now_active
  then flat_map (act_points rid) acts ++ map (inactive_point rid) iacts
  else flat_map (act_points rid) iacts ++ map (inactive_point rid) acts.

Definition is_action_out (o : out) : bool := 2 <=? o_tag o.

(* relation between a condition before and after a list of events *)
Definition cond_follows (w : window_t) (es : list event) (c c' : cond) : Prop :=
  c_cfg c' = c_cfg c /\
  (in_scope (c_cfg c) = true ->
   match latest (matches w (c_cfg c)) es with
   | Some (_, p) => c_active c' = satisfies w (c_cfg c) p     (* the latest matching point decides *)
   | None => c_active c' = c_active c                          (* no matching point: unchanged *)
   end).

(* what one run of the [run] closure must have done with the actions, given the
   configuration before ([rb]) and after ([ra]) and the points sent ([o]):
   exactly when the rule's state changed, the corresponding list has run once
   and the opposite list has been marked inactive; otherwise no action output
   and no action touched *)
Definition step_ok (rb ra : rule) (o : list out) : Prop :=
  let changed := negb (Bool.eqb (r_active rb) (r_active ra)) in
  filter is_action_out o =
    (if changed then action_points (r_id rb) (r_acts rb) (r_iacts rb) (r_active ra) else []) /\
  Forall2 (fun a a' => a_cfg a' = a_cfg a /\ a_active a' = if changed then r_active ra else a_active a)
          (r_acts rb) (r_acts ra) /\
  Forall2 (fun a a' => a_cfg a' = a_cfg a /\ a_active a' = if changed then negb (r_active ra) else a_active a)
          (r_iacts rb) (r_iacts ra).

(* the same for a configuration-change event, given the configuration after the
   merge ([rm]), after the event ([ra]) and the points sent ([o]): the action
   list of the rule's state after the event has run once and the opposite list
   has been marked inactive -- whether or not the state differs from the one
   before (the code does not look at [changed] on this path) *)
Definition cfg_step_ok (rm ra : rule) (o : list out) : Prop :=
  filter is_action_out o = action_points (r_id rm) (r_acts rm) (r_iacts rm) (r_active ra) /\
  Forall2 (fun a a' => a_cfg a' = a_cfg a /\ a_active a' = r_active ra) (r_acts rm) (r_acts ra) /\
  Forall2 (fun a a' => a_cfg a' = a_cfg a /\ a_active a' = negb (r_active ra)) (r_iacts rm) (r_iacts ra).

(* the merge leaves identities and states alone: same rule id, state and error,
   and element by element the same ids, active flags and errors *)
Definition same_shape (r rm : rule) : Prop :=
  r_id rm = r_id r /\ r_active rm = r_active r /\ r_error rm = r_error r /\
  Forall2 (fun c c' => c_id (c_cfg c') = c_id (c_cfg c) /\ c_active c' = c_active c /\ c_error c' = c_error c) (r_conds r) (r_conds rm) /\
  Forall2 (fun a a' => a_id (a_cfg a') = a_id (a_cfg a) /\ a_active a' = a_active a /\ a_error a' = a_error a) (r_acts r) (r_acts rm) /\
  Forall2 (fun a a' => a_id (a_cfg a') = a_id (a_cfg a) /\ a_active a' = a_active a /\ a_error a' = a_error a) (r_iacts r) (r_iacts rm).

(* ---------- case checker ---------- *)
Definition out_eqb (a b : out) : bool :=       (* the ghost tag is not compared *)
  bytes_eqb (o_node a) (o_node b) && bytes_eqb (o_type a) (o_type b) && bytes_eqb (o_key a) (o_key b) &&
  (o_value a =? o_value b) && bytes_eqb (o_text a) (o_text b) && bytes_eqb (o_origin a) (o_origin b).

Definition ccfg_eqb (a b : ccfg) : bool :=
  bytes_eqb (c_id a) (c_id b) && bytes_eqb (c_ctype a) (c_ctype b) && bytes_eqb (c_node a) (c_node b) &&
  bytes_eqb (c_ptype a) (c_ptype b) && bytes_eqb (c_pkey a) (c_pkey b) && bytes_eqb (c_vtype a) (c_vtype b) &&
  bytes_eqb (c_op a) (c_op b) && (c_value a =? c_value b) && bytes_eqb (c_vtext a) (c_vtext b) && (c_sched a =? c_sched b).
Definition cond_eqb (a b : cond) : bool :=
  ccfg_eqb (c_cfg a) (c_cfg b) && Bool.eqb (c_active a) (c_active b) && bytes_eqb (c_error a) (c_error b).
Definition acfg_eqb (a b : acfg) : bool :=
  bytes_eqb (a_id a) (a_id b) && bytes_eqb (a_action a) (a_action b) && bytes_eqb (a_node a) (a_node b) &&
  bytes_eqb (a_ptype a) (a_ptype b) && (a_value a =? a_value b) && bytes_eqb (a_vtext a) (a_vtext b).
Definition action_eqb (a b : action) : bool :=
  acfg_eqb (a_cfg a) (a_cfg b) && Bool.eqb (a_active a) (a_active b) && bytes_eqb (a_error a) (a_error b).
Definition rule_eqb (a b : rule) : bool :=
  bytes_eqb (r_id a) (r_id b) && Bool.eqb (r_active a) (r_active b) && bytes_eqb (r_error a) (r_error b) &&
  list_eqb cond_eqb (r_conds a) (r_conds b) && list_eqb action_eqb (r_acts a) (r_acts b) &&
  list_eqb action_eqb (r_iacts a) (r_iacts b).

Record obs := {
  ob_node : bytes; ob_pts : list point;
  ob_rule : rule;            (* the client's configuration after the batch *)
  ob_sent : list out;        (* the points it published, in order *)
  ob_active : bool; ob_changed : bool;   (* results of ruleProcessPoints (mode 1) *)
  ob_failed : bool           (* the hook reported an error or a panic *)
}.

(* a configuration-change event as observed: the node and points handed to the
   client through newPoints, the schedule handle after the merge when the
   points edit a schedule, an instant of the interval in which the client read
   time.Now() (the harness makes sure no schedule boundary lies in that
   interval), the client's configuration afterwards and the points it sent *)
Record cobs := {
  co_node : bytes; co_pts : list point; co_sched : option N; co_time : Z;
  co_rule : rule; co_sent : list out; co_failed : bool
}.

Inductive sobs := SBatch (s : obs) | SConfig (s : cobs).

Inductive case :=
| CHistory (mode : N) (r : rule) (wtab : list (N * Z * wres)) (steps : list obs)
| CFcmp (a b : N) (lt gt eq ne : bool)
| CEvents (r : rule) (wtab : list (N * Z * wres)) (steps : list sobs).   (* batches and configuration changes through Run *)

Fixpoint wlookup (tab : list (N * Z * wres)) (h : N) (t : Z) : wres :=
  match tab with
  | [] => WErr []
  | (h', t', r) :: tab' => if (h' =? h) && (t' =? t)%Z then r else wlookup tab' h t
  end.

(* identifiers are told apart well enough for sent points to be attributed *)
Definition mem (x : bytes) (l : list bytes) : bool := existsb (bytes_eqb x) l.
Definition wf_rule (r : rule) : bool :=
  let cids := map (fun c => c_id (c_cfg c)) (r_conds r) in
  let alist := r_acts r ++ r_iacts r in
  let aids := map (fun a => a_id (a_cfg a)) alist in
  forallb (fun a => negb (mem (a_id (a_cfg a)) (r_id r :: cids)) &&
                    negb (mem (a_node (a_cfg a)) (cids ++ aids)) &&
                    negb (is_empty (a_id (a_cfg a)))) alist.

Definition count_out (e : out) (l : list out) : nat := length (filter (out_eqb e) l).

(* specification of one step, evaluated on what the implementation did *)
Definition spec_step (w : window_t) (mode : N) (r : rule) (s : obs) : bool :=
  let r' := ob_rule s in
  let es := events_of (ob_node s) (ob_pts s) in
  negb (ob_failed s) &&
  (* conditions *)
  (length (r_conds r) =? length (r_conds r'))%nat &&
  forallb (fun cc => let '(c, c') := cc in
                     negb (in_scope (c_cfg c)) ||
                     (ccfg_eqb (c_cfg c) (c_cfg c') && Bool.eqb (c_active c') (spec_active w (c_cfg c) (c_active c) es)))
          (combine (r_conds r) (r_conds r')) &&
  (* the rule *)
  Bool.eqb (r_active r') (forallb c_active (r_conds r')) &&
  (* actions *)
  (if mode =? 1 then
     Bool.eqb (ob_active s) (r_active r') && Bool.eqb (ob_changed s) (negb (Bool.eqb (r_active r) (r_active r')))
   else if negb (wf_rule r) then true
   else
     let changed := negb (Bool.eqb (r_active r) (r_active r')) in
     let due := if changed then action_points (r_id r) (r_acts r) (r_iacts r) (r_active r') else [] in
     let universe := action_points (r_id r) (r_acts r) (r_iacts r) true ++ action_points (r_id r) (r_acts r) (r_iacts r) false in
     forallb (fun e => (count_out e (ob_sent s) =? count_out e due)%nat) universe &&
     (length (r_acts r) =? length (r_acts r'))%nat && (length (r_iacts r) =? length (r_iacts r'))%nat &&
     forallb (fun aa => let '(a, a') := aa in
                        acfg_eqb (a_cfg a) (a_cfg a') &&
                        Bool.eqb (a_active a') (if changed then r_active r' else a_active a))
             (combine (r_acts r) (r_acts r')) &&
     forallb (fun aa => let '(a, a') := aa in
                        acfg_eqb (a_cfg a) (a_cfg a') &&
                        Bool.eqb (a_active a') (if changed then negb (r_active r') else a_active a))
             (combine (r_iacts r) (r_iacts r'))).

(* correspondence of one step: the model started from the configuration the
   implementation started from reproduces its configuration and its points *)
Definition corr_step (w : window_t) (mode : N) (r : rule) (s : obs) : bool :=
  negb (ob_failed s) &&
  if mode =? 1 then
    let '(r', o, active, changed) := process text_cmp w r (ob_node s) (ob_pts s) in
    rule_eqb r' (ob_rule s) && list_eqb out_eqb o (ob_sent s) && Bool.eqb active (ob_active s) && Bool.eqb changed (ob_changed s)
  else
    let '(r', o) := step text_cmp w r (ob_node s) (ob_pts s) in
    rule_eqb r' (ob_rule s) && list_eqb out_eqb o (ob_sent s).

(* the configuration-change points the model of the merge covers, for a rule
   whose ids tell the target apart *)
Definition type_in (l : list bytes) (p : point) : bool := mem (p_type p) l.
Definition cfg_in_scope (r : rule) (node : bytes) (pts : list point) : bool :=
  let cids := map (fun c => c_id (c_cfg c)) (r_conds r) in
  let aids := map (fun a => a_id (a_cfg a)) (r_acts r ++ r_iacts r) in
  (length (filter (bytes_eqb node) (r_id r :: cids ++ aids)) <=? 1)%nat &&
  if bytes_eqb node (r_id r) then forallb (type_in [s_description]) pts
  else if mem node cids then forallb (type_in [s_description; s_value; s_valueText; s_operator; s_start; s_end]) pts
  else if mem node aids then forallb (type_in [s_description; s_value; s_valueText]) pts
  else true.

(* specification of one configuration-change event, evaluated on what the
   implementation did ([r] before the event, [co_rule s] after it): every
   condition the property speaks about is active exactly when the trigger point
   (type trigger, time [co_time s], at the rule's id) satisfies it -- as it is
   configured after the event -- or unchanged when the trigger does not concern
   it; the rule is active exactly when all conditions are; and when the rule's
   state differs from the one before the event, the action list of the new
   state has run exactly once (points of [action_points], every action of the
   list marked active) and every action of the opposite list is marked inactive
   (its active = 0 point sent once, the flag cleared in the configuration) *)
Definition spec_cfg (w : window_t) (r : rule) (s : cobs) : bool :=
  let r' := co_rule s in
  let es := [(r_id r, {| p_type := s_trigger; p_key := []; p_time := co_time s; p_value := 0; p_text := [] |})] in
  negb (co_failed s) &&
  bytes_eqb (r_id r) (r_id r') &&
  (* conditions *)
  (length (r_conds r) =? length (r_conds r'))%nat &&
  forallb (fun cc => let '(c, c') := cc in
                     bytes_eqb (c_id (c_cfg c)) (c_id (c_cfg c')) &&
                     (negb (in_scope (c_cfg c')) ||
                      Bool.eqb (c_active c') (spec_active w (c_cfg c') (c_active c) es)))
          (combine (r_conds r) (r_conds r')) &&
  (* the rule *)
  Bool.eqb (r_active r') (forallb c_active (r_conds r')) &&
  (* actions *)
  (length (r_acts r) =? length (r_acts r'))%nat && (length (r_iacts r) =? length (r_iacts r'))%nat &&
  forallb (fun aa => bytes_eqb (a_id (a_cfg (fst aa))) (a_id (a_cfg (snd aa)))) (combine (r_acts r ++ r_iacts r) (r_acts r' ++ r_iacts r')) &&
  (if negb (wf_rule r') then true
   else if Bool.eqb (r_active r) (r_active r') then true
   else
     let due := action_points (r_id r') (r_acts r') (r_iacts r') (r_active r') in
     let universe := action_points (r_id r') (r_acts r') (r_iacts r') true ++ action_points (r_id r') (r_acts r') (r_iacts r') false in
     forallb (fun e => (count_out e (co_sent s) =? count_out e due)%nat) universe &&
     forallb (fun a' => Bool.eqb (a_active a') (r_active r')) (r_acts r') &&
     forallb (fun a' => Bool.eqb (a_active a') (negb (r_active r'))) (r_iacts r')).

Definition corr_cfg (w : window_t) (r : rule) (s : cobs) : bool :=
  negb (co_failed s) &&
  let '(r', o) := step_cfg text_cmp w r (co_node s) (co_pts s) (co_sched s) (co_time s) in
  rule_eqb r' (co_rule s) && list_eqb out_eqb o (co_sent s).

Definition sobs_rule (s : sobs) : rule := match s with SBatch s => ob_rule s | SConfig s => co_rule s end.
Definition spec_sobs (w : window_t) (r : rule) (s : sobs) : bool :=
  match s with SBatch s => spec_step w 0 r s | SConfig s => spec_cfg w r s end.
Definition corr_sobs (w : window_t) (r : rule) (s : sobs) : bool :=
  match s with SBatch s => corr_step w 0 r s | SConfig s => corr_cfg w r s end.
Definition scope_sobs (r : rule) (s : sobs) : bool :=
  match s with SBatch _ => true | SConfig s => cfg_in_scope r (co_node s) (co_pts s) end.

Fixpoint check_esteps (f : rule -> sobs -> bool) (r : rule) (steps : list sobs) : bool :=
  match steps with
  | [] => true
  | s :: steps' => f r s && check_esteps f (sobs_rule s) steps'
  end.

Fixpoint check_steps (f : rule -> obs -> bool) (r : rule) (steps : list obs) : bool :=
  match steps with
  | [] => true
  | s :: steps' => f r s && check_steps f (ob_rule s) steps'
  end.

Definition check_case (c : case) : N :=
  match c with
  | CHistory mode r wtab steps =>
      let w := wlookup wtab in
      code (check_steps (corr_step w mode) r steps) (check_steps (spec_step w mode) r steps)
  | CFcmp a b lt gt eq ne =>
      let ok := Bool.eqb (f_lt a b) lt && Bool.eqb (f_gt a b) gt && Bool.eqb (f_eq a b) eq && Bool.eqb (f_ne a b) ne in
      code ok true
  | CEvents r wtab steps =>
      let w := wlookup wtab in
      if negb (check_esteps scope_sobs r steps) then 99     (* an event outside the model of the merge *)
      else code (check_esteps (corr_sobs w) r steps) (check_esteps (spec_sobs w) r steps)
  end.

(* ---------- decoding a case handed over by the harness ---------- *)
Definition get_bits (v : val) : option N :=
  match v with VN n => if n <? two64 then Some n else None | _ => None end.

Definition cond_of_val (v : val) : option cond :=
  match v with
  | VL [id; ct; nd; pt; pk; vt; op; bits; vtx; sch; act; err] =>
      id <- get_b id ;; ct <- get_b ct ;; nd <- get_b nd ;; pt <- get_b pt ;; pk <- get_b pk ;; vt <- get_b vt ;;
      op <- get_b op ;; bits <- get_bits bits ;; vtx <- get_b vtx ;; sch <- get_n sch ;; act <- get_bool act ;; err <- get_b err ;;
      Some {| c_cfg := {| c_id := id; c_ctype := ct; c_node := nd; c_ptype := pt; c_pkey := pk; c_vtype := vt; c_op := op;
                          c_value := bits; c_vtext := vtx; c_sched := sch |};
              c_active := act; c_error := err |}
  | _ => None
  end.

Definition action_of_val (v : val) : option action :=
  match v with
  | VL [id; ac; nd; pt; bits; vtx; act; err] =>
      id <- get_b id ;; ac <- get_b ac ;; nd <- get_b nd ;; pt <- get_b pt ;; bits <- get_bits bits ;; vtx <- get_b vtx ;;
      act <- get_bool act ;; err <- get_b err ;;
      let a := {| a_cfg := {| a_id := id; a_action := ac; a_node := nd; a_ptype := pt; a_value := bits; a_vtext := vtx |};
                  a_active := act; a_error := err |} in
      if act_in_scope a then Some a else None
  | _ => None
  end.

Definition rule_of_val (v : val) : option rule :=
  match v with
  | VL [id; act; err; cs; acts; iacts] =>
      id <- get_b id ;; act <- get_bool act ;; err <- get_b err ;; cs <- get_list cond_of_val cs ;;
      acts <- get_list action_of_val acts ;; iacts <- get_list action_of_val iacts ;;
      Some {| r_id := id; r_active := act; r_error := err; r_conds := cs; r_acts := acts; r_iacts := iacts |}
  | _ => None
  end.

Definition point_of_val (v : val) : option point :=
  match v with
  | VL [ty; k; t; bits; tx] =>
      ty <- get_b ty ;; k <- get_b k ;; t <- get_z t ;; bits <- get_bits bits ;; tx <- get_b tx ;;
      Some {| p_type := ty; p_key := k; p_time := t; p_value := bits; p_text := tx |}
  | _ => None
  end.

Definition out_of_val (v : val) : option out :=
  match v with
  | VL [nd; ty; k; bits; tx; org] =>
      nd <- get_b nd ;; ty <- get_b ty ;; k <- get_b k ;; bits <- get_bits bits ;; tx <- get_b tx ;; org <- get_b org ;;
      Some {| o_tag := 0; o_node := nd; o_type := ty; o_key := k; o_value := bits; o_text := tx; o_origin := org |}
  | _ => None
  end.

Definition obs_of_val (v : val) : option obs :=
  match v with
  | VL [nd; pts; r; sent; act; chg; failed] =>
      nd <- get_b nd ;; pts <- get_list point_of_val pts ;; r <- rule_of_val r ;; sent <- get_list out_of_val sent ;;
      act <- get_bool act ;; chg <- get_bool chg ;; failed <- get_bool failed ;;
      Some {| ob_node := nd; ob_pts := pts; ob_rule := r; ob_sent := sent; ob_active := act; ob_changed := chg; ob_failed := failed |}
  | _ => None
  end.

Definition wentry_of_val (v : val) : option (N * Z * wres) :=
  match v with
  | VL [h; t; res; err] =>
      h <- get_n h ;; t <- get_z t ;; res <- get_n res ;; err <- get_b err ;;
      Some (h, t, if res =? 0 then WIn false else if res =? 1 then WIn true else WErr err)
  | _ => None
  end.

Definition cobs_of_val (v : val) : option cobs :=
  match v with
  | VL [nd; pts; sch; t; r; sent; failed] =>
      nd <- get_b nd ;; pts <- get_list point_of_val pts ;; sch <- get_opt get_n sch ;; t <- get_z t ;; r <- rule_of_val r ;;
      sent <- get_list out_of_val sent ;; failed <- get_bool failed ;;
      Some {| co_node := nd; co_pts := pts; co_sched := sch; co_time := t; co_rule := r; co_sent := sent; co_failed := failed |}
  | _ => None
  end.

Definition sobs_of_val (v : val) : option sobs :=
  match v with
  | VL [VN 0; s] => s <- obs_of_val s ;; Some (SBatch s)
  | VL [VN 1; s] => s <- cobs_of_val s ;; Some (SConfig s)
  | _ => None
  end.

Definition case_of_val (v : val) : option case :=
  match v with
  | VL [VN 0; mode; r; wtab; steps] =>
      mode <- get_n mode ;; r <- rule_of_val r ;; wtab <- get_list wentry_of_val wtab ;; steps <- get_list obs_of_val steps ;;
      Some (CHistory mode r wtab steps)
  | VL [VN 1; a; b; lt; gt; eq; ne] =>
      a <- get_bits a ;; b <- get_bits b ;; lt <- get_bool lt ;; gt <- get_bool gt ;; eq <- get_bool eq ;; ne <- get_bool ne ;;
      Some (CFcmp a b lt gt eq ne)
  | VL [VN 2; r; wtab; steps] =>
      r <- rule_of_val r ;; wtab <- get_list wentry_of_val wtab ;; steps <- get_list sobs_of_val steps ;;
      Some (CEvents r wtab steps)
  | _ => None
  end.

Definition check_val : val -> N := check_with case_of_val check_case.
