(* C13: lemmas and main theorems about the model of client/rule.go. *)
From Verif Require Import Base.Bytes Base.Val Rule.Model.
Local Open Scope N_scope.

(* ---------- small facts ---------- *)
Lemma eqb_sym (a b : bool) : Bool.eqb a b = Bool.eqb b a.
Proof. destruct a, b; reflexivity. Qed.

Lemma filt_accepts f v : filt f v = accepts f v.
Proof. destruct f; reflexivity. Qed.

Lemma is_prefix_firstn needle : forall hay,
  is_prefix needle hay = bytes_eqb (firstn (length needle) hay) needle.
Proof.
  induction needle as [|x n IH]; intros hay.
  - reflexivity.
  - destruct hay as [|y hay]; [reflexivity|]. cbn [is_prefix length firstn].
    unfold bytes_eqb in *. cbn [list_eqb]. rewrite IH. rewrite (N.eqb_sym y x). reflexivity.
Qed.

Lemma existsb_seq_S (f : nat -> bool) n : forall s,
  existsb f (seq (S s) n) = existsb (fun k => f (S k)) (seq s n).
Proof.
  induction n as [|n IH]; intros s; [reflexivity|].
  cbn [seq existsb]. rewrite IH. reflexivity.
Qed.

Lemma existsb_ext' {A} (f g : A -> bool) l : (forall x, f x = g x) -> existsb f l = existsb g l.
Proof. intros H. induction l as [|x l IH]; [reflexivity|]. cbn. rewrite H, IH. reflexivity. Qed.

(* the scanning implementation of strings.Contains agrees with "occurs at some offset" *)
Lemma contains_spec : forall hay needle, contains hay needle = spec_contains hay needle.
Proof.
  induction hay as [|h hay IH]; intros needle; unfold spec_contains.
  - cbn [contains length seq existsb]. unfold occurs_at. cbn [skipn].
    rewrite is_prefix_firstn. rewrite !orb_false_r. reflexivity.
  - cbn [contains]. cbn [length]. change (seq 0 (S (S (length hay)))) with (0%nat :: seq 1 (S (length hay))).
    cbn [existsb]. rewrite existsb_seq_S. f_equal.
    + unfold occurs_at. cbn [skipn]. apply is_prefix_firstn.
    + rewrite IH. unfold spec_contains. apply existsb_ext'. intros k. reflexivity.
Qed.

Lemma text_cmp_spec op pt ct :
  text_cmp op pt ct =
  if bytes_eqb op s_eq then bytes_eqb pt ct
  else if bytes_eqb op s_ne then negb (bytes_eqb pt ct)
  else if bytes_eqb op s_contains then spec_contains pt ct
  else false.
Proof. unfold text_cmp. rewrite contains_spec. reflexivity. Qed.

(* ---------- [latest] ---------- *)
Lemma latest_app {A} (f : A -> bool) l1 l2 :
  latest f (l1 ++ l2) = match latest f l2 with Some y => Some y | None => latest f l1 end.
Proof.
  induction l1 as [|x l1 IH]; cbn [app latest].
  - destruct (latest f l2); reflexivity.
  - rewrite IH. destruct (latest f l2); reflexivity.
Qed.

Lemma spec_active_app w c a0 es1 es2 :
  spec_active w c a0 (es1 ++ es2) = spec_active w c (spec_active w c a0 es1) es2.
Proof.
  unfold spec_active. rewrite latest_app. destruct (latest (matches w c) es2) as [[n p]|]; reflexivity.
Qed.

(* ---------- outputs that are not action outputs ---------- *)
Definition low (o : list out) : Prop := filter is_action_out o = [].

Lemma low_nil : low []. Proof. reflexivity. Qed.
Lemma low_app a b : low a -> low b -> low (a ++ b).
Proof. unfold low. intros Ha Hb. rewrite filter_app, Ha, Hb. reflexivity. Qed.
Lemma low_cons x o : is_action_out x = false -> low o -> low (x :: o).
Proof. unfold low. intros Hx Ho. cbn [filter]. rewrite Hx. exact Ho. Qed.

Lemma rule_err_low rid rerr e f r o : rule_err rid rerr e f = (r, o) -> low o.
Proof.
  unfold rule_err. destruct (bytes_eqb _ rerr); intros H; inversion H; subst; reflexivity.
Qed.

Lemma cond_perr_inv rid c rerr e c1 rerr1 o :
  cond_perr rid c rerr e = (c1, rerr1, o) ->
  c_cfg c1 = c_cfg c /\ c_active c1 = c_active c /\ low o.
Proof.
  unfold cond_perr. destruct (rule_err rid rerr e []) as [r1 o2] eqn:HR.
  apply rule_err_low in HR.
  destruct (bytes_eqb (c_error c) e); intros H; inversion H; subst; (split; [reflexivity|split; [reflexivity|]]).
  - exact HR.
  - apply low_cons; [reflexivity|exact HR].
Qed.

Section Gen.
Variable tcmp : bytes -> bytes -> bytes -> bool.
Variable w : window_t.

(* effect of one point on a condition's state *)
Definition upd (c : ccfg) (node : bytes) (a : bool) (p : point) : bool :=
  match eval_cond tcmp w c node p with EvSet b _ => b | _ => a end.

Definition crel (node : bytes) (p : point) (c c' : cond) : Prop :=
  c_cfg c' = c_cfg c /\ c_active c' = upd (c_cfg c) node (c_active c) p.

Lemma cond_step_inv rid node p acts iacts rerr done c todo c' rerr' o :
  cond_step tcmp w rid node p acts iacts rerr done c todo = (c', rerr', o) ->
  crel node p c c' /\ low o.
Proof.
  unfold cond_step, crel, upd.
  destruct (eval_cond tcmp w (c_cfg c) node p) as [|a oe|e].
  - intros H; inversion H; subst. repeat split; reflexivity.
  - destruct oe as [e|].
    + destruct (cond_perr rid c rerr e) as [[c1 rerr1] o1] eqn:HP.
      apply cond_perr_inv in HP. destruct HP as (Hcfg & Hact & Hlow).
      destruct (Bool.eqb a (c_active c)) eqn:HE; intros H; inversion H; subst.
      * apply eqb_prop in HE. subst a. repeat split; auto. rewrite app_nil_r. exact Hlow.
      * repeat split; auto. apply low_app; [exact Hlow|]. apply low_cons; [reflexivity|apply low_nil].
    + destruct (Bool.eqb a (c_active c)) eqn:HE.
      * destruct (is_empty (c_error c)).
        -- intros H; inversion H; subst. apply eqb_prop in HE. subst a. repeat split; reflexivity.
        -- destruct (rule_err rid rerr [] _) as [r3 o3] eqn:HR. apply rule_err_low in HR.
           intros H; inversion H; subst. apply eqb_prop in HE. subst a. repeat split; try reflexivity.
           cbn [app]. apply low_cons; [reflexivity|exact HR].
      * destruct (is_empty (c_error c)).
        -- intros H; inversion H; subst. repeat split; reflexivity.
        -- destruct (rule_err rid rerr [] _) as [r3 o3] eqn:HR. apply rule_err_low in HR.
           intros H; inversion H; subst. repeat split; try reflexivity.
           cbn [app]. apply low_cons; [reflexivity|]. apply low_cons; [reflexivity|exact HR].
  - intros H. apply cond_perr_inv in H. destruct H as (Hcfg & Hact & Hlow). repeat split; auto.
Qed.

Lemma conds_loop_inv rid node p acts iacts : forall todo done rerr cs rerr' o,
  conds_loop tcmp w rid node p acts iacts rerr done todo = (cs, rerr', o) ->
  exists cs2, cs = rev done ++ cs2 /\ Forall2 (crel node p) todo cs2 /\ low o.
Proof.
  induction todo as [|c todo IH]; intros done rerr cs rerr' o; cbn [conds_loop].
  - intros H; inversion H; subst. exists []. rewrite app_nil_r. repeat split; constructor.
  - destruct (cond_step tcmp w rid node p acts iacts rerr done c todo) as [[c' rerr1] o1] eqn:HS.
    destruct (conds_loop tcmp w rid node p acts iacts rerr1 (c' :: done) todo) as [[cs1 rerr2] o2] eqn:HL.
    intros H; inversion H; subst.
    apply cond_step_inv in HS. destruct HS as (Hrel & Hlow1).
    apply IH in HL. destruct HL as (cs2 & Hcs & HF & Hlow2).
    exists (c' :: cs2). split; [|split].
    + rewrite Hcs. cbn [rev]. rewrite <- app_assoc. reflexivity.
    + constructor; assumption.
    + apply low_app; assumption.
Qed.

Definition crel_pts (node : bytes) (pts : list point) (c c' : cond) : Prop :=
  c_cfg c' = c_cfg c /\ c_active c' = fold_left (upd (c_cfg c) node) pts (c_active c).

Lemma points_loop_inv rid node acts iacts : forall pts cs rerr cs' rerr' o,
  points_loop tcmp w rid node acts iacts cs rerr pts = (cs', rerr', o) ->
  Forall2 (crel_pts node pts) cs cs' /\ low o.
Proof.
  induction pts as [|p pts IH]; intros cs rerr cs' rerr' o; cbn [points_loop].
  - intros H; inversion H; subst. clear H. split; [|apply low_nil].
    induction cs' as [|c cs' IHc]; [constructor|constructor; [split; reflexivity|exact IHc]].
  - destruct (conds_loop tcmp w rid node p acts iacts rerr [] cs) as [[cs1 rerr1] o1] eqn:HL.
    destruct (points_loop tcmp w rid node acts iacts cs1 rerr1 pts) as [[cs2 rerr2] o2] eqn:HP.
    intros H; inversion H; subst.
    apply conds_loop_inv in HL. destruct HL as (cs1' & Hcs & HF & Hlow1). cbn [rev app] in Hcs. subst cs1'.
    apply IH in HP. destruct HP as (HF2 & Hlow2). split; [|apply low_app; assumption].
    clear - HF HF2. revert cs' HF2. induction HF as [|c c1 cs cs1 Hc HF IHF]; intros cs' HF2.
    + inversion HF2; subst. constructor.
    + inversion HF2 as [|? c2 ? cs2' Hc2 HF2']; subst. constructor; [|apply IHF; exact HF2'].
      destruct Hc as (Hcfg1 & Hact1). destruct Hc2 as (Hcfg2 & Hact2). split.
      * rewrite Hcfg2. exact Hcfg1.
      * cbn [fold_left]. rewrite Hact2, Hcfg1, Hact1. reflexivity.
Qed.

(* ---------- ruleProcessPoints ---------- *)
Lemma process_inv r node pts r' o active changed :
  process tcmp w r node pts = (r', o, active, changed) ->
  r_id r' = r_id r /\ r_acts r' = r_acts r /\ r_iacts r' = r_iacts r /\
  Forall2 (crel_pts node pts) (r_conds r) (r_conds r') /\
  r_active r' = forallb c_active (r_conds r') /\
  active = r_active r' /\ changed = negb (Bool.eqb (r_active r) (r_active r')) /\
  low o.
Proof.
  unfold process.
  destruct (points_loop tcmp w (r_id r) node (r_acts r) (r_iacts r) (r_conds r) (r_error r) pts) as [[cs rerr] o0] eqn:HP.
  apply points_loop_inv in HP. destruct HP as (HF & Hlow).
  intros H; inversion H; subst. cbn [r_id r_acts r_iacts r_conds r_active].
  repeat split; auto.
  - f_equal. apply eqb_sym.
  - apply low_app; [exact Hlow|]. destruct (negb _); [apply low_cons; [reflexivity|apply low_nil]|apply low_nil].
Qed.

End Gen.

(* ---------- the repaired code: conditions follow the specification ---------- *)
Lemma eval_in_scope w c node p :
  in_scope c = true ->
  match eval_cond text_cmp w c node p with
  | EvSet b _ => matches w c (node, p) = true /\ b = satisfies w c p
  | _ => matches w c (node, p) = false
  end.
Proof.
  unfold in_scope, eval_cond, matches, satisfies, kind_of.
  destruct (bytes_eqb (c_ctype c) s_pointValue).
  - rewrite !filt_accepts.
    destruct (bytes_eqb (c_vtype c) s_number); [|destruct (bytes_eqb (c_vtype c) s_text); [|destruct (bytes_eqb (c_vtype c) s_onOff)]];
      intros Hs; try discriminate Hs;
      destruct (accepts (c_node c) node); cbn [negb andb]; try reflexivity;
      destruct (accepts (c_pkey c) (p_key p)); cbn [negb andb]; rewrite ?andb_false_r; try reflexivity;
      destruct (accepts (c_ptype c) (p_type p)); cbn [negb andb]; try reflexivity; (split; [reflexivity|]).
    + unfold num_cmp, f_ne. reflexivity.
    + apply text_cmp_spec.
    + apply eqb_sym.
  - destruct (bytes_eqb (c_ctype c) s_schedule); intros Hs; try discriminate Hs.
    destruct (bytes_eqb (p_type p) s_trigger); cbn [negb andb]; [|reflexivity].
    destruct (w (c_sched c) (p_time p)); [split; reflexivity|reflexivity].
Qed.

Lemma fold_upd_spec w c node : in_scope c = true -> forall pts a0,
  fold_left (upd text_cmp w c node) pts a0 = spec_active w c a0 (events_of node pts).
Proof.
  intros Hs. induction pts as [|p pts IH]; intros a0; [reflexivity|].
  cbn [fold_left]. rewrite IH. unfold events_of. cbn [map].
  change ((node, p) :: map (pair node) pts) with ([(node, p)] ++ map (pair node) pts).
  rewrite spec_active_app. f_equal.
  unfold upd, spec_active. cbn [latest].
  pose proof (eval_in_scope w c node p Hs) as HE.
  destruct (eval_cond text_cmp w c node p) as [|b oe|e].
  - rewrite HE. reflexivity.
  - destruct HE as (HM & Hb). rewrite HM. exact Hb.
  - rewrite HE. reflexivity.
Qed.

Lemma crel_pts_follows w node pts c c' :
  crel_pts text_cmp w node pts c c' -> cond_follows w (events_of node pts) c c'.
Proof.
  intros (Hcfg & Hact). split; [exact Hcfg|]. intros Hs.
  rewrite (fold_upd_spec w _ node Hs) in Hact. unfold spec_active in Hact.
  destruct (latest _ _) as [[n p]|]; exact Hact.
Qed.

Lemma Forall2_impl {A B} (P Q : A -> B -> Prop) l l' :
  (forall a b, P a b -> Q a b) -> Forall2 P l l' -> Forall2 Q l l'.
Proof. intros H HF. induction HF; constructor; auto. Qed.

Lemma process_conditions w r node pts :
  Forall2 (cond_follows w (events_of node pts)) (r_conds r) (r_conds (fst (fst (fst (process text_cmp w r node pts))))).
Proof.
  destruct (process text_cmp w r node pts) as [[[r' o] a] ch] eqn:HP. cbn [fst].
  apply process_inv in HP. destruct HP as (_ & _ & _ & HF & _).
  eapply Forall2_impl; [|exact HF]. intros c c'. apply crel_pts_follows.
Qed.

(* ---------- actions ---------- *)
Lemma act_perr_inv rid a rerr e a1 rerr1 o :
  act_perr rid a rerr e = (a1, rerr1, o) ->
  a_cfg a1 = a_cfg a /\ low o.
Proof.
  unfold act_perr. destruct (rule_err rid rerr e []) as [r1 o2] eqn:HR. apply rule_err_low in HR.
  destruct (bytes_eqb (a_error a) e); intros H; inversion H; subst; (split; [reflexivity|]).
  - exact HR.
  - apply low_cons; [reflexivity|exact HR].
Qed.

Definition arel (v : bool) (a a' : action) : Prop := a_cfg a' = a_cfg a /\ a_active a' = v.

Lemma act_switch_spec rid a :
  match act_switch rid (a_cfg a) with
  | inl _ => setvalue_ok (a_cfg a) = false
  | inr o => setvalue_ok (a_cfg a) = true /\
             o = [{| o_tag := 2; o_node := a_node (a_cfg a); o_type := a_ptype (a_cfg a); o_key := [];
                     o_value := a_value (a_cfg a); o_text := a_vtext (a_cfg a);
                     o_origin := origin_for rid (a_node (a_cfg a)) (a_id (a_cfg a)) |}]
  end.
Proof.
  unfold act_switch, setvalue_ok.
  destruct (bytes_eqb (a_action (a_cfg a)) s_setValue); [|reflexivity].
  destruct (is_empty (a_node (a_cfg a))); [reflexivity|].
  destruct (is_empty (a_ptype (a_cfg a))); [reflexivity|].
  split; reflexivity.
Qed.

Lemma act_step_inv rid found rerr done a todo a' rerr' o :
  act_step rid found rerr done a todo = (a', rerr', o) ->
  arel true a a' /\ filter is_action_out o = act_points rid a.
Proof.
  unfold act_step, arel, act_points.
  pose proof (act_switch_spec rid a) as HS.
  destruct (act_switch rid (a_cfg a)) as [e|o0].
  - rewrite HS.
    destruct (act_perr rid a rerr e) as [[a1 rerr1] o1] eqn:HP. apply act_perr_inv in HP. destruct HP as (Hcfg & Hlow).
    cbn [orb]. intros H; inversion H; subst. split; [split; [exact Hcfg|reflexivity]|].
    rewrite filter_app, Hlow. reflexivity.
  - destruct HS as (Hok & Ho). rewrite Hok. subst o0. cbn [orb].
    destruct (is_empty (a_error a)).
    + intros H; inversion H; subst. split; [split; reflexivity|]. reflexivity.
    + destruct (rule_err rid rerr [] _) as [r3 o3] eqn:HR. apply rule_err_low in HR.
      intros H; inversion H; subst. split; [split; reflexivity|].
      cbn [app filter is_action_out o_tag N.leb N.compare Pos.compare Pos.compare_cont].
      change (filter is_action_out (mk_out 1 rid (a_id (a_cfg a)) s_error 0 [] [] :: o3)) with (filter is_action_out o3).
      rewrite HR. reflexivity.
Qed.

Lemma acts_loop_inv rid found : forall todo done rerr l rerr' o,
  acts_loop rid found rerr done todo = (l, rerr', o) ->
  exists l2, l = rev done ++ l2 /\ Forall2 (arel true) todo l2 /\
             filter is_action_out o = flat_map (act_points rid) todo.
Proof.
  induction todo as [|a todo IH]; intros done rerr l rerr' o; cbn [acts_loop].
  - intros H; inversion H; subst. exists []. rewrite app_nil_r. repeat split; constructor.
  - destruct (act_step rid found rerr done a todo) as [[a' rerr1] o1] eqn:HS.
    destruct (acts_loop rid found rerr1 (a' :: done) todo) as [[l1 rerr2] o2] eqn:HL.
    intros H; inversion H; subst.
    apply act_step_inv in HS. destruct HS as (Hrel & Hf1).
    apply IH in HL. destruct HL as (l2 & Hl & HF & Hf2).
    exists (a' :: l2). split; [|split].
    + rewrite Hl. cbn [rev]. rewrite <- app_assoc. reflexivity.
    + constructor; assumption.
    + rewrite filter_app, Hf1, Hf2. reflexivity.
Qed.

Lemma inactive_loop_inv rid l :
  Forall2 (arel false) l (fst (inactive_loop rid l)) /\
  filter is_action_out (snd (inactive_loop rid l)) = map (inactive_point rid) l.
Proof.
  unfold inactive_loop. cbn [fst snd]. induction l as [|a l (IH1 & IH2)]; [split; constructor|].
  split.
  - cbn [map]. constructor; [split; reflexivity|exact IH1].
  - cbn [map filter]. change (is_action_out (mk_out 3 rid (a_id (a_cfg a)) s_active 0 [] [])) with true.
    cbn iota. rewrite IH2. reflexivity.
Qed.

Lemma Forall2_refl_rel {A} (P : A -> A -> Prop) l : (forall a, P a a) -> Forall2 P l l.
Proof. intros H. induction l; constructor; auto. Qed.

(* ---------- the tail of the [run] closure ---------- *)
Lemma run_lists_inv r1 active r2 o :
  run_lists r1 active = (r2, o) ->
  r_id r2 = r_id r1 /\ r_conds r2 = r_conds r1 /\ r_active r2 = r_active r1 /\
  filter is_action_out o = action_points (r_id r1) (r_acts r1) (r_iacts r1) active /\
  Forall2 (arel active) (r_acts r1) (r_acts r2) /\
  Forall2 (arel (negb active)) (r_iacts r1) (r_iacts r2).
Proof.
  unfold run_lists. destruct active.
  - destruct (acts_loop (r_id r1) _ (r_error r1) [] (r_acts r1)) as [[acts' rerr'] o2] eqn:HA.
    apply acts_loop_inv in HA. destruct HA as (l2 & Hl & HF & Hf). cbn [rev app] in Hl. subst l2.
    pose proof (inactive_loop_inv (r_id r1) (r_iacts r1)) as (HI1 & HI2).
    destruct (inactive_loop (r_id r1) (r_iacts r1)) as [iacts' o3]. cbn [fst snd] in HI1, HI2.
    intros H; inversion H; subst r2 o. cbn [r_id r_conds r_active r_acts r_iacts negb].
    repeat split; try assumption.
    rewrite filter_app, Hf, HI2. reflexivity.
  - destruct (acts_loop (r_id r1) _ (r_error r1) [] (r_iacts r1)) as [[iacts' rerr'] o2] eqn:HA.
    apply acts_loop_inv in HA. destruct HA as (l2 & Hl & HF & Hf). cbn [rev app] in Hl. subst l2.
    pose proof (inactive_loop_inv (r_id r1) (r_acts r1)) as (HI1 & HI2).
    destruct (inactive_loop (r_id r1) (r_acts r1)) as [acts' o3]. cbn [fst snd] in HI1, HI2.
    intros H; inversion H; subst r2 o. cbn [r_id r_conds r_active r_acts r_iacts negb].
    repeat split; try assumption.
    rewrite filter_app, Hf, HI2. reflexivity.
Qed.

(* ---------- one run of the [run] closure ---------- *)
Section Step.
Variable tcmp : bytes -> bytes -> bytes -> bool.
Variable w : window_t.

Lemma step_inv r node pts r' o :
  step tcmp w r node pts = (r', o) ->
  r_id r' = r_id r /\
  r_conds r' = r_conds (fst (fst (fst (process tcmp w r node pts)))) /\
  r_active r' = forallb c_active (r_conds r') /\
  step_ok r r' o.
Proof.
  unfold step, step_ok.
  destruct (process tcmp w r node pts) as [[[r1 o1] active] changed] eqn:HP. cbn [fst].
  apply process_inv in HP.
  destruct HP as (Hid & Hacts & Hiacts & _ & Hall & Hactive & Hchanged & Hlow).
  destruct changed; cbn [negb].
  - destruct (run_lists r1 active) as [r2 o2] eqn:HR.
    apply run_lists_inv in HR. destruct HR as (Hid2 & Hc2 & Ha2 & Hf & HF1 & HF2).
    intros H; inversion H; subst r' o.
    split; [rewrite Hid2; exact Hid|split; [exact Hc2|split; [rewrite Ha2, Hc2; exact Hall|]]].
    rewrite Ha2, <- Hchanged, <- Hactive. cbv iota. split; [|split].
    + rewrite filter_app, Hlow, Hf. rewrite Hid, Hacts, Hiacts. reflexivity.
    + rewrite <- Hacts. eapply Forall2_impl; [|exact HF1]. intros a a' (H1 & H2). split; assumption.
    + rewrite <- Hiacts. eapply Forall2_impl; [|exact HF2]. intros a a' (H1 & H2). split; assumption.
  - intros H; inversion H; subst r' o.
    split; [exact Hid|split; [reflexivity|split; [exact Hall|]]].
    rewrite <- Hchanged. cbv iota. split; [|split].
    + exact Hlow.
    + rewrite Hacts. apply Forall2_refl_rel. intros a. split; reflexivity.
    + rewrite Hiacts. apply Forall2_refl_rel. intros a. split; reflexivity.
Qed.

(* along a history: every step of the trace *)
Lemma trace_steps : forall h r,
  Forall (fun t => let '(rb, ra, o) := t in
                   r_active ra = forallb c_active (r_conds ra) /\ step_ok rb ra o)
         (trace tcmp w r h).
Proof.
  induction h as [|[node pts] h IH]; intros r; cbn [trace]; [constructor|].
  destruct (step tcmp w r node pts) as [r' o] eqn:HS. constructor; [|apply IH].
  apply step_inv in HS. destruct HS as (_ & _ & Hact & Hok). split; assumption.
Qed.

End Step.

(* ---------- main theorems (tcmp = the repaired text comparison) ---------- *)

(* one batch *)
Theorem conditions_batch w r node pts :
  Forall2 (cond_follows w (events_of node pts)) (r_conds r) (r_conds (fst (step text_cmp w r node pts))).
Proof.
  destruct (step text_cmp w r node pts) as [r' o] eqn:HS. cbn [fst].
  apply step_inv in HS. destruct HS as (_ & Hc & _). rewrite Hc. apply process_conditions.
Qed.

Lemma cond_follows_trans w es1 es2 c c1 c2 :
  cond_follows w es1 c c1 -> cond_follows w es2 c1 c2 -> cond_follows w (es1 ++ es2) c c2.
Proof.
  intros (Hcfg1 & H1) (Hcfg2 & H2). split; [rewrite Hcfg2; exact Hcfg1|].
  intros Hs. rewrite Hcfg1 in H2. specialize (H1 Hs). specialize (H2 Hs).
  rewrite latest_app. destruct (latest (matches w (c_cfg c)) es2) as [[n p]|].
  - exact H2.
  - destruct (latest (matches w (c_cfg c)) es1) as [[n p]|]; rewrite H2; exact H1.
Qed.

Lemma Forall2_trans_rel {A} (P Q R : A -> A -> Prop) l1 l2 l3 :
  (forall a b c, P a b -> Q b c -> R a c) -> Forall2 P l1 l2 -> Forall2 Q l2 l3 -> Forall2 R l1 l3.
Proof.
  intros H HP. revert l3. induction HP as [|a b l1 l2 Hab HP IH]; intros l3 HQ; inversion HQ; subst; constructor; eauto.
Qed.

(* a history of batches: the latest matching point of the whole history decides *)
Theorem conditions_history w : forall h r,
  Forall2 (cond_follows w (events_of_history h)) (r_conds r) (r_conds (run_history text_cmp w r h)).
Proof.
  induction h as [|[node pts] h IH]; intros r.
  - cbn [run_history events_of_history flat_map]. apply Forall2_refl_rel.
    intros c. split; [reflexivity|]. intros _. reflexivity.
  - cbn [run_history events_of_history flat_map fst snd].
    eapply Forall2_trans_rel; [|apply conditions_batch|apply IH].
    intros a b c Hab Hbc. eapply cond_follows_trans; eassumption.
Qed.

Theorem rule_active_step w r node pts :
  let r' := fst (step text_cmp w r node pts) in r_active r' = forallb c_active (r_conds r').
Proof.
  cbn zeta. destruct (step text_cmp w r node pts) as [r' o] eqn:HS. cbn [fst].
  apply step_inv in HS. destruct HS as (_ & _ & H & _). exact H.
Qed.

Theorem rule_active_process w r node pts :
  let '(r', _, active, changed) := process text_cmp w r node pts in
  r_active r' = forallb c_active (r_conds r') /\ active = r_active r' /\
  changed = negb (Bool.eqb (r_active r) (r_active r')).
Proof.
  destruct (process text_cmp w r node pts) as [[[r' o] a] ch] eqn:HP.
  apply process_inv in HP. destruct HP as (_ & _ & _ & _ & H1 & H2 & H3 & _). auto.
Qed.

Theorem history_steps w r h :
  Forall (fun t => let '(rb, ra, o) := t in
                   r_active ra = forallb c_active (r_conds ra) /\ step_ok rb ra o)
         (trace text_cmp w r h).
Proof. apply trace_steps. Qed.

(* ---------- the configuration-change path of Run ---------- *)
Lemma upd_first_inv {A} (f : A -> bool) (g : A -> A) : forall l l',
  upd_first f g l = Some l' -> Forall2 (fun a a' => a' = a \/ a' = g a) l l'.
Proof.
  induction l as [|x l IH]; intros l'; cbn [upd_first]; [discriminate|].
  destruct (f x).
  - intros H; inversion H; subst. constructor; [right; reflexivity|].
    apply Forall2_refl_rel. intros a. left; reflexivity.
  - destruct (upd_first f g l) as [l''|]; [|discriminate].
    intros H; inversion H; subst. constructor; [left; reflexivity|apply IH; reflexivity].
Qed.

Lemma fold_merge_ccfg_id pts : forall k, c_id (fold_left merge_ccfg pts k) = c_id k.
Proof.
  induction pts as [|p pts IH]; intros k; [reflexivity|]. cbn [fold_left]. rewrite IH.
  unfold merge_ccfg.
  destruct (bytes_eqb (p_type p) s_value); [reflexivity|].
  destruct (bytes_eqb (p_type p) s_valueText); [reflexivity|].
  destruct (bytes_eqb (p_type p) s_operator); reflexivity.
Qed.

Lemma fold_merge_acfg_id pts : forall k, a_id (fold_left merge_acfg pts k) = a_id k.
Proof.
  induction pts as [|p pts IH]; intros k; [reflexivity|]. cbn [fold_left]. rewrite IH.
  unfold merge_acfg.
  destruct (bytes_eqb (p_type p) s_value); [reflexivity|].
  destruct (bytes_eqb (p_type p) s_valueText); reflexivity.
Qed.

Definition cshape (c c' : cond) : Prop :=
  c_id (c_cfg c') = c_id (c_cfg c) /\ c_active c' = c_active c /\ c_error c' = c_error c.
Definition ashape (a a' : action) : Prop :=
  a_id (a_cfg a') = a_id (a_cfg a) /\ a_active a' = a_active a /\ a_error a' = a_error a.

Lemma merge_cond_shape pts sch c : cshape c (merge_cond pts sch c).
Proof.
  unfold cshape, merge_cond, set_c_cfg. cbn [c_cfg c_active c_error]. split; [|split; reflexivity].
  destruct sch as [h|]; [destruct (existsb is_sched_edit pts)|]; cbn [ccfg_set_sched c_id]; apply fold_merge_ccfg_id.
Qed.

Lemma merge_action_shape pts a : ashape a (merge_action pts a).
Proof.
  unfold ashape, merge_action, set_a_cfg. cbn [a_cfg a_active a_error]. split; [|split; reflexivity].
  apply fold_merge_acfg_id.
Qed.

Lemma upd_first_shape {A} (P : A -> A -> Prop) (f : A -> bool) (g : A -> A) l l' :
  (forall a, P a a) -> (forall a, P a (g a)) -> upd_first f g l = Some l' -> Forall2 P l l'.
Proof.
  intros Hr Hg H. apply upd_first_inv in H. eapply Forall2_impl; [|exact H].
  intros a a' [->| ->]; auto.
Qed.

Lemma cshape_refl c : cshape c c. Proof. repeat split. Qed.
Lemma ashape_refl a : ashape a a. Proof. repeat split. Qed.

Lemma merge_same_shape r node pts sch : same_shape r (merge r node pts sch).
Proof.
  assert (Hrefl : same_shape r r).
  { repeat split; apply Forall2_refl_rel; intros; repeat split. }
  unfold merge.
  destruct (is_empty node); [exact Hrefl|].
  destruct (bytes_eqb node (r_id r)); [exact Hrefl|].
  destruct (upd_first _ (merge_cond pts sch) (r_conds r)) as [cs|] eqn:HC.
  { unfold same_shape. cbn [r_id r_active r_error r_conds r_acts r_iacts].
    repeat split; try (apply Forall2_refl_rel; intros; repeat split).
    eapply (upd_first_shape cshape); [apply cshape_refl|apply merge_cond_shape|exact HC]. }
  destruct (upd_first _ (merge_action pts) (r_acts r)) as [l|] eqn:HA.
  { unfold same_shape. cbn [r_id r_active r_error r_conds r_acts r_iacts].
    repeat split; try (apply Forall2_refl_rel; intros; repeat split).
    eapply (upd_first_shape ashape); [apply ashape_refl|apply merge_action_shape|exact HA]. }
  destruct (upd_first _ (merge_action pts) (r_iacts r)) as [l|] eqn:HI; [|exact Hrefl].
  unfold same_shape. cbn [r_id r_active r_error r_conds r_acts r_iacts].
  repeat split; try (apply Forall2_refl_rel; intros; repeat split).
  eapply (upd_first_shape ashape); [apply ashape_refl|apply merge_action_shape|exact HI].
Qed.

Section StepCfg.
Variable tcmp : bytes -> bytes -> bytes -> bool.
Variable w : window_t.

Lemma step_cfg_inv r node pts sch t ra o :
  step_cfg tcmp w r node pts sch t = (ra, o) ->
  let rm := merge r node pts sch in
  r_id ra = r_id r /\
  r_conds ra = r_conds (fst (fst (fst (process tcmp w rm (r_id rm) [trigger_point t])))) /\
  r_active ra = forallb c_active (r_conds ra) /\
  cfg_step_ok rm ra o.
Proof.
  unfold step_cfg, cfg_step_ok. cbn zeta.
  pose proof (merge_same_shape r node pts sch) as (Hmid & _).
  set (rm := merge r node pts sch) in *.
  destruct (process tcmp w rm (r_id rm) [trigger_point t]) as [[[r1 o1] active] changed] eqn:HP. cbn [fst].
  apply process_inv in HP.
  destruct HP as (Hid & Hacts & Hiacts & _ & Hall & Hactive & _ & Hlow).
  destruct (run_lists r1 active) as [r2 o2] eqn:HR.
  apply run_lists_inv in HR. destruct HR as (Hid2 & Hc2 & Ha2 & Hf & HF1 & HF2).
  intros H; inversion H; subst ra o.
  split; [rewrite Hid2, Hid; exact Hmid|split; [exact Hc2|split; [rewrite Ha2, Hc2; exact Hall|]]].
  rewrite Ha2, <- Hactive. split; [|split].
  - rewrite filter_app, Hlow, Hf. rewrite Hid, Hacts, Hiacts. reflexivity.
  - rewrite <- Hacts. eapply Forall2_impl; [|exact HF1]. intros a a' (H1 & H2). split; assumption.
  - rewrite <- Hiacts. eapply Forall2_impl; [|exact HF2]. intros a a' (H1 & H2). split; assumption.
Qed.

End StepCfg.

(* conditions after a configuration change: evaluated, as configured after the
   merge, on the trigger point at the rule's id *)
Theorem config_change_conditions w r node pts sch t :
  Forall2 (cond_follows w [(r_id r, trigger_point t)])
          (r_conds (merge r node pts sch)) (r_conds (fst (step_cfg text_cmp w r node pts sch t))).
Proof.
  destruct (step_cfg text_cmp w r node pts sch t) as [ra o] eqn:HS. cbn [fst].
  apply step_cfg_inv in HS. cbn zeta in HS. destruct HS as (_ & Hc & _). rewrite Hc.
  pose proof (merge_same_shape r node pts sch) as (Hmid & _).
  pose proof (process_conditions w (merge r node pts sch) (r_id (merge r node pts sch)) [trigger_point t]) as H.
  rewrite <- Hmid. exact H.
Qed.

Theorem config_change_rule_active w r node pts sch t :
  let ra := fst (step_cfg text_cmp w r node pts sch t) in r_active ra = forallb c_active (r_conds ra).
Proof.
  cbn zeta. destruct (step_cfg text_cmp w r node pts sch t) as [ra o] eqn:HS. cbn [fst].
  apply step_cfg_inv in HS. cbn zeta in HS. destruct HS as (_ & _ & H & _). exact H.
Qed.

(* the lists run on every configuration change *)
Theorem config_change_always w r node pts sch t :
  cfg_step_ok (merge r node pts sch) (fst (step_cfg text_cmp w r node pts sch t)) (snd (step_cfg text_cmp w r node pts sch t)).
Proof.
  destruct (step_cfg text_cmp w r node pts sch t) as [ra o] eqn:HS. cbn [fst snd].
  apply step_cfg_inv in HS. cbn zeta in HS. destruct HS as (_ & _ & _ & H). exact H.
Qed.

(* in particular when the rule's state changes *)
Theorem config_change_actions w r node pts sch t :
  let rm := merge r node pts sch in
  let ra := fst (step_cfg text_cmp w r node pts sch t) in
  let o := snd (step_cfg text_cmp w r node pts sch t) in
  same_shape r rm /\
  (r_active ra <> r_active r -> cfg_step_ok rm ra o).
Proof.
  cbn zeta. split; [apply merge_same_shape|]. intros _. apply config_change_always.
Qed.
