(* C13: the pinned code (text operators are empty switch cases) does not meet
   the statement of C13_conditions.  The model is the same; only the text
   comparison is replaced by the pinned one ([text_cmp_legacy]: never true). *)
From Coq Require Import String.
From Verif Require Import Base.Bytes Base.Val Rule.Model Rule.Proofs.
Local Open Scope N_scope.
Local Open Scope string_scope.

Definition lg_cfg : ccfg :=
  {| c_id := bs "c0"; c_ctype := s_pointValue; c_node := []; c_ptype := []; c_pkey := [];
     c_vtype := s_text; c_op := s_eq; c_value := 0; c_vtext := bs "on"; c_sched := 0 |}.
Definition lg_rule : rule :=
  {| r_id := bs "rule1"; r_active := false; r_error := [];
     r_conds := [{| c_cfg := lg_cfg; c_active := false; c_error := [] |}]; r_acts := []; r_iacts := [] |}.
Definition lg_point : point := {| p_type := bs "value"; p_key := []; p_time := 0%Z; p_value := 0; p_text := bs "on" |}.
Definition lg_w : window_t := fun _ _ => WIn false.

(* with the pinned comparison a matched text condition is never active, whatever the point's text *)
Lemma legacy_text_inactive w c node p a :
  kind_of c = KText -> matches w c (node, p) = true -> upd text_cmp_legacy w c node a p = false.
Proof.
  unfold upd, eval_cond, matches, kind_of.
  destruct (bytes_eqb (c_ctype c) s_pointValue).
  - rewrite !filt_accepts.
    destruct (bytes_eqb (c_vtype c) s_number); [discriminate|].
    destruct (bytes_eqb (c_vtype c) s_text).
    + intros _ HM. apply andb_prop in HM. destruct HM as (HM & Hk). apply andb_prop in HM. destruct HM as (Hn & Ht).
      rewrite Hn, Hk, Ht. reflexivity.
    + destruct (bytes_eqb (c_vtype c) s_onOff); discriminate.
  - destruct (bytes_eqb (c_ctype c) s_schedule); discriminate.
Qed.

(* the statement of C13_conditions is false of the pinned code: a condition
   "text = on" stays inactive on a point with text "on" *)
Theorem C13_current_refuted :
  exists w r node pts,
    ~ Forall2 (cond_follows w (events_of node pts)) (r_conds r) (r_conds (fst (step text_cmp_legacy w r node pts))).
Proof.
  exists lg_w, lg_rule, (bs "n1"), [lg_point]. intros HF.
  assert (HC : r_conds (fst (step text_cmp_legacy lg_w lg_rule (bs "n1") [lg_point])) =
               [{| c_cfg := lg_cfg; c_active := false; c_error := [] |}]) by (vm_compute; reflexivity).
  rewrite HC in HF. cbn [lg_rule r_conds] in HF.
  inversion HF as [|c c' l l' (_ & H) _]; subst.
  specialize (H eq_refl). vm_compute in H. discriminate H.
Qed.
