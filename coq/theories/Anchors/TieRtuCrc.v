(* modbus.RtuCrc as the translator printed it from modbus/crc.go (Anchors/Generated.v, a MiniGo syntax tree)
   computes, under the evaluator of MiniGo/Syntax.v, the checksum of the hand-written model (Modbus/RtuCrc.v)
   that the C19 theorems are about -- for every buffer.  The proof evaluates each piece of the printed
   function with the variable values left symbolic, compares the resulting integer expressions with the
   model's on all 65536 register values (finite sweeps, lifted by forallb_forall), and goes through the
   two loops by induction.  A changed constant, operator, type or statement order in the Go function
   changes Generated.v and this file is checked again. *)
From Coq Require Import ZArith NArith List Bool Lia String.
From Verif Require Import Base.Bytes Modbus.Regs Modbus.Pdu Modbus.RtuCrc Modbus.ClientProofs MiniGo.Syntax Anchors.Generated.
Import ListNotations.
Open Scope string_scope.
Open Scope Z_scope.

Definition S_shift : stmt :=
  SIf (EBin ONe TBool (EBin OAnd (TU 16) (EVar "crc") (EConst 1)) (EConst 0))
    [SAssign "crc" (EBin OShr (TU 16) (EVar "crc") (EConst 1)); SAssign "crc" (EBin OXor (TU 16) (EVar "crc") (EConst 40961))]
    [SAssign "crc" (EBin OShr (TU 16) (EVar "crc") (EConst 1))].
Definition S_xor : stmt := SAssign "crc" (EBin OXor (TU 16) (EVar "crc") (EConv (TU 16) (EVar "b"))).
Definition E_ret : expr := EBin OOr (TU 16) (EBin OShr (TU 16) (EVar "crc") (EConst 8)) (EBin OShl (TU 16) (EVar "crc") (EConst 8)).

Lemma body_shape :
  f_body go_modbus_RtuCrc = [SDecl "crc" (TU 16) (EConst 65535); SRange "b" (TU 8) "buf" [S_xor; SLoop 8 [S_shift]]; SReturn E_ret].
Proof. reflexivity. Qed.

Ltac ev := cbv - [Z.land Z.lxor Z.lor Z.shiftr Z.shiftl Z.modulo Z.pow Z.eqb Z.add Z.sub Z.mul Z.ltb Z.leb].

(* ---------- what each piece computes, by evaluation with the variable values left symbolic ---------- *)
Definition stepZ (c : Z) : Z :=
  if Z.land c 1 mod 2 ^ 16 =? 0 then (Z.shiftr c 1 mod 2 ^ 16) mod 2 ^ 16
  else (Z.lxor ((Z.shiftr c 1 mod 2 ^ 16) mod 2 ^ 16) 40961 mod 2 ^ 16) mod 2 ^ 16.

Lemma exec_shift sl c rest :
  exec_list sl [S_shift] (("crc", (TU 16, c)) :: rest) = Some (("crc", (TU 16, stepZ c)) :: rest, None).
Proof. ev. destruct (Z.land c 1 mod 2 ^ 16 =? 0); reflexivity. Qed.

Definition xorZ (c x : Z) : Z := (Z.lxor c (x mod 2 ^ 16) mod 2 ^ 16) mod 2 ^ 16.

Lemma exec_xor sl c x :
  exec sl S_xor [("crc", (TU 16, c)); ("b", (TU 8, x))] = Some ([("crc", (TU 16, xorZ c x)); ("b", (TU 8, x))], None).
Proof. reflexivity. Qed.

Definition retZ (c : Z) : Z := Z.lor (Z.shiftr c 8 mod 2 ^ 16) (Z.shiftl c 8 mod 2 ^ 16) mod 2 ^ 16.

Lemma eval_ret sl c rest : eval sl (("crc", (TU 16, c)) :: rest) E_ret = Some (retZ c).
Proof. reflexivity. Qed.

(* ---------- the pieces against the model, on 16-bit values: finite sweeps ---------- *)
Fixpoint upto (n : nat) (k : N) : list N := match n with O => [] | S n' => k :: upto n' (k + 1)%N end.
Lemma in_upto n : forall k y, (k <= y)%N -> (y < k + N.of_nat n)%N -> In y (upto n k).
Proof.
  induction n as [|n IH]; intros k y H1 H2; [lia|]. cbn [upto]. destruct (N.eq_dec k y) as [->|Hne]; [left; reflexivity|].
  right. apply IH; lia.
Qed.
Definition range16 : list N := upto (N.to_nat 65536) 0.
Lemma in_range16 y : (y < 65536)%N -> In y range16.
Proof. intros H. apply in_upto; [lia|]. rewrite N2Nat.id. lia. Qed.

Lemma stepZ_model y : (y < 65536)%N -> stepZ (Z.of_N y) = Z.of_N (crc_shift 1 y).
Proof.
  assert (H : forallb (fun y => stepZ (Z.of_N y) =? Z.of_N (crc_shift 1 y)) range16 = true) by (vm_compute; reflexivity).
  intros Hy. rewrite forallb_forall in H. apply Z.eqb_eq, H, in_range16, Hy.
Qed.

Lemma retZ_model y : (y < 65536)%N -> retZ (Z.of_N y) = Z.of_N (N.lor (N.shiftr y 8) (N.shiftl y 8 mod 65536)).
Proof.
  assert (H : forallb (fun y => retZ (Z.of_N y) =? Z.of_N (N.lor (N.shiftr y 8) (N.shiftl y 8 mod 65536))) range16 = true)
    by (vm_compute; reflexivity).
  intros Hy. rewrite forallb_forall in H. apply Z.eqb_eq, H, in_range16, Hy.
Qed.

Lemma of_N_lxor a b : Z.lxor (Z.of_N a) (Z.of_N b) = Z.of_N (N.lxor a b).
Proof.
  apply Z.bits_inj'. intros n Hn. rewrite Z.lxor_spec, !Z2N.inj_testbit by assumption. now rewrite N.lxor_spec.
Qed.

Lemma xorZ_model y x : (y < 65536)%N -> (x < 256)%N -> xorZ (Z.of_N y) (Z.of_N x) = Z.of_N (N.lxor y x).
Proof.
  intros Hy Hx. unfold xorZ. change (2 ^ 16) with 65536. rewrite (Z.mod_small (Z.of_N x)) by lia.
  rewrite of_N_lxor. assert (Hl : (N.lxor y x < 65536)%N) by (apply lxor_lt16; lia).
  rewrite !Z.mod_small by lia. reflexivity.
Qed.

(* ---------- the loops ---------- *)
Lemma loop_shift sl n : forall y rest, (y < 65536)%N ->
  loop_n (exec_list sl [S_shift]) n (("crc", (TU 16, Z.of_N y)) :: rest) =
  Some (("crc", (TU 16, Z.of_N (crc_shift n y))) :: rest, None).
Proof.
  induction n as [|n IH]; intros y rest Hy; [reflexivity|].
  cbn [loop_n]. rewrite exec_shift, stepZ_model by assumption.
  rewrite IH by (apply (crc_shift_lt 1), Hy). reflexivity.
Qed.

Definition body : list stmt := [S_xor; SLoop 8 [S_shift]].

Lemma exec_body sl y x : (y < 65536)%N -> (x < 256)%N ->
  exec_list sl body [("crc", (TU 16, Z.of_N y)); ("b", (TU 8, Z.of_N x))] =
  Some ([("crc", (TU 16, Z.of_N (crc_byte y x))); ("b", (TU 8, Z.of_N x))], None).
Proof.
  intros Hy Hx. unfold exec_list, body. cbn [exec_seq]. rewrite exec_xor, xorZ_model by assumption.
  change (exec sl (SLoop 8 [S_shift])) with (loop_n (exec_list sl [S_shift]) (Z.to_nat 8)).
  rewrite loop_shift by (apply lxor_lt16; lia). reflexivity.
Qed.

Definition okrest (r : env) : Prop := r = [] \/ exists x0, r = [("b", (TU 8, x0))].

Lemma set_b y r x : okrest r -> (x < 256)%N ->
  set "b" (TU 8, wrap (TU 8) (Z.of_N x)) (("crc", (TU 16, y)) :: r) = [("crc", (TU 16, y)); ("b", (TU 8, Z.of_N x))].
Proof.
  intros Hr Hx. assert (Hw : wrap (TU 8) (Z.of_N x) = Z.of_N x) by (cbn [wrap]; apply Z.mod_small; change (2 ^ 8) with 256; lia).
  rewrite Hw. destruct Hr as [->|[x0 ->]]; reflexivity.
Qed.

Lemma range_loop sl buf : forall y r, okrest r -> (y < 65536)%N -> Forall (fun b => b < 256)%N buf ->
  exists r', okrest r' /\
    loop_range (exec_list sl body) "b" (TU 8) (map Z.of_N buf) (("crc", (TU 16, Z.of_N y)) :: r) =
    Some (("crc", (TU 16, Z.of_N (fold_left crc_byte buf y))) :: r', None).
Proof.
  induction buf as [|x buf IH]; intros y r Hr Hy Hb.
  - exists r. split; [assumption|reflexivity].
  - inversion Hb as [|x' buf' Hx Hb']; subst. cbn [map loop_range fold_left].
    rewrite set_b, exec_body by assumption.
    apply IH; [right; eexists; reflexivity | | assumption].
    unfold crc_byte. apply crc_shift_lt, lxor_lt16; lia.
Qed.

Lemma crc_raw_lt16 buf : Forall (fun b => b < 256)%N buf -> forall y, (y < 65536)%N -> (fold_left crc_byte buf y < 65536)%N.
Proof.
  induction 1 as [|x buf Hx _ IH]; intros y Hy; [exact Hy|]. cbn [fold_left]. apply IH.
  unfold crc_byte. apply crc_shift_lt, lxor_lt16; lia.
Qed.

(* ---------- the function printed from modbus/crc.go computes the model's checksum, for every buffer ---------- *)
Theorem go_RtuCrc_is_model : forall buf, Forall (fun b => b < 256)%N buf ->
  run go_modbus_RtuCrc [map Z.of_N buf] [] = Some (Z.of_N (rtu_crc buf)).
Proof.
  intros buf Hb. unfold run. rewrite body_shape.
  change (f_slices go_modbus_RtuCrc) with ["buf"]. change (f_ints go_modbus_RtuCrc) with (@nil (string * ty)).
  cbn [combine map]. set (sl := [("buf", map Z.of_N buf)]).
  unfold exec_list. cbn [exec_seq]. change (exec sl (SDecl "crc" (TU 16) (EConst 65535)) []) with (Some ([("crc", (TU 16, Z.of_N 65535))], @None Z)).
  cbv iota beta.
  change (exec sl (SRange "b" (TU 8) "buf" [S_xor; SLoop 8 [S_shift]]) [("crc", (TU 16, Z.of_N 65535))])
    with (loop_range (exec_list sl body) "b" (TU 8) (map Z.of_N buf) [("crc", (TU 16, Z.of_N 65535))]).
  destruct (range_loop sl buf 65535 [] (or_introl eq_refl) ltac:(reflexivity) Hb) as (r' & _ & ->).
  cbv iota beta. cbn [exec]. rewrite eval_ret, retZ_model by (apply crc_raw_lt16; [assumption|reflexivity]).
  reflexivity.
Qed.

Corollary go_RtuCrc_is_model_bytes : forall buf, bytes_ok buf = true ->
  run go_modbus_RtuCrc [map Z.of_N buf] [] = Some (Z.of_N (rtu_crc buf)).
Proof.
  intros buf H. apply go_RtuCrc_is_model. apply Forall_forall. intros x Hx.
  unfold bytes_ok in H. rewrite forallb_forall in H. specialize (H x Hx). unfold byte_ok in H. apply N.ltb_lt, H.
Qed.
