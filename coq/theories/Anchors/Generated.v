(* GENERATED on every run by harness/cmd/anchors from the Go sources of the repository under test.
   Do not edit: the theorems of Anchors/Tie*.v are re-checked against this text. *)
From Coq Require Import ZArith NArith List String.
From Verif Require Import MiniGo.Syntax MiniGo.Slice MiniGo.Recipe.
Import ListNotations.
Open Scope string_scope.

(* ---------- modbus ---------- *)
Definition go_modbus_ExcAcknowledge : Z := 5%Z.
Definition go_modbus_ExcGatewayPathUnavilable : Z := 10%Z.
Definition go_modbus_ExcGatewayTargetFailedToRespond : Z := 11%Z.
Definition go_modbus_ExcIllegalAddress : Z := 2%Z.
Definition go_modbus_ExcIllegalFunction : Z := 1%Z.
Definition go_modbus_ExcIllegalValue : Z := 3%Z.
Definition go_modbus_ExcMemoryParityError : Z := 8%Z.
Definition go_modbus_ExcServerDeviceBusy : Z := 6%Z.
Definition go_modbus_ExcServerDeviceFailure : Z := 4%Z.
Definition go_modbus_FuncCodeMaskWriteRegister : Z := 22%Z.
Definition go_modbus_FuncCodeReadCoils : Z := 1%Z.
Definition go_modbus_FuncCodeReadDiscreteInputs : Z := 2%Z.
Definition go_modbus_FuncCodeReadFIFOQueue : Z := 24%Z.
Definition go_modbus_FuncCodeReadHoldingRegisters : Z := 3%Z.
Definition go_modbus_FuncCodeReadInputRegisters : Z := 4%Z.
Definition go_modbus_FuncCodeReadWriteMultipleRegisters : Z := 23%Z.
Definition go_modbus_FuncCodeWriteMultipleCoils : Z := 15%Z.
Definition go_modbus_FuncCodeWriteMultipleRegisters : Z := 16%Z.
Definition go_modbus_FuncCodeWriteSingleCoil : Z := 5%Z.
Definition go_modbus_FuncCodeWriteSingleRegister : Z := 6%Z.
Definition go_modbus_TransportClient : list N := [99; 108; 105; 101; 110; 116]%N.
Definition go_modbus_TransportServer : list N := [115; 101; 114; 118; 101; 114]%N.
Definition go_modbus_TransportTypeRTU : list N := [114; 116; 117]%N.
Definition go_modbus_TransportTypeTCP : list N := [116; 99; 112]%N.
Definition go_modbus_WriteCoilValueOff : Z := 0%Z.
Definition go_modbus_WriteCoilValueOn : Z := 65280%Z.
Definition go_modbus_asciiEnd : list N := [13; 10]%N.
Definition go_modbus_asciiMaxSize : Z := 513%Z.
Definition go_modbus_asciiMinSize : Z := 9%Z.
Definition go_modbus_asciiStart : Z := 58%Z.
Definition go_modbus_maxADUSize : Z := 260%Z.
Definition go_modbus_maxAddress : Z := 65536%Z.
Definition go_modbus_maxReadBits : Z := 2000%Z.
Definition go_modbus_maxReadRegs : Z := 125%Z.
Definition go_modbus_maxWriteBits : Z := 1968%Z.
Definition go_modbus_maxWriteRegs : Z := 123%Z.
Definition go_modbus_minRequestLen : list (Z * Z) := [(1%Z, 5%Z); (2%Z, 5%Z); (3%Z, 5%Z); (4%Z, 5%Z); (5%Z, 5%Z); (6%Z, 5%Z); (15%Z, 7%Z); (16%Z, 8%Z); (22%Z, 7%Z); (23%Z, 12%Z); (24%Z, 3%Z)].
Definition go_modbus_RtuCrc : func := {| f_name := "modbus.RtuCrc"; f_slices := ["buf"]; f_ints := []; f_body :=
 [SDecl "crc" (TU 16) (EConst 65535%Z);
 SRange "b" (TU 8) "buf"
 [SAssign "crc" (EBin OXor (TU 16) (EVar "crc") (EConv (TU 16) (EVar "b")));
 SLoop 8%Z
 [SIf (EBin ONe TBool (EBin OAnd (TU 16) (EVar "crc") (EConst 1%Z)) (EConst 0%Z))
 [SAssign "crc" (EBin OShr (TU 16) (EVar "crc") (EConst 1%Z));
 SAssign "crc" (EBin OXor (TU 16) (EVar "crc") (EConst 40961%Z))]
 [SAssign "crc" (EBin OShr (TU 16) (EVar "crc") (EConst 1%Z))]]];
 SReturn (EBin OOr (TU 16) (EBin OShr (TU 16) (EVar "crc") (EConst 8%Z)) (EBin OShl (TU 16) (EVar "crc") (EConst 8%Z)))] |}.
Definition go_modbus_PutUint16Array : sfunc := {| sf_name := "modbus.PutUint16Array"; sf_params := [("value", (TU 16))]; sf_body :=
 [TMake "data" (TU 8) (XBin OMul (TS 64) (XConst 2%Z) (XLen "value"));
 TRangeIV "i" "v" (TU 16) "value"
 [TPutBE 16%Z "data" (XBin OMul (TS 64) (XVar "i") (XConst 2%Z)) (XVar "v")];
 TReturn "data"] |}.
Definition go_modbus_Uint16Array : sfunc := {| sf_name := "modbus.Uint16Array"; sf_params := [("data", (TU 8))]; sf_body :=
 [TMake "ret" (TU 16) (XDiv (TS 64) (XLen "data") (XConst 2%Z));
 TRangeI "i" "ret"
 [TStore "ret" (XVar "i") (XGetBE 16%Z "data" (XBin OMul (TS 64) (XVar "i") (XConst 2%Z)) (Some (XBin OAdd (TS 64) (XBin OMul (TS 64) (XVar "i") (XConst 2%Z)) (XConst 2%Z))))];
 TReturn "ret"] |}.
Definition go_modbus_RegsToInt16 : sfunc := {| sf_name := "modbus.RegsToInt16"; sf_params := [("in", (TU 16))]; sf_body :=
 [TMake "ret" (TS 16) (XLen "in");
 TRangeI "i" "in"
 [TStore "ret" (XVar "i") (XConv (TS 16) (XIndex "in" (XVar "i")))];
 TReturn "ret"] |}.
Definition go_modbus_RegsToUint32 : sfunc := {| sf_name := "modbus.RegsToUint32"; sf_params := [("in", (TU 16))]; sf_body :=
 [TDecl "count" (TS 64) (XDiv (TS 64) (XLen "in") (XConst 2%Z));
 TMake "ret" (TU 32) (XVar "count");
 TRangeI "i" "ret"
 [TMake "buf" (TU 8) (XConst 4%Z);
 TPutBE 16%Z "buf" (XConst 0%Z) (XIndex "in" (XBin OMul (TS 64) (XVar "i") (XConst 2%Z)));
 TPutBE 16%Z "buf" (XConst 2%Z) (XIndex "in" (XBin OAdd (TS 64) (XBin OMul (TS 64) (XVar "i") (XConst 2%Z)) (XConst 1%Z)));
 TStore "ret" (XVar "i") (XGetBE 32%Z "buf" (XConst 0%Z) None)];
 TReturn "ret"] |}.
Definition go_modbus_RegsToUint32SwapWords : sfunc := {| sf_name := "modbus.RegsToUint32SwapWords"; sf_params := [("in", (TU 16))]; sf_body :=
 [TDecl "count" (TS 64) (XDiv (TS 64) (XLen "in") (XConst 2%Z));
 TMake "ret" (TU 32) (XVar "count");
 TRangeI "i" "ret"
 [TMake "buf" (TU 8) (XConst 4%Z);
 TPutBE 16%Z "buf" (XConst 2%Z) (XIndex "in" (XBin OMul (TS 64) (XVar "i") (XConst 2%Z)));
 TPutBE 16%Z "buf" (XConst 0%Z) (XIndex "in" (XBin OAdd (TS 64) (XBin OMul (TS 64) (XVar "i") (XConst 2%Z)) (XConst 1%Z)));
 TStore "ret" (XVar "i") (XGetBE 32%Z "buf" (XConst 0%Z) None)];
 TReturn "ret"] |}.
Definition go_modbus_Uint32ToRegs : sfunc := {| sf_name := "modbus.Uint32ToRegs"; sf_params := [("in", (TU 32))]; sf_body :=
 [TMake "ret" (TU 16) (XBin OMul (TS 64) (XLen "in") (XConst 2%Z));
 TRangeIV "i" "v" (TU 32) "in"
 [TMake "buf" (TU 8) (XConst 4%Z);
 TPutBE 32%Z "buf" (XConst 0%Z) (XVar "v");
 TStore "ret" (XBin OMul (TS 64) (XVar "i") (XConst 2%Z)) (XGetBE 16%Z "buf" (XConst 0%Z) None);
 TStore "ret" (XBin OAdd (TS 64) (XBin OMul (TS 64) (XVar "i") (XConst 2%Z)) (XConst 1%Z)) (XGetBE 16%Z "buf" (XConst 2%Z) None)];
 TReturn "ret"] |}.
Definition go_modbus_Uint32ToRegsSwapRegs : sfunc := {| sf_name := "modbus.Uint32ToRegsSwapRegs"; sf_params := [("in", (TU 32))]; sf_body :=
 [TMake "ret" (TU 16) (XBin OMul (TS 64) (XLen "in") (XConst 2%Z));
 TRangeIV "i" "v" (TU 32) "in"
 [TMake "buf" (TU 8) (XConst 4%Z);
 TPutBE 32%Z "buf" (XConst 0%Z) (XVar "v");
 TStore "ret" (XBin OMul (TS 64) (XVar "i") (XConst 2%Z)) (XGetBE 16%Z "buf" (XConst 2%Z) None);
 TStore "ret" (XBin OAdd (TS 64) (XBin OMul (TS 64) (XVar "i") (XConst 2%Z)) (XConst 1%Z)) (XGetBE 16%Z "buf" (XConst 0%Z) None)];
 TReturn "ret"] |}.
Definition go_modbus_RegsToInt32 : sfunc := {| sf_name := "modbus.RegsToInt32"; sf_params := [("in", (TU 16))]; sf_body :=
 [TDecl "count" (TS 64) (XDiv (TS 64) (XLen "in") (XConst 2%Z));
 TMake "ret" (TS 32) (XVar "count");
 TRangeI "i" "ret"
 [TMake "buf" (TU 8) (XConst 4%Z);
 TPutBE 16%Z "buf" (XConst 0%Z) (XIndex "in" (XBin OMul (TS 64) (XVar "i") (XConst 2%Z)));
 TPutBE 16%Z "buf" (XConst 2%Z) (XIndex "in" (XBin OAdd (TS 64) (XBin OMul (TS 64) (XVar "i") (XConst 2%Z)) (XConst 1%Z)));
 TStore "ret" (XVar "i") (XConv (TS 32) (XGetBE 32%Z "buf" (XConst 0%Z) None))];
 TReturn "ret"] |}.
Definition go_modbus_RegsToInt32SwapWords : sfunc := {| sf_name := "modbus.RegsToInt32SwapWords"; sf_params := [("in", (TU 16))]; sf_body :=
 [TDecl "count" (TS 64) (XDiv (TS 64) (XLen "in") (XConst 2%Z));
 TMake "ret" (TS 32) (XVar "count");
 TRangeI "i" "ret"
 [TMake "buf" (TU 8) (XConst 4%Z);
 TPutBE 16%Z "buf" (XConst 2%Z) (XIndex "in" (XBin OMul (TS 64) (XVar "i") (XConst 2%Z)));
 TPutBE 16%Z "buf" (XConst 0%Z) (XIndex "in" (XBin OAdd (TS 64) (XBin OMul (TS 64) (XVar "i") (XConst 2%Z)) (XConst 1%Z)));
 TStore "ret" (XVar "i") (XConv (TS 32) (XGetBE 32%Z "buf" (XConst 0%Z) None))];
 TReturn "ret"] |}.
Definition go_modbus_Int32ToRegs : sfunc := {| sf_name := "modbus.Int32ToRegs"; sf_params := [("in", (TS 32))]; sf_body :=
 [TMake "ret" (TU 16) (XBin OMul (TS 64) (XLen "in") (XConst 2%Z));
 TRangeIV "i" "v" (TS 32) "in"
 [TMake "buf" (TU 8) (XConst 4%Z);
 TPutBE 32%Z "buf" (XConst 0%Z) (XConv (TU 32) (XVar "v"));
 TStore "ret" (XBin OMul (TS 64) (XVar "i") (XConst 2%Z)) (XGetBE 16%Z "buf" (XConst 0%Z) None);
 TStore "ret" (XBin OAdd (TS 64) (XBin OMul (TS 64) (XVar "i") (XConst 2%Z)) (XConst 1%Z)) (XGetBE 16%Z "buf" (XConst 2%Z) None)];
 TReturn "ret"] |}.
Definition go_modbus_Int32ToRegsSwapWords : sfunc := {| sf_name := "modbus.Int32ToRegsSwapWords"; sf_params := [("in", (TS 32))]; sf_body :=
 [TMake "ret" (TU 16) (XBin OMul (TS 64) (XLen "in") (XConst 2%Z));
 TRangeIV "i" "v" (TS 32) "in"
 [TMake "buf" (TU 8) (XConst 4%Z);
 TPutBE 32%Z "buf" (XConst 0%Z) (XConv (TU 32) (XVar "v"));
 TStore "ret" (XBin OMul (TS 64) (XVar "i") (XConst 2%Z)) (XGetBE 16%Z "buf" (XConst 2%Z) None);
 TStore "ret" (XBin OAdd (TS 64) (XBin OMul (TS 64) (XVar "i") (XConst 2%Z)) (XConst 1%Z)) (XGetBE 16%Z "buf" (XConst 0%Z) None)];
 TReturn "ret"] |}.
Definition go_modbus_RegsToFloat32 : sfunc := {| sf_name := "modbus.RegsToFloat32"; sf_params := [("in", (TU 16))]; sf_body :=
 [TDecl "count" (TS 64) (XDiv (TS 64) (XLen "in") (XConst 2%Z));
 TMake "ret" (TU 32) (XVar "count");
 TRangeI "i" "ret"
 [TMake "buf" (TU 8) (XConst 4%Z);
 TPutBE 16%Z "buf" (XConst 0%Z) (XIndex "in" (XBin OMul (TS 64) (XVar "i") (XConst 2%Z)));
 TPutBE 16%Z "buf" (XConst 2%Z) (XIndex "in" (XBin OAdd (TS 64) (XBin OMul (TS 64) (XVar "i") (XConst 2%Z)) (XConst 1%Z)));
 TStore "ret" (XVar "i") (XBits (XGetBE 32%Z "buf" (XConst 0%Z) None))];
 TReturn "ret"] |}.
Definition go_modbus_RegsToFloat32SwapWords : sfunc := {| sf_name := "modbus.RegsToFloat32SwapWords"; sf_params := [("in", (TU 16))]; sf_body :=
 [TDecl "count" (TS 64) (XDiv (TS 64) (XLen "in") (XConst 2%Z));
 TMake "ret" (TU 32) (XVar "count");
 TRangeI "i" "ret"
 [TMake "buf" (TU 8) (XConst 4%Z);
 TPutBE 16%Z "buf" (XConst 2%Z) (XIndex "in" (XBin OMul (TS 64) (XVar "i") (XConst 2%Z)));
 TPutBE 16%Z "buf" (XConst 0%Z) (XIndex "in" (XBin OAdd (TS 64) (XBin OMul (TS 64) (XVar "i") (XConst 2%Z)) (XConst 1%Z)));
 TStore "ret" (XVar "i") (XBits (XGetBE 32%Z "buf" (XConst 0%Z) None))];
 TReturn "ret"] |}.
Definition go_modbus_Float32ToRegs : sfunc := {| sf_name := "modbus.Float32ToRegs"; sf_params := [("in", (TU 32))]; sf_body :=
 [TMake "ret" (TU 16) (XBin OMul (TS 64) (XLen "in") (XConst 2%Z));
 TRangeIV "i" "v" (TU 32) "in"
 [TMake "buf" (TU 8) (XConst 4%Z);
 TPutBE 32%Z "buf" (XConst 0%Z) (XBits (XVar "v"));
 TStore "ret" (XBin OMul (TS 64) (XVar "i") (XConst 2%Z)) (XGetBE 16%Z "buf" (XConst 0%Z) None);
 TStore "ret" (XBin OAdd (TS 64) (XBin OMul (TS 64) (XVar "i") (XConst 2%Z)) (XConst 1%Z)) (XGetBE 16%Z "buf" (XConst 2%Z) None)];
 TReturn "ret"] |}.
Definition go_modbus_Float32ToRegsSwapWords : sfunc := {| sf_name := "modbus.Float32ToRegsSwapWords"; sf_params := [("in", (TU 32))]; sf_body :=
 [TMake "ret" (TU 16) (XBin OMul (TS 64) (XLen "in") (XConst 2%Z));
 TRangeIV "i" "v" (TU 32) "in"
 [TMake "buf" (TU 8) (XConst 4%Z);
 TPutBE 32%Z "buf" (XConst 0%Z) (XBits (XVar "v"));
 TStore "ret" (XBin OMul (TS 64) (XVar "i") (XConst 2%Z)) (XGetBE 16%Z "buf" (XConst 2%Z) None);
 TStore "ret" (XBin OAdd (TS 64) (XBin OMul (TS 64) (XVar "i") (XConst 2%Z)) (XConst 1%Z)) (XGetBE 16%Z "buf" (XConst 0%Z) None)];
 TReturn "ret"] |}.
Definition go_modbus_CheckRtuCrc : sfunc := {| sf_name := "modbus.CheckRtuCrc"; sf_params := [("packet", (TU 8))]; sf_body :=
 [TIf (XBin OLt TBool (XLen "packet") (XConst 4%Z))
 [TReturnIntErr (XConst 0%Z) "ErrNotEnoughData"]
 [];
 TDecl "crcCalc" (TU 16) (XCall go_modbus_RtuCrc "packet" (XConst 0%Z) (Some (XBin OSub (TS 64) (XLen "packet") (XConst 2%Z))));
 TDecl "crcPacket" (TU 16) (XGetBE 16%Z "packet" (XBin OSub (TS 64) (XLen "packet") (XConst 2%Z)) None);
 TIf (XBin ONe TBool (XVar "crcCalc") (XVar "crcPacket"))
 [TReturnIntErr (XConst 0%Z) "ErrCRC"]
 [];
 TReturnIntErr (XConst 0%Z) ""] |}.

(* ---------- data ---------- *)
Definition go_data_NodeTypeAction : list N := [97; 99; 116; 105; 111; 110]%N.
Definition go_data_NodeTypeActionInactive : list N := [97; 99; 116; 105; 111; 110; 73; 110; 97; 99; 116; 105; 118; 101]%N.
Definition go_data_NodeTypeCanBus : list N := [99; 97; 110; 66; 117; 115]%N.
Definition go_data_NodeTypeCondition : list N := [99; 111; 110; 100; 105; 116; 105; 111; 110]%N.
Definition go_data_NodeTypeDb : list N := [100; 98]%N.
Definition go_data_NodeTypeDevice : list N := [100; 101; 118; 105; 99; 101]%N.
Definition go_data_NodeTypeFile : list N := [102; 105; 108; 101]%N.
Definition go_data_NodeTypeGroup : list N := [103; 114; 111; 117; 112]%N.
Definition go_data_NodeTypeJWT : list N := [106; 119; 116]%N.
Definition go_data_NodeTypeMetrics : list N := [109; 101; 116; 114; 105; 99; 115]%N.
Definition go_data_NodeTypeModbus : list N := [109; 111; 100; 98; 117; 115]%N.
Definition go_data_NodeTypeModbusIO : list N := [109; 111; 100; 98; 117; 115; 73; 111]%N.
Definition go_data_NodeTypeMsgService : list N := [109; 115; 103; 83; 101; 114; 118; 105; 99; 101]%N.
Definition go_data_NodeTypeNTP : list N := [110; 116; 112]%N.
Definition go_data_NodeTypeNetworkManager : list N := [110; 101; 116; 119; 111; 114; 107; 77; 97; 110; 97; 103; 101; 114]%N.
Definition go_data_NodeTypeNetworkManagerConn : list N := [110; 101; 116; 119; 111; 114; 107; 77; 97; 110; 97; 103; 101; 114; 67; 111; 110; 110]%N.
Definition go_data_NodeTypeNetworkManagerDevice : list N := [110; 101; 116; 119; 111; 114; 107; 77; 97; 110; 97; 103; 101; 114; 68; 101; 118; 105; 99; 101]%N.
Definition go_data_NodeTypeOneWire : list N := [111; 110; 101; 87; 105; 114; 101]%N.
Definition go_data_NodeTypeOneWireIO : list N := [111; 110; 101; 87; 105; 114; 101; 73; 79]%N.
Definition go_data_NodeTypeRule : list N := [114; 117; 108; 101]%N.
Definition go_data_NodeTypeSerialDev : list N := [115; 101; 114; 105; 97; 108; 68; 101; 118]%N.
Definition go_data_NodeTypeShelly : list N := [115; 104; 101; 108; 108; 121]%N.
Definition go_data_NodeTypeShellyIo : list N := [115; 104; 101; 108; 108; 121; 73; 111]%N.
Definition go_data_NodeTypeSignalGenerator : list N := [115; 105; 103; 110; 97; 108; 71; 101; 110; 101; 114; 97; 116; 111; 114]%N.
Definition go_data_NodeTypeSync : list N := [115; 121; 110; 99]%N.
Definition go_data_NodeTypeUpdate : list N := [117; 112; 100; 97; 116; 101]%N.
Definition go_data_NodeTypeUser : list N := [117; 115; 101; 114]%N.
Definition go_data_NodeTypeVariable : list N := [118; 97; 114; 105; 97; 98; 108; 101]%N.
Definition go_data_PointTypeAction : list N := [97; 99; 116; 105; 111; 110]%N.
Definition go_data_PointTypeActive : list N := [97; 99; 116; 105; 118; 101]%N.
Definition go_data_PointTypeAddress : list N := [97; 100; 100; 114; 101; 115; 115]%N.
Definition go_data_PointTypeAppUpdate : list N := [97; 112; 112; 85; 112; 100; 97; 116; 101]%N.
Definition go_data_PointTypeAuthToken : list N := [97; 117; 116; 104; 84; 111; 107; 101; 110]%N.
Definition go_data_PointTypeAutoDownload : list N := [97; 117; 116; 111; 68; 111; 119; 110; 108; 111; 97; 100]%N.
Definition go_data_PointTypeAutoReboot : list N := [97; 117; 116; 111; 82; 101; 98; 111; 111; 116]%N.
Definition go_data_PointTypeBatchPeriod : list N := [98; 97; 116; 99; 104; 80; 101; 114; 105; 111; 100]%N.
Definition go_data_PointTypeBaud : list N := [98; 97; 117; 100]%N.
Definition go_data_PointTypeBitRate : list N := [98; 105; 116; 82; 97; 116; 101]%N.
Definition go_data_PointTypeBrightness : list N := [98; 114; 105; 103; 104; 116; 110; 101; 115; 115]%N.
Definition go_data_PointTypeBucket : list N := [98; 117; 99; 107; 101; 116]%N.
Definition go_data_PointTypeChannel : list N := [99; 104; 97; 110; 110; 101; 108]%N.
Definition go_data_PointTypeClientServer : list N := [99; 108; 105; 101; 110; 116; 83; 101; 114; 118; 101; 114]%N.
Definition go_data_PointTypeCmdPending : list N := [99; 109; 100; 80; 101; 110; 100; 105; 110; 103]%N.
Definition go_data_PointTypeConditionType : list N := [99; 111; 110; 100; 105; 116; 105; 111; 110; 84; 121; 112; 101]%N.
Definition go_data_PointTypeConnected : list N := [99; 111; 110; 110; 101; 99; 116; 101; 100]%N.
Definition go_data_PointTypeControlled : list N := [99; 111; 110; 116; 114; 111; 108; 108; 101; 100]%N.
Definition go_data_PointTypeCount : list N := [99; 111; 117; 110; 116]%N.
Definition go_data_PointTypeCurrent : list N := [99; 117; 114; 114; 101; 110; 116]%N.
Definition go_data_PointTypeData : list N := [100; 97; 116; 97]%N.
Definition go_data_PointTypeDataFormat : list N := [100; 97; 116; 97; 70; 111; 114; 109; 97; 116]%N.
Definition go_data_PointTypeDate : list N := [100; 97; 116; 101]%N.
Definition go_data_PointTypeDebug : list N := [100; 101; 98; 117; 103]%N.
Definition go_data_PointTypeDescription : list N := [100; 101; 115; 99; 114; 105; 112; 116; 105; 111; 110]%N.
Definition go_data_PointTypeDestination : list N := [100; 101; 115; 116; 105; 110; 97; 116; 105; 111; 110]%N.
Definition go_data_PointTypeDevice : list N := [100; 101; 118; 105; 99; 101]%N.
Definition go_data_PointTypeDeviceID : list N := [100; 101; 118; 105; 99; 101; 73; 68]%N.
Definition go_data_PointTypeDirectory : list N := [100; 105; 114; 101; 99; 116; 111; 114; 121]%N.
Definition go_data_PointTypeDisabled : list N := [100; 105; 115; 97; 98; 108; 101; 100]%N.
Definition go_data_PointTypeDiscardDownload : list N := [100; 105; 115; 99; 97; 114; 100; 68; 111; 119; 110; 108; 111; 97; 100]%N.
Definition go_data_PointTypeDownloadOS : list N := [100; 111; 119; 110; 108; 111; 97; 100; 79; 83]%N.
Definition go_data_PointTypeEmail : list N := [101; 109; 97; 105; 108]%N.
Definition go_data_PointTypeEnd : list N := [101; 110; 100]%N.
Definition go_data_PointTypeError : list N := [101; 114; 114; 111; 114]%N.
Definition go_data_PointTypeErrorCount : list N := [101; 114; 114; 111; 114; 67; 111; 117; 110; 116]%N.
Definition go_data_PointTypeErrorCountCRC : list N := [101; 114; 114; 111; 114; 67; 111; 117; 110; 116; 67; 82; 67]%N.
Definition go_data_PointTypeErrorCountCRCReset : list N := [101; 114; 114; 111; 114; 67; 111; 117; 110; 116; 67; 82; 67; 82; 101; 115; 101; 116]%N.
Definition go_data_PointTypeErrorCountEOF : list N := [101; 114; 114; 111; 114; 67; 111; 117; 110; 116; 69; 79; 70]%N.
Definition go_data_PointTypeErrorCountEOFReset : list N := [101; 114; 114; 111; 114; 67; 111; 117; 110; 116; 69; 79; 70; 82; 101; 115; 101; 116]%N.
Definition go_data_PointTypeErrorCountHR : list N := [101; 114; 114; 111; 114; 67; 111; 117; 110; 116; 72; 82]%N.
Definition go_data_PointTypeErrorCountReset : list N := [101; 114; 114; 111; 114; 67; 111; 117; 110; 116; 82; 101; 115; 101; 116]%N.
Definition go_data_PointTypeErrorCountResetHR : list N := [101; 114; 114; 111; 114; 67; 111; 117; 110; 116; 82; 101; 115; 101; 116; 72; 82]%N.
Definition go_data_PointTypeFallbackServer : list N := [102; 97; 108; 108; 98; 97; 99; 107; 83; 101; 114; 118; 101; 114]%N.
Definition go_data_PointTypeFilePath : list N := [102; 105; 108; 101; 80; 97; 116; 104]%N.
Definition go_data_PointTypeFirstName : list N := [102; 105; 114; 115; 116; 78; 97; 109; 101]%N.
Definition go_data_PointTypeFrequency : list N := [102; 114; 101; 113; 117; 101; 110; 99; 121]%N.
Definition go_data_PointTypeFrom : list N := [102; 114; 111; 109]%N.
Definition go_data_PointTypeHRDest : list N := [104; 114; 68; 101; 115; 116]%N.
Definition go_data_PointTypeHost : list N := [104; 111; 115; 116]%N.
Definition go_data_PointTypeHostBootTime : list N := [104; 111; 115; 116; 66; 111; 111; 116; 84; 105; 109; 101]%N.
Definition go_data_PointTypeHrRx : list N := [104; 114; 82; 120]%N.
Definition go_data_PointTypeHrRxReset : list N := [104; 114; 82; 120; 82; 101; 115; 101; 116]%N.
Definition go_data_PointTypeID : list N := [105; 100]%N.
Definition go_data_PointTypeIP : list N := [105; 112]%N.
Definition go_data_PointTypeIndex : list N := [105; 110; 100; 101; 120]%N.
Definition go_data_PointTypeInitialValue : list N := [105; 110; 105; 116; 105; 97; 108; 86; 97; 108; 117; 101]%N.
Definition go_data_PointTypeInitialized : list N := [105; 110; 105; 116; 105; 97; 108; 105; 122; 101; 100]%N.
Definition go_data_PointTypeInput : list N := [105; 110; 112; 117; 116]%N.
Definition go_data_PointTypeLastName : list N := [108; 97; 115; 116; 78; 97; 109; 101]%N.
Definition go_data_PointTypeLight : list N := [108; 105; 103; 104; 116]%N.
Definition go_data_PointTypeLightSet : list N := [108; 105; 103; 104; 116; 83; 101; 116]%N.
Definition go_data_PointTypeLightTemp : list N := [108; 105; 103; 104; 116; 84; 101; 109; 112]%N.
Definition go_data_PointTypeLog : list N := [108; 111; 103]%N.
Definition go_data_PointTypeMaxIncrement : list N := [109; 97; 120; 73; 110; 99; 114; 101; 109; 101; 110; 116]%N.
Definition go_data_PointTypeMaxMessageLength : list N := [109; 97; 120; 77; 101; 115; 115; 97; 103; 101; 76; 101; 110; 103; 116; 104]%N.
Definition go_data_PointTypeMaxValue : list N := [109; 97; 120; 86; 97; 108; 117; 101]%N.
Definition go_data_PointTypeMetricAppAlloc : list N := [109; 101; 116; 114; 105; 99; 65; 112; 112; 65; 108; 108; 111; 99]%N.
Definition go_data_PointTypeMetricAppNumGoroutine : list N := [109; 101; 116; 114; 105; 99; 65; 112; 112; 78; 117; 109; 71; 111; 114; 111; 117; 116; 105; 110; 101]%N.
Definition go_data_PointTypeMetricNatsCycleNode : list N := [109; 101; 116; 114; 105; 99; 78; 97; 116; 115; 67; 121; 99; 108; 101; 78; 111; 100; 101]%N.
Definition go_data_PointTypeMetricNatsCycleNodeChildren : list N := [109; 101; 116; 114; 105; 99; 78; 97; 116; 115; 67; 121; 99; 108; 101; 78; 111; 100; 101; 67; 104; 105; 108; 100; 114; 101; 110]%N.
Definition go_data_PointTypeMetricNatsCycleNodeEdgePoint : list N := [109; 101; 116; 114; 105; 99; 78; 97; 116; 115; 67; 121; 99; 108; 101; 78; 111; 100; 101; 69; 100; 103; 101; 80; 111; 105; 110; 116]%N.
Definition go_data_PointTypeMetricNatsCycleNodePoint : list N := [109; 101; 116; 114; 105; 99; 78; 97; 116; 115; 67; 121; 99; 108; 101; 78; 111; 100; 101; 80; 111; 105; 110; 116]%N.
Definition go_data_PointTypeMetricNatsPendingNodeEdgePoint : list N := [109; 101; 116; 114; 105; 99; 78; 97; 116; 115; 80; 101; 110; 100; 105; 110; 103; 78; 111; 100; 101; 69; 100; 103; 101; 80; 111; 105; 110; 116]%N.
Definition go_data_PointTypeMetricNatsPendingNodePoint : list N := [109; 101; 116; 114; 105; 99; 78; 97; 116; 115; 80; 101; 110; 100; 105; 110; 103; 78; 111; 100; 101; 80; 111; 105; 110; 116]%N.
Definition go_data_PointTypeMetricNatsThroughputNodeEdgePoint : list N := [109; 101; 116; 114; 105; 99; 78; 97; 116; 115; 84; 104; 114; 111; 117; 103; 104; 112; 117; 116; 78; 111; 100; 101; 69; 100; 103; 101; 80; 111; 105; 110; 116]%N.
Definition go_data_PointTypeMetricNatsThroughputNodePoint : list N := [109; 101; 116; 114; 105; 99; 78; 97; 116; 115; 84; 104; 114; 111; 117; 103; 104; 112; 117; 116; 78; 111; 100; 101; 80; 111; 105; 110; 116]%N.
Definition go_data_PointTypeMetricProcCPUPercent : list N := [109; 101; 116; 114; 105; 99; 80; 114; 111; 99; 67; 80; 85; 80; 101; 114; 99; 101; 110; 116]%N.
Definition go_data_PointTypeMetricProcMemPercent : list N := [109; 101; 116; 114; 105; 99; 80; 114; 111; 99; 77; 101; 109; 80; 101; 114; 99; 101; 110; 116]%N.
Definition go_data_PointTypeMetricProcMemRSS : list N := [109; 101; 116; 114; 105; 99; 80; 114; 111; 99; 77; 101; 109; 82; 83; 83]%N.
Definition go_data_PointTypeMetricSysCPUPercent : list N := [109; 101; 116; 114; 105; 99; 83; 121; 115; 67; 80; 85; 80; 101; 114; 99; 101; 110; 116]%N.
Definition go_data_PointTypeMetricSysDiskUsedPercent : list N := [109; 101; 116; 114; 105; 99; 83; 121; 115; 68; 105; 115; 107; 85; 115; 101; 100; 80; 101; 114; 99; 101; 110; 116]%N.
Definition go_data_PointTypeMetricSysLoad : list N := [109; 101; 116; 114; 105; 99; 83; 121; 115; 76; 111; 97; 100]%N.
Definition go_data_PointTypeMetricSysMem : list N := [109; 101; 116; 114; 105; 99; 83; 121; 115; 77; 101; 109]%N.
Definition go_data_PointTypeMetricSysMemUsedPercent : list N := [109; 101; 116; 114; 105; 99; 83; 121; 115; 77; 101; 109; 85; 115; 101; 100; 80; 101; 114; 99; 101; 110; 116]%N.
Definition go_data_PointTypeMetricSysNetBytesRecv : list N := [109; 101; 116; 114; 105; 99; 83; 121; 115; 78; 101; 116; 66; 121; 116; 101; 115; 82; 101; 99; 118]%N.
Definition go_data_PointTypeMetricSysNetBytesSent : list N := [109; 101; 116; 114; 105; 99; 83; 121; 115; 78; 101; 116; 66; 121; 116; 101; 115; 83; 101; 110; 116]%N.
Definition go_data_PointTypeMetricSysUptime : list N := [109; 101; 116; 114; 105; 99; 83; 121; 115; 85; 112; 116; 105; 109; 101]%N.
Definition go_data_PointTypeMinActive : list N := [109; 105; 110; 65; 99; 116; 105; 118; 101]%N.
Definition go_data_PointTypeMinIncrement : list N := [109; 105; 110; 73; 110; 99; 114; 101; 109; 101; 110; 116]%N.
Definition go_data_PointTypeMinValue : list N := [109; 105; 110; 86; 97; 108; 117; 101]%N.
Definition go_data_PointTypeModbusIOType : list N := [109; 111; 100; 98; 117; 115; 73; 111; 84; 121; 112; 101]%N.
Definition go_data_PointTypeMsgsInDb : list N := [109; 115; 103; 115; 73; 110; 68; 98]%N.
Definition go_data_PointTypeMsgsRecvdDb : list N := [109; 115; 103; 115; 82; 101; 99; 118; 100; 68; 98]%N.
Definition go_data_PointTypeMsgsRecvdDbReset : list N := [109; 115; 103; 115; 82; 101; 99; 118; 100; 68; 98; 82; 101; 115; 101; 116]%N.
Definition go_data_PointTypeMsgsRecvdOther : list N := [109; 115; 103; 115; 82; 101; 99; 118; 100; 79; 116; 104; 101; 114]%N.
Definition go_data_PointTypeMsgsRecvdOtherReset : list N := [109; 115; 103; 115; 82; 101; 99; 118; 100; 79; 116; 104; 101; 114; 82; 101; 115; 101; 116]%N.
Definition go_data_PointTypeName : list N := [110; 97; 109; 101]%N.
Definition go_data_PointTypeNodeID : list N := [110; 111; 100; 101; 73; 68]%N.
Definition go_data_PointTypeNodeType : list N := [110; 111; 100; 101; 84; 121; 112; 101]%N.
Definition go_data_PointTypeOSDownloaded : list N := [111; 115; 68; 111; 119; 110; 108; 111; 97; 100; 101; 100]%N.
Definition go_data_PointTypeOSUpdate : list N := [111; 115; 85; 112; 100; 97; 116; 101]%N.
Definition go_data_PointTypeOffline : list N := [111; 102; 102; 108; 105; 110; 101]%N.
Definition go_data_PointTypeOffset : list N := [111; 102; 102; 115; 101; 116]%N.
Definition go_data_PointTypeOperator : list N := [111; 112; 101; 114; 97; 116; 111; 114]%N.
Definition go_data_PointTypeOrg : list N := [111; 114; 103]%N.
Definition go_data_PointTypePass : list N := [112; 97; 115; 115]%N.
Definition go_data_PointTypePeriod : list N := [112; 101; 114; 105; 111; 100]%N.
Definition go_data_PointTypePhone : list N := [112; 104; 111; 110; 101]%N.
Definition go_data_PointTypePointID : list N := [112; 111; 105; 110; 116; 73; 68]%N.
Definition go_data_PointTypePointIndex : list N := [112; 111; 105; 110; 116; 73; 110; 100; 101; 120]%N.
Definition go_data_PointTypePointKey : list N := [112; 111; 105; 110; 116; 75; 101; 121]%N.
Definition go_data_PointTypePointType : list N := [112; 111; 105; 110; 116; 84; 121; 112; 101]%N.
Definition go_data_PointTypePollPeriod : list N := [112; 111; 108; 108; 80; 101; 114; 105; 111; 100]%N.
Definition go_data_PointTypePort : list N := [112; 111; 114; 116]%N.
Definition go_data_PointTypePower : list N := [112; 111; 119; 101; 114]%N.
Definition go_data_PointTypePrefix : list N := [112; 114; 101; 102; 105; 120]%N.
Definition go_data_PointTypeProtocol : list N := [112; 114; 111; 116; 111; 99; 111; 108]%N.
Definition go_data_PointTypeRate : list N := [114; 97; 116; 101]%N.
Definition go_data_PointTypeRateHR : list N := [114; 97; 116; 101; 72; 82]%N.
Definition go_data_PointTypeReadOnly : list N := [114; 101; 97; 100; 79; 110; 108; 121]%N.
Definition go_data_PointTypeReboot : list N := [114; 101; 98; 111; 111; 116]%N.
Definition go_data_PointTypeRefresh : list N := [114; 101; 102; 114; 101; 115; 104]%N.
Definition go_data_PointTypeRole : list N := [114; 111; 108; 101]%N.
Definition go_data_PointTypeRoundTo : list N := [114; 111; 117; 110; 100; 84; 111]%N.
Definition go_data_PointTypeRx : list N := [114; 120]%N.
Definition go_data_PointTypeRxReset : list N := [114; 120; 82; 101; 115; 101; 116]%N.
Definition go_data_PointTypeSID : list N := [115; 105; 100]%N.
Definition go_data_PointTypeSampleRate : list N := [115; 97; 109; 112; 108; 101; 82; 97; 116; 101]%N.
Definition go_data_PointTypeScale : list N := [115; 99; 97; 108; 101]%N.
Definition go_data_PointTypeServer : list N := [115; 101; 114; 118; 101; 114]%N.
Definition go_data_PointTypeService : list N := [115; 101; 114; 118; 105; 99; 101]%N.
Definition go_data_PointTypeSignalType : list N := [115; 105; 103; 110; 97; 108; 84; 121; 112; 101]%N.
Definition go_data_PointTypeSignalsInDb : list N := [115; 105; 103; 110; 97; 108; 115; 73; 110; 68; 98]%N.
Definition go_data_PointTypeStart : list N := [115; 116; 97; 114; 116]%N.
Definition go_data_PointTypeStartApp : list N := [115; 116; 97; 114; 116; 65; 112; 112]%N.
Definition go_data_PointTypeStartSystem : list N := [115; 116; 97; 114; 116; 83; 121; 115; 116; 101; 109]%N.
Definition go_data_PointTypeSwUpdateError : list N := [115; 119; 85; 112; 100; 97; 116; 101; 69; 114; 114; 111; 114]%N.
Definition go_data_PointTypeSwUpdatePercComplete : list N := [115; 119; 85; 112; 100; 97; 116; 101; 80; 101; 114; 99; 67; 111; 109; 112; 108; 101; 116; 101]%N.
Definition go_data_PointTypeSwUpdateRunning : list N := [115; 119; 85; 112; 100; 97; 116; 101; 82; 117; 110; 110; 105; 110; 103]%N.
Definition go_data_PointTypeSwUpdateState : list N := [115; 119; 85; 112; 100; 97; 116; 101; 83; 116; 97; 116; 101]%N.
Definition go_data_PointTypeSwitch : list N := [115; 119; 105; 116; 99; 104]%N.
Definition go_data_PointTypeSwitchSet : list N := [115; 119; 105; 116; 99; 104; 83; 101; 116]%N.
Definition go_data_PointTypeSyncCount : list N := [115; 121; 110; 99; 67; 111; 117; 110; 116]%N.
Definition go_data_PointTypeSyncCountReset : list N := [115; 121; 110; 99; 67; 111; 117; 110; 116; 82; 101; 115; 101; 116]%N.
Definition go_data_PointTypeSyncParent : list N := [115; 121; 110; 99; 80; 97; 114; 101; 110; 116]%N.
Definition go_data_PointTypeSysState : list N := [115; 121; 115; 83; 116; 97; 116; 101]%N.
Definition go_data_PointTypeTag : list N := [116; 97; 103]%N.
Definition go_data_PointTypeTagPointType : list N := [116; 97; 103; 80; 111; 105; 110; 116; 84; 121; 112; 101]%N.
Definition go_data_PointTypeTemperature : list N := [116; 101; 109; 112]%N.
Definition go_data_PointTypeTimeSync : list N := [116; 105; 109; 101; 83; 121; 110; 99]%N.
Definition go_data_PointTypeToken : list N := [116; 111; 107; 101; 110]%N.
Definition go_data_PointTypeTombstone : list N := [116; 111; 109; 98; 115; 116; 111; 110; 101]%N.
Definition go_data_PointTypeTransition : list N := [116; 114; 97; 110; 115; 105; 116; 105; 111; 110]%N.
Definition go_data_PointTypeTrigger : list N := [116; 114; 105; 103; 103; 101; 114]%N.
Definition go_data_PointTypeTx : list N := [116; 120]%N.
Definition go_data_PointTypeTxReset : list N := [116; 120; 82; 101; 115; 101; 116]%N.
Definition go_data_PointTypeType : list N := [116; 121; 112; 101]%N.
Definition go_data_PointTypeURI : list N := [117; 114; 105]%N.
Definition go_data_PointTypeUnits : list N := [117; 110; 105; 116; 115]%N.
Definition go_data_PointTypeUpdateApp : list N := [117; 112; 100; 97; 116; 101; 65; 112; 112]%N.
Definition go_data_PointTypeUpdateOS : list N := [117; 112; 100; 97; 116; 101; 79; 83]%N.
Definition go_data_PointTypeUptime : list N := [117; 112; 116; 105; 109; 101]%N.
Definition go_data_PointTypeValue : list N := [118; 97; 108; 117; 101]%N.
Definition go_data_PointTypeValueSet : list N := [118; 97; 108; 117; 101; 83; 101; 116]%N.
Definition go_data_PointTypeValueText : list N := [118; 97; 108; 117; 101; 84; 101; 120; 116]%N.
Definition go_data_PointTypeValueType : list N := [118; 97; 108; 117; 101; 84; 121; 112; 101]%N.
Definition go_data_PointTypeVariableType : list N := [118; 97; 114; 105; 97; 98; 108; 101; 84; 121; 112; 101]%N.
Definition go_data_PointTypeVersionApp : list N := [118; 101; 114; 115; 105; 111; 110; 65; 112; 112]%N.
Definition go_data_PointTypeVersionHW : list N := [118; 101; 114; 115; 105; 111; 110; 72; 87]%N.
Definition go_data_PointTypeVersionOS : list N := [118; 101; 114; 115; 105; 111; 110; 79; 83]%N.
Definition go_data_PointTypeVoltage : list N := [118; 111; 108; 116; 97; 103; 101]%N.
Definition go_data_PointTypeWeekday : list N := [119; 101; 101; 107; 100; 97; 121]%N.
Definition go_data_PointTypeWhite : list N := [119; 104; 105; 116; 101]%N.
Definition go_data_PointValueAllProcesses : list N := [97; 108; 108; 80; 114; 111; 99; 101; 115; 115; 101; 115]%N.
Definition go_data_PointValueApp : list N := [97; 112; 112]%N.
Definition go_data_PointValueClient : list N := [99; 108; 105; 101; 110; 116]%N.
Definition go_data_PointValueContains : list N := [99; 111; 110; 116; 97; 105; 110; 115]%N.
Definition go_data_PointValueEqual : list N := [61]%N.
Definition go_data_PointValueFLOAT32 : list N := [102; 108; 111; 97; 116; 51; 50]%N.
Definition go_data_PointValueGreaterThan : list N := [62]%N.
Definition go_data_PointValueINT16 : list N := [105; 110; 116; 49; 54]%N.
Definition go_data_PointValueINT32 : list N := [105; 110; 116; 51; 50]%N.
Definition go_data_PointValueLessThan : list N := [60]%N.
Definition go_data_PointValueModbusCoil : list N := [109; 111; 100; 98; 117; 115; 67; 111; 105; 108]%N.
Definition go_data_PointValueModbusDiscreteInput : list N := [109; 111; 100; 98; 117; 115; 68; 105; 115; 99; 114; 101; 116; 101; 73; 110; 112; 117; 116]%N.
Definition go_data_PointValueModbusHoldingRegister : list N := [109; 111; 100; 98; 117; 115; 72; 111; 108; 100; 105; 110; 103; 82; 101; 103; 105; 115; 116; 101; 114]%N.
Definition go_data_PointValueModbusInputRegister : list N := [109; 111; 100; 98; 117; 115; 73; 110; 112; 117; 116; 82; 101; 103; 105; 115; 116; 101; 114]%N.
Definition go_data_PointValueNotEqual : list N := [33; 61]%N.
Definition go_data_PointValueNotify : list N := [110; 111; 116; 105; 102; 121]%N.
Definition go_data_PointValueNumber : list N := [110; 117; 109; 98; 101; 114]%N.
Definition go_data_PointValueOff : list N := [111; 102; 102]%N.
Definition go_data_PointValueOn : list N := [111; 110]%N.
Definition go_data_PointValueOnOff : list N := [111; 110; 79; 102; 102]%N.
Definition go_data_PointValuePlayAudio : list N := [112; 108; 97; 121; 65; 117; 100; 105; 111]%N.
Definition go_data_PointValuePointValue : list N := [112; 111; 105; 110; 116; 86; 97; 108; 117; 101]%N.
Definition go_data_PointValueProcess : list N := [112; 114; 111; 99; 101; 115; 115]%N.
Definition go_data_PointValueRTU : list N := [82; 84; 85]%N.
Definition go_data_PointValueRoleAdmin : list N := [97; 100; 109; 105; 110]%N.
Definition go_data_PointValueRoleUser : list N := [117; 115; 101; 114]%N.
Definition go_data_PointValueSMTP : list N := [115; 109; 116; 112]%N.
Definition go_data_PointValueSchedule : list N := [115; 99; 104; 101; 100; 117; 108; 101]%N.
Definition go_data_PointValueServer : list N := [115; 101; 114; 118; 101; 114]%N.
Definition go_data_PointValueSetValue : list N := [115; 101; 116; 86; 97; 108; 117; 101]%N.
Definition go_data_PointValueShellyType1PM : list N := [49; 112; 109]%N.
Definition go_data_PointValueShellyTypeBulbDuo : list N := [66; 117; 108; 98; 68; 117; 111]%N.
Definition go_data_PointValueShellyTypeI4 : list N := [80; 108; 117; 115; 73; 52]%N.
Definition go_data_PointValueShellyTypePlugIT : list N := [80; 108; 117; 103; 73; 84]%N.
Definition go_data_PointValueShellyTypePlugS : list N := [80; 108; 117; 103; 83]%N.
Definition go_data_PointValueShellyTypePlugUK : list N := [80; 108; 117; 103; 85; 75]%N.
Definition go_data_PointValueShellyTypePlugUS : list N := [80; 108; 117; 103; 85; 83]%N.
Definition go_data_PointValueShellyTypePlus1 : list N := [80; 108; 117; 115; 49]%N.
Definition go_data_PointValueShellyTypePlus2PM : list N := [80; 108; 117; 115; 50; 80; 77]%N.
Definition go_data_PointValueShellyTypeRGBW2 : list N := [114; 103; 98; 119; 50]%N.
Definition go_data_PointValueSysStateOffline : list N := [111; 102; 102; 108; 105; 110; 101]%N.
Definition go_data_PointValueSysStateOnline : list N := [111; 110; 108; 105; 110; 101]%N.
Definition go_data_PointValueSysStatePowerOff : list N := [112; 111; 119; 101; 114; 79; 102; 102]%N.
Definition go_data_PointValueSysStateUnknown : list N := [117; 110; 107; 110; 111; 119; 110]%N.
Definition go_data_PointValueSystem : list N := [115; 121; 115; 116; 101; 109]%N.
Definition go_data_PointValueTCP : list N := [84; 67; 80]%N.
Definition go_data_PointValueText : list N := [116; 101; 120; 116]%N.
Definition go_data_PointValueTwilio : list N := [116; 119; 105; 108; 105; 111]%N.
Definition go_data_PointValueUINT16 : list N := [117; 105; 110; 116; 49; 54]%N.
Definition go_data_PointValueUINT32 : list N := [117; 105; 110; 116; 51; 50]%N.
Definition go_data_maxSafeInteger : Z := 9007199254740991%Z.
Definition go_data_maxStructureSize : Z := 1000%Z.
Definition go_data_Point_CRC : list hstep :=
 [HGuardZero "Type" ([110; 111; 100; 101; 84; 121; 112; 101]%N);
  HNewIEEE;
  HBuf8;
  HPutTimeNanoLE;
  HWriteBuf;
  HWriteStr "Type";
  HWriteStr "Key";
  HWriteStr "Text";
  HPutValueBitsLE;
  HWriteBuf;
  HSum32].

(* ---------- client ---------- *)
Definition go_client_cobsEncode : sfunc := {| sf_name := "client.cobsEncode"; sf_params := [("p", (TU 8))]; sf_body :=
 [TMake "ret" (TU 8) (XConst 1%Z);
 TDecl "code" (TS 64) (XConst 0%Z);
 TStore "ret" (XVar "code") (XConst 1%Z);
 TRangeIV "_" "v" (TU 8) "p"
 [TIf (XBin ONe TBool (XVar "v") (XConst 0%Z))
 [TAppend "ret" (XVar "v");
 TStore "ret" (XVar "code") (XBin OAdd (TU 8) (XIndex "ret" (XVar "code")) (XConst 1%Z))]
 [];
 TIf (XOrElse (XBin OEq TBool (XVar "v") (XConst 0%Z)) (XBin OEq TBool (XIndex "ret" (XVar "code")) (XConst 255%Z)))
 [TAssign "code" (XLen "ret");
 TAppend "ret" (XConst 1%Z)]
 []];
 TReturnApp "ret" (XConst 0%Z)] |}.
Definition go_client_cobsDecodeInplace : sfunc := {| sf_name := "client.cobsDecodeInplace"; sf_params := [("b", (TU 8))]; sf_body :=
 [TIf (XOrElse (XIsNil "b") (XBin OLe TBool (XLen "b") (XConst 2%Z)))
 [TReturnIntErr (XConst 0%Z) "errors.New(""Not enough data for cobs decode"")"]
 [];
 TDecl "foundStart" TBool (XConst 0%Z);
 TDecl "iIn" (TS 64) (XConst 0%Z);
 TDecl "iOut" (TS 64) (XConst 0%Z);
 TDecl "off" (TU 8) (XConst 0%Z);
 TDecl "iOff" (TU 8) (XConst 0%Z);
 TForLen "iIn" "b"
 [TDecl "bCur" (TU 8) (XIndex "b" (XVar "iIn"));
 TIf (XNot (XVar "foundStart"))
 [TIf (XBin OEq TBool (XVar "bCur") (XConst 0%Z))
 []
 [TAssign "foundStart" (XConst 1%Z);
 TAssign "off" (XVar "bCur");
 TAssign "iOff" (XConst 0%Z)]]
 [TAssign "iOff" (XBin OAdd (TU 8) (XVar "iOff") (XConst 1%Z));
 TIf (XBin OEq TBool (XVar "iOff") (XVar "off"))
 [TIf (XBin OEq TBool (XVar "bCur") (XConst 0%Z))
 [TReturnIntErr (XVar "iOut") ""]
 [];
 TIf (XBin ONe TBool (XVar "off") (XConst 255%Z))
 [TStore "b" (XVar "iOut") (XConst 0%Z);
 TAssign "iOut" (XBin OAdd (TS 64) (XVar "iOut") (XConst 1%Z))]
 [];
 TAssign "off" (XVar "bCur");
 TAssign "iOff" (XConst 0%Z)]
 [TIf (XBin OEq TBool (XVar "bCur") (XConst 0%Z))
 [TReturnIntErr (XConst 0%Z) "ErrCobsDecodeError"]
 [];
 TStore "b" (XVar "iOut") (XVar "bCur");
 TAssign "iOut" (XBin OAdd (TS 64) (XVar "iOut") (XConst 1%Z))]]];
 TReturnIntErr (XVar "iOut") ""] |}.

(* ---------- store ---------- *)
Definition go_store_NewSqliteDb_pragmas : list N := [95; 112; 114; 97; 103; 109; 97; 61; 102; 111; 114; 101; 105; 103; 110; 95; 107; 101; 121; 115; 40; 49; 41; 38; 95; 112; 114; 97; 103; 109; 97; 61; 106; 111; 117; 114; 110; 97; 108; 95; 109; 111; 100; 101; 40; 87; 65; 76; 41; 38; 95; 112; 114; 97; 103; 109; 97; 61; 115; 121; 110; 99; 104; 114; 111; 110; 111; 117; 115; 40; 78; 79; 82; 77; 65; 76; 41; 38; 95; 112; 114; 97; 103; 109; 97; 61; 98; 117; 115; 121; 95; 116; 105; 109; 101; 111; 117; 116; 40; 56; 48; 48; 48; 41; 38; 95; 112; 114; 97; 103; 109; 97; 61; 106; 111; 117; 114; 110; 97; 108; 95; 115; 105; 122; 101; 95; 108; 105; 109; 105; 116; 40; 49; 48; 48; 48; 48; 48; 48; 48; 48; 41]%N.   (* "_pragma=foreign_keys(1)&_pragma=journal_mode(WAL)&_pragma=synchronous(NORMAL)&_pragma=busy_timeout(8000)&_pragma=journal_size_limit(100000000)" *)

