(* Ties between constants printed from data/schema.go and the client-manager model. *)
From Coq Require Import ZArith NArith List Bool.
From Verif Require Import Base.Bytes Anchors.Generated.
From Verif Require Manager.Model.

Theorem tie_group : go_data_NodeTypeGroup = Manager.Model.str_group.                  Proof. reflexivity. Qed.
Theorem tie_description : go_data_PointTypeDescription = Manager.Model.str_description. Proof. reflexivity. Qed.
Theorem tie_value : go_data_PointTypeValue = Manager.Model.str_value.                 Proof. reflexivity. Qed.
Theorem tie_role : go_data_PointTypeRole = Manager.Model.str_role.                    Proof. reflexivity. Qed.
