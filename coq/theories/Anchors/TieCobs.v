(* client.cobsEncode as the translator printed it from client/cobs-wrapper.go (Anchors/Generated.v, a syntax tree of
   MiniGo/Slice.v) computes, under the evaluator of MiniGo/Slice.v, the frame encoder of the hand-written model
   (Cobs/Model.v: [encode], the function C16_cobs_roundtrip and the chunking theorems are about) -- for every
   frame.  Three layers: the printed loop is a fold of [stepZ] (symbolic evaluation of one iteration, induction over
   the input); [stepZ] on bytes is [stepN] (the same function on N); and the fold of [stepN] is [encode] (invariant:
   what has been emitted is the encoding of the finished runs followed by the encoding of the run being read, whose
   last block is open and whose code byte is where [code] points). *)
From Coq Require Import ZArith NArith List Bool Lia String.
From Verif Require Import Base.Bytes Cobs.Model Cobs.EncLoop MiniGo.Syntax MiniGo.Slice MiniGo.SliceLemmas Anchors.Generated.
Import ListNotations.
Local Open Scope string_scope.
Local Open Scope list_scope.
Local Open Scope Z_scope.

Definition bodyEnc : list sstmt :=
  [TIf (XBin ONe TBool (XVar "v") (XConst 0))
     [TAppend "ret" (XVar "v");
      TStore "ret" (XVar "code") (XBin OAdd (TU 8) (XIndex "ret" (XVar "code")) (XConst 1))]
     [];
   TIf (XOrElse (XBin OEq TBool (XVar "v") (XConst 0)) (XBin OEq TBool (XIndex "ret" (XVar "code")) (XConst 255)))
     [TAssign "code" (XLen "ret"); TAppend "ret" (XConst 1)]
     []].

Lemma shape_cobsEncode : go_client_cobsEncode =
  {| sf_name := "client.cobsEncode"; sf_params := [("p", TU 8)]; sf_body :=
     [TMake "ret" (TU 8) (XConst 1); TDecl "code" (TS 64) (XConst 0); TStore "ret" (XVar "code") (XConst 1);
      TRangeIV "_" "v" (TU 8) "p" bodyEnc; TReturnApp "ret" (XConst 0)] |}.
Proof. reflexivity. Qed.

(* ---------- the loop as a function ---------- *)
Definition stepZ (st : list Z * nat) (v : Z) : list Z * nat :=
  let '(r, code) := st in
  let r1 := if v =? 0 then r else upd_nat (r ++ [v]) code ((nth code (r ++ [v]) 0 + 1) mod 2 ^ 8) in
  if (v =? 0) || (nth code r1 0 =? 255) then (r1 ++ [1], List.length r1) else (r1, code).

Definition stE (pl r : list Z) (code : nat) : state :=
  {| ints := [("code", (TS 64, Z.of_nat code))]; slices := [("p", (TU 8, pl)); ("ret", (TU 8, r))] |}.

Lemma get_idx_nat l n : (n < List.length l)%nat -> get_idx l (Z.of_nat n) = Some (nth n l 0).
Proof.
  intros H. unfold get_idx. rewrite range_check by lia. rewrite Nat2Z.id. now apply nth_error_nth'.
Qed.
Lemma upd_idx_nat l n v : (n < List.length l)%nat -> upd_idx l (Z.of_nat n) v = Some (upd_nat l n v).
Proof. intros H. unfold upd_idx. rewrite range_check by lia. now rewrite Nat2Z.id. Qed.
Lemma upd_nat_length l : forall n v, List.length (upd_nat l n v) = List.length l.
Proof. induction l as [|x l IH]; intros [|n] v; cbn [upd_nat List.length]; try reflexivity. now rewrite IH. Qed.

Arguments get_idx : simpl never.
Arguments upd_idx : simpl never.
Arguments wrap : simpl never.
Arguments Z.mul : simpl never.
Arguments Z.add : simpl never.
Arguments Z.modulo : simpl never.
Arguments Z.pow : simpl never.
Arguments Z.of_nat : simpl never.
Arguments upd_nat : simpl never.
Arguments nth : simpl never.

Lemma wrap_bool z : wrap TBool z = z.
Proof. reflexivity. Qed.
Ltac ev := repeat (progress (cbn; unfold restrict; rewrite ?wrap_bool)).
Ltac evw H1 H2 H3 := repeat (progress (cbn; unfold restrict; rewrite ?wrap_bool, ?H1, ?H2, ?H3)).

Lemma iterEnc pl r code k v :
  (code < List.length r)%nat -> 0 <= v < 256 -> Z.of_nat (List.length r) < 2 ^ 62 ->
  let st := stE pl r code in
  exists st', sexec_list bodyEnc (set_int "v" (TU 8) v (set_int "_" (TS 64) k st)) = Some (st', None) /\
    restrict st st' = stE pl (fst (stepZ (r, code) v)) (snd (stepZ (r, code) v)).
Proof.
  intros Hc Hv Hb st. subst st.
  assert (Hwv : wrap (TU 8) v = v) by (apply wrap_u_small; change (2 ^ 8) with 256; lia).
  assert (Hw1 : wrap (TU 8) 1 = 1) by reflexivity.
  assert (Hwc : wrap (TS 64) (Z.of_nat code) = Z.of_nat code) by (apply wrap_s64_small; lia).
  unfold sexec_list, bodyEnc, stE, set_int, stepZ.
  destruct (Z.eq_dec v 0) as [->|Hnz].
  - (* a zero: the block is finished *)
    assert (Hwl : wrap (TS 64) (Z.of_nat (List.length r)) = Z.of_nat (List.length r)) by (apply wrap_s64_small; lia).
    evw Hwv Hw1 Hwl. eexists. split; reflexivity.
  - assert (Hvz : (v =? 0) = false) by (apply Z.eqb_neq; exact Hnz).
    evw Hwv Hw1 Hvz.
    assert (Hc' : (code < List.length (r ++ [v]))%nat) by (rewrite app_length; cbn [List.length]; lia).
    rewrite get_idx_nat by exact Hc'. evw Hwv Hw1 Hvz. rewrite upd_idx_nat by exact Hc'. evw Hwv Hw1 Hvz.
    set (r1 := upd_nat (r ++ [v]) code (wrap (TU 8) (wrap (TU 8) (nth code (r ++ [v]) 0 + 1)))).
    assert (Hr1 : (code < List.length r1)%nat) by (unfold r1; rewrite upd_nat_length; exact Hc').
    rewrite get_idx_nat by exact Hr1. evw Hwv Hw1 Hvz.
    assert (Hww : wrap (TU 8) (wrap (TU 8) (nth code (r ++ [v]) 0 + 1)) = (nth code (r ++ [v]) 0 + 1) mod 2 ^ 8).
    { unfold wrap. now rewrite Z.mod_mod by (change (2 ^ 8) with 256; lia). }
    destruct (Z.eqb_spec (nth code r1 0) 255) as [Hfull|Hopen].
    + evw Hwv Hw1 Hvz.
      assert (Hwl : wrap (TS 64) (Z.of_nat (List.length r1)) = Z.of_nat (List.length r1)).
      { apply wrap_s64_small. unfold r1. rewrite upd_nat_length, app_length. cbn [List.length]. lia. }
      rewrite ?Hwl. eexists. split; [reflexivity|]. evw Hwv Hw1 Hvz. unfold r1 in *. rewrite Hww in *.
      destruct (Z.eqb_spec (nth code (upd_nat (r ++ [v]) code ((nth code (r ++ [v]) 0 + 1) mod 2 ^ 8)) 0) 255) as [_|Hx]; [reflexivity|contradiction].
    + evw Hwv Hw1 Hvz. eexists. split; [reflexivity|]. evw Hwv Hw1 Hvz. unfold r1 in *. rewrite Hww in *.
      destruct (Z.eqb_spec (nth code (upd_nat (r ++ [v]) code ((nth code (r ++ [v]) 0 + 1) mod 2 ^ 8)) 0) 255) as [Hx|_]; [contradiction|reflexivity].
Qed.

Definition byteZ (v : Z) : Prop := 0 <= v < 256.

Lemma stepZ_inv r code v : (code < List.length r)%nat ->
  (snd (stepZ (r, code) v) < List.length (fst (stepZ (r, code) v)))%nat /\
  (List.length (fst (stepZ (r, code) v)) <= List.length r + 2)%nat.
Proof.
  intros Hc. unfold stepZ.
  set (r1 := if v =? 0 then r else upd_nat (r ++ [v]) code ((nth code (r ++ [v]) 0 + 1) mod 2 ^ 8)).
  assert (Hl : (List.length r <= List.length r1 <= List.length r + 1)%nat).
  { unfold r1. destruct (v =? 0); [lia|]. rewrite upd_nat_length, app_length. cbn [List.length]. lia. }
  destruct ((v =? 0) || (nth code r1 0 =? 255)); cbn [fst snd]; rewrite ?app_length; cbn [List.length]; lia.
Qed.

Lemma loopEnc pl : forall rest pre r code, pl = pre ++ rest -> (code < List.length r)%nat -> Forall byteZ rest ->
  Z.of_nat (List.length r + 2 * List.length rest) < 2 ^ 62 ->
  loop_idx (iterIV "_" "v" (TU 8) pl bodyEnc) (List.length rest) (Z.of_nat (List.length pre)) (stE pl r code) =
  Some (stE pl (fst (fold_left stepZ rest (r, code))) (snd (fold_left stepZ rest (r, code))), None).
Proof.
  intros rest. induction rest as [|v t IH]; intros pre r code Hl Hc Hok Hb; [reflexivity|].
  inversion Hok as [|? ? Hv Hok']; subst x l.
  cbn [List.length loop_idx fold_left].
  assert (Hg : get_idx pl (Z.of_nat (List.length pre)) = Some v) by (rewrite Hl; apply get_idx_app).
  destruct (iterEnc pl r code (Z.of_nat (List.length pre)) v Hc Hv) as [st' [He Hr]]; [cbn [List.length] in Hb; lia|].
  unfold iterIV at 1. rewrite Hg. unfold sexec_list in He. rewrite He, Hr.
  destruct (stepZ_inv r code v Hc) as [Hc2 Hlen2].
  replace (Z.of_nat (List.length pre) + 1) with (Z.of_nat (List.length (pre ++ [v]))) by (rewrite app_length; cbn [List.length]; lia).
  rewrite (IH (pre ++ [v])).
  - destruct (stepZ (r, code) v) as [r' c']. reflexivity.
  - rewrite Hl. now rewrite <- app_assoc.
  - exact Hc2.
  - exact Hok'.
  - cbn [List.length] in Hb. lia.
Qed.

Definition loopZ (p : list Z) : list Z := fst (fold_left stepZ p ([1], 0%nat)) ++ [0].

Lemma run_cobsEncode pl : Forall byteZ pl -> Z.of_nat (List.length pl) < 2 ^ 60 ->
  srun go_client_cobsEncode [pl] = Some (loopZ pl).
Proof.
  intros Hok Hb. rewrite shape_cobsEncode. unfold srun, sexec_list. remember bodyEnc as B eqn:HB. cbn.
  assert (H0 : upd_idx (repeat 0 (Pos.to_nat 1)) (wrap (TS 64) 0) (wrap (TU 8) 1) = Some [1]) by reflexivity.
  rewrite H0.
  cbv beta iota.
  change (set_slice "ret" (TU 8) [1] (set_int "code" (TS 64) 0 (set_slice "ret" (TU 8) (repeat 0 (Pos.to_nat 1))
            {| ints := []; slices := [("p", (TU 8, pl))] |}))) with (stE pl [1] 0).
  cbn.
  pose proof (loopEnc pl pl [] [1] 0%nat eq_refl ltac:(cbn; lia) Hok ltac:(cbn [List.length]; lia)) as HL.
  cbn [List.length] in HL. unfold iterIV in HL. change (Z.of_nat 0) with 0 in HL. rewrite <- HB in HL.
  unfold stE in *. rewrite HL. cbn. reflexivity.
Qed.

(* ---------- the loop on bytes: Z and N ---------- *)
Lemma map_upd (l : list N) : forall n v, map Z.of_N (upd l n v) = upd_nat (map Z.of_N l) n (Z.of_N v).
Proof. induction l as [|x l IH]; intros [|n] v; cbn [upd map]; try reflexivity. unfold upd_nat; fold upd_nat. now rewrite IH. Qed.

Lemma nth_of_N (l : list N) n : nth n (map Z.of_N l) 0 = Z.of_N (nth n l 0%N).
Proof. change 0 with (Z.of_N 0). apply map_nth. Qed.

Lemma stepZ_of_N r code v :
  stepZ (map Z.of_N r, code) (Z.of_N v) = (map Z.of_N (fst (stepN (r, code) v)), snd (stepN (r, code) v)).
Proof.
  unfold stepZ, stepN.
  assert (Hz : (Z.of_N v =? 0) = (v =? 0)%N).
  { destruct (N.eqb_spec v 0) as [->|Hn]; [reflexivity|]. apply Z.eqb_neq. lia. }
  rewrite Hz.
  assert (Hs : map Z.of_N r ++ [Z.of_N v] = map Z.of_N (r ++ [v])) by (now rewrite map_app).
  rewrite Hs, nth_of_N.
  assert (Hm : (Z.of_N (nth code (r ++ [v]) 0%N) + 1) mod 2 ^ 8 = Z.of_N ((nth code (r ++ [v]) 0 + 1) mod 256)%N).
  { change (2 ^ 8) with (Z.of_N 256). rewrite N2Z.inj_mod. f_equal. lia. }
  rewrite Hm, <- map_upd.
  set (r1 := if (v =? 0)%N then r else upd (r ++ [v]) code ((nth code (r ++ [v]) 0 + 1) mod 256)%N).
  assert (Hr1 : (if (v =? 0)%N then map Z.of_N r else map Z.of_N (upd (r ++ [v]) code ((nth code (r ++ [v]) 0 + 1) mod 256)%N))
                = map Z.of_N r1) by (unfold r1; destruct (v =? 0)%N; reflexivity).
  rewrite Hr1, nth_of_N.
  assert (Hf : (Z.of_N (nth code r1 0%N) =? 255) = (nth code r1 0 =? 255)%N).
  { destruct (N.eqb_spec (nth code r1 0%N) 255) as [->|Hn]; [reflexivity|]. apply Z.eqb_neq. lia. }
  rewrite Hf. destruct ((v =? 0)%N || (nth code r1 0 =? 255)%N); cbn [fst snd]; [|reflexivity].
  rewrite map_app, map_length. reflexivity.
Qed.

Lemma foldZ_of_N : forall f r code,
  fold_left stepZ (map Z.of_N f) (map Z.of_N r, code) =
  (map Z.of_N (fst (fold_left stepN f (r, code))), snd (fold_left stepN f (r, code))).
Proof.
  induction f as [|v f IH]; intros r code; [reflexivity|]. cbn [map fold_left]. rewrite stepZ_of_N.
  destruct (stepN (r, code) v) as [r' c']. cbn [fst snd]. apply IH.
Qed.

Lemma loopZ_of_N f : loopZ (map Z.of_N f) = map Z.of_N (loopN f).
Proof.
  unfold loopZ, loopN. change [1] with (map Z.of_N [1%N]). rewrite foldZ_of_N. cbn [fst]. now rewrite map_app.
Qed.

Definition frame_len_ok (f : list N) : Prop := Z.of_nat (List.length f) < 2 ^ 60.

Theorem go_cobsEncode_is_model f : Forall (fun b => b < 256)%N f -> frame_len_ok f ->
  srun go_client_cobsEncode [map Z.of_N f] = Some (map Z.of_N (encode f)).
Proof.
  intros Hok Hlen. rewrite run_cobsEncode.
  - now rewrite loopZ_of_N, loopN_is_encode.
  - apply Forall_map. eapply Forall_impl; [|exact Hok]. unfold byteZ. intros b Hb. cbv beta. lia.
  - rewrite map_length. exact Hlen.
Qed.

(* the encoder emits at most two bytes per byte of the frame, and two more *)
Lemma fold_stepZ_len : forall p r c, (c < List.length r)%nat ->
  (List.length (fst (fold_left stepZ p (r, c))) <= List.length r + 2 * List.length p)%nat.
Proof.
  induction p as [|v p IH]; intros r c Hc; [cbn; lia|]. cbn [fold_left List.length].
  destruct (stepZ_inv r c v Hc) as [Hc' Hl']. destruct (stepZ (r, c) v) as [r' c'].
  cbn [fst snd] in *. specialize (IH r' c' Hc'). lia.
Qed.

Lemma encode_len_bound f : Forall (fun b => b < 256)%N f -> (List.length (encode f) <= 2 * List.length f + 2)%nat.
Proof.
  intros Hok. rewrite <- (loopN_is_encode f Hok). rewrite <- (map_length Z.of_N (loopN f)), <- loopZ_of_N.
  unfold loopZ. rewrite app_length. cbn [List.length].
  pose proof (fold_stepZ_len (map Z.of_N f) [1] 0%nat ltac:(cbn; lia)) as H. rewrite map_length in H. cbn [List.length] in H. lia.
Qed.
