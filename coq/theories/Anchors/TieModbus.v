(* Ties between what the translator printed from modbus/*.go (Anchors/Generated.v, regenerated on every
   run) and the hand-written Modbus model.  A constant, table entry or statement of RtuCrc that changes in
   the Go source changes Generated.v, and these statements are checked again against the new text. *)
From Coq Require Import ZArith NArith List Bool Lia.
From Verif Require Import Base.Bytes Modbus.Regs Modbus.Pdu Modbus.RtuCrc MiniGo.Syntax Anchors.Generated.
Import ListNotations.

(* ---------- quantity limits and the address space ---------- *)
Theorem tie_maxReadBits : go_modbus_maxReadBits = Z.of_N maxReadBits.   Proof. reflexivity. Qed.
Theorem tie_maxReadRegs : go_modbus_maxReadRegs = Z.of_N maxReadRegs.   Proof. reflexivity. Qed.
Theorem tie_maxWriteBits : go_modbus_maxWriteBits = Z.of_N maxWriteBits. Proof. reflexivity. Qed.
Theorem tie_maxWriteRegs : go_modbus_maxWriteRegs = Z.of_N maxWriteRegs. Proof. reflexivity. Qed.
Theorem tie_maxAddress : go_modbus_maxAddress = Z.of_N maxAddress.     Proof. reflexivity. Qed.

(* ---------- exception codes ---------- *)
Theorem tie_exc_function : go_modbus_ExcIllegalFunction = Z.of_N ExcIllegalFunction. Proof. reflexivity. Qed.
Theorem tie_exc_address : go_modbus_ExcIllegalAddress = Z.of_N ExcIllegalAddress.   Proof. reflexivity. Qed.
Theorem tie_exc_value : go_modbus_ExcIllegalValue = Z.of_N ExcIllegalValue.       Proof. reflexivity. Qed.

(* ---------- minRequestLen: the model's table is the map, entry for entry, and 0 elsewhere ---------- *)
Definition map_lookup (m : list (Z * Z)) (k : Z) : Z :=
  match find (fun p => Z.eqb (fst p) k) m with Some p => snd p | None => 0%Z end.

Theorem tie_minRequestLen : forall fc : N, (fc < 256)%N ->
  Z.of_N (min_request_len fc) = map_lookup go_modbus_minRequestLen (Z.of_N fc).
Proof.
  assert (H : forallb (fun n => Z.eqb (Z.of_N (min_request_len (N.of_nat n))) (map_lookup go_modbus_minRequestLen (Z.of_nat n)))
                      (seq 0 256) = true) by (vm_compute; reflexivity).
  intros fc Hfc. rewrite forallb_forall in H. specialize (H (N.to_nat fc)).
  rewrite N2Nat.id, <- nat_N_Z, N2Nat.id in H. apply Z.eqb_eq, H. apply in_seq. lia.
Qed.

(* ---------- function codes: the request handlers of the model answer under exactly these codes ---------- *)
(* a register file with one register holding 0xFFFF (its 16 coils set) *)
Definition rs1 : regs := [{| r_addr := 0; r_val := 65535; r_v := VNone |}].
Definition fcN (z : Z) : N := Z.to_N z.
Definition normal (fc : N) (r : outcome presult) : bool :=
  match r with Ok (_, (fc', _), _) => N.eqb fc' fc | _ => false end.

Local Open Scope N_scope.
Example tie_function_codes :
  normal 1 (process_request rs1 (fcN go_modbus_FuncCodeReadCoils) [0; 0; 0; 1]) = true /\
  normal 2 (process_request rs1 (fcN go_modbus_FuncCodeReadDiscreteInputs) [0; 0; 0; 1]) = true /\
  normal 3 (process_request rs1 (fcN go_modbus_FuncCodeReadHoldingRegisters) [0; 0; 0; 1]) = true /\
  normal 4 (process_request rs1 (fcN go_modbus_FuncCodeReadInputRegisters) [0; 0; 0; 1]) = true /\
  normal 5 (process_request rs1 (fcN go_modbus_FuncCodeWriteSingleCoil) [0; 0; Z.to_N go_modbus_WriteCoilValueOn / 256; Z.to_N go_modbus_WriteCoilValueOn mod 256]) = true /\
  normal 5 (process_request rs1 (fcN go_modbus_FuncCodeWriteSingleCoil) [0; 0; Z.to_N go_modbus_WriteCoilValueOff / 256; Z.to_N go_modbus_WriteCoilValueOff mod 256]) = true /\
  normal 6 (process_request rs1 (fcN go_modbus_FuncCodeWriteSingleRegister) [0; 0; 0; 7]) = true /\
  normal 15 (process_request rs1 (fcN go_modbus_FuncCodeWriteMultipleCoils) [0; 0; 0; 1; 1; 1]) = true /\
  normal 16 (process_request rs1 (fcN go_modbus_FuncCodeWriteMultipleRegisters) [0; 0; 0; 1; 2; 0; 7]) = true.
Proof. vm_compute. repeat split. Qed.
