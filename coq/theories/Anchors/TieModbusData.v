(* modbus/data.go as the translator printed it (Anchors/Generated.v: fifteen functions as syntax trees of
   MiniGo/Slice.v) computes, under the evaluator of MiniGo/Slice.v, the conversions of the hand-written model
   (Modbus/Conv.v) that C19_conv_inverse is about -- for every input slice.  Each printed function is first
   recognised as an instance of one of five shapes (by reflexivity: any change of a constant, an index
   expression, an accessor, a width or the statement order in the Go source breaks it), then each shape is
   evaluated with the slice contents left symbolic, one iteration at a time, and the loops by induction. *)
From Coq Require Import ZArith NArith List Bool Lia String.
From Verif Require Import Base.Bytes Modbus.Regs Modbus.Pdu Modbus.Conv Modbus.ConvProofs MiniGo.Syntax MiniGo.Slice MiniGo.SliceLemmas Anchors.Generated.
Import ListNotations.
Local Open Scope string_scope.
Local Open Scope list_scope.
Local Open Scope Z_scope.

Definition idxA : sexpr := XIndex "in" (XBin OMul (TS 64) (XVar "i") (XConst 2)).
Definition idxB : sexpr := XIndex "in" (XBin OAdd (TS 64) (XBin OMul (TS 64) (XVar "i") (XConst 2)) (XConst 1)).
Definition bodyA (swap : bool) (cv : sexpr -> sexpr) : list sstmt :=
  [TMake "buf" (TU 8) (XConst 4);
   TPutBE 16 "buf" (XConst (if swap then 2 else 0)) idxA;
   TPutBE 16 "buf" (XConst (if swap then 0 else 2)) idxB;
   TStore "ret" (XVar "i") (cv (XGetBE 32 "buf" (XConst 0) None))].
Definition astA (name : string) (T : ty) (swap : bool) (cv : sexpr -> sexpr) : sfunc :=
  {| sf_name := name; sf_params := [("in", TU 16)]; sf_body :=
     [TDecl "count" (TS 64) (XDiv (TS 64) (XLen "in") (XConst 2));
      TMake "ret" T (XVar "count");
      TRangeI "i" "ret" (bodyA swap cv);
      TReturn "ret"] |}.


Definition stA (c : Z) (T : ty) (inp ret : list Z) : state :=
  {| ints := [("count", (TS 64, c))]; slices := [("in", (TU 16, inp)); ("ret", (T, ret))] |}.

Arguments get_idx : simpl never.
Arguments upd_idx : simpl never.
Arguments put_be : simpl never.
Arguments get_be : simpl never.
Arguments wrap : simpl never.
Arguments Z.mul : simpl never.
Arguments Z.add : simpl never.
Arguments Z.shiftr : simpl never.
Arguments Z.modulo : simpl never.
Arguments Z.pow : simpl never.
Arguments Z.of_nat : simpl never.


Definition valA (swap : bool) (a b : Z) : Z := if swap then b * 65536 + a else a * 65536 + b.

Lemma be32_of_regs a b : 0 <= a < 65536 -> 0 <= b < 65536 ->
  (Z.shiftr a 8 mod 256) * 2 ^ 24 + ((Z.shiftr a 0 mod 256) * 2 ^ 16 + ((Z.shiftr b 8 mod 256) * 2 ^ 8 + ((Z.shiftr b 0 mod 256) * 2 ^ 0 + 0)))
  = a * 65536 + b.
Proof.
  intros Ha Hb. rewrite !Z.shiftr_div_pow2 by lia. change (2 ^ 0) with 1. change (2 ^ 8) with 256. change (2 ^ 16) with 65536.
  change (2 ^ 24) with 16777216. rewrite !Z.div_1_r.
  pose proof (Z.div_mod a 256 ltac:(lia)). pose proof (Z.mod_pos_bound a 256 ltac:(lia)).
  pose proof (Z.div_mod b 256 ltac:(lia)). pose proof (Z.mod_pos_bound b 256 ltac:(lia)).
  rewrite (Z.mod_small (a / 256)) by (split; [apply Z.div_pos; lia|apply Z.div_lt_upper_bound; lia]).
  rewrite (Z.mod_small (b / 256)) by (split; [apply Z.div_pos; lia|apply Z.div_lt_upper_bound; lia]).
  lia.
Qed.

Lemma iterA swap cv cvs T c pre a b post done rest :
  (forall st e v, seval st e = Some v -> seval st (cv e) = Some (cvs v)) ->
  List.length pre = (2 * List.length done)%nat -> Z.of_nat (List.length pre) < 2 ^ 62 ->
  0 <= a < 65536 -> 0 <= b < 65536 ->
  let st := stA c T (pre ++ a :: b :: post) (done ++ 0 :: rest) in
  exists st', sexec_list (bodyA swap cv) (set_int "i" (TS 64) (Z.of_nat (List.length done)) st) = Some (st', None) /\
    restrict st st' = stA c T (pre ++ a :: b :: post) (done ++ wrap T (cvs (valA swap a b)) :: rest).
Proof.
  intros Hcv Hlen Hb Ha Hbb st. subst st.
  assert (Hk : wrap (TS 64) (Z.of_nat (List.length done)) = Z.of_nat (List.length done)) by (apply wrap_s64_small; lia).
  assert (Hk2 : wrap (TS 64) (Z.of_nat (List.length done) * 2) = Z.of_nat (List.length pre)) by (rewrite wrap_s64_small; lia).
  assert (Hk3 : wrap (TS 64) (Z.of_nat (List.length pre) + 1) = Z.of_nat (List.length (pre ++ [a]))).
  { rewrite app_length. cbn [List.length]. rewrite wrap_s64_small; lia. }
  assert (Hab : pre ++ a :: b :: post = (pre ++ [a]) ++ b :: post) by (now rewrite <- app_assoc).
  unfold sexec_list, bodyA, stA, set_int.
  cbn. rewrite Hk, Hk2, get_idx_app. change (Pos.to_nat 4) with 4%nat. cbn [repeat].
  destruct swap.
  - rewrite put_be_16_2. cbn. rewrite ?Hk, Hk2, Hk3, Hab, get_idx_app, put_be_16_0. cbn.
    erewrite Hcv; [|cbn; rewrite get_be_32_0; reflexivity].
    rewrite ?Hk, upd_idx_app. eexists. split; [reflexivity|]. unfold restrict, valA. cbn.
    rewrite be32_of_regs by assumption. rewrite <- Hab. reflexivity.
  - rewrite put_be_16_0. cbn. rewrite ?Hk, Hk2, Hk3, Hab, get_idx_app, put_be_16_2. cbn.
    erewrite Hcv; [|cbn; rewrite get_be_32_0; reflexivity].
    rewrite ?Hk, upd_idx_app. eexists. split; [reflexivity|]. unfold restrict, valA. cbn.
    rewrite be32_of_regs by assumption. rewrite <- Hab. reflexivity.
Qed.

Definition u16Z (a : Z) : Prop := 0 <= a < 65536.

Fixpoint pairsZ (swap : bool) (l : list Z) : list Z :=
  match l with
  | a :: b :: t => valA swap a b :: pairsZ swap t
  | _ => []
  end.


Lemma loopA swap cv cvs T c :
  (forall st e v, seval st e = Some v -> seval st (cv e) = Some (cvs v)) ->
  forall rest pre done,
  List.length pre = (2 * List.length done)%nat -> Forall u16Z rest ->
  Z.of_nat (List.length pre + List.length rest) < 2 ^ 62 ->
  loop_idx (iterOf "i" (bodyA swap cv)) (List.length (pairsZ swap rest)) (Z.of_nat (List.length done))
    (stA c T (pre ++ rest) (done ++ repeat 0 (List.length (pairsZ swap rest)))) =
  Some (stA c T (pre ++ rest) (done ++ map (fun v => wrap T (cvs v)) (pairsZ swap rest)), None).
Proof.
  intros Hcv rest. induction rest as [|a|a b t IH] using pair_ind; intros pre done Hlen Hok Hb; [reflexivity|reflexivity|].
  inversion Hok as [|? ? Ha Hok']; subst. inversion Hok' as [|? ? Hbb Hok'']; subst.
  cbn [pairsZ List.length repeat loop_idx map].
  destruct (iterA swap cv cvs T c pre a b t done (repeat 0 (List.length (pairsZ swap t))) Hcv Hlen) as [st' [He Hr]];
    [cbn [List.length] in Hb; lia|exact Ha|exact Hbb|].
  unfold iterOf at 1. unfold sexec_list in He. rewrite He, Hr.
  replace (pre ++ a :: b :: t) with ((pre ++ [a; b]) ++ t) by (now rewrite <- app_assoc).
  replace (done ++ wrap T (cvs (valA swap a b)) :: repeat 0 (List.length (pairsZ swap t)))
    with ((done ++ [wrap T (cvs (valA swap a b))]) ++ repeat 0 (List.length (pairsZ swap t))) by (now rewrite <- app_assoc).
  replace (Z.of_nat (List.length done) + 1) with (Z.of_nat (List.length (done ++ [wrap T (cvs (valA swap a b))])))
    by (rewrite app_length; cbn [List.length]; lia).
  rewrite IH.
  - now rewrite <- (app_assoc done).
  - rewrite !app_length. cbn [List.length]. lia.
  - exact Hok''.
  - rewrite !app_length in *. cbn [List.length] in *. lia.
Qed.

Lemma pairsZ_length swap l : Z.of_nat (List.length (pairsZ swap l)) = Z.quot (Z.of_nat (List.length l)) 2.
Proof.
  induction l as [|a|a b t IH] using pair_ind; [reflexivity|reflexivity|].
  cbn [pairsZ List.length]. rewrite !Nat2Z.inj_succ, IH.
  rewrite !Z.quot_div_nonneg by lia.
  replace (Z.succ (Z.succ (Z.of_nat (List.length t)))) with (Z.of_nat (List.length t) + 1 * 2) by lia.
  rewrite Z.div_add by lia. lia.
Qed.

Lemma runA name swap cv cvs T l :
  (forall st e v, seval st e = Some v -> seval st (cv e) = Some (cvs v)) ->
  Forall u16Z l -> Z.of_nat (List.length l) < 2 ^ 62 ->
  srun (astA name T swap cv) [l] = Some (map (fun v => wrap T (cvs v)) (pairsZ swap l)).
Proof.
  intros Hcv Hok Hb. unfold srun, astA, sexec_list. remember (bodyA swap cv) as B eqn:HB. cbn.
  assert (Hq : 0 <= Z.quot (Z.of_nat (List.length l)) 2 < 2 ^ 62).
  { rewrite Z.quot_div_nonneg by lia. split; [apply Z.div_pos; lia|apply Z.div_lt_upper_bound; lia]. }
  rewrite !wrap_s64_small by (rewrite ?wrap_s64_small; lia).
  assert (Hq' : 0 <= Z.of_nat (List.length (pairsZ swap l)) < 2 ^ 62) by (rewrite pairsZ_length; exact Hq).
  rewrite <- (pairsZ_length swap). rewrite ?wrap_s64_small by lia.
  destruct (Z.ltb_spec (Z.of_nat (List.length (pairsZ swap l))) 0) as [Hneg|_]; [lia|].
  cbn. rewrite Nat2Z.id, repeat_length.
  pose proof (loopA swap cv cvs T (Z.of_nat (List.length (pairsZ swap l))) Hcv l [] [] eq_refl Hok) as HL.
  cbn [app List.length] in HL. unfold iterOf, stA, set_int in HL. change (Z.of_nat 0) with 0 in HL.
  unfold set_slice, set_int. cbn. rewrite ?wrap_s64_small by lia.
  subst B. rewrite HL by (cbn; lia). reflexivity.
Qed.

(* ---------- the six register-to-32-bit functions ---------- *)
(* a Go slice holds fewer than 2^63 elements; the bound keeps the index arithmetic of the printed functions (i*2+1 in an int) away from the wrap *)
Definition len_ok {A} (l : list A) : Prop := Z.of_nat (List.length l) < 2 ^ 61.

Lemma cv_id st e v : seval st e = Some v -> seval st ((fun x : sexpr => x) e) = Some ((fun z : Z => z) v).
Proof. exact (fun H => H). Qed.
Lemma cv_conv t st e v : seval st e = Some v -> seval st (XConv t e) = Some (wrap t v).
Proof. intros H. cbn [seval]. now rewrite H. Qed.
Lemma cv_bits st e v : seval st e = Some v -> seval st (XBits e) = Some ((fun z : Z => z) v).
Proof. exact (fun H => H). Qed.

Lemma u16Z_of_N rs : Forall u16_ok rs -> Forall u16Z (map Z.of_N rs).
Proof. intros H. apply Forall_map. eapply Forall_impl; [|exact H]. unfold u16_ok, u16Z. intros a Ha. cbv beta. lia. Qed.

Lemma pairsZ_model swap rs : Forall u16_ok rs -> pairsZ swap (map Z.of_N rs) = map Z.of_N (regs_to_u32 swap rs).
Proof.
  induction rs as [|a|a b t IH] using pair_ind; intros Hok; [reflexivity|reflexivity|].
  inversion Hok as [|? ? Ha Hok']; subst. inversion Hok' as [|? ? Hb Hok'']; subst.
  cbn [map pairsZ regs_to_u32]. rewrite IH by exact Hok''. f_equal.
  rewrite two_regs_value by assumption. unfold valA. destruct swap; lia.
Qed.

Lemma wrap_u32_of_N u : u32_ok u -> wrap (TU 32) (Z.of_N u) = Z.of_N u.
Proof. unfold u32_ok. intros H. apply wrap_u_small. change (2 ^ 32) with 4294967296. lia. Qed.

Lemma wrap_s32_of_N u : u32_ok u -> wrap (TS 32) (Z.of_N u) = to_int32 u.
Proof.
  unfold u32_ok, to_int32. intros H. unfold wrap. change (2 ^ (32 - 1)) with 2147483648. change (2 ^ 32) with 4294967296.
  destruct (N.ltb_spec u 2147483648) as [Hlt|Hge].
  - rewrite Z.mod_small by lia. lia.
  - replace (Z.of_N u + 2147483648) with (Z.of_N u - 2147483648 + 1 * 4294967296) by lia.
    rewrite Z.mod_add by lia. rewrite Z.mod_small by lia. lia.
Qed.

Lemma wrap_s32_idem z : wrap (TS 32) (wrap (TS 32) z) = wrap (TS 32) z.
Proof.
  unfold wrap. change (2 ^ (32 - 1)) with 2147483648. change (2 ^ 32) with 4294967296.
  replace ((z + 2147483648) mod 4294967296 - 2147483648 + 2147483648) with ((z + 2147483648) mod 4294967296) by lia.
  now rewrite Z.mod_mod by lia.
Qed.

Section RegsTo32.
  Variable rs : list N.
  Hypothesis Hok : Forall u16_ok rs.
  Hypothesis Hlen : len_ok rs.

  Let HokZ := u16Z_of_N rs Hok.
  Let HlenZ : Z.of_nat (List.length (map Z.of_N rs)) < 2 ^ 62.
  Proof. rewrite map_length. unfold len_ok in Hlen. lia. Qed.

  Lemma unsigned_result swap :
    map (fun v => wrap (TU 32) v) (pairsZ swap (map Z.of_N rs)) = map Z.of_N (regs_to_u32 swap rs).
  Proof.
    rewrite pairsZ_model by exact Hok. rewrite map_map. apply map_ext_in. intros u Hu.
    apply wrap_u32_of_N. exact (proj1 (Forall_forall _ _) (regs_to_u32_ok swap rs Hok) u Hu).
  Qed.

  Lemma signed_result swap :
    map (fun v => wrap (TS 32) (wrap (TS 32) v)) (pairsZ swap (map Z.of_N rs)) = map to_int32 (regs_to_u32 swap rs).
  Proof.
    rewrite pairsZ_model by exact Hok. rewrite map_map. apply map_ext_in. intros u Hu.
    rewrite wrap_s32_idem. apply wrap_s32_of_N. exact (proj1 (Forall_forall _ _) (regs_to_u32_ok swap rs Hok) u Hu).
  Qed.

  Theorem go_RegsToUint32_is_model : srun go_modbus_RegsToUint32 [map Z.of_N rs] = Some (map Z.of_N (RegsToUint32 rs)).
  Proof.
    change go_modbus_RegsToUint32 with (astA "modbus.RegsToUint32" (TU 32) false (fun e => e)).
    rewrite (runA _ _ _ _ _ _ cv_id HokZ HlenZ). f_equal. apply unsigned_result.
  Qed.
  Theorem go_RegsToUint32SwapWords_is_model :
    srun go_modbus_RegsToUint32SwapWords [map Z.of_N rs] = Some (map Z.of_N (RegsToUint32SwapWords rs)).
  Proof.
    change go_modbus_RegsToUint32SwapWords with (astA "modbus.RegsToUint32SwapWords" (TU 32) true (fun e => e)).
    rewrite (runA _ _ _ _ _ _ cv_id HokZ HlenZ). f_equal. apply unsigned_result.
  Qed.
  Theorem go_RegsToFloat32_is_model : srun go_modbus_RegsToFloat32 [map Z.of_N rs] = Some (map Z.of_N (RegsToFloat32 rs)).
  Proof.
    change go_modbus_RegsToFloat32 with (astA "modbus.RegsToFloat32" (TU 32) false XBits).
    rewrite (runA _ _ _ _ _ _ cv_bits HokZ HlenZ). f_equal. apply unsigned_result.
  Qed.
  Theorem go_RegsToFloat32SwapWords_is_model :
    srun go_modbus_RegsToFloat32SwapWords [map Z.of_N rs] = Some (map Z.of_N (RegsToFloat32SwapWords rs)).
  Proof.
    change go_modbus_RegsToFloat32SwapWords with (astA "modbus.RegsToFloat32SwapWords" (TU 32) true XBits).
    rewrite (runA _ _ _ _ _ _ cv_bits HokZ HlenZ). f_equal. apply unsigned_result.
  Qed.
  Theorem go_RegsToInt32_is_model : srun go_modbus_RegsToInt32 [map Z.of_N rs] = Some (RegsToInt32 rs).
  Proof.
    change go_modbus_RegsToInt32 with (astA "modbus.RegsToInt32" (TS 32) false (XConv (TS 32))).
    rewrite (runA _ _ _ _ _ _ (cv_conv (TS 32)) HokZ HlenZ). f_equal. apply signed_result.
  Qed.
  Theorem go_RegsToInt32SwapWords_is_model : srun go_modbus_RegsToInt32SwapWords [map Z.of_N rs] = Some (RegsToInt32SwapWords rs).
  Proof.
    change go_modbus_RegsToInt32SwapWords with (astA "modbus.RegsToInt32SwapWords" (TS 32) true (XConv (TS 32))).
    rewrite (runA _ _ _ _ _ _ (cv_conv (TS 32)) HokZ HlenZ). f_equal. apply signed_result.
  Qed.
End RegsTo32.

(* ---------- the six 32-bit-to-register functions ---------- *)
Definition idx2 : sexpr := XBin OMul (TS 64) (XVar "i") (XConst 2).
Definition idx2p1 : sexpr := XBin OAdd (TS 64) idx2 (XConst 1).
Definition bodyB (swap : bool) (cv : sexpr -> sexpr) : list sstmt :=
  [TMake "buf" (TU 8) (XConst 4);
   TPutBE 32 "buf" (XConst 0) (cv (XVar "v"));
   TStore "ret" idx2 (XGetBE 16 "buf" (XConst (if swap then 2 else 0)) None);
   TStore "ret" idx2p1 (XGetBE 16 "buf" (XConst (if swap then 0 else 2)) None)].
Definition astB (name : string) (Tin : ty) (swap : bool) (cv : sexpr -> sexpr) : sfunc :=
  {| sf_name := name; sf_params := [("in", Tin)]; sf_body :=
     [TMake "ret" (TU 16) (XBin OMul (TS 64) (XLen "in") (XConst 2));
      TRangeIV "i" "v" Tin "in" (bodyB swap cv);
      TReturn "ret"] |}.

Definition stB (Tin : ty) (inp ret : list Z) : state :=
  {| ints := []; slices := [("in", (Tin, inp)); ("ret", (TU 16, ret))] |}.

Definition two (swap : bool) (u : Z) : list Z :=
  [if swap then u mod 65536 else u / 65536; if swap then u / 65536 else u mod 65536].

Lemma hi16_of_bytes u : 0 <= u < 4294967296 ->
  (Z.shiftr u 24 mod 256) * 2 ^ 8 + ((Z.shiftr u 16 mod 256) * 2 ^ 0 + 0) = u / 65536.
Proof.
  intros Hu. rewrite !Z.shiftr_div_pow2 by lia. change (2 ^ 0) with 1. change (2 ^ 8) with 256. change (2 ^ 16) with 65536.
  change (2 ^ 24) with 16777216.
  assert (H1 : u / 16777216 = u / 65536 / 256) by (rewrite Z.div_div by lia; reflexivity).
  rewrite H1. pose proof (Z.div_mod (u / 65536) 256 ltac:(lia)). pose proof (Z.mod_pos_bound (u / 65536) 256 ltac:(lia)).
  assert (0 <= u / 65536 < 65536) by (split; [apply Z.div_pos; lia|apply Z.div_lt_upper_bound; lia]).
  rewrite (Z.mod_small (u / 65536 / 256)) by (split; [apply Z.div_pos; lia|apply Z.div_lt_upper_bound; lia]). lia.
Qed.

Lemma lo16_of_bytes u : 0 <= u ->
  (Z.shiftr u 8 mod 256) * 2 ^ 8 + ((Z.shiftr u 0 mod 256) * 2 ^ 0 + 0) = u mod 65536.
Proof.
  intros Hu. rewrite !Z.shiftr_div_pow2 by lia. change (2 ^ 0) with 1. change (2 ^ 8) with 256. rewrite Z.div_1_r.
  change 65536 with (256 * 256). rewrite Z.rem_mul_r by lia. lia.
Qed.

Lemma upd_idx_app1 pre y x post v :
  upd_idx (pre ++ y :: x :: post) (Z.of_nat (S (List.length pre))) v = Some (pre ++ y :: v :: post).
Proof.
  replace (pre ++ y :: x :: post) with ((pre ++ [y]) ++ x :: post) by (now rewrite <- app_assoc).
  replace (S (List.length pre)) with (List.length (pre ++ [y])) by (rewrite app_length; cbn [List.length]; lia).
  rewrite upd_idx_app. now rewrite <- app_assoc.
Qed.

Lemma iterB swap cv cvs Tin inp x j done rest :
  (forall st e v, seval st e = Some v -> seval st (cv e) = Some (cvs v)) ->
  wrap Tin x = x -> 0 <= cvs x < 4294967296 ->
  List.length done = (2 * j)%nat -> Z.of_nat j < 2 ^ 61 ->
  let st := stB Tin inp (done ++ 0 :: 0 :: rest) in
  exists st', sexec_list (bodyB swap cv) (set_int "v" Tin x (set_int "i" (TS 64) (Z.of_nat j) st)) = Some (st', None) /\
    restrict st st' = stB Tin inp (done ++ two swap (cvs x) ++ rest).
Proof.
  intros Hcv Hx Hu Hlen Hj st. subst st.
  assert (Hk : wrap (TS 64) (Z.of_nat j) = Z.of_nat j) by (apply wrap_s64_small; lia).
  assert (Hk2 : wrap (TS 64) (Z.of_nat j * 2) = Z.of_nat (List.length done)) by (rewrite wrap_s64_small; lia).
  assert (Hk3 : wrap (TS 64) (Z.of_nat (List.length done) + 1) = Z.of_nat (S (List.length done))) by (rewrite wrap_s64_small; lia).
  assert (Hhi : 0 <= cvs x / 65536 < 65536) by (split; [apply Z.div_pos; lia|apply Z.div_lt_upper_bound; lia]).
  assert (Hlo : 0 <= cvs x mod 65536 < 65536) by (apply Z.mod_pos_bound; lia).
  unfold sexec_list, bodyB, stB, set_int.
  cbn. change (Pos.to_nat 4) with 4%nat. cbn [repeat].
  erewrite Hcv; [|cbn; rewrite Hx; reflexivity].
  rewrite put_be_32_0. cbn. rewrite ?Hk, Hk2.
  destruct swap.
  - rewrite get_be_16_2, upd_idx_app. cbn. rewrite ?Hk, Hk2, Hk3, get_be_16_0, upd_idx_app1.
    eexists. split; [reflexivity|]. unfold restrict, two. cbn.
    rewrite lo16_of_bytes, hi16_of_bytes by lia. rewrite !wrap_u_small by (change (2 ^ 16) with 65536; lia).
    reflexivity.
  - rewrite get_be_16_0, upd_idx_app. cbn. rewrite ?Hk, Hk2, Hk3, get_be_16_2, upd_idx_app1.
    eexists. split; [reflexivity|]. unfold restrict, two. cbn.
    rewrite lo16_of_bytes, hi16_of_bytes by lia. rewrite !wrap_u_small by (change (2 ^ 16) with 65536; lia).
    reflexivity.
Qed.

Definition okB (Tin : ty) (cvs : Z -> Z) (x : Z) : Prop := wrap Tin x = x /\ 0 <= cvs x < 4294967296.


Lemma loopB swap cv cvs Tin l :
  (forall st e v, seval st e = Some v -> seval st (cv e) = Some (cvs v)) ->
  forall rest pre done, l = pre ++ rest ->
  List.length done = (2 * List.length pre)%nat -> Forall (okB Tin cvs) rest ->
  Z.of_nat (List.length pre + List.length rest) < 2 ^ 61 ->
  loop_idx (iterIV "i" "v" Tin l (bodyB swap cv)) (List.length rest) (Z.of_nat (List.length pre))
    (stB Tin l (done ++ repeat 0 (List.length (flat_map (two swap) (map cvs rest))))) =
  Some (stB Tin l (done ++ flat_map (two swap) (map cvs rest)), None).
Proof.
  intros Hcv rest. induction rest as [|x t IH]; intros pre done Hl Hlen Hok Hb; [reflexivity|].
  inversion Hok as [|? ? [Hx Hu] Hok']; subst x0 l0.
  cbn [map flat_map two app List.length repeat loop_idx].
  assert (Hg : get_idx l (Z.of_nat (List.length pre)) = Some x) by (rewrite Hl; apply get_idx_app).
  destruct (iterB swap cv cvs Tin l x (List.length pre) done (repeat 0 (List.length (flat_map (two swap) (map cvs t)))) Hcv Hx Hu Hlen)
    as [st' [He Hr]]; [cbn [List.length] in Hb; lia|].
  unfold iterIV at 1. rewrite Hg. unfold sexec_list in He. rewrite He, Hr. unfold two at 1. cbn [app].
  match goal with |- context [done ++ ?a :: ?b :: repeat 0 ?n] =>
    replace (done ++ a :: b :: repeat 0 n) with ((done ++ [a; b]) ++ repeat 0 n) by (now rewrite <- app_assoc) end.
  replace (Z.of_nat (List.length pre) + 1) with (Z.of_nat (List.length (pre ++ [x]))) by (rewrite app_length; cbn [List.length]; lia).
  rewrite IH.
  - now rewrite <- (app_assoc done).
  - rewrite Hl. now rewrite <- app_assoc.
  - rewrite !app_length. cbn [List.length]. lia.
  - exact Hok'.
  - rewrite app_length. cbn [List.length] in *. lia.
Qed.

Lemma two_length swap (cvs : Z -> Z) (l : list Z) : List.length (flat_map (two swap) (map cvs l)) = (2 * List.length l)%nat.
Proof. induction l as [|x t IH]; [reflexivity|]. cbn [map flat_map two app List.length]. rewrite IH. lia. Qed.

Lemma runB name swap cv cvs Tin l :
  (forall st e v, seval st e = Some v -> seval st (cv e) = Some (cvs v)) ->
  Forall (okB Tin cvs) l -> Z.of_nat (List.length l) < 2 ^ 61 ->
  srun (astB name Tin swap cv) [l] = Some (flat_map (two swap) (map cvs l)).
Proof.
  intros Hcv Hok Hb. unfold srun, astB, sexec_list. remember (bodyB swap cv) as B eqn:HB. cbn.
  rewrite !wrap_s64_small by (rewrite ?wrap_s64_small; lia).
  destruct (Z.ltb_spec (Z.of_nat (List.length l) * 2) 0) as [Hneg|_]; [lia|].
  cbn. replace (Z.to_nat (Z.of_nat (List.length l) * 2)) with (List.length (flat_map (two swap) (map cvs l)))
    by (rewrite two_length; lia).
  pose proof (loopB swap cv cvs Tin l Hcv l [] [] eq_refl eq_refl Hok) as HL.
  cbn [app List.length] in HL. unfold iterIV, stB in HL. change (Z.of_nat 0) with 0 in HL.
  rewrite <- HB in HL. specialize (HL ltac:(cbn; lia)). cbn in HL. cbn.
  match goal with |- context [set_slice "ret" (TU 16) ?z ?s] =>
    change (set_slice "ret" (TU 16) z s) with {| ints := []; slices := [("in", (Tin, l)); ("ret", (TU 16, z))] |} end.
  rewrite HL. reflexivity.
Qed.

Lemma two_model swap us : Forall u32_ok us -> flat_map (two swap) (map Z.of_N us) = map Z.of_N (u32_to_regs swap us).
Proof.
  induction 1 as [|u us Hu _ IH]; [reflexivity|]. unfold u32_to_regs in *. cbn [map flat_map]. rewrite map_app, IH. f_equal.
  rewrite u32_two_regs by exact Hu. unfold two. change 65536 with (Z.of_N 65536). rewrite <- N2Z.inj_mod, <- N2Z.inj_div.
  destruct swap; reflexivity.
Qed.

Lemma okB_unsigned us : Forall u32_ok us -> Forall (okB (TU 32) (fun z => z)) (map Z.of_N us).
Proof.
  intros H. apply Forall_map. eapply Forall_impl; [|exact H]. intros u Hu. split; [apply wrap_u32_of_N, Hu|].
  unfold u32_ok in Hu. lia.
Qed.

Lemma wrap_s32_small z : i32_ok z -> wrap (TS 32) z = z.
Proof.
  unfold i32_ok. intros H. unfold wrap. change (2 ^ (32 - 1)) with 2147483648. change (2 ^ 32) with 4294967296.
  rewrite Z.mod_small by lia. lia.
Qed.

Lemma wrap_u32_of_int32 z : wrap (TU 32) z = Z.of_N (of_int32 z).
Proof.
  unfold wrap, of_int32. change (2 ^ 32) with 4294967296. rewrite Z2N.id; [reflexivity|]. apply Z.mod_pos_bound. lia.
Qed.

Lemma okB_signed zs : Forall i32_ok zs -> Forall (okB (TS 32) (wrap (TU 32))) zs.
Proof.
  intros H. eapply Forall_impl; [|exact H]. intros z Hz. split; [apply wrap_s32_small, Hz|].
  unfold wrap. change (2 ^ 32) with 4294967296. apply Z.mod_pos_bound. lia.
Qed.

Section From32.
  Variable us : list N.
  Hypothesis Hok : Forall u32_ok us.
  Hypothesis Hlen : len_ok us.
  Let HlenZ : Z.of_nat (List.length (map Z.of_N us)) < 2 ^ 61.
  Proof. rewrite map_length. exact Hlen. Qed.

  Lemma unsigned_regs swap : flat_map (two swap) (map (fun z : Z => z) (map Z.of_N us)) = map Z.of_N (u32_to_regs swap us).
  Proof. rewrite map_id. apply two_model, Hok. Qed.

  Theorem go_Uint32ToRegs_is_model : srun go_modbus_Uint32ToRegs [map Z.of_N us] = Some (map Z.of_N (Uint32ToRegs us)).
  Proof.
    change go_modbus_Uint32ToRegs with (astB "modbus.Uint32ToRegs" (TU 32) false (fun e => e)).
    rewrite (runB _ _ _ _ _ _ cv_id (okB_unsigned us Hok) HlenZ). f_equal. apply unsigned_regs.
  Qed.
  Theorem go_Uint32ToRegsSwapRegs_is_model :
    srun go_modbus_Uint32ToRegsSwapRegs [map Z.of_N us] = Some (map Z.of_N (Uint32ToRegsSwapRegs us)).
  Proof.
    change go_modbus_Uint32ToRegsSwapRegs with (astB "modbus.Uint32ToRegsSwapRegs" (TU 32) true (fun e => e)).
    rewrite (runB _ _ _ _ _ _ cv_id (okB_unsigned us Hok) HlenZ). f_equal. apply unsigned_regs.
  Qed.
  Theorem go_Float32ToRegs_is_model : srun go_modbus_Float32ToRegs [map Z.of_N us] = Some (map Z.of_N (Float32ToRegs us)).
  Proof.
    change go_modbus_Float32ToRegs with (astB "modbus.Float32ToRegs" (TU 32) false XBits).
    rewrite (runB _ _ _ _ _ _ cv_bits (okB_unsigned us Hok) HlenZ). f_equal. apply unsigned_regs.
  Qed.
  Theorem go_Float32ToRegsSwapWords_is_model :
    srun go_modbus_Float32ToRegsSwapWords [map Z.of_N us] = Some (map Z.of_N (Float32ToRegsSwapWords us)).
  Proof.
    change go_modbus_Float32ToRegsSwapWords with (astB "modbus.Float32ToRegsSwapWords" (TU 32) true XBits).
    rewrite (runB _ _ _ _ _ _ cv_bits (okB_unsigned us Hok) HlenZ). f_equal. apply unsigned_regs.
  Qed.
End From32.

Section FromInt32.
  Variable zs : list Z.
  Hypothesis Hok : Forall i32_ok zs.
  Hypothesis Hlen : len_ok zs.

  Lemma signed_regs swap : flat_map (two swap) (map (wrap (TU 32)) zs) = map Z.of_N (u32_to_regs swap (map of_int32 zs)).
  Proof.
    rewrite <- two_model.
    - f_equal. rewrite map_map. apply map_ext. exact wrap_u32_of_int32.
    - apply Forall_map. apply Forall_forall. intros z _. apply of_int32_ok.
  Qed.

  Theorem go_Int32ToRegs_is_model : srun go_modbus_Int32ToRegs [zs] = Some (map Z.of_N (Int32ToRegs zs)).
  Proof.
    change go_modbus_Int32ToRegs with (astB "modbus.Int32ToRegs" (TS 32) false (XConv (TU 32))).
    rewrite (runB _ _ _ _ _ _ (cv_conv (TU 32)) (okB_signed zs Hok) Hlen). f_equal. apply signed_regs.
  Qed.
  Theorem go_Int32ToRegsSwapWords_is_model : srun go_modbus_Int32ToRegsSwapWords [zs] = Some (map Z.of_N (Int32ToRegsSwapWords zs)).
  Proof.
    change go_modbus_Int32ToRegsSwapWords with (astB "modbus.Int32ToRegsSwapWords" (TS 32) true (XConv (TU 32))).
    rewrite (runB _ _ _ _ _ _ (cv_conv (TU 32)) (okB_signed zs Hok) Hlen). f_equal. apply signed_regs.
  Qed.
End FromInt32.

(* ---------- RegsToInt16, PutUint16Array, Uint16Array ---------- *)
Lemma skipn_len_app {A} (pre X : list A) : skipn (List.length pre) (pre ++ X) = X.
Proof. induction pre as [|p pre IH]; [reflexivity|exact IH]. Qed.
Lemma firstn_len_app {A} (pre X : list A) : firstn (List.length pre) (pre ++ X) = pre.
Proof. induction pre as [|p pre IH]; [reflexivity|]. cbn [List.length app firstn]. now rewrite IH. Qed.

Lemma put_be_16_app done x y rest v :
  put_be 16 (done ++ x :: y :: rest) (Z.of_nat (List.length done)) v =
  Some (done ++ [Z.shiftr v 8 mod 256; Z.shiftr v 0 mod 256] ++ rest).
Proof.
  unfold put_be. change (Z.to_nat (16 / 8)) with 2%nat.
  replace ((0 <=? Z.of_nat (List.length done)) && (Z.of_nat (List.length done) + Z.of_nat 2 <=? Z.of_nat (List.length (done ++ x :: y :: rest)))) with true.
  2: { symmetry. apply andb_true_intro. split; [apply Z.leb_le; lia|apply Z.leb_le; rewrite app_length; cbn [List.length]; lia]. }
  rewrite Nat2Z.id, firstn_len_app.
  replace (done ++ x :: y :: rest) with ((done ++ [x; y]) ++ rest) by (now rewrite <- app_assoc).
  replace (List.length done + 2)%nat with (List.length (done ++ [x; y])) by (rewrite app_length; reflexivity).
  rewrite skipn_len_app. reflexivity.
Qed.

Lemma get_be_16_app pre h l post :
  get_be 16 (pre ++ h :: l :: post) (Z.of_nat (List.length pre)) (Z.of_nat (List.length pre) + 2) = Some (h * 2 ^ 8 + (l * 2 ^ 0 + 0)).
Proof.
  unfold get_be. change (Z.to_nat (16 / 8)) with 2%nat.
  match goal with |- (if ?c then _ else _) = _ => replace c with true end.
  2: { symmetry. rewrite !andb_true_iff, !Z.leb_le. rewrite app_length. cbn [List.length]. lia. }
  rewrite Nat2Z.id, skipn_len_app. reflexivity.
Qed.

(* RegsToInt16 *)
Definition bodyI16 : list sstmt := [TStore "ret" (XVar "i") (XConv (TS 16) (XIndex "in" (XVar "i")))].
Definition stI16 (inp ret : list Z) : state := {| ints := []; slices := [("in", (TU 16, inp)); ("ret", (TS 16, ret))] |}.

Lemma iterI16 pre a post done rest :
  List.length done = List.length pre -> Z.of_nat (List.length pre) < 2 ^ 61 ->
  let st := stI16 (pre ++ a :: post) (done ++ 0 :: rest) in
  exists st', sexec_list bodyI16 (set_int "i" (TS 64) (Z.of_nat (List.length pre)) st) = Some (st', None) /\
    restrict st st' = stI16 (pre ++ a :: post) (done ++ wrap (TS 16) (wrap (TS 16) a) :: rest).
Proof.
  intros Hlen Hb st. subst st.
  assert (Hk : wrap (TS 64) (Z.of_nat (List.length pre)) = Z.of_nat (List.length pre)) by (apply wrap_s64_small; lia).
  unfold sexec_list, bodyI16, stI16, set_int. cbn. rewrite ?Hk, get_idx_app. cbn. rewrite <- Hlen, upd_idx_app.
  eexists. split; reflexivity.
Qed.

Lemma loopI16 l : forall rest pre done, l = pre ++ rest -> List.length done = List.length pre ->
  Z.of_nat (List.length pre + List.length rest) < 2 ^ 61 ->
  loop_idx (iterOf "i" bodyI16) (List.length rest) (Z.of_nat (List.length pre)) (stI16 l (done ++ repeat 0 (List.length rest))) =
  Some (stI16 l (done ++ map (fun a => wrap (TS 16) (wrap (TS 16) a)) rest), None).
Proof.
  intros rest. induction rest as [|a t IH]; intros pre done Hl Hlen Hb; [reflexivity|].
  cbn [List.length repeat loop_idx map]. subst l.
  destruct (iterI16 pre a t done (repeat 0 (List.length t)) Hlen) as [st' [He Hr]]; [cbn [List.length] in Hb; lia|].
  unfold iterOf at 1. unfold sexec_list in He. rewrite He, Hr.
  replace (done ++ wrap (TS 16) (wrap (TS 16) a) :: repeat 0 (List.length t))
    with ((done ++ [wrap (TS 16) (wrap (TS 16) a)]) ++ repeat 0 (List.length t)) by (now rewrite <- app_assoc).
  replace (Z.of_nat (List.length pre) + 1) with (Z.of_nat (List.length (pre ++ [a]))) by (rewrite app_length; cbn [List.length]; lia).
  rewrite (IH (pre ++ [a])).
  - now rewrite <- (app_assoc done).
  - now rewrite <- app_assoc.
  - rewrite !app_length. cbn [List.length]. lia.
  - rewrite app_length. cbn [List.length] in *. lia.
Qed.

Lemma wrap_s16_of_N u : u16_ok u -> wrap (TS 16) (wrap (TS 16) (Z.of_N u)) = to_int16 u.
Proof.
  unfold u16_ok, to_int16. intros H. unfold wrap. change (2 ^ (16 - 1)) with 32768. change (2 ^ 16) with 65536.
  destruct (N.ltb_spec u 32768) as [Hlt|Hge].
  - rewrite (Z.mod_small (Z.of_N u + 32768)) by lia. replace (Z.of_N u + 32768 - 32768 + 32768) with (Z.of_N u + 32768) by lia.
    rewrite Z.mod_small by lia. lia.
  - replace (Z.of_N u + 32768) with (Z.of_N u - 32768 + 1 * 65536) by lia. rewrite Z.mod_add by lia.
    rewrite (Z.mod_small (Z.of_N u - 32768)) by lia. replace (Z.of_N u - 32768 - 32768 + 32768) with (Z.of_N u - 32768) by lia.
    rewrite Z.mod_small by lia. lia.
Qed.

Theorem go_RegsToInt16_is_model rs : Forall u16_ok rs -> len_ok rs ->
  srun go_modbus_RegsToInt16 [map Z.of_N rs] = Some (RegsToInt16 rs).
Proof.
  intros Hok Hlen. unfold len_ok in Hlen.
  change go_modbus_RegsToInt16 with {| sf_name := "modbus.RegsToInt16"; sf_params := [("in", TU 16)]; sf_body :=
    [TMake "ret" (TS 16) (XLen "in"); TRangeI "i" "in" bodyI16; TReturn "ret"] |}.
  unfold srun, sexec_list. remember bodyI16 as B eqn:HB. cbn. rewrite map_length.
  destruct (Z.ltb_spec (Z.of_nat (List.length rs)) 0) as [Hneg|_]; [lia|].
  cbn. rewrite Nat2Z.id, map_length.
  pose proof (loopI16 (map Z.of_N rs) (map Z.of_N rs) [] [] eq_refl eq_refl) as HL.
  cbn [app List.length] in HL. rewrite map_length in HL. unfold iterOf, stI16 in HL. change (Z.of_nat 0) with 0 in HL.
  rewrite <- HB in HL. specialize (HL ltac:(cbn; lia)). cbn in HL.
  match goal with |- context [set_slice "ret" (TS 16) ?z ?s] =>
    change (set_slice "ret" (TS 16) z s) with {| ints := []; slices := [("in", (TU 16, map Z.of_N rs)); ("ret", (TS 16, z))] |} end.
  rewrite HL. cbn. f_equal. unfold RegsToInt16. rewrite map_map. apply map_ext_in. intros u Hu.
  apply wrap_s16_of_N. exact (proj1 (Forall_forall _ _) Hok u Hu).
Qed.

(* PutUint16Array *)
Definition bodyPut : list sstmt := [TPutBE 16 "data" (XBin OMul (TS 64) (XVar "i") (XConst 2)) (XVar "v")].
Definition stPut (inp d : list Z) : state := {| ints := []; slices := [("value", (TU 16, inp)); ("data", (TU 8, d))] |}.
Definition twoB (v : Z) : list Z := [Z.shiftr v 8 mod 256; Z.shiftr v 0 mod 256].

Lemma iterPut inp x j done rest :
  wrap (TU 16) x = x -> List.length done = (2 * j)%nat -> Z.of_nat j < 2 ^ 61 ->
  let st := stPut inp (done ++ 0 :: 0 :: rest) in
  exists st', sexec_list bodyPut (set_int "v" (TU 16) x (set_int "i" (TS 64) (Z.of_nat j) st)) = Some (st', None) /\
    restrict st st' = stPut inp (done ++ twoB x ++ rest).
Proof.
  intros Hx Hlen Hj st. subst st.
  assert (Hk : wrap (TS 64) (Z.of_nat j) = Z.of_nat j) by (apply wrap_s64_small; lia).
  assert (Hk2 : wrap (TS 64) (Z.of_nat j * 2) = Z.of_nat (List.length done)) by (rewrite wrap_s64_small; lia).
  unfold sexec_list, bodyPut, stPut, set_int. cbn. rewrite ?Hk, Hk2, Hx, put_be_16_app.
  eexists. split; reflexivity.
Qed.

Lemma loopPut l : forall rest pre done, l = pre ++ rest -> List.length done = (2 * List.length pre)%nat ->
  Forall (fun x => wrap (TU 16) x = x) rest -> Z.of_nat (List.length pre + List.length rest) < 2 ^ 61 ->
  loop_idx (iterIV "i" "v" (TU 16) l bodyPut) (List.length rest) (Z.of_nat (List.length pre))
    (stPut l (done ++ repeat 0 (List.length (flat_map twoB rest)))) =
  Some (stPut l (done ++ flat_map twoB rest), None).
Proof.
  intros rest. induction rest as [|x t IH]; intros pre done Hl Hlen Hok Hb; [reflexivity|].
  inversion Hok as [|? ? Hx Hok']; subst x0 l0.
  cbn [flat_map twoB app List.length repeat loop_idx].
  assert (Hg : get_idx l (Z.of_nat (List.length pre)) = Some x) by (rewrite Hl; apply get_idx_app).
  destruct (iterPut l x (List.length pre) done (repeat 0 (List.length (flat_map twoB t))) Hx Hlen) as [st' [He Hr]];
    [cbn [List.length] in Hb; lia|].
  unfold iterIV at 1. rewrite Hg. unfold sexec_list in He. rewrite He, Hr. unfold twoB at 1. cbn [app].
  match goal with |- context [done ++ ?a :: ?b :: repeat 0 ?n] =>
    replace (done ++ a :: b :: repeat 0 n) with ((done ++ [a; b]) ++ repeat 0 n) by (now rewrite <- app_assoc) end.
  replace (Z.of_nat (List.length pre) + 1) with (Z.of_nat (List.length (pre ++ [x]))) by (rewrite app_length; cbn [List.length]; lia).
  rewrite IH.
  - now rewrite <- (app_assoc done).
  - rewrite Hl. now rewrite <- app_assoc.
  - rewrite !app_length. cbn [List.length]. lia.
  - exact Hok'.
  - rewrite app_length. cbn [List.length] in *. lia.
Qed.

Lemma twoB_length l : List.length (flat_map twoB l) = (2 * List.length l)%nat.
Proof. induction l as [|x t IH]; [reflexivity|]. cbn [flat_map twoB app List.length]. rewrite IH. lia. Qed.

Lemma twoB_model rs : flat_map twoB (map Z.of_N rs) = map Z.of_N (PutUint16Array rs).
Proof.
  unfold PutUint16Array. induction rs as [|v t IH]; [reflexivity|]. cbn [map flat_map]. rewrite map_app, IH. f_equal.
  unfold twoB, hi8, lo8. cbn [map]. rewrite !Z.shiftr_div_pow2 by lia. change (2 ^ 8) with 256. change (2 ^ 0) with 1. rewrite Z.div_1_r.
  change 256 with (Z.of_N 256). now rewrite !N2Z.inj_mod, N2Z.inj_div.
Qed.

Theorem go_PutUint16Array_is_model rs : Forall u16_ok rs -> len_ok rs ->
  srun go_modbus_PutUint16Array [map Z.of_N rs] = Some (map Z.of_N (PutUint16Array rs)).
Proof.
  intros Hok Hlen. unfold len_ok in Hlen.
  change go_modbus_PutUint16Array with {| sf_name := "modbus.PutUint16Array"; sf_params := [("value", TU 16)]; sf_body :=
    [TMake "data" (TU 8) (XBin OMul (TS 64) (XConst 2) (XLen "value")); TRangeIV "i" "v" (TU 16) "value" bodyPut; TReturn "data"] |}.
  unfold srun, sexec_list. remember bodyPut as B eqn:HB. cbn. rewrite map_length.
  rewrite !wrap_s64_small by (rewrite ?wrap_s64_small; lia).
  destruct (Z.ltb_spec (2 * Z.of_nat (List.length rs)) 0) as [Hneg|_]; [lia|].
  cbn. replace (Z.to_nat (2 * Z.of_nat (List.length rs))) with (List.length (flat_map twoB (map Z.of_N rs)))
    by (rewrite twoB_length, map_length; lia).
  assert (HokZ : Forall (fun x => wrap (TU 16) x = x) (map Z.of_N rs)).
  { apply Forall_map. eapply Forall_impl; [|exact Hok]. unfold u16_ok. intros u Hu. apply wrap_u_small. change (2 ^ 16) with 65536. lia. }
  pose proof (loopPut (map Z.of_N rs) (map Z.of_N rs) [] [] eq_refl eq_refl HokZ) as HL.
  cbn [app List.length] in HL. rewrite map_length in HL. unfold iterIV, stPut in HL. change (Z.of_nat 0) with 0 in HL.
  rewrite <- HB in HL. specialize (HL ltac:(cbn; lia)). cbn in HL. rewrite map_length.
  match goal with |- context [set_slice "data" (TU 8) ?z ?s] =>
    change (set_slice "data" (TU 8) z s) with {| ints := []; slices := [("value", (TU 16, map Z.of_N rs)); ("data", (TU 8, z))] |} end.
  rewrite HL. cbn. f_equal. apply twoB_model.
Qed.

(* Uint16Array *)
Definition bodyU16 : list sstmt :=
  [TStore "ret" (XVar "i") (XGetBE 16 "data" (XBin OMul (TS 64) (XVar "i") (XConst 2))
                              (Some (XBin OAdd (TS 64) (XBin OMul (TS 64) (XVar "i") (XConst 2)) (XConst 2))))].
Definition stU16 (d r : list Z) : state := {| ints := []; slices := [("data", (TU 8, d)); ("ret", (TU 16, r))] |}.

Fixpoint pairsBE (d : list Z) : list Z :=
  match d with
  | h :: l :: t => (h * 2 ^ 8 + (l * 2 ^ 0 + 0)) :: pairsBE t
  | _ => []
  end.

Lemma iterU16 pre h l post done rest :
  List.length pre = (2 * List.length done)%nat -> Z.of_nat (List.length pre) < 2 ^ 61 ->
  let st := stU16 (pre ++ h :: l :: post) (done ++ 0 :: rest) in
  exists st', sexec_list bodyU16 (set_int "i" (TS 64) (Z.of_nat (List.length done)) st) = Some (st', None) /\
    restrict st st' = stU16 (pre ++ h :: l :: post) (done ++ wrap (TU 16) (h * 2 ^ 8 + (l * 2 ^ 0 + 0)) :: rest).
Proof.
  intros Hlen Hb st. subst st.
  assert (Hk : wrap (TS 64) (Z.of_nat (List.length done)) = Z.of_nat (List.length done)) by (apply wrap_s64_small; lia).
  assert (Hk2 : wrap (TS 64) (Z.of_nat (List.length done) * 2) = Z.of_nat (List.length pre)) by (rewrite wrap_s64_small; lia).
  assert (Hk3 : wrap (TS 64) (Z.of_nat (List.length pre) + 2) = Z.of_nat (List.length pre) + 2) by (rewrite wrap_s64_small; lia).
  unfold sexec_list, bodyU16, stU16, set_int. cbn. rewrite ?Hk, !Hk2, Hk3, get_be_16_app. cbn. rewrite ?Hk, upd_idx_app.
  eexists. split; reflexivity.
Qed.

Lemma loopU16 : forall rest pre done, List.length pre = (2 * List.length done)%nat ->
  Z.of_nat (List.length pre + List.length rest) < 2 ^ 61 ->
  loop_idx (iterOf "i" bodyU16) (List.length (pairsBE rest)) (Z.of_nat (List.length done))
    (stU16 (pre ++ rest) (done ++ repeat 0 (List.length (pairsBE rest)))) =
  Some (stU16 (pre ++ rest) (done ++ map (wrap (TU 16)) (pairsBE rest)), None).
Proof.
  intros rest. induction rest as [|h|h l t IH] using pair_ind; intros pre done Hlen Hb; [reflexivity|reflexivity|].
  cbn [pairsBE List.length repeat loop_idx map].
  destruct (iterU16 pre h l t done (repeat 0 (List.length (pairsBE t))) Hlen) as [st' [He Hr]]; [cbn [List.length] in Hb; lia|].
  unfold iterOf at 1. unfold sexec_list in He. rewrite He, Hr.
  replace (pre ++ h :: l :: t) with ((pre ++ [h; l]) ++ t) by (now rewrite <- app_assoc).
  match goal with |- context [done ++ ?a :: repeat 0 ?n] =>
    replace (done ++ a :: repeat 0 n) with ((done ++ [a]) ++ repeat 0 n) by (now rewrite <- app_assoc);
    replace (Z.of_nat (List.length done) + 1) with (Z.of_nat (List.length (done ++ [a]))) by (rewrite app_length; cbn [List.length]; lia)
  end.
  rewrite IH.
  - now rewrite <- (app_assoc done).
  - rewrite !app_length. cbn [List.length]. lia.
  - rewrite !app_length in *. cbn [List.length] in *. lia.
Qed.

Lemma pairsBE_length d : Z.of_nat (List.length (pairsBE d)) = Z.quot (Z.of_nat (List.length d)) 2.
Proof.
  induction d as [|a|a b t IH] using pair_ind; [reflexivity|reflexivity|].
  cbn [pairsBE List.length]. rewrite !Nat2Z.inj_succ, IH. rewrite !Z.quot_div_nonneg by lia.
  replace (Z.succ (Z.succ (Z.of_nat (List.length t)))) with (Z.of_nat (List.length t) + 1 * 2) by lia.
  rewrite Z.div_add by lia. lia.
Qed.

Definition byte_ok (b : N) : Prop := (b < 256)%N.

Lemma pairsBE_model d : Forall byte_ok d -> map (wrap (TU 16)) (pairsBE (map Z.of_N d)) = map Z.of_N (Uint16Array d).
Proof.
  induction d as [|a|a b t IH] using pair_ind; intros Hok; [reflexivity|reflexivity|].
  inversion Hok as [|? ? Ha Hok']; subst. inversion Hok' as [|? ? Hb Hok'']; subst.
  cbn [map pairsBE Uint16Array]. rewrite IH by exact Hok''. f_equal. unfold byte_ok in *.
  unfold be16. rewrite !N.mod_small by assumption. rewrite wrap_u_small by (change (2 ^ 16) with 65536; lia). lia.
Qed.

Theorem go_Uint16Array_is_model d : Forall byte_ok d -> len_ok d ->
  srun go_modbus_Uint16Array [map Z.of_N d] = Some (map Z.of_N (Uint16Array d)).
Proof.
  intros Hok Hlen. unfold len_ok in Hlen.
  change go_modbus_Uint16Array with {| sf_name := "modbus.Uint16Array"; sf_params := [("data", TU 8)]; sf_body :=
    [TMake "ret" (TU 16) (XDiv (TS 64) (XLen "data") (XConst 2)); TRangeI "i" "ret" bodyU16; TReturn "ret"] |}.
  unfold srun, sexec_list. remember bodyU16 as B eqn:HB. cbn.
  assert (Hq : 0 <= Z.quot (Z.of_nat (List.length (map Z.of_N d))) 2 < 2 ^ 61).
  { rewrite map_length. rewrite Z.quot_div_nonneg by lia. split; [apply Z.div_pos; lia|apply Z.div_lt_upper_bound; lia]. }
  rewrite !wrap_s64_small by (rewrite ?wrap_s64_small; lia).
  rewrite <- pairsBE_length in *.
  destruct (Z.ltb_spec (Z.of_nat (List.length (pairsBE (map Z.of_N d)))) 0) as [Hneg|_]; [lia|].
  cbn. rewrite Nat2Z.id, repeat_length.
  pose proof (loopU16 (map Z.of_N d) [] [] eq_refl) as HL.
  cbn [app List.length] in HL. rewrite map_length in HL. unfold iterOf, stU16 in HL. change (Z.of_nat 0) with 0 in HL.
  rewrite <- HB in HL. specialize (HL ltac:(cbn; lia)). cbn in HL.
  match goal with |- context [set_slice "ret" (TU 16) ?z ?s] =>
    change (set_slice "ret" (TU 16) z s) with {| ints := []; slices := [("data", (TU 8, map Z.of_N d)); ("ret", (TU 16, z))] |} end.
  rewrite HL. cbn. f_equal. apply pairsBE_model, Hok.
Qed.

(* ---------- statements about the printed functions alone ----------
   what one printed function returns, fed to the printed function of the other direction, gives the input back:
   the model has dropped out of the statement *)
Lemma u32_to_regs_ok swap us : Forall u32_ok us -> Forall u16_ok (u32_to_regs swap us).
Proof.
  induction 1 as [|u us Hu _ IH]; [constructor|]. unfold u32_to_regs in *. cbn [flat_map]. apply Forall_app. split; [|exact IH].
  rewrite u32_two_regs by exact Hu. unfold u32_ok in Hu. unfold u16_ok.
  destruct swap; repeat constructor.
  all: try (apply N.mod_lt; discriminate).
  all: apply N.div_lt_upper_bound; [discriminate|exact Hu].
Qed.

Definition len_ok2 {A} (l : list A) : Prop := Z.of_nat (List.length l) < 2 ^ 60.

Lemma len_ok_regs swap us : len_ok2 us -> len_ok (u32_to_regs swap us) /\ len_ok us.
Proof. unfold len_ok2, len_ok. rewrite u32_to_regs_length. intros H. split; lia. Qed.

Theorem printed_uint32_inverse us : Forall u32_ok us -> len_ok2 us ->
  (exists rs, srun go_modbus_Uint32ToRegs [map Z.of_N us] = Some rs /\ srun go_modbus_RegsToUint32 [rs] = Some (map Z.of_N us)) /\
  (exists rs, srun go_modbus_Uint32ToRegsSwapRegs [map Z.of_N us] = Some rs /\ srun go_modbus_RegsToUint32SwapWords [rs] = Some (map Z.of_N us)) /\
  (exists rs, srun go_modbus_Float32ToRegs [map Z.of_N us] = Some rs /\ srun go_modbus_RegsToFloat32 [rs] = Some (map Z.of_N us)) /\
  (exists rs, srun go_modbus_Float32ToRegsSwapWords [map Z.of_N us] = Some rs /\ srun go_modbus_RegsToFloat32SwapWords [rs] = Some (map Z.of_N us)).
Proof.
  intros Hok Hlen.
  destruct (len_ok_regs false us Hlen) as [Hl1 Hl0]. destruct (len_ok_regs true us Hlen) as [Hl2 _].
  pose proof (u32_to_regs_ok false us Hok) as Hr1. pose proof (u32_to_regs_ok true us Hok) as Hr2.
  repeat split.
  - exists (map Z.of_N (Uint32ToRegs us)). split; [exact (go_Uint32ToRegs_is_model us Hok Hl0)|].
    unfold Uint32ToRegs. rewrite (go_RegsToUint32_is_model _ Hr1 Hl1). unfold RegsToUint32. now rewrite regs_of_u32.
  - exists (map Z.of_N (Uint32ToRegsSwapRegs us)). split; [exact (go_Uint32ToRegsSwapRegs_is_model us Hok Hl0)|].
    unfold Uint32ToRegsSwapRegs. rewrite (go_RegsToUint32SwapWords_is_model _ Hr2 Hl2). unfold RegsToUint32SwapWords. now rewrite regs_of_u32.
  - exists (map Z.of_N (Float32ToRegs us)). split; [exact (go_Float32ToRegs_is_model us Hok Hl0)|].
    unfold Float32ToRegs. rewrite (go_RegsToFloat32_is_model _ Hr1 Hl1). unfold RegsToFloat32. now rewrite regs_of_u32.
  - exists (map Z.of_N (Float32ToRegsSwapWords us)). split; [exact (go_Float32ToRegsSwapWords_is_model us Hok Hl0)|].
    unfold Float32ToRegsSwapWords. rewrite (go_RegsToFloat32SwapWords_is_model _ Hr2 Hl2). unfold RegsToFloat32SwapWords. now rewrite regs_of_u32.
Qed.

Theorem printed_int32_inverse zs : Forall i32_ok zs -> len_ok2 zs ->
  (exists rs, srun go_modbus_Int32ToRegs [zs] = Some rs /\ srun go_modbus_RegsToInt32 [rs] = Some zs) /\
  (exists rs, srun go_modbus_Int32ToRegsSwapWords [zs] = Some rs /\ srun go_modbus_RegsToInt32SwapWords [rs] = Some zs).
Proof.
  intros Hok Hlen.
  assert (Hu : Forall u32_ok (map of_int32 zs)) by (apply Forall_map, Forall_forall; intros z _; apply of_int32_ok).
  assert (Hlen' : len_ok2 (map of_int32 zs)) by (unfold len_ok2; now rewrite map_length).
  destruct (len_ok_regs false _ Hlen') as [Hl1 _]. destruct (len_ok_regs true _ Hlen') as [Hl2 _].
  assert (Hl0 : len_ok zs) by (unfold len_ok2, len_ok in *; lia).
  split.
  - exists (map Z.of_N (Int32ToRegs zs)). split; [exact (go_Int32ToRegs_is_model zs Hok Hl0)|].
    unfold Int32ToRegs. rewrite (go_RegsToInt32_is_model _ (u32_to_regs_ok false _ Hu) Hl1). f_equal.
    exact (proj1 (int32_inverse false) zs Hok).
  - exists (map Z.of_N (Int32ToRegsSwapWords zs)). split; [exact (go_Int32ToRegsSwapWords_is_model zs Hok Hl0)|].
    unfold Int32ToRegsSwapWords. rewrite (go_RegsToInt32SwapWords_is_model _ (u32_to_regs_ok true _ Hu) Hl2). f_equal.
    exact (proj1 (int32_inverse true) zs Hok).
Qed.

Lemma put_array_bytes vs : Forall byte_ok (PutUint16Array vs).
Proof.
  unfold PutUint16Array. induction vs as [|v vs IH]; [constructor|]. cbn [flat_map app].
  constructor; [|constructor; [|exact IH]]; unfold byte_ok, hi8, lo8; apply N.mod_lt; discriminate.
Qed.

Theorem printed_uint16_array_inverse vs : Forall u16_ok vs -> len_ok2 vs ->
  exists d, srun go_modbus_PutUint16Array [map Z.of_N vs] = Some d /\ srun go_modbus_Uint16Array [d] = Some (map Z.of_N vs).
Proof.
  intros Hok Hlen. exists (map Z.of_N (PutUint16Array vs)).
  assert (Hl0 : len_ok vs) by (unfold len_ok2, len_ok in *; lia).
  split; [exact (go_PutUint16Array_is_model vs Hok Hl0)|].
  assert (Hl1 : len_ok (PutUint16Array vs)).
  { unfold len_ok, len_ok2 in *. unfold PutUint16Array.
    assert (Hn : List.length (flat_map (fun v => [hi8 v; lo8 v]) vs) = (2 * List.length vs)%nat).
    { clear. induction vs as [|v vs IH]; [reflexivity|]. cbn [flat_map app List.length]. rewrite IH. lia. }
    rewrite Hn. lia. }
  rewrite (go_Uint16Array_is_model _ (put_array_bytes vs) Hl1). f_equal. f_equal.
  exact (proj1 uint16_array_inverse vs Hok).
Qed.
