(* modbus.CheckRtuCrc as the translator printed it from modbus/crc.go (Anchors/Generated.v: a syntax tree of
   MiniGo/Slice.v that calls the printed RtuCrc on a re-slice of the packet) computes the model's [check_rtu_crc]
   (Modbus/RtuCrc.v), the frame check that C19_frames_rejected is about -- for every packet of bytes. *)
From Coq Require Import ZArith NArith List Bool Lia String.
From Verif Require Import Base.Bytes Modbus.Regs Modbus.Pdu Modbus.RtuCrc Modbus.ClientProofs MiniGo.Syntax MiniGo.Slice MiniGo.SliceLemmas
  Anchors.Generated Anchors.TieRtuCrc.
Import ListNotations.
Local Open Scope string_scope.
Local Open Scope list_scope.
Local Open Scope Z_scope.

Definition err_of (c : N) : string :=
  if (c =? 0)%N then "" else if (c =? 2)%N then "ErrNotEnoughData" else "ErrCRC".

Lemma shape_CheckRtuCrc : sf_body go_modbus_CheckRtuCrc =
  [TIf (XBin OLt TBool (XLen "packet") (XConst 4)) [TReturnIntErr (XConst 0) "ErrNotEnoughData"] [];
   TDecl "crcCalc" (TU 16) (XCall go_modbus_RtuCrc "packet" (XConst 0) (Some (XBin OSub (TS 64) (XLen "packet") (XConst 2))));
   TDecl "crcPacket" (TU 16) (XGetBE 16 "packet" (XBin OSub (TS 64) (XLen "packet") (XConst 2)) None);
   TIf (XBin ONe TBool (XVar "crcCalc") (XVar "crcPacket")) [TReturnIntErr (XConst 0) "ErrCRC"] [];
   TReturnIntErr (XConst 0) ""].
Proof. reflexivity. Qed.

Arguments wrap : simpl never.
Arguments Z.mul : simpl never.
Arguments Z.add : simpl never.
Arguments Z.sub : simpl never.
Arguments Z.modulo : simpl never.
Arguments Z.pow : simpl never.
Arguments Z.of_nat : simpl never.
Arguments get_be : simpl never.
Arguments run : simpl never.

Lemma wrap_bool z : wrap TBool z = z.
Proof. reflexivity. Qed.

Lemma bytes_ok_forall p : bytes_ok p = true <-> Forall (fun b => b < 256)%N p.
Proof.
  unfold bytes_ok. rewrite forallb_forall, Forall_forall. unfold byte_ok.
  split; intros H x Hx; specialize (H x Hx); [apply N.ltb_lt|apply N.ltb_lt]; exact H.
Qed.

(* a packet that is too short *)
Lemma run_short (P : list Z) : (List.length P < 4)%nat ->
  srun_inplace go_modbus_CheckRtuCrc [P] = Some (0, "ErrNotEnoughData", P).
Proof.
  intros H. unfold srun_inplace, sexec_list. rewrite shape_CheckRtuCrc. cbn.
  assert (Hlt : (Z.of_nat (List.length P) <? 4) = true) by (apply Z.ltb_lt; lia).
  rewrite wrap_bool, Hlt. cbn. reflexivity.
Qed.

(* a packet of at least four bytes: body, then the two bytes of the checksum *)
Lemma run_long (pre : list N) (c1 c0 : N) :
  (2 <= List.length pre)%nat -> Forall (fun b => b < 256)%N pre -> (c1 < 256)%N -> (c0 < 256)%N ->
  Z.of_nat (List.length pre) < 2 ^ 60 ->
  let P := map Z.of_N (pre ++ [c1; c0]) in
  srun_inplace go_modbus_CheckRtuCrc [P] =
  Some (0, (if (rtu_crc pre =? be16 c1 c0)%N then "" else "ErrCRC"), P).
Proof.
  intros Hl Hpre Hc1 Hc0 Hb P.
  assert (HlenP : List.length P = (List.length pre + 2)%nat) by (unfold P; rewrite map_length, app_length; reflexivity).
  unfold srun_inplace, sexec_list. rewrite shape_CheckRtuCrc. cbn.
  assert (Hlt : (Z.of_nat (List.length P) <? 4) = false) by (apply Z.ltb_ge; lia).
  rewrite wrap_bool, Hlt. cbn. unfold restrict. cbn.
  assert (Hw : wrap (TS 64) (Z.of_nat (List.length P) - 2) = Z.of_nat (List.length pre)) by (rewrite wrap_s64_small; lia).
  rewrite Hw.
  assert (Hchk : (0 <=? Z.of_nat (List.length pre)) && (Z.of_nat (List.length pre) <=? Z.of_nat (List.length P)) = true).
  { apply andb_true_intro. split; apply Z.leb_le; lia. }
  rewrite Hchk. replace (Z.of_nat (List.length pre) - 0) with (Z.of_nat (List.length pre)) by lia. rewrite Nat2Z.id.
  change (Z.to_nat 0) with 0%nat.
  assert (Hf : firstn (List.length pre) P = map Z.of_N pre).
  { unfold P. rewrite map_app. rewrite <- (map_length Z.of_N pre). 
    clear. induction (map Z.of_N pre) as [|x l IH]; [reflexivity|]. cbn [List.length app]. unfold firstn; fold (@firstn Z). now rewrite IH. }
  rewrite Hf, (go_RtuCrc_is_model pre Hpre). cbn.
  assert (Hcrc : (rtu_crc pre < 65536)%N) by (apply rtu_crc_lt, bytes_ok_forall, Hpre).
  assert (Hwc : wrap (TU 16) (Z.of_N (rtu_crc pre)) = Z.of_N (rtu_crc pre)) by (apply wrap_u_small; change (2 ^ 16) with 65536; lia).
  assert (Hg : get_be 16 P (Z.of_nat (List.length pre)) (Z.of_nat (List.length P)) = Some (Z.of_N c1 * 2 ^ 8 + (Z.of_N c0 * 2 ^ 0 + 0))).
  { unfold get_be. change (Z.to_nat (16 / 8)) with 2%nat.
    match goal with |- (if ?c then _ else _) = _ => replace c with true end.
    2: { symmetry. rewrite !andb_true_iff, !Z.leb_le. change (Z.of_nat 2) with 2. lia. }
    rewrite Nat2Z.id. unfold P. rewrite map_app, <- (map_length Z.of_N pre).
    assert (Hs : forall (X Y : list Z), skipn (List.length X) (X ++ Y) = Y) by (intros X Y; induction X as [|x X IH]; [reflexivity|exact IH]).
    rewrite Hs. reflexivity. }
  assert (Hbe : Z.of_N c1 * 2 ^ 8 + (Z.of_N c0 * 2 ^ 0 + 0) = Z.of_N (be16 c1 c0)).
  { unfold be16. rewrite !N.mod_small by assumption. change (2 ^ 8) with 256. change (2 ^ 0) with 1. lia. }
  assert (Hbl : (be16 c1 c0 < 65536)%N) by (unfold be16; rewrite !N.mod_small by assumption; lia).
  assert (Hwb : wrap (TU 16) (Z.of_N (be16 c1 c0)) = Z.of_N (be16 c1 c0)) by (apply wrap_u_small; change (2 ^ 16) with 65536; lia).
  assert (He : (Z.of_N (rtu_crc pre) =? Z.of_N (be16 c1 c0)) = (rtu_crc pre =? be16 c1 c0)%N).
  { destruct (N.eqb_spec (rtu_crc pre) (be16 c1 c0)) as [->|Hn]; [apply Z.eqb_refl|]. apply Z.eqb_neq. lia. }
  rewrite Hw, Hg, Hbe. unfold set_int. cbn. rewrite ?Hwc, ?Hwb, ?wrap_bool, He.
  destruct (rtu_crc pre =? be16 c1 c0)%N; cbn; reflexivity.
Qed.

Definition packet_len_ok (p : list N) : Prop := Z.of_nat (List.length p) < 2 ^ 60.

Theorem go_CheckRtuCrc_is_model (p : list N) : Forall (fun b => b < 256)%N p -> packet_len_ok p ->
  srun_inplace go_modbus_CheckRtuCrc [map Z.of_N p] = Some (0, err_of (check_rtu_crc p), map Z.of_N p).
Proof.
  intros Hok Hlen. unfold check_rtu_crc. destruct (Nat.ltb_spec (List.length p) 4) as [Hs|Hl].
  - rewrite run_short by (rewrite map_length; exact Hs). reflexivity.
  - (* the packet is its body followed by two bytes *)
    assert (Hsplit : p = firstn (List.length p - 2) p ++ skipn (List.length p - 2) p) by (symmetry; apply firstn_skipn).
    set (n := (List.length p - 2)%nat) in *.
    assert (Hln : List.length (skipn n p) = 2%nat) by (rewrite skipn_length; unfold n; lia).
    destruct (skipn n p) as [|c1 [|c0 [|x t]]] eqn:Hsk; try (cbn in Hln; lia).
    assert (Hpre : Forall (fun b => b < 256)%N (firstn n p) /\ (c1 < 256)%N /\ (c0 < 256)%N).
    { rewrite Hsplit in Hok. apply Forall_app in Hok. destruct Hok as [H1 H2].
      inversion H2 as [|? ? Hc1 H3]; subst. inversion H3 as [|? ? Hc0 _]; subst. auto. }
    destruct Hpre as [Hp1 [Hc1 Hc0]].
    assert (Hfl : List.length (firstn n p) = n) by (apply firstn_length_le; unfold n; lia).
    pose proof (run_long (firstn n p) c1 c0 ltac:(rewrite Hfl; unfold n; lia) Hp1 Hc1 Hc0) as HR.
    rewrite Hfl in HR. specialize (HR ltac:(unfold packet_len_ok in Hlen; unfold n; lia)). cbv zeta in HR.
    rewrite <- Hsplit in HR. rewrite HR. unfold err_of.
    destruct (rtu_crc (firstn n p) =? be16 c1 c0)%N; reflexivity.
Qed.

(* ---------- a statement about the two printed functions alone ----------
   a packet passes the printed CheckRtuCrc exactly when its last two bytes are, big-endian, what the printed RtuCrc
   returns for the bytes before them *)
Theorem printed_check_iff_printed_crc (body : list N) (c1 c0 : N) :
  (2 <= List.length body)%nat -> Forall (fun b => b < 256)%N body -> (c1 < 256)%N -> (c0 < 256)%N ->
  Z.of_nat (List.length body) < 2 ^ 60 ->
  exists crc e, run go_modbus_RtuCrc [map Z.of_N body] [] = Some crc /\
    srun_inplace go_modbus_CheckRtuCrc [map Z.of_N (body ++ [c1; c0])] = Some (0, e, map Z.of_N (body ++ [c1; c0])) /\
    (e = "" <-> crc = Z.of_N c1 * 256 + Z.of_N c0).
Proof.
  intros Hl Hb Hc1 Hc0 Hlen.
  exists (Z.of_N (rtu_crc body)), (if (rtu_crc body =? be16 c1 c0)%N then "" else "ErrCRC").
  split; [exact (go_RtuCrc_is_model body Hb)|]. split; [exact (run_long body c1 c0 Hl Hb Hc1 Hc0 Hlen)|].
  assert (Hbe : Z.of_N (be16 c1 c0) = Z.of_N c1 * 256 + Z.of_N c0).
  { unfold be16. rewrite !N.mod_small by assumption. lia. }
  destruct (N.eqb_spec (rtu_crc body) (be16 c1 c0)) as [He|Hne].
  - split; [intros _; rewrite He; exact Hbe|reflexivity].
  - split; [discriminate|]. intros Hc. exfalso. apply Hne. apply N2Z.inj. rewrite Hbe. exact Hc.
Qed.
