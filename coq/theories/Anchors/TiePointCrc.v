(* The checksum of a point, as data.Point.CRC is written today, is the checksum of the store model: the
   translator prints the method as a list of steps (Generated.go_data_Point_CRC); their meaning is stated here
   (hash/crc32's Write appends to the input of the IEEE CRC-32, Sum32 is that CRC of everything written;
   PutUint64 fills the eight-byte buffer little-endian), and the theorem is re-checked whenever the text changes. *)
From Coq Require Import ZArith NArith List String Bool.
From Verif Require Import Base.Bytes Store.Model MiniGo.Recipe Anchors.Generated.
Import ListNotations.
Open Scope string_scope.
Open Scope list_scope.

Definition hfield (f : string) (p : point) : option bytes :=
  if String.eqb f "Type" then Some (p_type p)
  else if String.eqb f "Key" then Some (p_key p)
  else if String.eqb f "Text" then Some (p_text p)
  else None.

(* state: has the hash been created, the buffer (if declared), everything written so far *)
Record hstate := { h_new : bool; h_buf : option bytes; h_in : bytes }.

Fixpoint run_steps (ss : list hstep) (p : point) (st : hstate) : option N :=
  match ss with
  | [] => None                                   (* falling off the end: not a function that returns *)
  | s :: ss' =>
      match s with
      | HGuardZero f c =>
          match hfield f p with
          | Some v => if bytes_eqb v c then Some 0%N else run_steps ss' p st
          | None => None
          end
      | HNewIEEE => if h_new st then None else run_steps ss' p {| h_new := true; h_buf := h_buf st; h_in := [] |}
      | HBuf8 => run_steps ss' p {| h_new := h_new st; h_buf := Some (repeat 0%N 8); h_in := h_in st |}
      | HPutTimeNanoLE =>
          match h_buf st with
          | Some _ => run_steps ss' p {| h_new := h_new st; h_buf := Some (le_bytes 8 (u64_of_Z (p_time p))); h_in := h_in st |}
          | None => None
          end
      | HPutValueBitsLE =>
          match h_buf st with
          | Some _ => run_steps ss' p {| h_new := h_new st; h_buf := Some (le_bytes 8 (p_val p)); h_in := h_in st |}
          | None => None
          end
      | HWriteBuf =>
          match h_buf st with
          | Some b => if h_new st then run_steps ss' p {| h_new := true; h_buf := h_buf st; h_in := h_in st ++ b |} else None
          | None => None
          end
      | HWriteStr f =>
          match hfield f p with
          | Some v => if h_new st then run_steps ss' p {| h_new := true; h_buf := h_buf st; h_in := h_in st ++ v |} else None
          | None => None
          end
      | HSum32 => if h_new st then Some (crc32 (h_in st)) else None
      end
  end.

Definition run_recipe (ss : list hstep) (p : point) : option N :=
  run_steps ss p {| h_new := false; h_buf := None; h_in := [] |}.

Theorem go_Point_CRC_is_model : forall p, run_recipe go_data_Point_CRC p = Some (point_crc p).
Proof.
  intro p. unfold run_recipe, go_data_Point_CRC, point_crc.
  cbn [run_steps hfield String.eqb Ascii.eqb Bool.eqb h_new h_buf h_in].
  change (bytes_eqb (p_type p) [110; 111; 100; 101; 84; 121; 112; 101]%N) with (bytes_eqb (p_type p) str_nodeType).
  destruct (bytes_eqb (p_type p) str_nodeType); [reflexivity|].
  cbn [app]. rewrite <- !app_assoc. reflexivity.
Qed.
