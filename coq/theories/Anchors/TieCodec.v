(* Ties between the limits printed from data/decode.go / data/encode.go and the typed-configuration codec model. *)
From Coq Require Import ZArith NArith List Bool.
From Verif Require Import Base.Bytes Anchors.Generated.
From Verif Require Codec.Model.

Theorem tie_max_size : go_data_maxStructureSize = Z.of_nat Codec.Model.max_size.      Proof. reflexivity. Qed.
Theorem tie_max_safe : go_data_maxSafeInteger = Codec.Model.max_safe.                 Proof. reflexivity. Qed.
