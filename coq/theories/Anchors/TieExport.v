(* Ties between constants printed from data/schema.go and the export / import model. *)
From Coq Require Import ZArith NArith List Bool.
From Verif Require Import Base.Bytes Anchors.Generated.
Require Verif.Export.Model.

Theorem tie_description_x : go_data_PointTypeDescription = Verif.Export.Model.str_description. Proof. reflexivity. Qed.
Theorem tie_nodeID : go_data_PointTypeNodeID = Verif.Export.Model.str_nodeID.         Proof. reflexivity. Qed.
