(* client.cobsDecodeInplace as the translator printed it from client/cobs-wrapper.go (Anchors/Generated.v) computes, under
   the evaluator of MiniGo/Slice.v, the decoder of the hand-written model (Cobs/Model.v: [decode_inplace]) -- for every
   non-empty buffer of bytes: the same length, the same error, and the decoded bytes at the start of the buffer.
   Layers: one iteration of the printed loop is [dstep] of Cobs/DecLoop.v (each of its seven paths evaluated with the
   buffer symbolic), the loop is [dloop] (induction over the iterations left, with the invariant that the output index
   does not pass the input index), and [dloop] is the model's decoder (Cobs/DecLoop.v, dloop_is_decode). *)
From Coq Require Import ZArith NArith List Bool Lia String.
From Verif Require Import Base.Bytes Cobs.Model Cobs.DecLoop MiniGo.Syntax MiniGo.Slice MiniGo.SliceLemmas Anchors.Generated.
Import ListNotations.
Local Open Scope string_scope.
Local Open Scope list_scope.
Local Open Scope Z_scope.

Definition err_short : string := "errors.New(""Not enough data for cobs decode"")".

Definition bodyDec : list sstmt :=
  [TDecl "bCur" (TU 8) (XIndex "b" (XVar "iIn"));
   TIf (XNot (XVar "foundStart"))
     [TIf (XBin OEq TBool (XVar "bCur") (XConst 0))
        []
        [TAssign "foundStart" (XConst 1); TAssign "off" (XVar "bCur"); TAssign "iOff" (XConst 0)]]
     [TAssign "iOff" (XBin OAdd (TU 8) (XVar "iOff") (XConst 1));
      TIf (XBin OEq TBool (XVar "iOff") (XVar "off"))
        [TIf (XBin OEq TBool (XVar "bCur") (XConst 0)) [TReturnIntErr (XVar "iOut") ""] [];
         TIf (XBin ONe TBool (XVar "off") (XConst 255))
           [TStore "b" (XVar "iOut") (XConst 0); TAssign "iOut" (XBin OAdd (TS 64) (XVar "iOut") (XConst 1))]
           [];
         TAssign "off" (XVar "bCur");
         TAssign "iOff" (XConst 0)]
        [TIf (XBin OEq TBool (XVar "bCur") (XConst 0)) [TReturnIntErr (XConst 0) "ErrCobsDecodeError"] [];
         TStore "b" (XVar "iOut") (XVar "bCur");
         TAssign "iOut" (XBin OAdd (TS 64) (XVar "iOut") (XConst 1))]]].

Lemma shape_cobsDecodeInplace : go_client_cobsDecodeInplace =
  {| sf_name := "client.cobsDecodeInplace"; sf_params := [("b", TU 8)]; sf_body :=
     [TIf (XOrElse (XIsNil "b") (XBin OLe TBool (XLen "b") (XConst 2))) [TReturnIntErr (XConst 0) err_short] [];
      TDecl "foundStart" TBool (XConst 0); TDecl "iIn" (TS 64) (XConst 0); TDecl "iOut" (TS 64) (XConst 0);
      TDecl "off" (TU 8) (XConst 0); TDecl "iOff" (TU 8) (XConst 0);
      TForLen "iIn" "b" bodyDec;
      TReturnIntErr (XVar "iOut") ""] |}.
Proof. reflexivity. Qed.

Definition stD (s : dst) (iin : Z) : state :=
  {| ints := [("foundStart", (TBool, b2z (d_fs s))); ("iIn", (TS 64, iin)); ("iOut", (TS 64, Z.of_nat (d_o s)));
              ("off", (TU 8, d_off s)); ("iOff", (TU 8, d_ioff s))];
     slices := [("b", (TU 8, d_B s))] |}.

Definition byteZ (v : Z) : Prop := 0 <= v < 256.
Definition dinv (s : dst) (k : nat) : Prop :=
  (d_o s <= k)%nat /\ Forall byteZ (d_B s) /\ byteZ (d_off s) /\ byteZ (d_ioff s).

Lemma get_idx_nat l n : (n < List.length l)%nat -> get_idx l (Z.of_nat n) = Some (nth n l 0).
Proof. intros H. unfold get_idx. rewrite range_check by lia. rewrite Nat2Z.id. now apply nth_error_nth'. Qed.
Lemma upd_idx_nat l n v : (n < List.length l)%nat -> upd_idx l (Z.of_nat n) v = Some (upd_nat l n v).
Proof. intros H. unfold upd_idx. rewrite range_check by lia. now rewrite Nat2Z.id. Qed.
Lemma upd_nat_length l : forall n v, List.length (upd_nat l n v) = List.length l.
Proof. induction l as [|x l IH]; intros [|n] v; cbn [upd_nat List.length]; try reflexivity. now rewrite IH. Qed.
Lemma upd_nat_bytes l : forall n v, Forall byteZ l -> byteZ v -> Forall byteZ (upd_nat l n v).
Proof.
  induction l as [|x l IH]; intros [|n] v Hl Hv; cbn [upd_nat]; try constructor; inversion Hl; subst; try assumption.
  now apply IH.
Qed.
Lemma nth_byte l n : Forall byteZ l -> byteZ (nth n l 0).
Proof.
  intros H. destruct (Nat.lt_ge_cases n (List.length l)) as [Hlt|Hge].
  - exact (proj1 (Forall_forall _ _) H _ (nth_In _ _ Hlt)).
  - rewrite nth_overflow by exact Hge. unfold byteZ. lia.
Qed.

Lemma wrap_bool z : wrap TBool z = z.
Proof. reflexivity. Qed.

Arguments get_idx : simpl never.
Arguments upd_idx : simpl never.
Arguments wrap : simpl never.
Arguments Z.mul : simpl never.
Arguments Z.add : simpl never.
Arguments Z.modulo : simpl never.
Arguments Z.pow : simpl never.
Arguments Z.of_nat : simpl never.
Arguments upd_nat : simpl never.
Arguments nth : simpl never.

Ltac ev8 H1 H2 H3 H4 H5 H6 H7 H8 :=
  repeat (progress (cbn; unfold restrict; rewrite ?wrap_bool, ?H1, ?H2, ?H3, ?H4, ?H5, ?H6, ?H7, ?H8)).

Lemma iterDec s iin k : (k < List.length (d_B s))%nat -> dinv s k -> Z.of_nat (List.length (d_B s)) < 2 ^ 60 ->
  match dstep s k with
  | DCont s' => exists st', sexec_list bodyDec (set_int "iIn" (TS 64) (Z.of_nat k) (stD s iin)) = Some (st', None) /\
                            restrict (stD s iin) st' = stD s' (Z.of_nat k)
  | DRet n e B' => exists st', sexec_list bodyDec (set_int "iIn" (TS 64) (Z.of_nat k) (stD s iin)) = Some (st', Some (RIntErr n e)) /\
                               slice_of st' "b" = Some B'
  end.
Proof.
  intros Hk [Ho [HB [Hoff Hioff]]] Hlen. destruct s as [fs o off ioff B]. cbn [d_fs d_o d_off d_ioff d_B] in *.
  pose proof (nth_byte B k HB) as Hbc. set (bcur := nth k B 0) in *. unfold byteZ in *.
  assert (Hwk : wrap (TS 64) (Z.of_nat k) = Z.of_nat k) by (apply wrap_s64_small; lia).
  assert (Hwb : wrap (TU 8) bcur = bcur) by (apply wrap_u_small; change (2 ^ 8) with 256; lia).
  assert (Hg : get_idx B (Z.of_nat k) = Some bcur) by (apply get_idx_nat; exact Hk).
  assert (Hw0 : wrap (TU 8) 0 = 0) by reflexivity.
  assert (Hwi : wrap (TU 8) (wrap (TU 8) (ioff + 1)) = (ioff + 1) mod 2 ^ 8).
  { unfold wrap. now rewrite Z.mod_mod by (change (2 ^ 8) with 256; lia). }
  assert (Hwo : wrap (TS 64) (wrap (TS 64) (Z.of_nat o + 1)) = Z.of_nat (S o)) by (rewrite (wrap_s64_small (Z.of_nat o + 1)) by lia; rewrite wrap_s64_small by lia; lia).
  assert (Hu : forall v, upd_idx B (Z.of_nat o) v = Some (upd_nat B o v)) by (intros v; apply upd_idx_nat; lia).
  unfold dstep, sexec_list, bodyDec, stD, set_int. cbn [d_fs d_o d_off d_ioff d_B]. fold bcur.
  destruct fs; cbn [negb b2z].
  - (* after the start byte *)
    destruct (Z.eqb_spec ((ioff + 1) mod 2 ^ 8) off) as [He|Hne].
    + assert (Hce : ((ioff + 1) mod 2 ^ 8 =? off) = true) by (apply Z.eqb_eq; exact He).
      destruct (Z.eqb_spec bcur 0) as [Hz|Hnz].
      * assert (Hcz : (bcur =? 0) = true) by (apply Z.eqb_eq; exact Hz).
        ev8 Hwk Hwb Hg Hw0 Hwi Hce Hcz Hwo. eexists. split; reflexivity.
      * assert (Hcz : (bcur =? 0) = false) by (apply Z.eqb_neq; exact Hnz).
        destruct (Z.eqb_spec off 255) as [Hf|Hnf].
        -- assert (Hcf : (off =? 255) = true) by (apply Z.eqb_eq; exact Hf).
           ev8 Hwk Hwb Hg Hw0 Hwi Hce Hcz Hcf. eexists. split; reflexivity.
        -- assert (Hcf : (off =? 255) = false) by (apply Z.eqb_neq; exact Hnf).
           ev8 Hwk Hwb Hg Hw0 Hwi Hce Hcz Hcf. rewrite Hu. ev8 Hwk Hwb Hg Hw0 Hwi Hce Hcz Hwo.
           eexists. split; reflexivity.
    + assert (Hce : ((ioff + 1) mod 2 ^ 8 =? off) = false) by (apply Z.eqb_neq; exact Hne).
      destruct (Z.eqb_spec bcur 0) as [Hz|Hnz].
      * assert (Hcz : (bcur =? 0) = true) by (apply Z.eqb_eq; exact Hz).
        ev8 Hwk Hwb Hg Hw0 Hwi Hce Hcz Hwo. eexists. split; reflexivity.
      * assert (Hcz : (bcur =? 0) = false) by (apply Z.eqb_neq; exact Hnz).
        ev8 Hwk Hwb Hg Hw0 Hwi Hce Hcz Hwo. rewrite Hu. ev8 Hwk Hwb Hg Hw0 Hwi Hce Hcz Hwo.
        eexists. split; reflexivity.
  - (* before the start byte *)
    destruct (Z.eqb_spec bcur 0) as [Hz|Hnz].
    + assert (Hcz : (bcur =? 0) = true) by (apply Z.eqb_eq; exact Hz).
      ev8 Hwk Hwb Hg Hw0 Hwi Hcz Hcz Hwo. eexists. split; reflexivity.
    + assert (Hcz : (bcur =? 0) = false) by (apply Z.eqb_neq; exact Hnz).
      ev8 Hwk Hwb Hg Hw0 Hwi Hcz Hcz Hwo. eexists. split; reflexivity.
Qed.

Lemma dstep_inv s k s' : (k < List.length (d_B s))%nat -> dinv s k -> dstep s k = DCont s' ->
  dinv s' (S k) /\ List.length (d_B s') = List.length (d_B s).
Proof.
  intros Hk [Ho [HB [Hoff Hioff]]] Hs. destruct s as [fs o off ioff B]. cbn [d_fs d_o d_off d_ioff d_B] in *.
  pose proof (nth_byte B k HB) as Hbc. unfold dstep in Hs. cbn [d_fs d_o d_off d_ioff d_B] in Hs.
  assert (Hm : byteZ ((ioff + 1) mod 2 ^ 8)) by (unfold byteZ; change (2 ^ 8) with 256; apply Z.mod_pos_bound; lia).
  assert (H0 : byteZ 0) by (unfold byteZ; lia).
  assert (Hfin : forall fs' o' off' ioff' B', (o' <= S k)%nat -> Forall byteZ B' -> byteZ off' -> byteZ ioff' ->
            List.length B' = List.length B ->
            dinv {| d_fs := fs'; d_o := o'; d_off := off'; d_ioff := ioff'; d_B := B' |} (S k) /\
            List.length (d_B {| d_fs := fs'; d_o := o'; d_off := off'; d_ioff := ioff'; d_B := B' |}) = List.length B).
  { intros fs' o' off' ioff' B' H1 H2 H3 H4 H5. unfold dinv. cbn [d_o d_B d_off d_ioff].
    split; [split; [exact H1|split; [exact H2|split; [exact H3|exact H4]]]|exact H5]. }
  destruct fs; cbn [negb] in Hs.
  - destruct ((ioff + 1) mod 2 ^ 8 =? off).
    + destruct (nth k B 0 =? 0); [discriminate|]. destruct (negb (off =? 255)); inversion Hs; subst; apply Hfin;
        try assumption; try lia; try (now apply upd_nat_bytes); try apply upd_nat_length; reflexivity.
    + destruct (nth k B 0 =? 0); [discriminate|]. inversion Hs; subst; apply Hfin;
        try assumption; try lia; try (now apply upd_nat_bytes); try apply upd_nat_length.
  - destruct (nth k B 0 =? 0); inversion Hs; subst; apply Hfin; try assumption; try lia; reflexivity.
Qed.

Fixpoint dloopR (n : nat) (k : nat) (s : dst) : dres :=
  match n with
  | O => DCont s
  | S n' => match dstep s k with DCont s' => dloopR n' (S k) s' | r => r end
  end.
Lemma dloop_R : forall n k s, dloop n k s = match dloopR n k s with DCont s' => (Z.of_nat (d_o s'), "", d_B s') | DRet r e B => (r, e, B) end.
Proof. induction n as [|n IH]; intros k s; [reflexivity|]. cbn [dloop dloopR]. destruct (dstep s k); [apply IH|reflexivity]. Qed.

Definition iterD : Z -> state -> sres := fun k st' => sexec_seq sexec bodyDec (set_int "iIn" (TS 64) k st').

Lemma loopDec : forall n k s iin, (k + n = List.length (d_B s))%nat -> dinv s k -> Z.of_nat (List.length (d_B s)) < 2 ^ 60 ->
  match dloopR n k s with
  | DCont s' => exists i', loop_idx iterD n (Z.of_nat k) (stD s iin) = Some (stD s' i', None) /\ List.length (d_B s') = List.length (d_B s)
  | DRet r e B' => exists st', loop_idx iterD n (Z.of_nat k) (stD s iin) = Some (st', Some (RIntErr r e)) /\ slice_of st' "b" = Some B'
  end.
Proof.
  induction n as [|n IH]; intros k s iin Hkn Hinv Hlen.
  - cbn [dloopR loop_idx]. exists iin. split; reflexivity.
  - cbn [dloopR loop_idx]. assert (Hk : (k < List.length (d_B s))%nat) by lia.
    pose proof (iterDec s iin k Hk Hinv Hlen) as HI. unfold sexec_list in HI.
    change (sexec_seq sexec bodyDec (set_int "iIn" (TS 64) (Z.of_nat k) (stD s iin))) with (iterD (Z.of_nat k) (stD s iin)) in HI.
    destruct (dstep s k) as [s'|r e B'] eqn:Hs.
    + destruct HI as [st' [He Hr]]. rewrite He, Hr.
      destruct (dstep_inv s k s' Hk Hinv Hs) as [Hinv' Hl'].
      replace (Z.of_nat k + 1) with (Z.of_nat (S k)) by lia.
      specialize (IH (S k) s' (Z.of_nat k) ltac:(lia) Hinv' ltac:(rewrite Hl'; exact Hlen)).
      destruct (dloopR n (S k) s') as [s2|r e B'].
      * destruct IH as [i' [HL Hl2]]. exists i'. split; [exact HL|]. now rewrite Hl2.
      * exact IH.
    + destruct HI as [st' [He Hb]]. rewrite He. exists st'. split; [reflexivity|exact Hb].
Qed.

(* the whole function on a buffer of more than two bytes *)
Lemma run_decode B : (2 < List.length B)%nat -> Forall byteZ B -> Z.of_nat (List.length B) < 2 ^ 60 ->
  srun_inplace go_client_cobsDecodeInplace [B] =
  Some (dloop (List.length B) 0 {| d_fs := false; d_o := 0; d_off := 0; d_ioff := 0; d_B := B |}).
Proof.
  intros H2 HB Hlen. rewrite shape_cobsDecodeInplace. unfold srun_inplace, sexec_list. remember bodyDec as BD eqn:HBD.
  cbn. destruct B as [|b0 B'] eqn:HeqB; [cbn in H2; lia|]. cbv iota beta. rewrite <- HeqB in *. clear HeqB b0 B'.
  assert (Hle : (Z.of_nat (List.length B) <=? 2) = false) by (apply Z.leb_gt; lia).
  cbn. rewrite wrap_bool, Hle. cbn. unfold restrict. cbn.
  set (s0 := {| d_fs := false; d_o := 0; d_off := 0; d_ioff := 0; d_B := B |}).
  pose proof (loopDec (List.length B) 0 s0 0 eq_refl) as HL.
  assert (Hinv0 : dinv s0 0) by (unfold dinv, s0, byteZ; cbn; repeat split; try lia; exact HB).
  specialize (HL Hinv0 Hlen). rewrite dloop_R. unfold iterD in HL. rewrite <- HBD in HL.
  change (Z.of_nat 0) with 0 in HL.
  change (set_int "iOff" (TU 8) 0 (set_int "off" (TU 8) 0 (set_int "iOut" (TS 64) 0 (set_int "iIn" (TS 64) 0
            (set_int "foundStart" TBool 0 {| ints := []; slices := [("b", (TU 8, B))] |}))))) with (stD s0 0).
  cbn [d_B s0] in HL.
  destruct (dloopR (List.length B) 0 s0) as [s'|r e Bf].
  - destruct HL as [i' [HL Hl]]. rewrite HL. cbn. reflexivity.
  - destruct HL as [st' [HL Hb]]. rewrite HL. cbn. rewrite Hb. reflexivity.
Qed.

(* a buffer of one or two bytes is refused before the loop *)
Lemma run_short B : (0 < List.length B <= 2)%nat -> srun_inplace go_client_cobsDecodeInplace [B] = Some (0, err_short, B).
Proof.
  intros H. rewrite shape_cobsDecodeInplace. unfold srun_inplace, sexec_list. remember bodyDec as BD eqn:HBD.
  cbn. destruct B as [|b0 B'] eqn:HeqB; [cbn in H; lia|]. cbv iota beta. rewrite <- HeqB in *. clear HeqB b0 B'.
  assert (Hle : (Z.of_nat (List.length B) <=? 2) = true) by (apply Z.leb_le; lia).
  cbn. rewrite wrap_bool, Hle. cbn. reflexivity.
Qed.

Definition buf_len_ok (b : list N) : Prop := Z.of_nat (List.length b) < 2 ^ 60.

(* what the model's result says about what Go returns: (n, err) and the buffer afterwards *)
Definition agrees (m : rres) (r : Z * string * list Z) : Prop :=
  let '(n, e, B) := r in
  match m with
  | RFrame p => e = "" /\ n = Z.of_nat (List.length p) /\ firstn (List.length p) B = map Z.of_N p
  | RErr c => n = 0 /\ e = (if (c =? 3)%N then err_short else "ErrCobsDecodeError")
  end.

Theorem go_cobsDecodeInplace_is_model (b : list N) : b <> [] -> Forall (fun x => (x < 256)%N) b -> buf_len_ok b ->
  exists r, srun_inplace go_client_cobsDecodeInplace [map Z.of_N b] = Some r /\ agrees (decode_inplace b) r.
Proof.
  intros Hne Hok Hlen. unfold decode_inplace.
  assert (Hl : List.length (map Z.of_N b) = List.length b) by apply map_length.
  destruct (Nat.leb_spec (List.length b) 2) as [Hs|Hg].
  - exists (0, err_short, map Z.of_N b). split.
    + apply run_short. rewrite Hl. destruct b; [contradiction|cbn [List.length] in *; lia].
    + cbn. split; reflexivity.
  - rewrite run_decode.
    + eexists. split; [reflexivity|]. rewrite Hl. pose proof (dloop_is_decode b Hok) as HD. unfold zN in HD.
      destruct (dloop (List.length b) 0 _) as [[n e] B']. unfold ok_result in HD. unfold agrees.
      destruct (decode b) as [p|].
      * exact HD.
      * destruct HD as [He Hn]. cbn. split; [exact Hn|exact He].
    + rewrite Hl. exact Hg.
    + apply Forall_map. eapply Forall_impl; [|exact Hok]. unfold byteZ. intros x Hx. cbv beta. lia.
    + rewrite Hl. exact Hlen.
Qed.
