(* Ties between constants the translator printed from data/schema.go and store/sqlite.go (Anchors/Generated.v)
   and the store model. *)
From Coq Require Import ZArith NArith List Bool.
From Verif Require Import Base.Bytes Anchors.Generated.
From Verif Require Store.Model Store.Init.
Import ListNotations.
Local Open Scope N_scope.

Theorem tie_tombstone : go_data_PointTypeTombstone = Store.Model.str_tombstone.       Proof. reflexivity. Qed.
Theorem tie_nodeType : go_data_PointTypeNodeType = Store.Model.str_nodeType.          Proof. reflexivity. Qed.
Theorem tie_device : go_data_NodeTypeDevice = Store.Init.str_device.                  Proof. reflexivity. Qed.
Theorem tie_user : go_data_NodeTypeUser = Store.Init.str_user.                        Proof. reflexivity. Qed.
(* ---------- the journal the crash model assumes ----------
   Store/Crash.v treats a transaction as atomic and durable once acknowledged; with modernc SQLite that is the
   write-ahead log with synchronous=NORMAL or stronger.  The pragmas handed to sql.Open must say so. *)
Fixpoint is_prefix (p s : bytes) : bool :=
  match p, s with
  | [], _ => true
  | a :: p', b :: s' => N.eqb a b && is_prefix p' s'
  | _ :: _, [] => false
  end.
Fixpoint contains (p s : bytes) : bool :=
  is_prefix p s || match s with [] => false | _ :: s' => contains p s' end.

(* "journal_mode(WAL)" and "synchronous(NORMAL)" *)
Definition journal_wal : bytes := [106;111;117;114;110;97;108;95;109;111;100;101;40;87;65;76;41].
Definition sync_normal : bytes := [115;121;110;99;104;114;111;110;111;117;115;40;78;79;82;77;65;76;41].
Definition sync_full : bytes := [115;121;110;99;104;114;111;110;111;117;115;40;70;85;76;76;41].

Theorem tie_journal :
  contains journal_wal go_store_NewSqliteDb_pragmas = true /\
  (contains sync_normal go_store_NewSqliteDb_pragmas || contains sync_full go_store_NewSqliteDb_pragmas) = true.
Proof. split; vm_compute; reflexivity. Qed.
