(* MiniGo with slices that are written: the second fragment of Go that the translator (harness/cmd/anchors,
   emitSliceFunc) prints as Coq data, and its evaluator.  On top of MiniGo/Syntax.v's integer expressions:
   slices of fixed-width integers (float32 elements are carried as their 32-bit patterns) that are made,
   indexed, stored into, appended to and ranged over by index, assignments to integer variables, if / else,
   short-circuit || and &&, the encoding/binary big-endian accessors applied to a re-sliced buffer, and a
   slice result.  Every identifier is declared at most once in a printed function
   (the translator refuses anything else), so Go's block scoping is: what an iteration declares is gone at
   its end -- [restrict] below.  A Go panic (index out of range, short buffer, division by zero) is [None]. *)
From Coq Require Import ZArith List String Bool.
From Verif Require Import MiniGo.Syntax.
Import ListNotations.
Open Scope Z_scope.

Inductive sexpr :=
| XVar (x : string)
| XConst (z : Z)
| XBin (op : binop) (t : ty) (a b : sexpr)      (* t: the static type of the result *)
| XDiv (t : ty) (a b : sexpr)                    (* a / b on integers: truncated, panics on zero *)
| XConv (t : ty) (e : sexpr)
| XBits (e : sexpr)                              (* math.Float32bits / math.Float32frombits: the pattern itself *)
| XLen (s : string)
| XIndex (s : string) (i : sexpr)
| XGetBE (w : Z) (s : string) (lo : sexpr) (hi : option sexpr)    (* binary.BigEndian.Uint<w>(s[lo:hi]) *)
| XOrElse (a b : sexpr)                          (* a || b: b is not evaluated when a holds *)
| XAndAlso (a b : sexpr)                         (* a && b: b is not evaluated when a fails *)
| XNot (a : sexpr)                               (* !a *)
| XIsNil (s : string)                            (* s == nil: false for a slice of positive length; for an empty one the
                                                    evaluator does not say (nil and empty are not told apart) *)
| XCall (f : func) (s : string) (lo : sexpr) (hi : option sexpr).   (* f(s[lo:hi]) for a function f of the first fragment
                                                    (MiniGo/Syntax.v) that takes one byte slice and returns an integer *)

Inductive sstmt :=
| TDecl (x : string) (t : ty) (e : sexpr)                 (* x := e *)
| TMake (s : string) (t : ty) (n : sexpr)                 (* s := make([]T, n) *)
| TStore (s : string) (i : sexpr) (e : sexpr)             (* s[i] = e *)
| TPutBE (w : Z) (s : string) (lo : sexpr) (e : sexpr)    (* binary.BigEndian.PutUint<w>(s[lo:], e) *)
| TRangeI (i : string) (s : string) (body : list sstmt)   (* for i := range s *)
| TRangeIV (i v : string) (t : ty) (s : string) (body : list sstmt)   (* for i, v := range s *)
| TReturn (s : string)                                    (* return s *)
| TAssign (x : string) (e : sexpr)                        (* x = e, x an integer variable *)
| TAppend (s : string) (e : sexpr)                        (* s = append(s, e): capacities are not modelled (no two slices of a
                                                             printed function share an array: there is no slice-valued assignment) *)
| TIf (c : sexpr) (a b : list sstmt)                      (* if c { a } else { b } *)
| TReturnApp (s : string) (e : sexpr)                     (* return append(s, e) *)
| TForLen (i : string) (s : string) (body : list sstmt)   (* for i = 0; i < len(s); i++ { body }: i declared before the loop, not
                                                             assigned in the body, s not appended to in the body *)
| TReturnIntErr (e : sexpr) (err : string).               (* return e, <err>: err is "" for nil, else the text of the error expression *)

Record sfunc := { sf_name : string; sf_params : list (string * ty); sf_body : list sstmt }.

Record state := { ints : env; slices : list (string * (ty * list Z)) }.

(* ---------- the operations on lists that the statements use ---------- *)
Definition get_idx (l : list Z) (i : Z) : option Z :=
  if (0 <=? i) && (i <? Z.of_nat (List.length l)) then nth_error l (Z.to_nat i) else None.

Fixpoint upd_nat (l : list Z) (n : nat) (v : Z) : list Z :=
  match l, n with
  | [], _ => []
  | _ :: t, O => v :: t
  | x :: t, S n' => x :: upd_nat t n' v
  end.
Definition upd_idx (l : list Z) (i v : Z) : option (list Z) :=
  if (0 <=? i) && (i <? Z.of_nat (List.length l)) then Some (upd_nat l (Z.to_nat i) v) else None.

(* big-endian bytes of the low 8*n bits of v, most significant first *)
Fixpoint be_bytes (n : nat) (v : Z) : list Z :=
  match n with
  | O => []
  | S n' => (Z.shiftr v (8 * Z.of_nat n')) mod 256 :: be_bytes n' v
  end.
Fixpoint be_value (l : list Z) : Z :=
  match l with
  | [] => 0
  | b :: t => b * 2 ^ (8 * Z.of_nat (List.length t)) + be_value t
  end.

(* PutUint<w>(l[lo:], v): lo <= len(l) or the re-slice panics, at least w/8 bytes from lo or the accessor panics *)
Definition put_be (w : Z) (l : list Z) (lo v : Z) : option (list Z) :=
  let n := Z.to_nat (w / 8) in
  if (0 <=? lo) && (lo + Z.of_nat n <=? Z.of_nat (List.length l)) then
    Some (firstn (Z.to_nat lo) l ++ be_bytes n v ++ skipn (Z.to_nat lo + n) l)
  else None.
(* Uint<w>(l[lo:hi]): 0 <= lo <= hi <= len(l) (a bound up to the capacity is not granted here), hi - lo >= w/8 *)
Definition get_be (w : Z) (l : list Z) (lo hi : Z) : option Z :=
  let n := Z.to_nat (w / 8) in
  if (0 <=? lo) && (lo <=? hi) && (hi <=? Z.of_nat (List.length l)) && (lo + Z.of_nat n <=? hi) then
    Some (be_value (firstn n (skipn (Z.to_nat lo) l)))
  else None.

Definition slice_of (st : state) (s : string) : option (list Z) := option_map snd (lookup s (slices st)).

Fixpoint seval (st : state) (x : sexpr) : option Z :=
  match x with
  | XVar v => option_map snd (lookup v (ints st))
  | XConst z => Some z
  | XBin op t a b =>
      match seval st a, seval st b with
      | Some va, Some vb => Some (wrap t (binop_sem op va vb))
      | _, _ => None
      end
  | XDiv t a b =>
      match seval st a, seval st b with
      | Some va, Some vb => if vb =? 0 then None else Some (wrap t (Z.quot va vb))
      | _, _ => None
      end
  | XConv t a => option_map (wrap t) (seval st a)
  | XBits a => seval st a
  | XLen s => option_map (fun l => Z.of_nat (List.length l)) (slice_of st s)
  | XIndex s i =>
      match slice_of st s, seval st i with
      | Some l, Some vi => get_idx l vi
      | _, _ => None
      end
  | XGetBE w s lo hi =>
      match slice_of st s, seval st lo with
      | Some l, Some vlo =>
          match hi with
          | None => get_be w l vlo (Z.of_nat (List.length l))
          | Some h => match seval st h with Some vhi => get_be w l vlo vhi | None => None end
          end
      | _, _ => None
      end
  | XOrElse a b =>
      match seval st a with
      | Some va => if va =? 0 then seval st b else Some 1
      | None => None
      end
  | XAndAlso a b =>
      match seval st a with
      | Some va => if va =? 0 then Some 0 else seval st b
      | None => None
      end
  | XNot a => option_map (fun v => b2z (v =? 0)) (seval st a)
  | XIsNil s =>
      match slice_of st s with
      | Some (_ :: _) => Some 0
      | _ => None
      end
  | XCall f s lo hi =>
      match slice_of st s, seval st lo with
      | Some l, Some vlo =>
          let vhi := match hi with
                     | None => Some (Z.of_nat (List.length l))
                     | Some h => seval st h
                     end in
          match vhi with
          | Some vh =>
              if (0 <=? vlo) && (vlo <=? vh) && (vh <=? Z.of_nat (List.length l))
              then run f [firstn (Z.to_nat (vh - vlo)) (skipn (Z.to_nat vlo) l)] []
              else None
          | None => None
          end
      | _, _ => None
      end
  end.

Definition set_int (x : string) (t : ty) (v : Z) (st : state) : state :=
  {| ints := set x (t, wrap t v) (ints st); slices := slices st |}.
Definition set_slice (s : string) (t : ty) (l : list Z) (st : state) : state :=
  {| ints := ints st; slices := set s (t, l) (slices st) |}.
(* the end of a block: what it declared is gone, what it changed in the enclosing scope stays *)
Definition restrict (outer st : state) : state :=
  {| ints := firstn (List.length (ints outer)) (ints st); slices := firstn (List.length (slices outer)) (slices st) |}.

(* what a function returns: a slice, or an integer and an error (named by the text of its expression, "" for nil) *)
Inductive rval := RSlice (l : list Z) | RIntErr (n : Z) (err : string).

(* result of a statement: the new state and, after a return, the value *)
Definition sres := option (state * option rval).

Section SSeq.
  Variable exec1 : sstmt -> state -> sres.
  Fixpoint sexec_seq (l : list sstmt) (st : state) {struct l} : sres :=
    match l with
    | [] => Some (st, None)
    | s' :: l' =>
        match exec1 s' st with
        | Some (st', None) => sexec_seq l' st'
        | r => r
        end
    end.
End SSeq.

(* k iterations of [iter] with the index running from [from]; an iteration's own declarations are dropped *)
Section SLoop.
  Variable iter : Z -> state -> sres.
  Fixpoint loop_idx (k : nat) (from : Z) (st : state) {struct k} : sres :=
    match k with
    | O => Some (st, None)
    | S k' =>
        match iter from st with
        | Some (st', None) => loop_idx k' (from + 1) (restrict st st')
        | r => r
        end
    end.
End SLoop.

Fixpoint sexec (s : sstmt) (st : state) {struct s} : sres :=
  match s with
  | TDecl x t e =>
      match seval st e with
      | Some v => Some (set_int x t v st, None)
      | None => None
      end
  | TMake s t n =>
      match seval st n with
      | Some vn => if vn <? 0 then None else Some (set_slice s t (repeat 0 (Z.to_nat vn)) st, None)
      | None => None
      end
  | TStore s i e =>
      match lookup s (slices st), seval st i, seval st e with
      | Some (t, l), Some vi, Some v =>
          match upd_idx l vi (wrap t v) with
          | Some l' => Some (set_slice s t l' st, None)
          | None => None
          end
      | _, _, _ => None
      end
  | TPutBE w s lo e =>
      match lookup s (slices st), seval st lo, seval st e with
      | Some (t, l), Some vlo, Some v =>
          match put_be w l vlo v with
          | Some l' => Some (set_slice s t l' st, None)
          | None => None
          end
      | _, _, _ => None
      end
  | TRangeI i s body =>
      match slice_of st s with
      | Some l => loop_idx (fun k st' => sexec_seq sexec body (set_int i (TS 64) k st')) (List.length l) 0 st
      | None => None
      end
  | TRangeIV i v t s body =>
      match slice_of st s with
      | Some l =>
          loop_idx (fun k st' =>
                      match get_idx l k with          (* the range expression is evaluated once *)
                      | Some x => sexec_seq sexec body (set_int v t x (set_int i (TS 64) k st'))
                      | None => None
                      end) (List.length l) 0 st
      | None => None
      end
  | TReturn s =>
      match slice_of st s with
      | Some l => Some (st, Some (RSlice l))
      | None => None
      end
  | TAssign x e =>
      match lookup x (ints st), seval st e with
      | Some (t, _), Some v => Some (set_int x t v st, None)
      | _, _ => None
      end
  | TAppend s e =>
      match lookup s (slices st), seval st e with
      | Some (t, l), Some v => Some (set_slice s t (l ++ [wrap t v]) st, None)
      | _, _ => None
      end
  | TIf c a b =>
      match seval st c with
      | Some v =>
          match sexec_seq sexec (if v =? 0 then b else a) st with
          | Some (st', r) => Some (restrict st st', r)       (* what the branch declared is gone *)
          | None => None
          end
      | None => None
      end
  | TReturnApp s e =>
      match lookup s (slices st), seval st e with
      | Some (t, l), Some v => Some (st, Some (RSlice (l ++ [wrap t v])))
      | _, _ => None
      end
  | TForLen i s body =>
      match slice_of st s, lookup i (ints st) with
      | Some l, Some (t, _) =>
          match loop_idx (fun k st' => sexec_seq sexec body (set_int i t k st')) (List.length l) 0 st with
          | Some (st', None) => Some (set_int i t (Z.of_nat (List.length l)) st', None)
          | r => r
          end
      | _, _ => None
      end
  | TReturnIntErr e err =>
      match seval st e with
      | Some v => Some (st, Some (RIntErr v err))
      | None => None
      end
  end.

Definition sexec_list : list sstmt -> state -> sres := sexec_seq sexec.

(* a call: the slice arguments in the order of the parameter list *)
Definition srun (f : sfunc) (args : list (list Z)) : option (list Z) :=
  let st := {| ints := []; slices := map (fun p => (fst (fst p), (snd (fst p), snd p))) (combine (sf_params f) args) |} in
  match sexec_list (sf_body f) st with
  | Some (_, Some (RSlice l)) => Some l
  | _ => None
  end.

(* a call of a function that returns (int, error) and works on its first slice argument in place:
   the integer, the error, and what that slice holds afterwards *)
Definition srun_inplace (f : sfunc) (args : list (list Z)) : option (Z * string * list Z) :=
  let st := {| ints := []; slices := map (fun p => (fst (fst p), (snd (fst p), snd p))) (combine (sf_params f) args) |} in
  match sexec_list (sf_body f) st, sf_params f with
  | Some (st', Some (RIntErr n err)), (b, _) :: _ =>
      match slice_of st' b with
      | Some l => Some (n, err, l)
      | None => None
      end
  | _, _ => None
  end.
