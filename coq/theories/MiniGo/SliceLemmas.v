(* Facts about the list operations and the index loop of MiniGo/Slice.v that the tie proofs share. *)
From Coq Require Import ZArith List String Bool Lia.
From Verif Require Import MiniGo.Syntax MiniGo.Slice.
Import ListNotations.
Open Scope Z_scope.

Lemma wrap_s64_small z : - 2 ^ 63 <= z < 2 ^ 63 -> wrap (TS 64) z = z.
Proof.
  intros H. cbn [wrap]. change (64 - 1) with 63. rewrite Z.mod_small; [lia|].
  change (2 ^ 64) with (2 * 2 ^ 63). lia.
Qed.

Lemma wrap_u_small w z : 0 <= z < 2 ^ w -> wrap (TU w) z = z.
Proof. intros H. cbn [wrap]. apply Z.mod_small, H. Qed.

Lemma range_check i n : 0 <= i < n -> (0 <=? i) && (i <? n) = true.
Proof. intros H. apply andb_true_intro; split; [apply Z.leb_le|apply Z.ltb_lt]; lia. Qed.

Lemma get_idx_app pre x post : get_idx (pre ++ x :: post) (Z.of_nat (List.length pre)) = Some x.
Proof.
  unfold get_idx. rewrite range_check by (rewrite app_length; cbn [List.length]; lia).
  rewrite Nat2Z.id, nth_error_app2 by lia. now rewrite Nat.sub_diag.
Qed.

Lemma upd_nat_app pre x post v : upd_nat (pre ++ x :: post) (List.length pre) v = pre ++ v :: post.
Proof. induction pre as [|p pre IH]; cbn [app List.length upd_nat]; [reflexivity|now rewrite IH]. Qed.

Lemma upd_idx_app pre x post v : upd_idx (pre ++ x :: post) (Z.of_nat (List.length pre)) v = Some (pre ++ v :: post).
Proof.
  unfold upd_idx. rewrite range_check by (rewrite app_length; cbn [List.length]; lia).
  now rewrite Nat2Z.id, upd_nat_app.
Qed.

(* the index loop over an invariant that carries the number of iterations still to go *)
Lemma loop_idx_ind (iter : Z -> state -> sres) (P : nat -> Z -> state -> Prop) :
  (forall k from st, P (S k) from st ->
     exists st', iter from st = Some (st', None) /\ P k (from + 1) (restrict st st')) ->
  forall k from st, P k from st -> exists st', loop_idx iter k from st = Some (st', None) /\ P O (from + Z.of_nat k) st'.
Proof.
  intros Hstep k. induction k as [|k IH]; intros from st HP.
  - exists st. split; [reflexivity|]. now rewrite Z.add_0_r.
  - destruct (Hstep k from st HP) as [st' [Hi HP']]. cbn [loop_idx]. rewrite Hi.
    destruct (IH _ _ HP') as [st2 [Hl HP2]]. exists st2. split; [exact Hl|].
    replace (from + Z.of_nat (S k)) with (from + 1 + Z.of_nat k) by lia. exact HP2.
Qed.

(* big-endian accessors on a four-byte buffer *)
Lemma put_be_16_0 b0 b1 b2 b3 v : put_be 16 [b0; b1; b2; b3] 0 v = Some [Z.shiftr v 8 mod 256; Z.shiftr v 0 mod 256; b2; b3].
Proof. reflexivity. Qed.
Lemma put_be_16_2 b0 b1 b2 b3 v : put_be 16 [b0; b1; b2; b3] 2 v = Some [b0; b1; Z.shiftr v 8 mod 256; Z.shiftr v 0 mod 256].
Proof. reflexivity. Qed.
Lemma put_be_32_0 b0 b1 b2 b3 v :
  put_be 32 [b0; b1; b2; b3] 0 v = Some [Z.shiftr v 24 mod 256; Z.shiftr v 16 mod 256; Z.shiftr v 8 mod 256; Z.shiftr v 0 mod 256].
Proof. reflexivity. Qed.
Lemma get_be_32_0 b0 b1 b2 b3 : get_be 32 [b0; b1; b2; b3] 0 4 = Some (b0 * 2 ^ 24 + (b1 * 2 ^ 16 + (b2 * 2 ^ 8 + (b3 * 2 ^ 0 + 0)))).
Proof. reflexivity. Qed.
Lemma get_be_16_0 b0 b1 b2 b3 : get_be 16 [b0; b1; b2; b3] 0 4 = Some (b0 * 2 ^ 8 + (b1 * 2 ^ 0 + 0)).
Proof. reflexivity. Qed.
Lemma get_be_16_2 b0 b1 b2 b3 : get_be 16 [b0; b1; b2; b3] 2 4 = Some (b2 * 2 ^ 8 + (b3 * 2 ^ 0 + 0)).
Proof. reflexivity. Qed.

(* the iteration functions of the two range loops, named *)
Definition iterOf (i : string) (body : list sstmt) : Z -> state -> sres :=
  fun k st' => sexec_seq sexec body (set_int i (TS 64) k st').
Definition iterIV (i v : string) (t : ty) (l : list Z) (body : list sstmt) : Z -> state -> sres :=
  fun k st' => match get_idx l k with
               | Some x => sexec_seq sexec body (set_int v t x (set_int i (TS 64) k st'))
               | None => None
               end.
