(* MiniGo: the fragment of Go that the translator (harness/cmd/anchors) prints as Coq data, and its
   evaluator.  Integer variables of a fixed width, byte slices that are only read, assignments,
   if / else, "for _, v := range s", loops with a constant trip count, one return at the end.
   The translator does no reasoning of its own: it prints the syntax tree of a Go function, with
   the static type that go/types gives every operation, constructor by constructor.  What the
   function computes is decided here, by [run]. *)
From Coq Require Import ZArith List String Bool.
Import ListNotations.
Open Scope Z_scope.

Inductive ty := TU (w : Z) | TS (w : Z) | TBool | TUntyped.

(* conversion to / arithmetic in a fixed width: wrap around *)
Definition wrap (t : ty) (z : Z) : Z :=
  match t with
  | TU w => z mod 2 ^ w
  | TS w => (z + 2 ^ (w - 1)) mod 2 ^ w - 2 ^ (w - 1)
  | TBool => z
  | TUntyped => z
  end.

Inductive binop := OAdd | OSub | OMul | OAnd | OOr | OXor | OShl | OShr | OEq | ONe | OLt | OLe | OGt | OGe.

Inductive expr :=
| EVar (x : string)
| EConst (z : Z)
| EBin (op : binop) (t : ty) (a b : expr)     (* t: the static type of the result *)
| EConv (t : ty) (e : expr)
| ELen (s : string)
| EIndex (s : string) (i : expr).

Inductive stmt :=
| SDecl (x : string) (t : ty) (e : expr)      (* x := e, x of type t *)
| SAssign (x : string) (e : expr)             (* x = e and x op= e (printed as x = x op e) *)
| SIf (c : expr) (a b : list stmt)
| SRange (v : string) (t : ty) (s : string) (body : list stmt)   (* for _, v := range s *)
| SLoop (n : Z) (body : list stmt)            (* for i := n; i != 0; i-- with i unused in the body *)
| SReturn (e : expr).

Record func := { f_name : string; f_slices : list string; f_ints : list (string * ty); f_body : list stmt }.

(* ---------- environments ---------- *)
Definition env := list (string * (ty * Z)).
Definition senv := list (string * list Z).

Fixpoint lookup {A} (x : string) (e : list (string * A)) : option A :=
  match e with
  | [] => None
  | (y, v) :: e' => if String.eqb x y then Some v else lookup x e'
  end.

Fixpoint set {A} (x : string) (v : A) (e : list (string * A)) : list (string * A) :=
  match e with
  | [] => [(x, v)]
  | (y, w) :: e' => if String.eqb x y then (y, v) :: e' else (y, w) :: set x v e'
  end.

Definition b2z (b : bool) : Z := if b then 1 else 0.

Definition binop_sem (op : binop) (a b : Z) : Z :=
  match op with
  | OAdd => a + b | OSub => a - b | OMul => a * b
  | OAnd => Z.land a b | OOr => Z.lor a b | OXor => Z.lxor a b
  | OShl => Z.shiftl a b | OShr => Z.shiftr a b
  | OEq => b2z (a =? b) | ONe => b2z (negb (a =? b))
  | OLt => b2z (a <? b) | OLe => b2z (a <=? b) | OGt => b2z (b <? a) | OGe => b2z (b <=? a)
  end.

Fixpoint eval (sl : senv) (e : env) (x : expr) : option Z :=
  match x with
  | EVar v => option_map snd (lookup v e)
  | EConst z => Some z
  | EBin op t a b =>
      match eval sl e a, eval sl e b with
      | Some va, Some vb => Some (wrap t (binop_sem op va vb))
      | _, _ => None
      end
  | EConv t a => option_map (wrap t) (eval sl e a)
  | ELen s => option_map (fun l => Z.of_nat (List.length l)) (lookup s sl)
  | EIndex s i =>
      match lookup s sl, eval sl e i with
      | Some l, Some vi => if (0 <=? vi) && (vi <? Z.of_nat (List.length l)) then Some (nth (Z.to_nat vi) l 0) else None
      | _, _ => None
      end
  end.

(* result of a statement: the new environment and, after a return, the value *)
Definition res := option (env * option Z).

Definition assign (sl : senv) (e : env) (x : string) (t : ty) (ex : expr) : res :=
  match eval sl e ex with
  | Some v => Some (set x (t, wrap t v) e, None)
  | None => None
  end.

(* sequencing and the two loop forms, over any one-statement / one-iteration function *)
Section Seq.
  Variable exec1 : stmt -> env -> res.
  Fixpoint exec_seq (l : list stmt) (e : env) {struct l} : res :=
    match l with
    | [] => Some (e, None)
    | s' :: l' =>
        match exec1 s' e with
        | Some (e', None) => exec_seq l' e'
        | r => r
        end
    end.
End Seq.

Section Loops.
  Variable step : env -> res.
  Fixpoint loop_n (k : nat) (e : env) {struct k} : res :=
    match k with
    | O => Some (e, None)
    | S k' =>
        match step e with
        | Some (e', None) => loop_n k' e'
        | r => r
        end
    end.
  Variable v : string.
  Variable t : ty.
  Fixpoint loop_range (l : list Z) (e : env) {struct l} : res :=
    match l with
    | [] => Some (e, None)
    | x :: l' =>
        match step (set v (t, wrap t x) e) with
        | Some (e', None) => loop_range l' e'
        | r => r
        end
    end.
End Loops.

Fixpoint exec (sl : senv) (s : stmt) (e : env) {struct s} : res :=
  match s with
  | SDecl x t ex => assign sl e x t ex
  | SAssign x ex =>
      match lookup x e with
      | Some (t, _) => assign sl e x t ex
      | None => None
      end
  | SIf c a b =>
      match eval sl e c with
      | Some v => if v =? 0 then exec_seq (exec sl) b e else exec_seq (exec sl) a e
      | None => None
      end
  | SRange v t s body =>
      match lookup s sl with
      | Some l => loop_range (exec_seq (exec sl) body) v t l e
      | None => None
      end
  | SLoop n body => loop_n (exec_seq (exec sl) body) (Z.to_nat n) e
  | SReturn ex =>
      match eval sl e ex with
      | Some v => Some (e, Some v)
      | None => None
      end
  end.

Definition exec_list (sl : senv) : list stmt -> env -> res := exec_seq (exec sl).

(* a call: slices and integer arguments in the order of the parameter list *)
Definition run (f : func) (slices : list (list Z)) (ints : list Z) : option Z :=
  let sl := combine (f_slices f) slices in
  let e := map (fun p => (fst (fst p), (snd (fst p), wrap (snd (fst p)) (snd p)))) (combine (f_ints f) ints) in
  match exec_list sl (f_body f) e with
  | Some (_, Some v) => Some v
  | _ => None
  end.
