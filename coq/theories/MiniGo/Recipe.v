(* Steps of a Go method that feeds a hash, as the translator (harness/cmd/anchors, emitHashRecipe) prints them, and
   what each step means.  Syntax only here; the meaning over the store model's points is in Anchors/TiePointCrc.v. *)
From Coq Require Import NArith List String.
Import ListNotations.

Inductive hstep : Type :=
| HGuardZero (field : string) (const : list N)   (* if p.<field> == <const> { return 0 } *)
| HNewIEEE                                        (* h := crc32.NewIEEE() *)
| HBuf8                                           (* d := make([]byte, 8) *)
| HPutTimeNanoLE                                  (* binary.LittleEndian.PutUint64(d, uint64(p.Time.UnixNano())) *)
| HPutValueBitsLE                                 (* binary.LittleEndian.PutUint64(d, math.Float64bits(p.Value)) *)
| HWriteBuf                                       (* h.Write(d) *)
| HWriteStr (field : string)                      (* h.Write([]byte(p.<field>)) *)
| HSum32.                                         (* return h.Sum32() *)
