(* C16: the frame encoder as the loop that client/cobs-wrapper.go runs (one pass over the frame, a code byte that is
   patched while its block fills) is the declarative encoder of Cobs/Model.v ([encode]: maximal zero-free runs, each cut
   into blocks of at most 254 bytes).  Invariant: what has been emitted is the encoding of the finished runs followed by
   the encoding of the run being read, whose last block is open and whose code byte is where [code] points. *)
From Coq Require Import NArith List Bool Lia Arith.
From Verif Require Import Base.Bytes Cobs.Model.
Import ListNotations.
Local Open Scope N_scope.

Fixpoint upd {A} (l : list A) (n : nat) (v : A) : list A :=
  match l, n with
  | [], _ => []
  | _ :: t, O => v :: t
  | x :: t, S n' => x :: upd t n' v
  end.

Definition stepN (st : list N * nat) (v : N) : list N * nat :=
  let '(r, code) := st in
  let r1 := if v =? 0 then r else upd (r ++ [v]) code ((nth code (r ++ [v]) 0 + 1) mod 256) in
  if (v =? 0) || (nth code r1 0 =? 255) then (r1 ++ [1], length r1) else (r1, code).

Definition loopN (f : list N) : list N := fst (fold_left stepN f ([1], 0%nat)) ++ [0].

(* ---------- the encoding of one run: full blocks, then the open block ---------- *)
Fixpoint pre_of (fuel : nat) (run : list N) : list N :=
  match fuel with
  | O => []
  | S f => if (254 <=? length run)%nat then 255 :: firstn 254 run ++ pre_of f (skipn 254 run) else []
  end.
Fixpoint rem_of (fuel : nat) (run : list N) : list N :=
  match fuel with
  | O => []
  | S f => if (254 <=? length run)%nat then rem_of f (skipn 254 run) else run
  end.

Lemma enc_run_split : forall fuel run, (length run < fuel)%nat ->
  enc_run fuel run = pre_of fuel run ++ N.of_nat (length (rem_of fuel run) + 1) :: rem_of fuel run.
Proof.
  induction fuel as [|f IH]; intros run H; [lia|]. cbn [enc_run pre_of rem_of].
  destruct (Nat.leb_spec 254 (length run)) as [Hge|Hlt]; [|reflexivity].
  rewrite IH by (rewrite skipn_length; lia). cbn [app]. now rewrite <- app_assoc.
Qed.

Lemma rem_of_lt : forall fuel run, (length run < fuel)%nat -> (length (rem_of fuel run) < 254)%nat.
Proof.
  induction fuel as [|f IH]; intros run H; [lia|]. cbn [rem_of].
  destruct (Nat.leb_spec 254 (length run)) as [Hge|Hlt]; [|exact Hlt]. apply IH. rewrite skipn_length. lia.
Qed.

Lemma firstn_snoc_ge {A} n (l : list A) v : (n <= length l)%nat -> firstn n (l ++ [v]) = firstn n l.
Proof. intros H. rewrite firstn_app. replace (n - length l)%nat with 0%nat by lia. cbn [firstn]. apply app_nil_r. Qed.
Lemma skipn_snoc_ge {A} n (l : list A) v : (n <= length l)%nat -> skipn n (l ++ [v]) = skipn n l ++ [v].
Proof. intros H. rewrite skipn_app. replace (n - length l)%nat with 0%nat by lia. reflexivity. Qed.

(* appending one byte to the run: the open block grows, or it becomes full and a new empty one is opened *)
Lemma snoc_open : forall fuel run v, (length run + 1 < fuel)%nat -> (length (rem_of fuel run) + 1 < 254)%nat ->
  pre_of fuel (run ++ [v]) = pre_of fuel run /\ rem_of fuel (run ++ [v]) = rem_of fuel run ++ [v].
Proof.
  induction fuel as [|f IH]; intros run v H Hr; [lia|]. cbn [pre_of rem_of] in *. rewrite app_length. cbn [length].
  destruct (Nat.leb_spec 254 (length run)) as [Hge|Hlt].
  - destruct (Nat.leb_spec 254 (length run + 1)) as [_|Hx]; [|lia].
    rewrite firstn_snoc_ge, skipn_snoc_ge by lia.
    destruct (IH (skipn 254 run) v) as [Hp Hq]; [rewrite skipn_length; lia|exact Hr|]. now rewrite Hp, Hq.
  - destruct (Nat.leb_spec 254 (length run + 1)) as [Hx|_]; [lia|]. split; reflexivity.
Qed.

Lemma pre_rem_nil f : pre_of f [] = [] /\ rem_of f [] = [].
Proof. destruct f; split; reflexivity. Qed.

Lemma snoc_full : forall fuel run v, (length run + 1 < fuel)%nat -> (length (rem_of fuel run) + 1 = 254)%nat ->
  pre_of fuel (run ++ [v]) = pre_of fuel run ++ 255 :: rem_of fuel run ++ [v] /\ rem_of fuel (run ++ [v]) = [].
Proof.
  induction fuel as [|f IH]; intros run v H Hr; [lia|]. cbn [pre_of rem_of] in *. rewrite app_length. cbn [length].
  destruct (Nat.leb_spec 254 (length run)) as [Hge|Hlt].
  - destruct (Nat.leb_spec 254 (length run + 1)) as [_|Hx]; [|lia].
    rewrite firstn_snoc_ge, skipn_snoc_ge by lia.
    destruct (IH (skipn 254 run) v) as [Hp Hq]; [rewrite skipn_length; lia|exact Hr|]. rewrite Hp, Hq.
    split; [|reflexivity]. cbn [app]. now rewrite <- !app_assoc.
  - destruct (Nat.leb_spec 254 (length run + 1)) as [_|Hx]; [|lia].
    assert (Hl : length (run ++ [v]) = 254%nat) by (rewrite app_length; cbn [length]; lia).
    rewrite firstn_all2 by lia. rewrite skipn_all2 by lia.
    destruct (pre_rem_nil f) as [-> ->]. split; [|reflexivity]. cbn [app]. now rewrite app_nil_r.
Qed.

Lemma pre_rem_fuel : forall f1 f2 run, (length run < f1)%nat -> (length run < f2)%nat ->
  pre_of f1 run = pre_of f2 run /\ rem_of f1 run = rem_of f2 run.
Proof.
  induction f1 as [|f1 IH]; intros f2 run H1 H2; [lia|]. destruct f2 as [|f2]; [lia|]. cbn [pre_of rem_of].
  destruct (Nat.leb_spec 254 (length run)) as [Hge|Hlt]; [|split; reflexivity].
  destruct (IH f2 (skipn 254 run)) as [Hp Hq]; try (rewrite skipn_length; lia). now rewrite Hp, Hq.
Qed.

Definition preF (run : list N) : list N := pre_of (S (S (length run))) run.
Definition remF (run : list N) : list N := rem_of (S (S (length run))) run.
Definition E (run : list N) : list N := enc_run (S (length run)) run.

Lemma E_split run : E run = preF run ++ N.of_nat (length (remF run) + 1) :: remF run.
Proof.
  unfold E, preF, remF. rewrite enc_run_split by lia.
  destruct (pre_rem_fuel (S (length run)) (S (S (length run))) run) as [-> ->]; try lia. reflexivity.
Qed.
Lemma remF_lt run : (length (remF run) < 254)%nat.
Proof. apply rem_of_lt. lia. Qed.

Lemma F_snoc run v :
  (if (length (remF run) + 1 <? 254)%nat
   then preF (run ++ [v]) = preF run /\ remF (run ++ [v]) = remF run ++ [v]
   else preF (run ++ [v]) = preF run ++ 255 :: remF run ++ [v] /\ remF (run ++ [v]) = []).
Proof.
  unfold preF, remF. rewrite app_length. cbn [length].
  destruct (pre_rem_fuel (S (S (length run))) (S (S (length run + 1))) run) as [Hp Hq]; try lia. rewrite Hp, Hq.
  pose proof (rem_of_lt (S (S (length run + 1))) run ltac:(lia)) as Hlt.
  destruct (Nat.ltb_spec (length (rem_of (S (S (length run + 1))) run) + 1) 254) as [Ho|Hf].
  - apply snoc_open; lia.
  - apply snoc_full; lia.
Qed.

(* ---------- list surgery ---------- *)
Lemma nth_mid {A} (X : list A) c Y d : nth (length X) (X ++ c :: Y) d = c.
Proof. induction X as [|x X IH]; [reflexivity|exact IH]. Qed.
Lemma upd_mid {A} (X : list A) c Y v : upd (X ++ c :: Y) (length X) v = X ++ v :: Y.
Proof. induction X as [|x X IH]; [reflexivity|]. cbn [app length upd]. now rewrite IH. Qed.

(* ---------- one step on a non-zero byte ---------- *)
Lemma step_nonzero G cur v : v <> 0 ->
  stepN (G ++ E cur, length (G ++ preF cur)) v = (G ++ E (cur ++ [v]), length (G ++ preF (cur ++ [v]))).
Proof.
  intros Hv. unfold stepN. rewrite (proj2 (N.eqb_neq v 0) Hv). cbn [orb].
  rewrite E_split. set (rm := remF cur). set (pr := preF cur).
  assert (Hrm : (length rm < 254)%nat) by apply remF_lt.
  replace ((G ++ pr ++ N.of_nat (length rm + 1) :: rm) ++ [v]) with ((G ++ pr) ++ N.of_nat (length rm + 1) :: (rm ++ [v]))
    by (rewrite <- !app_assoc; reflexivity).
  rewrite nth_mid, upd_mid, nth_mid.
  assert (Hc : (N.of_nat (length rm + 1) + 1) mod 256 = N.of_nat (length rm + 2)).
  { rewrite N.mod_small by lia. lia. }
  rewrite Hc. pose proof (F_snoc cur v) as HF. fold rm pr in HF. rewrite E_split.
  destruct (Nat.ltb_spec (length rm + 1) 254) as [Ho|Hf].
  - destruct HF as [-> ->]. destruct (N.eqb_spec (N.of_nat (length rm + 2)) 255) as [Hx|_]; [lia|].
    rewrite <- !app_assoc. rewrite !app_length. cbn [length].
    replace (length rm + 1 + 1)%nat with (length rm + 2)%nat by lia. reflexivity.
  - destruct HF as [-> ->]. destruct (N.eqb_spec (N.of_nat (length rm + 2)) 255) as [_|Hx]; [|lia].
    cbn [length]. replace (N.of_nat (length rm + 2)) with 255 by lia. f_equal.
    + rewrite <- !app_assoc. cbn [app]. rewrite <- !app_assoc. reflexivity.
    + rewrite !app_length. cbn [length]. rewrite !app_length. cbn [length]. lia.
Qed.

Lemma E_nil : E [] = [1] /\ preF [] = [].
Proof. split; reflexivity. Qed.

Lemma step_zero G cur : stepN (G ++ E cur, length (G ++ preF cur)) 0 = ((G ++ E cur) ++ E [], length ((G ++ E cur) ++ preF [])).
Proof. unfold stepN. cbn [N.eqb orb]. destruct E_nil as [-> ->]. now rewrite app_nil_r. Qed.

Lemma loop_runs : forall l G cur, Forall (fun b => b < 256) l ->
  fst (fold_left stepN l (G ++ E cur, length (G ++ preF cur))) =
  G ++ flat_map (fun r => enc_run (S (length r)) r) (runs (rev cur) l).
Proof.
  induction l as [|v l IH]; intros G cur Hok.
  - cbn [fold_left fst runs flat_map]. rewrite rev_involutive, app_nil_r. reflexivity.
  - inversion Hok as [|? ? Hv Hok']; subst. cbn [fold_left runs].
    destruct (N.eqb_spec v 0) as [->|Hnz].
    + rewrite step_zero. rewrite (IH (G ++ E cur) []) by exact Hok'. cbn [rev flat_map]. rewrite rev_involutive.
      fold (E cur). now rewrite <- app_assoc.
    + rewrite step_nonzero by exact Hnz. rewrite (IH G (cur ++ [v])) by exact Hok'. rewrite rev_app_distr. reflexivity.
Qed.

Theorem loopN_is_encode f : Forall (fun b => b < 256) f -> loopN f = encode f.
Proof.
  intros Hok. unfold loopN, encode, enc_body. f_equal.
  pose proof (loop_runs f [] [] Hok) as H. cbn [app rev length] in H. destruct E_nil as [He Hp]. rewrite He, Hp in H. exact H.
Qed.

(* ---------- what the encoder emits are bytes ---------- *)
Lemma Forall_firstn' {A} (P : A -> Prop) : forall n l, Forall P l -> Forall P (firstn n l).
Proof. induction n as [|n IH]; intros [|x l] H; cbn [firstn]; try constructor; inversion H; subst; auto. Qed.
Lemma Forall_skipn' {A} (P : A -> Prop) : forall n l, Forall P l -> Forall P (skipn n l).
Proof. induction n as [|n IH]; intros [|x l] H; cbn [skipn]; try assumption; inversion H; subst; auto. Qed.
Lemma enc_run_bytes : forall fuel run, Forall (fun b => b < 256) run -> Forall (fun b => b < 256) (enc_run fuel run).
Proof.
  induction fuel as [|fu IH]; intros run Hrun; cbn [enc_run]; [repeat constructor|].
  destruct (Nat.leb_spec 254 (length run)) as [Hge|Hlt].
  - constructor; [reflexivity|]. apply Forall_app. split; [apply Forall_firstn'|apply IH, Forall_skipn']; exact Hrun.
  - constructor; [lia|exact Hrun].
Qed.

Lemma runs_in : forall l cur r x, In r (runs cur l) -> In x r -> In x (rev cur) \/ In x l.
Proof.
  induction l as [|b l IH]; intros cur r x Hr Hx; cbn [runs] in Hr.
  - destruct Hr as [<-|[]]. left. exact Hx.
  - destruct (b =? 0).
    + destruct Hr as [<-|Hr]; [left; exact Hx|]. destruct (IH [] r x Hr Hx) as [[]|H]. right. right. exact H.
    + destruct (IH (b :: cur) r x Hr Hx) as [H|H]; [|right; right; exact H].
      cbn [rev] in H. apply in_app_or in H. destruct H as [H|[<-|[]]]; [left; exact H|right; left; reflexivity].
Qed.

Lemma encode_bytes f : Forall (fun b => b < 256) f -> Forall (fun b => b < 256) (encode f).
Proof.
  intros Hok. unfold encode, enc_body. apply Forall_app. split; [|repeat constructor].
  apply Forall_forall. intros x Hx. apply in_flat_map in Hx. destruct Hx as [r [Hr Hx]].
  assert (Hrb : Forall (fun b => b < 256) r).
  { apply Forall_forall. intros y Hy. destruct (runs_in f [] r y Hr Hy) as [[]|H]. exact (proj1 (Forall_forall _ _) Hok y H). }
  exact (proj1 (Forall_forall _ _) (enc_run_bytes _ r Hrb) x Hx).
Qed.
