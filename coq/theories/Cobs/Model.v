(* C16: executable model of client/cobs-wrapper.go (CobsWrapper.Read / Write,
   cobsDecodeInplace, cobsEncode) and of the property's specification.
   No proofs here: the model must keep running when a proof breaks. *)
From Verif Require Import Base.Bytes Base.Val.
Local Open Scope N_scope.

(* ---------- cobsDecodeInplace ----------
   [dec off ioff out l]: state of the loop after the start byte has been found:
   off = current block code, ioff = bytes consumed in the block, out = output
   so far (reversed).  None = ErrCobsDecodeError. *)
Fixpoint dec (off ioff : N) (out : list N) (l : list N) : option (list N) :=
  match l with
  | [] => Some (rev out)                       (* loop ran off the end: Go returns iOut, nil *)
  | b :: l' =>
      let ioff' := ioff + 1 in
      if ioff' =? off then
        if b =? 0 then Some (rev out)          (* terminator where a code byte is expected *)
        else dec b 0 (if off =? 255 then out else 0 :: out) l'
      else if b =? 0 then None                 (* ErrCobsDecodeError *)
      else dec off ioff' (b :: out) l'
  end.

(* skipping leading zeros, then the first code byte *)
Fixpoint decode (l : list N) : option (list N) :=
  match l with
  | [] => Some []
  | b :: l' => if b =? 0 then decode l' else dec b 0 [] l'
  end.

(* results of one CobsWrapper.Read call *)
Inductive rres :=
| RFrame (p : list N)
| RErr (e : N).      (* 1 decode error, 2 too much data, 3 not enough data, 9 device error *)

Definition rres_eqb (a b : rres) : bool :=
  match a, b with
  | RFrame p, RFrame q => bytes_eqb p q
  | RErr x, RErr y => x =? y
  | _, _ => false
  end.

(* cobsDecodeInplace(b) including the length guard *)
Definition decode_inplace (b : list N) : rres :=
  if (length b <=? 2)%nat then RErr 3
  else match decode b with
       | Some p => RFrame p
       | None => RErr 1
       end.

(* ---------- cobsEncode (the frame writer) ---------- *)
Fixpoint enc_run (fuel : nat) (run : list N) : list N :=
  match fuel with
  | O => [1]
  | S fuel' =>
      if (254 <=? length run)%nat
      then 255 :: firstn 254 run ++ enc_run fuel' (skipn 254 run)
      else N.of_nat (length run + 1) :: run
  end.

(* runs = maximal zero-free segments; k zeros give k+1 runs *)
Fixpoint runs (cur : list N) (l : list N) : list (list N) :=
  match l with
  | [] => [rev cur]
  | b :: l' => if b =? 0 then rev cur :: runs [] l' else runs (b :: cur) l'
  end.

Definition enc_body (f : list N) : list N :=
  flat_map (fun r => enc_run (S (length r)) r) (runs [] f).

Definition encode (f : list N) : list N := enc_body f ++ [0].

(* CobsWrapper.Write: a leading delimiter, then the encoded frame *)
Definition write (f : list N) : list N := 0 :: encode f.

(* ---------- CobsWrapper.Read ---------- *)
Definition isz (b : N) : bool := b =? 0.

Fixpoint strip0 (l : list N) : list N :=
  match l with
  | b :: l' => if isz b then strip0 l' else l
  | [] => []
  end.

(* split at first zero: Some (before, after) *)
Fixpoint cut0 (l : list N) : option (list N * list N) :=
  match l with
  | [] => None
  | b :: l' => if isz b then Some ([], l')
               else match cut0 l' with Some (f, r) => Some (b :: f, r) | None => None end
  end.

Definition take_frame (buf : list N) : option (list N * list N) := cut0 (strip0 buf).

Section Reader.
Variable blen : nat.      (* len(b) of the caller's buffer *)
Variable maxlen : nat.    (* maxMessageLength *)

(* what Read returns for a complete segment (without its terminator) *)
Definition seg_result (seg : list N) : rres :=
  if (blen <? length seg + 1)%nat then RErr 2 else decode_inplace (seg ++ [0]).

Definition guard_fires (s : list N) : bool :=
  (blen <=? length s)%nat || (maxlen <? length s)%nat.

(* Successive Read calls until the device reports an error (script exhausted):
   [lo] = readLeftover, [chunks] = what the device will return, one per dev.Read *)
Fixpoint reads (fuel : nat) (lo : list N) (chunks : list (list N)) : list rres :=
  match fuel with
  | O => []
  | S fuel' =>
    match take_frame lo with
    | Some (seg, rest) => seg_result seg :: reads fuel' rest chunks
    | None =>
        let s := strip0 lo in
        if guard_fires s then RErr 2 :: reads fuel' [] chunks
        else match chunks with
             | [] => [RErr 9]
             | c :: cs => reads fuel' (s ++ c) cs
             end
    end
  end.

Definition reads_fuel (lo : list N) (chunks : list (list N)) : nat :=
  S (2 * (length lo + length (concat chunks) + length chunks) + 2).

Definition reads_all (chunks : list (list N)) : list rres :=
  reads (reads_fuel [] chunks) [] chunks.
End Reader.

(* ---------- specification: frames of a stream ---------- *)
Fixpoint frames_fuel (n : nat) (s : list N) : list (list N) * list N :=
  match n with
  | O => ([], s)
  | S n' => match take_frame s with
            | Some (f, r) => let '(fs, t) := frames_fuel n' r in (f :: fs, t)
            | None => ([], strip0 s)
            end
  end.
Definition frames (s : list N) := frames_fuel (S (length s)) s.

(* ---------- the pinned third-party encoder (dim13/cobs.Encode), for Legacy ---------- *)
Fixpoint enc_run_legacy (fuel : nat) (run : list N) : list N :=
  match fuel with
  | O => [1]
  | S fuel' =>
      if (254 <? length run)%nat
      then 255 :: firstn 254 run ++ enc_run_legacy fuel' (skipn 254 run)
      else N.of_nat (length run + 1) :: run
  end.
Definition encode_legacy (f : list N) : list N :=
  flat_map (fun r => enc_run_legacy (S (length r)) r) (runs [] f) ++ [0].

(* ---------- case checker (correspondence + specification) ---------- *)
Record case := {
  c_blen : nat; c_maxlen : nat;
  c_frames : list (list N);        (* frames handed to Write *)
  c_written : list (list N);       (* what Write sent to the device, per call *)
  c_chunks : list (list N);        (* what the device returned per Read (after damage) *)
  c_results : list rres;           (* what CobsWrapper.Read returned, until device error *)
  c_pre : list (list N);           (* frames complete before the damage *)
  c_post : list (list N)           (* frames beginning after the damage *)
}.

Fixpoint is_prefix (a l : list rres) : option (list rres) :=
  match a, l with
  | [], _ => Some l
  | x :: a', y :: l' => if rres_eqb x y then is_prefix a' l' else None
  | _ :: _, [] => None
  end.

Definition is_suffix (a l : list rres) : bool :=
  match is_prefix (rev a) (rev l) with Some _ => true | None => false end.

Definition check_case (c : case) : N :=
  let corr := list_eqb bytes_eqb (map write (c_frames c)) (c_written c)
              && list_eqb rres_eqb (reads_all (c_blen c) (c_maxlen c) (c_chunks c)) (c_results c) in
  let spec := match is_prefix (map RFrame (c_pre c)) (c_results c) with
              | Some rest => is_suffix (map RFrame (c_post c) ++ [RErr 9]) rest
              | None => false
              end in
  code corr spec.

(* ---------- decoding a case handed over by the harness ---------- *)
Definition rres_of_val (v : val) : option rres :=
  match v with
  | VL [VN 0; VB p] => Some (RFrame p)
  | VL [VN 1; VN e] => Some (RErr e)
  | _ => None
  end.

Definition case_of_val (v : val) : option case :=
  match v with
  | VL [bl; ml; fr; wr; ch; rs; pre; post] =>
      bl <- get_nat bl ;; ml <- get_nat ml ;;
      fr <- get_list get_b fr ;; wr <- get_list get_b wr ;; ch <- get_list get_b ch ;;
      rs <- get_list rres_of_val rs ;;
      pre <- get_list get_b pre ;; post <- get_list get_b post ;;
      Some {| c_blen := bl; c_maxlen := ml; c_frames := fr; c_written := wr; c_chunks := ch;
              c_results := rs; c_pre := pre; c_post := post |}
  | _ => None
  end.

Definition check_val : val -> N := check_with case_of_val check_case.
